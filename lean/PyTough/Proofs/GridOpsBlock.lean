/-
  Invariant preservation: add_block, delete_connection, delete_block, demote_block, add_connection.
-/
import PyTough.Proofs.GridOpsRock
namespace Proofs.Grid
open Py Model Model.Grid Model.Grid.World

/-- no connection of the grid mentions block `b` -/
theorem no_mention_of_conn_nil {w : World} (hI : Grid.Inv w) {b : Nat} (hb : b ∈ w.blocklist)
    (h : (w.bk b).conn = []) : ∀ c ∈ w.connectionlist, (w.cn c).b0 ≠ b ∧ (w.cn c).b1 ≠ b := by
  intro c hc
  have : ¬ ∃ c' ∈ w.connectionlist, w.ckey c' = w.ckey c ∧ ((w.cn c').b0 = b ∨ (w.cn c').b1 = b) := by
    intro hh
    have := (hI.conn_iff b hb (w.ckey c)).mpr hh
    rw [h] at this; cases this
  constructor
  · intro e; exact this ⟨c, hc, rfl, Or.inl e⟩
  · intro e; exact this ⟨c, hc, rfl, Or.inr e⟩

/-- `add_block(b)` for a block object `b` that is not yet listed, has no connections, and whose
    rock type is registered: the name is new, or the block it replaces has no connections -/
theorem addBlock_inv {w : World} (hI : Grid.Inv w) {b : Nat} (hb : b < w.blks.length) (hnew : b ∉ w.blocklist)
    (hconn : (w.bk b).conn = []) (hrock : (w.bk b).rock ∈ w.rocktypelist)
    (hfree : ∀ old, dget w.block (w.bname b) = some old → (w.bk old).conn = []) :
    Grid.Inv (worldOf (addBlock w b)) := by
  have hB := hI.blockInv
  have hnomention : ∀ c ∈ w.connectionlist, (w.cn c).b0 ≠ b ∧ (w.cn c).b1 ≠ b := fun c hc =>
    ⟨fun e => hnew (e ▸ (hI.c_ends c hc).1), fun e => hnew (e ▸ (hI.c_ends c hc).2.1)⟩
  -- common part: any new list/dict satisfying BlockInv whose members are `b` and old members that
  -- still include every connection endpoint
  have key : ∀ (l : List Nat) (d : Dict Name Nat),
      BlockInv { w with blocklist := l, block := d } →
      (∀ x, x ∈ l → x = b ∨ x ∈ w.blocklist) →
      (∀ c ∈ w.connectionlist, (w.cn c).b0 ∈ l ∧ (w.cn c).b1 ∈ l) →
      Grid.Inv { w with blocklist := l, block := d } := by
    intro l d hBI hsub hends
    refine Inv.mk' ?_ hBI ?_ ?_ ?_
    · exact hI.rockInv.frame rfl rfl (Nat.le_refl _) (fun _ _ => rfl)
    · exact hI.conInv.frame rfl rfl (Nat.le_refl _) hends (fun _ _ => rfl) (fun _ _ => rfl)
    · intro x hx
      rcases hsub x hx with rfl | hx'
      · exact hrock
      · exact hI.b_rock x hx'
    · refine ⟨?_, ?_⟩
      · intro x hx
        rcases hsub x hx with rfl | hx'
        · show (w.bk x).conn.Nodup; rw [hconn]; exact List.nodup_nil
        · exact hI.conn_nodup x hx'
      · intro x hx k
        rcases hsub x hx with rfl | hx'
        · show k ∈ (w.bk x).conn ↔ _
          rw [hconn]
          simp only [List.not_mem_nil, false_iff, not_exists, not_and]
          intro c hc _ hm
          rcases hm with e | e
          · exact (hnomention c hc).1 e
          · exact (hnomention c hc).2 e
        · exact hI.conn_iff x hx' k
  cases hd : dget w.block (w.bname b) with
  | none =>
    simp only [addBlock, hd, worldOf_ok]
    refine key _ _ ⟨?_, ?_, ?_, ?_⟩ ?_ ?_
    · intro x hx; simp at hx; rcases hx with hx | hx
      · exact hB.bl_lt x hx
      · subst hx; exact hb
    · simp [List.nodup_append, hB.bl_nodup]; intro a ha e; exact hnew (e ▸ ha)
    · intro n x hx
      simp only [dget_dset] at hx
      split at hx
      · cases hx; subst_vars; simp; rfl
      · have := hB.bd_sound n x hx; exact ⟨by simp [this.1], this.2⟩
    · intro x hx
      simp at hx
      show dget (dset w.block (w.bname b) b) (w.bname x) = some x
      rw [dget_dset]
      rcases hx with hx | hx
      · have e := hB.bd_complete x hx
        have : w.bname b ≠ w.bname x := by intro e2; rw [← e2, hd] at e; cases e
        simp [this, e]
      · subst hx; simp
    · intro x hx; simp at hx; rcases hx with hx | hx
      · exact Or.inr hx
      · exact Or.inl hx
    · intro c hc; have := hI.c_ends c hc; simp [this.1, this.2.1]
  | some old =>
    have hold := hB.bd_sound _ _ hd
    cases hl : replaceFirst w.blocklist old b with
    | none => exact absurd hold.1 (replaceFirst_none.mp hl)
    | some l =>
      simp only [addBlock, hd, hl, worldOf_ok]
      have hmem := mem_replaceFirst hB.bl_nodup hl
      have hnm := no_mention_of_conn_nil hI hold.1 (hfree old hd)
      refine key _ _ ⟨?_, ?_, ?_, ?_⟩ ?_ ?_
      · intro x hx; rcases (hmem x).mp hx with hx | ⟨hx, _⟩
        · subst hx; exact hb
        · exact hB.bl_lt x hx
      · exact nodup_replaceFirst hB.bl_nodup hnew hl
      · intro n x hx
        simp only [dget_dset] at hx
        split at hx
        · cases hx; subst_vars; exact ⟨(hmem _).mpr (Or.inl rfl), rfl⟩
        · rename_i hne
          have := hB.bd_sound n x hx
          refine ⟨(hmem x).mpr (Or.inr ⟨this.1, ?_⟩), this.2⟩
          intro e; subst e; exact hne (hold.2.symm.trans this.2 ▸ rfl)
      · intro x hx
        show dget (dset w.block (w.bname b) b) (w.bname x) = some x
        rw [dget_dset]
        rcases (hmem x).mp hx with hx | ⟨hx, hne⟩
        · subst hx; simp
        · have : w.bname b ≠ w.bname x := by
            intro e2
            exact hne (hB.name_inj hx hold.1 (e2.symm.trans hold.2.symm))
          simp [this, hB.bd_complete x hx]
      · intro x hx; rcases (hmem x).mp hx with hx | ⟨hx, _⟩
        · exact Or.inl hx
        · exact Or.inr hx
      · intro c hc
        have := hI.c_ends c hc
        exact ⟨(hmem _).mpr (Or.inr ⟨this.1, (hnm c hc).1⟩), (hmem _).mpr (Or.inr ⟨this.2.1, (hnm c hc).2⟩)⟩

/-! ### changes to connections and connection records of blocks -/

/-- if only connections (objects, list, dictionary) and the blocks' `connection_name` change, it
    suffices to re-establish the two connection components -/
theorem inv_of_con_change {w w' : World} (hI : Grid.Inv w)
    (hr : w'.rocks = w.rocks) (hrl : w'.rocktypelist = w.rocktypelist) (hrd : w'.rocktype = w.rocktype)
    (hbl : w'.blocklist = w.blocklist) (hbd : w'.block = w.block)
    (hlen : w.blks.length ≤ w'.blks.length)
    (hname : ∀ x ∈ w.blocklist, w'.bname x = w.bname x)
    (hrock : ∀ x ∈ w.blocklist, (w'.bk x).rock = (w.bk x).rock)
    (hC : ConInv w') (hL : ConnLink w') : Grid.Inv w' := by
  refine Inv.mk' ?_ ?_ hC ?_ hL
  · exact hI.rockInv.frame hrl hrd (by rw [hr]; exact Nat.le_refl _) (fun x _ => by simp only [World.rname, World.rk, hr])
  · exact hI.blockInv.frame hbl hbd hlen hname
  · exact hI.rockLink.frame hbl (fun r h => hrl ▸ h) hrock

/-- the state after a successful `delete_connection(k)` of connection `c` between `b0` and `b1` -/
def delConWorld (w : World) (k : CName) (c b0 b1 : Nat) : World :=
  { w with blks := (w.blks.set b0 { w.bk b0 with conn := (w.bk b0).conn.erase k }).set b1
                      { w.bk b1 with conn := (w.bk b1).conn.erase k },
           connection := ddel w.connection k,
           connectionlist := w.connectionlist.erase c }

theorem deleteConnection_ok {w : World} (hI : Grid.Inv w) {k : CName} {c : Nat} (hd : dget w.connection k = some c) :
    deleteConnection w k = .ok
      (delConWorld w k c (w.cn c).b0 (w.cn c).b1) := by
  have hc := hI.cd_sound k c hd
  have ends := hI.c_ends c hc.1
  have hk0 : k ∈ (w.bk (w.cn c).b0).conn := (hI.conn_iff _ ends.1 k).mpr ⟨c, hc.1, hc.2, Or.inl rfl⟩
  have hk1 : k ∈ (w.bk (w.cn c).b1).conn := (hI.conn_iff _ ends.2.1 k).mpr ⟨c, hc.1, hc.2, Or.inr rfl⟩
  have hne := ends.2.2
  simp only [deleteConnection, hd, connRemove, hk0, if_true, bk_setBlk, hne, false_and, if_false, hk1]
  simp only [World.setBlk, hc.1, if_true, delConWorld]

/-- `delete_connection(k)`: no precondition -/
theorem deleteConnection_inv {w : World} (hI : Grid.Inv w) (k : CName) :
    Grid.Inv (worldOf (deleteConnection w k)) := by
  cases hd : dget w.connection k with
  | none => simp only [deleteConnection, hd, worldOf_ok]; exact hI
  | some c =>
    rw [deleteConnection_ok hI hd, worldOf_ok]
    have hC := hI.conInv
    have hc := hI.cd_sound k c hd
    have ends := hI.c_ends c hc.1
    have hlt0 := hI.bl_lt _ ends.1
    have hlt1 := hI.bl_lt _ ends.2.1
    generalize hb0 : (w.cn c).b0 = b0 at *
    generalize hb1 : (w.cn c).b1 = b1 at *
    -- the block records afterwards
    have hbk : ∀ x, (delConWorld w k c b0 b1).bk x =
        if x = b0 ∨ x = b1 then { w.bk x with conn := (w.bk x).conn.erase k } else w.bk x := by
      intro x
      simp only [delConWorld, World.bk, getD_set, List.length_set]
      by_cases h1 : b1 = x
      · subst h1; simp [hlt1]
      · by_cases h0 : b0 = x
        · subst h0; simp [h1, hlt0]
        · simp [h0, h1, Ne.symm h0, Ne.symm h1]
    have hnm : ∀ x, (delConWorld w k c b0 b1).bname x = w.bname x := by
      intro x; simp only [World.bname, hbk]; split <;> rfl
    have hkey : ∀ x, (delConWorld w k c b0 b1).ckey x = w.ckey x := by
      intro x; simp only [World.ckey, hnm]; rfl
    refine inv_of_con_change hI rfl rfl rfl rfl rfl (by simp [delConWorld]) (fun x _ => hnm x) ?_ ⟨?_, ?_, ?_, ?_, ?_⟩ ⟨?_, ?_⟩
    · intro x _; rw [hbk]; split <;> rfl
    · intro x hx; exact hC.cl_lt x (List.mem_of_mem_erase hx)
    · exact hC.cl_nodup.erase _
    · intro k' x hx
      change dget (ddel w.connection k) k' = some x at hx
      rw [dget_ddel] at hx
      split at hx
      · cases hx
      · rename_i hne
        have := hC.cd_sound k' x hx
        rw [hkey]
        refine ⟨(hC.cl_nodup.mem_erase_iff).mpr ⟨?_, this.1⟩, this.2⟩
        intro e; subst e; exact hne (hc.2.symm.trans this.2)
    · intro x hx
      have hx' := (hC.cl_nodup.mem_erase_iff).mp hx
      change dget (ddel w.connection k) _ = some x
      rw [hkey, dget_ddel]
      have : k ≠ w.ckey x := by
        intro e; exact hx'.1 (hC.key_inj hx'.2 hc.1 (e.symm.trans hc.2.symm))
      simp [this, hC.cd_complete x hx'.2]
    · intro x hx
      exact hC.c_ends x (List.mem_of_mem_erase hx)
    · intro x hx
      rw [hbk]; split
      · exact (hI.conn_nodup x hx).erase _
      · exact hI.conn_nodup x hx
    · intro x hx k'
      have hiff := hI.conn_iff x hx k'
      have hnd := hI.conn_nodup x hx
      rw [hbk]
      simp only [hkey]
      change _ ↔ ∃ c' ∈ w.connectionlist.erase c, w.ckey c' = k' ∧ ((w.cn c').b0 = x ∨ (w.cn c').b1 = x)
      have hcm : (w.cn c).b0 = x ∨ (w.cn c).b1 = x ↔ x = b0 ∨ x = b1 := by
        rw [hb0, hb1]; constructor <;> (rintro (h | h) <;> simp [h])
      split
      · rename_i hx01
        show k' ∈ (w.bk x).conn.erase k ↔ _
        rw [hnd.mem_erase_iff, hiff]
        constructor
        · rintro ⟨hne, c', hc', e, hm⟩
          refine ⟨c', (hC.cl_nodup.mem_erase_iff).mpr ⟨?_, hc'⟩, e, hm⟩
          intro e2; subst e2; exact hne (e.symm.trans hc.2)
        · rintro ⟨c', hc', e, hm⟩
          have hc'' := (hC.cl_nodup.mem_erase_iff).mp hc'
          refine ⟨?_, c', hc''.2, e, hm⟩
          intro e2
          exact hc''.1 (hC.key_inj hc''.2 hc.1 (e.trans (e2.trans hc.2.symm)))
      · rename_i hx01
        rw [hiff]
        constructor
        · rintro ⟨c', hc', e, hm⟩
          refine ⟨c', (hC.cl_nodup.mem_erase_iff).mpr ⟨?_, hc'⟩, e, hm⟩
          intro e2; subst e2; exact hx01 (hcm.mp hm)
        · rintro ⟨c', hc', e, hm⟩
          exact ⟨c', List.mem_of_mem_erase hc', e, hm⟩

theorem deleteConnection_isOk {w : World} (hI : Grid.Inv w) (k : CName) : ∃ w', deleteConnection w k = .ok w' := by
  cases hd : dget w.connection k with
  | none => exact ⟨w, by simp only [deleteConnection, hd]⟩
  | some c => exact ⟨_, deleteConnection_ok hI hd⟩

/-- what `delete_connection(k)` leaves alone, and that no block remembers `k` afterwards -/
theorem deleteConnection_props {w w' : World} (hI : Grid.Inv w) {k : CName} (h : deleteConnection w k = .ok w') :
    w'.blocklist = w.blocklist ∧ w'.block = w.block ∧ w'.rocks = w.rocks ∧ w'.rocktypelist = w.rocktypelist ∧
    w'.rocktype = w.rocktype ∧
    (∀ x, ∀ k', k' ∈ (w'.bk x).conn → k' ∈ (w.bk x).conn) ∧
    (∀ x ∈ w.blocklist, k ∉ (w'.bk x).conn) := by
  have hI' : Grid.Inv w' := by have := deleteConnection_inv hI k; rw [h] at this; exact this
  have hnone : dget w'.connection k = none := by
    cases hd : dget w.connection k with
    | none => simp only [deleteConnection, hd, Except.ok.injEq] at h; subst h; exact hd
    | some c =>
      rw [deleteConnection_ok hI hd, Except.ok.injEq] at h; subst h
      simp [delConWorld]
  have hbl : w'.blocklist = w.blocklist := by
    cases hd : dget w.connection k with
    | none => simp only [deleteConnection, hd, Except.ok.injEq] at h; subst h; rfl
    | some c => rw [deleteConnection_ok hI hd, Except.ok.injEq] at h; subst h; rfl
  refine ⟨hbl, ?_, ?_, ?_, ?_, ?_, ?_⟩
  · cases hd : dget w.connection k with
    | none => simp only [deleteConnection, hd, Except.ok.injEq] at h; subst h; rfl
    | some c => rw [deleteConnection_ok hI hd, Except.ok.injEq] at h; subst h; rfl
  · cases hd : dget w.connection k with
    | none => simp only [deleteConnection, hd, Except.ok.injEq] at h; subst h; rfl
    | some c => rw [deleteConnection_ok hI hd, Except.ok.injEq] at h; subst h; rfl
  · cases hd : dget w.connection k with
    | none => simp only [deleteConnection, hd, Except.ok.injEq] at h; subst h; rfl
    | some c => rw [deleteConnection_ok hI hd, Except.ok.injEq] at h; subst h; rfl
  · cases hd : dget w.connection k with
    | none => simp only [deleteConnection, hd, Except.ok.injEq] at h; subst h; rfl
    | some c => rw [deleteConnection_ok hI hd, Except.ok.injEq] at h; subst h; rfl
  · intro x k' hk'
    cases hd : dget w.connection k with
    | none => simp only [deleteConnection, hd, Except.ok.injEq] at h; subst h; exact hk'
    | some c =>
      rw [deleteConnection_ok hI hd, Except.ok.injEq] at h; subst h
      simp only [delConWorld, World.bk, getD_set, List.length_set] at hk'
      split at hk'
      · rename_i hh; rw [← hh.1]; exact List.mem_of_mem_erase hk'
      · split at hk'
        · rename_i hh; rw [← hh.1]; exact List.mem_of_mem_erase hk'
        · exact hk'
  · intro x hx hk
    rw [← hbl] at hx
    obtain ⟨c, hc, e, _⟩ := (hI'.conn_iff x hx k).mp hk
    have := hI'.cd_complete c hc
    rw [e, hnone] at this; cases this

/-- the loop of `delete_block` over the block's connection names -/
theorem deleteConnections_spec {w : World} (hI : Grid.Inv w) (l : List CName) :
    ∃ w', deleteConnections w l = .ok w' ∧ Grid.Inv w' ∧
      w'.blocklist = w.blocklist ∧ w'.block = w.block ∧ w'.rocks = w.rocks ∧ w'.rocktypelist = w.rocktypelist ∧
      w'.rocktype = w.rocktype ∧
      (∀ x, ∀ k', k' ∈ (w'.bk x).conn → k' ∈ (w.bk x).conn) ∧
      (∀ x ∈ w.blocklist, ∀ k ∈ l, k ∉ (w'.bk x).conn) := by
  induction l generalizing w with
  | nil => exact ⟨w, rfl, hI, rfl, rfl, rfl, rfl, rfl, fun _ _ h => h, fun _ _ _ h => by cases h⟩
  | cons k r ih =>
    obtain ⟨w1, h1⟩ := deleteConnection_isOk hI k
    have hI1 : Grid.Inv w1 := by have := deleteConnection_inv hI k; rw [h1] at this; exact this
    obtain ⟨p1, p2, p3, p4, p5, p6, p7⟩ := deleteConnection_props hI h1
    obtain ⟨w2, h2, hI2, q1, q2, q3, q4, q5, q6, q7⟩ := ih hI1
    refine ⟨w2, by simp only [deleteConnections, h1, h2], hI2, q1.trans p1, q2.trans p2, q3.trans p3, q4.trans p4,
            q5.trans p5, fun x k' h => p6 x k' (q6 x k' h), ?_⟩
    intro x hx k' hk'
    rcases List.mem_cons.mp hk' with rfl | hk'
    · intro h; exact p7 x hx (q6 x _ h)
    · exact q7 x (p1 ▸ hx) k' hk'

/-- removing an unconnected block from list and dictionary -/
theorem removeBlock_inv {w : World} (hI : Grid.Inv w) {nm : Name} {b : Nat} (hd : dget w.block nm = some b)
    (hconn : (w.bk b).conn = []) :
    Grid.Inv { w with block := ddel w.block nm, blocklist := w.blocklist.erase b } := by
  have hB := hI.blockInv
  have hb := hB.bd_sound _ _ hd
  have hnm := no_mention_of_conn_nil hI hb.1 hconn
  have hsub : ∀ x ∈ w.blocklist.erase b, x ∈ w.blocklist := fun x h => List.mem_of_mem_erase h
  refine Inv.mk' ?_ ⟨?_, ?_, ?_, ?_⟩ ?_ ?_ ?_
  · exact hI.rockInv.frame rfl rfl (Nat.le_refl _) (fun _ _ => rfl)
  · intro x hx; exact hB.bl_lt x (hsub x hx)
  · exact hB.bl_nodup.erase _
  · intro n x hx
    change dget (ddel w.block nm) n = some x at hx
    rw [dget_ddel] at hx
    split at hx
    · cases hx
    · rename_i hne
      have := hB.bd_sound n x hx
      refine ⟨(hB.bl_nodup.mem_erase_iff).mpr ⟨?_, this.1⟩, this.2⟩
      intro e; subst e; exact hne (hb.2.symm.trans this.2)
  · intro x hx
    have hx' := (hB.bl_nodup.mem_erase_iff).mp hx
    show dget (ddel w.block nm) (w.bname x) = some x
    rw [dget_ddel]
    have : nm ≠ w.bname x := by
      intro e; exact hx'.1 (hB.name_inj hx'.2 hb.1 (e.symm.trans hb.2.symm))
    simp [this, hB.bd_complete x hx'.2]
  · refine hI.conInv.frame rfl rfl (Nat.le_refl _) ?_ (fun _ _ => rfl) (fun _ _ => rfl)
    intro c hc
    have := hI.c_ends c hc
    exact ⟨(hB.bl_nodup.mem_erase_iff).mpr ⟨(hnm c hc).1, this.1⟩, (hB.bl_nodup.mem_erase_iff).mpr ⟨(hnm c hc).2, this.2.1⟩⟩
  · exact hI.rockLink.frame_sub hsub (fun _ h => h) (fun _ _ => rfl)
  · exact hI.connLink.frame_sub hI.conInv hsub rfl (fun _ _ => rfl) (fun _ _ => rfl) (fun _ _ => rfl)

/-- `delete_block(nm)`: no precondition -/
theorem deleteBlock_inv {w : World} (hI : Grid.Inv w) (nm : Name) : Grid.Inv (worldOf (deleteBlock w nm)) := by
  cases hd : dget w.block nm with
  | none => simp only [deleteBlock, hd, worldOf_ok]; exact hI
  | some b =>
    have hb := hI.bd_sound _ _ hd
    obtain ⟨w1, h1, hI1, q1, q2, _, _, _, q6, q7⟩ := deleteConnections_spec hI (w.bk b).conn
    have hnil : (w1.bk b).conn = [] := by
      apply List.eq_nil_iff_forall_not_mem.mpr
      intro k hk
      exact q7 b hb.1 k (q6 b k hk) hk
    have hd1 : dget w1.block nm = some b := q2 ▸ hd
    have hb1 : b ∈ w1.blocklist := q1 ▸ hb.1
    simp only [deleteBlock, hd, h1, hb1, if_true, worldOf_ok]
    exact removeBlock_inv hI1 hd1 hnil

/-- a block list with the same members and no repetition can replace `blocklist` -/
theorem inv_of_blocklist_perm {w : World} (hI : Grid.Inv w) {l : List Nat} (hn : l.Nodup)
    (hm : ∀ x, x ∈ l ↔ x ∈ w.blocklist) : Grid.Inv { w with blocklist := l } := by
  have hB := hI.blockInv
  refine Inv.mk' ?_ ⟨?_, hn, ?_, ?_⟩ ?_ ?_ ?_
  · exact hI.rockInv.frame rfl rfl (Nat.le_refl _) (fun _ _ => rfl)
  · intro x hx; exact hB.bl_lt x ((hm x).mp hx)
  · intro n x hx; have := hB.bd_sound n x hx; exact ⟨(hm x).mpr this.1, this.2⟩
  · intro x hx; exact hB.bd_complete x ((hm x).mp hx)
  · refine hI.conInv.frame rfl rfl (Nat.le_refl _) ?_ (fun _ _ => rfl) (fun _ _ => rfl)
    intro c hc; have := hI.c_ends c hc; exact ⟨(hm _).mpr this.1, (hm _).mpr this.2.1⟩
  · exact hI.rockLink.frame_sub (fun x h => (hm x).mp h) (fun _ h => h) (fun _ _ => rfl)
  · exact hI.connLink.frame_sub hI.conInv (fun x h => (hm x).mp h) rfl (fun _ _ => rfl) (fun _ _ => rfl) (fun _ _ => rfl)

/-- `demote_block(names)`: no precondition (an unknown name raises TypeError part-way) -/
theorem demoteBlock_inv {w : World} (hI : Grid.Inv w) (nms : List Name) : Grid.Inv (worldOf (demoteBlock w nms)) := by
  induction nms generalizing w with
  | nil => exact hI
  | cons nm r ih =>
    cases hd : dget w.block nm with
    | none => simp only [demoteBlock, hd, worldOf_error]; exact hI
    | some b =>
      have hb := hI.bd_sound _ _ hd
      simp only [demoteBlock, hd, hb.1, if_true]
      apply ih
      refine inv_of_blocklist_perm hI ?_ ?_
      · refine List.nodup_append.mpr ⟨hI.bl_nodup.erase _, by simp, ?_⟩
        intro a ha x hx e
        simp at hx; subst hx; subst e
        exact ((hI.bl_nodup.mem_erase_iff).mp ha).1 rfl
      · intro x
        simp only [List.mem_append, List.mem_singleton, hI.bl_nodup.mem_erase_iff]
        constructor
        · rintro (⟨_, h⟩ | h)
          · exact h
          · exact h ▸ hb.1
        · intro h
          by_cases e : x = b
          · exact Or.inr e
          · exact Or.inl ⟨e, h⟩

end Proofs.Grid
