/-
  read_header_TOUGH2 on the header lines of a result block, and set_index (seek + read_tables_TOUGH2) over a
  whole result block.  Core Lean only.
-/
import PyTough.Proofs.ListingWholeBlock
namespace Proofs.Whole
open Py Model Model.Listing Proofs.Listing

/-! ### small run lemmas on the reader machine -/

theorem isPlus_run (s : Rd) : isPlus s = .ok (s.fam == .toughplus, s) := rfl

theorem tell_run (s : Rd) : tell s = .ok (s.pos, s) := rfl

theorem seek_run (p : Pos) (s : Rd) : seek p s = .ok ((), { s with pos := p }) := rfl

theorem skipto1_run (kw : String) (s : Rd) :
    skipto1 kw 1 s = .ok ((skipToL [kw.toList] 1 s.pos.rest s.pos.no).1,
                        { s with pos := (skipToL [kw.toList] 1 s.pos.rest s.pos.no).2 }) := rfl

theorem modify_run (f : Rd → Rd) (s : Rd) : (modify f : M Unit) s = .ok ((), f s) := rfl

/-- (time, step) that read_header_TOUGH2 takes from the first header line -/
def headerT2Vals (l0 : Str) : Option (FVal × Step) :=
  match splitWs l0 with
  | a :: b :: _ =>
    match fortranFloat a, fortranInt b with
    | .ok tv, .ok sv => some (fvalOf tv, fvalOfInt sv)
    | _, _ => none
  | _ => none

/-- the header lines behind the first one: lines `X` without the marker, the marker line `atl`, blank lines `Bl`,
    then the first non-blank line `hl` -/
def HeaderT2Ok (l0 : Str) (X : List Str) (atl : Str) (Bl : List Str) (hl : Str) : Prop :=
  (headerT2Vals l0).isSome = true ∧ (∀ x ∈ X, atLine x = false) ∧ atLine atl = true ∧
  (∀ x ∈ Bl, isBlank x = true) ∧ isBlank hl = false

instance (l0 : Str) (X : List Str) (atl : Str) (Bl : List Str) (hl : Str) : Decidable (HeaderT2Ok l0 X atl Bl hl) := by
  unfold HeaderT2Ok; infer_instance

/-- the second part of read_header_TOUGH2 (behind the first line), up to reading the line `hl` -/
theorem headerT2_tail (s : Rd) (X : List Str) (atl : Str) (Bl : List Str) (hl : Str) (rest : List Str)
    (hplus : (s.fam == .toughplus) = false)
    (hrest : s.pos.rest = X ++ atl :: (Bl ++ hl :: rest))
    (hX : ∀ x ∈ X, atLine x = false) (hatl : atLine atl = true)
    (hBl : ∀ x ∈ Bl, isBlank x = true) (hhl : isBlank hl = false) :
    (do
      let marker := if (← isPlus) then "=====" else "@@@@@"
      let _ ← skipto1 marker
      skipToNonblank
      let pos ← tell
      let strs := splitWs (← readline)
      if strs.length < 4 then skipToNonblank else seek pos : M Unit) s
      = (if (splitWs hl).length < 4 then skipToNonblank else seek ⟨s.pos.no + X.length + 1 + Bl.length, hl :: rest⟩ : M Unit)
          { s with pos := ⟨s.pos.no + X.length + 1 + Bl.length + 1, rest⟩ } := by
  rw [bind_ok _ _ _ _ _ (isPlus_run s)]
  simp only [hplus, Bool.false_eq_true, if_false]
  rw [bind_ok _ _ _ _ _ (skipto1_run _ s)]
  have h1 := skipToL_app X atl (Bl ++ hl :: rest) s.pos.no hX hatl
  unfold S at h1
  rw [hrest, h1]
  simp only
  rw [bind_ok _ _ _ _ _ (skipToNonblank_run _ _ (skipToNonblankL_app Bl hl rest _ hBl hhl))]
  rw [bind_ok _ _ _ _ _ (tell_run _)]
  rw [bind_ok _ _ _ _ _ (readline_cons _ hl rest rfl)]

/-- read_header_TOUGH2 up to its last statement -/
theorem readHeaderTOUGH2_gen (s : Rd) (l0 : Str) (X : List Str) (atl : Str) (Bl : List Str) (hl : Str) (rest : List Str)
    (tm : FVal) (st : Step)
    (hplus : (s.fam == .toughplus) = false)
    (hrest : s.pos.rest = l0 :: (X ++ atl :: (Bl ++ hl :: rest)))
    (hv : headerT2Vals l0 = some (tm, st))
    (hX : ∀ x ∈ X, atLine x = false) (hatl : atLine atl = true)
    (hBl : ∀ x ∈ Bl, isBlank x = true) (hhl : isBlank hl = false) :
    readHeaderTOUGH2 s
      = (if (splitWs hl).length < 4 then skipToNonblank else seek ⟨s.pos.no + 1 + X.length + 1 + Bl.length, hl :: rest⟩ : M Unit)
          { s with pos := ⟨s.pos.no + 1 + X.length + 1 + Bl.length + 1, rest⟩, step := st, time := tm } := by
  unfold readHeaderTOUGH2
  rw [bind_ok _ _ _ _ _ (readline_cons s l0 _ hrest)]
  unfold headerT2Vals at hv
  split at hv
  · rename_i a b more hs
    split at hv
    · rename_i tv sv ha hb
      injection hv with hv
      injection hv with h1 h2
      subst h1; subst h2
      simp only [hs, ha, hb]
      rw [bind_ok _ _ _ _ _ (liftE_ok _ _)]
      rw [bind_ok _ _ _ _ _ (liftE_ok _ _)]
      rw [bind_ok _ _ _ _ _ (modify_run _ _)]
      exact headerT2_tail { s with pos := ⟨s.pos.no + 1, X ++ atl :: (Bl ++ hl :: rest)⟩, step := fvalOfInt sv, time := fvalOf tv }
        X atl Bl hl rest hplus rfl hX hatl hBl hhl
    · cases hv
  · cases hv

/-- **read_header_TOUGH2 on the header lines of a result block** whose first non-blank line behind the marker has at
    least four words (a table header): time and step from the first line, the file left at the start of `hl` -/
theorem readHeaderTOUGH2_run (s : Rd) (l0 : Str) (X : List Str) (atl : Str) (Bl : List Str) (hl : Str) (rest : List Str)
    (tm : FVal) (st : Step)
    (hplus : (s.fam == .toughplus) = false)
    (hrest : s.pos.rest = l0 :: (X ++ atl :: (Bl ++ hl :: rest)))
    (hv : headerT2Vals l0 = some (tm, st))
    (hok : HeaderT2Ok l0 X atl Bl hl) (h4 : 4 ≤ (splitWs hl).length) :
    readHeaderTOUGH2 s
      = .ok ((), { s with pos := ⟨s.pos.no + 1 + X.length + 1 + Bl.length, hl :: rest⟩, step := st, time := tm }) := by
  obtain ⟨_, hX, hatl, hBl, hhl⟩ := hok
  rw [readHeaderTOUGH2_gen s l0 X atl Bl hl rest tm st hplus hrest hv hX hatl hBl hhl]
  rw [if_neg (by omega)]
  rfl

/-- the other branch: `hl` has fewer than four words (e.g. a line of text before the table); the code skips on to the
    next non-blank line `hl2` behind it -/
theorem readHeaderTOUGH2_run_short (s : Rd) (l0 : Str) (X : List Str) (atl : Str) (Bl : List Str) (hl : Str)
    (Bl2 : List Str) (hl2 : Str) (rest2 : List Str) (tm : FVal) (st : Step)
    (hplus : (s.fam == .toughplus) = false)
    (hrest : s.pos.rest = l0 :: (X ++ atl :: (Bl ++ hl :: (Bl2 ++ hl2 :: rest2))))
    (hv : headerT2Vals l0 = some (tm, st))
    (hok : HeaderT2Ok l0 X atl Bl hl) (h4 : (splitWs hl).length < 4)
    (hBl2 : ∀ x ∈ Bl2, isBlank x = true) (hhl2 : isBlank hl2 = false) :
    readHeaderTOUGH2 s
      = .ok ((), { s with pos := ⟨s.pos.no + 1 + X.length + 1 + Bl.length + 1 + Bl2.length, hl2 :: rest2⟩, step := st, time := tm }) := by
  obtain ⟨_, hX, hatl, hBl, hhl⟩ := hok
  rw [readHeaderTOUGH2_gen s l0 X atl Bl hl _ tm st hplus hrest hv hX hatl hBl hhl]
  rw [if_pos h4]
  rw [skipToNonblank_run _ _ (skipToNonblankL_app Bl2 hl2 rest2 _ hBl2 hhl2)]

theorem readHeader_T2 (s : Rd) (hb : bound s.fam "read_header" = "read_header_TOUGH2") :
    readHeader s = readHeaderTOUGH2 s := by
  unfold readHeader
  simp only [bind, StateT.bind, get, getThe, MonadStateOf.get, StateT.get, pure, Except.pure, Except.bind, hb]

/-! ### set_index -/

theorem blockLines_length (L : List TEntry) (E : List Str) : L.length ≤ (blockLines L E).length + 1 := by
  induction L with
  | nil => simp
  | cons e r ih =>
    cases r with
    | nil => simp
    | cons e' m =>
      simp only [blockLines, List.length_append, List.length_cons] at ih ⊢
      omega

theorem blockLines_head (e : TEntry) (more : List TEntry) (E : List Str) (hne : e.kind.lines ≠ []) :
    ∃ rest', blockLines (e :: more) E = e.kind.lines.headD [] :: rest' := by
  cases h : e.kind.lines with
  | nil => exact absurd h hne
  | cons a r =>
    cases more with
    | nil => exact ⟨_, by simp only [blockLines, h, List.headD_cons, List.cons_append]; rfl⟩
    | cons e' m => exact ⟨_, by simp only [blockLines, h, List.headD_cons, List.cons_append]; rfl⟩

theorem get_run (s : Rd) : (get : M Rd) s = .ok (s, s) := rfl

/-- `set_index(i)` with `i` (wrapped the Python way) inside `_fullpos`: seek to that result block, set the index
    (wrapped with the number of full times), then `read_tables` -/
theorem setIndex_seek (s : Rd) (i : Int) (jn : Nat) (p : Pos)
    (hj : (if i < 0 then i + (s.fullpos.size : Int) else i) = (jn : Int)) (hjn : jn < s.fullpos.size)
    (hp : s.fullpos[jn]! = p) :
    setIndex i s = readTables { s with pos := p, index := if i < 0 then i + (s.fulltimes.size : Int) else i } := by
  unfold setIndex
  rw [bind_ok _ _ _ _ _ (get_run s)]
  simp only [hj]
  have hc : ¬ ((jn : Int) < 0 ∨ (jn : Int) ≥ (s.fullpos.size : Int)) := by omega
  rw [if_neg hc]
  have ht : ((jn : Int)).toNat = jn := by omega
  rw [ht, hp]
  rw [bind_ok _ _ _ _ _ (seek_run p s)]
  rw [bind_ok _ _ _ _ _ (modify_run _ _)]

/-- **set_index on a TOUGH2-family listing**: seek to the block, read its header (time, step), then read or skip
    every table of the block in turn.  `idx'` is the index after set_index; the line number of the first table's
    header line is `p.no + 1 + X.length + 1 + Bl.length`.  (The fuel of read_tables, `p.rest.length + 2`, suffices by
    `blockLines_length`: no extra hypothesis.) -/
theorem setIndex_block_T2 (s : Rd) (i : Int) (jn : Nat) (p : Pos)
    (l0 : Str) (X : List Str) (atl : Str) (Bl : List Str) (tm : FVal) (st : Step)
    (e : TEntry) (more : List TEntry) (Xe : List Str) (tailE : Option (Str × List Str))
    (hj : (if i < 0 then i + (s.fullpos.size : Int) else i) = (jn : Int)) (hjn : jn < s.fullpos.size)
    (hp : s.fullpos[jn]! = p)
    (hel : e.tn = "element")
    (hrt : bound s.fam "read_tables" = "read_tables_TOUGH2") (hrh : bound s.fam "read_header" = "read_header_TOUGH2")
    (hrd : bound s.fam "read_table" = "read_table_TOUGH2") (hsk : bound s.fam "skip_table" = "skip_table_TOUGH2")
    (hnt : bound s.fam "next_table" = "next_table_TOUGH2") (htt : bound s.fam "table_type" = "table_type_TOUGH2")
    (hplus : (s.fam == .toughplus) = false)
    (hv : headerT2Vals l0 = some (tm, st))
    (hne : e.kind.lines ≠ [])
    (hhead : HeaderT2Ok l0 X atl Bl (e.kind.lines.headD [])) (h4 : 4 ≤ (splitWs (e.kind.lines.headD [])).length)
    (hprest : p.rest = l0 :: (X ++ atl :: (Bl ++ blockLines (e :: more) (endLines Xe tailE))))
    (hnodup : ((e :: more).map (·.tn)).Nodup)
    (hok : ∀ x ∈ e :: more, EntryOk s.skipTables s.tables x)
    (hlinks : LinksOk s.fulltimes.size s.fullpos (if i < 0 then i + (s.fulltimes.size : Int) else i)
      (p.no + 1 + X.length + 1 + Bl.length) (e :: more))
    (hend : EndOk s.fulltimes.size s.fullpos (if i < 0 then i + (s.fulltimes.size : Int) else i)
      (endNo (p.no + 1 + X.length + 1 + Bl.length) (e :: more)) Xe tailE) :
    setIndex i s
      = .ok ((), { s with pos := endPos (endNo (p.no + 1 + X.length + 1 + Bl.length) (e :: more)) Xe tailE,
                          index := if i < 0 then i + (s.fulltimes.size : Int) else i,
                          step := st, time := tm,
                          tables := (e :: more).foldl (fun T x => stepTables x T) s.tables }) := by
  rw [setIndex_seek s i jn p hj hjn hp]
  rw [readTables_T2 { s with pos := p, index := if i < 0 then i + (s.fulltimes.size : Int) else i } hrt]
  have hlen := blockLines_length (e :: more) (endLines Xe tailE)
  obtain ⟨rest', hbl⟩ := blockLines_head e more (endLines Xe tailE) hne
  have hfuel : more.length < p.rest.length + 2 := by
    rw [hprest]
    simp only [List.length_cons, List.length_append] at hlen ⊢
    omega
  rw [hbl] at hprest
  have hH := readHeaderTOUGH2_run { s with pos := p, index := if i < 0 then i + (s.fulltimes.size : Int) else i }
    l0 X atl Bl _ rest' tm st hplus hprest hv hhead h4
  rw [← readHeader_T2 { s with pos := p, index := if i < 0 then i + (s.fulltimes.size : Int) else i } hrh] at hH
  rw [bind_ok _ _ _ _ _ hH]
  rw [← hel]
  exact tablesLoop_block e more Xe tailE
    { s with pos := ⟨p.no + 1 + X.length + 1 + Bl.length, e.kind.lines.headD [] :: rest'⟩,
             index := if i < 0 then i + (s.fulltimes.size : Int) else i, step := st, time := tm }
    (p.rest.length + 2) 0 hfuel hrd hsk hnt htt hplus hnodup hok hlinks hend hbl.symm

/-! ### a concrete header -/

example : HeaderT2Ok (S " 0.10000E+01      1      2\n") [] (S " @@@@@@@@@@\n") [S "\n"] (S " ELEM. INDEX P T X\n") := by
  decide

example : 4 ≤ (splitWs (S " ELEM. INDEX P T X\n")).length := by decide

example : (headerT2Vals (S " 0.10000E+01      1      2\n")).map (·.2) = some (some 1) := by decide

end Proofs.Whole
