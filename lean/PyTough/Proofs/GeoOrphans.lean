/-
  `delete_orphans()` keeps the whole invariant and leaves no orphan behind.
-/
import PyTough.Proofs.GeoSnap
namespace Proofs.Geo
open Model.Geo Model.Geo.Geo Py

/-- in a consistent geometry a node whose column set is empty is used by no column -/
theorem orphan_unused {g : Geo} (hnc : g.nodeColsOK = true) (n : Nat) (hn : n ∈ g.nodelist)
    (he : (g.node n).cols = []) : ∀ c ∈ g.columnlist, n ∉ (g.col c).nodes := by
  simp only [nodeColsOK, Bool.and_eq_true, List.all_eq_true, List.contains_eq_mem, decide_eq_true_eq,
    Bool.or_eq_true, Bool.not_eq_true', decide_eq_false_iff_not] at hnc
  intro c hc hm
  rcases (hnc.2 n hn).2 c hc with h' | h'
  · exact h' hm
  · rw [he] at h'; cases h'

theorem get?_nodeName {g : Geo} (hr : g.registriesOK = true) (n : Nat) (hn : n ∈ g.nodelist) :
    g.nodeD.get? (g.node n).name = some n := by
  simp only [registriesOK, Bool.and_eq_true] at hr
  have := hr.1.1.1.1
  simp only [regOK, Bool.and_eq_true, decide_eq_true_eq, List.all_eq_true, beq_iff_eq, List.contains_eq_mem] at this
  exact this.1.2 n hn

/-- deleting, one after the other, nodes of the geometry that no column uses -/
theorem deleteNodes_fold : ∀ (ns : List Nat) (g g' : Geo),
    ns.foldlM (fun (g : Geo) n => g.deleteNode (g.node n).name) g = .ok g' → g.geoInv = true → ns.Nodup →
    (∀ n ∈ ns, n ∈ g.nodelist ∧ ∀ c ∈ g.columnlist, n ∉ (g.col c).nodes) → g'.geoInv = true
  | [], g, g', hf, h, _, _ => by
    simp only [List.foldlM_nil, pure, Except.pure, Except.ok.injEq] at hf; subst hf; exact h
  | n :: t, g, g', hf, h, hnd, hin => by
    simp only [List.foldlM_cons] at hf
    obtain ⟨g2, h2, hf'⟩ := bind_ok hf
    have hr : g.registriesOK = true := by
      simp only [geoInv, Geo.geoInv0, Bool.and_eq_true] at h; exact h.1.1.1.1.1.1.1.2
    have hget := get?_nodeName hr n (hin n List.mem_cons_self).1
    have hg2 := deleteNode_geoInv g g2 _ h2 (by
      intro i hi c hc
      rw [hget] at hi; cases hi
      exact (hin n List.mem_cons_self).2 c hc) h
    have hnd' := List.nodup_cons.mp hnd
    -- what delete_node leaves alone
    have hshape : g2.columnlist = g.columnlist ∧ (∀ c, g2.col c = g.col c) ∧ (∀ m, g2.node m = g.node m) ∧
        g2.nodelist = g.nodelist.erase n := by
      unfold deleteNode at h2
      rw [hget] at h2
      simp only [listRemove_ok _ _ (hin n List.mem_cons_self).1, bind, Except.bind, pure, Except.pure,
        Except.ok.injEq] at h2
      subst h2
      exact ⟨rfl, fun _ => rfl, fun _ => rfl, rfl⟩
    apply deleteNodes_fold t g2 g' _ hg2 hnd'.2
    · intro m hm
      have := hin m (List.mem_cons_of_mem _ hm)
      refine ⟨?_, ?_⟩
      · rw [hshape.2.2.2]
        exact (List.mem_erase_of_ne (fun e : m = n => hnd'.1 (by rw [← e]; exact hm))).mpr this.1
      · intro c hc
        rw [hshape.1] at hc
        rw [hshape.2.1 c]
        exact this.2 c hc
    · have : (fun (g : Geo) n => g.deleteNode (g.node n).name) = fun (g : Geo) n => g.deleteNode (g.node n).name := rfl
      exact hf'

/-- `delete_orphans()` keeps the whole invariant -/
theorem deleteOrphans_geoInv (g g' : Geo) (hd : g.deleteOrphans = .ok g') (h : g.geoInv = true) : g'.geoInv = true := by
  unfold deleteOrphans at hd
  have hr : g.registriesOK = true := by
    simp only [geoInv, Geo.geoInv0, Bool.and_eq_true] at h; exact h.1.1.1.1.1.1.1.2
  have hnc : g.nodeColsOK = true := by
    simp only [geoInv, Geo.geoInv0, Bool.and_eq_true] at h; exact h.1.1.1.1.1.1.2
  apply deleteNodes_fold g.orphans g g' hd h ((nodelist_nodup hr).sublist List.filter_sublist)
  intro n hn
  simp only [Geo.orphans, List.mem_filter, List.isEmpty_iff] at hn
  exact ⟨hn.1, orphan_unused hnc n hn.1 hn.2⟩

end Proofs.Geo
