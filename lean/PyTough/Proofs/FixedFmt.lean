import PyTough.Proofs.FixedRound
namespace Proofs
open Py Model

/-! ### padding -/

theorem pad_length (left : Bool) (w : Nat) (s : Str) : (pad left w s).length = max w s.length := by
  unfold pad ljust rjust
  cases left <;> simp only [Bool.false_eq_true, if_false, if_true, List.length_append, List.length_replicate] <;> omega

theorem pad_of_length_le {left : Bool} {w : Nat} {s : Str} (h : (pad left w s).length ≤ w) :
    (pad left w s).length = w := by
  rw [pad_length] at *; omega

theorem filter_blanks (k : Nat) : (List.replicate k ' ').filter (· != ' ') = [] := by
  rw [List.filter_eq_nil_iff]; intro c hc; rw [List.mem_replicate] at hc; simp [hc.2]

theorem pad_filter (left : Bool) (w : Nat) {s : Str} (h : ∀ c ∈ s, c ≠ ' ') :
    (pad left w s).filter (· != ' ') = s := by
  unfold pad ljust rjust
  cases left <;> simp only [Bool.false_eq_true, if_false, if_true, List.filter_append, filter_blanks,
    List.append_nil, List.nil_append] <;> exact filter_blank_self h

theorem dropWhile_replicate_append {p : Char → Bool} {c : Char} (hc : p c = true) (k : Nat) (u : Str) :
    (List.replicate k c ++ u).dropWhile p = u.dropWhile p := by
  induction k with
  | zero => rfl
  | succ k ih => rw [List.replicate_succ, List.cons_append, List.dropWhile_cons, if_pos hc, ih]

theorem dropWhile_none' {p : Char → Bool} {l : Str} (h : ∀ c ∈ l, p c = false) : l.dropWhile p = l := by
  cases l with
  | nil => rfl
  | cons x r => rw [List.dropWhile_cons, if_neg (by rw [h x (by simp)]; simp)]

theorem stripBy_pad {p : Char → Bool} (hp : p ' ' = true) (left : Bool) (w : Nat) {s : Str}
    (h : ∀ c ∈ s, p c = false) : stripBy p (pad left w s) = s := by
  cases s with
  | nil =>
    apply stripBy_all
    intro c hc
    unfold pad ljust rjust at hc
    cases left <;> simp at hc <;> rw [hc.2] <;> exact hp
  | cons x r =>
    have hrev : ∀ c ∈ (x :: r).reverse, p c = false := fun c hc => h c (List.mem_reverse.mp hc)
    unfold pad ljust rjust stripBy lstripBy rstripBy
    cases left
    · simp only [Bool.false_eq_true, if_false]
      rw [dropWhile_replicate_append hp, dropWhile_none' h, dropWhile_none' hrev, List.reverse_reverse]
    · simp only [if_true]
      have h1 : ((x :: r) ++ List.replicate (w - (x :: r).length) ' ').dropWhile p
          = (x :: r) ++ List.replicate (w - (x :: r).length) ' ' := by
        rw [List.cons_append, List.dropWhile_cons, if_neg (by rw [h x (by simp)]; simp)]
      rw [h1, List.reverse_append, List.reverse_replicate, dropWhile_replicate_append hp,
        dropWhile_none' hrev, List.reverse_reverse]


/-! ### `%e`: the printed text as a Fortran-style real (`FReal` of C16) -/

def signChars (neg : Bool) : Str := if neg then ['-'] else []

/-- the printed real of `'%.{p}e' % (±n/d)` -/
def eReal (neg : Bool) (p n d : Nat) : FReal :=
  let me := fmtEParts p n d
  let ds := zfill (p + 1) me.1
  { sign := if neg then .minus else .none, ip := ds.take 1, point := decide (p ≠ 0), fp := ds.drop 1,
    ex := .letter 'e' (if me.2 < 0 then .minus else .plus) (zfill 2 me.2.natAbs) }

theorem eDigits_length (p n d : Nat) (hd : 0 < d) : (zfill (p + 1) (fmtEParts p n d).1).length = p + 1 :=
  zfill_length_of_lt (by omega) (fmtEParts_lt p n d hd)

theorem eReal_render (neg : Bool) (p n d : Nat) (hd : 0 < d) :
    (eReal neg p n d).render = signChars neg ++ fmtEBody p n d := by
  have hl := eDigits_length p n d hd
  unfold eReal FReal.render fmtEBody signChars
  simp only
  generalize zfill (p + 1) (fmtEParts p n d).1 = ds at hl
  match ds, hl with
  | c :: r, hl =>
    by_cases hp : p = 0
    · subst hp
      have hr : r = [] := by
        simp only [List.length_cons] at hl
        exact List.eq_nil_of_length_eq_zero (by omega)
      subst hr
      cases neg <;> by_cases he : (fmtEParts 0 n d).2 < 0 <;>
        simp [he, ExpForm.chars, Sign.chars]
    · cases neg <;> by_cases he : (fmtEParts p n d).2 < 0 <;>
        simp [he, hp, ExpForm.chars, Sign.chars]

theorem eReal_WF (neg : Bool) (p n d : Nat) (hd : 0 < d) : (eReal neg p n d).WF := by
  have hl := eDigits_length p n d hd
  have hdig := zfill_isDigit (p + 1) (fmtEParts p n d).1
  have hne := zfill_ne_nil (p + 1) (fmtEParts p n d).1
  unfold eReal FReal.WF
  simp only
  refine ⟨fun c hc => hdig c (List.mem_of_mem_take hc), fun c hc => hdig c (List.mem_of_mem_drop hc), ?_, ?_, ?_⟩
  · intro ⟨h1, _⟩
    generalize zfill (p + 1) (fmtEParts p n d).1 = ds at hne h1
    cases ds with
    | nil => exact hne rfl
    | cons c r => simp at h1
  · intro h
    by_cases hp : p = 0
    · exfalso
      apply h
      apply List.eq_nil_of_length_eq_zero
      rw [List.length_drop, hl, hp]
    · simp [hp]
  · exact ⟨Or.inr (Or.inl rfl), zfill_ne_nil _ _, zfill_isDigit _ _⟩


theorem eReal_value (neg : Bool) (p n d : Nat) (hd : 0 < d) :
    (eReal neg p n d).value = .fin neg (fmtEParts p n d).1 ((fmtEParts p n d).2 - p) := by
  have hl := eDigits_length p n d hd
  unfold eReal FReal.value
  simp only [List.take_append_drop, List.length_drop, hl, digitsVal_zfill, ExpForm.val]
  congr 1
  · cases neg <;> simp
  · by_cases he : (fmtEParts p n d).2 < 0 <;> simp [he] <;> omega

theorem signChars_noblank (neg : Bool) : ∀ c ∈ signChars neg, c ≠ ' ' := by
  cases neg <;> simp [signChars]

/-- reading back the text of a `%e` field with either conversion dictionary -/
theorem read_eText (rf : ReadFn) (left : Bool) (w : Nat) (neg : Bool) (p n d : Nat) (hd : 0 < d) :
    readField rf 'e' (pad left w (signChars neg ++ fmtEBody p n d)) =
      .ok (.flt (.fin neg (fmtEParts p n d).1 ((fmtEParts p n d).2 - p))) := by
  have hr := eReal_WF neg p n d hd
  have hrend := eReal_render neg p n d hd
  have hval := eReal_value neg p n d hd
  have hfacts := render_facts _ hr
  rw [← hrend, ← hval]
  have hnb : ∀ c ∈ (eReal neg p n d).render, c ≠ ' ' := by
    intro c hc e; have := (hfacts c hc).1; rw [e] at this; revert this; decide
  cases rf with
  | fortran =>
    have := fortranFloat_reads _ hr (pad left w (eReal neg p n d).render) (pad_filter left w hnb)
    simp [readField, this]
  | default =>
    have hws : ∀ c ∈ (eReal neg p n d).render, isNumWs c = false := fun c hc =>
      isNumWs_of_isStrWs_false (hfacts c hc).1
    have hu : '_' ∉ (eReal neg p n d).render := fun h => (hfacts _ h).2 rfl
    have h1 := pyFloat_of_strip (stripBy_pad (p := isNumWs) (by decide) left w hws) hu
    have h2 := pyFloat_clean hws hu
    have h3 : pyFloat (eReal neg p n d).render = .ok (eReal neg p n d).value := by
      rw [render_eq]
      have := pyFloat_mant_e (eReal neg p n d) hr (if (fmtEParts p n d).2 < 0 then .minus else .plus)
        (zfill_ne_nil 2 (fmtEParts p n d).2.natAbs) (zfill_isDigit 2 (fmtEParts p n d).2.natAbs)
      simp only [eReal, ExpForm.chars, List.cons_append] at this ⊢
      rw [this]
      simp [FReal.value, ExpForm.val]
    rw [← h2, h3] at h1
    simp [readField, h1]


theorem fmtEBody_length (p n d : Nat) (hd : 0 < d) :
    (fmtEBody p n d).length =
      (if p = 0 then 1 else p + 2) + 2 + max 2 (natDigits (fmtEParts p n d).2.natAbs).length := by
  have hl := eDigits_length p n d hd
  unfold fmtEBody
  simp only
  generalize zfill (p + 1) (fmtEParts p n d).1 = ds at hl
  match ds, hl with
  | c :: r, hl =>
    simp only [List.length_cons] at hl
    by_cases hp : p = 0
    · simp [hp, zfill_length]; omega
    · simp [hp, zfill_length]; omega

/-! ### `%f` -/

def fM (p n d : Nat) : Nat := roundHalfEven (n * 10 ^ p) d

def fReal (neg : Bool) (p n d : Nat) : FReal :=
  { sign := if neg then .minus else .none, ip := natDigits (fM p n d / 10 ^ p), point := decide (p ≠ 0),
    fp := if p = 0 then [] else zfill p (fM p n d % 10 ^ p), ex := .absent }

theorem fFrac_length (p m : Nat) (hp : p ≠ 0) : (zfill p (m % 10 ^ p)).length = p :=
  zfill_length_of_lt (by omega) (Nat.mod_lt _ (pow10_pos p))

theorem fReal_render (neg : Bool) (p n d : Nat) :
    (fReal neg p n d).render = signChars neg ++ fmtFBody p n d := by
  unfold fReal FReal.render fmtFBody signChars fM
  by_cases hp : p = 0 <;> cases neg <;> simp [hp, ExpForm.chars, Sign.chars]

theorem fReal_WF (neg : Bool) (p n d : Nat) : (fReal neg p n d).WF := by
  unfold fReal FReal.WF
  simp only
  refine ⟨natDigits_isDigit _, ?_, ?_, ?_, trivial⟩
  · intro c hc
    by_cases hp : p = 0
    · simp [hp] at hc
    · rw [if_neg hp] at hc; exact zfill_isDigit _ _ c hc
  · intro ⟨h, _⟩; exact natDigits_ne_nil _ h
  · intro h
    by_cases hp : p = 0
    · simp [hp] at h
    · simp [hp]

theorem fReal_value (neg : Bool) (p n d : Nat) :
    (fReal neg p n d).value = .fin neg (fM p n d) (-(p : Int)) := by
  unfold fReal FReal.value
  simp only [ExpForm.val]
  congr 1
  · cases neg <;> simp
  · by_cases hp : p = 0
    · simp [hp, digitsVal_natDigits]
    · rw [if_neg hp, digitsVal_append, digitsVal_natDigits, digitsVal_zfill, fFrac_length p _ hp]
      exact Nat.div_add_mod' _ _
  · by_cases hp : p = 0
    · simp [hp]
    · rw [if_neg hp, fFrac_length p _ hp]; omega

theorem fmtFBody_length (p n d : Nat) :
    (fmtFBody p n d).length = (natDigits (fM p n d / 10 ^ p)).length + (if p = 0 then 0 else p + 1) := by
  unfold fmtFBody
  by_cases hp : p = 0
  · simp [hp, fM]
  · simp only [if_neg hp, List.length_append, List.length_cons, fFrac_length p _ hp, fM]

/-- reading back a printed real without exponent part -/
theorem read_plainText (rf : ReadFn) (typ : Char) (htyp : typ = 'e' ∨ typ = 'f') (left : Bool) (w : Nat)
    (r : FReal) (hr : r.WF) (hex : r.ex = .absent) :
    readField rf typ (pad left w r.render) = .ok (.flt r.value) := by
  have hfacts := render_facts _ hr
  have hnb : ∀ c ∈ r.render, c ≠ ' ' := by
    intro c hc e; have := (hfacts c hc).1; rw [e] at this; revert this; decide
  cases rf with
  | fortran =>
    have := fortranFloat_reads _ hr (pad left w r.render) (pad_filter left w hnb)
    rcases htyp with rfl | rfl <;> simp [readField, this]
  | default =>
    have hws : ∀ c ∈ r.render, isNumWs c = false := fun c hc =>
      isNumWs_of_isStrWs_false (hfacts c hc).1
    have hu : '_' ∉ r.render := fun h => (hfacts _ h).2 rfl
    have h1 := pyFloat_of_strip (stripBy_pad (p := isNumWs) (by decide) left w hws) hu
    have h2 := pyFloat_clean hws hu
    have h3 : pyFloat r.render = .ok r.value := by
      rw [render_eq, hex]
      have := pyFloat_mant r hr [] (by simp) (by simp)
      simp only [ExpForm.chars]
      rw [this]
      simp [parseExp, FReal.value, hex, ExpForm.val]
    rw [← h2, h3] at h1
    rcases htyp with rfl | rfl <;> simp [readField, h1]

theorem read_fText (rf : ReadFn) (left : Bool) (w : Nat) (neg : Bool) (p n d : Nat) :
    readField rf 'f' (pad left w (signChars neg ++ fmtFBody p n d)) =
      .ok (.flt (.fin neg (fM p n d) (-(p : Int)))) := by
  rw [← fReal_render, ← fReal_value]
  exact read_plainText rf 'f' (Or.inr rfl) left w _ (fReal_WF neg p n d) rfl

/-! ### `%d` -/

theorem renderInt_eq (neg : Bool) (ds : Str) : renderInt neg false ds = signChars neg ++ ds := by
  cases neg <;> rfl

theorem read_dText (rf : ReadFn) (left : Bool) (w : Nat) (neg : Bool) (k : Nat) :
    readField rf 'd' (pad left w (signChars neg ++ natDigits k)) =
      .ok (.int (if neg then -(k : Int) else k)) := by
  have hd := natDigits_isDigit k
  have hne := natDigits_ne_nil k
  have hmem := renderInt_mem (neg := neg) (plus := false) hd
  rw [← renderInt_eq]
  cases rf with
  | fortran =>
    have := fortranInt_reads neg false _ hne hd (pad left w (renderInt neg false (natDigits k)))
      (pad_filter left w (fun c hc => (hmem c hc).2))
    simp [readField, this, digitsVal_natDigits]
  | default =>
    have hws : ∀ c ∈ renderInt neg false (natDigits k), isNumWs c = false := fun c hc =>
      isNumWs_of_isStrWs_false (hmem c hc).1
    have : pyInt (pad left w (renderInt neg false (natDigits k))) = .ok (if neg then -(k : Int) else k) := by
      rw [pyInt_eq, stripBy_pad (p := isNumWs) (by decide) left w hws, pyIntCore_renderInt neg false hne hd,
        digitsVal_natDigits]
    simp [readField, this]

/-! ### blank fields and names -/

theorem read_blank (rf : ReadFn) (typ : Char) (htyp : typ = 'd' ∨ typ = 'e' ∨ typ = 'f' ∨ typ = 'g' ∨ typ = 'x') (w : Nat) :
    readField rf typ (List.replicate w ' ') = .ok .none := by
  have hall : ∀ c ∈ List.replicate w ' ', isStrWs c = true := by
    intro c hc; rw [(List.mem_replicate.mp hc).2]; decide
  have hf := fortranFloat_blank _ hall
  have hi := fortranInt_blank _ hall
  have hpf : pyFloat (List.replicate w ' ') = .error .valueError := by
    cases h : pyFloat (List.replicate w ' ') with
    | ok v => rw [fortranFloat_ok h] at hf; cases hf
    | error e => rw [pyFloat_error h]
  have hpi : pyInt (List.replicate w ' ') = .error .valueError := by
    cases h : pyInt (List.replicate w ' ') with
    | ok v => rw [fortranInt_ok h] at hi; cases hi
    | error e => rw [pyInt_error h]
  rcases htyp with rfl | rfl | rfl | rfl | rfl <;> cases rf <;> simp [readField, hf, hi, hpf, hpi]

theorem read_name (rf : ReadFn) (s : Str) : readField rf 's' s = .ok (.str (rstripNewline s)) := by
  simp [readField]

theorem rstripNewline_of_last {s : Str} (h : ∀ c, s.getLast? = some c → c ≠ '\n') : rstripNewline s = s := by
  unfold rstripNewline rstripBy
  cases hs : s.reverse with
  | nil => simp [List.reverse_eq_nil_iff.mp hs]
  | cons x r =>
    have hx : s.getLast? = some x := by
      rw [← List.head?_reverse, hs]; rfl
    have := h x hx
    rw [List.dropWhile_cons, if_neg (by simpa using this), ← hs, List.reverse_reverse]

end Proofs
