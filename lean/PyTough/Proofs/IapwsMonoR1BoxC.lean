/-
  Region 1 density monotonicity, boxes (part C): the termwise bounds `sumU2`, `sumU1` of `Proofs/IapwsMonoR1.lean` evaluated on the
  generated table `tbl1` by `norm_num`, one `(x, y)` box per `(t, p)` box (corners rounded outwards to 1e-4).
-/
import PyTough.Proofs.IapwsMonoR1
namespace Proofs.Iapws
open Gen.Iapws Model.Thermo Proofs.Thermo

theorem sumU_r1_box2 : sumU2 tbl1 (5251 / 5000) (34291 / 5000) (3697 / 2500) (15329 / 10000) < 0 ∧ sumU1 tbl1 (5251 / 5000) (34291 / 5000) (3697 / 2500) (15329 / 10000) < 0 := by
  unfold sumU2 sumU1 rowU2 rowU1 yMax yMin tbl1
  simp only [zip3, ir1, jr1, nr1, tf_lit, List.zip_cons_cons, List.zip_nil_right, List.map_cons, List.map_nil, List.sum_cons, List.sum_nil]
  norm_num [Int.toNat]

/-- `230 ≤ t ≤ 240` degC, `4000000` Pa `≤ p1 < p2 ≤ 100 MPa` -/
theorem cowat_mono_box2 (t p1 p2 : ℝ) (ht1 : 230 ≤ t) (ht2 : t ≤ 240) (hp1 : 4000000 ≤ p1) (h12 : p1 < p2) (hp2 : p2 ≤ 100000000) :
    ∃ d1 u1 d2 u2, cowat t p1 = Ret.pair d1 u1 ∧ cowat t p2 = Ret.pair d2 u2 ∧ 0 < d1 ∧ d1 < d2 :=
  cowat_density_mono_box 230 240 4000000 100000000 (5251 / 5000) (34291 / 5000) (3697 / 2500) (15329 / 10000) t p1 p2
    (by norm_num) (by norm_num) (by norm_num) (by norm_num) (by norm_num) (by norm_num) (by norm_num) (by norm_num) (by norm_num)
    sumU_r1_box2.1 sumU_r1_box2.2 ht1 ht2 hp1 h12 hp2

theorem sumU_r1_box5 : sumU2 tbl1 (5251 / 5000) (59507 / 10000) (831 / 625) (6889 / 5000) < 0 ∧ sumU1 tbl1 (5251 / 5000) (59507 / 10000) (831 / 625) (6889 / 5000) < 0 := by
  unfold sumU2 sumU1 rowU2 rowU1 yMax yMin tbl1
  simp only [zip3, ir1, jr1, nr1, tf_lit, List.zip_cons_cons, List.zip_nil_right, List.map_cons, List.map_nil, List.sum_cons, List.sum_nil]
  norm_num [Int.toNat]

/-- `260 ≤ t ≤ 270` degC, `19000000` Pa `≤ p1 < p2 ≤ 100 MPa` -/
theorem cowat_mono_box5 (t p1 p2 : ℝ) (ht1 : 260 ≤ t) (ht2 : t ≤ 270) (hp1 : 19000000 ≤ p1) (h12 : p1 < p2) (hp2 : p2 ≤ 100000000) :
    ∃ d1 u1 d2 u2, cowat t p1 = Ret.pair d1 u1 ∧ cowat t p2 = Ret.pair d2 u2 ∧ 0 < d1 ∧ d1 < d2 :=
  cowat_density_mono_box 260 270 19000000 100000000 (5251 / 5000) (59507 / 10000) (831 / 625) (6889 / 5000) t p1 p2
    (by norm_num) (by norm_num) (by norm_num) (by norm_num) (by norm_num) (by norm_num) (by norm_num) (by norm_num) (by norm_num)
    sumU_r1_box5.1 sumU_r1_box5.2 ht1 ht2 hp1 h12 hp2

theorem sumU_r1_box8 : sumU2 tbl1 (5251 / 5000) (51643 / 10000) (299 / 250) (12393 / 10000) < 0 ∧ sumU1 tbl1 (5251 / 5000) (51643 / 10000) (299 / 250) (12393 / 10000) < 0 := by
  unfold sumU2 sumU1 rowU2 rowU1 yMax yMin tbl1
  simp only [zip3, ir1, jr1, nr1, tf_lit, List.zip_cons_cons, List.zip_nil_right, List.map_cons, List.map_nil, List.sum_cons, List.sum_nil]
  norm_num [Int.toNat]

/-- `290 ≤ t ≤ 300` degC, `32000000` Pa `≤ p1 < p2 ≤ 100 MPa` -/
theorem cowat_mono_box8 (t p1 p2 : ℝ) (ht1 : 290 ≤ t) (ht2 : t ≤ 300) (hp1 : 32000000 ≤ p1) (h12 : p1 < p2) (hp2 : p2 ≤ 100000000) :
    ∃ d1 u1 d2 u2, cowat t p1 = Ret.pair d1 u1 ∧ cowat t p2 = Ret.pair d2 u2 ∧ 0 < d1 ∧ d1 < d2 :=
  cowat_density_mono_box 290 300 32000000 100000000 (5251 / 5000) (51643 / 10000) (299 / 250) (12393 / 10000) t p1 p2
    (by norm_num) (by norm_num) (by norm_num) (by norm_num) (by norm_num) (by norm_num) (by norm_num) (by norm_num) (by norm_num)
    sumU_r1_box8.1 sumU_r1_box8.2 ht1 ht2 hp1 h12 hp2

theorem sumU_r1_box11 : sumU2 tbl1 (5251 / 5000) (22343 / 5000) (10757 / 10000) (11149 / 10000) < 0 ∧ sumU1 tbl1 (5251 / 5000) (22343 / 5000) (10757 / 10000) (11149 / 10000) < 0 := by
  unfold sumU2 sumU1 rowU2 rowU1 yMax yMin tbl1
  simp only [zip3, ir1, jr1, nr1, tf_lit, List.zip_cons_cons, List.zip_nil_right, List.map_cons, List.map_nil, List.sum_cons, List.sum_nil]
  norm_num [Int.toNat]

/-- `320 ≤ t ≤ 330` degC, `43500000` Pa `≤ p1 < p2 ≤ 100 MPa` -/
theorem cowat_mono_box11 (t p1 p2 : ℝ) (ht1 : 320 ≤ t) (ht2 : t ≤ 330) (hp1 : 43500000 ≤ p1) (h12 : p1 < p2) (hp2 : p2 ≤ 100000000) :
    ∃ d1 u1 d2 u2, cowat t p1 = Ret.pair d1 u1 ∧ cowat t p2 = Ret.pair d2 u2 ∧ 0 < d1 ∧ d1 < d2 :=
  cowat_density_mono_box 320 330 43500000 100000000 (5251 / 5000) (22343 / 5000) (10757 / 10000) (11149 / 10000) t p1 p2
    (by norm_num) (by norm_num) (by norm_num) (by norm_num) (by norm_num) (by norm_num) (by norm_num) (by norm_num) (by norm_num)
    sumU_r1_box11.1 sumU_r1_box11.2 ht1 ht2 hp1 h12 hp2

end Proofs.Iapws
