/-
  Proofs for C18, composition: a *structural* (walk-free) description of a grid line — `Row` — from
  which the walk hypotheses of the `_partial` theorems (`isLine`, hence unique candidates, and
  `HalfWidths`) are derived.  `Row` talks about the grid as a set of blocks and connections only:
  distinct registered admissible blocks `b 0 … b n`, connections `cn i` joining `b i` to `b (i+1)` in
  direction `k`, and no other direction-`k` connection of the grid touching a block of the row
  (except towards boundary blocks).  Every grid line of a rectangular lattice is such a row.
-/
import PyTough.Proofs.RectGeoCompose
namespace Proofs.RectGeo
open Py Model.FromGeo Model.RectGeo

/-- a row of `n + 1` blocks `b 0 … b n` joined by `cn 0 … cn (n-1)` in direction `k` -/
structure Row (T : TGrid) (k : Nat) (mv : Option Rat) (n : Nat) (b : Nat → GBlock) (cn : Nat → GConn) : Prop where
  inj : ∀ i j, i ≤ n → j ≤ n → (b i).name = (b j).name → i = j
  reg : ∀ i, i ≤ n → findB T (b i).name = .ok (b i)
  adm : ∀ i, i ≤ n → volOk mv (b i) = true
  mem : ∀ i, i < n → cn i ∈ T.conns
  dir : ∀ i, i < n → (cn i).dirn = k
  jn : ∀ i, i < n → joins (cn i) (b i).name (b (i + 1)).name = true
  closed : ∀ c ∈ T.conns, c.dirn = k → ∀ i, i ≤ n → touches c (b i).name = true →
    (∃ i', i' < n ∧ c = cn i') ∨ inadmissible T mv (b i).name c = true

/-- the steps of the walk along the row from block `i`: `m` of them -/
def rowSteps (b : Nat → GBlock) (cn : Nat → GConn) : Nat → Nat → List (GConn × GBlock)
  | _, 0 => []
  | i, m + 1 => (cn i, b (i + 1)) :: rowSteps b cn (i + 1) m

def lastOf (b : Nat → GBlock) : Nat → Option Str
  | 0 => none
  | i + 1 => some (b i).name

def prevOf (cn : Nat → GConn) : Nat → Option GConn
  | 0 => none
  | i + 1 => some (cn i)

theorem rowSteps_length (b : Nat → GBlock) (cn : Nat → GConn) : ∀ m i, (rowSteps b cn i m).length = m := by
  intro m
  induction m with
  | zero => intro i; rfl
  | succ m ih => intro i; simp only [rowSteps, List.length_cons, ih]

theorem incident_of {T : TGrid} {k : Nat} {mv : Option Rat} {n : Str} {allowed : List GConn}
    (h : ∀ c ∈ T.conns, c.dirn = k → touches c n = true → c ∈ allowed ∨ inadmissible T mv n c = true) :
    incidentAmong T k mv n allowed = true := by
  unfold incidentAmong
  rw [List.all_eq_true]
  intro c hc
  by_cases hk : c.dirn = k
  · cases ht : touches c n with
    | false => simp
    | true =>
      rcases h c hc hk ht with h1 | h1
      · simp [h1]
      · simp [h1]
  · simp [hk]

namespace Row
variable {T : TGrid} {k : Nat} {mv : Option Rat} {n : Nat} {b : Nat → GBlock} {cn : Nat → GConn}

/-- a connection of the row touches only its own two blocks -/
theorem touches_cn (R : Row T k mv n b cn) {i' j : Nat} (hi : i' < n) (hj : j ≤ n)
    (ht : touches (cn i') (b j).name = true) : j = i' ∨ j = i' + 1 := by
  have hjn := R.jn i' hi
  rw [joins_iff] at hjn
  rw [touches_iff] at ht
  rcases hjn with ⟨h0, h1⟩ | ⟨h0, h1⟩ <;> rcases ht with t | t
  · left; exact (R.inj i' j (by omega) hj (by rw [← h0, t])).symm
  · right; exact (R.inj (i' + 1) j (by omega) hj (by rw [← h1, t])).symm
  · right; exact (R.inj (i' + 1) j (by omega) hj (by rw [← h0, t])).symm
  · left; exact (R.inj i' j (by omega) hj (by rw [← h1, t])).symm

theorem incident_mid (R : Row T k mv n b cn) (i : Nat) (hi : i < n) :
    incidentAmong T k mv (b i).name ((prevOf cn i).toList ++ [cn i]) = true := by
  apply incident_of
  intro c hc hk ht
  rcases R.closed c hc hk i (by omega) ht with ⟨i', hi', rfl⟩ | h
  · left
    rcases R.touches_cn hi' (by omega) ht with e | e
    · subst e; simp
    · subst e; simp [prevOf]
  · right; exact h

theorem incident_end (R : Row T k mv n b cn) :
    incidentAmong T k mv (b n).name (prevOf cn n).toList = true := by
  apply incident_of
  intro c hc hk ht
  rcases R.closed c hc hk n (by omega) ht with ⟨i', hi', rfl⟩ | h
  · left
    rcases R.touches_cn hi' (by omega) ht with e | e
    · omega
    · subst e; simp [prevOf]
  · right; exact h

/-- the walk along a row is a line in the sense of `isLine` (from any block of the row on) -/
theorem isLine_from (R : Row T k mv n b cn) :
    ∀ m i, i + m = n → isLine T k mv (lastOf b i) (prevOf cn i) (b i) (rowSteps b cn i m) = true := by
  intro m
  induction m with
  | zero =>
    intro i hi
    have : i = n := by omega
    subst this
    simp only [rowSteps, isLine, Bool.and_eq_true]
    refine ⟨R.incident_end, ?_⟩
    cases i with
    | zero => rfl
    | succ j =>
      simp only [prevOf, lastOf, Option.all_some]
      exact touches_of_joins (R.jn j (by omega))
  | succ m ih =>
    intro i hi
    have hin : i < n := by omega
    have hrec := ih (i + 1) (by omega)
    simp only [lastOf, prevOf] at hrec
    have hlast : (match lastOf b i with | some l => !touches (cn i) l | none => true) = true := by
      cases i with
      | zero => rfl
      | succ j =>
        simp only [lastOf]
        cases ht : touches (cn (j + 1)) (b j).name with
        | false => rfl
        | true =>
          rcases R.touches_cn hin (by omega) ht with e | e <;> omega
    simp only [rowSteps, isLine, Bool.and_eq_true, decide_eq_true_eq]
    refine ⟨⟨⟨⟨⟨⟨⟨⟨R.incident_mid i hin, ?_⟩, ?_⟩, R.dir i hin⟩, R.jn i hin⟩, hlast⟩,
      R.reg (i + 1) (by omega)⟩, R.adm (i + 1) (by omega)⟩, hrec⟩
    · cases i with
      | zero => rfl
      | succ j =>
        simp only [prevOf, lastOf, Option.all_some]
        exact touches_of_joins (R.jn j (by omega))
    · exact List.contains_iff_mem.2 (R.mem i hin)

/-- ... in particular from its first block -/
theorem isLine_row (R : Row T k mv n b cn) : isLine T k mv none none (b 0) (rowSteps b cn 0 n) = true :=
  R.isLine_from n 0 (by omega)

end Row

/-- the sizes the walk collects along a row whose blocks' own distances are half the widths `w i` -/
theorem rowSizes (b : Nat → GBlock) (cn : Nat → GConn) (w : Nat → Rat) (n : Nat)
    (h0 : ∀ i, i < n → distAt (cn i) (b i).name = w i / 2)
    (h1 : ∀ i, i < n → distAt (cn i) (b (i + 1)).name = w (i + 1) / 2) :
    ∀ m i, i + m = n → (i = 0 → m ≠ 0) →
      lineSizes (prevOf cn i) (b i) (rowSteps b cn i m) = (List.range' i (m + 1)).map w := by
  intro m
  induction m with
  | zero =>
    intro i hi hne
    cases i with
    | zero => exact absurd rfl (hne rfl)
    | succ j =>
      simp only [rowSteps, prevOf, lineSizes, List.range', List.map_cons, List.map_nil]
      rw [h1 j (by omega)]
      congr 1; ring
  | succ m ih =>
    intro i hi _
    have e : lineSizes (prevOf cn i) (b i) (rowSteps b cn i (m + 1)) =
        2 * distAt (cn i) (b i).name :: lineSizes (some (cn i)) (b (i + 1)) (rowSteps b cn (i + 1) m) := by
      cases i <;> rfl
    have hrec := ih (i + 1) (by omega) (by omega)
    simp only [prevOf] at hrec
    rw [e, hrec, h0 i (by omega), List.range'_succ, List.map_cons]
    congr 1; ring

/-! ### the number of blocks bounds the row length; a row can be walked from either end -/

theorem findB_mem {T : TGrid} {n : Str} {x : GBlock} (h : findB T n = .ok x) : x ∈ T.blocks := by
  unfold findB at h
  split at h
  · rename_i y hy
    cases h
    exact List.mem_of_find?_eq_some hy
  · cases h

theorem nodup_map_on {α β} (f : α → β) : ∀ (l : List α), l.Nodup →
    (∀ x ∈ l, ∀ y ∈ l, f x = f y → x = y) → (l.map f).Nodup := by
  intro l
  induction l with
  | nil => intro _ _; exact List.nodup_nil
  | cons a l ih =>
    intro hnd hinj
    rw [List.nodup_cons] at hnd
    rw [List.map_cons, List.nodup_cons]
    refine ⟨?_, ih hnd.2 (fun x hx y hy => hinj x (List.mem_cons_of_mem _ hx) y (List.mem_cons_of_mem _ hy))⟩
    intro hm
    obtain ⟨y, hy, e⟩ := List.mem_map.1 hm
    have := hinj a List.mem_cons_self y (List.mem_cons_of_mem _ hy) e.symm
    exact hnd.1 (this ▸ hy)

namespace Row
variable {T : TGrid} {k : Nat} {mv : Option Rat} {n : Nat} {b : Nat → GBlock} {cn : Nat → GConn}

/-- the grid has at least the `n + 1` blocks of the row -/
theorem length_le (R : Row T k mv n b cn) : n + 1 ≤ T.blocks.length := by
  have hnd : ((List.range (n + 1)).map b).Nodup := by
    apply nodup_map_on _ _ List.nodup_range
    intro i hi j hj e
    exact R.inj i j (by have := List.mem_range.1 hi; omega) (by have := List.mem_range.1 hj; omega) (by rw [e])
  have hsub : (List.range (n + 1)).map b ⊆ T.blocks := by
    intro x hx
    obtain ⟨i, hi, rfl⟩ := List.mem_map.1 hx
    exact findB_mem (R.reg i (by have := List.mem_range.1 hi; omega))
  have := List.Nodup.length_le_of_subset hnd hsub
  simpa using this

theorem joins_symm {c : GConn} {x y : Str} (h : joins c x y = true) : joins c y x = true := by
  rw [joins_iff] at h ⊢
  rcases h with h | h
  · exact Or.inr h
  · exact Or.inl h

/-- the same row, walked from its last block -/
theorem reverse (R : Row T k mv n b cn) : Row T k mv n (fun i => b (n - i)) (fun i => cn (n - 1 - i)) where
  inj := fun i j hi hj h => by have := R.inj (n - i) (n - j) (by omega) (by omega) h; omega
  reg := fun i _ => R.reg (n - i) (by omega)
  adm := fun i _ => R.adm (n - i) (by omega)
  mem := fun i hi => R.mem (n - 1 - i) (by omega)
  dir := fun i hi => R.dir (n - 1 - i) (by omega)
  jn := fun i hi => by
    have h := R.jn (n - 1 - i) (by omega)
    have e1 : n - 1 - i + 1 = n - i := by omega
    have e2 : n - (i + 1) = n - 1 - i := by omega
    rw [e1] at h
    simp only [e2]
    exact joins_symm h
  closed := by
    intro c hc hk i hi ht
    rcases R.closed c hc hk (n - i) (by omega) ht with ⟨i', hi', rfl⟩ | h
    · left
      refine ⟨n - 1 - i', by omega, ?_⟩
      have : n - 1 - (n - 1 - i') = i' := by omega
      simp only [this]
    · right; exact h

end Row

end Proofs.RectGeo
