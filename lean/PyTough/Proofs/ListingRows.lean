/-
  Column inference of `parse_table_line` on a line made of right-aligned number fields, and the
  whitespace split of an AUTOUGH2 row.  Core Lean only.
-/
import PyTough.Model.Listing
namespace Proofs.Rows
open Py Model Model.Listing

/-! ### a printed line as prefix ++ fields ++ tail -/

/-- one number field of the longest line: `pad` blanks, then the number text `pre.post` -/
structure Cell where
  pad : Nat
  pre : Str          -- sign and digit(s) in front of the decimal point
  post : Str         -- digits and exponent behind it

def Cell.txt (c : Cell) : Str := c.pre ++ '.' :: c.post
def Cell.render (c : Cell) : Str := List.replicate c.pad ' ' ++ c.txt
def Cell.width (c : Cell) : Nat := c.pad + c.pre.length + 1 + c.post.length

/-- the number text has exactly one decimal point and no blank -/
structure Cell.WF (c : Cell) : Prop where
  pre_nodot : '.' ∉ c.pre
  pre_nosp : ' ' ∉ c.pre
  post_nodot : '.' ∉ c.post
  post_nosp : ' ' ∉ c.post

/-- how field `b` follows field `a` on the longest line: a blank in front of `b`'s number (whose point is not its
    first character), or `b`'s number fills its field and `a`'s number ends in `E`, sign, two digits -/
def Sep (a b : Cell) : Prop :=
  (b.pad ≥ 1 ∧ b.pre ≠ []) ∨
  (b.pad = 0 ∧ ∃ frac s d1 d2, a.post = frac ++ ['E', s, d1, d2] ∧ 'E' ∉ frac)

def SepChain : List Cell → Prop
  | a :: b :: r => Sep a b ∧ SepChain (b :: r)
  | _ => True

def renderAll (cells : List Cell) : Str := cells.flatMap Cell.render

/-- positions of the decimal points / of the field starts when the first field starts at `off` -/
def dots : Nat → List Cell → List Nat
  | _, [] => []
  | off, c :: r => (off + c.pad + c.pre.length) :: dots (off + c.width) r
def starts : Nat → List Cell → List Nat
  | _, [] => []
  | off, c :: r => off :: starts (off + c.width) r

theorem render_length (c : Cell) : c.render.length = c.width := by
  unfold Cell.render Cell.txt Cell.width
  simp only [List.length_append, List.length_replicate, List.length_cons]
  omega

/-! ### indicesOf -/

theorem indicesOf_go_append (ch : Char) (a b : Str) (i : Nat) :
    indicesOf.go ch (a ++ b) i = indicesOf.go ch a i ++ indicesOf.go ch b (i + a.length) := by
  induction a generalizing i with
  | nil => simp [indicesOf.go]
  | cons x r ih =>
    simp only [List.cons_append, indicesOf.go, List.length_cons]
    have e : i + 1 + r.length = i + (r.length + 1) := by omega
    split
    · rw [ih, e]; rfl
    · rw [ih, e]

theorem indicesOf_go_none (ch : Char) (a : Str) (i : Nat) (h : ch ∉ a) : indicesOf.go ch a i = [] := by
  induction a generalizing i with
  | nil => rfl
  | cons x r ih =>
    simp only [indicesOf.go]
    have hx : x ≠ ch := fun e => h (e ▸ List.mem_cons_self)
    rw [if_neg hx]
    exact ih (i + 1) (fun hm => h (List.mem_cons_of_mem _ hm))

theorem indicesOf_go_cell (c : Cell) (hc : c.WF) (i : Nat) :
    indicesOf.go '.' c.render i = [i + c.pad + c.pre.length] := by
  unfold Cell.render Cell.txt
  rw [indicesOf_go_append, indicesOf_go_none '.' (List.replicate c.pad ' ') i (by simp)]
  rw [List.nil_append, indicesOf_go_append, indicesOf_go_none '.' c.pre _ hc.pre_nodot]
  simp only [List.nil_append, indicesOf.go, List.length_replicate, if_true]
  rw [indicesOf_go_none '.' c.post _ hc.post_nodot]

theorem indicesOf_go_cells (cells : List Cell) (hwf : ∀ c ∈ cells, c.WF) (tail : Str) (ht : '.' ∉ tail) (off : Nat) :
    indicesOf.go '.' (renderAll cells ++ tail) off = dots off cells := by
  induction cells generalizing off with
  | nil => simp [renderAll, dots, indicesOf_go_none '.' tail off ht]
  | cons c r ih =>
    have hc := hwf c List.mem_cons_self
    simp only [renderAll, List.flatMap_cons, List.append_assoc, dots]
    rw [indicesOf_go_append, indicesOf_go_cell c hc, render_length]
    have := ih (fun x hx => hwf x (List.mem_cons_of_mem _ hx)) (off + c.width)
    simp only [renderAll] at this
    rw [this]; rfl

theorem indicesOf_line (P : Str) (cells : List Cell) (tail : Str) (hP : '.' ∉ P) (ht : '.' ∉ tail)
    (hwf : ∀ c ∈ cells, c.WF) :
    indicesOf (P ++ (renderAll cells ++ tail)) '.' = dots P.length cells := by
  unfold indicesOf
  rw [indicesOf_go_append, indicesOf_go_none '.' P 0 hP, List.nil_append, Nat.zero_add]
  exact indicesOf_go_cells cells hwf tail ht P.length

/-! ### findCharIn -/

theorem find_go_skip (ch : Char) (hi : Nat) (X Y : Str) (i : Nat) (hX : ch ∉ X) (hle : i + X.length ≤ hi) :
    findCharIn.go ch hi (X ++ Y) i = findCharIn.go ch hi Y (i + X.length) := by
  induction X generalizing i with
  | nil => simp
  | cons x r ih =>
    simp only [List.cons_append, findCharIn.go, List.length_cons] at *
    have h1 : ¬ i ≥ hi := by omega
    have h2 : x ≠ ch := fun e => hX (e ▸ List.mem_cons_self)
    rw [if_neg h1, if_neg h2, ih (i + 1) (fun hm => hX (List.mem_cons_of_mem _ hm)) (by omega)]
    congr 1; omega

theorem find_go_hit (ch : Char) (hi : Nat) (Y : Str) (i : Nat) (h : i < hi) :
    findCharIn.go ch hi (ch :: Y) i = some i := by
  simp only [findCharIn.go]
  rw [if_neg (by omega)]
  simp

theorem find_go_none (ch : Char) (hi : Nat) (X Y : Str) (i : Nat) (hX : ch ∉ X) (hge : i + X.length ≥ hi) :
    findCharIn.go ch hi (X ++ Y) i = none := by
  induction X generalizing i with
  | nil =>
    cases Y with
    | nil => rfl
    | cons y r => simp only [List.nil_append, findCharIn.go]; rw [if_pos (by simpa using hge)]
  | cons x r ih =>
    simp only [List.cons_append, findCharIn.go, List.length_cons] at *
    split
    · rfl
    · have h2 : x ≠ ch := fun e => hX (e ▸ List.mem_cons_self)
      rw [if_neg h2]
      exact ih (i + 1) (fun hm => hX (List.mem_cons_of_mem _ hm)) (by omega)

theorem findCharIn_eq (s : Str) (ch : Char) (lo hi : Nat) (A B : Str) (hs : s = A ++ B) (hA : A.length = lo) (hlt : lo < hi) :
    findCharIn s ch lo hi = findCharIn.go ch hi B lo := by
  unfold findCharIn
  rw [if_neg (by omega), hs, ← hA, List.drop_left]

/-! ### the loop over consecutive decimal points -/

theorem mem_replicate_ne {ch : Char} {n : Nat} (h : ch ≠ ' ') : ch ∉ List.replicate n ' ' := by
  intro hm; exact h (List.eq_of_mem_replicate hm)

/-- one step: between the points of two adjacent fields `c`, `d` the boundary found is the start of `d` -/
theorem boundary_step (A : Str) (c d : Cell) (R : Str) (hc : c.WF) (hd : d.WF) (hsep : Sep c d)
    (line : Str) (hline : line = A ++ (c.post ++ (d.render ++ R))) (hA : 1 ≤ A.length) :
    nextStart line (A.length - 1) (A.length + c.post.length + d.pad + d.pre.length) = .ok (A.length + c.post.length) := by
  have hlo : A.length - 1 + 1 = A.length := by omega
  unfold nextStart
  rw [hlo]
  rcases hsep with ⟨hpad, hpre⟩ | ⟨hpad, frac, s, d1, d2, hpost, hE⟩
  · -- a blank in front of d's number
    have hplen : d.pre.length ≥ 1 := by
      cases hp : d.pre with
      | nil => exact absurd hp hpre
      | cons _ _ => simp
    have hlt : A.length < A.length + c.post.length + d.pad + d.pre.length - 1 := by omega
    have hB : c.post ++ (d.render ++ R) = c.post ++ (' ' :: (List.replicate (d.pad - 1) ' ' ++ d.txt ++ R)) := by
      unfold Cell.render
      have : List.replicate d.pad ' ' = ' ' :: List.replicate (d.pad - 1) ' ' := by
        have : d.pad = (d.pad - 1) + 1 := by omega
        rw [this, List.replicate_succ]; simp
      rw [this]; simp
    rw [findCharIn_eq line ' ' _ _ A _ hline rfl hlt, hB,
      find_go_skip ' ' _ c.post _ _ hc.post_nosp (by omega), find_go_hit ' ' _ _ _ (by omega)]
    simp only
    rw [if_pos (by omega)]
  · -- d's number fills its field: the boundary comes from c's exponent
    have hpl : c.post.length = frac.length + 4 := by rw [hpost]; simp
    have hlt : A.length < A.length + c.post.length + d.pad + d.pre.length - 1 := by omega
    have hB : c.post ++ (d.render ++ R) = (c.post ++ d.pre) ++ ('.' :: d.post ++ R) := by
      unfold Cell.render Cell.txt; rw [hpad]; simp
    have hnosp : ' ' ∉ c.post ++ d.pre := by
      intro hm; rcases List.mem_append.mp hm with h | h
      · exact hc.post_nosp h
      · exact hd.pre_nosp h
    have hsp : findCharIn line ' ' A.length (A.length + c.post.length + d.pad + d.pre.length - 1) = none := by
      rw [findCharIn_eq line ' ' _ _ A _ hline rfl hlt, hB]
      exact find_go_none ' ' _ _ _ _ hnosp (by simp only [List.length_append]; omega)
    have hB2 : c.post ++ (d.render ++ R) = frac ++ ('E' :: ([s, d1, d2] ++ (d.render ++ R))) := by
      rw [hpost]; simp
    have hEf : findCharIn line 'E' A.length (A.length + c.post.length + d.pad + d.pre.length - 1) = some (A.length + frac.length) := by
      rw [findCharIn_eq line 'E' _ _ A _ hline rfl hlt, hB2,
        find_go_skip 'E' _ frac _ _ hE (by omega), find_go_hit 'E' _ _ _ (by omega)]
    rw [hsp]
    simp only [expBoundary, hEf]
    rw [if_pos (by omega)]
    congr 1; omega

/-- the whole loop: for a line of fields chained by `Sep`, `boundaries` returns the starts of the 2nd, 3rd, … field -/
theorem boundaries_cells (P : Str) (cells : List Cell) (tail : Str) (hwf : ∀ c ∈ cells, c.WF) (hsep : SepChain cells) :
    boundaries (P ++ (renderAll cells ++ tail)) (dots P.length cells) = .ok (starts P.length cells).tail := by
  induction cells generalizing P with
  | nil => rfl
  | cons c r ih =>
    cases r with
    | nil => rfl
    | cons d r' =>
      have hc := hwf c List.mem_cons_self
      have hd := hwf d (List.mem_cons_of_mem _ List.mem_cons_self)
      obtain ⟨hs1, hs2⟩ := hsep
      -- the line seen from c's decimal point
      let A := P ++ (List.replicate c.pad ' ' ++ (c.pre ++ ['.']))
      have hAlen : A.length = P.length + c.pad + c.pre.length + 1 := by
        simp only [A, List.length_append, List.length_replicate, List.length_cons, List.length_nil]; omega
      have hline : P ++ (renderAll (c :: d :: r') ++ tail) = A ++ (c.post ++ (d.render ++ (renderAll r' ++ tail))) := by
        simp [A, renderAll, Cell.render, Cell.txt]
      have hstep := boundary_step A c d (renderAll r' ++ tail) hc hd hs1 _ hline (by omega)
      -- the recursive call is the same loop on the line with prefix P ++ render c
      have hrec := ih (P ++ c.render) (fun x hx => hwf x (List.mem_cons_of_mem _ hx)) hs2
      have hP' : (P ++ c.render).length = P.length + c.width := by simp [render_length]
      have hline' : (P ++ c.render) ++ (renderAll (d :: r') ++ tail) = P ++ (renderAll (c :: d :: r') ++ tail) := by
        simp [renderAll]
      rw [hline', hP'] at hrec
      simp only [dots, starts, List.tail_cons] at hrec ⊢
      rw [boundaries]
      have e1 : P.length + c.pad + c.pre.length = A.length - 1 := by omega
      have e2 : P.length + c.width + d.pad + d.pre.length = A.length + c.post.length + d.pad + d.pre.length := by
        simp only [Cell.width]; omega
      rw [e1, e2, hstep]
      simp only
      rw [← e2, hrec]
      simp only
      congr 2
      simp only [Cell.width]; omega

/-! ### parse_table_line -/

def numposOf (off : Nat) (cells : List Cell) (len : Nat) : List (Option Int) :=
  (starts off cells).map (fun (b : Nat) => some (Int.ofNat b)) ++ [some (Int.ofNat len)]

theorem parseTableLine_cells (P : Str) (cells : List Cell) (tail : Str) (cols : List Str) (c0 : Str) (cs : List Str)
    (hcols : cols = c0 :: cs) (hI : c0 ≠ ['I'])
    (hP : '.' ∉ P) (ht : '.' ∉ tail) (hwf : ∀ c ∈ cells, c.WF) (hsep : SepChain cells) (hne : cells ≠ []) :
    parseTableLine (P ++ (renderAll cells ++ tail)) (some (P.length : Int)) cols
      = .ok (numposOf P.length cells (P ++ (renderAll cells ++ tail)).length) := by
  unfold parseTableLine
  rw [hcols]
  simp only [pure, Except.pure, bind, Except.bind, if_neg hI]
  rw [indicesOf_line P cells tail hP ht hwf, boundaries_cells P cells tail hwf hsep]
  simp only
  cases cells with
  | nil => exact absurd rfl hne
  | cons c r => simp [numposOf, starts]

end Proofs.Rows
