/-
  C01 proofs, layer 5g: whole objects written with the mesh in an ASCII MESH file: `write()` leaves ELEME / CONNE
  out of the main file, `read()` runs the keyword loop on the main file and then `read_meshfile` on the MESH file.
-/
import PyTough.Proofs.T2WholeObject
namespace Proofs.T2
open Py Model Model.T2 Proofs Proofs.Incon
open Gen.Sections (Rec)

theorem writeBlocks_lines (bs : List Block) (hw : ∀ b ∈ bs, ∃ l, writeBlock mainTabs b = .ok l) :
    writeBlocks mainTabs bs = .ok (nl c!"ELEME" ::
      ((bs.map (fun b => match writeBlock mainTabs b with | .ok l => [l] | .error _ => [])).flatten ++ [nl []])) := by
  unfold writeBlocks
  simp only [mapM_singletons _ _ hw, bind, Except.bind, pure, Except.pure, List.cons_append, List.nil_append]
  rfl

theorem writeConns_lines (cs : List Conn) (hw : ∀ c ∈ cs, ∃ l, writeConn mainTabs c = .ok l) :
    writeConns mainTabs cs = .ok (nl c!"CONNE" ::
      ((cs.map (fun b => match writeConn mainTabs b with | .ok l => [l] | .error _ => [])).flatten ++ [nl []])) := by
  unfold writeConns
  simp only [mapM_singletons _ _ hw, bind, Except.bind, pure, Except.pure, List.cons_append, List.nil_append]
  rfl

/-- **the ASCII MESH file read back**: `read_meshfile` on the file `write()` made of the blocks and connections -/
theorem readMeshfile_written (d d0 : T2Data)
    (hb : ∀ b ∈ d.blocks, GoodBlock d0.rocks b) (hwb : ∀ b ∈ d.blocks, ∃ l, writeBlock mainTabs b = .ok l)
    (hc : ∀ c ∈ d.conns, GoodConn (canonBlocks d.blocks) c) (hwc : ∀ c ∈ d.conns, ∃ l, writeConn mainTabs c = .ok l)
    (bl cl : List Str) (hbl : writeBlocks mainTabs d.blocks = .ok bl) (hcl : writeConns mainTabs d.conns = .ok cl) :
    readMeshfile .default ((bl ++ cl).length + 1) d0 (bl ++ cl) =
      .ok { d0 with blocks := canonBlocks d.blocks, conns := canonConns d.conns,
                    sections := d0.sections ++ [c!"ELEME", c!"CONNE"] } := by
  rw [writeBlocks_lines _ hwb] at hbl
  rw [writeConns_lines _ hwc] at hcl
  cases hbl
  cases hcl
  have h1 := section_roundtrip_ELEME (block_shape mainTabs (Or.inl rfl)).1 (block_shape mainTabs (Or.inl rfl)).2 d0.rocks d.blocks hb hwb
  have h2 := section_roundtrip_CONNE (conn_shape mainTabs (Or.inl rfl)).1 (conn_shape mainTabs (Or.inl rfl)).2 (canonBlocks d.blocks) d.conns hc hwc []
  generalize hB : (d.blocks.map (fun b => match writeBlock mainTabs b with | .ok l => [l] | .error _ => [])).flatten = B at h1 ⊢
  generalize hC : (d.conns.map (fun b => match writeConn mainTabs b with | .ok l => [l] | .error _ => [])).flatten = C at h2 ⊢
  obtain ⟨n, hn⟩ : ∃ n, ((nl c!"ELEME" :: (B ++ [nl []])) ++ (nl c!"CONNE" :: (C ++ [nl []]))).length + 1 = n + 3 := by
    refine ⟨B.length + C.length + 2, ?_⟩
    simp only [List.length_append, List.length_cons, List.length_nil]
    omega
  rw [hn]
  have hk1 : keywordOf (nl c!"ELEME") = c!"ELEME" := by decide
  have hk2 : keywordOf (nl c!"CONNE") = c!"CONNE" := by decide
  have e1 : (nl c!"ELEME" :: (B ++ [nl []])) ++ (nl c!"CONNE" :: (C ++ [nl []])) =
      nl c!"ELEME" :: (B ++ nl [] :: (nl c!"CONNE" :: (C ++ [nl []]))) := by simp
  rw [e1]
  have h1' := h1 (nl c!"CONNE" :: (C ++ [nl []]))
  simp only [readMeshfile, hk1]
  simp (config := { decide := true }) only [readGridSection, bind, Except.bind, pure, Except.pure, if_true, if_false]
  rw [h1']
  have h2' : readConns .default mainTabs (canonBlocks d.blocks) (C ++ [nl []]) = _ := h2
  simp only [readMeshfile, hk2]
  simp (config := { decide := true }) only [readGridSection, bind, Except.bind, pure, Except.pure, if_true, if_false]
  erw [h2']
  simp only [readMeshfile, List.append_assoc, List.cons_append, List.nil_append]
  rfl

/-- the sections `write()` leaves out of the main file when the mesh goes to a MESH file -/
def notMesh (kw : Str) : Bool := !([c!"ELEME", c!"CONNE"] : List Str).contains kw

theorem mapM_skip (f : Str → Except Exc (List Str)) (p : Str → Bool) :
    ∀ (kws : List Str) (texts : List (List Str)),
      kws.mapM (fun kw => if p kw then f kw else pure []) = .ok texts →
      ∃ texts', (kws.filter p).mapM f = .ok texts' ∧ texts'.flatten = texts.flatten := by
  intro kws
  induction kws with
  | nil => intro texts h; simp only [List.mapM_nil, pure, Except.pure] at h; cases h; exact ⟨[], rfl, rfl⟩
  | cons k ks ih =>
    intro texts h
    obtain ⟨t, ts, h1, h2, rfl⟩ := mapM_cons_ok _ _ _ _ h
    obtain ⟨ts', h3, h4⟩ := ih ts h2
    by_cases hp : p k = true
    · simp only [hp, if_true] at h1
      refine ⟨t :: ts', ?_, by simp [h4]⟩
      simp only [List.filter_cons, hp, if_true, List.mapM_cons, h1, h3, bind, Except.bind, pure, Except.pure]
    · simp only [hp, pure, Except.pure] at h1
      cases h1
      refine ⟨ts', ?_, by simp [h4]⟩
      simp only [List.filter_cons, hp]
      exact h3

theorem write_ascii (d : T2Data) (hxp : d.extraPrecision = [])
    (cfg : WriteCfg) (hfl : FlavourOK d cfg) (hcfg : cfg.mesh = .ascii) (d' : T2Data) (f : Files) (hw : d.write cfg = .ok (d', f)) :
    d' = d.updateSections ∧ ∃ texts bl cl, (d'.sections.filter notMesh).mapM (writeSection mainTabs d') = .ok texts ∧
      writeBlocks mainTabs d'.blocks = .ok bl ∧ writeConns mainTabs d'.conns = .ok cl ∧
      f = { main := [nl (strip d.title)] ++ texts.flatten ++ [nl d.endKeyword], mesh := some (bl ++ cl), pdat := none } := by
  have hx : d.updateSections.extraPrecision = [] := hxp
  unfold T2Data.write at hw
  have h1 : (MeshKind.ascii == MeshKind.ascii) = true := by decide
  have h2 : (MeshKind.ascii == MeshKind.infile) = false := by decide
  have hp := write_prefix d hxp cfg hfl
  have hw' : Except.bind (writeBlocks mainTabs d.updateSections.blocks) (fun bl =>
      Except.bind (writeConns mainTabs d.updateSections.conns) (fun cl =>
      Except.bind (List.mapM (fun kw => if (![c!"ELEME", c!"CONNE"].contains kw) = true then
                writeSection mainTabs d.updateSections kw else Except.ok []) d.updateSections.sections)
      (fun v => (.ok (d.updateSections, { main := [nl (strip d.updateSections.title)] ++ v.flatten ++ [nl d.updateSections.endKeyword],
                                           mesh := some (bl ++ cl), pdat := none }) : Except Exc (T2Data × Files))))) = .ok (d', f) := by
    cases ha : d.updateSections.autough2 with
    | false =>
      simpa only [hcfg, ha, h1, h2, Bool.false_eq_true, if_false, if_true, pure, bind, Except.pure, Except.bind, hx,
        List.contains_nil, Bool.not_false, Bool.true_or, Bool.and_true] using hw
    | true =>
      rw [ha, if_pos rfl] at hp
      simpa only [hcfg, ha, hp, h1, h2, Bool.false_eq_true, if_false, if_true, pure, bind, Except.pure, Except.bind, hx,
        List.contains_nil, Bool.not_false, Bool.true_or, Bool.and_true] using hw
  clear hw
  have hw := hw'
  unfold Except.bind at hw
  cases hb : writeBlocks mainTabs d.updateSections.blocks with
  | error e => rw [hb] at hw; cases hw
  | ok bl =>
    rw [hb] at hw
    cases hc : writeConns mainTabs d.updateSections.conns with
    | error e => rw [hc] at hw; cases hw
    | ok cl =>
      rw [hc] at hw
      cases hm : List.mapM (fun kw => if (![c!"ELEME", c!"CONNE"].contains kw) = true then
                writeSection mainTabs d.updateSections kw else Except.ok []) d.updateSections.sections with
      | error e => rw [hm] at hw; cases hw
      | ok v =>
        rw [hm] at hw
        cases hw
        obtain ⟨texts, ht, hfl⟩ := mapM_skip (writeSection mainTabs d.updateSections) notMesh d.updateSections.sections v hm
        exact ⟨rfl, texts, bl, cl, ht, hb, hc, by rw [hfl]; rfl⟩

/-- **whole objects with the mesh in an ASCII MESH file**: the main file read by the keyword loop (sections other
    than ELEME / CONNE), then `read_meshfile` on the MESH file -/
theorem whole_read_write_ascii (d : T2Data) (step : Str → T2Data → T2Data) (Good : Str → T2Data → Prop) (K : Str → Prop)
    (hK : ∀ kw, K kw → kw ∈ allSections)
    (hxp : d.extraPrecision = []) (hend : IsEnd d.endKeyword)
    (cfg : WriteCfg) (hfl : FlavourOK d cfg) (hcfg : cfg.mesh = .ascii) (d' : T2Data) (f : Files) (hw : d.write cfg = .ok (d', f))
    (hstep : ∀ kw d0, K kw → XpFree d0 → Good kw d0 → StepRT d' kw d0 (step kw d0))
    (hKs : ∀ kw ∈ d'.sections.filter notMesh, K kw)
    (hgood : GoodFrom step Good (d'.sections.filter notMesh) (startObj d))
    (hnob : (canonFrom step (d'.sections.filter notMesh) (startObj d)).blocks = [])
    (hb : ∀ b ∈ d'.blocks, GoodBlock (canonFrom step (d'.sections.filter notMesh) (startObj d)).rocks b)
    (hwb : ∀ b ∈ d'.blocks, ∃ l, writeBlock mainTabs b = .ok l)
    (hc : ∀ c ∈ d'.conns, GoodConn (canonBlocks d'.blocks) c) (hwc : ∀ c ∈ d'.conns, ∃ l, writeConn mainTabs c = .ok l) :
    T2Data.read .default f =
      .ok { canonFrom step (d'.sections.filter notMesh) (startObj d) with
              blocks := canonBlocks d'.blocks, conns := canonConns d'.conns,
              sections := (canonFrom step (d'.sections.filter notMesh) (startObj d)).sections ++ [c!"ELEME", c!"CONNE"],
              endKeyword := d.endKeyword } := by
  obtain ⟨hd', texts, bl, cl, hm, hbl, hcl, rfl⟩ := write_ascii d hxp cfg hfl hcfg d' f hw
  have hlen := texts_length d' step Good K hstep _ (startObj d) texts hKs rfl hgood hm
  have hloop := whole_loop d' step Good K hK hstep d.endKeyword hend _
    (startObj d) none (texts.flatten ++ [nl d.endKeyword])
    ((texts.flatten ++ [nl d.endKeyword]).length + 2) texts hKs rfl hgood hm (Or.inl ⟨rfl, rfl⟩)
    (by simp only [List.length_append]; omega)
  generalize hA : canonFrom step (d'.sections.filter notMesh) (startObj d) = a at hloop hnob hb ⊢
  have hmesh := readMeshfile_written d' { a with endKeyword := d.endKeyword } hb hwb hc hwc bl cl hbl hcl
  have hread : T2Data.read .default { main := [nl (strip d.title)] ++ texts.flatten ++ [nl d.endKeyword], mesh := some (bl ++ cl), pdat := none } =
      (readLoop .default none ((texts.flatten ++ [nl d.endKeyword]).length + 2) (startObj d) none
        (texts.flatten ++ [nl d.endKeyword])).bind
        (fun v => if v.blocks.isEmpty then readMeshfile .default ((bl ++ cl).length + 1) v (bl ++ cl) else .ok v) := rfl
  rw [hread, hloop]
  show (if ({ a with endKeyword := d.endKeyword } : T2Data).blocks.isEmpty then _ else _) = _
  have : ({ a with endKeyword := d.endKeyword } : T2Data).blocks.isEmpty = true := by
    show a.blocks.isEmpty = true
    rw [hnob]; rfl
  rw [this, if_pos rfl, hmesh]
end Proofs.T2
