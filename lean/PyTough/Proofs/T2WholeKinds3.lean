/-
  C01 proofs, layer 5f: section kinds whose readers look at sections read before (MULTI by flavour, DIFFU at MULTI,
  FOFT / GOFT / COFT at the grid) in the uniform shape `StepRT`.
-/
import PyTough.Proofs.T2WholeKinds2
namespace Proofs.T2
open Py Model Model.T2 Proofs Proofs.Incon
open Gen.Sections (Rec)

/-- the MULTI record kind of an object's flavour -/
abbrev multiName (d : T2Data) : Str := if d.autough2 then c!"multi_autough2" else c!"multi"

theorem stepRT_MULTI (d d0 : T2Data) (hxp : XpFree d0) (hfl : d0.autough2 = d.autough2) (hne : d.multi ≠ [])
    (hw : ∃ lines, writeDictSection mainTabs c!"MULTI" (multiName d) d.multi = .ok lines)
    (m : Dict) (hm : stripEos (canonDict (multiName d) d.multi d0.multi) = .ok m) :
    StepRT d c!"MULTI" d0 { d0 with multi := m } := by
  obtain ⟨lines, hw⟩ := hw
  have hT : mainTabs.get (multiName d) = .ok (recOf mainTabs (multiName d)) := by
    unfold multiName; cases d.autough2 <;> decide +kernel
  have hr : RecWF (recOf mainTabs (multiName d)) := by
    unfold multiName; cases d.autough2 <;> exact recWFb_spec (by decide +kernel)
  obtain ⟨body, rfl, _⟩ := section_roundtrip_dict c!"MULTI" (multiName d) hT hr d.multi d0.multi hne hw []
  refine stepRT_plain body hw ?_ hxp
  intro line tail
  obtain ⟨body', hb', h⟩ := section_roundtrip_dict c!"MULTI" (multiName d) hT hr d.multi d0.multi hne hw tail
  cases hb'
  have h1 : xpReadable c!"MULTI" = false := by decide
  unfold canonDict at hm
  unfold multiName at h hm
  unfold readSection
  simp only [h1, Bool.false_and, Bool.false_eq_true, if_false]
  simp (config := { decide := true }) only [hfl, h, hm, if_true, if_false, bind, Except.bind, pure, Except.pure]

def canonDiffusion (rows rows0 : List (List Val)) : List (List Val) :=
  rows0 ++ rows.map (·.map (canonV (fieldAt mainTabs c!"diffusion" 0)))

theorem stepRT_DIFFU (d d0 : T2Data) (hxp : XpFree d0) (hne : d.diffusion ≠ []) (np : Nat)
    (hnc : d0.multi.get c!"num_components" = some (.int (Int.ofNat d.diffusion.length)))
    (hnp : d0.multi.get c!"num_phases" = some (.int (Int.ofNat np)))
    (hrow : ∀ row ∈ d.diffusion, row.length = np ∧ np ≤ 8)
    (hw : ∃ lines, writeDiffusion mainTabs d.diffusion = .ok lines) :
    StepRT d c!"DIFFU" d0 { d0 with diffusion := canonDiffusion d.diffusion d0.diffusion } := by
  obtain ⟨lines, hw⟩ := hw
  have hc := chunkRec_of mainTabs c!"diffusion" 8 (main_chunks_ok _ (by decide))
  have key := fun rest => section_roundtrip_DIFFU hc.1 hc.2 d0.multi d.diffusion hne np hnc hnp hrow hw d0.diffusion rest
  obtain ⟨body, rfl, _⟩ := key []
  refine stepRT_plain body hw ?_ hxp
  intro line tail
  obtain ⟨body', hb', h⟩ := key tail
  cases hb'
  have h1 : xpReadable c!"DIFFU" = false := by decide
  unfold readSection
  simp only [h1, Bool.false_and, Bool.false_eq_true, if_false]
  simp (config := { decide := true }) only [h, if_true, if_false, bind, Except.bind, pure, Except.pure]
  rfl

/-- history items read back: bare names before the grid is read, the grid's blocks of those names after -/
def canonHistory (items : List HItem) (blocks : List Block) : List HItem :=
  if blocks.isEmpty then items.map (fun i => { isObj := false, name := cycleName i.name })
  else ((items.map (fun i => cycleName i.name)).filter fun n => blocks.any (·.name == n)).map
         (fun n => { isObj := true, name := n })

theorem stepRT_FOFT (d d0 : T2Data) (hxp : XpFree d0) (hne : d.historyBlock ≠ [])
    (hv : ∀ i ∈ d.historyBlock, Visible i.name) :
    StepRT d c!"FOFT" d0 { d0 with historyBlock := canonHistory d.historyBlock d0.blocks } := by
  obtain ⟨body, hw, _⟩ := section_roundtrip_history_blocks c!"FOFT" d.historyBlock hne hv d0.blocks []
  refine stepRT_plain body (by show Except.ok (writeHistoryBlocks c!"FOFT" d.historyBlock) = _; rw [hw]) ?_ hxp
  intro line tail
  obtain ⟨body', hb', h⟩ := section_roundtrip_history_blocks c!"FOFT" d.historyBlock hne hv d0.blocks tail
  rw [hw] at hb'
  cases hb'
  have h1 : xpReadable c!"FOFT" = false := by decide
  unfold readSection
  simp only [h1, Bool.false_and, Bool.false_eq_true, if_false]
  simp (config := { decide := true }) only [h, if_true, if_false, bind, Except.bind, pure, Except.pure]
  rfl

theorem stepRT_GOFT (d d0 : T2Data) (hxp : XpFree d0) (hne : d.historyGen ≠ [])
    (hv : ∀ i ∈ d.historyGen, Visible i.name) :
    StepRT d c!"GOFT" d0 { d0 with historyGen := canonHistory d.historyGen d0.blocks } := by
  obtain ⟨body, hw, _⟩ := section_roundtrip_history_blocks c!"GOFT" d.historyGen hne hv d0.blocks []
  refine stepRT_plain body (by show Except.ok (writeHistoryBlocks c!"GOFT" d.historyGen) = _; rw [hw]) ?_ hxp
  intro line tail
  obtain ⟨body', hb', h⟩ := section_roundtrip_history_blocks c!"GOFT" d.historyGen hne hv d0.blocks tail
  rw [hw] at hb'
  cases hb'
  have h1 : xpReadable c!"GOFT" = false := by decide
  unfold readSection
  simp only [h1, Bool.false_and, Bool.false_eq_true, if_false]
  simp (config := { decide := true }) only [h, if_true, if_false, bind, Except.bind, pure, Except.pure]
  rfl

theorem stepRT_COFT (d d0 : T2Data) (hxp : XpFree d0) (hne : d.historyConn ≠ [])
    (hv : ∀ i ∈ d.historyConn, Visible i.n1 ∧ i.n2.length = 5) (hb : d0.blocks = []) (hc : d0.conns = []) :
    StepRT d c!"COFT" d0
      { d0 with historyConn := d.historyConn.map (fun i => { isObj := false, n1 := cycleName i.n1, n2 := cycleName i.n2 }) } := by
  obtain ⟨body, hw, _⟩ := section_roundtrip_COFT d.historyConn hne hv []
  refine stepRT_plain body (by show Except.ok (writeHistoryConns d.historyConn) = _; rw [hw]) ?_ hxp
  intro line tail
  obtain ⟨body', hb', h⟩ := section_roundtrip_COFT d.historyConn hne hv tail
  rw [hw] at hb'
  cases hb'
  have h1 : xpReadable c!"COFT" = false := by decide
  unfold readSection
  simp only [h1, Bool.false_and, Bool.false_eq_true, if_false]
  simp (config := { decide := true }) only [hb, hc, h, if_true, if_false, bind, Except.bind, pure, Except.pure]

end Proofs.T2
