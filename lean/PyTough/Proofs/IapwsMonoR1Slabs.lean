/-
  Region 1 density monotonicity on the slabs 230 … 250 degC from just below the saturation pressure of the slab's cold end up to 100 MPa:
  the pressure intervals of `IapwsMonoR1BoxD/E.lean` chained.
-/
import PyTough.Proofs.IapwsMonoR1BoxD
import PyTough.Proofs.IapwsMonoR1BoxE
namespace Proofs.Iapws
open Gen.Iapws Model.Thermo Proofs.Thermo

/-- `230 ≤ t ≤ 235` degC: every pressure `2000000` Pa `≤ p1 < p2 ≤ 100 MPa` (the saturation pressure on this slab is above `2000000` Pa: `Proofs/IapwsMonoSatBounds.lean`) -/
theorem cowat_mono_slab230 (t p1 p2 : ℝ) (ht1 : 230 ≤ t) (ht2 : t ≤ 235) (hp1 : 2000000 ≤ p1) (h12 : p1 < p2) (hp2 : p2 ≤ 100000000) :
    ∃ d1 u1 d2 u2, cowat t p1 = Ret.pair d1 u1 ∧ cowat t p2 = Ret.pair d2 u2 ∧ 0 < d1 ∧ d1 < d2 :=
  cowat_of_gpAnti t 2000000 100000000 (by linarith) (by linarith) (le_refl _) (gpAnti_s230_20 t ht1 ht2) p1 p2 hp1 h12 hp2

/-- `235 ≤ t ≤ 240` degC: every pressure `2500000` Pa `≤ p1 < p2 ≤ 100 MPa` (the saturation pressure on this slab is above `2500000` Pa: `Proofs/IapwsMonoSatBounds.lean`) -/
theorem cowat_mono_slab235 (t p1 p2 : ℝ) (ht1 : 235 ≤ t) (ht2 : t ≤ 240) (hp1 : 2500000 ≤ p1) (h12 : p1 < p2) (hp2 : p2 ≤ 100000000) :
    ∃ d1 u1 d2 u2, cowat t p1 = Ret.pair d1 u1 ∧ cowat t p2 = Ret.pair d2 u2 ∧ 0 < d1 ∧ d1 < d2 :=
  cowat_of_gpAnti t 2500000 100000000 (by linarith) (by linarith) (le_refl _) ((gpAnti_s235_25 t ht1 ht2).union (gpAnti_s235_38 t ht1 ht2)) p1 p2 hp1 h12 hp2

/-- `240 ≤ t ≤ 243` degC: every pressure `3000000` Pa `≤ p1 < p2 ≤ 100 MPa` (the saturation pressure on this slab is above `3000000` Pa: `Proofs/IapwsMonoSatBounds.lean`) -/
theorem cowat_mono_slab240 (t p1 p2 : ℝ) (ht1 : 240 ≤ t) (ht2 : t ≤ 243) (hp1 : 3000000 ≤ p1) (h12 : p1 < p2) (hp2 : p2 ≤ 100000000) :
    ∃ d1 u1 d2 u2, cowat t p1 = Ret.pair d1 u1 ∧ cowat t p2 = Ret.pair d2 u2 ∧ 0 < d1 ∧ d1 < d2 :=
  cowat_of_gpAnti t 3000000 100000000 (by linarith) (by linarith) (le_refl _) ((gpAnti_s240_30 t ht1 ht2).union (gpAnti_s240_54 t ht1 ht2)) p1 p2 hp1 h12 hp2

/-- `243 ≤ t ≤ 246` degC: every pressure `3000000` Pa `≤ p1 < p2 ≤ 100 MPa` (the saturation pressure on this slab is above `3000000` Pa: `Proofs/IapwsMonoSatBounds.lean`) -/
theorem cowat_mono_slab243 (t p1 p2 : ℝ) (ht1 : 243 ≤ t) (ht2 : t ≤ 246) (hp1 : 3000000 ≤ p1) (h12 : p1 < p2) (hp2 : p2 ≤ 100000000) :
    ∃ d1 u1 d2 u2, cowat t p1 = Ret.pair d1 u1 ∧ cowat t p2 = Ret.pair d2 u2 ∧ 0 < d1 ∧ d1 < d2 :=
  cowat_of_gpAnti t 3000000 100000000 (by linarith) (by linarith) (le_refl _) ((gpAnti_s243_30 t ht1 ht2).union (gpAnti_s243_70 t ht1 ht2)) p1 p2 hp1 h12 hp2

/-- `246 ≤ t ≤ 250` degC: every pressure `3300000` Pa `≤ p1 < p2 ≤ 100 MPa` (the saturation pressure on this slab is above `3300000` Pa: `Proofs/IapwsMonoSatBounds.lean`) -/
theorem cowat_mono_slab246 (t p1 p2 : ℝ) (ht1 : 246 ≤ t) (ht2 : t ≤ 250) (hp1 : 3300000 ≤ p1) (h12 : p1 < p2) (hp2 : p2 ≤ 100000000) :
    ∃ d1 u1 d2 u2, cowat t p1 = Ret.pair d1 u1 ∧ cowat t p2 = Ret.pair d2 u2 ∧ 0 < d1 ∧ d1 < d2 :=
  cowat_of_gpAnti t 3300000 100000000 (by linarith) (by linarith) (le_refl _) ((((gpAnti_s246_33 t ht1 ht2).union (gpAnti_s246_40 t ht1 ht2)).union (gpAnti_s246_53 t ht1 ht2)).union (gpAnti_s246_91 t ht1 ht2)) p1 p2 hp1 h12 hp2

end Proofs.Iapws
