/-
  GENERATED ONCE by an adaptive subdivision (exact rational arithmetic); every number below is re-checked by Lean.
  Pieces 44..65 of the cover of the saturation interval: 638.28705054 K .. 646.62411843 K.
-/
import PyTough.Proofs.ThermoSatPiece
namespace Proofs.Iapws.Cover
open Gen.Iapws Model.Thermo Proofs.Thermo Proofs.Iapws

noncomputable def P44 : Piece := { a := (638307116959 / 1000000000 : ℝ), b := (39955161201 / 62500000 : ℝ), Alo := (214080249 / 500 : ℝ), Ahi := (86109031 / 200 : ℝ), Blo := (-2525628817 / 1000 : ℝ), Bhi := (-2516076557 / 1000 : ℝ), Clo := (3403340387 / 1000 : ℝ), Chi := (3417223287 / 1000 : ℝ), ACmax := (1471268929772 : ℝ), ACmin := (1457175914961 : ℝ), slo := (6675069449 / 10000 : ℝ), shi := (1483370839 / 2000 : ℝ), βlo := (2083264810577 / 1000000000000 : ℝ), βhi := (2146777858951 / 1000000000000 : ℝ), Mg := (-2632272 / 125 : ℝ), Mh := (1151849 / 500 : ℝ) }
theorem P44_ok : P44.ok := by
  unfold Piece.ok P44 satA satB satC nr4_0 nr4_1 nr4_2 nr4_3 nr4_4 nr4_5 nr4_6 nr4_7 pmin pstar4 pcritical
  simp only [tf_lit]
  norm_num
theorem T44 (T : ℝ) (h1 : (31914352527 / 50000000 : ℝ) ≤ T) (h2 : T ≤ (63926072271 / 100000000 : ℝ)) : Branch (thetaOf T) :=
  P44.branchT P44_ok (31914352527 / 50000000 : ℝ) (63926072271 / 100000000 : ℝ) (by unfold nr4_9; rw [tf_lit]; norm_num)
    (by unfold P44 thetaOf nr4_8 nr4_9; simp only [tf_lit]; norm_num) (by unfold P44 thetaOf nr4_8 nr4_9; simp only [tf_lit]; norm_num) T h1 h2

noncomputable def P45 : Piece := { a := (127856515843 / 200000000 : ℝ), b := (640258392133 / 1000000000 : ℝ), Alo := (215272577 / 500 : ℝ), Ahi := (108233143 / 250 : ℝ), Blo := (-126760851 / 50 : ℝ), Bhi := (-315703602 / 125 : ℝ), Clo := (1708611643 / 500 : ℝ), Chi := (3431139577 / 1000 : ℝ), ACmax := (1485452081962 : ℝ), ACmin := (1471268925923 : ℝ), slo := (6610541493 / 10000 : ℝ), shi := (3681880073 / 5000 : ℝ), βlo := (1044513559559 / 500000000000 : ℝ), βhi := (538355966747 / 250000000000 : ℝ), Mg := (-5298781 / 250 : ℝ), Mh := (455053 / 200 : ℝ) }
theorem P45_ok : P45.ok := by
  unfold Piece.ok P45 satA satB satC nr4_0 nr4_1 nr4_2 nr4_3 nr4_4 nr4_5 nr4_6 nr4_7 pmin pstar4 pcritical
  simp only [tf_lit]
  norm_num
theorem T45 (T : ℝ) (h1 : (63926072271 / 100000000 : ℝ) ≤ T) (h2 : T ≤ (500183121 / 781250 : ℝ)) : Branch (thetaOf T) :=
  P45.branchT P45_ok (63926072271 / 100000000 : ℝ) (500183121 / 781250 : ℝ) (by unfold nr4_9; rw [tf_lit]; norm_num)
    (by unfold P45 thetaOf nr4_8 nr4_9; simp only [tf_lit]; norm_num) (by unfold P45 thetaOf nr4_8 nr4_9; simp only [tf_lit]; norm_num) T h1 h2

noncomputable def P46 : Piece := { a := (160064598033 / 250000000 : ℝ), b := (80154333741 / 125000000 : ℝ), Alo := (432932571 / 1000 : ℝ), Ahi := (435323033 / 1000 : ℝ), Blo := (-254484233 / 100 : ℝ), Bhi := (-2535217019 / 1000 : ℝ), Clo := (428892447 / 125 : ℝ), Chi := (3445090921 / 1000 : ℝ), ACmax := (1499727428691 : ℝ), ACmin := (1485452078097 : ℝ), slo := (6545346581 / 10000 : ℝ), shi := (3655181843 / 5000 : ℝ), βlo := (209479037027 / 100000000000 : ℝ), βhi := (540024940771 / 250000000000 : ℝ), Mg := (-5333211 / 250 : ℝ), Mh := (17973 / 8 : ℝ) }
theorem P46_ok : P46.ok := by
  unfold Piece.ok P46 satA satB satC nr4_0 nr4_1 nr4_2 nr4_3 nr4_4 nr4_5 nr4_6 nr4_7 pmin pstar4 pcritical
  simp only [tf_lit]
  norm_num
theorem T46 (T : ℝ) (h1 : (500183121 / 781250 : ℝ) ≤ T) (h2 : T ≤ (4007550419 / 6250000 : ℝ)) : Branch (thetaOf T) :=
  P46.branchT P46_ok (500183121 / 781250 : ℝ) (4007550419 / 6250000 : ℝ) (by unfold nr4_9; rw [tf_lit]; norm_num)
    (by unfold P46 thetaOf nr4_8 nr4_9; simp only [tf_lit]; norm_num) (by unfold P46 thetaOf nr4_8 nr4_9; simp only [tf_lit]; norm_num) T h1 h2

noncomputable def P47 : Piece := { a := (641234669927 / 1000000000 : ℝ), b := (80276447811 / 125000000 : ℝ), Alo := (54415379 / 125 : ℝ), Ahi := (87543391 / 200 : ℝ), Blo := (-2554506477 / 1000 : ℝ), Bhi := (-2544842329 / 1000 : ℝ), Clo := (86127273 / 25 : ℝ), Chi := (691815959 / 200 : ℝ), ACmax := (1514097874970 : ℝ), ACmin := (1499727424810 : ℝ), slo := (3239718273 / 5000 : ℝ), shi := (3628338607 / 5000 : ℝ), βlo := (420110727251 / 200000000000 : ℝ), βhi := (2166809684563 / 1000000000000 : ℝ), Mg := (-10735697 / 500 : ℝ), Mh := (2217769 / 1000 : ℝ) }
theorem P47_ok : P47.ok := by
  unfold Piece.ok P47 satA satB satC nr4_0 nr4_1 nr4_2 nr4_3 nr4_4 nr4_5 nr4_6 nr4_7 pmin pstar4 pcritical
  simp only [tf_lit]
  norm_num
theorem T47 (T : ℝ) (h1 : (4007550419 / 6250000 : ℝ) ≤ T) (h2 : T ≤ (401363587 / 625000 : ℝ)) : Branch (thetaOf T) :=
  P47.branchT P47_ok (4007550419 / 6250000 : ℝ) (401363587 / 625000 : ℝ) (by unfold nr4_9; rw [tf_lit]; norm_num)
    (by unfold P47 thetaOf nr4_8 nr4_9; simp only [tf_lit]; norm_num) (by unfold P47 thetaOf nr4_8 nr4_9; simp only [tf_lit]; norm_num) T h1 h2

noncomputable def P48 : Piece := { a := (642211582487 / 1000000000 : ℝ), b := (80337544249 / 125000000 : ℝ), Alo := (218858477 / 500 : ℝ), Ahi := (87783081 / 200 : ℝ), Blo := (-25593539 / 10 : ℝ), Bhi := (-638626619 / 250 : ℝ), Clo := (1729539897 / 500 : ℝ), Chi := (3466089431 / 1000 : ℝ), ACmax := (1521320046374 : ℝ), ACmin := (1514097871072 : ℝ), slo := (6634931427 / 10000 : ℝ), shi := (878476043 / 1250 : ℝ), βlo := (2120746122177 / 1000000000000 : ℝ), βhi := (1077094419421 / 500000000000 : ℝ), Mg := (-10691143 / 500 : ℝ), Mh := (222139 / 100 : ℝ) }
theorem P48_ok : P48.ok := by
  unfold Piece.ok P48 satA satB satC nr4_0 nr4_1 nr4_2 nr4_3 nr4_4 nr4_5 nr4_6 nr4_7 pmin pstar4 pcritical
  simp only [tf_lit]
  norm_num
theorem T48 (T : ℝ) (h1 : (401363587 / 625000 : ℝ) ≤ T) (h2 : T ≤ (8033357191 / 12500000 : ℝ)) : Branch (thetaOf T) :=
  P48.branchT P48_ok (401363587 / 625000 : ℝ) (8033357191 / 12500000 : ℝ) (by unfold nr4_9; rw [tf_lit]; norm_num)
    (by unfold P48 thetaOf nr4_8 nr4_9; simp only [tf_lit]; norm_num) (by unfold P48 thetaOf nr4_8 nr4_9; simp only [tf_lit]; norm_num) T h1 h2

noncomputable def P49 : Piece := { a := (642700353991 / 1000000000 : ℝ), b := (643189393941 / 1000000000 : ℝ), Alo := (109728851 / 250 : ℝ), Ahi := (55014374 / 125 : ℝ), Blo := (-51284243 / 20 : ℝ), Bhi := (-2559353899 / 1000 : ℝ), Clo := (346608943 / 100 : ℝ), Chi := (3473110049 / 1000 : ℝ), ACmax := (1528567801431 : ℝ), ACmin := (1521320042468 : ℝ), slo := (1320637989 / 2000 : ℝ), shi := (6999312683 / 10000 : ℝ), βlo := (265466998981 / 125000000000 : ℝ), βhi := (17259443 / 8000000 : ℝ), Mg := (-21450489 / 1000 : ℝ), Mh := (2206789 / 1000 : ℝ) }
theorem P49_ok : P49.ok := by
  unfold Piece.ok P49 satA satB satC nr4_0 nr4_1 nr4_2 nr4_3 nr4_4 nr4_5 nr4_6 nr4_7 pmin pstar4 pcritical
  simp only [tf_lit]
  norm_num
theorem T49 (T : ℝ) (h1 : (8033357191 / 12500000 : ℝ) ≤ T) (h2 : T ≤ (4019721321 / 6250000 : ℝ)) : Branch (thetaOf T) :=
  P49.branchT P49_ok (8033357191 / 12500000 : ℝ) (4019721321 / 6250000 : ℝ) (by unfold nr4_9; rw [tf_lit]; norm_num)
    (by unfold P49 thetaOf nr4_8 nr4_9; simp only [tf_lit]; norm_num) (by unfold P49 thetaOf nr4_8 nr4_9; simp only [tf_lit]; norm_num) T h1 h2

noncomputable def P50 : Piece := { a := (32159469697 / 50000000 : ℝ), b := (643678762347 / 1000000000 : ℝ), Alo := (440114991 / 1000 : ℝ), Ahi := (441315863 / 1000 : ℝ), Blo := (-1284540919 / 500 : ℝ), Bhi := (-2564212149 / 1000 : ℝ), Clo := (434138756 / 125 : ℝ), Chi := (870035631 / 250 : ℝ), ACmax := (1535842101343 : ℝ), ACmin := (1528567797517 : ℝ), slo := (6571267303 / 10000 : ℝ), shi := (139414533 / 200 : ℝ), βlo := (2126727345451 / 1000000000000 : ℝ), βhi := (432136158833 / 200000000000 : ℝ), Mg := (-21518913 / 1000 : ℝ), Mh := (274016 / 125 : ℝ) }
theorem P50_ok : P50.ok := by
  unfold Piece.ok P50 satA satB satC nr4_0 nr4_1 nr4_2 nr4_3 nr4_4 nr4_5 nr4_6 nr4_7 pmin pstar4 pcritical
  simp only [tf_lit]
  norm_num
theorem T50 (T : ℝ) (h1 : (4019721321 / 6250000 : ℝ) ≤ T) (h2 : T ≤ (8045528093 / 12500000 : ℝ)) : Branch (thetaOf T) :=
  P50.branchT P50_ok (4019721321 / 6250000 : ℝ) (8045528093 / 12500000 : ℝ) (by unfold nr4_9; rw [tf_lit]; norm_num)
    (by unfold P50 thetaOf nr4_8 nr4_9; simp only [tf_lit]; norm_num) (by unfold P50 thetaOf nr4_8 nr4_9; simp only [tf_lit]; norm_num) T h1 h2

noncomputable def P51 : Piece := { a := (321839381173 / 500000000 : ℝ), b := (80521067319 / 125000000 : ℝ), Alo := (220657931 / 500 : ℝ), Ahi := (221259107 / 500 : ℝ), Blo := (-643490943 / 250 : ℝ), Bhi := (-2569081837 / 1000 : ℝ), Clo := (3480142523 / 1000 : ℝ), Chi := (871797003 / 250 : ℝ), ACmax := (1543144210953 : ℝ), ACmin := (1535842097420 : ℝ), slo := (6539148579 / 10000 : ℝ), shi := (3471026901 / 5000 : ℝ), βlo := (212971995079 / 100000000000 : ℝ), βhi := (540985353401 / 250000000000 : ℝ), Mg := (-10793789 / 500 : ℝ), Mh := (2177403 / 1000 : ℝ) }
theorem P51_ok : P51.ok := by
  unfold Piece.ok P51 satA satB satC nr4_0 nr4_1 nr4_2 nr4_3 nr4_4 nr4_5 nr4_6 nr4_7 pmin pstar4 pcritical
  simp only [tf_lit]
  norm_num
theorem T51 (T : ℝ) (h1 : (8045528093 / 12500000 : ℝ) ≤ T) (h2 : T ≤ (1006451693 / 1562500 : ℝ)) : Branch (thetaOf T) :=
  P51.branchT P51_ok (8045528093 / 12500000 : ℝ) (1006451693 / 1562500 : ℝ) (by unfold nr4_9; rw [tf_lit]; norm_num)
    (by unfold P51 thetaOf nr4_8 nr4_9; simp only [tf_lit]; norm_num) (by unfold P51 thetaOf nr4_8 nr4_9; simp only [tf_lit]; norm_num) T h1 h2

noncomputable def P52 : Piece := { a := (644168538551 / 1000000000 : ℝ), b := (80582353711 / 125000000 : ℝ), Alo := (442518213 / 1000 : ℝ), Ahi := (44372231 / 100 : ℝ), Blo := (-2578859043 / 1000 : ℝ), Bhi := (-2573963771 / 1000 : ℝ), Clo := (3487188011 / 1000 : ℝ), Chi := (1747124037 / 500 : ℝ), ACmax := (1550475827109 : ℝ), ACmin := (1543144207022 : ℝ), slo := (1626703311 / 2500 : ℝ), shi := (6913299759 / 10000 : ℝ), βlo := (1066356712363 / 500000000000 : ℝ), βhi := (433442809441 / 200000000000 : ℝ), Mg := (-2165651 / 100 : ℝ), Mh := (216261 / 100 : ℝ) }
theorem P52_ok : P52.ok := by
  unfold Piece.ok P52 satA satB satC nr4_0 nr4_1 nr4_2 nr4_3 nr4_4 nr4_5 nr4_6 nr4_7 pmin pstar4 pcritical
  simp only [tf_lit]
  norm_num
theorem T52 (T : ℝ) (h1 : (1006451693 / 1562500 : ℝ) ≤ T) (h2 : T ≤ (1611539799 / 2500000 : ℝ)) : Branch (thetaOf T) :=
  P52.branchT P52_ok (1006451693 / 1562500 : ℝ) (1611539799 / 2500000 : ℝ) (by unfold nr4_9; rw [tf_lit]; norm_num)
    (by unfold P52 thetaOf nr4_8 nr4_9; simp only [tf_lit]; norm_num) (by unfold P52 thetaOf nr4_8 nr4_9; simp only [tf_lit]; norm_num) T h1 h2

noncomputable def P53 : Piece := { a := (644658829687 / 1000000000 : ℝ), b := (161226053141 / 250000000 : ℝ), Alo := (443722309 / 1000 : ℝ), Ahi := (222162561 / 500 : ℝ), Blo := (-258131213 / 100 : ℝ), Bhi := (-1289429521 / 500 : ℝ), Clo := (3494248073 / 1000 : ℝ), Chi := (699556843 / 200 : ℝ), ACmax := (1554153398060 : ℝ), ACmin := (1550475823170 : ℝ), slo := (3293555701 / 5000 : ℝ), shi := (3395839439 / 5000 : ℝ), βlo := (2143394870647 / 1000000000000 : ℝ), βhi := (2160746497007 / 1000000000000 : ℝ), Mg := (-21609987 / 1000 : ℝ), Mh := (1082231 / 500 : ℝ) }
theorem P53_ok : P53.ok := by
  unfold Piece.ok P53 satA satB satC nr4_0 nr4_1 nr4_2 nr4_3 nr4_4 nr4_5 nr4_6 nr4_7 pmin pstar4 pcritical
  simp only [tf_lit]
  norm_num
theorem T53 (T : ℝ) (h1 : (1611539799 / 2500000 : ℝ) ≤ T) (h2 : T ≤ (16121483441 / 25000000 : ℝ)) : Branch (thetaOf T) :=
  P53.branchT P53_ok (1611539799 / 2500000 : ℝ) (16121483441 / 25000000 : ℝ) (by unfold nr4_9; rw [tf_lit]; norm_num)
    (by unfold P53 thetaOf nr4_8 nr4_9; simp only [tf_lit]; norm_num) (by unfold P53 thetaOf nr4_8 nr4_9; simp only [tf_lit]; norm_num) T h1 h2

noncomputable def P54 : Piece := { a := (644904212563 / 1000000000 : ℝ), b := (161287446003 / 250000000 : ℝ), Alo := (444325121 / 1000 : ℝ), Ahi := (444928517 / 1000 : ℝ), Blo := (-2583769161 / 1000 : ℝ), Bhi := (-2581312129 / 1000 : ℝ), Clo := (1748892107 / 500 : ℝ), Chi := (3501324871 / 1000 : ℝ), ACmax := (1557839282390 : ℝ), ACmin := (1554153394117 : ℝ), slo := (6571264549 / 10000 : ℝ), shi := (1694198743 / 2500 : ℝ), βlo := (21449267369 / 10000000000 : ℝ), βhi := (2162353727137 / 1000000000000 : ℝ), Mg := (-10822097 / 500 : ℝ), Mh := (431403 / 200 : ℝ) }
theorem P54_ok : P54.ok := by
  unfold Piece.ok P54 satA satB satC nr4_0 nr4_1 nr4_2 nr4_3 nr4_4 nr4_5 nr4_6 nr4_7 pmin pstar4 pcritical
  simp only [tf_lit]
  norm_num
theorem T54 (T : ℝ) (h1 : (16121483441 / 25000000 : ℝ) ≤ T) (h2 : T ≤ (4031892223 / 6250000 : ℝ)) : Branch (thetaOf T) :=
  P54.branchT P54_ok (16121483441 / 25000000 : ℝ) (4031892223 / 6250000 : ℝ) (by unfold nr4_9; rw [tf_lit]; norm_num)
    (by unfold P54 thetaOf nr4_8 nr4_9; simp only [tf_lit]; norm_num) (by unfold P54 thetaOf nr4_8 nr4_9; simp only [tf_lit]; norm_num) T h1 h2

noncomputable def P55 : Piece := { a := (645149784011 / 1000000000 : ℝ), b := (645395572549 / 1000000000 : ℝ), Alo := (111232129 / 250 : ℝ), Ahi := (222766283 / 500 : ℝ), Blo := (-1293115213 / 500 : ℝ), Bhi := (-64594229 / 25 : ℝ), Clo := (350132487 / 100 : ℝ), Chi := (3504870459 / 1000 : ℝ), ACmax := (1561533929096 : ℝ), ACmin := (1557839278442 : ℝ), slo := (6555359301 / 10000 : ℝ), shi := (6761883633 / 10000 : ℝ), βlo := (429291896121 / 200000000000 : ℝ), βhi := (13524777543 / 6250000000 : ℝ), Mg := (-21678479 / 1000 : ℝ), Mh := (2149549 / 1000 : ℝ) }
theorem P55_ok : P55.ok := by
  unfold Piece.ok P55 satA satB satC nr4_0 nr4_1 nr4_2 nr4_3 nr4_4 nr4_5 nr4_6 nr4_7 pmin pstar4 pcritical
  simp only [tf_lit]
  norm_num
theorem T55 (T : ℝ) (h1 : (4031892223 / 6250000 : ℝ) ≤ T) (h2 : T ≤ (16133654343 / 25000000 : ℝ)) : Branch (thetaOf T) :=
  P55.branchT P55_ok (4031892223 / 6250000 : ℝ) (16133654343 / 25000000 : ℝ) (by unfold nr4_9; rw [tf_lit]; norm_num)
    (by unfold P55 thetaOf nr4_8 nr4_9; simp only [tf_lit]; norm_num) (by unfold P55 thetaOf nr4_8 nr4_9; simp only [tf_lit]; norm_num) T h1 h2

noncomputable def P56 : Piece := { a := (161348893137 / 250000000 : ℝ), b := (129128322549 / 200000000 : ℝ), Alo := (89106513 / 200 : ℝ), Ahi := (89227471 / 200 : ℝ), Blo := (-647174069 / 250 : ℝ), Bhi := (-103449217 / 40 : ℝ), Clo := (1752435229 / 500 : ℝ), Chi := (1754210741 / 500 : ℝ), ACmax := (1565237880205 : ℝ), ACmin := (1561533925145 : ℝ), slo := (653939057 / 1000 : ℝ), shi := (67469453 / 100 : ℝ), βlo := (2147993094517 / 1000000000000 : ℝ), βhi := (2165578993007 / 1000000000000 : ℝ), Mg := (-2714106 / 125 : ℝ), Mh := (2142061 / 1000 : ℝ) }
theorem P56_ok : P56.ok := by
  unfold Piece.ok P56 satA satB satC nr4_0 nr4_1 nr4_2 nr4_3 nr4_4 nr4_5 nr4_6 nr4_7 pmin pstar4 pcritical
  simp only [tf_lit]
  norm_num
theorem T56 (T : ℝ) (h1 : (16133654343 / 25000000 : ℝ) ≤ T) (h2 : T ≤ (8069869897 / 12500000 : ℝ)) : Branch (thetaOf T) :=
  P56.branchT P56_ok (16133654343 / 25000000 : ℝ) (8069869897 / 12500000 : ℝ) (by unfold nr4_9; rw [tf_lit]; norm_num)
    (by unfold P56 thetaOf nr4_8 nr4_9; simp only [tf_lit]; norm_num) (by unfold P56 thetaOf nr4_8 nr4_9; simp only [tf_lit]; norm_num) T h1 h2

noncomputable def P57 : Piece := { a := (80705201593 / 125000000 : ℝ), b := (16147198673 / 25000000 : ℝ), Alo := (223068677 / 500 : ℝ), Ahi := (111685747 / 250 : ℝ), Blo := (-518233429 / 200 : ℝ), Bhi := (-103547851 / 40 : ℝ), Clo := (3508421481 / 1000 : ℝ), Chi := (3511978557 / 1000 : ℝ), ACmax := (1568951794347 : ℝ), ACmin := (1565237876250 : ℝ), slo := (815419013 / 1250 : ℝ), shi := (67319809 / 100 : ℝ), βlo := (2149527536553 / 1000000000000 : ℝ), βhi := (1083599024823 / 500000000000 : ℝ), Mg := (-21747311 / 1000 : ℝ), Mh := (2134551 / 1000 : ℝ) }
theorem P57_ok : P57.ok := by
  unfold Piece.ok P57 satA satB satC nr4_0 nr4_1 nr4_2 nr4_3 nr4_4 nr4_5 nr4_6 nr4_7 pmin pstar4 pcritical
  simp only [tf_lit]
  norm_num
theorem T57 (T : ℝ) (h1 : (8069869897 / 12500000 : ℝ) ≤ T) (h2 : T ≤ (3229165049 / 5000000 : ℝ)) : Branch (thetaOf T) :=
  P57.branchT P57_ok (8069869897 / 12500000 : ℝ) (3229165049 / 5000000 : ℝ) (by unfold nr4_9; rw [tf_lit]; norm_num)
    (by unfold P57 thetaOf nr4_8 nr4_9; simp only [tf_lit]; norm_num) (by unfold P57 thetaOf nr4_8 nr4_9; simp only [tf_lit]; norm_num) T h1 h2

noncomputable def P58 : Piece := { a := (645887946919 / 1000000000 : ℝ), b := (129202248029 / 200000000 : ℝ), Alo := (446742987 / 1000 : ℝ), Ahi := (11176154 / 25 : ℝ), Blo := (-1296202311 / 500 : ℝ), Bhi := (-323895893 / 125 : ℝ), Clo := (877994639 / 250 : ℝ), Chi := (702751919 / 200 : ℝ), ACmax := (1570812734108 : ℝ), ACmin := (1568951790387 : ℝ), slo := (6564268669 / 10000 : ℝ), shi := (1667248037 / 2500 : ℝ), βlo := (1077524137623 / 500000000000 : ℝ), βhi := (540978888249 / 250000000000 : ℝ), Mg := (-10861741 / 500 : ℝ), Mh := (266937 / 125 : ℝ) }
theorem P58_ok : P58.ok := by
  unfold Piece.ok P58 satA satB satC nr4_0 nr4_1 nr4_2 nr4_3 nr4_4 nr4_5 nr4_6 nr4_7 pmin pstar4 pcritical
  simp only [tf_lit]
  norm_num
theorem T58 (T : ℝ) (h1 : (3229165049 / 5000000 : ℝ) ≤ T) (h2 : T ≤ (32297735941 / 50000000 : ℝ)) : Branch (thetaOf T) :=
  P58.branchT P58_ok (3229165049 / 5000000 : ℝ) (32297735941 / 50000000 : ℝ) (by unfold nr4_9; rw [tf_lit]; norm_num)
    (by unfold P58 thetaOf nr4_8 nr4_9; simp only [tf_lit]; norm_num) (by unfold P58 thetaOf nr4_8 nr4_9; simp only [tf_lit]; norm_num) T h1 h2

noncomputable def P59 : Piece := { a := (40375702509 / 62500000 : ℝ), b := (646134627449 / 1000000000 : ℝ), Alo := (447046159 / 1000 : ℝ), Ahi := (447349593 / 1000 : ℝ), Blo := (-2593643563 / 1000 : ℝ), Bhi := (-2592404621 / 1000 : ℝ), Clo := (1756879797 / 500 : ℝ), Chi := (3515542447 / 1000 : ℝ), ACmax := (1572676482840 : ℝ), ACmin := (1570812730147 : ℝ), slo := (6556338823 / 10000 : ℝ), shi := (66613513 / 100 : ℝ), βlo := (2155827082093 / 1000000000000 : ℝ), βhi := (2164717224521 / 1000000000000 : ℝ), Mg := (-21740651 / 1000 : ℝ), Mh := (2131727 / 1000 : ℝ) }
theorem P59_ok : P59.ok := by
  unfold Piece.ok P59 satA satB satC nr4_0 nr4_1 nr4_2 nr4_3 nr4_4 nr4_5 nr4_6 nr4_7 pmin pstar4 pcritical
  simp only [tf_lit]
  norm_num
theorem T59 (T : ℝ) (h1 : (32297735941 / 50000000 : ℝ) ≤ T) (h2 : T ≤ (2018988837 / 3125000 : ℝ)) : Branch (thetaOf T) :=
  P59.branchT P59_ok (32297735941 / 50000000 : ℝ) (2018988837 / 3125000 : ℝ) (by unfold nr4_9; rw [tf_lit]; norm_num)
    (by unfold P59 thetaOf nr4_8 nr4_9; simp only [tf_lit]; norm_num) (by unfold P59 thetaOf nr4_8 nr4_9; simp only [tf_lit]; norm_num) T h1 h2

noncomputable def P60 : Piece := { a := (80766828431 / 125000000 : ℝ), b := (64625811747 / 100000000 : ℝ), Alo := (55918699 / 125 : ℝ), Ahi := (44765331 / 100 : ℝ), Blo := (-324360507 / 125 : ℝ), Bhi := (-1296821781 / 500 : ℝ), Clo := (1757771223 / 500 : ℝ), Chi := (3517327237 / 1000 : ℝ), ACmax := (1574543179997 : ℝ), ACmin := (1572676478876 : ℝ), slo := (6548390693 / 10000 : ℝ), shi := (166342521 / 250 : ℝ), βlo := (431321276813 / 200000000000 : ℝ), βhi := (2165520112751 / 1000000000000 : ℝ), Mg := (-21757847 / 1000 : ℝ), Mh := (42559 / 20 : ℝ) }
theorem P60_ok : P60.ok := by
  unfold Piece.ok P60 satA satB satC nr4_0 nr4_1 nr4_2 nr4_3 nr4_4 nr4_5 nr4_6 nr4_7 pmin pstar4 pcritical
  simp only [tf_lit]
  norm_num
theorem T60 (T : ℝ) (h1 : (2018988837 / 3125000 : ℝ) ≤ T) (h2 : T ≤ (32309906843 / 50000000 : ℝ)) : Branch (thetaOf T) :=
  P60.branchT P60_ok (2018988837 / 3125000 : ℝ) (32309906843 / 50000000 : ℝ) (by unfold nr4_9; rw [tf_lit]; norm_num)
    (by unfold P60 thetaOf nr4_8 nr4_9; simp only [tf_lit]; norm_num) (by unfold P60 thetaOf nr4_8 nr4_9; simp only [tf_lit]; norm_num) T h1 h2

noncomputable def P61 : Piece := { a := (646258117469 / 1000000000 : ℝ), b := (129276343987 / 200000000 : ℝ), Alo := (447653309 / 1000 : ℝ), Ahi := (223978667 / 500 : ℝ), Blo := (-2596126201 / 1000 : ℝ), Bhi := (-518976811 / 200 : ℝ), Clo := (879331809 / 250 : ℝ), Chi := (3519114109 / 1000 : ℝ), ACmax := (1576412974310 : ℝ), ACmin := (1574543176031 : ℝ), slo := (163510581 / 250 : ℝ), shi := (6646040531 / 10000 : ℝ), βlo := (2157386206097 / 1000000000000 : ℝ), βhi := (1083162158351 / 500000000000 : ℝ), Mg := (-2177507 / 100 : ℝ), Mh := (2124167 / 1000 : ℝ) }
theorem P61_ok : P61.ok := by
  unfold Piece.ok P61 satA satB satC nr4_0 nr4_1 nr4_2 nr4_3 nr4_4 nr4_5 nr4_6 nr4_7 pmin pstar4 pcritical
  simp only [tf_lit]
  norm_num
theorem T61 (T : ℝ) (h1 : (32309906843 / 50000000 : ℝ) ≤ T) (h2 : T ≤ (16157996147 / 25000000 : ℝ)) : Branch (thetaOf T) :=
  P61.branchT P61_ok (32309906843 / 50000000 : ℝ) (16157996147 / 25000000 : ℝ) (by unfold nr4_9; rw [tf_lit]; norm_num)
    (by unfold P61 thetaOf nr4_8 nr4_9; simp only [tf_lit]; norm_num) (by unfold P61 thetaOf nr4_8 nr4_9; simp only [tf_lit]; norm_num) T h1 h2

noncomputable def P62 : Piece := { a := (323190859967 / 500000000 : ℝ), b := (646505445839 / 1000000000 : ℝ), Alo := (447957333 / 1000 : ℝ), Ahi := (112065423 / 250 : ℝ), Blo := (-649342527 / 250 : ℝ), Bhi := (-12980631 / 5 : ℝ), Clo := (879778527 / 250 : ℝ), Chi := (3520903221 / 1000 : ℝ), ACmax := (1578286035214 : ℝ), ACmin := (1576412970342 : ℝ), slo := (6532435269 / 10000 : ℝ), shi := (6638370257 / 10000 : ℝ), βlo := (86326662827 / 40000000000 : ℝ), βhi := (2167129946373 / 1000000000000 : ℝ), Mg := (-5448081 / 250 : ℝ), Mh := (265047 / 125 : ℝ) }
theorem P62_ok : P62.ok := by
  unfold Piece.ok P62 satA satB satC nr4_0 nr4_1 nr4_2 nr4_3 nr4_4 nr4_5 nr4_6 nr4_7 pmin pstar4 pcritical
  simp only [tf_lit]
  norm_num
theorem T62 (T : ℝ) (h1 : (16157996147 / 25000000 : ℝ) ≤ T) (h2 : T ≤ (6464415549 / 10000000 : ℝ)) : Branch (thetaOf T) :=
  P62.branchT P62_ok (16157996147 / 25000000 : ℝ) (6464415549 / 10000000 : ℝ) (by unfold nr4_9; rw [tf_lit]; norm_num)
    (by unfold P62 thetaOf nr4_8 nr4_9; simp only [tf_lit]; norm_num) (by unfold P62 thetaOf nr4_8 nr4_9; simp only [tf_lit]; norm_num) T h1 h2

noncomputable def P63 : Piece := { a := (323252722919 / 500000000 : ℝ), b := (161641839729 / 250000000 : ℝ), Alo := (448261691 / 1000 : ℝ), Ahi := (224207003 / 500 : ℝ), Blo := (-1298996381 / 500 : ℝ), Bhi := (-2597370107 / 1000 : ℝ), Clo := (176045161 / 50 : ℝ), Chi := (3521798673 / 1000 : ℝ), ACmax := (1579223851286 : ℝ), ACmin := (1578286031244 : ℝ), slo := (6553137169 / 10000 : ℝ), shi := (1321245271 / 2000 : ℝ), βlo := (270122643401 / 125000000000 : ℝ), βhi := (2165472492053 / 1000000000000 : ℝ), Mg := (-4356047 / 200 : ℝ), Mh := (2120857 / 1000 : ℝ) }
theorem P63_ok : P63.ok := by
  unfold Piece.ok P63 satA satB satC nr4_0 nr4_1 nr4_2 nr4_3 nr4_4 nr4_5 nr4_6 nr4_7 pmin pstar4 pcritical
  simp only [tf_lit]
  norm_num
theorem T63 (T : ℝ) (h1 : (6464415549 / 10000000 : ℝ) ≤ T) (h2 : T ≤ (64650240941 / 100000000 : ℝ)) : Branch (thetaOf T) :=
  P63.branchT P63_ok (6464415549 / 10000000 : ℝ) (64650240941 / 100000000 : ℝ) (by unfold nr4_9; rw [tf_lit]; norm_num)
    (by unfold P63 thetaOf nr4_8 nr4_9; simp only [tf_lit]; norm_num) (by unfold P63 thetaOf nr4_8 nr4_9; simp only [tf_lit]; norm_num) T h1 h2

noncomputable def P64 : Piece := { a := (129313471783 / 200000000 : ℝ), b := (323314653831 / 500000000 : ℝ), Alo := (89682801 / 200 : ℝ), Ahi := (56070802 / 125 : ℝ), Blo := (-519723181 / 200 : ℝ), Bhi := (-2597992761 / 1000 : ℝ), Clo := (440224834 / 125 : ℝ), Chi := (704538951 / 200 : ℝ), ACmax := (1580162560913 : ℝ), ACmin := (1579223847315 : ℝ), slo := (3274584487 / 5000 : ℝ), shi := (1320468451 / 2000 : ℝ), βlo := (1080687521969 / 500000000000 : ℝ), βhi := (17326984761 / 8000000000 : ℝ), Mg := (-10894423 / 500 : ℝ), Mh := (2118957 / 1000 : ℝ) }
theorem P64_ok : P64.ok := by
  unfold Piece.ok P64 satA satB satC nr4_0 nr4_1 nr4_2 nr4_3 nr4_4 nr4_5 nr4_6 nr4_7 pmin pstar4 pcritical
  simp only [tf_lit]
  norm_num
theorem T64 (T : ℝ) (h1 : (64650240941 / 100000000 : ℝ) ≤ T) (h2 : T ≤ (8082040799 / 12500000 : ℝ)) : Branch (thetaOf T) :=
  P64.branchT P64_ok (64650240941 / 100000000 : ℝ) (8082040799 / 12500000 : ℝ) (by unfold nr4_9; rw [tf_lit]; norm_num)
    (by unfold P64 thetaOf nr4_8 nr4_9; simp only [tf_lit]; norm_num) (by unfold P64 thetaOf nr4_8 nr4_9; simp only [tf_lit]; norm_num) T h1 h2

noncomputable def P65 : Piece := { a := (646629307661 / 1000000000 : ℝ), b := (646691293909 / 1000000000 : ℝ), Alo := (89713283 / 200 : ℝ), Ahi := (17948757 / 40 : ℝ), Blo := (-2599239557 / 1000 : ℝ), Bhi := (-324826988 / 125 : ℝ), Clo := (1761347377 / 500 : ℝ), Chi := (704718299 / 200 : ℝ), ACmax := (1581102187776 : ℝ), ACmin := (1580162556941 : ℝ), slo := (6545195683 / 10000 : ℝ), shi := (82480684 / 125 : ℝ), βlo := (540442290191 / 250000000000 : ℝ), βhi := (541568515207 / 250000000000 : ℝ), Mg := (-4359493 / 200 : ℝ), Mh := (264632 / 125 : ℝ) }
theorem P65_ok : P65.ok := by
  unfold Piece.ok P65 satA satB satC nr4_0 nr4_1 nr4_2 nr4_3 nr4_4 nr4_5 nr4_6 nr4_7 pmin pstar4 pcritical
  simp only [tf_lit]
  norm_num
theorem T65 (T : ℝ) (h1 : (8082040799 / 12500000 : ℝ) ≤ T) (h2 : T ≤ (64662411843 / 100000000 : ℝ)) : Branch (thetaOf T) :=
  P65.branchT P65_ok (8082040799 / 12500000 : ℝ) (64662411843 / 100000000 : ℝ) (by unfold nr4_9; rw [tf_lit]; norm_num)
    (by unfold P65 thetaOf nr4_8 nr4_9; simp only [tf_lit]; norm_num) (by unfold P65 thetaOf nr4_8 nr4_9; simp only [tf_lit]; norm_num) T h1 h2

theorem cover2 (T : ℝ) (h0 : (31914352527 / 50000000 : ℝ) ≤ T) (hN : T ≤ (64662411843 / 100000000 : ℝ)) : Branch (thetaOf T) := by
  by_cases c44 : T ≤ (63926072271 / 100000000 : ℝ)
  · exact T44 T h0 c44
  have g44 := le_of_lt (not_le.mp c44)
  by_cases c45 : T ≤ (500183121 / 781250 : ℝ)
  · exact T45 T g44 c45
  have g45 := le_of_lt (not_le.mp c45)
  by_cases c46 : T ≤ (4007550419 / 6250000 : ℝ)
  · exact T46 T g45 c46
  have g46 := le_of_lt (not_le.mp c46)
  by_cases c47 : T ≤ (401363587 / 625000 : ℝ)
  · exact T47 T g46 c47
  have g47 := le_of_lt (not_le.mp c47)
  by_cases c48 : T ≤ (8033357191 / 12500000 : ℝ)
  · exact T48 T g47 c48
  have g48 := le_of_lt (not_le.mp c48)
  by_cases c49 : T ≤ (4019721321 / 6250000 : ℝ)
  · exact T49 T g48 c49
  have g49 := le_of_lt (not_le.mp c49)
  by_cases c50 : T ≤ (8045528093 / 12500000 : ℝ)
  · exact T50 T g49 c50
  have g50 := le_of_lt (not_le.mp c50)
  by_cases c51 : T ≤ (1006451693 / 1562500 : ℝ)
  · exact T51 T g50 c51
  have g51 := le_of_lt (not_le.mp c51)
  by_cases c52 : T ≤ (1611539799 / 2500000 : ℝ)
  · exact T52 T g51 c52
  have g52 := le_of_lt (not_le.mp c52)
  by_cases c53 : T ≤ (16121483441 / 25000000 : ℝ)
  · exact T53 T g52 c53
  have g53 := le_of_lt (not_le.mp c53)
  by_cases c54 : T ≤ (4031892223 / 6250000 : ℝ)
  · exact T54 T g53 c54
  have g54 := le_of_lt (not_le.mp c54)
  by_cases c55 : T ≤ (16133654343 / 25000000 : ℝ)
  · exact T55 T g54 c55
  have g55 := le_of_lt (not_le.mp c55)
  by_cases c56 : T ≤ (8069869897 / 12500000 : ℝ)
  · exact T56 T g55 c56
  have g56 := le_of_lt (not_le.mp c56)
  by_cases c57 : T ≤ (3229165049 / 5000000 : ℝ)
  · exact T57 T g56 c57
  have g57 := le_of_lt (not_le.mp c57)
  by_cases c58 : T ≤ (32297735941 / 50000000 : ℝ)
  · exact T58 T g57 c58
  have g58 := le_of_lt (not_le.mp c58)
  by_cases c59 : T ≤ (2018988837 / 3125000 : ℝ)
  · exact T59 T g58 c59
  have g59 := le_of_lt (not_le.mp c59)
  by_cases c60 : T ≤ (32309906843 / 50000000 : ℝ)
  · exact T60 T g59 c60
  have g60 := le_of_lt (not_le.mp c60)
  by_cases c61 : T ≤ (16157996147 / 25000000 : ℝ)
  · exact T61 T g60 c61
  have g61 := le_of_lt (not_le.mp c61)
  by_cases c62 : T ≤ (6464415549 / 10000000 : ℝ)
  · exact T62 T g61 c62
  have g62 := le_of_lt (not_le.mp c62)
  by_cases c63 : T ≤ (64650240941 / 100000000 : ℝ)
  · exact T63 T g62 c63
  have g63 := le_of_lt (not_le.mp c63)
  by_cases c64 : T ≤ (8082040799 / 12500000 : ℝ)
  · exact T64 T g63 c64
  have g64 := le_of_lt (not_le.mp c64)
  exact T65 T g64 hN

end Proofs.Iapws.Cover
