/-
  Region 1 density monotonicity, boxes (part D): narrow temperature slabs 230 … 250 degC cut into pressure intervals that are chained
  (`GpAnti.union`) in `Proofs/IapwsMonoR1Slabs.lean`; bounds evaluated on the generated table `tbl1` by `norm_num`.
-/
import PyTough.Proofs.IapwsMonoR1Chain
namespace Proofs.Iapws
open Gen.Iapws Model.Thermo Proofs.Thermo

theorem sumU_r1_s230_20 : sumU2 tbl1 (5251 / 5000) (4362 / 625) (15053 / 10000) (15329 / 10000) < 0 ∧ sumU1 tbl1 (5251 / 5000) (4362 / 625) (15053 / 10000) (15329 / 10000) < 0 := by
  unfold sumU2 sumU1 rowU2 rowU1 yMax yMin tbl1
  simp only [zip3, ir1, jr1, nr1, tf_lit, List.zip_cons_cons, List.zip_nil_right, List.map_cons, List.map_nil, List.sum_cons, List.sum_nil]
  norm_num [Int.toNat]

/-- `230 ≤ t ≤ 235` degC, `2000000 ≤ p ≤ 100000000` Pa -/
theorem gpAnti_s230_20 (t : ℝ) (ht1 : 230 ≤ t) (ht2 : t ≤ 235) : GpAnti t 2000000 100000000 :=
  gpAnti_box 230 235 2000000 100000000 (5251 / 5000) (4362 / 625) (15053 / 10000) (15329 / 10000) t
    (by norm_num) (by norm_num) (by norm_num) (by norm_num) (by norm_num) (by norm_num) (by norm_num)
    sumU_r1_s230_20.1 sumU_r1_s230_20.2 ht1 ht2

theorem sumU_r1_s235_38 : sumU2 tbl1 (5251 / 5000) (68703 / 10000) (3697 / 2500) (15057 / 10000) < 0 ∧ sumU1 tbl1 (5251 / 5000) (68703 / 10000) (3697 / 2500) (15057 / 10000) < 0 := by
  unfold sumU2 sumU1 rowU2 rowU1 yMax yMin tbl1
  simp only [zip3, ir1, jr1, nr1, tf_lit, List.zip_cons_cons, List.zip_nil_right, List.map_cons, List.map_nil, List.sum_cons, List.sum_nil]
  norm_num [Int.toNat]

/-- `235 ≤ t ≤ 240` degC, `3800000 ≤ p ≤ 100000000` Pa -/
theorem gpAnti_s235_38 (t : ℝ) (ht1 : 235 ≤ t) (ht2 : t ≤ 240) : GpAnti t 3800000 100000000 :=
  gpAnti_box 235 240 3800000 100000000 (5251 / 5000) (68703 / 10000) (3697 / 2500) (15057 / 10000) t
    (by norm_num) (by norm_num) (by norm_num) (by norm_num) (by norm_num) (by norm_num) (by norm_num)
    sumU_r1_s235_38.1 sumU_r1_s235_38.2 ht1 ht2

theorem sumU_r1_s240_54 : sumU2 tbl1 (5251 / 5000) (13547 / 2000) (14631 / 10000) (1849 / 1250) < 0 ∧ sumU1 tbl1 (5251 / 5000) (13547 / 2000) (14631 / 10000) (1849 / 1250) < 0 := by
  unfold sumU2 sumU1 rowU2 rowU1 yMax yMin tbl1
  simp only [zip3, ir1, jr1, nr1, tf_lit, List.zip_cons_cons, List.zip_nil_right, List.map_cons, List.map_nil, List.sum_cons, List.sum_nil]
  norm_num [Int.toNat]

/-- `240 ≤ t ≤ 243` degC, `5400000 ≤ p ≤ 100000000` Pa -/
theorem gpAnti_s240_54 (t : ℝ) (ht1 : 240 ≤ t) (ht2 : t ≤ 243) : GpAnti t 5400000 100000000 :=
  gpAnti_box 240 243 5400000 100000000 (5251 / 5000) (13547 / 2000) (14631 / 10000) (1849 / 1250) t
    (by norm_num) (by norm_num) (by norm_num) (by norm_num) (by norm_num) (by norm_num) (by norm_num)
    sumU_r1_s240_54.1 sumU_r1_s240_54.2 ht1 ht2

theorem sumU_r1_s243_70 : sumU2 tbl1 (5251 / 5000) (66767 / 10000) (579 / 400) (2927 / 2000) < 0 ∧ sumU1 tbl1 (5251 / 5000) (66767 / 10000) (579 / 400) (2927 / 2000) < 0 := by
  unfold sumU2 sumU1 rowU2 rowU1 yMax yMin tbl1
  simp only [zip3, ir1, jr1, nr1, tf_lit, List.zip_cons_cons, List.zip_nil_right, List.map_cons, List.map_nil, List.sum_cons, List.sum_nil]
  norm_num [Int.toNat]

/-- `243 ≤ t ≤ 246` degC, `7000000 ≤ p ≤ 100000000` Pa -/
theorem gpAnti_s243_70 (t : ℝ) (ht1 : 243 ≤ t) (ht2 : t ≤ 246) : GpAnti t 7000000 100000000 :=
  gpAnti_box 243 246 7000000 100000000 (5251 / 5000) (66767 / 10000) (579 / 400) (2927 / 2000) t
    (by norm_num) (by norm_num) (by norm_num) (by norm_num) (by norm_num) (by norm_num) (by norm_num)
    sumU_r1_s243_70.1 sumU_r1_s243_70.2 ht1 ht2

theorem sumU_r1_s246_40 : sumU2 tbl1 (4237 / 625) (34291 / 5000) (14271 / 10000) (181 / 125) < 0 ∧ sumU1 tbl1 (4237 / 625) (34291 / 5000) (14271 / 10000) (181 / 125) < 0 := by
  unfold sumU2 sumU1 rowU2 rowU1 yMax yMin tbl1
  simp only [zip3, ir1, jr1, nr1, tf_lit, List.zip_cons_cons, List.zip_nil_right, List.map_cons, List.map_nil, List.sum_cons, List.sum_nil]
  norm_num [Int.toNat]

/-- `246 ≤ t ≤ 250` degC, `4000000 ≤ p ≤ 5300000` Pa -/
theorem gpAnti_s246_40 (t : ℝ) (ht1 : 246 ≤ t) (ht2 : t ≤ 250) : GpAnti t 4000000 5300000 :=
  gpAnti_box 246 250 4000000 5300000 (4237 / 625) (34291 / 5000) (14271 / 10000) (181 / 125) t
    (by norm_num) (by norm_num) (by norm_num) (by norm_num) (by norm_num) (by norm_num) (by norm_num)
    sumU_r1_s246_40.1 sumU_r1_s246_40.2 ht1 ht2

theorem sumU_r1_s246_91 : sumU2 tbl1 (5251 / 5000) (8187 / 1250) (14271 / 10000) (181 / 125) < 0 ∧ sumU1 tbl1 (5251 / 5000) (8187 / 1250) (14271 / 10000) (181 / 125) < 0 := by
  unfold sumU2 sumU1 rowU2 rowU1 yMax yMin tbl1
  simp only [zip3, ir1, jr1, nr1, tf_lit, List.zip_cons_cons, List.zip_nil_right, List.map_cons, List.map_nil, List.sum_cons, List.sum_nil]
  norm_num [Int.toNat]

/-- `246 ≤ t ≤ 250` degC, `9100000 ≤ p ≤ 100000000` Pa -/
theorem gpAnti_s246_91 (t : ℝ) (ht1 : 246 ≤ t) (ht2 : t ≤ 250) : GpAnti t 9100000 100000000 :=
  gpAnti_box 246 250 9100000 100000000 (5251 / 5000) (8187 / 1250) (14271 / 10000) (181 / 125) t
    (by norm_num) (by norm_num) (by norm_num) (by norm_num) (by norm_num) (by norm_num) (by norm_num)
    sumU_r1_s246_91.1 sumU_r1_s246_91.2 ht1 ht2

end Proofs.Iapws
