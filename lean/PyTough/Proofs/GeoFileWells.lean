/-
  C03 proofs, part 4: WELLS.
-/
import PyTough.Proofs.GeoFileSections
namespace Proofs.GeoFile
open Py Model Model.GeoFile Proofs

def wellNameItem (name : Str) : Item := (fS 5, .str name, rjust name 5, .str (rjust name 5))

def wellItems (s : Rat) (name : Str) (p : Flt × Flt × Flt) : List Item :=
  [wellNameItem name, coordItem 1 s p.1, coordItem 1 s p.2.1, coordItem 1 s p.2.2]

def canonPos (s : Rat) (p : Flt × Flt × Flt) : Flt × Flt × Flt := (canonC 1 s p.1, canonC 1 s p.2.1, canonC 1 s p.2.2)

structure PosOK (s : Rat) (p : Flt × Flt × Flt) : Prop where
  x : fitsC 1 s p.1 = true
  y : fitsC 1 s p.2.1 = true
  z : fitsC 1 s p.2.2 = true

structure WellNameOK (name : Str) : Prop where
  len : name.length ≤ 5
  nonl : '\n' ∉ name

theorem rjust_no_newline {n : Str} {w : Nat} (h : '\n' ∉ n) : '\n' ∉ rjust n w := by
  unfold rjust
  simp only [List.mem_append, not_or]
  exact ⟨fun hc => by have := mem_replicate_blank hc; revert this; decide, h⟩

theorem rjust_length {n : Str} {w : Nat} (h : n.length ≤ w) : (rjust n w).length = w := by
  unfold rjust; simp; omega

/-- a well name of at most five characters in its `5s` field: written right-justified, read back so -/
theorem wellNameItem_ok {name : Str} (hn : WellNameOK name) :
    FieldRT (wellNameItem name).1 (wellNameItem name).2.1 (wellNameItem name).2.2.1 (wellNameItem name).2.2.2 := by
  show FieldRT (fS 5) (.str name) (rjust name 5) (.str (rjust name 5))
  have hf : fmtVal (fS 5) (.str name) = .ok (rjust name 5) := by
    rw [fmtVal_s_str (f := fS 5) rfl]
    rfl
  have hl : (rjust name 5).length = 5 := rjust_length hn.len
  have hnl := rjust_no_newline (w := 5) hn.nonl
  refine ⟨writeField_of_fits (by simp) (by simp [fS]) hf (by rw [hl]; exact Nat.le_refl _), hl, ?_, hnl⟩
  intro rf
  rw [show (fS 5).typ = 's' from rfl, read_name]
  congr 2
  apply rstripNewline_of_last
  intro c hc e
  subst e
  exact hnl (List.mem_of_getLast? hc)

theorem wellItems_ok {s : Rat} {name : Str} {p : Flt × Flt × Flt} (hn : WellNameOK name) (hp : PosOK s p) :
    ItemsOK (wellItems s name p) :=
  itemsOK_cons (wellNameItem_ok hn)
    (itemsOK_cons (coordItem_ok hp.x) (itemsOK_cons (coordItem_ok hp.y) (itemsOK_cons (coordItem_ok hp.z) itemsOK_nil)))

theorem wellLine_eq {s : Rat} {name : Str} {p : Flt × Flt × Flt} (hn : WellNameOK name) (hp : PosOK s p) :
    wellLine SP s name p = .ok (recText (wellItems s name p) ++ ['\n']) :=
  lineOf_items (wellItems s name p) (wellItems_ok hn hp)

theorem wellStep_line {s : Rat} {name : Str} {p : Flt × Flt × Flt} (hn : WellNameOK name) (hp : PosOK s p)
    (g : Geo) (tail : Str) :
    wellStep SP s g (recText (wellItems s name p) ++ tail)
      = .ok { g with wells := addWellPos g.wells (rjust name 5) (canonPos s p) } := by
  unfold wellStep
  have hpi := parse_items .default (wellItems s name p) (wellItems_ok hn hp) tail
  have : SP.well = (wellItems s name p).map (·.1) := rfl
  rw [this, hpi]
  simp only [wellItems, coordItem, wellNameItem, List.map_cons, List.map_nil, strOf, fltOf_fin, bind, Except.bind,
    pure, Except.pure]
  rfl

/-- a printed `%.pf` number with `p ≠ 0` contains its decimal point -/
theorem dot_mem_textF (w p : Nat) (hp : p ≠ 0) (x : Flt) : '.' ∈ textF w p x := by
  unfold textF pad rjust fmtFBody
  simp only [Bool.false_eq_true, if_false, if_neg hp, List.mem_append, List.mem_cons]
  right; right; right; left; trivial

theorem nonblank_wellItems (s : Rat) (name : Str) (p : Flt × Flt × Flt) :
    ∃ c ∈ recText (wellItems s name p), isStrWs c = false := by
  refine ⟨'.', ?_, by decide⟩
  unfold recText wellItems coordItem
  simp only [List.map_cons, List.flatten_cons, List.mem_append]
  right; left
  exact dot_mem_textF 10 1 (by decide) _

/-! ### folding the track points into wells -/

def addPos (s : Rat) (ws : List GWell) (np : Str × (Flt × Flt × Flt)) : List GWell := addWellPos ws (rjust np.1 5) (canonPos s np.2)

def wellPairs (ws : List GWell) : List (Str × (Flt × Flt × Flt)) := ws.flatMap fun w => w.pos.map fun p => (w.name, p)

theorem addWellPos_new {ws : List GWell} {name : Str} (h : name ∉ ws.map (·.name)) (p : Flt × Flt × Flt) :
    addWellPos ws name p = ws ++ [{ name := name, pos := [p] }] := by
  unfold addWellPos
  rw [if_neg]
  intro hc
  rw [List.any_eq_true] at hc
  obtain ⟨w, hw, he⟩ := hc
  exact h (List.mem_map.mpr ⟨w, hw, by simpa using he⟩)

theorem addWellPos_last {ws : List GWell} {name : Str} (h : name ∉ ws.map (·.name)) (acc : List (Flt × Flt × Flt))
    (p : Flt × Flt × Flt) :
    addWellPos (ws ++ [{ name := name, pos := acc }]) name p = ws ++ [{ name := name, pos := acc ++ [p] }] := by
  unfold addWellPos
  rw [if_pos (by simp)]
  rw [List.map_append]
  congr 1
  · have : ∀ w ∈ ws, (if w.name = name then ({ w with pos := w.pos ++ [p] } : GWell) else w) = id w := by
      intro w hw
      rw [if_neg]; rfl
      intro e
      exact h (List.mem_map.mpr ⟨w, hw, by simpa using e⟩)
    rw [List.map_congr_left this, List.map_id]
  · simp

theorem fold_track (s : Rat) {ws : List GWell} {name : Str} (h : rjust name 5 ∉ ws.map (·.name)) :
    ∀ (ps : List (Flt × Flt × Flt)) (acc : List (Flt × Flt × Flt)),
    (ps.map fun p => (name, p)).foldl (addPos s) (ws ++ [{ name := rjust name 5, pos := acc }])
      = ws ++ [{ name := rjust name 5, pos := acc ++ ps.map (canonPos s) }] := by
  intro ps
  induction ps with
  | nil => intro acc; simp
  | cons p r ih =>
    intro acc
    simp only [List.map_cons, List.foldl_cons, addPos]
    rw [addWellPos_last h]
    have := ih (acc ++ [canonPos s p])
    rw [this]
    simp

theorem fold_wells (s : Rat) : ∀ (ws : List GWell) (ws0 : List GWell),
    (ws0.map (·.name) ++ ws.map (fun w => rjust w.name 5)).Nodup → (∀ w ∈ ws, w.pos ≠ []) →
    (wellPairs ws).foldl (addPos s) ws0 = ws0 ++ ws.map (canonWell s) := by
  intro ws
  induction ws with
  | nil => intro ws0 _ _; simp [wellPairs]
  | cons w r ih =>
    intro ws0 hd hne
    have hw : rjust w.name 5 ∉ ws0.map (·.name) := by
      intro hc
      rw [List.nodup_append] at hd
      exact hd.2.2 _ hc _ (by simp) rfl
    have hpos := hne w (by simp)
    cases hp : w.pos with
    | nil => exact absurd hp hpos
    | cons p0 ps =>
      have e1 : wellPairs (w :: r) = (w.name, p0) :: (ps.map fun p => (w.name, p)) ++ wellPairs r := by
        simp [wellPairs, hp]
      rw [e1, List.cons_append, List.foldl_cons, List.foldl_append]
      have e2 : addPos s ws0 (w.name, p0) = ws0 ++ [{ name := rjust w.name 5, pos := [canonPos s p0] }] :=
        addWellPos_new hw _
      rw [e2, fold_track s hw ps [canonPos s p0]]
      have e3 : ({ name := rjust w.name 5, pos := [canonPos s p0] ++ ps.map (canonPos s) } : GWell) = canonWell s w := by
        unfold canonWell canonPos
        rw [hp]; rfl
      rw [e3, ih (ws0 ++ [canonWell s w])]
      · simp
      · simpa [canonWell, List.append_assoc] using hd
      · intro x hx; exact hne x (List.mem_cons_of_mem _ hx)

theorem foldl_wells_geo (s : Rat) (pairs : List (Str × (Flt × Flt × Flt))) (g : Geo) :
    pairs.foldl (fun g np => { g with wells := addWellPos g.wells (rjust np.1 5) (canonPos s np.2) }) g
      = { g with wells := pairs.foldl (addPos s) g.wells } := by
  induction pairs generalizing g with
  | nil => rfl
  | cons a r ih => rw [List.foldl_cons, ih]; rfl

structure WellOK (s : Rat) (w : GWell) : Prop where
  name : WellNameOK w.name
  ne : w.pos ≠ []
  pos : ∀ p ∈ w.pos, PosOK s p

def wellTextLines (s : Rat) (ws : List GWell) : List Str :=
  (wellPairs ws).map fun np => recText (wellItems s np.1 np.2) ++ ['\n']

theorem mem_wellPairs {ws : List GWell} {np : Str × (Flt × Flt × Flt)} (h : np ∈ wellPairs ws) :
    ∃ w ∈ ws, np.1 = w.name ∧ np.2 ∈ w.pos := by
  unfold wellPairs at h
  obtain ⟨w, hw, hm⟩ := List.mem_flatMap.mp h
  obtain ⟨p, hp, rfl⟩ := List.mem_map.mp hm
  exact ⟨w, hw, rfl, hp⟩

theorem readSection_wells {g : Geo} {L LL : Nat} {s : Rat} (env : Env g L LL s) (ws : List GWell)
    (hok : ∀ w ∈ ws, WellOK s w) (hd : (g.wells.map (·.name) ++ ws.map (fun w => rjust w.name 5)).Nodup) (tail : List Str) :
    readSection SP .wells g (wellTextLines s ws ++ ['\n'] :: tail)
      = .ok ({ g with wells := g.wells ++ ws.map (canonWell s) }, tail) := by
  unfold readSection
  simp only [env.cl, env.ll, env.sc, bind, Except.bind]
  have := simpleSection (wellStep SP s) (fun g np => { g with wells := addWellPos g.wells (rjust np.1 5) (canonPos s np.2) })
    (fun np => recText (wellItems s np.1 np.2)) (wellPairs ws) g tail (by
      intro pre a post e
      obtain ⟨w, hw, hn, hp⟩ := mem_wellPairs (np := a) (by rw [e]; simp)
      have hwok := hok w hw
      refine ⟨nonblank_wellItems s _ _, fun extra => ?_⟩
      exact wellStep_line (by rw [hn]; exact hwok.name) (hwok.pos _ hp) _ _)
  unfold wellTextLines
  rw [this, foldl_wells_geo, fold_wells s ws g.wells hd (fun w hw => (hok w hw).ne)]

end Proofs.GeoFile
