/-
  Enclosures of the saturation pressure `sat t` on a few temperature intervals (one `Piece` of `Proofs/ThermoSatPiece.lean` each, numbers
  re-checked by `norm_num`): used to show that the region-1 boxes of `density_monotone_r1_partial` between 230 and 250 degC reach below
  the saturation line, and for concrete region-1 states.
-/
import PyTough.Proofs.ThermoSatOn
namespace Proofs.Iapws
open Gen.Iapws Model.Thermo Proofs.Thermo

theorem satK_piece_bounds (P : Piece) (h : P.ok) (tlo thi L U : ℝ) (hlo : 1 / 100 ≤ tlo) (hhi : thi ≤ 3739 / 10)
    (ea : P.a ≤ thetaOf (tlo + 27314999 / 100000)) (eb : thetaOf (thi + 27315001 / 100000) ≤ P.b)
    (hL : L ≤ pstar4 * ((P.βlo * P.βlo) * (P.βlo * P.βlo))) (hU : pstar4 * ((P.βhi * P.βhi) * (P.βhi * P.βhi)) ≤ U)
    (t : ℝ) (h1 : tlo ≤ t) (h2 : t ≤ thi) : L ≤ satK t ∧ satK t ≤ U := by
  have hk : (27314999 / 100000 : ℝ) < tc_k ∧ (tc_k : ℝ) < 27315001 / 100000 := by unfold tc_k; rw [tf_lit]; norm_num
  have hn : (650 : ℝ) < nr4_9 := by unfold nr4_9; rw [tf_lit]; norm_num
  have hpp := pstar4_pos
  have e := (satK_eq t (by linarith) (by linarith)).2
  obtain ⟨lo, hi⟩ := P.betaT h (tlo + 27314999 / 100000) (thi + 27315001 / 100000) (by linarith) ea eb (t + tc_k)
    (by linarith [hk.1]) (by linarith [hk.2])
  obtain ⟨_, _, _, _, _, _, _, _, _, _, _, _, _, _, _, _, _, b0, _⟩ := h
  set β := satBeta (thetaOf (t + tc_k))
  have hβ0 : 0 ≤ β := le_trans (le_of_lt b0) lo
  constructor
  · have s2 := mul_self_le_mul_self (le_of_lt b0) lo
    have s4 := mul_self_le_mul_self (mul_self_nonneg _) s2
    have := mul_le_mul_of_nonneg_left s4 (le_of_lt hpp)
    calc L ≤ _ := hL
      _ ≤ pstar4 * ((β * β) * (β * β)) := this
      _ = satK t := by rw [e]; ring
  · have s2 := mul_self_le_mul_self hβ0 hi
    have s4 := mul_self_le_mul_self (mul_self_nonneg _) s2
    have := mul_le_mul_of_nonneg_left s4 (le_of_lt hpp)
    calc satK t = pstar4 * ((β * β) * (β * β)) := by rw [e]; ring
      _ ≤ _ := this
      _ ≤ U := hU

noncomputable def Q99 : Piece := { a := (74430169607 / 200000000 : ℝ), b := (374150874253 / 1000000000 : ℝ), Alo := (-37849367 / 250 : ℝ), Ahi := (-147570709 / 1000 : ℝ), Blo := (-225020323 / 200 : ℝ), Bhi := (-561829381 / 500 : ℝ), Clo := (675817637 / 1000 : ℝ), Chi := (137686723 / 200 : ℝ), ACmax := (-99730887846 : ℝ), ACmin := (-104227106198 : ℝ), slo := (1289004485951 / 1000000 : ℝ), shi := (1297213193299 / 1000000 : ℝ), βlo := (278996617 / 500000000 : ℝ), βhi := (17833861 / 31250000 : ℝ), Mg := (-431189 / 1000 : ℝ), Mh := (3142969 / 1000 : ℝ) }
theorem Q99_ok : Q99.ok := by
  unfold Piece.ok Q99 satA satB satC nr4_0 nr4_1 nr4_2 nr4_3 nr4_4 nr4_5 nr4_6 nr4_7 pmin pstar4 pcritical
  simp only [tf_lit]
  norm_num
/-- `99 ≤ t ≤ 101` degC: `96000 ≤ sat t ≤ 107000` Pa -/
theorem satK_Q99 (t : ℝ) (h1 : 99 ≤ t) (h2 : t ≤ 101) : 96000 ≤ satK t ∧ satK t ≤ 107000 :=
  satK_piece_bounds Q99 Q99_ok 99 101 96000 107000 (by norm_num) (by norm_num)
    (by unfold Q99 thetaOf nr4_8 nr4_9; simp only [tf_lit]; norm_num) (by unfold Q99 thetaOf nr4_8 nr4_9; simp only [tf_lit]; norm_num)
    (by unfold Q99 pstar4; simp only [tf_lit]; norm_num) (by unfold Q99 pstar4; simp only [tf_lit]; norm_num) t h1 h2

noncomputable def Q230 : Piece := { a := (503151612547 / 1000000000 : ℝ), b := (50815168967 / 100000000 : ℝ), Alo := (58076273 / 500 : ℝ), Ahi := (127044493 / 1000 : ℝ), Blo := (-383232411 / 250 : ℝ), Bhi := (-1506699173 / 1000 : ℝ), Clo := (219276427 / 125 : ℝ), Chi := (451378593 / 250 : ℝ), ACmax := (229380657995 : ℝ), ACmin := (203756122190 : ℝ), slo := (58151091261 / 50000 : ℝ), shi := (9911121203 / 8000 : ℝ), βlo := (1265747087 / 1000000000 : ℝ), βhi := (676293281 / 500000000 : ℝ), Mg := (-3605579 / 500 : ℝ), Mh := (423357 / 100 : ℝ) }
theorem Q230_ok : Q230.ok := by
  unfold Piece.ok Q230 satA satB satC nr4_0 nr4_1 nr4_2 nr4_3 nr4_4 nr4_5 nr4_6 nr4_7 pmin pstar4 pcritical
  simp only [tf_lit]
  norm_num
/-- `230 ≤ t ≤ 235` degC: `2000000 ≤ sat t ≤ 3348000` Pa -/
theorem satK_Q230 (t : ℝ) (h1 : 230 ≤ t) (h2 : t ≤ 235) : 2000000 ≤ satK t ∧ satK t ≤ 3348000 :=
  satK_piece_bounds Q230 Q230_ok 230 235 2000000 3348000 (by norm_num) (by norm_num)
    (by unfold Q230 thetaOf nr4_8 nr4_9; simp only [tf_lit]; norm_num) (by unfold Q230 thetaOf nr4_8 nr4_9; simp only [tf_lit]; norm_num)
    (by unfold Q230 pstar4; simp only [tf_lit]; norm_num) (by unfold Q230 pstar4; simp only [tf_lit]; norm_num) t h1 h2

noncomputable def Q235 : Piece := { a := (127037917417 / 250000000 : ℝ), b := (6414396887 / 12500000 : ℝ), Alo := (15880556 / 125 : ℝ), Ahi := (27597281 / 200 : ℝ), Blo := (-312002749 / 200 : ℝ), Bhi := (-191616192 / 125 : ℝ), Clo := (451378541 / 250 : ℝ), Chi := (92878147 / 50 : ℝ), ACmax := (256318432152 : ℝ), ACmin := (229380550321 : ℝ), slo := (575456174207 / 500000 : ℝ), shi := (49252340993 / 40000 : ℝ), βlo := (646831139 / 500000000 : ℝ), βhi := (276851323 / 200000000 : ℝ), Mg := (-952044 / 125 : ℝ), Mh := (2108249 / 500 : ℝ) }
theorem Q235_ok : Q235.ok := by
  unfold Piece.ok Q235 satA satB satC nr4_0 nr4_1 nr4_2 nr4_3 nr4_4 nr4_5 nr4_6 nr4_7 pmin pstar4 pcritical
  simp only [tf_lit]
  norm_num
/-- `235 ≤ t ≤ 240` degC: `2500000 ≤ sat t ≤ 3672000` Pa -/
theorem satK_Q235 (t : ℝ) (h1 : 235 ≤ t) (h2 : t ≤ 240) : 2500000 ≤ satK t ∧ satK t ≤ 3672000 :=
  satK_piece_bounds Q235 Q235_ok 235 240 2500000 3672000 (by norm_num) (by norm_num)
    (by unfold Q235 thetaOf nr4_8 nr4_9; simp only [tf_lit]; norm_num) (by unfold Q235 thetaOf nr4_8 nr4_9; simp only [tf_lit]; norm_num)
    (by unfold Q235 pstar4; simp only [tf_lit]; norm_num) (by unfold Q235 pstar4; simp only [tf_lit]; norm_num) t h1 h2

noncomputable def Q240 : Piece := { a := (513151730959 / 1000000000 : ℝ), b := (516151789929 / 1000000000 : ℝ), Alo := (3449659 / 25 : ℝ), Ahi := (144575557 / 1000 : ℝ), Blo := (-1576674001 / 1000 : ℝ), Bhi := (-780006817 / 500 : ℝ), Clo := (185756273 / 100 : ℝ), Chi := (472287519 / 250 : ℝ), ACmax := (273124924495 : ℝ), ACmin := (256318319584 : ℝ), slo := (289519304223 / 250000 : ℝ), shi := (604282141697 / 500000 : ℝ), βlo := (13338627 / 10000000 : ℝ), βhi := (139005661 / 100000000 : ℝ), Mg := (-1947667 / 250 : ℝ), Mh := (2139601 / 500 : ℝ) }
theorem Q240_ok : Q240.ok := by
  unfold Piece.ok Q240 satA satB satC nr4_0 nr4_1 nr4_2 nr4_3 nr4_4 nr4_5 nr4_6 nr4_7 pmin pstar4 pcritical
  simp only [tf_lit]
  norm_num
/-- `240 ≤ t ≤ 243` degC: `3000000 ≤ sat t ≤ 3734000` Pa -/
theorem satK_Q240 (t : ℝ) (h1 : 240 ≤ t) (h2 : t ≤ 243) : 3000000 ≤ satK t ∧ satK t ≤ 3734000 :=
  satK_piece_bounds Q240 Q240_ok 240 243 3000000 3734000 (by norm_num) (by norm_num)
    (by unfold Q240 thetaOf nr4_8 nr4_9; simp only [tf_lit]; norm_num) (by unfold Q240 thetaOf nr4_8 nr4_9; simp only [tf_lit]; norm_num)
    (by unfold Q240 pstar4; simp only [tf_lit]; norm_num) (by unfold Q240 pstar4; simp only [tf_lit]; norm_num) t h1 h2

noncomputable def Q243 : Piece := { a := (64518971241 / 125000000 : ℝ), b := (519151830683 / 1000000000 : ℝ), Alo := (18071939 / 125 : ℝ), Ahi := (75591357 / 500 : ℝ), Blo := (-398410401 / 250 : ℝ), Bhi := (-197084236 / 125 : ℝ), Clo := (1889149863 / 1000 : ℝ), Chi := (1921005709 / 1000 : ℝ), ACmax := (290422856697 : ℝ), ACmin := (273124808687 : ℝ), slo := (1150742856729 / 1000000 : ℝ), shi := (601496950793 / 500000 : ℝ), βlo := (1351016147 / 1000000000 : ℝ), βhi := (704331567 / 500000000 : ℝ), Mg := (-8039259 / 1000 : ℝ), Mh := (426503 / 100 : ℝ) }
theorem Q243_ok : Q243.ok := by
  unfold Piece.ok Q243 satA satB satC nr4_0 nr4_1 nr4_2 nr4_3 nr4_4 nr4_5 nr4_6 nr4_7 pmin pstar4 pcritical
  simp only [tf_lit]
  norm_num
/-- `243 ≤ t ≤ 246` degC: `3000000 ≤ sat t ≤ 3938000` Pa -/
theorem satK_Q243 (t : ℝ) (h1 : 243 ≤ t) (h2 : t ≤ 246) : 3000000 ≤ satK t ∧ satK t ≤ 3938000 :=
  satK_piece_bounds Q243 Q243_ok 243 246 3000000 3938000 (by norm_num) (by norm_num)
    (by unfold Q243 thetaOf nr4_8 nr4_9; simp only [tf_lit]; norm_num) (by unfold Q243 thetaOf nr4_8 nr4_9; simp only [tf_lit]; norm_num)
    (by unfold Q243 pstar4; simp only [tf_lit]; norm_num) (by unfold Q243 pstar4; simp only [tf_lit]; norm_num) t h1 h2

noncomputable def Q246 : Piece := { a := (259575905341 / 500000000 : ℝ), b := (32696993001 / 62500000 : ℝ), Alo := (151182669 / 1000 : ℝ), Ahi := (32004053 / 200 : ℝ), Blo := (-1616743173 / 1000 : ℝ), Bhi := (-1593641489 / 1000 : ℝ), Clo := (384201099 / 200 : ℝ), Chi := (981948777 / 500 : ℝ), ACmax := (314263407024 : ℝ), ACmin := (290422737897 : ℝ), slo := (1132536784111 / 1000000 : ℝ), shi := (1205059142057 / 1000000 : ℝ), βlo := (272309011 / 200000000 : ℝ), βhi := (1440769721 / 1000000000 : ℝ), Mg := (-8419291 / 1000 : ℝ), Mh := (105132 / 25 : ℝ) }
theorem Q246_ok : Q246.ok := by
  unfold Piece.ok Q246 satA satB satC nr4_0 nr4_1 nr4_2 nr4_3 nr4_4 nr4_5 nr4_6 nr4_7 pmin pstar4 pcritical
  simp only [tf_lit]
  norm_num
/-- `246 ≤ t ≤ 250` degC: `3300000 ≤ sat t ≤ 4310000` Pa -/
theorem satK_Q246 (t : ℝ) (h1 : 246 ≤ t) (h2 : t ≤ 250) : 3300000 ≤ satK t ∧ satK t ≤ 4310000 :=
  satK_piece_bounds Q246 Q246_ok 246 250 3300000 4310000 (by norm_num) (by norm_num)
    (by unfold Q246 thetaOf nr4_8 nr4_9; simp only [tf_lit]; norm_num) (by unfold Q246 thetaOf nr4_8 nr4_9; simp only [tf_lit]; norm_num)
    (by unfold Q246 pstar4; simp only [tf_lit]; norm_num) (by unfold Q246 pstar4; simp only [tf_lit]; norm_num) t h1 h2

end Proofs.Iapws
