/-
  Invariant preservation: rock type operations.
-/
import PyTough.Proofs.GridFrame
namespace Proofs.Grid
open Py Model Model.Grid Model.Grid.World

/-- the state a call leaves (whether it returned or raised) -/
def worldOf : R → World
  | .ok w => w
  | .error (_, w) => w

@[simp] theorem worldOf_ok (w : World) : worldOf (Except.ok w) = w := rfl
@[simp] theorem worldOf_error (e : Exc) (w : World) : worldOf (Except.error (e, w)) = w := rfl

theorem ofR_w (r : R) : (Out.ofR r).w = worldOf r := by
  cases r with
  | ok w => rfl
  | error p => obtain ⟨e, w⟩ := p; rfl

/-! ### changes that only touch the rock type containers -/

/-- replacing the rock type containers by others that satisfy `RockInv` and still contain every
    rock type that blocks use keeps the invariant -/
theorem inv_of_rock_change {w : World} (hI : Grid.Inv w) (l : List Nat) (d : Dict Name Nat)
    (hr : RockInv { w with rocktypelist := l, rocktype := d })
    (hu : ∀ b ∈ w.blocklist, (w.bk b).rock ∈ l) :
    Grid.Inv { w with rocktypelist := l, rocktype := d } := by
  refine Inv.mk' hr ?_ ?_ hu ?_
  · exact hI.blockInv.frame rfl rfl (Nat.le_refl _) (fun _ _ => rfl)
  · exact hI.conInv.frame rfl rfl (Nat.le_refl _) (fun c h => ⟨(hI.c_ends c h).1, (hI.c_ends c h).2.1⟩) (fun _ _ => rfl) (fun _ _ => rfl)
  · exact hI.connLink.frame hI.conInv rfl rfl (fun _ _ => rfl) (fun _ _ => rfl) (fun _ _ => rfl)

/-- `add_rocktype(r)` for a rocktype object `r` that is not yet listed: the name is new, or the
    rock type it replaces is used by no block -/
theorem addRocktype_inv {w : World} (hI : Grid.Inv w) {r : Nat} (hr : r < w.rocks.length) (hnew : r ∉ w.rocktypelist)
    (hfree : ∀ old, dget w.rocktype (w.rname r) = some old → ∀ b ∈ w.blocklist, (w.bk b).rock ≠ old) :
    Grid.Inv (worldOf (addRocktype w r)) := by
  have hR := hI.rockInv
  cases hd : dget w.rocktype (w.rname r) with
  | none =>
    simp only [addRocktype, hd, worldOf_ok]
    refine inv_of_rock_change hI _ _ ⟨?_, ?_, ?_, ?_⟩ ?_
    · intro x hx; simp at hx; rcases hx with hx | hx
      · exact hR.rl_lt x hx
      · subst hx; exact hr
    · simp [List.nodup_append, hR.rl_nodup]; intro a ha e; exact hnew (e ▸ ha)
    · intro n x hx
      simp only [dget_dset] at hx
      split at hx
      · cases hx; subst_vars; simp [World.rname, World.rk]
      · have := hR.rd_sound n x hx; exact ⟨by simp [this.1], this.2⟩
    · intro x hx
      simp at hx
      show dget (dset w.rocktype (w.rname r) r) (w.rname x) = some x
      rw [dget_dset]
      rcases hx with hx | hx
      · have e := hR.rd_complete x hx
        have : w.rname r ≠ w.rname x := by intro e2; rw [← e2, hd] at e; cases e
        simp [this, e]
      · subst hx; simp
    · intro b hb; simp; exact Or.inl (hI.b_rock b hb)
  | some old =>
    have hold := hR.rd_sound _ _ hd
    cases hl : replaceFirst w.rocktypelist old r with
    | none => exact absurd hold.1 (replaceFirst_none.mp hl)
    | some l =>
      simp only [addRocktype, hd, hl, worldOf_ok]
      have hmem := mem_replaceFirst hR.rl_nodup hl
      refine inv_of_rock_change hI _ _ ⟨?_, ?_, ?_, ?_⟩ ?_
      · intro x hx; rcases (hmem x).mp hx with hx | ⟨hx, _⟩
        · subst hx; exact hr
        · exact hR.rl_lt x hx
      · exact nodup_replaceFirst hR.rl_nodup hnew hl
      · intro n x hx
        simp only [dget_dset] at hx
        split at hx
        · cases hx; subst_vars; exact ⟨(hmem _).mpr (Or.inl rfl), rfl⟩
        · rename_i hne
          have := hR.rd_sound n x hx
          refine ⟨(hmem x).mpr (Or.inr ⟨this.1, ?_⟩), this.2⟩
          intro e; subst e; exact hne (hold.2.symm.trans this.2 ▸ rfl)
      · intro x hx
        show dget (dset w.rocktype (w.rname r) r) (w.rname x) = some x
        rw [dget_dset]
        rcases (hmem x).mp hx with hx | ⟨hx, hne⟩
        · subst hx; simp
        · have : w.rname r ≠ w.rname x := by
            intro e2
            exact hne (hR.name_inj hx hold.1 (e2.symm.trans hold.2.symm))
          simp [this, hR.rd_complete x hx]
      · intro b hb
        exact (hmem _).mpr (Or.inr ⟨hI.b_rock b hb, hfree old hd b hb⟩)

/-- `delete_rocktype(nm)` when no block uses the rock type registered under `nm` -/
theorem deleteRocktype_inv {w : World} (hI : Grid.Inv w) (nm : Name)
    (hfree : ∀ rt, dget w.rocktype nm = some rt → ∀ b ∈ w.blocklist, (w.bk b).rock ≠ rt) :
    Grid.Inv (worldOf (deleteRocktype w nm)) := by
  have hR := hI.rockInv
  cases hd : dget w.rocktype nm with
  | none => simp only [deleteRocktype, hd, worldOf_ok]; exact hI
  | some rt =>
    have hrt := hR.rd_sound _ _ hd
    simp only [deleteRocktype, hd, hrt.1, if_true, worldOf_ok]
    refine inv_of_rock_change hI _ _ ⟨?_, ?_, ?_, ?_⟩ ?_
    · intro x hx; exact hR.rl_lt x (List.mem_of_mem_erase hx)
    · exact hR.rl_nodup.erase _
    · intro n x hx
      rw [dget_ddel] at hx
      split at hx
      · cases hx
      · rename_i hne
        have := hR.rd_sound n x hx
        refine ⟨(hR.rl_nodup.mem_erase_iff).mpr ⟨?_, this.1⟩, this.2⟩
        intro e; subst e; exact hne (hrt.2.symm.trans this.2)
    · intro x hx
      have hx' := (hR.rl_nodup.mem_erase_iff).mp hx
      show dget (ddel w.rocktype nm) (w.rname x) = some x
      rw [dget_ddel]
      have : nm ≠ w.rname x := by
        intro e; exact hx'.1 (hR.name_inj hx'.2 hrt.1 (e.symm.trans hrt.2.symm))
      simp [this, hR.rd_complete x hx'.2]
    · intro b hb
      exact (hR.rl_nodup.mem_erase_iff).mpr ⟨hfree rt hd b hb, hI.b_rock b hb⟩

theorem renameRocktype_ok {w : World} {a b : Name} {rock : Nat} (hd : dget w.rocktype a = some rock)
    (hb : dget w.rocktype b = none) :
    renameRocktype w a b = .ok { w with rocks := w.rocks.set rock { w.rk rock with name := b },
                                        rocktype := dset (ddel w.rocktype a) b rock } := by
  simp only [renameRocktype, hd, hb, Option.isSome_none, Bool.false_eq_true, if_false]
  rfl

/-- `rename_rocktype(a, b)`: no precondition (it raises when `a` is missing or `b` is taken) -/
theorem renameRocktype_inv {w : World} (hI : Grid.Inv w) (a b : Name) :
    Grid.Inv (worldOf (renameRocktype w a b)) := by
  have hR := hI.rockInv
  cases hd : dget w.rocktype a with
  | none => simp only [renameRocktype, hd, worldOf_error]; exact hI
  | some rock =>
    cases hb : dget w.rocktype b with
    | some x => simp only [renameRocktype, hd, hb, Option.isSome_some, if_true, worldOf_error]; exact hI
    | none =>
      rw [renameRocktype_ok hd hb, worldOf_ok]
      have hrock := hR.rd_sound _ _ hd
      have hlt := hR.rl_lt rock hrock.1
      have hname : ∀ x, ({ w with rocks := w.rocks.set rock { w.rk rock with name := b },
                                  rocktype := dset (ddel w.rocktype a) b rock } : World).rname x
            = if x = rock then b else w.rname x := by
        intro x
        simp only [World.rname, World.rk, getD_set]
        by_cases h : rock = x
        · subst h; simp [hlt]
        · simp [h, Ne.symm h]
      refine Inv.mk' ⟨?_, ?_, ?_, ?_⟩ ?_ ?_ ?_ ?_
      · intro x hx; simp only [List.length_set]; exact hR.rl_lt x hx
      · exact hR.rl_nodup
      · intro n x hx
        rw [hname]
        change dget (dset (ddel w.rocktype a) b rock) n = some x at hx
        rw [dget_dset] at hx
        split at hx
        · cases hx; subst_vars; exact ⟨hrock.1, by simp⟩
        · rename_i hne
          rw [dget_ddel] at hx
          split at hx
          · cases hx
          · rename_i hna
            have := hR.rd_sound n x hx
            refine ⟨this.1, ?_⟩
            have : x ≠ rock := by intro e; subst e; exact hna (hrock.2.symm.trans this.2)
            simp [this]; exact (hR.rd_sound n x hx).2
      · intro x hx
        change dget (dset (ddel w.rocktype a) b rock) _ = some x
        rw [hname]
        by_cases h : x = rock
        · subst h; simp
        · have hx' := hR.rd_complete x hx
          have h1 : b ≠ w.rname x := by intro e; rw [← e, hb] at hx'; cases hx'
          have h2 : a ≠ w.rname x := by
            intro e; exact h (hR.name_inj hx hrock.1 (e.symm.trans hrock.2.symm))
          simp [h, dget_dset, dget_ddel, h1, h2, hx']
      · exact hI.blockInv.frame rfl rfl (Nat.le_refl _) (fun _ _ => rfl)
      · exact hI.conInv.frame rfl rfl (Nat.le_refl _) (fun c h => ⟨(hI.c_ends c h).1, (hI.c_ends c h).2.1⟩) (fun _ _ => rfl) (fun _ _ => rfl)
      · exact hI.rockLink.frame rfl (fun _ h => h) (fun _ _ => rfl)
      · exact hI.connLink.frame hI.conInv rfl rfl (fun _ _ => rfl) (fun _ _ => rfl) (fun _ _ => rfl)

/-! ### clean_rocktypes -/

/-- no block of the grid has a rock type *named* `nm` (what `rocktype_frequency(nm) == 0` says) -/
def NameUnused (w : World) (nm : Name) : Prop := ∀ b ∈ w.blocklist, w.rname (w.bk b).rock ≠ nm

theorem rocktypeFrequency_zero {w : World} {nm : Name} : rocktypeFrequency w nm = 0 ↔ NameUnused w nm := by
  unfold rocktypeFrequency NameUnused
  rw [List.length_eq_zero_iff, List.filter_eq_nil_iff]
  simp

theorem deleteRocktype_unused_inv {w : World} (hI : Grid.Inv w) {nm : Name} (hu : NameUnused w nm) :
    Grid.Inv (worldOf (deleteRocktype w nm)) := by
  refine deleteRocktype_inv hI nm ?_
  intro rt hrt b hb e
  exact hu b hb (e ▸ (hI.rd_sound _ _ hrt).2)

/-- `delete_rocktype` does not touch blocks -/
theorem deleteRocktype_blocks (w : World) (nm : Name) :
    (worldOf (deleteRocktype w nm)).blocklist = w.blocklist ∧ (worldOf (deleteRocktype w nm)).blks = w.blks ∧
    (worldOf (deleteRocktype w nm)).rocks = w.rocks := by
  unfold deleteRocktype
  split
  · exact ⟨rfl, rfl, rfl⟩
  · dsimp only; split <;> exact ⟨rfl, rfl, rfl⟩

theorem deleteRocktype_nameUnused {w : World} {nm nm' : Name} (h : NameUnused w nm') :
    NameUnused (worldOf (deleteRocktype w nm)) nm' := by
  obtain ⟨h1, h2, h3⟩ := deleteRocktype_blocks w nm
  intro b hb
  rw [h1] at hb
  have := h b hb
  simpa only [World.rname, World.rk, World.bk, h2, h3] using this

theorem deleteRocktypes_inv {w : World} (hI : Grid.Inv w) (l : List Name) (hu : ∀ nm ∈ l, NameUnused w nm) :
    Grid.Inv (worldOf (deleteRocktypes w l)) := by
  induction l generalizing w with
  | nil => exact hI
  | cons nm r ih =>
    have h1 := deleteRocktype_unused_inv hI (hu nm List.mem_cons_self)
    have h2 : ∀ nm' ∈ r, NameUnused (worldOf (deleteRocktype w nm)) nm' :=
      fun nm' h => deleteRocktype_nameUnused (hu nm' (List.mem_cons_of_mem _ h))
    unfold deleteRocktypes
    cases hd : deleteRocktype w nm with
    | error p => obtain ⟨e, w'⟩ := p; rw [hd] at h1; exact h1
    | ok w1 => rw [hd] at h1 h2; exact ih h1 h2

/-- `clean_rocktypes()`: no precondition -/
theorem cleanRocktypes_inv {w : World} (hI : Grid.Inv w) : Grid.Inv (worldOf (cleanRocktypes w)) := by
  unfold cleanRocktypes
  refine deleteRocktypes_inv hI _ ?_
  intro nm hnm
  simp only [List.mem_map, List.mem_filter, beq_iff_eq] at hnm
  obtain ⟨rt, ⟨_, h0⟩, rfl⟩ := hnm
  exact rocktypeFrequency_zero.mp h0

/-! ### sort_rocktypes -/

theorem insertSorted_perm (x : Str) (l : List Str) : (insertSorted x l).Perm (x :: l) := by
  induction l with
  | nil => exact List.Perm.refl _
  | cons y r ih =>
    unfold insertSorted
    split
    · exact List.Perm.refl _
    · exact (List.Perm.cons y ih).trans (List.Perm.swap x y r)

theorem sortNames_perm (l : List Str) : (sortNames l).Perm l := by
  induction l with
  | nil => exact List.Perm.refl _
  | cons x r ih => exact (insertSorted_perm x _).trans (List.Perm.cons x ih)

theorem lookupAll_some {κ} [DecidableEq κ] {d : Dict κ Nat} {ks : List κ} {l : List Nat}
    (h : lookupAll d ks = some l) : ks.map (dget d) = l.map some := by
  induction ks generalizing l with
  | nil => simp [lookupAll] at h; subst h; rfl
  | cons k r ih =>
    unfold lookupAll at h
    cases hk : dget d k with
    | none => simp [hk] at h
    | some v =>
      simp only [hk, Option.map_eq_some_iff] at h
      obtain ⟨l', hl', rfl⟩ := h
      simp [hk, ih hl']

/-- a list with the same members and no repetition can replace `rocktypelist` -/
theorem inv_of_rocktypelist_perm {w : World} (hI : Grid.Inv w) {l : List Nat} (hn : l.Nodup)
    (hm : ∀ x, x ∈ l ↔ x ∈ w.rocktypelist) : Grid.Inv { w with rocktypelist := l } := by
  have hR := hI.rockInv
  refine inv_of_rock_change hI l w.rocktype ⟨?_, hn, ?_, ?_⟩ ?_
  · intro x hx; exact hR.rl_lt x ((hm x).mp hx)
  · intro n x hx; have := hR.rd_sound n x hx; exact ⟨(hm x).mpr this.1, this.2⟩
  · intro x hx; exact hR.rd_complete x ((hm x).mp hx)
  · intro b hb; exact (hm _).mpr (hI.b_rock b hb)

/-- `sort_rocktypes()`: no precondition -/
theorem sortRocktypes_inv {w : World} (hI : Grid.Inv w) : Grid.Inv (worldOf (sortRocktypes w)) := by
  have hR := hI.rockInv
  unfold sortRocktypes
  cases hl : lookupAll w.rocktype (sortNames (w.rocktypelist.map w.rname)) with
  | none => exact hI
  | some l =>
    simp only [worldOf_ok]
    have h1 := lookupAll_some hl
    have h2 : ((sortNames (w.rocktypelist.map w.rname)).map (dget w.rocktype)).Perm (w.rocktypelist.map some) := by
      refine ((sortNames_perm _).map _).trans ?_
      rw [List.map_map]
      apply List.Perm.of_eq
      apply List.map_congr_left
      intro r hr; exact hR.rd_complete r hr
    rw [h1] at h2
    have hnd : (l.map some).Nodup := h2.nodup_iff.mpr (List.Pairwise.map some (fun _ _ h e => h (Option.some.inj e)) hR.rl_nodup)
    refine inv_of_rocktypelist_perm hI (List.Pairwise.of_map some (fun _ _ h e => h (congrArg some e)) hnd) ?_
    intro x
    have := h2.mem_iff (a := some x)
    simpa using this

end Proofs.Grid
