/-
  The second grid of `grid + other` / `grid.embed(sub, …)` is built from a recipe by
  constructor-and-add steps in the shared heap.  This file shows that building it leaves the
  current grid's objects alone and yields a consistent grid of new objects, and derives
  `inv_step` for the `.addGrid` and `.embed` operations.
-/
import PyTough.Proofs.GridEmbed
import PyTough.Proofs.GridReuse
namespace Proofs.Grid
open Py Model Model.Grid Model.Grid.World

theorem mem_of_replaceFirst {l l' : List Nat} {x y z : Nat} (h : replaceFirst l x y = some l') (hz : z ∈ l') :
    z = y ∨ z ∈ l := by
  induction l generalizing l' with
  | nil => simp [replaceFirst] at h
  | cons a r ih =>
    unfold replaceFirst at h
    split at h
    · simp only [Option.some.injEq] at h; subst h
      rcases List.mem_cons.mp hz with e | hz
      · exact Or.inl e
      · exact Or.inr (List.mem_cons_of_mem _ hz)
    · simp only [Option.map_eq_some_iff] at h
      obtain ⟨r', hr', rfl⟩ := h
      rcases List.mem_cons.mp hz with e | hz
      · exact Or.inr (e ▸ List.mem_cons_self)
      · rcases ih hr' hz with e | hz
        · exact Or.inl e
        · exact Or.inr (List.mem_cons_of_mem _ hz)

/-- `add_rocktype` touches only the two rock type containers, and lists nothing but `r` in addition -/
theorem addRocktype_frame (w : World) (r : Nat) :
    let w' := worldOf (addRocktype w r)
    w'.rocks = w.rocks ∧ w'.blks = w.blks ∧ w'.cons = w.cons ∧ w'.blocklist = w.blocklist ∧ w'.block = w.block ∧
    w'.connectionlist = w.connectionlist ∧ w'.connection = w.connection ∧
    ∀ x ∈ w'.rocktypelist, x = r ∨ x ∈ w.rocktypelist := by
  cases hd : dget w.rocktype (w.rname r) with
  | none =>
    simp only [addRocktype, hd, worldOf_ok, true_and]
    intro x hx; simp at hx; rcases hx with h | h
    · exact Or.inr h
    · exact Or.inl h
  | some old =>
    cases hl : replaceFirst w.rocktypelist old r with
    | none => simp only [addRocktype, hd, hl, worldOf_error, true_and]; exact fun x h => Or.inr h
    | some l =>
      simp only [addRocktype, hd, hl, worldOf_ok, true_and]
      exact fun x hx => mem_of_replaceFirst hl hx

theorem addBlock_frame (w : World) (b : Nat) :
    let w' := worldOf (addBlock w b)
    w'.rocks = w.rocks ∧ w'.blks = w.blks ∧ w'.cons = w.cons ∧ w'.rocktypelist = w.rocktypelist ∧ w'.rocktype = w.rocktype ∧
    w'.connectionlist = w.connectionlist ∧ w'.connection = w.connection ∧
    ∀ x ∈ w'.blocklist, x = b ∨ x ∈ w.blocklist := by
  cases hd : dget w.block (w.bname b) with
  | none =>
    simp only [addBlock, hd, worldOf_ok, true_and]
    intro x hx; simp at hx; rcases hx with h | h
    · exact Or.inr h
    · exact Or.inl h
  | some old =>
    cases hl : replaceFirst w.blocklist old b with
    | none => simp only [addBlock, hd, hl, worldOf_error, true_and]; exact fun x h => Or.inr h
    | some l =>
      simp only [addBlock, hd, hl, worldOf_ok, true_and]
      exact fun x hx => mem_of_replaceFirst hl hx

/-- `add_connection` writes only into the two blocks of the connection -/
theorem addConnection_frame (w : World) (c : Nat) :
    let w' := worldOf (addConnection w c)
    w'.rocks = w.rocks ∧ w'.cons = w.cons ∧ w'.blks.length = w.blks.length ∧
    w'.rocktypelist = w.rocktypelist ∧ w'.rocktype = w.rocktype ∧ w'.blocklist = w.blocklist ∧ w'.block = w.block ∧
    (∀ x ∈ w'.connectionlist, x = c ∨ x ∈ w.connectionlist) ∧
    (∀ x, x ≠ (w.cn c).b0 → x ≠ (w.cn c).b1 → w'.bk x = w.bk x) := by
  have key : ∀ (w1 : World), w1.rocks = w.rocks → w1.cons = w.cons → w1.blks = w.blks →
      w1.rocktypelist = w.rocktypelist → w1.rocktype = w.rocktype → w1.blocklist = w.blocklist → w1.block = w.block →
      let w' := (w1.connAdd (w.cn c).b0 (w.ckey c)).connAdd (w.cn c).b1 (w.ckey c)
      w'.rocks = w.rocks ∧ w'.cons = w.cons ∧ w'.blks.length = w.blks.length ∧
      w'.rocktypelist = w.rocktypelist ∧ w'.rocktype = w.rocktype ∧ w'.blocklist = w.blocklist ∧ w'.block = w.block ∧
      w'.connectionlist = w1.connectionlist ∧
      (∀ x, x ≠ (w.cn c).b0 → x ≠ (w.cn c).b1 → w'.bk x = w.bk x) := by
    intro w1 e1 e2 e3 e4 e5 e6 e7
    refine ⟨e1, e2, by simp [World.connAdd, e3], e4, e5, e6, e7, rfl, ?_⟩
    intro x h0 h1
    simp only [World.connAdd, bk_setBlk, Ne.symm h1, Ne.symm h0, false_and, if_false]
    simp only [World.bk, e3]
  cases hd : dget w.connection (w.ckey c) with
  | none =>
    simp only [addConnection, hd, worldOf_ok]
    obtain ⟨a1, a2, a3, a4, a5, a6, a7, a8, a9⟩ := key { w with connectionlist := w.connectionlist ++ [c], connection := dset w.connection (w.ckey c) c } rfl rfl rfl rfl rfl rfl rfl
    refine ⟨a1, a2, a3, a4, a5, a6, a7, ?_, a9⟩
    intro x hx
    rw [a8] at hx
    simp at hx; rcases hx with h | h
    · exact Or.inr h
    · exact Or.inl h
  | some old =>
    cases hl : replaceFirst w.connectionlist old c with
    | none =>
      simp only [addConnection, hd, hl, worldOf_error, true_and]
      exact ⟨fun x h => Or.inr h, fun _ _ _ => trivial⟩
    | some l =>
      simp only [addConnection, hd, hl, worldOf_ok]
      obtain ⟨a1, a2, a3, a4, a5, a6, a7, a8, a9⟩ := key { w with connectionlist := l, connection := dset w.connection (w.ckey c) c } rfl rfl rfl rfl rfl rfl rfl
      refine ⟨a1, a2, a3, a4, a5, a6, a7, ?_, a9⟩
      intro x hx
      rw [a8] at hx
      exact mem_of_replaceFirst hl hx

/-- `v` is a state reached while a second grid is being built in the heap of `w`: it is consistent,
    lists only objects created since, and has left the objects of `w` untouched -/
structure Fresh (w v : World) : Prop where
  inv : Grid.Inv v
  lr : w.rocks.length ≤ v.rocks.length
  lb : w.blks.length ≤ v.blks.length
  lc : w.cons.length ≤ v.cons.length
  nr : ∀ x ∈ v.rocktypelist, w.rocks.length ≤ x
  nb : ∀ x ∈ v.blocklist, w.blks.length ≤ x
  nc : ∀ x ∈ v.connectionlist, w.cons.length ≤ x
  er : ∀ x, x < w.rocks.length → v.rk x = w.rk x
  eb : ∀ x, x < w.blks.length → v.bk x = w.bk x
  ec : ∀ x, x < w.cons.length → v.cn x = w.cn x

theorem stepBasic_fresh {w v : World} (h : Fresh w v) (op : Op) (hpre : preBasic v op = true) :
    Fresh w (stepBasic v op).w := by
  have hI' := stepBasic_inv h.inv op hpre
  cases op with
  | addRocktype nm tag =>
    simp only [stepBasic, stepAddRocktype, ofR_w] at hI' ⊢
    obtain ⟨f1, f2, f3, f4, _, f6, _, f8⟩ := addRocktype_frame (v.newRock { name := nm, tag := tag }).2 (v.newRock { name := nm, tag := tag }).1
    generalize worldOf (addRocktype (v.newRock { name := nm, tag := tag }).2 (v.newRock { name := nm, tag := tag }).1) = v' at *
    refine ⟨hI', ?_, by rw [f2]; exact h.lb, by rw [f3]; exact h.lc, ?_, by rw [f4]; exact h.nb, by rw [f6]; exact h.nc, ?_, ?_, ?_⟩
    · rw [f1]; simp only [World.newRock, List.length_append, List.length_singleton]; exact Nat.le_succ_of_le h.lr
    · intro x hx
      rcases f8 x hx with e | hx'
      · rw [e]; exact h.lr
      · exact h.nr x hx'
    · intro x hx
      have : v'.rk x = (v.newRock { name := nm, tag := tag }).2.rk x := by simp only [World.rk, f1]
      rw [this, rk_newRock, if_pos (Nat.lt_of_lt_of_le hx h.lr)]; exact h.er x hx
    · intro x hx
      have : v'.bk x = v.bk x := by simp only [World.bk, f2]; rfl
      rw [this]; exact h.eb x hx
    · intro x hx
      have : v'.cn x = v.cn x := by simp only [World.cn, f3]; rfl
      rw [this]; exact h.ec x hx
  | addBlock nm rock vol centre =>
    simp only [preBasic, Bool.and_eq_true, Option.isSome_iff_exists] at hpre
    obtain ⟨⟨rt, hrt⟩, _⟩ := hpre
    simp only [stepBasic, stepAddBlock, hrt, ofR_w] at hI' ⊢
    generalize hv : ({ name := nm, volume := vol, rock := rt, centre := centre, conn := [] } : Blk) = bv at *
    obtain ⟨f1, f2, f3, f4, _, f6, _, f8⟩ := addBlock_frame (v.newBlk bv).2 (v.newBlk bv).1
    generalize worldOf (addBlock (v.newBlk bv).2 (v.newBlk bv).1) = v' at *
    refine ⟨hI', by rw [f1]; exact h.lr, ?_, by rw [f3]; exact h.lc, by rw [f4]; exact h.nr, ?_, by rw [f6]; exact h.nc, ?_, ?_, ?_⟩
    · rw [f2]; simp only [World.newBlk, List.length_append, List.length_singleton]; exact Nat.le_succ_of_le h.lb
    · intro x hx
      rcases f8 x hx with e | hx'
      · rw [e]; exact h.lb
      · exact h.nb x hx'
    · intro x hx
      have : v'.rk x = v.rk x := by simp only [World.rk, f1]; rfl
      rw [this]; exact h.er x hx
    · intro x hx
      have : v'.bk x = (v.newBlk bv).2.bk x := by simp only [World.bk, f2]
      rw [this, bk_newBlk, if_pos (Nat.lt_of_lt_of_le hx h.lb)]; exact h.eb x hx
    · intro x hx
      have : v'.cn x = v.cn x := by simp only [World.cn, f3]; rfl
      rw [this]; exact h.ec x hx
  | addConnection n0 n1 p =>
    simp only [preBasic, Bool.and_eq_true, Option.isSome_iff_exists] at hpre
    obtain ⟨⟨⟨b0, h0⟩, ⟨b1, h1⟩⟩, _⟩ := hpre
    simp only [stepBasic, stepAddConnection, World.blockOrFresh, h0, h1, ofR_w] at hI' ⊢
    have hb0 := (h.inv.bd_sound _ _ h0).1
    have hb1 := (h.inv.bd_sound _ _ h1).1
    generalize hcv : mkCon b0 b1 p = cv at *
    have hcv0 : cv.b0 = b0 := by rw [← hcv]; rfl
    have hcv1 : cv.b1 = b1 := by rw [← hcv]; rfl
    have hcn : (v.newCon cv).2.cn (v.newCon cv).1 = cv := by
      show (v.newCon cv).2.cn v.cons.length = cv; simp [cn_newCon]
    obtain ⟨f1, f2, f3, f4, _, f6, _, f8, f9⟩ := addConnection_frame (v.newCon cv).2 (v.newCon cv).1
    rw [hcn, hcv0, hcv1] at f9
    generalize worldOf (addConnection (v.newCon cv).2 (v.newCon cv).1) = v' at *
    refine ⟨hI', by rw [f1]; exact h.lr, by rw [f3]; exact h.lb, ?_, by rw [f4]; exact h.nr, by rw [f6]; exact h.nb, ?_, ?_, ?_, ?_⟩
    · rw [f2]; simp only [World.newCon, List.length_append, List.length_singleton]; exact Nat.le_succ_of_le h.lc
    · intro x hx
      rcases f8 x hx with e | hx'
      · rw [e]; exact h.lc
      · exact h.nc x hx'
    · intro x hx
      have : v'.rk x = v.rk x := by simp only [World.rk, f1]; rfl
      rw [this]; exact h.er x hx
    · intro x hx
      have n0' := h.nb b0 hb0
      have n1' := h.nb b1 hb1
      rw [f9 x (by omega) (by omega)]
      exact h.eb x hx
    · intro x hx
      have : v'.cn x = (v.newCon cv).2.cn x := by simp only [World.cn, f2]
      rw [this, cn_newCon, if_pos (Nat.lt_of_lt_of_le hx h.lc)]; exact h.ec x hx
  | _ => simp [preBasic] at hpre

theorem runBasic_fresh {w v : World} (h : Fresh w v) (ops : List Op) (hpre : preAllBasic v ops = true) :
    Fresh w (runBasic v ops) := by
  induction ops generalizing v with
  | nil => exact h
  | cons op r ih =>
    simp only [preAllBasic, Bool.and_eq_true] at hpre
    exact ih (stepBasic_fresh h op hpre.1) hpre.2

/-- the empty grid over any heap -/
theorem fresh_start {w : World} : Fresh w (w.withGrid ⟨[], [], [], [], [], []⟩) := by
  refine ⟨?_, Nat.le_refl _, Nat.le_refl _, Nat.le_refl _, ?_, ?_, ?_, fun _ _ => rfl, fun _ _ => rfl, fun _ _ => rfl⟩
  · constructor <;> simp [World.withGrid]
  all_goals (intro x hx; simp [World.withGrid] at hx)

/-- a grid that was consistent stays so when the heap only grows and its own objects are untouched -/
theorem inv_heap_frame {w v : World} (hI : Grid.Inv w) (h : Fresh w v) : Grid.Inv (v.withGrid w.grid) := by
  have hbk : ∀ b ∈ w.blocklist, (v.withGrid w.grid).bk b = w.bk b := fun b hb => h.eb b (hI.bl_lt b hb)
  have hnm : ∀ b ∈ w.blocklist, (v.withGrid w.grid).bname b = w.bname b := fun b hb => by
    simp only [World.bname, hbk b hb]
  have hcn : ∀ c ∈ w.connectionlist, (v.withGrid w.grid).cn c = w.cn c := fun c hc => h.ec c (hI.cl_lt c hc)
  have hrn : ∀ r ∈ w.rocktypelist, (v.withGrid w.grid).rname r = w.rname r := fun r hr => by
    show (v.rk r).name = _; rw [h.er r (hI.rl_lt r hr)]; rfl
  refine Inv.mk' ?_ ?_ ?_ ?_ ?_
  · exact hI.rockInv.frame rfl rfl h.lr hrn
  · exact hI.blockInv.frame rfl rfl h.lb hnm
  · exact hI.conInv.frame rfl rfl h.lc (fun c hc => ⟨(hI.c_ends c hc).1, (hI.c_ends c hc).2.1⟩) hcn hnm
  · exact hI.rockLink.frame rfl (fun _ hr => hr) (fun b hb => by rw [hbk b hb])
  · exact hI.connLink.frame hI.conInv rfl rfl hcn hnm (fun b hb => by rw [hbk b hb])

theorem rockUsedIn_false {w : World} {g : Grid} {x : Nat} (h : rockUsedIn w g x = false) :
    ∀ b ∈ g.blocklist, (w.bk b).rock ≠ x := by
  intro b hb e
  have : rockUsedIn w g x = true := by
    unfold rockUsedIn; rw [List.any_eq_true]; exact ⟨b, hb, by simp [e]⟩
  rw [h] at this; cases this

theorem sumOK_spec {w : World} {g1 g2 : Grid} (h : sumOK w g1 g2 = true) :
    (∀ x ∈ g1.blocklist, ∀ y ∈ g2.blocklist, w.bname x ≠ w.bname y) ∧
    (∀ x ∈ g1.rocktypelist, ∀ y ∈ g2.rocktypelist, w.rname x = w.rname y → ∀ b ∈ g1.blocklist, (w.bk b).rock ≠ x) := by
  simp only [sumOK, Bool.and_eq_true, List.all_eq_true, bne_iff_ne, ne_eq, Bool.or_eq_true, Bool.not_eq_true'] at h
  refine ⟨h.1, ?_⟩
  intro x hx y hy e
  rcases h.2 x hx y hy with h' | h'
  · exact absurd e h'
  · exact rockUsedIn_false h'

/-- what `buildSpec` returns, for a recipe whose construction calls are all within their preconditions -/
theorem buildSpec_spec {w : World} (hI : Grid.Inv w) (s : GridSpec)
    (hpre : preAllBasic (w.withGrid ⟨[], [], [], [], [], []⟩) (specOps s) = true) :
    let w1 := (buildSpec w s).1
    let other := (buildSpec w s).2
    Grid.Inv w1 ∧ Grid.Inv (w1.withGrid other) ∧ w1.grid = w.grid ∧
    Fresh w (w1.withGrid other) ∧
    (∀ x ∈ w.rocktypelist, x ∉ other.rocktypelist) ∧ (∀ x ∈ w.blocklist, x ∉ other.blocklist) ∧
    (∀ x ∈ w.connectionlist, x ∉ other.connectionlist) := by
  have hF := runBasic_fresh (w := w) fresh_start (specOps s) hpre
  generalize hw' : runBasic (w.withGrid ⟨[], [], [], [], [], []⟩) (specOps s) = w' at hF
  have e1 : (buildSpec w s).1 = w'.withGrid w.grid := by simp only [buildSpec, hw']
  have e2 : (buildSpec w s).2 = w'.grid := by simp only [buildSpec, hw']
  intro w1 other
  have ew1 : w1 = w'.withGrid w.grid := e1
  have eo : other = w'.grid := e2
  have eback : w1.withGrid other = w' := by rw [ew1, eo]; rfl
  refine ⟨by rw [ew1]; exact inv_heap_frame hI hF, by rw [eback]; exact hF.inv, by rw [ew1]; rfl, by rw [eback]; exact hF, ?_, ?_, ?_⟩
  · intro x hx hx'; rw [eo] at hx'
    exact Nat.lt_irrefl _ (Nat.lt_of_lt_of_le (hI.rl_lt x hx) (hF.nr x hx'))
  · intro x hx hx'; rw [eo] at hx'
    exact Nat.lt_irrefl _ (Nat.lt_of_lt_of_le (hI.bl_lt x hx) (hF.nb x hx'))
  · intro x hx hx'; rw [eo] at hx'
    exact Nat.lt_irrefl _ (Nat.lt_of_lt_of_le (hI.cl_lt x hx) (hF.nc x hx'))

/-- **inv_step for grid addition** -/
theorem step_addGrid_inv {w : World} (hI : Grid.Inv w) (s : GridSpec) (left : Bool)
    (hpre : pre w (.addGrid s left) = true) : Grid.Inv (step w (.addGrid s left)).w := by
  simp only [pre, Bool.and_eq_true] at hpre
  obtain ⟨⟨_, hall⟩, hsum⟩ := hpre
  obtain ⟨hI1, hI2, hg, _, oR, oB, oC⟩ := buildSpec_spec hI s hall
  simp only [step]
  generalize (buildSpec w s).1 = w1 at *
  generalize (buildSpec w s).2 = other at *
  have hbl : w1.blocklist = w.blocklist := congrArg Grid.blocklist hg
  have hrl : w1.rocktypelist = w.rocktypelist := congrArg Grid.rocktypelist hg
  have hcl : w1.connectionlist = w.connectionlist := congrArg Grid.connectionlist hg
  cases left with
  | true =>
    simp only [if_true] at hsum ⊢
    obtain ⟨nB, nR⟩ := sumOK_spec hsum
    obtain ⟨w2, e, hI2', _⟩ := addGrids_inv (w := w1) (g1 := w1.grid) (g2 := other) hI1 hI2
      (fun x hx => oR x (hrl ▸ hx)) (fun x hx => oB x (hbl ▸ hx)) (fun x hx => oC x (hcl ▸ hx)) nB nR
    rw [e]; exact hI2'
  | false =>
    simp only [Bool.false_eq_true, if_false] at hsum ⊢
    obtain ⟨nB, nR⟩ := sumOK_spec hsum
    obtain ⟨w2, e, hI2', _⟩ := addGrids_inv (w := w1) (g1 := other) (g2 := w1.grid) hI2 hI1
      (fun x hx hx' => oR x (hrl ▸ hx') hx) (fun x hx hx' => oB x (hbl ▸ hx') hx) (fun x hx hx' => oC x (hcl ▸ hx') hx) nB nR
    rw [e]; exact hI2'

/-- **inv_step for embed** -/
theorem step_embed_inv {w : World} (hI : Grid.Inv w) (s : GridSpec) (host sub : Name) (p : ConPay)
    (hpre : pre w (.embed s host sub p) = true) : Grid.Inv (step w (.embed s host sub p)).w := by
  simp only [pre, Bool.and_eq_true, Option.isSome_iff_exists] at hpre
  obtain ⟨⟨⟨⟨_, hall⟩, ⟨hb, hhost⟩⟩, ⟨sb, hsub⟩⟩, hrocks⟩ := hpre
  obtain ⟨hI1, hI2, hg, hF, oR, oB, oC⟩ := buildSpec_spec hI s hall
  simp only [step]
  generalize (buildSpec w s).1 = w1 at *
  generalize (buildSpec w s).2 = other at *
  have hbl : w1.blocklist = w.blocklist := congrArg Grid.blocklist hg
  have hrl : w1.rocktypelist = w.rocktypelist := congrArg Grid.rocktypelist hg
  have hcl : w1.connectionlist = w.connectionlist := congrArg Grid.connectionlist hg
  have hbd : w1.block = w.block := congrArg Grid.block hg
  have hhost1 : dget w1.block host = some hb := by rw [hbd]; exact hhost
  simp only [World.blockOrFresh, hhost1, hsub]
  generalize hcv : mkCon hb sb p = cv
  have hcv0 : cv.b0 = hb := by rw [← hcv]; rfl
  have hcv1 : cv.b1 = sb := by rw [← hcv]; rfl
  -- the new connection object
  have hI4 := newCon_inv hI1 cv
  have hI4' : Grid.Inv ((w1.newCon cv).2.withGrid other) := by
    have : (w1.newCon cv).2.withGrid other = ((w1.withGrid other).newCon cv).2 := rfl
    rw [this]; exact newCon_inv hI2 cv
  have hcn : (w1.newCon cv).2.cn (w1.newCon cv).1 = cv := by
    show (w1.newCon cv).2.cn w1.cons.length = cv; simp [cn_newCon]
  have hnR : ∀ x ∈ w1.rocktypelist, ∀ y ∈ other.rocktypelist, w1.rname x = w1.rname y → ∀ b ∈ w1.blocklist, (w1.bk b).rock ≠ x := by
    simp only [List.all_eq_true, Bool.or_eq_true, bne_iff_ne, ne_eq, Bool.not_eq_true'] at hrocks
    intro x hx y hy e
    rcases hrocks x hx y hy with h' | h'
    · exact absurd e h'
    · exact rockUsedIn_false h'
  obtain ⟨w5, fl, e5, hI5, _, _⟩ := embed_inv (w := (w1.newCon cv).2) (sub := other) (c := (w1.newCon cv).1) hI4 hI4'
    (fun x hx => oR x (hrl ▸ hx)) (fun x hx => oB x (hbl ▸ hx)) (fun x hx => oC x (hcl ▸ hx))
    hnR (by simp [World.newCon])
    (fun h => Nat.lt_irrefl _ (hI1.cl_lt _ h))
    (fun h => Nat.lt_irrefl _ (hI2.cl_lt _ h))
    (by rw [hcn, hcv0]; exact (hI1.bd_sound _ _ hhost1).1)
    (by rw [hcn, hcv1]; exact (hI2.bd_sound _ _ hsub).1)
  rw [e5]; exact hI5

/-- **inv_step for embed with a standalone host block** -/
theorem step_embedStandalone_inv {w : World} (hI : Grid.Inv w) (s : GridSpec) (host sub : Name) (p : ConPay) (hostvol : Rat)
    (hpre : pre w (.embedStandalone s host sub p hostvol) = true) :
    Grid.Inv (step w (.embedStandalone s host sub p hostvol)).w := by
  simp only [pre, Bool.and_eq_true, Option.isSome_iff_exists] at hpre
  obtain ⟨⟨⟨⟨_, hall⟩, ⟨x0, hhost⟩⟩, ⟨sb, hsub⟩⟩, hrocks⟩ := hpre
  obtain ⟨hI1, hI2, hg, hF, oR, oB, oC⟩ := buildSpec_spec hI s hall
  simp only [step]
  generalize (buildSpec w s).1 = w1 at *
  generalize (buildSpec w s).2 = other at *
  have hbl : w1.blocklist = w.blocklist := congrArg Grid.blocklist hg
  have hrl : w1.rocktypelist = w.rocktypelist := congrArg Grid.rocktypelist hg
  have hcl : w1.connectionlist = w.connectionlist := congrArg Grid.connectionlist hg
  have hbd : w1.block = w.block := congrArg Grid.block hg
  simp only [hsub]
  generalize hrv : ({ name := ['d','f','a','l','t'], tag := 0 } : Rock) = rv
  generalize hbv : ({ name := host, volume := hostvol, rock := (w1.newRock rv).1, centre := none, conn := [] } : Blk) = bv
  have hbvn : bv.name = host := by rw [← hbv]
  generalize hcv : mkCon ((w1.newRock rv).2.newBlk bv).1 sb p = cv
  have hcv0 : cv.b0 = w1.blks.length := by rw [← hcv]; rfl
  have hcv1 : cv.b1 = sb := by rw [← hcv]; rfl
  -- the three construction steps, seen from both grids
  generalize hw5 : (((w1.newRock rv).2.newBlk bv).2.newCon cv).2 = w5
  have hI5 : Grid.Inv w5 := by rw [← hw5]; exact newCon_inv (newBlk_inv (newRock_inv hI1 rv) bv) cv
  have hI5' : Grid.Inv (w5.withGrid other) := by
    have : w5.withGrid other = ((((w1.withGrid other).newRock rv).2.newBlk bv).2.newCon cv).2 := by rw [← hw5]; rfl
    rw [this]; exact newCon_inv (newBlk_inv (newRock_inv hI2 rv) bv) cv
  have g_rl : w5.rocktypelist = w1.rocktypelist := by rw [← hw5]; rfl
  have g_bl : w5.blocklist = w1.blocklist := by rw [← hw5]; rfl
  have g_cl : w5.connectionlist = w1.connectionlist := by rw [← hw5]; rfl
  have g_bd : w5.block = w1.block := by rw [← hw5]; rfl
  have g_cons : w5.cons = w1.cons ++ [cv] := by rw [← hw5]; rfl
  have g_blks : w5.blks = w1.blks ++ [bv] := by rw [← hw5]; rfl
  have g_rocks : w5.rocks = w1.rocks ++ [rv] := by rw [← hw5]; rfl
  have g_cn : w5.cn w1.cons.length = cv := by
    simp only [World.cn, g_cons]; rw [getD_append_one]; simp
  have g_bk_old : ∀ x, x < w1.blks.length → w5.bk x = w1.bk x := by
    intro x hx; simp only [World.bk, g_blks]; rw [getD_append_one]; simp [hx]
  have g_bk_new : w5.bk w1.blks.length = bv := by
    simp only [World.bk, g_blks]; rw [getD_append_one]; simp
  have g_rk_old : ∀ x, x < w1.rocks.length → w5.rk x = w1.rk x := by
    intro x hx; simp only [World.rk, g_rocks]; rw [getD_append_one]; simp [hx]
  have hnR : ∀ x ∈ w5.rocktypelist, ∀ y ∈ other.rocktypelist, w5.rname x = w5.rname y → ∀ b ∈ w5.blocklist, (w5.bk b).rock ≠ x := by
    simp only [List.all_eq_true, Bool.or_eq_true, bne_iff_ne, ne_eq, Bool.not_eq_true'] at hrocks
    intro x hx y hy e b hb
    rw [g_rl] at hx; rw [g_bl] at hb
    have ex : w5.rname x = w1.rname x := by simp only [World.rname, g_rk_old x (hI1.rl_lt x hx)]
    have ey : w5.rname y = w1.rname y := by simp only [World.rname, g_rk_old y (hI2.rl_lt y hy)]
    rw [ex, ey] at e
    rw [g_bk_old b (hI1.bl_lt b hb)]
    rcases hrocks x hx y hy with h' | h'
    · exact absurd e h'
    · exact rockUsedIn_false h' b hb
  have hsb' := hI2.bd_sound _ _ hsub
  have hx0 : dget w5.block (w5.bname (w5.cn w1.cons.length).b0) = some x0 := by
    rw [g_cn, hcv0]
    simp only [World.bname, g_bk_new, hbvn, g_bd, hbd]; exact hhost
  have hx1 : dget other.block (w5.bname (w5.cn w1.cons.length).b1) = some sb := by
    rw [g_cn, hcv1]
    have : w5.bname sb = sub := by
      simp only [World.bname, g_bk_old sb (hI2.bl_lt sb hsb'.1)]; exact hsb'.2
    rw [this]; exact hsub
  obtain ⟨w6, fl, e6, hI6, _, _⟩ := embed_inv' (w := w5) (sub := other) (c := w1.cons.length) hI5 hI5'
    (fun x hx => oR x (hrl ▸ g_rl ▸ hx)) (fun x hx => oB x (hbl ▸ g_bl ▸ hx)) (fun x hx => oC x (hcl ▸ g_cl ▸ hx))
    hnR (by rw [g_cons]; simp)
    (fun h => Nat.lt_irrefl _ (hI1.cl_lt _ (g_cl ▸ h)))
    (fun h => Nat.lt_irrefl _ (hI2.cl_lt _ h))
    hx0 hx1
  have hstep : (((w1.newRock rv).2.newBlk bv).2.newCon cv).1 = w1.cons.length := rfl
  rw [hstep, e6]; exact hI6

end Proofs.Grid
