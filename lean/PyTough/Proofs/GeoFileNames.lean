/-
  C03 proofs, part 13: the derived block and connection name lists of two geometries that have the
  same names, orders and surface-versus-layer comparisons are identical.
-/
import PyTough.Proofs.GeoFileFixpoint2
namespace Proofs.GeoFile
open Py Model Model.GeoFile Proofs

/-- `G` has the names and orders of `g` (columns through `f`), and every comparison the name lists
    make between a column surface and a layer boundary has the same outcome -/
structure Aligned (g G : Geo) (f : GColumn → GColumn) : Prop where
  conv : G.hdr.convention = g.hdr.convention
  atm : G.hdr.atmosType = g.hdr.atmosType
  order : G.hdr.blockOrder = g.hdr.blockOrder
  cols : G.columns = g.columns.map f
  fname : ∀ c, (f c).name = c.name
  fnodes : ∀ c, (f c).nodes = c.nodes
  conns : G.connections = g.connections
  len : G.layers.length = g.layers.length
  lname : ∀ p ∈ g.layers.zip G.layers, p.2.name = p.1.name
  cmp : ∀ p ∈ g.layers.zip G.layers, ∀ c ∈ g.columns, ∃ z z', c.surface = some z ∧ (f c).surface = some z' ∧
    decide (z.toRat > p.1.bottom.toRat) = decide (z'.toRat > p.2.bottom.toRat) ∧
    decide (z.toRat ≤ p.1.top.toRat) = decide (z'.toRat ≤ p.2.top.toRat)

theorem mapM_zip_congr {α β γ : Type} (f : α → Except Exc γ) (g : β → Except Exc γ) :
    ∀ (as : List α) (bs : List β), as.length = bs.length → (∀ p ∈ as.zip bs, f p.1 = g p.2) → as.mapM f = bs.mapM g := by
  intro as
  induction as with
  | nil => intro bs hl _; cases bs with
    | nil => rfl
    | cons _ _ => simp at hl
  | cons a r ih =>
    intro bs hl h
    cases bs with
    | nil => simp at hl
    | cons b s =>
      rw [List.mapM_cons, List.mapM_cons, h (a, b) (by simp), ih s (by simpa using hl)
        (fun p hp => h p (by rw [List.zip_cons_cons]; exact List.mem_cons_of_mem _ hp))]

/-- column in the layer (the test of the list comprehensions) -/
def inL (c : GColumn) (l : GLayer) : Bool := inLayer c.surface l

theorem filterE_ok {α : Type} (p : α → Except Exc Bool) (q : α → Bool) : ∀ (l : List α), (∀ a ∈ l, p a = .ok (q a)) →
    filterE p l = .ok (l.filter q) := by
  intro l
  induction l with
  | nil => intro _; rfl
  | cons a r ih =>
    intro h
    rw [filterE, h a (by simp), ih (fun x hx => h x (List.mem_cons_of_mem _ hx)), List.filter_cons]

theorem above_of_surface {c : GColumn} {z : Flt} (h : c.surface = some z) (l : GLayer) :
    above c l = .ok (inL c l) := by
  unfold above inL inLayer
  rw [h]

/-- one block of `block_name_list_dmplex` -/
def dmplexBlock (conv : Int) (ln cn : Str) (k : Nat) : Except Exc (Str × Bool) := do
  let b ← blockName conv ln cn
  if k = 4 then pure (b, true)
  else if k = 3 then pure (b, false)
  else .error .generic

theorem namesDmplex_unfold (conv : Int) (X : Geo) :
    namesDmplex conv X = (do
      let per ← (X.layers.drop 1).mapM fun l => do
        let cols ← layerColumns X.columns l
        cols.mapM fun (c : GColumn) => dmplexBlock conv l.name c.name c.nodes.length
      let all := per.flatten
      pure ((all.filter (·.2)).map (·.1) ++ (all.filter (!·.2)).map (·.1))) := rfl

theorem lookupColumn_mem {cs : List GColumn} {nm : Str} {c : GColumn} (h : lookupColumn cs nm = some c) : c ∈ cs := by
  unfold lookupColumn at h
  exact List.mem_of_find?_eq_some h

/-- the block-name pair of a horizontal connection -/
def connPair (conv : Int) (ln : Str) (k : Str × Str) : Except Exc (Str × Str) := do
  let a ← blockName conv ln k.1
  let b ← blockName conv ln k.2
  pure (a, b)

/-- the vertical connection(s) of one block -/
def vertBlock (conv atmT : Int) (atm0 : Option Str) (ilay : Nat) (ln aboveN l0N : Str) (top : Flt) (cn : Str) (surf : Option Flt) :
    Except Exc (List (Str × Str)) := do
  let this ← blockName conv ln cn
  let toAtm : Bool := ilay = 0 || (match surf with
    | some z => decide (z.toRat ≤ top.toRat)
    | none => false)
  if toAtm then
    if atmT = 0 then
      match atm0 with
      | some a => pure [(this, a)]
      | none => .error .indexError
    else if atmT = 1 then do
      let a ← blockName conv l0N cn
      pure [(this, a)]
    else pure []
  else do
    let a ← blockName conv aboveN cn
    pure [(this, a)]

theorem verticalNames_unfold (X : Geo) (atm0 : Option Str) (ilay : Nat) (l aboveL l0 : GLayer) (cols : List GColumn) :
    verticalNames X atm0 ilay l aboveL l0 cols = (do
      let per ← cols.mapM fun c =>
        vertBlock X.hdr.convention X.hdr.atmosType atm0 ilay l.name aboveL.name l0.name l.top c.name c.surface
      pure per.flatten) := rfl

theorem connLoop_unfold (X : Geo) (atm0 : Option Str) (l0 : GLayer) (cs : List ((Str × Str) × Option Flt × Option Flt))
    (ilay : Nat) (aboveL l : GLayer) (r : List GLayer) :
    connLoop X atm0 l0 cs ilay aboveL (l :: r) = (do
      let v ← (do let cols ← layerColumns X.columns l
                  verticalNames X atm0 ilay l aboveL l0 cols)
      let h ← (cs.filter fun k => inLayer k.2.1 l && inLayer k.2.2 l).mapM (fun k => connPair X.hdr.convention l.name k.1)
      let rest ← connLoop X atm0 l0 cs (ilay + 1) l r
      pure (v ++ h ++ rest)) := by
  rw [connLoop]
  simp only [bind, Except.bind, connPair]
  cases layerColumns X.columns l with
  | error e => rfl
  | ok cols => rfl

section
variable {g G : Geo} {f : GColumn → GColumn} (A : Aligned g G f)
include A

theorem layerColumns_g {l l' : GLayer} (hp : (l, l') ∈ g.layers.zip G.layers) :
    layerColumns g.columns l = .ok (g.columns.filter (fun c => inL c l)) := by
  unfold layerColumns
  apply filterE_ok
  intro c hc
  obtain ⟨z, z', hz, _, _, _⟩ := A.cmp _ hp c hc
  exact above_of_surface hz l

theorem inL_eq {l l' : GLayer} (hp : (l, l') ∈ g.layers.zip G.layers) {c : GColumn} (hc : c ∈ g.columns) :
    inL (f c) l' = inL c l := by
  obtain ⟨z, z', hz, hz', h1, _⟩ := A.cmp _ hp c hc
  unfold inL inLayer
  rw [hz, hz']
  exact h1.symm

theorem layerColumns_G {l l' : GLayer} (hp : (l, l') ∈ g.layers.zip G.layers) :
    layerColumns G.columns l' = .ok ((g.columns.filter (fun c => inL c l)).map f) := by
  unfold layerColumns
  rw [A.cols, filterE_ok (fun c => above c l') (fun c => inL c l') (g.columns.map f) (by
    intro c' hc'
    obtain ⟨c, hc, rfl⟩ := List.mem_map.mp hc'
    obtain ⟨z, z', _, hz', _, _⟩ := A.cmp _ hp c hc
    exact above_of_surface hz' l')]
  rw [List.filter_map]
  congr 2
  apply List.filter_congr
  intro c hc
  exact inL_eq A hp hc

/-- the names of one layer's blocks -/
theorem layer_names_eq {l l' : GLayer} (hp : (l, l') ∈ g.layers.zip G.layers) :
    (do let cols ← layerColumns G.columns l'
        cols.mapM fun (c : GColumn) => blockName G.hdr.convention l'.name c.name) =
    (do let cols ← layerColumns g.columns l
        cols.mapM fun (c : GColumn) => blockName g.hdr.convention l.name c.name) := by
  rw [layerColumns_G A hp, layerColumns_g A hp]
  simp only [bind, Except.bind]
  rw [mapM_map']
  apply mapM_congr'
  intro c _
  rw [A.fname, A.conv, A.lname _ hp]

theorem tails_zip {l0 l0' : GLayer} {r r' : List GLayer} (hl : g.layers = l0 :: r) (hl' : G.layers = l0' :: r') :
    r.length = r'.length ∧ (l0, l0') ∈ g.layers.zip G.layers ∧ ∀ p ∈ r.zip r', p ∈ g.layers.zip G.layers := by
  have := A.len
  rw [hl, hl'] at this ⊢
  refine ⟨by simpa using this.symm, by simp, ?_⟩
  intro p hp
  rw [List.zip_cons_cons]
  exact List.mem_cons_of_mem _ hp

theorem namesLayerColumn_eq : namesLayerColumn G.hdr.convention G = namesLayerColumn g.hdr.convention g := by
  unfold namesLayerColumn
  cases hl : g.layers with
  | nil =>
    have : G.layers = [] := by
      have := A.len; rw [hl] at this; exact List.eq_nil_of_length_eq_zero this
    rw [this]
    rfl
  | cons l0 r =>
    cases hl' : G.layers with
    | nil => have := A.len; rw [hl, hl'] at this; simp at this
    | cons l0' r' =>
      obtain ⟨hlen, _, hz⟩ := tails_zip A hl hl'
      simp only [List.drop_succ_cons, List.drop_zero]
      have key := mapM_zip_congr
        (fun (l : GLayer) => do
          let cols ← layerColumns g.columns l
          cols.mapM fun (c : GColumn) => blockName g.hdr.convention l.name c.name)
        (fun (l' : GLayer) => do
          let cols ← layerColumns G.columns l'
          cols.mapM fun (c : GColumn) => blockName G.hdr.convention l'.name c.name)
        r r' hlen (fun ⟨l, l'⟩ hp => (layer_names_eq A (hz _ hp)).symm)
      rw [key]

/-- anything computed per block from the layer name, the column name and the number of nodes -/
theorem layer_blocks_eq {γ : Type} (h : Str → Str → Nat → Except Exc γ) {l l' : GLayer}
    (hp : (l, l') ∈ g.layers.zip G.layers) :
    (do let cols ← layerColumns G.columns l'
        cols.mapM fun (c : GColumn) => h l'.name c.name c.nodes.length) =
    (do let cols ← layerColumns g.columns l
        cols.mapM fun (c : GColumn) => h l.name c.name c.nodes.length) := by
  rw [layerColumns_G A hp, layerColumns_g A hp]
  simp only [bind, Except.bind]
  rw [mapM_map']
  apply mapM_congr'
  intro c _
  rw [A.fname, A.fnodes, A.lname _ hp]

theorem namesDmplex_eq : namesDmplex G.hdr.convention G = namesDmplex g.hdr.convention g := by
  rw [namesDmplex_unfold, namesDmplex_unfold, A.conv]
  cases hl : g.layers with
  | nil =>
    have : G.layers = [] := by
      have := A.len; rw [hl] at this; exact List.eq_nil_of_length_eq_zero this
    rw [this]
    rfl
  | cons l0 r =>
    cases hl' : G.layers with
    | nil => have := A.len; rw [hl, hl'] at this; simp at this
    | cons l0' r' =>
      obtain ⟨hlen, _, hz⟩ := tails_zip A hl hl'
      simp only [List.drop_succ_cons, List.drop_zero]
      have key := mapM_zip_congr
        (fun (l : GLayer) => do
          let cols ← layerColumns g.columns l
          cols.mapM fun (c : GColumn) => dmplexBlock g.hdr.convention l.name c.name c.nodes.length)
        (fun (l' : GLayer) => do
          let cols ← layerColumns G.columns l'
          cols.mapM fun (c : GColumn) => dmplexBlock g.hdr.convention l'.name c.name c.nodes.length)
        r r' hlen (fun ⟨l, l'⟩ hp => (layer_blocks_eq A (dmplexBlock g.hdr.convention) (hz _ hp)).symm)
      rw [key]

theorem atmosNames_eq : atmosNames G = atmosNames g := by
  unfold atmosNames
  cases hl : g.layers with
  | nil =>
    have : G.layers = [] := by
      have := A.len; rw [hl] at this; exact List.eq_nil_of_length_eq_zero this
    rw [this]
  | cons l0 r =>
    cases hl' : G.layers with
    | nil => have := A.len; rw [hl, hl'] at this; simp at this
    | cons l0' r' =>
      obtain ⟨_, h0, _⟩ := tails_zip A hl hl'
      have hn : l0'.name = l0.name := A.lname _ h0
      simp only [A.atm, A.conv, hn, A.cols]
      rw [mapM_map']
      simp only [A.fname]

theorem blockNameList_eq : blockNameList G = blockNameList g := by
  unfold blockNameList
  cases hl : g.layers with
  | nil =>
    have : G.layers = [] := by
      have := A.len; rw [hl] at this; exact List.eq_nil_of_length_eq_zero this
    rw [this]
  | cons l0 r =>
    cases hl' : G.layers with
    | nil => have := A.len; rw [hl, hl'] at this; simp at this
    | cons l0' r' =>
      simp only
      rw [atmosNames_eq A, A.order, namesLayerColumn_eq A, namesDmplex_eq A]

/-! ### connections -/

theorem lookupColumn_map (cs : List GColumn) (nm : Str) :
    lookupColumn (cs.map f) nm = (lookupColumn cs nm).map f := by
  unfold lookupColumn
  rw [List.find?_map]
  have : ((fun (c : GColumn) => decide (c.name = nm)) ∘ f) = (fun (c : GColumn) => decide (c.name = nm)) := by
    funext c
    simp only [Function.comp, A.fname]
  rw [this]

theorem inLayer_lookup {l l' : GLayer} (hp : (l, l') ∈ g.layers.zip G.layers) (nm : Str) :
    inLayer ((lookupColumn G.columns nm).bind (·.surface)) l' = inLayer ((lookupColumn g.columns nm).bind (·.surface)) l := by
  rw [A.cols, lookupColumn_map A]
  cases hl : lookupColumn g.columns nm with
  | none => rfl
  | some c =>
    simp only [Option.map_some, Option.bind_some]
    exact inL_eq A hp (lookupColumn_mem hl)

theorem horizontal_eq {l l' : GLayer} (hp : (l, l') ∈ g.layers.zip G.layers) :
    ((connSurfaces G).filter fun k => inLayer k.2.1 l' && inLayer k.2.2 l').mapM
        (fun k => connPair G.hdr.convention l'.name k.1) =
    ((connSurfaces g).filter fun k => inLayer k.2.1 l && inLayer k.2.2 l).mapM
        (fun k => connPair g.hdr.convention l.name k.1) := by
  unfold connSurfaces
  rw [List.filter_map, List.filter_map, mapM_map', mapM_map', A.conns, A.conv, A.lname _ hp]
  congr 1
  apply List.filter_congr
  intro k _
  simp only [Function.comp, inLayer_lookup A hp]

theorem vertical_eq (atm0 : Option Str) (ilay : Nat) {l l' aboveL aboveL' l0 l0' : GLayer}
    (hp : (l, l') ∈ g.layers.zip G.layers) (ha : aboveL'.name = aboveL.name) (h0 : l0'.name = l0.name) :
    (do let cols ← layerColumns G.columns l'
        verticalNames G atm0 ilay l' aboveL' l0' cols) =
    (do let cols ← layerColumns g.columns l
        verticalNames g atm0 ilay l aboveL l0 cols) := by
  rw [layerColumns_G A hp, layerColumns_g A hp]
  simp only [bind, Except.bind]
  rw [verticalNames_unfold, verticalNames_unfold, mapM_map']
  have : ((g.columns.filter fun c => inL c l).mapM fun c =>
        vertBlock G.hdr.convention G.hdr.atmosType atm0 ilay l'.name aboveL'.name l0'.name l'.top (f c).name (f c).surface)
      = ((g.columns.filter fun c => inL c l).mapM fun c =>
        vertBlock g.hdr.convention g.hdr.atmosType atm0 ilay l.name aboveL.name l0.name l.top c.name c.surface) := by
    apply mapM_congr'
    intro c hc
    have hcg : c ∈ g.columns := (List.mem_filter.mp hc).1
    obtain ⟨z, z', hz, hz', _, h2⟩ := A.cmp _ hp c hcg
    rw [A.conv, A.atm, A.lname _ hp, ha, h0, A.fname, hz, hz']
    unfold vertBlock
    simp only [h2]
  rw [this]

theorem connLoop_eq (atm0 : Option Str) {l0 l0' : GLayer} (h0 : l0'.name = l0.name) :
    ∀ (r r' : List GLayer) (ilay : Nat) (aboveL aboveL' : GLayer), r.length = r'.length →
    (∀ p ∈ r.zip r', p ∈ g.layers.zip G.layers) → aboveL'.name = aboveL.name →
    connLoop G atm0 l0' (connSurfaces G) ilay aboveL' r' = connLoop g atm0 l0 (connSurfaces g) ilay aboveL r := by
  intro r
  induction r with
  | nil =>
    intro r' ilay aboveL aboveL' hl _ _
    cases r' with
    | nil => rfl
    | cons _ _ => simp at hl
  | cons l r ih =>
    intro r' ilay aboveL aboveL' hl hz ha
    cases r' with
    | nil => simp at hl
    | cons l' r' =>
      have hp : (l, l') ∈ g.layers.zip G.layers := hz (l, l') (by simp)
      rw [connLoop_unfold, connLoop_unfold, vertical_eq A atm0 ilay hp ha h0, horizontal_eq A hp,
        ih r' (ilay + 1) l l' (by simpa using hl)
          (fun p hp' => hz p (by rw [List.zip_cons_cons]; exact List.mem_cons_of_mem _ hp')) (A.lname _ hp)]

theorem blockConnectionNameList_eq : blockConnectionNameList G = blockConnectionNameList g := by
  unfold blockConnectionNameList
  cases hl : g.layers with
  | nil =>
    have : G.layers = [] := by
      have := A.len; rw [hl] at this; exact List.eq_nil_of_length_eq_zero this
    rw [this]
  | cons l0 r =>
    cases hl' : G.layers with
    | nil => have := A.len; rw [hl, hl'] at this; simp at this
    | cons l0' r' =>
      obtain ⟨hlen, h0, hz⟩ := tails_zip A hl hl'
      have hn : l0'.name = l0.name := A.lname _ h0
      simp only
      cases r with
      | nil =>
        cases r' with
        | nil => rfl
        | cons _ _ => simp at hlen
      | cons a b =>
        cases r' with
        | nil => simp at hlen
        | cons a' b' =>
          simp only
          rw [blockNameList_eq A]
          cases blockNameList g with
          | error e => rfl
          | ok names =>
            simp only [bind, Except.bind]
            exact connLoop_eq A names.head? hn (a :: b) (a' :: b') 0 l0 l0' hlen hz hn

end

/-! ### the re-read geometry is aligned with the original -/

theorem mem_zip_map_self {α β : Type} (f : α → β) : ∀ (l : List α) (a : α), a ∈ l → (a, f a) ∈ l.zip (l.map f) := by
  intro l
  induction l with
  | nil => intro a h; cases h
  | cons x r ih =>
    intro a h
    rw [List.map_cons, List.zip_cons_cons]
    rcases List.mem_cons.mp h with rfl | h
    · simp
    · exact List.mem_cons_of_mem _ (ih a h)

theorem zip_layerTops_names (s : Rat) : ∀ (ls : List GLayer) (above : Option GLayer) (t : Flt),
    ∀ p ∈ ls.zip (layerTops t (canonLayersAux s above ls)), p.2.name = p.1.name := by
  intro ls
  induction ls with
  | nil => intro _ _ p hp; simp at hp
  | cons l r ih =>
    intro above t p hp
    simp only [canonLayersAux, layerTops, List.zip_cons_cons, List.mem_cons] at hp
    rcases hp with rfl | hp
    · rfl
    · exact ih _ _ p hp

theorem zip_canonLayers_names (s : Rat) (ls : List GLayer) : ∀ p ∈ ls.zip (canonLayers s ls), p.2.name = p.1.name := by
  unfold canonLayers
  cases hc : canonLayersAux s none ls with
  | nil => intro p hp; simp at hp
  | cons l0 r =>
    simp only
    rw [← hc]
    exact zip_layerTops_names s ls none _

theorem aligned_canon {g : Geo} (hwf : WF g = true) (hst : StableSurfaces g = true) :
    Aligned g (canonGeo g) (canonColumn (scaleOf g) (g.nodes.map (canonNode (scaleOf g))) (canonLayers (scaleOf g) g.layers)) := by
  obtain ⟨L, LL, s, w⟩ := wfp_of hwf
  refine ⟨rfl, rfl, w.hdr.bo.symm, rfl, fun _ => rfl, fun _ => rfl, rfl, canonLayers_length _ _, zip_canonLayers_names _ _, ?_⟩
  intro p hp c hc
  unfold StableSurfaces at hst
  simp only [List.all_eq_true] at hst
  have h1 := hst (c, canonColumn (scaleOf g) (g.nodes.map (canonNode (scaleOf g))) (canonLayers (scaleOf g) g.layers) c)
    (mem_zip_map_self _ g.columns c hc)
  have h2 := h1 p hp
  simp only at h2
  cases hz : c.surface with
  | none => rw [hz] at h2; simp at h2
  | some z =>
    cases hz' : (canonColumn (scaleOf g) (g.nodes.map (canonNode (scaleOf g))) (canonLayers (scaleOf g) g.layers) c).surface with
    | none => rw [hz, hz'] at h2; simp at h2
    | some z' =>
      rw [hz, hz'] at h2
      simp only [Bool.and_eq_true, beq_iff_eq] at h2
      exact ⟨z, z', rfl, rfl, h2.1, h2.2⟩

/-- **name lists**: under `StableSurfaces` the block and connection name lists of the re-read
    geometry are those of the original -/
theorem names_preserved {g : Geo} (hwf : WF g = true) (hst : StableSurfaces g = true) :
    blockNameList (canonGeo g) = blockNameList g ∧ blockConnectionNameList (canonGeo g) = blockConnectionNameList g :=
  ⟨blockNameList_eq (aligned_canon hwf hst), blockConnectionNameList_eq (aligned_canon hwf hst)⟩

end Proofs.GeoFile
