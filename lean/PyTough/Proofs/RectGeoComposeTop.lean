/-
  Proofs for C18, composition: (a) which block `topmost_block` (`nanargmax` of the elevations)
  returns on a lattice whose admissible blocks are exactly the box and whose centre elevations
  decrease with the layer index — a top-layer block, so the hypothesis `htop` of the lattice
  spacing theorems is discharged; (b) `find_surface` for a column given as a `Row` in direction 3
  (top to bottom, of any height: flat or stepped surfaces): the walk goes up from the mapped
  bottom block — the reversed row — and the surface formula is applied to the row's first block.
-/
import PyTough.Proofs.RectGeoComposeLattice
namespace Proofs.RectGeo
open Py Model.FromGeo Model.RectGeo

/-! ### `nanargmax` -/

theorem argBest_max (mv : Option Rat) : ∀ (bs : List GBlock) (b : GBlock) (z : Rat),
    argBest (fun a b => decide (b < a)) mv bs = some (b, z) →
    b ∈ bs ∧ elev mv b = some z ∧ ∀ b' ∈ bs, ∀ z', elev mv b' = some z' → z' ≤ z := by
  intro bs
  induction bs with
  | nil => intro b z h; cases h
  | cons a as ih =>
    intro b z h
    simp only [argBest] at h
    cases ha : elev mv a with
    | none =>
      rw [ha] at h
      simp only at h
      obtain ⟨h1, h2, h3⟩ := ih b z h
      refine ⟨List.mem_cons_of_mem _ h1, h2, ?_⟩
      intro b' hb' z' hz'
      rcases List.mem_cons.1 hb' with e | e
      · subst e; rw [ha] at hz'; cases hz'
      · exact h3 b' e z' hz'
    | some za =>
      rw [ha] at h
      cases hr : argBest (fun a b => decide (b < a)) mv as with
      | none =>
        rw [hr] at h
        simp only [Option.some.injEq, Prod.mk.injEq] at h
        obtain ⟨rfl, rfl⟩ := h
        refine ⟨List.mem_cons_self, ha, ?_⟩
        intro b' hb' z' hz'
        rcases List.mem_cons.1 hb' with e | e
        · subst e; rw [ha] at hz'; cases hz'; exact le_refl _
        · exfalso
          -- the rest has no block with an elevation, else `argBest` would not be `none`
          clear ih
          induction as with
          | nil => cases e
          | cons x xs ih2 =>
            simp only [argBest] at hr
            cases hx : elev mv x with
            | none =>
              rw [hx] at hr
              rcases List.mem_cons.1 e with e' | e'
              · subst e'; rw [hx] at hz'; cases hz'
              · exact ih2 (by simpa using hr) (List.mem_cons_of_mem _ e') e'
            | some zx =>
              rw [hx] at hr
              cases hr2 : argBest (fun a b => decide (b < a)) mv xs with
              | none => rw [hr2] at hr; cases hr
              | some p => rw [hr2] at hr; obtain ⟨p1, p2⟩ := p; simp only at hr; split at hr <;> cases hr
      | some p =>
        obtain ⟨b1, z1⟩ := p
        rw [hr] at h
        simp only at h
        obtain ⟨h1, h2, h3⟩ := ih b1 z1 hr
        by_cases hlt : za < z1
        · simp only [hlt, decide_true, if_true, Option.some.injEq, Prod.mk.injEq] at h
          obtain ⟨rfl, rfl⟩ := h
          refine ⟨List.mem_cons_of_mem _ h1, h2, ?_⟩
          intro b' hb' z' hz'
          rcases List.mem_cons.1 hb' with e | e
          · subst e; rw [ha] at hz'; cases hz'; exact le_of_lt hlt
          · exact h3 b' e z' hz'
        · simp only [hlt, decide_false, Bool.false_eq_true, if_false, Option.some.injEq, Prod.mk.injEq] at h
          obtain ⟨rfl, rfl⟩ := h
          refine ⟨List.mem_cons_self, ha, ?_⟩
          intro b' hb' z' hz'
          rcases List.mem_cons.1 hb' with e | e
          · subst e; rw [ha] at hz'; cases hz'; exact le_refl _
          · exact le_trans (h3 b' e z' hz') (not_lt.1 hlt)

theorem argBest_some (mv : Option Rat) : ∀ (bs : List GBlock) (b : GBlock) (z : Rat), b ∈ bs → elev mv b = some z →
    ∃ r, argBest (fun a b => decide (b < a)) mv bs = some r := by
  intro bs
  induction bs with
  | nil => intro b z h; cases h
  | cons a as ih =>
    intro b z hb hz
    simp only [argBest]
    cases ha : elev mv a with
    | none =>
      rcases List.mem_cons.1 hb with e | e
      · subst e; rw [ha] at hz; cases hz
      · exact ih b z e hz
    | some za =>
      cases hr : argBest (fun a b => decide (b < a)) mv as with
      | none => exact ⟨_, rfl⟩
      | some p =>
        obtain ⟨b1, z1⟩ := p
        simp only
        split
        · exact ⟨_, rfl⟩
        · exact ⟨_, rfl⟩

theorem elev_some {mv : Option Rat} {b : GBlock} {z : Rat} (h : elev mv b = some z) :
    volOk mv b = true ∧ ∃ c, b.centre = some c ∧ c.z = z := by
  unfold elev at h
  split at h
  · cases h
  · rename_i c hc
    split at h
    · rename_i hv
      cases h
      exact ⟨hv, c, hc, rfl⟩
    · cases h

theorem elev_of {mv : Option Rat} {b : GBlock} {c : P3} (hv : volOk mv b = true) (hc : b.centre = some c) :
    elev mv b = some c.z := by
  unfold elev
  simp only [hc, hv, if_true]

/-- the lattice is the whole admissible part of the grid and its layers lie one below the other:
    every admissible block of `T` is a block of the box, and the block centres have elevation
    `zc l` (strictly decreasing in the layer index `l`) -/
structure Layered (T : TGrid) (mv : Rat) (nx ny nz : Nat) (blk : Nat → Nat → Nat → GBlock) (zc : Nat → Rat) : Prop where
  cover : ∀ b ∈ T.blocks, volOk (some mv) b = true → ∃ i j l, i ≤ nx ∧ j ≤ ny ∧ l ≤ nz ∧ b = blk i j l
  cen : ∀ i j l, i ≤ nx → j ≤ ny → l ≤ nz → ∃ c, (blk i j l).centre = some c ∧ c.z = zc l
  dec : ∀ l l', l < l' → l' ≤ nz → zc l' < zc l

/-- `topmost_block` returns a block of the top layer of the box -/
theorem Lattice.topmost {T : TGrid} {mv : Rat} {nx ny nz : Nat} {blk : Nat → Nat → Nat → GBlock}
    {cx cy cz : Nat → Nat → Nat → GConn} (L : Lattice T mv nx ny nz blk cx cy cz) {zc : Nat → Rat}
    (Y : Layered T mv nx ny nz blk zc) :
    ∃ it jt, it ≤ nx ∧ jt ≤ ny ∧ topmostBlock T (some mv) = .ok (blk it jt 0) := by
  obtain ⟨c00, hc00, hz00⟩ := Y.cen 0 0 0 (by omega) (by omega) (by omega)
  have hm0 : blk 0 0 0 ∈ T.blocks := findB_mem (L.reg 0 0 0 (by omega) (by omega) (by omega))
  have he0 := elev_of (L.adm 0 0 0 (by omega) (by omega) (by omega)) hc00
  obtain ⟨⟨b, z⟩, hr⟩ := argBest_some (some mv) T.blocks _ _ hm0 he0
  obtain ⟨hb, hz, hmax⟩ := argBest_max (some mv) T.blocks b z hr
  obtain ⟨hv, c, hc, hcz⟩ := elev_some hz
  obtain ⟨i, j, l, hi, hj, hl, rfl⟩ := Y.cover b hb hv
  obtain ⟨c', hc', hz'⟩ := Y.cen i j l hi hj hl
  have hle := hmax _ hm0 _ he0
  have hl0 : l = 0 := by
    by_contra hne
    have := Y.dec 0 l (by omega) hl
    rw [hc] at hc'; cases hc'
    rw [← hcz, hz', hz00] at hle
    exact absurd this (not_lt.2 hle)
  subst hl0
  refine ⟨i, j, hi, hj, ?_⟩
  unfold topmostBlock
  rw [hr]

/-! ### `find_surface` on a column given as a row -/

/-- For a column whose blocks `b 0` (top) … `b n` (bottom) form a `Row` in direction 3 with own
    distances half the thicknesses `w l`, and whose bottom block is the one the block map gives for
    the reconstructed column `col`, `find_surface` applies the two-case formula to the top block
    `b 0` with layer thickness `w 0`. -/
theorem columnSurface_row {T : TGrid} {mv : Rat} {n : Nat} {b : Nat → GBlock} {cn : Nat → GConn}
    (R : Row T 3 (some mv) n b cn) (hn : 0 < n) (w : Nat → Rat)
    (hw : ∀ l, l < n → distAt (cn l) (b l).name = w l / 2 ∧ distAt (cn l) (b (l + 1)).name = w (l + 1) / 2)
    (g : Geo) (mp : BlockMap) (col : Column) (bottomLayer : Layer) (gn : Str)
    (hbl : g.layerlist.getLast? = some bottomLayer)
    (hgn : blockName g.convention bottomLayer.name col.name = .ok gn)
    (hmp : mp.lookup gn = some (b n).name)
    (c : P3) (hc : (b 0).centre = some c) (hv : (b 0).volume > 0) :
    columnSurface T g mp mv col = .ok (some (surfaceFormula c.z ((b 0).volume / col.area) (w 0))) := by
  have R' := R.reverse
  have hlast := lineBlocks_getLast (fun i => b (n - i)) (fun i => cn (n - 1 - i)) n 0
  simp only [Nat.zero_add, Nat.sub_self, Nat.sub_zero] at hlast
  have hs := rowSizes (fun i => b (n - i)) (fun i => cn (n - 1 - i)) (fun i => w (n - i)) n
    (by
      intro i hi
      have e : n - i = n - 1 - i + 1 := by omega
      simp only [e]
      exact (hw (n - 1 - i) (by omega)).2)
    (by
      intro i hi
      have e : n - (i + 1) = n - 1 - i := by omega
      simp only [e]
      exact (hw (n - 1 - i) (by omega)).1)
    n 0 (by omega) (by omega)
  simp only [prevOf, Nat.sub_zero] at hs
  have h := columnSurface_line T g mp mv col bottomLayer gn (b n) (rowSteps (fun i => b (n - i)) (fun i => cn (n - 1 - i)) 0 n)
    hbl hgn hmp (R.reg n (by omega)) (by rw [rowSteps_length]; have := R.length_le; omega) (R.adm n (by omega))
    (by have := R'.isLine_row; simpa only [Nat.sub_zero] using this) (b 0) hlast c hc hv
  rw [h, hs]
  have : lastOr ((List.range' 0 (n + 1)).map fun i => w (n - i)) ((b 0).volume / col.area) = w 0 := by
    unfold lastOr
    rw [getLast_map_range' (fun i => w (n - i)) n]
    simp
  rw [this]

/-! ### the lattice spacing theorems without the hypothesis on the topmost block -/

theorem Layered.down {T : TGrid} {mv : Rat} {nx ny nz : Nat} {blk : Nat → Nat → Nat → GBlock} {zc : Nat → Rat}
    (Y : Layered T mv nx ny nz blk zc) (it jt : Nat) (hit : it ≤ nx) (hjt : jt ≤ ny) :
    ∃ c0 c1, (blk it jt 0).centre = some c0 ∧ (blk it jt nz).centre = some c1 ∧ c1.z ≤ c0.z := by
  obtain ⟨c0, hc0, hz0⟩ := Y.cen it jt 0 hit hjt (by omega)
  obtain ⟨c1, hc1, hz1⟩ := Y.cen it jt nz hit hjt (by omega)
  refine ⟨c0, c1, hc0, hc1, ?_⟩
  rw [hz0, hz1]
  by_cases h : nz = 0
  · rw [h]
  · exact le_of_lt (Y.dec 0 nz (by omega) (by omega))

theorem blockSpacings_layered {T : TGrid} {mv : Rat} {nx ny nz : Nat} {blk : Nat → Nat → Nat → GBlock}
    {cx cy cz : Nat → Nat → Nat → GConn} (L : Lattice T mv nx ny nz blk cx cy cz) {zc : Nat → Rat}
    (Y : Layered T mv nx ny nz blk zc) (hx : 0 < nx) (hy : 0 < ny) (hz : 0 < nz) (wx wy wz : Nat → Rat)
    (hwx : ∀ i, i < nx → distAt (cx i 0 nz) (blk i 0 nz).name = wx i / 2 ∧
      distAt (cx i 0 nz) (blk (i + 1) 0 nz).name = wx (i + 1) / 2)
    (hwy : ∀ j, j < ny → distAt (cy 0 j nz) (blk 0 j nz).name = wy j / 2 ∧
      distAt (cy 0 j nz) (blk 0 (j + 1) nz).name = wy (j + 1) / 2)
    (hwz : ∀ i j l, i ≤ nx → j ≤ ny → l < nz → distAt (cz i j l) (blk i j l).name = wz l / 2 ∧
      distAt (cz i j l) (blk i j (l + 1)).name = wz (l + 1) / 2) :
    blockSpacings T (blk 0 0 nz) mv =
      .ok ((List.range' 0 (nx + 1)).map wx, (List.range' 0 (ny + 1)).map wy, (List.range' 0 (nz + 1)).map wz) := by
  obtain ⟨it, jt, hit, hjt, htop⟩ := L.topmost Y
  obtain ⟨c0, c1, hc0, hc1, hd⟩ := Y.down it jt hit hjt
  exact blockSpacings_lattice L hx hy hz it jt hit hjt htop c0 c1 hc0 hc1 hd wx wy wz hwx hwy
    (fun l hl => hwz it jt l hit hjt hl)

theorem blockSpacings_layered_2d_x {T : TGrid} {mv : Rat} {ny nz : Nat} {blk : Nat → Nat → Nat → GBlock}
    {cx cy cz : Nat → Nat → Nat → GConn} (L : Lattice T mv 0 ny nz blk cx cy cz) {zc : Nat → Rat}
    (Y : Layered T mv 0 ny nz blk zc) (hy : 0 < ny) (hz : 0 < nz) (wx0 : Rat) (wy wz : Nat → Rat)
    (hvol : (blk 0 0 nz).volume = wx0 * wy 0 * wz nz) (hy0 : wy 0 ≠ 0) (hz0 : wz nz ≠ 0)
    (hwy : ∀ j, j < ny → distAt (cy 0 j nz) (blk 0 j nz).name = wy j / 2 ∧
      distAt (cy 0 j nz) (blk 0 (j + 1) nz).name = wy (j + 1) / 2)
    (hwz : ∀ j l, j ≤ ny → l < nz → distAt (cz 0 j l) (blk 0 j l).name = wz l / 2 ∧
      distAt (cz 0 j l) (blk 0 j (l + 1)).name = wz (l + 1) / 2) :
    blockSpacings T (blk 0 0 nz) mv =
      .ok ([wx0], (List.range' 0 (ny + 1)).map wy, (List.range' 0 (nz + 1)).map wz) := by
  obtain ⟨it, jt, hit, hjt, htop⟩ := L.topmost Y
  have : it = 0 := by omega
  subst this
  obtain ⟨c0, c1, hc0, hc1, hd⟩ := Y.down 0 jt hit hjt
  exact blockSpacings_lattice_2d_x L hy hz jt hjt htop c0 c1 hc0 hc1 hd wx0 wy wz hvol hy0 hz0 hwy
    (fun l hl => hwz jt l hjt hl)

theorem blockSpacings_layered_2d_y {T : TGrid} {mv : Rat} {nx nz : Nat} {blk : Nat → Nat → Nat → GBlock}
    {cx cy cz : Nat → Nat → Nat → GConn} (L : Lattice T mv nx 0 nz blk cx cy cz) {zc : Nat → Rat}
    (Y : Layered T mv nx 0 nz blk zc) (hx : 0 < nx) (hz : 0 < nz) (wy0 : Rat) (wx wz : Nat → Rat)
    (hvol : (blk 0 0 nz).volume = wx 0 * wy0 * wz nz) (hx0 : wx 0 ≠ 0) (hz0 : wz nz ≠ 0)
    (hwx : ∀ i, i < nx → distAt (cx i 0 nz) (blk i 0 nz).name = wx i / 2 ∧
      distAt (cx i 0 nz) (blk (i + 1) 0 nz).name = wx (i + 1) / 2)
    (hwz : ∀ i l, i ≤ nx → l < nz → distAt (cz i 0 l) (blk i 0 l).name = wz l / 2 ∧
      distAt (cz i 0 l) (blk i 0 (l + 1)).name = wz (l + 1) / 2) :
    blockSpacings T (blk 0 0 nz) mv =
      .ok ((List.range' 0 (nx + 1)).map wx, [wy0], (List.range' 0 (nz + 1)).map wz) := by
  obtain ⟨it, jt, hit, hjt, htop⟩ := L.topmost Y
  have : jt = 0 := by omega
  subst this
  obtain ⟨c0, c1, hc0, hc1, hd⟩ := Y.down it 0 hit hjt
  exact blockSpacings_lattice_2d_y L hx hz it hit htop c0 c1 hc0 hc1 hd wy0 wx wz hvol hx0 hz0 hwx
    (fun l hl => hwz it l hit hl)

/-- `find_surface` on a column given as a row gives back the generating column's surface, when the
    row's top block carries C04's centre and volume for layer `lay` of the generating geometry `G`
    (surface inside `lay`, or above the top layer) -/
theorem columnSurface_row_recovered {T : TGrid} {mv : Rat} {n : Nat} {b : Nat → GBlock} {cn : Nat → GConn}
    (R : Row T 3 (some mv) n b cn) (hn : 0 < n) (w : Nat → Rat)
    (hw : ∀ l, l < n → distAt (cn l) (b l).name = w l / 2 ∧ distAt (cn l) (b (l + 1)).name = w (l + 1) / 2)
    (g : Geo) (mp : BlockMap) (col : Column) (bottomLayer : Layer) (gn : Str)
    (hbl : g.layerlist.getLast? = some bottomLayer)
    (hgn : blockName g.convention bottomLayer.name col.name = .ok gn)
    (hmp : mp.lookup gn = some (b n).name)
    (G : Geo) (lay : Layer) (colG : Column) (hwf : LayersWF G) (hl : lay ∈ G.layers) (harea : 0 < colG.area)
    (hsame : col.area = colG.area)
    (hcentre : (b 0).centre = blockCentre G lay colG) (hvol : some (b 0).volume = blockVolume G lay colG)
    (hvpos : (b 0).volume > 0)
    (hcase :
      (lay.bottom < colG.surface ∧ colG.surface ≤ lay.top ∧ colG.surface - lay.bottom ≤ w 0) ∨
      (G.layers.head? = some lay ∧ lay.top < colG.surface ∧
        lay.centre = (1 / 2 : Rat) * (lay.bottom + lay.top) ∧ w 0 = lay.top - lay.bottom)) :
    columnSurface T g mp mv col = .ok (some colG.surface) := by
  have key : ∃ c, (b 0).centre = some c ∧ surfaceFormula c.z ((b 0).volume / col.area) (w 0) = colG.surface := by
    rcases hcase with ⟨hb, ht, hle⟩ | ⟨hh, ht, hmid, hle⟩
    · obtain ⟨c, v, hc, hv, hs⟩ := surface_inside G lay colG hwf hl harea hb ht (w 0) hle
      rw [hv] at hvol
      have : (b 0).volume = v := Option.some.inj hvol
      exact ⟨c, by rw [hcentre, hc], by rw [this, hsame]; exact hs⟩
    · obtain ⟨c, v, hc, hv, hs⟩ := surface_above G lay colG hwf hh harea ht hmid
      rw [hv] at hvol
      have : (b 0).volume = v := Option.some.inj hvol
      exact ⟨c, by rw [hcentre, hc], by rw [this, hsame, hle]; exact hs⟩
  obtain ⟨c, hc, hs⟩ := key
  rw [columnSurface_row R hn w hw g mp col bottomLayer gn hbl hgn hmp c hc hvpos, hs]

end Proofs.RectGeo
