/-
  Proofs for C18, composition: a rectangular lattice of blocks, described structurally (as a set of
  blocks and connections, no walks) — `Lattice` — has the three axis lines `block_spacings` needs,
  so `block_spacings` returns the lattice's widths.  Index `l = 0` is the top layer, `l = nz` the
  bottom one; `nx, ny, nz` are the numbers of blocks minus one.
-/
import PyTough.Proofs.RectGeoComposeRow
namespace Proofs.RectGeo
open Py Model.FromGeo Model.RectGeo

/-- `T` contains the full box of blocks `blk i j l` (`i ≤ nx, j ≤ ny, l ≤ nz`), joined by `cx`
    (direction 1), `cy` (direction 2), `cz` (direction 3, downwards); every other connection touching
    a block of the box leads to a boundary block (zero or huge volume: atmosphere, inactive). -/
structure Lattice (T : TGrid) (mv : Rat) (nx ny nz : Nat) (blk : Nat → Nat → Nat → GBlock)
    (cx cy cz : Nat → Nat → Nat → GConn) : Prop where
  inj : ∀ i j l i' j' l', i ≤ nx → j ≤ ny → l ≤ nz → i' ≤ nx → j' ≤ ny → l' ≤ nz →
    (blk i j l).name = (blk i' j' l').name → i = i' ∧ j = j' ∧ l = l'
  reg : ∀ i j l, i ≤ nx → j ≤ ny → l ≤ nz → findB T (blk i j l).name = .ok (blk i j l)
  adm : ∀ i j l, i ≤ nx → j ≤ ny → l ≤ nz → volOk (some mv) (blk i j l) = true
  memx : ∀ i j l, i < nx → j ≤ ny → l ≤ nz → cx i j l ∈ T.conns ∧ (cx i j l).dirn = 1 ∧
    joins (cx i j l) (blk i j l).name (blk (i + 1) j l).name = true
  memy : ∀ i j l, i ≤ nx → j < ny → l ≤ nz → cy i j l ∈ T.conns ∧ (cy i j l).dirn = 2 ∧
    joins (cy i j l) (blk i j l).name (blk i (j + 1) l).name = true
  memz : ∀ i j l, i ≤ nx → j ≤ ny → l < nz → cz i j l ∈ T.conns ∧ (cz i j l).dirn = 3 ∧
    joins (cz i j l) (blk i j l).name (blk i j (l + 1)).name = true
  closed : ∀ c ∈ T.conns, ∀ i j l, i ≤ nx → j ≤ ny → l ≤ nz → touches c (blk i j l).name = true →
    (∃ i' j' l', i' < nx ∧ j' ≤ ny ∧ l' ≤ nz ∧ c = cx i' j' l') ∨
    (∃ i' j' l', i' ≤ nx ∧ j' < ny ∧ l' ≤ nz ∧ c = cy i' j' l') ∨
    (∃ i' j' l', i' ≤ nx ∧ j' ≤ ny ∧ l' < nz ∧ c = cz i' j' l') ∨
    inadmissible T (some mv) (blk i j l).name c = true

namespace Lattice
variable {T : TGrid} {mv : Rat} {nx ny nz : Nat} {blk : Nat → Nat → Nat → GBlock}
  {cx cy cz : Nat → Nat → Nat → GConn}

/-- a block touched by a connection joining two blocks of the box is one of the two -/
theorem ends (L : Lattice T mv nx ny nz blk cx cy cz) {c : GConn} {i j l i1 j1 l1 i2 j2 l2 : Nat}
    (hi : i ≤ nx) (hj : j ≤ ny) (hl : l ≤ nz) (h1 : i1 ≤ nx ∧ j1 ≤ ny ∧ l1 ≤ nz) (h2 : i2 ≤ nx ∧ j2 ≤ ny ∧ l2 ≤ nz)
    (hjn : joins c (blk i1 j1 l1).name (blk i2 j2 l2).name = true) (ht : touches c (blk i j l).name = true) :
    (i = i1 ∧ j = j1 ∧ l = l1) ∨ (i = i2 ∧ j = j2 ∧ l = l2) := by
  rw [joins_iff] at hjn
  rw [touches_iff] at ht
  rcases hjn with ⟨e0, e1⟩ | ⟨e0, e1⟩ <;> rcases ht with t | t
  · left; exact L.inj i j l i1 j1 l1 hi hj hl h1.1 h1.2.1 h1.2.2 (by rw [← t, e0])
  · right; exact L.inj i j l i2 j2 l2 hi hj hl h2.1 h2.2.1 h2.2.2 (by rw [← t, e1])
  · right; exact L.inj i j l i2 j2 l2 hi hj hl h2.1 h2.2.1 h2.2.2 (by rw [← t, e0])
  · left; exact L.inj i j l i1 j1 l1 hi hj hl h1.1 h1.2.1 h1.2.2 (by rw [← t, e1])

/-- every line of the lattice along direction 1 is a row -/
theorem rowX (L : Lattice T mv nx ny nz blk cx cy cz) (j l : Nat) (hj : j ≤ ny) (hl : l ≤ nz) :
    Row T 1 (some mv) nx (fun i => blk i j l) (fun i => cx i j l) where
  inj := fun i i' hi hi' h => (L.inj i j l i' j l hi hj hl hi' hj hl h).1
  reg := fun i hi => L.reg i j l hi hj hl
  adm := fun i hi => L.adm i j l hi hj hl
  mem := fun i hi => (L.memx i j l hi hj hl).1
  dir := fun i hi => (L.memx i j l hi hj hl).2.1
  jn := fun i hi => (L.memx i j l hi hj hl).2.2
  closed := by
    intro c hc hk i hi ht
    rcases L.closed c hc i j l hi hj hl ht with ⟨i', j', l', a1, a2, a3, rfl⟩ | ⟨i', j', l', a1, a2, a3, rfl⟩ |
      ⟨i', j', l', a1, a2, a3, rfl⟩ | h
    · left
      have := L.ends hi hj hl ⟨by omega, a2, a3⟩ ⟨by omega, a2, a3⟩ (L.memx i' j' l' a1 a2 a3).2.2 ht
      have e : j' = j ∧ l' = l := by omega
      exact ⟨i', a1, by rw [e.1, e.2]⟩
    · have := (L.memy i' j' l' a1 a2 a3).2.1; omega
    · have := (L.memz i' j' l' a1 a2 a3).2.1; omega
    · right; exact h

theorem rowY (L : Lattice T mv nx ny nz blk cx cy cz) (i l : Nat) (hi : i ≤ nx) (hl : l ≤ nz) :
    Row T 2 (some mv) ny (fun j => blk i j l) (fun j => cy i j l) where
  inj := fun j j' hj hj' h => (L.inj i j l i j' l hi hj hl hi hj' hl h).2.1
  reg := fun j hj => L.reg i j l hi hj hl
  adm := fun j hj => L.adm i j l hi hj hl
  mem := fun j hj => (L.memy i j l hi hj hl).1
  dir := fun j hj => (L.memy i j l hi hj hl).2.1
  jn := fun j hj => (L.memy i j l hi hj hl).2.2
  closed := by
    intro c hc hk j hj ht
    rcases L.closed c hc i j l hi hj hl ht with ⟨i', j', l', a1, a2, a3, rfl⟩ | ⟨i', j', l', a1, a2, a3, rfl⟩ |
      ⟨i', j', l', a1, a2, a3, rfl⟩ | h
    · have := (L.memx i' j' l' a1 a2 a3).2.1; omega
    · left
      have := L.ends hi hj hl ⟨a1, by omega, a3⟩ ⟨a1, by omega, a3⟩ (L.memy i' j' l' a1 a2 a3).2.2 ht
      have e : i' = i ∧ l' = l := by omega
      exact ⟨j', a2, by rw [e.1, e.2]⟩
    · have := (L.memz i' j' l' a1 a2 a3).2.1; omega
    · right; exact h

/-- every column of the lattice is a row along direction 3 (top to bottom) -/
theorem rowZ (L : Lattice T mv nx ny nz blk cx cy cz) (i j : Nat) (hi : i ≤ nx) (hj : j ≤ ny) :
    Row T 3 (some mv) nz (fun l => blk i j l) (fun l => cz i j l) where
  inj := fun l l' hl hl' h => (L.inj i j l i j l' hi hj hl hi hj hl' h).2.2
  reg := fun l hl => L.reg i j l hi hj hl
  adm := fun l hl => L.adm i j l hi hj hl
  mem := fun l hl => (L.memz i j l hi hj hl).1
  dir := fun l hl => (L.memz i j l hi hj hl).2.1
  jn := fun l hl => (L.memz i j l hi hj hl).2.2
  closed := by
    intro c hc hk l hl ht
    rcases L.closed c hc i j l hi hj hl ht with ⟨i', j', l', a1, a2, a3, rfl⟩ | ⟨i', j', l', a1, a2, a3, rfl⟩ |
      ⟨i', j', l', a1, a2, a3, rfl⟩ | h
    · have := (L.memx i' j' l' a1 a2 a3).2.1; omega
    · have := (L.memy i' j' l' a1 a2 a3).2.1; omega
    · left
      have := L.ends hi hj hl ⟨a1, a2, by omega⟩ ⟨a1, a2, by omega⟩ (L.memz i' j' l' a1 a2 a3).2.2 ht
      have e : i' = i ∧ j' = j := by omega
      exact ⟨l', a3, by rw [e.1, e.2]⟩
    · right; exact h

end Lattice

theorem lineBlocks_getLast (b : Nat → GBlock) (cn : Nat → GConn) :
    ∀ m i, (lineBlocks (b i) (rowSteps b cn i m)).getLast? = some (b (i + m)) := by
  intro m
  induction m with
  | zero => intro i; rfl
  | succ m ih =>
    intro i
    have := ih (i + 1)
    simp only [lineBlocks, rowSteps, List.map_cons] at this ⊢
    rw [List.getLast?_cons_cons, this]
    congr 2; omega

theorem getLast_map_range' (f : Nat → Rat) (n : Nat) : ((List.range' 0 (n + 1)).map f).getLast? = some (f n) := by
  simp [List.getLast?_map, List.getLast?_range']

theorem head_map_range' (f : Nat → Rat) (n : Nat) : ((List.range' 0 (n + 1)).map f).head? = some (f 0) := by
  simp [List.range'_succ]

/-- the three axis walks of `block_spacings` on a lattice are lines (any sizes, also single-block
    directions) -/
theorem Lattice.axisLines {T : TGrid} {mv : Rat} {nx ny nz : Nat} {blk : Nat → Nat → Nat → GBlock}
    {cx cy cz : Nat → Nat → Nat → GConn} (L : Lattice T mv nx ny nz blk cx cy cz)
    (it jt : Nat) (hit : it ≤ nx) (hjt : jt ≤ ny) (htop : topmostBlock T (some mv) = .ok (blk it jt 0))
    (c0 c1 : P3) (hc0 : (blk it jt 0).centre = some c0) (hc1 : (blk it jt nz).centre = some c1) (hdown : c1.z ≤ c0.z) :
    AxisLines T (blk 0 0 nz) mv (rowSteps (fun i => blk i 0 nz) (fun i => cx i 0 nz) 0 nx)
      (rowSteps (fun j => blk 0 j nz) (fun j => cy 0 j nz) 0 ny)
      (rowSteps (fun l => blk it jt l) (fun l => cz it jt l) 0 nz) (blk it jt 0) := by
  have RX := L.rowX 0 nz (by omega) (by omega)
  have RY := L.rowY 0 nz (by omega) (by omega)
  have RZ := L.rowZ it jt hit hjt
  refine ⟨L.adm 0 0 nz (by omega) (by omega) (by omega), L.adm it jt 0 hit hjt (by omega),
    RX.isLine_row, RY.isLine_row, htop, RZ.isLine_row, ?_, ?_, ?_, ?_⟩
  · rw [rowSteps_length]; have := RX.length_le; omega
  · rw [rowSteps_length]; have := RY.length_le; omega
  · rw [rowSteps_length]; have := RZ.length_le; omega
  · have hl := lineBlocks_getLast (fun l => blk it jt l) (fun l => cz it jt l) nz 0
    simp only [Nat.zero_add] at hl
    unfold firstBelowLast
    rw [hl]
    simp only [lineBlocks, List.head?_cons, hc0, hc1]
    have : ¬ (c0.z < c1.z) := not_lt.2 hdown
    simp [this]

theorem rowSteps_ne_nil (b : Nat → GBlock) (cn : Nat → GConn) (n : Nat) (hn : 0 < n) : rowSteps b cn 0 n ≠ [] := by
  cases n with
  | zero => omega
  | succ n => simp [rowSteps]

/-- `block_spacings` on a three-dimensional lattice whose connection distances are half the block
    widths `wx i`, `wy j`, `wz l` returns exactly these widths, from the origin block `blk 0 0 nz`
    (first row, first column, bottom layer) and whichever top-layer block `blk it jt 0` is topmost. -/
theorem blockSpacings_lattice {T : TGrid} {mv : Rat} {nx ny nz : Nat} {blk : Nat → Nat → Nat → GBlock}
    {cx cy cz : Nat → Nat → Nat → GConn} (L : Lattice T mv nx ny nz blk cx cy cz)
    (hx : 0 < nx) (hy : 0 < ny) (hz : 0 < nz)
    (it jt : Nat) (hit : it ≤ nx) (hjt : jt ≤ ny) (htop : topmostBlock T (some mv) = .ok (blk it jt 0))
    (c0 c1 : P3) (hc0 : (blk it jt 0).centre = some c0) (hc1 : (blk it jt nz).centre = some c1) (hdown : c1.z ≤ c0.z)
    (wx wy wz : Nat → Rat)
    (hwx : ∀ i, i < nx → distAt (cx i 0 nz) (blk i 0 nz).name = wx i / 2 ∧
      distAt (cx i 0 nz) (blk (i + 1) 0 nz).name = wx (i + 1) / 2)
    (hwy : ∀ j, j < ny → distAt (cy 0 j nz) (blk 0 j nz).name = wy j / 2 ∧
      distAt (cy 0 j nz) (blk 0 (j + 1) nz).name = wy (j + 1) / 2)
    (hwz : ∀ l, l < nz → distAt (cz it jt l) (blk it jt l).name = wz l / 2 ∧
      distAt (cz it jt l) (blk it jt (l + 1)).name = wz (l + 1) / 2) :
    blockSpacings T (blk 0 0 nz) mv =
      .ok ((List.range' 0 (nx + 1)).map wx, (List.range' 0 (ny + 1)).map wy, (List.range' 0 (nz + 1)).map wz) := by
  have A := L.axisLines it jt hit hjt htop c0 c1 hc0 hc1 hdown
  rw [blockSpacings_3d T _ _ mv _ _ _ A (rowSteps_ne_nil _ _ nx hx) (rowSteps_ne_nil _ _ ny hy) (rowSteps_ne_nil _ _ nz hz)]
  have sx := rowSizes (fun i => blk i 0 nz) (fun i => cx i 0 nz) wx nx (fun i hi => (hwx i hi).1) (fun i hi => (hwx i hi).2)
    nx 0 (by omega) (by omega)
  have sy := rowSizes (fun j => blk 0 j nz) (fun j => cy 0 j nz) wy ny (fun j hj => (hwy j hj).1) (fun j hj => (hwy j hj).2)
    ny 0 (by omega) (by omega)
  have sz := rowSizes (fun l => blk it jt l) (fun l => cz it jt l) wz nz (fun l hl => (hwz l hl).1) (fun l hl => (hwz l hl).2)
    nz 0 (by omega) (by omega)
  simp only [prevOf] at sx sy sz
  rw [sx, sy, sz]

/-- two-dimensional lattice, a single block along direction 1 (`nx = 0`): the missing spacing is
    recovered from the origin block's volume `wx0 * wy 0 * wz nz` -/
theorem blockSpacings_lattice_2d_x {T : TGrid} {mv : Rat} {ny nz : Nat} {blk : Nat → Nat → Nat → GBlock}
    {cx cy cz : Nat → Nat → Nat → GConn} (L : Lattice T mv 0 ny nz blk cx cy cz)
    (hy : 0 < ny) (hz : 0 < nz)
    (jt : Nat) (hjt : jt ≤ ny) (htop : topmostBlock T (some mv) = .ok (blk 0 jt 0))
    (c0 c1 : P3) (hc0 : (blk 0 jt 0).centre = some c0) (hc1 : (blk 0 jt nz).centre = some c1) (hdown : c1.z ≤ c0.z)
    (wx0 : Rat) (wy wz : Nat → Rat)
    (hvol : (blk 0 0 nz).volume = wx0 * wy 0 * wz nz) (hy0 : wy 0 ≠ 0) (hz0 : wz nz ≠ 0)
    (hwy : ∀ j, j < ny → distAt (cy 0 j nz) (blk 0 j nz).name = wy j / 2 ∧
      distAt (cy 0 j nz) (blk 0 (j + 1) nz).name = wy (j + 1) / 2)
    (hwz : ∀ l, l < nz → distAt (cz 0 jt l) (blk 0 jt l).name = wz l / 2 ∧
      distAt (cz 0 jt l) (blk 0 jt (l + 1)).name = wz (l + 1) / 2) :
    blockSpacings T (blk 0 0 nz) mv =
      .ok ([wx0], (List.range' 0 (ny + 1)).map wy, (List.range' 0 (nz + 1)).map wz) := by
  have A := L.axisLines 0 jt (by omega) hjt htop c0 c1 hc0 hc1 hdown
  have sy := rowSizes (fun j => blk 0 j nz) (fun j => cy 0 j nz) wy ny (fun j hj => (hwy j hj).1) (fun j hj => (hwy j hj).2)
    ny 0 (by omega) (by omega)
  have sz := rowSizes (fun l => blk 0 jt l) (fun l => cz 0 jt l) wz nz (fun l hl => (hwz l hl).1) (fun l hl => (hwz l hl).2)
    nz 0 (by omega) (by omega)
  simp only [prevOf] at sy sz
  have A' : AxisLines T (blk 0 0 nz) mv [] (rowSteps (fun j => blk 0 j nz) (fun j => cy 0 j nz) 0 ny)
      (rowSteps (fun l => blk 0 jt l) (fun l => cz 0 jt l) 0 nz) (blk 0 jt 0) := A
  rw [blockSpacings_2d_x T _ _ mv _ _ A' (rowSteps_ne_nil _ _ ny hy) (rowSteps_ne_nil _ _ nz hz) wx0, sy, sz]
  rw [sy, sz]
  apply missing_spacing _ _ _ 2 3 (wy 0) (wz nz) wx0
  · simp only [ownSpacing, head_map_range']; rfl
  · simp only [ownSpacing, getLast_map_range']; rfl
  · exact hy0
  · exact hz0
  · rw [hvol]; ring

/-- ... and a single block along direction 2 (`ny = 0`) -/
theorem blockSpacings_lattice_2d_y {T : TGrid} {mv : Rat} {nx nz : Nat} {blk : Nat → Nat → Nat → GBlock}
    {cx cy cz : Nat → Nat → Nat → GConn} (L : Lattice T mv nx 0 nz blk cx cy cz)
    (hx : 0 < nx) (hz : 0 < nz)
    (it : Nat) (hit : it ≤ nx) (htop : topmostBlock T (some mv) = .ok (blk it 0 0))
    (c0 c1 : P3) (hc0 : (blk it 0 0).centre = some c0) (hc1 : (blk it 0 nz).centre = some c1) (hdown : c1.z ≤ c0.z)
    (wy0 : Rat) (wx wz : Nat → Rat)
    (hvol : (blk 0 0 nz).volume = wx 0 * wy0 * wz nz) (hx0 : wx 0 ≠ 0) (hz0 : wz nz ≠ 0)
    (hwx : ∀ i, i < nx → distAt (cx i 0 nz) (blk i 0 nz).name = wx i / 2 ∧
      distAt (cx i 0 nz) (blk (i + 1) 0 nz).name = wx (i + 1) / 2)
    (hwz : ∀ l, l < nz → distAt (cz it 0 l) (blk it 0 l).name = wz l / 2 ∧
      distAt (cz it 0 l) (blk it 0 (l + 1)).name = wz (l + 1) / 2) :
    blockSpacings T (blk 0 0 nz) mv =
      .ok ((List.range' 0 (nx + 1)).map wx, [wy0], (List.range' 0 (nz + 1)).map wz) := by
  have A := L.axisLines it 0 hit (by omega) htop c0 c1 hc0 hc1 hdown
  have sx := rowSizes (fun i => blk i 0 nz) (fun i => cx i 0 nz) wx nx (fun i hi => (hwx i hi).1) (fun i hi => (hwx i hi).2)
    nx 0 (by omega) (by omega)
  have sz := rowSizes (fun l => blk it 0 l) (fun l => cz it 0 l) wz nz (fun l hl => (hwz l hl).1) (fun l hl => (hwz l hl).2)
    nz 0 (by omega) (by omega)
  simp only [prevOf] at sx sz
  have A' : AxisLines T (blk 0 0 nz) mv (rowSteps (fun i => blk i 0 nz) (fun i => cx i 0 nz) 0 nx) []
      (rowSteps (fun l => blk it 0 l) (fun l => cz it 0 l) 0 nz) (blk it 0 0) := A
  rw [blockSpacings_2d_y T _ _ mv _ _ A' (rowSteps_ne_nil _ _ nx hx) (rowSteps_ne_nil _ _ nz hz) wy0, sx, sz]
  rw [sx, sz]
  apply missing_spacing _ _ _ 1 3 (wx 0) (wz nz) wy0
  · simp only [ownSpacing, head_map_range']; rfl
  · simp only [ownSpacing, getLast_map_range']; rfl
  · exact hx0
  · exact hz0
  · rw [hvol]; ring

theorem lineBlocks_row (b : Nat → GBlock) (cn : Nat → GConn) :
    ∀ m i, lineBlocks (b i) (rowSteps b cn i m) = (List.range' i (m + 1)).map b := by
  intro m
  induction m with
  | zero => intro i; rfl
  | succ m ih =>
    intro i
    have e : lineBlocks (b i) (rowSteps b cn i (m + 1)) = b i :: lineBlocks (b (i + 1)) (rowSteps b cn (i + 1) m) := rfl
    rw [e, ih (i + 1), List.range'_succ (n := m + 1), List.map_cons]

/-- the walk along a row returns the row's blocks and, when the own distances are half the widths,
    the widths -/
theorem track_row {T : TGrid} {k : Nat} {mv : Option Rat} {n : Nat} {b : Nat → GBlock} {cn : Nat → GConn}
    (R : Row T k mv n b cn) (hn : 0 < n) (hlen : n ≤ T.blocks.length) (w : Nat → Rat)
    (hw : ∀ i, i < n → distAt (cn i) (b i).name = w i / 2 ∧ distAt (cn i) (b (i + 1)).name = w (i + 1) / 2) :
    track T (b 0) k mv = .ok ((List.range' 0 (n + 1)).map b, (List.range' 0 (n + 1)).map w) := by
  rw [track_line T k mv (b 0) (rowSteps b cn 0 n) (by rw [rowSteps_length]; exact hlen) (R.adm 0 (by omega)) R.isLine_row,
    lineBlocks_row]
  have s := rowSizes b cn w n (fun i hi => (hw i hi).1) (fun i hi => (hw i hi).2) n 0 (by omega) (by omega)
  simp only [prevOf] at s
  rw [s]

end Proofs.RectGeo
