/-
  Rigid motions: `translate` and `rotate` preserve the geometry invariant.
  Algebra: the shoelace sum is invariant under translation and is multiplied by `cos² + sin²`
  under the map `x ↦ R (x - c) + c`.
-/
import PyTough.Proofs.GeoFrame
import PyTough.Proofs.GeoNames
namespace Proofs.Geo
open Model.Geo Model.Geo.Geo Py Proofs.Refine

/-! ### algebra -/

theorem sumRat_map_mul (k : Rat) (l : List Rat) : sumRat (l.map (k * ·)) = k * sumRat l := by
  induction l with
  | nil => simp [sumRat]
  | cons a t ih => simp only [List.map_cons, sumRat_cons, ih]; grind

theorem sumRat_map_sub {α} (f g : α → Rat) (l : List α) :
    sumRat (l.map fun a => f a - g a) = sumRat (l.map f) - sumRat (l.map g) := by
  induction l with
  | nil => simp [sumRat]; grind
  | cons a t ih => simp only [List.map_cons, sumRat_cons, ih]; grind

theorem shoelace2_map (f : Pt → Pt) (p : List Pt) :
    shoelace2 (p.map f) = sumRat ((cyc p).map fun e => Pt.cross (f e.1) (f e.2)) := by
  simp only [shoelace2, cyc_map, List.map_map]; rfl

/-- translation invariance of the shoelace sum (closed polygon) -/
theorem shoelace2_translate (p : List Pt) (d : Pt) : shoelace2 (p.map (Pt.add · d)) = shoelace2 p := by
  rw [shoelace2_map]
  have h : (fun e : Pt × Pt => Pt.cross (Pt.add e.1 d) (Pt.add e.2 d)) =
      fun e => Pt.cross e.1 e.2 - (Pt.cross e.2 d - Pt.cross e.1 d) := by
    funext e; simp only [Pt.cross, Pt.add]; grind
  rw [h, sumRat_map_sub, telescope_cyc (fun x => Pt.cross x d) p]
  simp only [shoelace2]; grind

theorem shoelace2_sub (p : List Pt) (d : Pt) : shoelace2 (p.map (Pt.sub · d)) = shoelace2 p := by
  have : (fun x : Pt => Pt.sub x d) = fun x => Pt.add x (-d.1, -d.2) := by
    funext x; simp only [Pt.sub, Pt.add]; grind
  rw [this, shoelace2_translate]

/-- `polygon_area` (which shifts by the first vertex) is half the plain shoelace sum -/
theorem polygonArea_eq (p : List Pt) : polygonArea p = (1/2) * shoelace2 p := by
  cases p with
  | nil => simp [polygonArea, shoelace2, cyc, sumRat]
  | cons a t => simp only [polygonArea]; rw [shoelace2_sub]

/-- rotation about `c` by the angle with cosine `cs` and sine `sn` scales the shoelace sum by `cs² + sn²` -/
theorem shoelace2_rot (cs sn : Rat) (c : Pt) (p : List Pt) :
    shoelace2 (p.map (rot cs sn c)) = (cs * cs + sn * sn) * shoelace2 p := by
  have h1 : p.map (rot cs sn c) = ((p.map (Pt.sub · c)).map fun d => (cs * d.1 + sn * d.2, -sn * d.1 + cs * d.2)).map (Pt.add · c) := by
    simp only [List.map_map]; apply List.map_congr_left; intro x _
    simp only [rot, Function.comp, Pt.add, Pt.sub]
  rw [h1, shoelace2_translate, shoelace2_map]
  have h2 : (fun e : Pt × Pt => Pt.cross (cs * e.1.1 + sn * e.1.2, -sn * e.1.1 + cs * e.1.2)
        (cs * e.2.1 + sn * e.2.2, -sn * e.2.1 + cs * e.2.2)) =
      fun e => (cs * cs + sn * sn) * Pt.cross e.1 e.2 := by
    funext e; simp only [Pt.cross]; grind
  rw [h2]
  have h3 : ((cyc (p.map (Pt.sub · c))).map fun e => (cs * cs + sn * sn) * Pt.cross e.1 e.2) =
      ((cyc (p.map (Pt.sub · c))).map fun e => Pt.cross e.1 e.2).map ((cs * cs + sn * sn) * ·) := by
    simp only [List.map_map]; rfl
  rw [h3, sumRat_map_mul]
  have := shoelace2_sub p c
  simp only [shoelace2] at this ⊢
  rw [this]

end Proofs.Geo

namespace Proofs.Geo
open Model.Geo Model.Geo.Geo Py Proofs.Refine

/-! ### folds of heap updates in normal form -/

theorem modify_oob {α} (a : Array α) (i : Nat) (f : α → α) (h : ¬ i < a.size) : a.modify i f = a := by
  apply Array.ext
  · simp
  · intro j h1 h2
    simp [Array.getElem_modify]
    omega

theorem foldl_modify_proj {α β} [Inhabited α] (f : α → α) (π : α → β) (hπ : ∀ x, π (f x) = π x) :
    ∀ (l : List Nat) (a : Array α) (j : Nat), π (l.foldl (fun a n => a.modify n f) a)[j]! = π a[j]!
  | [], _, _ => rfl
  | n :: t, a, j => by
    simp only [List.foldl_cons]
    rw [foldl_modify_proj f π hπ t (a.modify n f) j]
    by_cases hn : n < a.size
    · rw [getElem!_modify a n j f hn]
      split
      · exact hπ _
      · rfl
    · rw [modify_oob a n f hn]

theorem foldl_updNode (f : Node → Node) : ∀ (l : List Nat) (g : Geo),
    l.foldl (fun g n => g.updNode n f) g = { g with N := l.foldl (fun N n => N.modify n f) g.N }
  | [], _ => rfl
  | n :: t, g => by
    rw [List.foldl_cons, foldl_updNode f t (g.updNode n f)]
    rfl

theorem foldl_updCol (f : Column → Column) : ∀ (l : List Nat) (g : Geo),
    l.foldl (fun g n => g.updCol n f) g = { g with C := l.foldl (fun C n => C.modify n f) g.C }
  | [], _ => rfl
  | n :: t, g => by
    rw [List.foldl_cons, foldl_updCol f t (g.updCol n f)]
    rfl

theorem foldl_updLay (f : Layer → Layer) : ∀ (l : List Nat) (g : Geo),
    l.foldl (fun g n => g.updLay n f) g = { g with L := l.foldl (fun L n => L.modify n f) g.L }
  | [], _ => rfl
  | n :: t, g => by
    rw [List.foldl_cons, foldl_updLay f t (g.updLay n f)]
    rfl

/-- a geometry whose heaps have been rewritten entry by entry with functions that keep names and
    cross-references has the same structure -/
theorem sameStructure_of_maps (g : Geo) (fN : Node → Node) (fC : Column → Column) (fL : Layer → Layer)
    (W' : Array Well) (lN lC lL : List Nat)
    (hN1 : ∀ x, (fN x).name = x.name) (hN2 : ∀ x, (fN x).cols = x.cols)
    (hC1 : ∀ x, (fC x).name = x.name) (hC2 : ∀ x, (fC x).nodes = x.nodes)
    (hC3 : ∀ x, (fC x).cons = x.cons) (hC4 : ∀ x, (fC x).nbrs = x.nbrs)
    (hL : ∀ x, (fL x).name = x.name)
    (hW1 : W'.size = g.W.size) (hW2 : ∀ i : Nat, (W'[i]!).name = (g.W[i]!).name) :
    SameStructure g { g with N := lN.foldl (fun N n => N.modify n fN) g.N,
                             C := lC.foldl (fun C n => C.modify n fC) g.C,
                             L := lL.foldl (fun L n => L.modify n fL) g.L, W := W' } where
  convention := rfl
  atmosType := rfl
  nodelist := rfl
  nodeD := rfl
  columnlist := rfl
  columnD := rfl
  connlist := rfl
  connD := rfl
  layerlist := rfl
  layerD := rfl
  welllist := rfl
  wellD := rfl
  K := rfl
  Nsize := foldl_modify_size _ _ _
  Csize := foldl_modify_size _ _ _
  Lsize := foldl_modify_size _ _ _
  Wsize := hW1
  nodeName := fun i => foldl_modify_proj fN (·.name) hN1 lN g.N i
  nodeCols := fun i => foldl_modify_proj fN (·.cols) hN2 lN g.N i
  colName := fun i => foldl_modify_proj fC (·.name) hC1 lC g.C i
  colNodes := fun i => foldl_modify_proj fC (·.nodes) hC2 lC g.C i
  colCons := fun i => foldl_modify_proj fC (·.cons) hC3 lC g.C i
  colNbrs := fun i => foldl_modify_proj fC (·.nbrs) hC4 lC g.C i
  layName := fun i => foldl_modify_proj fL (·.name) hL lL g.L i
  wellName := hW2

end Proofs.Geo

namespace Proofs.Geo
open Model.Geo Model.Geo.Geo Py Proofs.Refine

/-! ### `translate` -/

def trN (dx dy : Rat) (nd : Node) : Node := { nd with pos := Pt.add nd.pos (dx, dy) }
def trC (dx dy dz : Rat) (cl : Column) : Column :=
  { cl with centre := Pt.add cl.centre (dx, dy), surface := cl.surface.map (· + dz) }
def trL (dz : Rat) (la : Layer) : Layer := { la with top := la.top + dz, bottom := la.bottom + dz, centre := la.centre + dz }
def trW (dx dy dz : Rat) (wl : Well) : Well := { wl with pos := wl.pos.map fun p => (p.1 + dx, p.2.1 + dy, p.2.2 + dz) }

theorem translate_eq (g : Geo) (dx dy dz : Rat) (w : Bool) :
    g.translate dx dy dz w =
      { g with N := g.nodelist.foldl (fun N n => N.modify n (trN dx dy)) g.N,
               C := g.columnlist.foldl (fun C n => C.modify n (trC dx dy dz)) g.C,
               L := g.layerlist.foldl (fun L n => L.modify n (trL dz)) g.L,
               W := if w then g.welllist.foldl (fun W n => W.modify n (trW dx dy dz)) g.W else g.W } := by
  unfold translate
  simp only [foldl_updNode, foldl_updCol, foldl_updLay]
  cases w <;> rfl

theorem translate_sameStructure (g : Geo) (dx dy dz : Rat) (w : Bool) :
    SameStructure g (g.translate dx dy dz w) := by
  rw [translate_eq]
  apply sameStructure_of_maps g (trN dx dy) (trC dx dy dz) (trL dz) _ g.nodelist g.columnlist g.layerlist
    <;> try (intro x; rfl)
  · cases w
    · rfl
    · exact foldl_modify_size _ _ _
  · intro i
    cases w
    · rfl
    · exact foldl_modify_proj (trW dx dy dz) (·.name) (fun _ => rfl) g.welllist g.W i

end Proofs.Geo

namespace Proofs.Geo
open Model.Geo Model.Geo.Geo Py Proofs.Refine

/-! ### what the Boolean clauses say -/

theorem regOK_nodup {κ} [DecidableEq κ] {l : List Nat} {d : Dict κ} {nm : Nat → κ} (h : regOK l d nm = true) :
    l.Nodup := by
  simp only [regOK, Bool.and_eq_true, decide_eq_true_eq] at h
  exact h.1.1.1.1

theorem nodelist_nodup {g : Geo} (h : g.registriesOK = true) : g.nodelist.Nodup := by
  simp only [registriesOK, Bool.and_eq_true] at h
  exact regOK_nodup h.1.1.1.1

theorem columnlist_nodup {g : Geo} (h : g.registriesOK = true) : g.columnlist.Nodup := by
  simp only [registriesOK, Bool.and_eq_true] at h
  exact regOK_nodup h.1.1.1.2

theorem layerlist_nodup {g : Geo} (h : g.registriesOK = true) : g.layerlist.Nodup := by
  simp only [registriesOK, Bool.and_eq_true] at h
  exact regOK_nodup h.1.1.2

theorem heapOK_nodes {g : Geo} (h : g.heapOK = true) : ∀ n ∈ g.nodelist, n < g.N.size := by
  simp only [heapOK, Bool.and_eq_true, List.all_eq_true, decide_eq_true_eq] at h
  exact h.1.1.1.1

theorem heapOK_cols {g : Geo} (h : g.heapOK = true) : ∀ n ∈ g.columnlist, n < g.C.size := by
  simp only [heapOK, Bool.and_eq_true, List.all_eq_true, decide_eq_true_eq] at h
  exact h.1.1.1.2

theorem heapOK_lays {g : Geo} (h : g.heapOK = true) : ∀ n ∈ g.layerlist, n < g.L.size := by
  simp only [heapOK, Bool.and_eq_true, List.all_eq_true, decide_eq_true_eq] at h
  exact h.1.2

theorem nodeColsOK_nodes {g : Geo} (h : g.nodeColsOK = true) :
    ∀ c ∈ g.columnlist, ∀ n ∈ (g.col c).nodes, n ∈ g.nodelist := by
  simp only [nodeColsOK, Bool.and_eq_true, List.all_eq_true, List.contains_eq_mem, decide_eq_true_eq] at h
  exact h.1

/-! ### positions after a fold of position updates -/

theorem polygon_after (g : Geo) (f : Node → Node) (φ : Pt → Pt) (hf : ∀ x, (f x).pos = φ x.pos)
    (hn : g.nodelist.Nodup) (hb : ∀ n ∈ g.nodelist, n < g.N.size) (N' C' L' W')
    (hN : N' = g.nodelist.foldl (fun N n => N.modify n f) g.N)
    (nodes : List Nat) (hin : ∀ n ∈ nodes, n ∈ g.nodelist) :
    ({ g with N := N', C := C', L := L', W := W' } : Geo).polygon nodes = (g.polygon nodes).map φ := by
  subst hN
  simp only [Geo.polygon, List.map_map]
  apply List.map_congr_left
  intro n hnn
  simp only [Function.comp, Geo.node]
  rw [foldl_modify_get f g.nodelist g.N hn hb n, if_pos (hin n hnn), hf]

theorem translate_orientOK (g : Geo) (dx dy dz : Rat) (w : Bool)
    (hh : g.heapOK = true) (hr : g.registriesOK = true) (hc : g.nodeColsOK = true) (ho : g.orientOK = true) :
    (g.translate dx dy dz w).orientOK = true := by
  have hs := translate_sameStructure g dx dy dz w
  simp only [orientOK, List.all_eq_true, Bool.and_eq_true, decide_eq_true_eq] at ho ⊢
  rw [hs.columnlist]
  intro c hcm
  have hnodes := hs.colNodes c
  have harea : ((g.translate dx dy dz w).col c).area = (g.col c).area := by
    rw [translate_eq]
    exact foldl_modify_proj (trC dx dy dz) (·.area) (fun _ => rfl) g.columnlist g.C c
  rw [hnodes, harea]
  refine ⟨?_, (ho c hcm).2⟩
  rw [translate_eq, polygon_after g (trN dx dy) (Pt.add · (dx, dy)) (fun _ => rfl) (nodelist_nodup hr)
    (heapOK_nodes hh) _ _ _ _ rfl _ (nodeColsOK_nodes hc c hcm), shoelace2_translate]
  exact (ho c hcm).1

end Proofs.Geo

namespace Proofs.Geo
open Model.Geo Model.Geo.Geo Py Proofs.Refine

theorem translate_col (g : Geo) (dx dy dz : Rat) (w : Bool) (hh : g.heapOK = true) (hr : g.registriesOK = true)
    (c : Nat) (hc : c ∈ g.columnlist) : (g.translate dx dy dz w).col c = trC dx dy dz (g.col c) := by
  rw [translate_eq]
  simp only [Geo.col]
  rw [foldl_modify_get (trC dx dy dz) g.columnlist g.C (columnlist_nodup hr) (heapOK_cols hh) c, if_pos hc]

theorem translate_lay (g : Geo) (dx dy dz : Rat) (w : Bool) (hh : g.heapOK = true) (hr : g.registriesOK = true)
    (l : Nat) (hl : l ∈ g.layerlist) : (g.translate dx dy dz w).lay l = trL dz (g.lay l) := by
  rw [translate_eq]
  simp only [Geo.lay]
  rw [foldl_modify_get (trL dz) g.layerlist g.L (layerlist_nodup hr) (heapOK_lays hh) l, if_pos hl]

theorem translate_layersOK (g : Geo) (dx dy dz : Rat) (w : Bool)
    (hh : g.heapOK = true) (hr : g.registriesOK = true) (hl : g.layersOK = true) :
    (g.translate dx dy dz w).layersOK = true := by
  have hs := translate_sameStructure g dx dy dz w
  simp only [layersOK, List.all_eq_true, decide_eq_true_eq] at hl ⊢
  rw [hs.columnlist]
  intro c hcm
  have hcol := translate_col g dx dy dz w hh hr c hcm
  have := hl c hcm
  simp only [expectedNumLayers, hcol, hs.layerlist] at this ⊢
  simp only [trC]
  cases hsurf : (g.col c).surface with
  | none => simp only [hsurf, Option.map_none] at this ⊢; exact this
  | some s =>
    simp only [hsurf, Option.map_some] at this ⊢
    rw [this]
    congr 2
    apply List.filter_congr
    intro l hlm
    have hlm' : l ∈ g.layerlist := List.mem_of_mem_drop hlm
    rw [translate_lay g dx dy dz w hh hr l hlm']
    simp only [trL]
    have : ((g.lay l).bottom + dz < s + dz) ↔ ((g.lay l).bottom < s) := by
      constructor <;> intro h <;> grind
    simp [this]

end Proofs.Geo

namespace Proofs.Geo
open Model.Geo Model.Geo.Geo Py Proofs.Refine

/-! ### the name lists depend only on names, list order and the surface / layer comparisons -/

theorem mapM_congr' {α β} (f g : α → Except Exc β) : ∀ (l : List α), (∀ a ∈ l, f a = g a) → l.mapM f = l.mapM g
  | [], _ => rfl
  | a :: t, h => by
    simp only [List.mapM_cons]
    rw [h a (List.mem_cons_self), mapM_congr' f g t (fun x hx => h x (List.mem_cons_of_mem _ hx))]

theorem filterAuxM_congr' {α} (f g : α → Except Exc Bool) : ∀ (l acc : List α), (∀ a ∈ l, f a = g a) →
    l.filterAuxM f acc = l.filterAuxM g acc
  | [], _, _ => rfl
  | a :: t, acc, h => by
    simp only [List.filterAuxM]
    rw [h a (List.mem_cons_self)]
    congr 1
    funext b
    exact filterAuxM_congr' f g t _ (fun x hx => h x (List.mem_cons_of_mem _ hx))

theorem filterM_congr' {α} (f g : α → Except Exc Bool) (l : List α) (h : ∀ a ∈ l, f a = g a) :
    l.filterM f = l.filterM g := by
  simp only [List.filterM, filterAuxM_congr' f g l [] h]

/-- the comparisons the name lists are built from: `col.surface > lay.bottom` and `col.surface <= lay.top` -/
def SameComparisons (g g' : Geo) : Prop :=
  ∀ c ∈ g.columnlist, ∀ l ∈ g.layerlist,
    surfaceAbove (g'.col c) (g'.lay l) = surfaceAbove (g.col c) (g.lay l) ∧
    surfaceNotAbove (g'.col c) (g'.lay l).top = surfaceNotAbove (g.col c) (g.lay l).top

variable {g g' : Geo}

theorem layerCols_congr (h : SameStructure g g') (hc : SameComparisons g g') (l : Nat) (hl : l ∈ g.layerlist) :
    g'.layerCols (g'.lay l) = g.layerCols (g.lay l) := by
  simp only [layerCols, h.columnlist]
  exact filterM_congr' _ _ _ (fun c hcm => (hc c hcm l hl).1)

theorem filterAuxM_mem {α} (f : α → Except Exc Bool) : ∀ (l acc r : List α), l.filterAuxM f acc = .ok r →
    ∀ x ∈ r, x ∈ l ∨ x ∈ acc
  | [], acc, r, h, x, hx => by
    simp only [List.filterAuxM, pure, Except.pure, Except.ok.injEq] at h
    subst h; exact Or.inr hx
  | a :: t, acc, r, h, x, hx => by
    simp only [List.filterAuxM] at h
    obtain ⟨b, _, h2⟩ := bind_ok h
    rcases filterAuxM_mem f t _ r h2 x hx with h3 | h3
    · exact Or.inl (List.mem_cons_of_mem _ h3)
    · cases b
      · exact Or.inr h3
      · simp only [cond_true, List.mem_cons] at h3
        rcases h3 with rfl | h3
        · exact Or.inl List.mem_cons_self
        · exact Or.inr h3

theorem layerCols_mem {g : Geo} {l : Layer} {cols : List Nat} (h : g.layerCols l = .ok cols) :
    ∀ c ∈ cols, c ∈ g.columnlist := by
  simp only [layerCols, List.filterM] at h
  obtain ⟨r, hr, h2⟩ := bind_ok h
  simp only [pure, Except.pure, Except.ok.injEq] at h2
  subst h2
  intro c hc
  rcases filterAuxM_mem _ _ _ _ hr c (List.mem_reverse.mp hc) with h3 | h3
  · exact h3
  · cases h3

theorem computeBlockNames_congr (h : SameStructure g g') (hc : SameComparisons g g') :
    g'.computeBlockNames = g.computeBlockNames := by
  simp only [computeBlockNames, h.layerlist]
  cases hll : g.layerlist with
  | nil => rfl
  | cons l0 below =>
    simp only [Geo.blockName, h.layName, h.colName, h.convention, h.atmosType, h.columnlist]
    congr 1
    funext atm
    have : (below.mapM fun li => do
          let cols ← g'.layerCols (g'.lay li)
          cols.mapM fun c => Model.Names.blockName g.convention (g.lay li).name (g.col c).name) =
        (below.mapM fun li => do
          let cols ← g.layerCols (g.lay li)
          cols.mapM fun c => Model.Names.blockName g.convention (g.lay li).name (g.col c).name) := by
      apply mapM_congr'
      intro li hli
      rw [layerCols_congr h hc li (by rw [hll]; exact List.mem_cons_of_mem _ hli)]
    rw [this]

end Proofs.Geo

namespace Proofs.Geo
open Model.Geo Model.Geo.Geo Py Proofs.Refine
variable {g g' : Geo}

theorem bind_congr_ok {α β} (x : Except Exc α) (f f' : α → Except Exc β) (h : ∀ a, x = .ok a → f a = f' a) :
    (x >>= f) = (x >>= f') := by
  cases x with
  | error e => rfl
  | ok a => exact h a rfl

theorem computeConnNames_congr (h : SameStructure g g') (hc : SameComparisons g g')
    (hb : g'.blockNames.head? = g.blockNames.head?) :
    g'.computeConnNames = g.computeConnNames := by
  simp only [computeConnNames, h.layerlist]
  cases hll : g.layerlist with
  | nil => rfl
  | cons l0 below =>
    simp only []
    congr 1
    apply mapM_congr'
    intro ilay hil
    have hlt : ilay < below.length := List.mem_range.mp hil
    have hli : below.getD ilay 0 ∈ g.layerlist := by
      rw [hll]
      have : below.getD ilay 0 = below[ilay] := by simp [List.getD, hlt]
      rw [this]
      exact List.mem_cons_of_mem _ (List.getElem_mem hlt)
    rw [layerCols_congr h hc _ hli]
    apply bind_congr_ok
    intro layercols hlc
    have hmem := layerCols_mem hlc
    simp only [Geo.blockName, h.layName, h.colName, h.convention, h.atmosType, h.connlist, h.con, hb]
    apply congrArg (fun x => x >>= _)
    apply mapM_congr'
    intro c hcm
    rw [(hc c (hmem c hcm) _ hli).2]

end Proofs.Geo

namespace Proofs.Geo
open Model.Geo Model.Geo.Geo Py Proofs.Refine

theorem translate_sameComparisons (g : Geo) (dx dy dz : Rat) (w : Bool) (hh : g.heapOK = true)
    (hr : g.registriesOK = true) : SameComparisons g (g.translate dx dy dz w) := by
  intro c hc l hl
  rw [translate_col g dx dy dz w hh hr c hc, translate_lay g dx dy dz w hh hr l hl]
  simp only [surfaceAbove, surfaceNotAbove, trC, trL]
  cases (g.col c).surface with
  | none => simp
  | some s =>
    simp only [Option.map_some]
    have h1 : (s + dz > (g.lay l).bottom + dz) ↔ (s > (g.lay l).bottom) := by
      constructor <;> intro h <;> grind
    have h2 : (s + dz ≤ (g.lay l).top + dz) ↔ (s ≤ (g.lay l).top) := by
      constructor <;> intro h <;> grind
    simp [h1, h2]

theorem namesFresh_congr {g g' : Geo} (h : SameStructure g g') (hc : SameComparisons g g')
    (hb : g'.blockNames = g.blockNames) (hk : g'.connNames = g.connNames) (hf : g.namesFresh = true) :
    g'.namesFresh = true := by
  simp only [namesFresh, blocksFresh, connsFresh, Bool.and_eq_true, beq_iff_eq] at hf ⊢
  rw [computeBlockNames_congr h hc, computeConnNames_congr h hc (by rw [hb]), hb, hk]
  exact hf

theorem geoInv0_congr {g g' : Geo} (h : SameStructure g g') (ho : g'.orientOK = true) (hf : g.geoInv0 = true) :
    g'.geoInv0 = true := by
  simp only [geoInv0, Bool.and_eq_true] at hf ⊢
  rw [h.heapOK, h.registriesOK, h.nodeColsOK, h.colConsOK, h.nbrsOK, h.conNodesOK]
  exact ⟨hf.1, ho⟩

/-- **translate** preserves the whole invariant -/
theorem translate_geoInv (g : Geo) (dx dy dz : Rat) (w : Bool) (h : g.geoInv = true) :
    (g.translate dx dy dz w).geoInv = true := by
  simp only [geoInv, Bool.and_eq_true] at h ⊢
  obtain ⟨⟨h0, hl⟩, hn⟩ := h
  have h0' := h0
  simp only [geoInv0, Bool.and_eq_true] at h0'
  obtain ⟨⟨⟨⟨⟨⟨hh, hr⟩, hnc⟩, _⟩, _⟩, _⟩, ho⟩ := h0'
  have hs := translate_sameStructure g dx dy dz w
  refine ⟨⟨geoInv0_congr hs (translate_orientOK g dx dy dz w hh hr hnc ho) h0,
    translate_layersOK g dx dy dz w hh hr hl⟩, ?_⟩
  apply namesFresh_congr hs (translate_sameComparisons g dx dy dz w hh hr) _ _ hn
  · rw [translate_eq]
  · rw [translate_eq]

theorem translate_meshValid (g : Geo) (dx dy dz : Rat) (w : Bool) :
    (g.translate dx dy dz w).meshValid = g.meshValid :=
  (translate_sameStructure g dx dy dz w).meshValid

end Proofs.Geo

namespace Proofs.Geo
open Model.Geo Model.Geo.Geo Py Proofs.Refine

/-! ### `rotate` -/

def roN (cs sn : Rat) (c : Pt) (nd : Node) : Node := { nd with pos := rot cs sn c nd.pos }
def roC (cs sn : Rat) (c : Pt) (cl : Column) : Column := { cl with centre := rot cs sn c cl.centre }
def roW (cs sn : Rat) (c : Pt) (wl : Well) : Well :=
  { wl with pos := wl.pos.map fun p => let q := rot cs sn c (p.1, p.2.1); (q.1, q.2, p.2.2) }

theorem rotateAbout_eq (g : Geo) (cs sn : Rat) (c : Pt) (w : Bool) :
    g.rotateAbout cs sn c w =
      { g with N := g.nodelist.foldl (fun N n => N.modify n (roN cs sn c)) g.N,
               C := g.columnlist.foldl (fun C n => C.modify n (roC cs sn c)) g.C,
               L := ([] : List Nat).foldl (fun L n => L.modify n id) g.L,
               W := if w then g.welllist.foldl (fun W n => W.modify n (roW cs sn c)) g.W else g.W } := by
  unfold rotateAbout
  simp only [foldl_updNode, foldl_updCol]
  cases w <;> rfl

theorem rotateAbout_geoInv (g : Geo) (cs sn : Rat) (c : Pt) (w : Bool)
    (hunit : cs * cs + sn * sn = 1) (h : g.geoInv = true) :
    (g.rotateAbout cs sn c w).geoInv = true := by
  have he := rotateAbout_eq g cs sn c w
  generalize g.rotateAbout cs sn c w = g' at he ⊢
  have hs : SameStructure g g' := by
    rw [he]
    apply sameStructure_of_maps g (roN cs sn c) (roC cs sn c) id _ g.nodelist g.columnlist []
      <;> try (intro x; rfl)
    · cases w
      · rfl
      · exact foldl_modify_size _ _ _
    · intro i
      cases w
      · rfl
      · exact foldl_modify_proj (roW cs sn c) (·.name) (fun _ => rfl) g.welllist g.W i
  simp only [geoInv, Bool.and_eq_true] at h ⊢
  obtain ⟨⟨h0, hl⟩, hn⟩ := h
  have h0' := h0
  simp only [geoInv0, Bool.and_eq_true] at h0'
  obtain ⟨⟨⟨⟨⟨⟨hh, hr⟩, hnc⟩, _⟩, _⟩, _⟩, ho⟩ := h0'
  have hsurf : ∀ i, (g'.col i).surface = (g.col i).surface := by
    intro i; rw [he]; exact foldl_modify_proj (roC cs sn c) (·.surface) (fun _ => rfl) g.columnlist g.C i
  have hnl : ∀ i, (g'.col i).numLayers = (g.col i).numLayers := by
    intro i; rw [he]; exact foldl_modify_proj (roC cs sn c) (·.numLayers) (fun _ => rfl) g.columnlist g.C i
  have harea : ∀ i, (g'.col i).area = (g.col i).area := by
    intro i; rw [he]; exact foldl_modify_proj (roC cs sn c) (·.area) (fun _ => rfl) g.columnlist g.C i
  have hlay : ∀ i, g'.lay i = g.lay i := by intro i; rw [he]; rfl
  -- orientation
  have ho' : g'.orientOK = true := by
    simp only [orientOK, List.all_eq_true, Bool.and_eq_true, decide_eq_true_eq] at ho ⊢
    rw [hs.columnlist]
    intro k hk
    rw [hs.colNodes k, harea k]
    refine ⟨?_, (ho k hk).2⟩
    rw [he, polygon_after g (roN cs sn c) (rot cs sn c) (fun _ => rfl) (nodelist_nodup hr) (heapOK_nodes hh)
      _ _ _ _ rfl _ (nodeColsOK_nodes hnc k hk), shoelace2_rot, hunit]
    have := (ho k hk).1
    grind
  refine ⟨⟨geoInv0_congr hs ho' h0, ?_⟩, ?_⟩
  · simp only [layersOK, List.all_eq_true, decide_eq_true_eq] at hl ⊢
    rw [hs.columnlist]
    intro k hk
    have := hl k hk
    simp only [expectedNumLayers, hs.layerlist, hsurf, hnl, hlay] at this ⊢
    exact this
  · apply namesFresh_congr hs _ (by rw [he]) (by rw [he]) hn
    intro k _ l _
    simp only [surfaceAbove, surfaceNotAbove, hsurf, hlay, and_self]

theorem rotate_geoInv (g g' : Geo) (cs sn : Rat) (centre : Option Pt) (w : Bool)
    (hrot : g.rotate cs sn centre w = .ok g') (hunit : cs * cs + sn * sn = 1) (h : g.geoInv = true) :
    g'.geoInv = true := by
  unfold rotate at hrot
  cases centre with
  | some c =>
    simp only [Except.ok.injEq] at hrot
    subst hrot
    exact rotateAbout_geoInv g cs sn c w hunit h
  | none =>
    simp only at hrot
    cases hg : g.gridCentre with
    | none => rw [hg] at hrot; cases hrot
    | some c =>
      rw [hg] at hrot
      simp only [Except.ok.injEq] at hrot
      subst hrot
      exact rotateAbout_geoInv g cs sn c w hunit h

end Proofs.Geo
