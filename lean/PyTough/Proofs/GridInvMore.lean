/-
  C08, round 3: `reorder` keeps the invariant also when it raises (unknown block name: nothing
  was touched; unknown connection name: some connections reversed, lists untouched); a block's
  connection record characterised by names through the connection dictionary.
-/
import PyTough.Proofs.GridInvStep
namespace Proofs.Grid
open Py Model Model.Grid Model.Grid.World

/-- the loop over `connection_names` cannot finish when some pair designates no connection (in
    either orientation): it raises, and the state it leaves is consistent -/
theorem reorderConnections_unresolved {w : World} (hI : Grid.Inv w) (cs : List CName) (acc : List Nat)
    (h : ∃ k ∈ cs, resolveCon w k = none) :
    match reorderConnections w cs acc with
    | .ok _ => False
    | .error (e, w') => Grid.Inv w' ∧ w'.connectionlist = w.connectionlist ∧ w'.blocklist = w.blocklist ∧
        e = .generic := by
  induction cs generalizing w acc with
  | nil => obtain ⟨k, hk, _⟩ := h; cases hk
  | cons names r ih =>
    cases hd : dget w.connection names with
    | some c =>
      have hstep : reorderConnections w (names :: r) acc = reorderConnections w r (acc ++ [c]) := by
        simp only [reorderConnections, hd]
      rw [hstep]
      apply ih hI
      obtain ⟨k, hk, hn⟩ := h
      rcases List.mem_cons.mp hk with rfl | hk
      · simp [resolveCon, hd] at hn
      · exact ⟨k, hk, hn⟩
    | none =>
      cases hd2 : dget w.connection (names.2, names.1) with
      | none =>
        have hstep : reorderConnections w (names :: r) acc = .error (.generic, w) := by
          simp only [reorderConnections, hd, hd2]
        rw [hstep]; exact ⟨hI, rfl, rfl, rfl⟩
      | some c =>
        have hc := hI.cd_sound _ _ hd2
        have hstep : reorderConnections w (names :: r) acc =
            reorderConnections (flipWorld w c (names.2, names.1) names (w.cn c).b0 (w.cn c).b1) r (acc ++ [c]) := by
          simp only [reorderConnections, hd, hd2, flipConnection_ok hI hd2]
        rw [hstep]
        have hI1 := flipWorld_inv hI hc.1 hc.2 hd
        have hres := resolveCon_flipWorld (b0 := (w.cn c).b0) (b1 := (w.cn c).b1) hd2 hd
        have h' : ∃ k ∈ r, resolveCon (flipWorld w c (names.2, names.1) names (w.cn c).b0 (w.cn c).b1) k = none := by
          obtain ⟨k, hk, hn⟩ := h
          rcases List.mem_cons.mp hk with rfl | hk
          · simp [resolveCon, hd, hd2] at hn
          · exact ⟨k, hk, by rw [hres]; exact hn⟩
        have := ih hI1 (acc ++ [c]) h'
        split at this
        · exact this
        · exact ⟨this.1, this.2.1, this.2.2.1, this.2.2.2⟩

/-- the connection half of `reorder`, total in the names that designate nothing -/
theorem reorder_connections_inv' {w1 : World} (hI1 : Grid.Inv w1) (cs : List CName)
    (hc : cs.isEmpty = true ∨ (∃ k ∈ cs, resolveCon w1 k = none) ∨
          (cs.map (resolveCon w1)).Perm (w1.connectionlist.map some)) :
    Grid.Inv (worldOf (if cs.isEmpty = true then (Except.ok w1 : R) else
      match reorderConnections w1 cs [] with
      | .error e => .error e
      | .ok (w2, acc) => .ok { w2 with connectionlist := acc })) := by
  rcases hc with hc | hc | hc
  · exact reorder_connections_inv hI1 cs (Or.inl hc)
  · by_cases he : cs.isEmpty = true
    · simp only [he, if_true, worldOf_ok]; exact hI1
    · simp only [he]
      have := reorderConnections_unresolved hI1 cs [] hc
      split at this
      · exact this.elim
      · rename_i e w2 heq
        simp only [heq]; exact this.1
  · exact reorder_connections_inv hI1 cs (Or.inr hc)

/-- `reorder(block_names, connection_names)` for ANY arguments in which an unknown name occurs, or
    which are permutations: an unknown block name raises KeyError before anything is touched; an
    unknown connection pair raises after some connections were reversed — each reversal is itself
    consistent and the lists are not reassigned. -/
theorem reorder_inv_total {w : World} (hI : Grid.Inv w) (bs : List Name) (cs : List CName)
    (hb : bs.isEmpty = true ∨ lookupAll w.block bs = none ∨ (bs.map (dget w.block)).Perm (w.blocklist.map some))
    (hc : cs.isEmpty = true ∨ (∃ k ∈ cs, resolveCon w k = none) ∨
          (cs.map (resolveCon w)).Perm (w.connectionlist.map some)) :
    Grid.Inv (worldOf (reorder w bs cs)) := by
  unfold reorder
  by_cases he : bs.isEmpty = true
  · simp only [he, if_true]
    exact reorder_connections_inv' hI cs hc
  · simp only [he]
    cases hl : lookupAll w.block bs with
    | none => exact hI
    | some l =>
      simp only []
      rcases hb with hb | hb | hb
      · exact absurd hb he
      · rw [hl] at hb; cases hb
      · have := lookupAll_some hl
        rw [this] at hb
        obtain ⟨hn, hm⟩ := perm_some_facts hb hI.bl_nodup
        exact reorder_connections_inv' (inv_of_blocklist_perm hI hn hm) cs hc

/-- when a block name is unknown, `reorder` raises KeyError and changes nothing at all -/
theorem reorder_unknown_block {w : World} (bs : List Name) (cs : List CName)
    (he : bs.isEmpty = false) (hl : lookupAll w.block bs = none) :
    reorder w bs cs = .error (.keyError, w) := by
  simp only [reorder, he, hl]
  rfl

theorem lookupAll_none {κ} [DecidableEq κ] {d : Dict κ Nat} {ks : List κ}
    (h : lookupAll d ks = none) : none ∈ ks.map (dget d) := by
  induction ks with
  | nil => simp [lookupAll] at h
  | cons k r ih =>
    unfold lookupAll at h
    cases hd : dget d k with
    | none => simp [hd]
    | some v =>
      simp only [hd, Option.map_eq_none_iff] at h
      simp [ih h]

/-- an unknown connection pair: `reorder` raises, the connection list is not reassigned, the
    state is consistent -/
theorem reorder_unresolved_raises {w : World} (hI : Grid.Inv w) (bs : List Name) (cs : List CName)
    (hb : bs.isEmpty = true ∨ (bs.map (dget w.block)).Perm (w.blocklist.map some))
    (hc : ∃ k ∈ cs, resolveCon w k = none) :
    ∃ w', reorder w bs cs = .error (.generic, w') ∧ Grid.Inv w' ∧ w'.connectionlist = w.connectionlist ∧
      (bs.isEmpty = true → w'.blocklist = w.blocklist) := by
  have hcs : cs.isEmpty = false := by
    obtain ⟨k, hk, _⟩ := hc
    cases cs with
    | nil => cases hk
    | cons _ _ => rfl
  have key : ∀ w1 : World, Grid.Inv w1 → w1.connection = w.connection → w1.connectionlist = w.connectionlist →
      ∃ w', (match reorderConnections w1 cs [] with
              | .error e => (Except.error e : R)
              | .ok (w2, acc) => .ok { w2 with connectionlist := acc }) = .error (.generic, w') ∧ Grid.Inv w' ∧
            w'.connectionlist = w.connectionlist ∧ w'.blocklist = w1.blocklist := by
    intro w1 hI1 e1 e2
    have hc1 : ∃ k ∈ cs, resolveCon w1 k = none := by
      obtain ⟨k, hk, hn⟩ := hc
      exact ⟨k, hk, by simp only [resolveCon, e1] at hn ⊢; exact hn⟩
    have := reorderConnections_unresolved hI1 cs [] hc1
    split at this
    · exact this.elim
    · rename_i e w2 heq
      obtain ⟨i1, i2, i3, i4⟩ := this
      subst i4
      exact ⟨w2, by simp only [heq], i1, i2.trans e2, i3⟩
  unfold reorder
  by_cases he : bs.isEmpty = true
  · simp only [he, if_true, hcs]
    obtain ⟨w', h1, h2, h3, h4⟩ := key w hI rfl rfl
    exact ⟨w', h1, h2, h3, fun _ => h4⟩
  · rcases hb with hb | hb
    · exact absurd hb he
    simp only [he]
    cases hl : lookupAll w.block bs with
    | none =>
      have h1 := lookupAll_none hl
      have h2 := (hb.mem_iff (a := none)).mp h1
      simp at h2
    | some l =>
      simp only [hcs]
      have hs := lookupAll_some hl
      rw [hs] at hb
      obtain ⟨hn, hm⟩ := perm_some_facts hb hI.bl_nodup
      obtain ⟨w', h1, h2, h3, _⟩ := key { w with blocklist := l } (inv_of_blocklist_perm hI hn hm) rfl rfl
      exact ⟨w', h1, h2, h3, fun h => Bool.noConfusion h⟩

/-- a block's `connection_name` is the set of keys of `grid.connection` in which its name occurs -/
theorem conn_iff_by_name {w : World} (hI : Grid.Inv w) {b : Nat} (hb : b ∈ w.blocklist) (k : CName) :
    k ∈ (w.bk b).conn ↔ (∃ c, dget w.connection k = some c) ∧ (k.1 = w.bname b ∨ k.2 = w.bname b) := by
  rw [hI.conn_iff b hb k]
  constructor
  · rintro ⟨c, hc, rfl, hm⟩
    refine ⟨⟨c, hI.cd_complete c hc⟩, ?_⟩
    rcases hm with rfl | rfl
    · exact Or.inl rfl
    · exact Or.inr rfl
  · rintro ⟨⟨c, hd⟩, hm⟩
    obtain ⟨hc, rfl⟩ := hI.cd_sound k c hd
    have ends := hI.c_ends c hc
    refine ⟨c, hc, rfl, ?_⟩
    rcases hm with hm | hm
    · exact Or.inl (hI.blockInv.name_inj ends.1 hb hm)
    · exact Or.inr (hI.blockInv.name_inj ends.2.1 hb hm)

end Proofs.Grid
