/-
  C19: mapping a geometry onto itself is the identity; the two failing atmosphere
  combinations raise KeyError.
-/
import PyTough.Proofs.MappingMain
namespace Proofs.Mapping
open Py Model.Mapping

/-! ### distance facts -/

theorem sqDist_self (a : Rat × Rat) : sqDist a a = 0 := by
  unfold sqDist; grind

theorem mul_self_nonneg' (x : Rat) : 0 ≤ x * x := by
  rcases Rat.le_total (a := 0) (b := x) with h | h
  · exact Rat.mul_nonneg h h
  · have : 0 ≤ -x := by grind
    have := Rat.mul_nonneg this this
    grind

theorem sqDist_le_zero (a b : Rat × Rat) (h : sqDist a b ≤ 0) : a = b := by
  unfold sqDist at h
  have h1 := mul_self_nonneg' (a.1 - b.1)
  have h2 := mul_self_nonneg' (a.2 - b.2)
  have e1 : (a.1 - b.1) * (a.1 - b.1) = 0 := by grind
  have e2 : (a.2 - b.2) * (a.2 - b.2) = 0 := by grind
  have f1 : a.1 - b.1 = 0 := by
    rcases Rat.mul_eq_zero.mp e1 with h | h <;> exact h
  have f2 : a.2 - b.2 = 0 := by
    rcases Rat.mul_eq_zero.mp e2 with h | h <;> exact h
  ext <;> grind

theorem absQ_self (x : Rat) : absQ (x - x) = 0 := by
  unfold absQ; split <;> grind

theorem absQ_le_zero (x y : Rat) (h : absQ (x - y) ≤ 0) : x = y := by
  unfold absQ at h
  split at h <;> grind

theorem distinctPts_inj {α : Type} (f : α → Rat × Rat) (xs : List α) (h : distinctPts (xs.map f) = true) :
    ∀ x ∈ xs, ∀ y ∈ xs, f x = f y → x = y := by
  induction xs with
  | nil => intro x hx; cases hx
  | cons a as ih =>
    simp only [List.map_cons, distinctPts, Bool.and_eq_true, List.all_eq_true, List.mem_map,
      decide_eq_true_eq, forall_exists_index, and_imp, forall_apply_eq_imp_iff₂] at h
    obtain ⟨h1, h2⟩ := h
    intro x hx y hy hxy
    rcases List.mem_cons.mp hx with hxa | hx' <;> rcases List.mem_cons.mp hy with hya | hy'
    · rw [hxa, hya]
    · subst hxa; exact absurd hxy (h1 y hy')
    · subst hya; exact absurd hxy.symm (h1 x hx')
    · exact ih h2 x hx' y hy' hxy

theorem distinctQ_inj {α : Type} (f : α → Rat) (xs : List α) (h : distinctQ (xs.map f) = true) :
    ∀ x ∈ xs, ∀ y ∈ xs, f x = f y → x = y := by
  induction xs with
  | nil => intro x hx; cases hx
  | cons a as ih =>
    simp only [List.map_cons, distinctQ, Bool.and_eq_true, List.all_eq_true, List.mem_map,
      decide_eq_true_eq, forall_exists_index, and_imp, forall_apply_eq_imp_iff₂] at h
    obtain ⟨h1, h2⟩ := h
    intro x hx y hy hxy
    rcases List.mem_cons.mp hx with hxa | hx' <;> rcases List.mem_cons.mp hy with hya | hy'
    · rw [hxa, hya]
    · subst hxa; exact absurd hxy (h1 y hy')
    · subst hya; exact absurd hxy.symm (h1 x hx')
    · exact ih h2 x hx' y hy' hxy

/-- with pairwise distinct centres the nearest column to a column's own centre is itself -/
theorem nearestCol_self (g : Geo) (hd : distinctPts (g.cols.map Col.centre) = true) (c C : Col)
    (hc : c ∈ g.cols) (hC : NearestCol g c.centre C) : C = c := by
  have := hC.2 c hc
  rw [sqDist_self] at this
  exact distinctPts_inj Col.centre g.cols hd C hC.1 c hc (sqDist_le_zero _ _ this)

theorem nearestLay_self (L : List Lay) (hd : distinctQ (L.map (·.centre)) = true) (l S : Lay)
    (hl : l ∈ L) (hS : NearestLay L l.centre S) : S = l := by
  have := hS.2 l hl
  rw [absQ_self] at this
  exact distinctQ_inj (fun (l : Lay) => l.centre) L hd S hS.1 l hl (absQ_le_zero _ _ this)

/-- Mapping a geometry onto itself is the identity (all three atmosphere types). -/
theorem blockMapping_identity (q : List (Rat × Rat) → Rat × Rat → Nat) (hq : IsNearest q) (g : Geo)
    (hs : SrcWF g) (ht : TgtWF g) (hd : distinctCentres g = true) :
    ∃ m cm names, blockMapping q g g = .ok (m, cm) ∧ g.blockNameList = .ok names ∧
      (∀ d ∈ names, dget m d = .ok d) ∧ (∀ c ∈ g.cols, dget cm c.name = .ok c.name) := by
  simp only [distinctCentres, Bool.and_eq_true] at hd
  obtain ⟨hdc, hdl⟩ := hd
  have ha : atmOK g g = true := by
    simp only [atmOK, Bool.not_eq_true', Bool.and_eq_false_imp, beq_iff_eq, bne_eq_false_iff_eq]
    exact fun h => h
  obtain ⟨m, cm, an, un, san, sun, g0, s0, hbm, han, hun, hnames, hsan, hsun, _, hg0, hs0, hcols, hunder, hatm0, hatm1⟩ :=
    blockMapping_main q hq g g hs ht ha
  rw [han] at hsan; cases hsan
  rw [hun] at hsun; cases hsun
  rw [hg0] at hs0; cases hs0
  obtain ⟨g0', grest, hgl⟩ := ht.lays
  have : g0' = g0 := by rw [hgl] at hg0; simpa using hg0
  subst this
  obtain ⟨_, hunm⟩ : ∃ un', g.underNames = .ok un' ∧ _ := underNames_spec g ht.names ht.dmplex
  refine ⟨m, cm, an ++ un, hbm, hnames, ?_, ?_⟩
  · intro d hd
    rcases List.mem_append.mp hd with hd | hd
    · obtain ⟨an', han', han0, han1, han2⟩ := atmNames_spec g ht.names g0' grest hgl
      rw [han] at han'; cases han'
      by_cases h0 : g.atm = 0
      · obtain ⟨_, v, e1, e2, e3⟩ := hatm0 h0
        rw [e1] at e2 hd
        simp only [List.mem_singleton] at hd
        cases e2
        rw [hd]; exact e3
      · by_cases h1 : g.atm = 1
        · obtain ⟨c, hc, hn⟩ := (han1 h1 d).mp hd
          have hnm := tgt_atm_name g ht g0' grest hgl c.name (List.mem_cons_of_mem _ (List.mem_map.mpr ⟨c, hc, rfl⟩))
          rw [hnm] at hn; cases hn
          obtain ⟨C, v, hC, _, hv, hget⟩ := hatm1 h1 c hc
          have hCc := nearestCol_self g hdc c C hc hC
          subst hCc
          rw [if_neg h0, hnm] at hv
          cases hv
          exact hget
        · rw [han2 h0 h1] at hd; cases hd
    · -- underground
      obtain ⟨un', hun', hm'⟩ := underNames_spec g ht.names ht.dmplex
      rw [hun] at hun'; cases hun'
      obtain ⟨p, hp, hn⟩ := (hm' d).mp hd
      have hnm := tgt_under_name g ht p.1 p.2 hp
      rw [hnm] at hn; cases hn
      obtain ⟨C, S, L', v, hC, hS, hL, _, hv, _, _, hget⟩ := hunder p.1 p.2 hp
      obtain ⟨hl, hc, hlt⟩ := (mem_underPairs g p.1 p.2).mp hp
      have hCc := nearestCol_self g hdc p.2 C hc hC
      have hSl := nearestLay_self (g.lays.drop 1) hdl p.1 S hl hS
      subst hCc hSl
      rw [if_neg (Rat.not_le.mpr hlt)] at hL
      subst hL
      rw [hnm] at hv; cases hv
      exact hget
  · intro c hc
    obtain ⟨C, hC, hget⟩ := hcols c hc
    rw [nearestCol_self g hdc c C hc hC] at hget
    exact hget

/-! ### the known defect: source atmosphere type 1 or 2 onto target type 0 -/

theorem colPair_key (q : List (Rat × Rat) → Rat × Rat → Nat) (self : Geo) (c : Col) (p : Str × Str)
    (h : colPair q self c = .ok p) : p.1 = c.name := by
  unfold colPair at h
  split at h
  · cases h; rfl
  · cases h

/-- In general: whenever the target has a single atmosphere block and the source has
    none or one per column, `block_mapping` raises KeyError (the target's atmosphere column
    name is not a key of the column mapping). -/
theorem blockMapping_keyError (q : List (Rat × Rat) → Rat × Rat → Nat) (hq : IsNearest q) (s t : Geo)
    (hs : SrcWF s) (ht : TgtWF t) (h0 : t.atm = 0) (hsa : s.atm ≠ 0)
    (hnc : ∀ c ∈ t.cols, c.name ≠ atmColName t.conv) :
    blockMapping q s t = .error .keyError := by
  obtain ⟨cm, lm, g0, s0, grest, srest, hm, _, _⟩ := mapsOK_exists q hq s t hs ht
  obtain ⟨an, han, han0, _, _⟩ := atmNames_spec t ht.names g0 grest hm.hg
  obtain ⟨un, hun, _⟩ := underNames_spec t ht.names ht.dmplex
  have hnames := blockNameList_eq t g0 grest hm.hg an un han hun
  obtain ⟨n, hn, hane⟩ := han0 h0
  rw [tgt_atm_name t ht g0 grest hm.hg _ (by simp)] at hn
  cases hn
  -- the column mapping has no entry for the atmosphere column name
  have hkey : dget cm (atmColName t.conv) = .error .keyError := by
    have hcm := hm.hcm
    unfold columnMapping at hcm
    have hinit : ¬ (s.atm = 0 ∧ t.atm = 0) := fun h => hsa h.1
    simp only [if_neg hinit, List.nil_append] at hcm
    split at hcm
    · cases hcm
    · rename_i ps hps
      cases hcm
      apply dget_dictOf_none
      intro p hp hk
      obtain ⟨c, hc, hf⟩ := mapE_mem_right hps p hp
      rw [colPair_key q s c p hf] at hk
      exact hnc c hc hk
  have hone : mapOne s t cm lm (rawName t.conv g0.name (atmColName t.conv)) = .error .keyError := by
    have hll := ht.names.layLen g0 (by rw [hm.hg]; simp)
    unfold mapOne
    simp only [columnName_rawName t.conv g0.name _ hll (atmColName_length _), hkey]
  unfold blockMapping
  simp only [hm.hcm, hm.hlm, hnames, hane, List.singleton_append, mapE_head_error hone]

end Proofs.Mapping
