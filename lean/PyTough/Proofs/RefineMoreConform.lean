/-
  Conformity of the subdivision tables (C11): the directed edges of the sub-columns of every table
  entry, as a multiset, are the refined parent boundary plus interior edges that occur in
  opposite pairs; no hanging node.  Everything is a decidable statement about the generated
  tables, checked over the whole table by kernel evaluation and lifted to the quantified form.
-/
import PyTough.Proofs.Refine
namespace Proofs.RefineMore
open Model.Geo Model.Refine Gen.RefineTables Proofs.Refine

/-- reverse a directed edge -/
def rev (e : Edge) : Edge := (e.2, e.1)

/-- one representative of every opposite pair `e, rev e` of a (duplicate-free) list of directed
    edges: the one that comes first in the list — the interior edges, each once -/
def pairedHalf : List Edge → List Edge
  | [] => []
  | e :: es => if rev e ∈ es then e :: pairedHalf es else pairedHalf es

/-- The conformity statement for one parent (`nn` corners, refined sides `sides`) and its
    sub-columns `subs`, written out:
    1. no directed edge is used twice (neither by two sub-columns nor twice by one);
    2. no sub-column runs along an edge and back;
    3. every directed edge of a sub-column is EITHER an edge of the refined parent boundary (and
       then no sub-column has the opposite edge) OR an interior edge (and then the opposite edge
       belongs to a sub-column — by 1 exactly one, by 2 another one);
    4. every edge of the refined parent boundary belongs to a sub-column;
    5. no refined side of the parent is used unsplit (in either direction) by a sub-column. -/
def Conform (nn : Nat) (sides : List Nat) (subs : List Poly) : Prop :=
  (polyEdges subs).Nodup ∧
  (∀ p ∈ subs, ∀ e ∈ cyc p, rev e ∉ cyc p) ∧
  (∀ e ∈ polyEdges subs,
      (e ∈ refBoundary nn sides ∧ rev e ∉ polyEdges subs) ∨
      (e ∉ refBoundary nn sides ∧ rev e ∈ polyEdges subs)) ∧
  (∀ e ∈ refBoundary nn sides, e ∈ polyEdges subs) ∧
  (∀ i ∈ sides, (Vert.corner i, Vert.corner ((i + 1) % nn)) ∉ polyEdges subs ∧
                (Vert.corner ((i + 1) % nn), Vert.corner i) ∉ polyEdges subs)

instance (nn : Nat) (sides : List Nat) (subs : List Poly) : Decidable (Conform nn sides subs) := by
  unfold Conform; infer_instance

/-- the multiset identity: sub-column edges = refined boundary + interior edges + their reverses -/
def edgeMultisetOK (nn : Nat) (sides : List Nat) (subs : List Poly) : Bool :=
  let I := pairedHalf (polyEdges subs)
  (polyEdges subs).isPerm (refBoundary nn sides ++ I ++ I.map rev)

/-! ### whole-table checks -/

theorem transition_table_conform :
    ∀ nn ∈ [3, 4], ∀ s ∈ sublists (List.range nn), s ≠ [] →
      ∀ subs ∈ (subdivision nn s).toList, Conform nn s subs ∧ edgeMultisetOK nn s subs = true := by
  decide +kernel

theorem decompose_table_conform :
    ∀ c ∈ decomposeCases, ∀ i0 ∈ List.range c.nn,
      Conform c.nn [] (subdivide c.nn i0 c.polys) ∧
      edgeMultisetOK c.nn [] (subdivide c.nn i0 c.polys) = true := by
  decide +kernel

theorem split_table_conform :
    ∀ i0 ∈ List.range 4, Conform 4 [] [splitOld i0, splitNewPoly i0] ∧
      edgeMultisetOK 4 [] [splitOld i0, splitNewPoly i0] = true := by
  decide +kernel

/-! ### consequences of `Conform` for all families (not table specific) -/

theorem mem_polyEdges {e : Edge} {subs : List Poly} : e ∈ polyEdges subs ↔ ∃ p ∈ subs, e ∈ cyc p := by
  simp only [polyEdges, List.mem_flatMap]

/-- in a duplicate-free concatenation, an element determines the block it comes from -/
theorem flatMap_nodup_unique {α β} (f : α → List β) : ∀ (l : List α), (l.flatMap f).Nodup →
    ∀ a ∈ l, ∀ b ∈ l, ∀ x, x ∈ f a → x ∈ f b → a = b
  | [], _, a, ha, _, _, _, _, _ => by cases ha
  | c :: t, h, a, ha, b, hb, x, xa, xb => by
    simp only [List.flatMap_cons, List.nodup_append] at h
    obtain ⟨_, ht, hdis⟩ := h
    rcases List.mem_cons.mp ha with rfl | ha' <;> rcases List.mem_cons.mp hb with rfl | hb'
    · rfl
    · exact absurd rfl (hdis x xa x (List.mem_flatMap.mpr ⟨b, hb', xb⟩))
    · exact absurd rfl (hdis x xb x (List.mem_flatMap.mpr ⟨a, ha', xa⟩))
    · exact flatMap_nodup_unique f t ht a ha' b hb' x xa xb

/-- sub-columns meet along FULL edges: an edge of a sub-column that is not on the refined parent
    boundary is, reversed, an edge of exactly one sub-column, and that one is a different
    sub-column (same two end nodes on both sides: no T-junction) -/
theorem conform_shared_edge {nn : Nat} {sides : List Nat} {subs : List Poly} (h : Conform nn sides subs)
    (p : Poly) (hp : p ∈ subs) (e : Edge) (he : e ∈ cyc p) (hb : e ∉ refBoundary nn sides) :
    ∃ q ∈ subs, q ≠ p ∧ rev e ∈ cyc q ∧ ∀ q' ∈ subs, rev e ∈ cyc q' → q' = q := by
  obtain ⟨hnd, hself, hcl, _, _⟩ := h
  have hE : e ∈ polyEdges subs := mem_polyEdges.mpr ⟨p, hp, he⟩
  rcases hcl e hE with ⟨h1, _⟩ | ⟨_, h2⟩
  · exact absurd h1 hb
  · obtain ⟨q, hq, hqe⟩ := mem_polyEdges.mp h2
    refine ⟨q, hq, ?_, hqe, ?_⟩
    · rintro rfl; exact hself q hq e he hqe
    · intro q' hq' hq'e
      exact flatMap_nodup_unique cyc subs hnd q' hq' q hq (rev e) hq'e hqe

/-- an edge on the refined parent boundary belongs to exactly one sub-column, and no sub-column has
    the opposite edge (the parent's outside stays outside) -/
theorem conform_boundary_edge {nn : Nat} {sides : List Nat} {subs : List Poly} (h : Conform nn sides subs)
    (e : Edge) (he : e ∈ refBoundary nn sides) :
    (∃ p ∈ subs, e ∈ cyc p ∧ ∀ p' ∈ subs, e ∈ cyc p' → p' = p) ∧ ∀ q ∈ subs, rev e ∉ cyc q := by
  obtain ⟨hnd, _, hcl, hcov, _⟩ := h
  have hE := hcov e he
  obtain ⟨p, hp, hpe⟩ := mem_polyEdges.mp hE
  refine ⟨⟨p, hp, hpe, fun p' hp' hp'e => flatMap_nodup_unique cyc subs hnd p' hp' p hp e hp'e hpe⟩, ?_⟩
  intro q hq hqe
  rcases hcl e hE with ⟨_, h2⟩ | ⟨h1, _⟩
  · exact h2 (mem_polyEdges.mpr ⟨q, hq, hqe⟩)
  · exact h1 he

end Proofs.RefineMore
