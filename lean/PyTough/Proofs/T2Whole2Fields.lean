/-
  C01 proofs, layer 5i: field-wise projections of the whole-object canonical form for the fields whose section
  reader starts from what the reader's object already holds (INCON, TIMES, DIFFU, MESHM, SHORT, INDOM …) or looks
  at the grid read before (FOFT / GOFT): the value after the whole section list is what the section's canonical
  update makes of the reader's object *at the moment the section is met*, when the section occurs once.
-/
import PyTough.Proofs.T2WholeMesh
namespace Proofs.T2
open Py Model Model.T2 Proofs Proofs.Incon
open Gen.Sections (Rec)

theorem canonFrom_append (step : Str → T2Data → T2Data) :
    ∀ (pre post : List Str) (d0 : T2Data), canonFrom step (pre ++ post) d0 = canonFrom step post (canonFrom step pre d0) := by
  intro pre
  induction pre with
  | nil => intro post d0; rfl
  | cons k ks ih => intro post d0; simp only [List.cons_append, canonFrom, ih]

/-- a field that the sections `kws` do not set keeps its value -/
theorem canonFrom_untouched {α : Type} (π : T2Data → α) (step : Str → T2Data → T2Data) (kw : Str)
    (hsec : ∀ x s, π { x with sections := s } = π x) (hother : ∀ k x, k ≠ kw → π (step k x) = π x) :
    ∀ (kws : List Str) (d0 : T2Data), kw ∉ kws → π (canonFrom step kws d0) = π d0 := by
  intro kws
  induction kws with
  | nil => intro d0 _; rfl
  | cons k ks ih =>
    intro d0 hn
    have h1 : k ≠ kw := fun h => hn (by simp [h])
    have h2 : kw ∉ ks := fun h => hn (List.mem_cons_of_mem _ h)
    simp only [canonFrom, ih _ h2, hsec, hother k d0 h1]

/-- a field that only the section `kw` sets, when `kw` occurs once in the section list: its final value is what
    `kw`'s update makes of the reader's object when the section is met, and until then it held its initial value -/
theorem canonFrom_once {α : Type} (π : T2Data → α) (step : Str → T2Data → T2Data) (kw : Str)
    (hsec : ∀ x s, π { x with sections := s } = π x) (hother : ∀ k x, k ≠ kw → π (step k x) = π x)
    (pre post : List Str) (d0 : T2Data) (hpre : kw ∉ pre) (hpost : kw ∉ post) :
    π (canonFrom step (pre ++ kw :: post) d0) = π (step kw (canonFrom step pre d0)) ∧
    π (canonFrom step pre d0) = π d0 := by
  refine ⟨?_, canonFrom_untouched π step kw hsec hother pre d0 hpre⟩
  rw [canonFrom_append]
  simp only [canonFrom]
  rw [canonFrom_untouched π step kw hsec hother post _ hpost, hsec]

/-- the reader's object when the section after `pre` is met -/
abbrev readerAt (d d' : T2Data) (pre : List Str) : T2Data := canonFrom (stepCanon d') pre (startObj d)

/-- one `stepCanon` projection lemma per field: only its own section changes it -/
macro "step_field" fld:ident : tactic =>
  `(tactic| (intro k x hk; simp only [stepCanon, apply_ite $fld, canonParam, ite_self]; simp only [hk, if_false, ite_self]))

theorem stepCanon_incon_other (d : T2Data) : ∀ k x, k ≠ c!"INCON" → (stepCanon d k x).incon = x.incon := by
  step_field T2Data.incon
theorem stepCanon_outputTimes_other (d : T2Data) : ∀ k x, k ≠ c!"TIMES" → (stepCanon d k x).outputTimes = x.outputTimes := by
  step_field T2Data.outputTimes
theorem stepCanon_historyBlock_other (d : T2Data) : ∀ k x, k ≠ c!"FOFT" → (stepCanon d k x).historyBlock = x.historyBlock := by
  step_field T2Data.historyBlock
theorem stepCanon_historyGen_other (d : T2Data) : ∀ k x, k ≠ c!"GOFT" → (stepCanon d k x).historyGen = x.historyGen := by
  step_field T2Data.historyGen
theorem stepCanon_historyConn_other (d : T2Data) : ∀ k x, k ≠ c!"COFT" → (stepCanon d k x).historyConn = x.historyConn := by
  step_field T2Data.historyConn
theorem stepCanon_selection_other (d : T2Data) : ∀ k x, k ≠ c!"SELEC" → (stepCanon d k x).selection = x.selection := by
  step_field T2Data.selection
theorem stepCanon_diffusion_other (d : T2Data) : ∀ k x, k ≠ c!"DIFFU" → (stepCanon d k x).diffusion = x.diffusion := by
  step_field T2Data.diffusion
theorem stepCanon_meshmaker_other (d : T2Data) : ∀ k x, k ≠ c!"MESHM" → (stepCanon d k x).meshmaker = x.meshmaker := by
  step_field T2Data.meshmaker
theorem stepCanon_short_other (d : T2Data) : ∀ k x, k ≠ c!"SHORT" → (stepCanon d k x).short = x.short := by
  step_field T2Data.short
theorem stepCanon_simulator_other (d : T2Data) : ∀ k x, k ≠ c!"SIMUL" → (stepCanon d k x).simulator = x.simulator := by
  step_field T2Data.simulator
theorem stepCanon_indom_other (d : T2Data) : ∀ k x, k ≠ c!"INDOM" → (stepCanon d k x).indom = x.indom := by
  step_field T2Data.indom
theorem stepCanon_parameter_other (d : T2Data) : ∀ k x, k ≠ c!"PARAM" → (stepCanon d k x).parameter = x.parameter := by
  step_field T2Data.parameter
theorem stepCanon_timestep_other (d : T2Data) : ∀ k x, k ≠ c!"PARAM" → (stepCanon d k x).timestep = x.timestep := by
  step_field T2Data.timestep

end Proofs.T2
