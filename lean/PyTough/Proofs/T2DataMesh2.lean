/-
  C01 proofs, layer 3j: MESHMAKER, part 2 — XYZ.
-/
import PyTough.Proofs.T2DataMesh
set_option linter.unusedSimpArgs false
namespace Proofs.T2
open Py Model Model.T2 Proofs Proofs.Incon
open Gen.Sections (Rec)

/-! ### string fields of any width -/

structure StrField (f : FieldSpec) : Prop where
  typ : f.typ = 's'
  prec : f.prec = none

theorem str_field_write {f : FieldSpec} (hf : StrField f) {u : Str} (hu : u.length = f.width) (hnl : '\n' ∉ u) :
    writeField f (.str u) = .ok u ∧ canonV f (.str u) = .str u := by
  have := Props.C02.roundtrip_name_full_width .default hf.typ hf.prec u hu hnl
  refine ⟨this.1, ?_⟩
  unfold canonV reparse
  rw [this.1]; simp only; rw [hf.typ, this.2]; rfl

theorem leading_str_line {r : Rec} {f : FieldSpec} {fs : List FieldSpec} (hfs : r.fs = f :: fs) (hf : StrField f)
    {u : Str} (hu : u.length = f.width) (hnl : '\n' ∉ u) {vals : List Val} {l : Str}
    (h : writeValuesLine r (.str u :: vals) = .ok l) : ∃ tail, l = u ++ tail := by
  rw [writeValuesLine_eq] at h
  obtain ⟨rec, hw, rfl⟩ := writeLine_ok h
  obtain ⟨strs, h1, rfl⟩ := (writeValues_ok_iff _ _ _).mp hw
  rw [hfs] at h1
  simp only [List.zip_cons_cons] at h1
  cases h1 with
  | cons hab t =>
    rename_i s ss
    have : s = u := by
      have h2 := (str_field_write hf hu hnl).1
      simp only at hab
      rw [h2] at hab
      cases hab; rfl
    subst this
    exact ⟨ss.flatten ++ ['\n'], by simp [List.flatten]⟩

/-! ### XYZ -/

structure XYZShape (T : Tabs) (r1 r2 r3 : Rec) (fdeg ft fx fno fdel f3 : FieldSpec) : Prop where
  t1 : T.get c!"xyz1" = .ok r1
  t2 : T.get c!"xyz2" = .ok r2
  t3 : T.get c!"xyz3" = .ok r3
  fs1 : r1.fs = [fdeg]
  deg : NumericTyp fdeg.typ
  names2 : r2.names = [c!"ntype", [], c!"no", c!"del"]
  fs2 : r2.fs = [ft, fx, fno, fdel]
  st : StrField ft
  nx : NumericTyp fx.typ
  nno : NumericTyp fno.typ
  ndel : NumericTyp fdel.typ
  c3 : ChunkRec r3 8 f3

def canonXYZSub (fdel f3 : FieldSpec) (s : XYZSub) : XYZSub :=
  { ntype := s.ntype, no := s.no, del := canonV fdel s.del,
    deli := if s.del.isZero then s.deli.map (·.map (canonV f3)) else none }

/-- a direction block the writer and reader agree on: a visible NTYPE of the field's width, an integer NO that
    survives its field, DEL zero exactly when it reads back as zero, and then exactly NO increments -/
structure GoodXYZSub (ft fno fdel : FieldSpec) (s : XYZSub) : Prop where
  ntype : ∃ t, s.ntype = .str t ∧ t.length = ft.width ∧ '\n' ∉ t ∧ isBlank t = false
  no : ∃ k : Nat, s.no = .int (Int.ofNat k) ∧
        (if s.del.isZero then ∃ xs, s.deli = some xs ∧ xs.length = k else s.deli = none)
  keepNo : canonV fno s.no = s.no
  keepDel : (canonV fdel s.del).isZero = s.del.isZero

theorem xyz_sub_record {T : Tabs} {r1 r2 r3 : Rec} {fdeg ft fx fno fdel f3 : FieldSpec}
    (hs : XYZShape T r1 r2 r3 fdeg ft fx fno fdel f3) (s : XYZSub) (hg : GoodXYZSub ft fno fdel s)
    {ls : List Str} (hw : writeXYZSub T s = .ok ls) :
    ∃ l ex, ls = l :: ex ∧ isBlank l = false ∧
      ∀ rest, readXYZSub .default T l (ex ++ rest) = .ok (canonXYZSub fdel f3 s, ex.length) := by
  obtain ⟨t, hnt, htl, htnl, htv⟩ := hg.ntype
  obtain ⟨k, hno, hdeli⟩ := hg.no
  unfold writeXYZSub at hw
  simp only [hs.t2, hs.t3, bind, Except.bind, pure, Except.pure] at hw
  have hlv : lineVals r2 [(c!"ntype", s.ntype), (c!"no", s.no), (c!"del", s.del)] = [s.ntype, .none, s.no, s.del] := by
    simp only [lineVals, hs.names2, List.map_cons, List.map_nil, Dict.get, List.find?]
    rfl
  unfold writeValueLine at hw
  unfold lineVals at hlv
  rw [hlv] at hw
  cases hh : writeValuesLine r2 [s.ntype, .none, s.no, s.del] with
  | error e => rw [hh] at hw; cases hw
  | ok h =>
    rw [hh] at hw
    simp only at hw
    have hh' : writeValuesLine r2 [.str t, .none, s.no, s.del] = .ok h := by rw [← hnt]; exact hh
    obtain ⟨tail, hl⟩ := leading_str_line hs.fs2 hs.st htl htnl hh'
    have hnb : isBlank h = false := by rw [hl]; exact not_blank_append htv
    have hvalid : ∀ f ∈ r2.fs, ValidTyp f.typ := by
      rw [hs.fs2]; intro f hf
      simp only [List.mem_cons, List.not_mem_nil, or_false] at hf
      rcases hf with rfl | rfl | rfl | rfl
      · unfold ValidTyp; rw [hs.st.typ]; simp
      · exact NumericTyp.valid hs.nx
      · exact NumericTyp.valid hs.nno
      · exact NumericTyp.valid hs.ndel
    have hnum : ∀ f ∈ r2.fs.drop [Val.str t, Val.none, s.no, s.del].length, NumericTyp f.typ := by
      rw [hs.fs2]; intro f hf; simp at hf
    have hrd := readValues_written r2 _ hvalid hnum hh' [] (by intro c hc; cases hc)
    rw [List.append_nil, hs.fs2] at hrd
    simp only [List.zip_cons_cons, List.zip_nil_right, List.map_cons, List.map_nil, List.length_cons, List.length_nil,
      List.drop_succ_cons, List.drop_nil, List.append_nil, (str_field_write hs.st htl htnl).2, canonV_none hs.nx,
      hg.keepNo] at hrd
    by_cases hz : s.del.isZero = true
    · rw [hz] at hdeli
      simp only [if_true] at hdeli
      obtain ⟨xs, hxs, hxl⟩ := hdeli
      simp only [hz, if_true, hno, ceilDiv_nat, hxs] at hw
      have hk : (Int.ofNat k).toNat = k := rfl
      simp only [hk] at hw
      cases hch : writeChunks r3 8 xs k ((k + 8 - 1) / 8) with
      | error e => rw [hch] at hw; cases hw
      | ok cl =>
        rw [hch] at hw
        cases hw
        have hch' : writeChunks r3 8 xs xs.length ((xs.length + 8 - 1) / 8) = .ok cl := by rw [hxl]; exact hch
        have hlen : cl.length = (k + 8 - 1) / 8 := (chunks_read hs.c3 xs _ 0 cl (by rw [hxl]; exact hch)).1
        refine ⟨h, cl, rfl, hnb, fun rest => ?_⟩
        unfold readXYZSub
        have hz' : (canonV fdel s.del).isZero = true := by rw [hg.keepDel]; exact hz
        obtain ⟨vs, hr, hv⟩ := chunked_roundtrip_take hs.c3 (by decide) xs hch' rest
        rw [hxl] at hr hv
        simp only [hs.t2, hs.t3, bind, Except.bind, pure, Except.pure, hrd, hz', if_true, hno, ceilDiv_nat, hr, take_nat, hv,
          canonXYZSub, hz, hxs, Option.map_some, hlen, hnt]
    · have hz0 : s.del.isZero = false := by cases h' : s.del.isZero <;> simp_all
      rw [hz0] at hdeli
      simp only [Bool.false_eq_true, if_false] at hdeli
      simp only [hz0, Bool.false_eq_true, if_false] at hw
      cases hw
      refine ⟨h, [], rfl, hnb, fun rest => ?_⟩
      unfold readXYZSub
      have hz' : (canonV fdel s.del).isZero = false := by rw [hg.keepDel]; exact hz0
      simp only [hs.t2, bind, Except.bind, pure, Except.pure, hrd, hz', Bool.false_eq_true, if_false, canonXYZSub, hz0,
        List.length_nil, hnt, hno, hdeli]

/-- **XYZ read back**: the rotation angle line and every direction block (NTYPE, NO, DEL and, for DEL = 0, the NO
    increments in lines of eight), closed by a blank line -/
theorem xyz_roundtrip {T : Tabs} {r1 r2 r3 : Rec} {fdeg ft fx fno fdel f3 : FieldSpec}
    (hs : XYZShape T r1 r2 r3 fdeg ft fx fno fdel f3) (deg : Val) (subs : List XYZSub)
    (hg : ∀ s ∈ subs, GoodXYZSub ft fno fdel s) {lines : List Str} (hw : writeXYZ T deg subs = .ok lines) (rest : List Str) :
    ∃ body, lines = nl c!"XYZ" :: body ∧
      readXYZ .default T (body ++ rest) = .ok (.xyz (canonV fdeg deg) (subs.map (canonXYZSub fdel f3)), rest) := by
  unfold writeXYZ at hw
  simp only [hs.t1, bind, Except.bind, pure, Except.pure] at hw
  cases hl1 : writeValuesLine r1 [deg] with
  | error e => rw [hl1] at hw; cases hw
  | ok l1 =>
    rw [hl1] at hw
    cases hm : subs.mapM (writeXYZSub T) with
    | error e => rw [hm] at hw; cases hw
    | ok lss =>
      rw [hm] at hw
      cases hw
      refine ⟨l1 :: (lss.flatten ++ [nl []]), by simp, ?_⟩
      have hvalid : ∀ f ∈ r1.fs, ValidTyp f.typ := by
        rw [hs.fs1]; intro f hf; simp at hf; subst hf; exact NumericTyp.valid hs.deg
      have hnum : ∀ f ∈ r1.fs.drop [deg].length, NumericTyp f.typ := by rw [hs.fs1]; intro f hf; simp at hf
      have hdeg := readValues_written r1 _ hvalid hnum hl1 [] (by intro c hc; cases hc)
      rw [List.append_nil, hs.fs1] at hdeg
      simp only [List.zip_cons_cons, List.zip_nil_right, List.map_cons, List.map_nil, List.length_cons, List.length_nil,
        List.drop_succ_cons, List.drop_nil, List.append_nil] at hdeg
      -- the written blocks, entry by entry
      have hlss : lss = subs.map (fun s => match writeXYZSub T s with | .ok ls => ls | .error _ => []) := by
        clear hl1 hdeg
        induction subs generalizing lss with
        | nil => simp only [List.mapM_nil, pure, Except.pure] at hm; cases hm; rfl
        | cons s ss ih =>
          simp only [List.mapM_cons, bind, Except.bind, pure, Except.pure] at hm
          cases h1 : writeXYZSub T s with
          | error e => rw [h1] at hm; cases hm
          | ok a =>
            rw [h1] at hm
            cases h2 : ss.mapM (writeXYZSub T) with
            | error e => rw [h2] at hm; cases hm
            | ok b =>
              rw [h2] at hm
              cases hm
              simp only [List.map_cons, h1]
              rw [ih (fun x hx => hg x (List.mem_cons_of_mem _ hx)) b h2]
      have hrt : ∀ s ∈ subs, RecordRT id (fun _ => false) (readXYZSub .default T)
          (fun s => match writeXYZSub T s with | .ok ls => ls | .error _ => []) (canonXYZSub fdel f3) s := by
        intro s hsm
        have hok : ∃ ls, writeXYZSub T s = .ok ls := by
          clear hlss hl1 hdeg
          induction subs generalizing lss with
          | nil => cases hsm
          | cons a as ih =>
            simp only [List.mapM_cons, bind, Except.bind, pure, Except.pure] at hm
            cases h1 : writeXYZSub T a with
            | error e => rw [h1] at hm; cases hm
            | ok la =>
              rw [h1] at hm
              cases h2 : as.mapM (writeXYZSub T) with
              | error e => rw [h2] at hm; cases hm
              | ok lb =>
                rcases List.mem_cons.mp hsm with rfl | hin
                · exact ⟨la, h1⟩
                · exact ih (fun x hx => hg x (List.mem_cons_of_mem _ hx)) lb h2 hin
        obtain ⟨ls, hls⟩ := hok
        obtain ⟨l, ex, rfl, hnb, hrd⟩ := xyz_sub_record hs s (hg s hsm) hls
        exact ⟨l, ex, by simp only [hls], hnb, rfl, fun rest' => hrd rest'⟩
      unfold readXYZ
      simp only [List.cons_append, List.append_assoc, List.nil_append, readline, hs.t1, bind, Except.bind, pure,
        Except.pure, hdeg, List.head?_cons, countOf]
      rw [hlss, untilBlank_roundtrip id (fun _ => false) _ _ _ subs hrt (nl []) (Or.inl isBlank_nl_nil) rest]

end Proofs.T2
