/-
  `refine_layers`: structure preserved and layer counts / name lists re-established, unless the kept atmosphere
  layer name clashes with a generated one (the known finding).
-/
import PyTough.Proofs.GeoRename
namespace Proofs.Geo
open Model.Geo Model.Geo.Geo Py

/-- a geometry differing from `g` only in layer records, whose names are kept -/
structure LayFrame (g g' : Geo) : Prop where
  eq : ∃ L', g' = { g with L := L' } ∧ L'.size = g.L.size
  name : ∀ i, (g'.lay i).name = (g.lay i).name

theorem LayFrame.refl (g : Geo) : LayFrame g g := ⟨⟨g.L, rfl, rfl⟩, fun _ => rfl⟩

theorem LayFrame.trans {a b c : Geo} (h1 : LayFrame a b) (h2 : LayFrame b c) : LayFrame a c := by
  obtain ⟨L1, e1, s1⟩ := h1.eq
  obtain ⟨L2, e2, s2⟩ := h2.eq
  refine ⟨⟨L2, ?_, ?_⟩, fun i => (h2.name i).trans (h1.name i)⟩
  · rw [e2, e1]
  · rw [s2, e1]; exact s1

theorem updLay_frame (g : Geo) (i : Nat) (f : Layer → Layer) (hf : ∀ l, (f l).name = l.name) :
    LayFrame g (g.updLay i f) := by
  refine ⟨⟨_, rfl, by simp [updLay]⟩, ?_⟩
  intro j
  by_cases hi : i < g.L.size
  · rw [updLay_lay _ _ _ _ hi]; split
    · exact hf _
    · rfl
  · simp only [updLay, modify_oob _ _ _ hi]

theorem LayFrame.keeps_geoInv0 {g g' : Geo} (h : LayFrame g g') (hi : g.geoInv0 = true) : g'.geoInv0 = true := by
  obtain ⟨L', e, s⟩ := h.eq
  have hn := h.name
  subst e
  have hs : SameStructure g { g with L := L' } :=
    { convention := rfl, atmosType := rfl, nodelist := rfl, nodeD := rfl, columnlist := rfl, columnD := rfl,
      connlist := rfl, connD := rfl, layerlist := rfl, layerD := rfl, welllist := rfl, wellD := rfl, K := rfl,
      Nsize := rfl, Csize := rfl, Lsize := s, Wsize := rfl, nodeName := fun _ => rfl, nodeCols := fun _ => rfl,
      colName := fun _ => rfl, colNodes := fun _ => rfl, colCons := fun _ => rfl, colNbrs := fun _ => rfl,
      layName := hn, wellName := fun _ => rfl }
  apply geoInv0_congr hs _ hi
  simp only [Geo.geoInv0, Bool.and_eq_true] at hi
  exact hi.2

theorem identifyLayerTops_frame (g : Geo) : LayFrame g g.identifyLayerTops := by
  unfold identifyLayerTops
  split
  · exact LayFrame.refl g
  · rename_i l0 rest _
    have h1 := updLay_frame g l0 (fun l => { l with top := l.bottom }) (fun _ => rfl)
    suffices ∀ (ps : List (Nat × Nat)) (g0 : Geo),
        LayFrame g0 (ps.foldl (fun g p => g.updLay p.2 fun l => { l with top := (g.lay p.1).bottom }) g0) from
      h1.trans (this _ _)
    intro ps
    induction ps with
    | nil => intro g0; exact LayFrame.refl g0
    | cons p t ih =>
      intro g0
      simp only [List.foldl_cons]
      exact (updLay_frame g0 p.2 (fun l => { l with top := (g0.lay p.1).bottom }) (fun _ => rfl)).trans (ih _)

end Proofs.Geo

namespace Proofs.Geo
open Model.Geo Model.Geo.Geo Py

theorem foldlM_inv {σ α} (P : σ → Prop) (F : σ → α → Except Exc σ)
    (hF : ∀ s a s', F s a = .ok s' → P s → P s') : ∀ (l : List α) (s s' : σ), l.foldlM F s = .ok s' → P s → P s'
  | [], s, s', h, hp => by
    simp only [List.foldlM_nil, pure, Except.pure, Except.ok.injEq] at h; subst h; exact hp
  | a :: t, s, s', h, hp => by
    simp only [List.foldlM_cons] at h
    obtain ⟨s2, h2, h'⟩ := bind_ok h
    exact foldlM_inv P F hF t s2 s' h' (hF s a s2 h2 hp)

theorem addLayers_geoInv0 (g g' : Geo) (ths : List Rat) (top : Rat) (left : Bool)
    (ha : g.addLayers ths top left = .ok g') (h : g.geoInv0 = true) : g'.geoInv0 = true := by
  unfold addLayers at ha
  simp only at ha
  obtain ⟨st, hst, ha⟩ := bind_ok ha
  simp only [pure, Except.pure, Except.ok.injEq] at ha
  subst ha
  apply (identifyLayerTops_frame _).keeps_geoInv0
  refine foldlM_inv (fun s : Geo × Rat × Nat => s.1.geoInv0 = true) _ ?_ ths _ st hst
    (addLayer_geoInv0 _ _ (clearLayers_geoInv0 g h))
  intro s a s' hs hp
  obtain ⟨nn, _, hs⟩ := bind_ok hs
  simp only [pure, Except.pure, Except.ok.injEq] at hs
  subst hs
  exact addLayer_geoInv0 _ _ hp

end Proofs.Geo

namespace Proofs.Geo
open Model.Geo Model.Geo.Geo Py

theorem refineLayersStack_geoInv0 (g g1 : Geo) (atm : Name) (layers : List Name) (f : Nat)
    (hs : g.refineLayersStack layers f = .ok (g1, atm)) (h : g.geoInv0 = true) : g1.geoInv0 = true := by
  unfold refineLayersStack at hs
  obtain ⟨sel, _, hs⟩ := bind_ok hs
  split at hs
  · cases hs
  · split at hs
    · cases hs
    · obtain ⟨g2, h2, hs⟩ := bind_ok hs
      simp only [pure, Except.pure, Except.ok.injEq, Prod.mk.injEq] at hs
      obtain ⟨rfl, _⟩ := hs
      exact addLayers_geoInv0 _ _ _ _ _ h2 (clearLayers_geoInv0 g h)

/-- the atmosphere layer gets back a name that none of the freshly generated layers carries (otherwise: known
    finding `registry:dup-name@refine_layers:atm-name-clash`) -/
def NoAtmNameClash (g1 : Geo) (atm : Name) : Prop :=
  ∀ n0 rest, g1.layerlist = n0 :: rest → (g1.layerD.contains atm = false ∨ atm = (g1.lay n0).name)

/-- `refine_layers(layers, factor)`: needs only the structural invariant and re-establishes the rest, provided the
    old atmosphere layer name does not clash with a generated layer name -/
theorem refineLayers_geoInv (g g' : Geo) (layers : List Name) (f : Nat) (hr : g.refineLayers layers f = .ok g')
    (hno : ∀ g1 atm, g.refineLayersStack layers f = .ok (g1, atm) → NoAtmNameClash g1 atm)
    (h : g.geoInv0 = true) : g'.geoInv = true := by
  unfold refineLayers at hr
  obtain ⟨st, hst, hr⟩ := bind_ok hr
  obtain ⟨g1, atm⟩ := st
  simp only at hr
  have h1 := refineLayersStack_geoInv0 g g1 atm layers f hst h
  have hclash := hno g1 atm hst
  obtain ⟨g2, h2, hr⟩ := bind_ok hr
  obtain ⟨g3, h3, hr⟩ := bind_ok hr
  -- renaming the atmosphere layer back: only the structural part and the layer registry matter here
  have hg2 : g2.geoInv0 = true := by
    cases hll : g1.layerlist with
    | nil => rw [hll] at h2; cases h2
    | cons n0 rest =>
      rw [hll] at h2
      simp only at h2
      unfold renameLayer at h2
      obtain ⟨g1', hf, hsu⟩ := bind_ok h2
      simp only [List.zip_cons_cons, List.zip_nil_right, List.foldlM_cons, List.foldlM_nil, bind_pure] at hf
      cases hk : g1.layerD.get? (g1.lay n0).name with
      | none => rw [hk] at hf; cases hf
      | some i =>
        rw [hk] at hf
        simp only at hf
        split at hf
        · cases hf
        · simp only [pure, Except.pure, Except.ok.injEq] at hf
          have e : g1' = renamedLayer g1 (g1.lay n0).name atm i := hf.symm
          subst e
          have hstruct : (renamedLayer g1 (g1.lay n0).name atm i).geoInv0 = true :=
            renamedLayer_struct g1 (g1.lay n0).name atm i hk (hclash n0 rest hll) h1
          exact setupNames_geoInv0 _ g2 hsu hstruct
  have hh : g2.heapOK = true := by
    simp only [Geo.geoInv0, Bool.and_eq_true] at hg2; exact hg2.1.1.1.1.1.1
  obtain ⟨hfr, hnl⟩ := setNumLayers_fold _ _ g3 h3 (heapOK_cols hh)
  have hg3 := hfr.keeps_geoInv0 hg2
  have hcl : g3.columnlist = g2.columnlist := hfr.sameStructure.columnlist
  have hl3 : g3.layersOK = true := by
    simp only [layersOK, List.all_eq_true, decide_eq_true_eq]
    intro c hcm
    exact (hnl c).1 (hcl ▸ hcm)
  simp only [geoInv, Bool.and_eq_true]
  exact ⟨⟨setupNames_geoInv0 g3 g' hr hg3, setupNames_layersOK g3 g' hr hl3⟩, setupNames_fresh g3 g' hr⟩

end Proofs.Geo
