/-
  C19 helper lemmas about the geometry model: unique names, `block_name_list`,
  the first layer below a column's surface.
-/
import PyTough.Proofs.Mapping
namespace Proofs.Mapping
open Py Model.Mapping

/-! ### pairwise distinct names -/

theorem nodupB_inj {α : Type} (f : α → Str) (xs : List α) (h : nodupB (xs.map f) = true) :
    ∀ x ∈ xs, ∀ y ∈ xs, f x = f y → x = y := by
  induction xs with
  | nil => intro x hx; cases hx
  | cons a as ih =>
    simp only [List.map_cons, nodupB, Bool.and_eq_true, Bool.not_eq_true', List.contains_eq_mem,
      List.mem_map, decide_eq_false_iff_not, not_exists, not_and] at h
    obtain ⟨h1, h2⟩ := h
    intro x hx y hy hxy
    rcases List.mem_cons.mp hx with hxa | hx' <;> rcases List.mem_cons.mp hy with hya | hy'
    · rw [hxa, hya]
    · subst hxa; exact absurd hxy.symm (h1 y hy')
    · subst hya; exact absurd hxy (h1 x hx')
    · exact ih h2 x hx' y hy' hxy

theorem nodupB_find {α : Type} (f : α → Str) (xs : List α) (h : nodupB (xs.map f) = true)
    (x : α) (hx : x ∈ xs) : xs.find? (fun y => f y == f x) = some x := by
  cases hf : xs.find? (fun y => f y == f x) with
  | none =>
    rw [List.find?_eq_none] at hf
    exact absurd (by simp) (hf x hx)
  | some y =>
    have hy := List.mem_of_find?_eq_some hf
    have hyx := List.find?_some hf
    simp only [beq_iff_eq] at hyx
    rw [nodupB_inj f xs h y hy x hx hyx]

theorem nodupB_tail {α : Type} (f : α → Str) (a : α) (xs : List α) (h : nodupB ((a :: xs).map f) = true) :
    nodupB (xs.map f) = true ∧ ∀ x ∈ xs, f x ≠ f a := by
  simp only [List.map_cons, nodupB, Bool.and_eq_true, Bool.not_eq_true', List.contains_eq_mem,
    List.mem_map, decide_eq_false_iff_not, not_exists, not_and] at h
  exact ⟨h.2, fun x hx => h.1 x hx⟩

/-! ### unpacking the Boolean hypotheses -/

structure NamesWF (g : Geo) : Prop where
  colLen : ∀ c ∈ g.cols, c.name.length = colLen g.conv
  layLen : ∀ l ∈ g.lays, l.name.length = layLen g.conv
  colNodup : nodupB (g.cols.map (·.name)) = true
  layNodup : nodupB (g.lays.map (·.name)) = true

theorem namesWF_of (g : Geo) (h : namesOK g = true) : NamesWF g := by
  simp only [namesOK, Bool.and_eq_true, List.all_eq_true, beq_iff_eq] at h
  obtain ⟨⟨⟨h1, h2⟩, h3⟩, h4⟩ := h
  exact ⟨h1, h2, h3, h4⟩

theorem atmColName_length (cv : Conv) : (atmColName cv).length = colLen cv := by
  cases cv <;> rfl

theorem findCol_mem (g : Geo) (h : NamesWF g) (c : Col) (hc : c ∈ g.cols) : g.findCol c.name = .ok c := by
  unfold Geo.findCol
  rw [nodupB_find (fun (c : Col) => c.name) g.cols h.colNodup c hc]

theorem findLay_mem (g : Geo) (h : NamesWF g) (l : Lay) (hl : l ∈ g.lays) : g.findLay l.name = .ok l := by
  unfold Geo.findLay
  rw [nodupB_find (fun (l : Lay) => l.name) g.lays h.layNodup l hl]

/-! ### block_name_list -/

theorem mem_underPairs (g : Geo) (l : Lay) (c : Col) :
    (l, c) ∈ g.underPairs ↔ l ∈ g.lays.drop 1 ∧ c ∈ g.cols ∧ l.bottom < c.surface := by
  simp only [Geo.underPairs, Geo.layerCols, List.mem_flatMap, List.mem_map, List.mem_filter,
    decide_eq_true_eq, Prod.mk.injEq]
  constructor
  · rintro ⟨l', hl', c', ⟨hc', hs⟩, rfl, rfl⟩
    exact ⟨hl', hc', hs⟩
  · rintro ⟨hl, hc, hs⟩
    exact ⟨l, hl, c, ⟨hc, hs⟩, rfl, rfl⟩

theorem mem_drop_one {α : Type} (l : List α) (x : α) (h : x ∈ l.drop 1) : x ∈ l :=
  List.mem_of_mem_drop h

/-- the node-count condition of DMPlex order -/
def DmplexOK (g : Geo) : Prop := g.dmplex = true → ∀ c ∈ g.cols, c.numNodes = 4 ∨ c.numNodes = 3

/-- the underground part of `block_name_list` exists and consists exactly of the names
    of the (layer, column) pairs with the column's surface above the layer's bottom -/
theorem underNames_spec (g : Geo) (h : NamesWF g) (hd : DmplexOK g) :
    ∃ un, g.underNames = .ok un ∧
      ∀ n, n ∈ un ↔ ∃ p ∈ g.underPairs, blockName g.conv p.1.name p.2.name = .ok n := by
  have hok : ∀ p ∈ g.underPairs, ∃ m, blockName g.conv p.1.name p.2.name = .ok m := by
    intro p hp
    have := (mem_underPairs g p.1 p.2).mp hp
    exact blockName_ok _ _ _ (h.layLen _ (mem_drop_one _ _ this.1)) (h.colLen _ this.2.1)
  unfold Geo.underNames
  by_cases hdm : g.dmplex = true
  · rw [if_pos hdm]
    have hok' : ∀ p ∈ g.underPairs, ∃ b, dmplexEntry g.conv p = .ok b := by
      intro p hp
      obtain ⟨m, hm⟩ := hok p hp
      have hc := ((mem_underPairs g p.1 p.2).mp hp).2.1
      unfold dmplexEntry
      rcases hd hdm p.2 hc with h4 | h3
      · exact ⟨(true, m), by simp [hm, h4]⟩
      · exact ⟨(false, m), by simp [hm, h3]⟩
    obtain ⟨bs, hbs⟩ := mapE_ok_of_each _ _ hok'
    rw [hbs]
    refine ⟨_, rfl, ?_⟩
    intro n
    simp only [List.mem_append, List.mem_map, List.mem_filter]
    constructor
    · rintro (⟨x, ⟨hx, _⟩, rfl⟩ | ⟨x, ⟨hx, _⟩, rfl⟩)
      all_goals
        obtain ⟨p, hp, hf⟩ := mapE_mem_right hbs x hx
        refine ⟨p, hp, ?_⟩
        obtain ⟨m, hm⟩ := hok p hp
        unfold dmplexEntry at hf
        rw [hm] at hf ⊢
        simp only at hf
        split at hf
        · cases hf; rfl
        · split at hf
          · cases hf; rfl
          · cases hf
    · rintro ⟨p, hp, hn⟩
      obtain ⟨x, hx, hf⟩ := mapE_mem_left hbs p hp
      unfold dmplexEntry at hf
      rw [hn] at hf
      simp only at hf
      split at hf
      · cases hf; exact Or.inl ⟨_, ⟨hx, rfl⟩, rfl⟩
      · split at hf
        · cases hf; exact Or.inr ⟨_, ⟨hx, by simp⟩, rfl⟩
        · cases hf
  · rw [if_neg hdm]
    obtain ⟨bs, hbs⟩ := mapE_ok_of_each (underEntry g.conv) _ hok
    refine ⟨bs, hbs, ?_⟩
    intro n
    constructor
    · intro hn; exact mapE_mem_right hbs n hn
    · rintro ⟨p, hp, hn⟩
      obtain ⟨b, hb, hf⟩ := mapE_mem_left hbs p hp
      unfold underEntry at hf
      rw [hn] at hf; cases hf; exact hb

/-- the atmosphere part of `block_name_list` -/
theorem atmNames_spec (g : Geo) (h : NamesWF g) (l0 : Lay) (rest : List Lay) (hl : g.lays = l0 :: rest) :
    ∃ an, g.atmNames = .ok an ∧
      (g.atm = 0 → ∃ n, blockName g.conv l0.name (atmColName g.conv) = .ok n ∧ an = [n]) ∧
      (g.atm = 1 → ∀ n, n ∈ an ↔ ∃ c ∈ g.cols, blockName g.conv l0.name c.name = .ok n) ∧
      (g.atm ≠ 0 → g.atm ≠ 1 → an = []) := by
  have hl0 : l0.name.length = layLen g.conv := h.layLen l0 (by rw [hl]; simp)
  unfold Geo.atmNames
  rw [hl]
  simp only
  by_cases h0 : g.atm = 0
  · obtain ⟨n, hn⟩ := blockName_ok g.conv l0.name (atmColName g.conv) hl0 (atmColName_length _)
    rw [if_pos h0, hn]
    refine ⟨[n], rfl, fun _ => ⟨n, rfl, rfl⟩, fun h1 => by omega, fun hne => absurd h0 hne⟩
  · rw [if_neg h0]
    by_cases h1 : g.atm = 1
    · rw [if_pos h1]
      have hok : ∀ c ∈ g.cols, ∃ m, blockName g.conv l0.name c.name = .ok m :=
        fun c hc => blockName_ok _ _ _ hl0 (h.colLen c hc)
      obtain ⟨bs, hbs⟩ := mapE_ok_of_each (atmEntry g.conv l0) _ hok
      refine ⟨bs, hbs, fun h => absurd h h0, fun _ n => ?_, fun _ hne => absurd h1 hne⟩
      constructor
      · intro hn; exact mapE_mem_right hbs n hn
      · rintro ⟨c, hc, hn⟩
        obtain ⟨b, hb, hf⟩ := mapE_mem_left hbs c hc
        unfold atmEntry at hf
        rw [hn] at hf; cases hf; exact hb
    · rw [if_neg h1]
      exact ⟨[], rfl, fun h => absurd h h0, fun h => absurd h h1, fun _ _ => rfl⟩

theorem blockNameList_eq (g : Geo) (l0 : Lay) (rest : List Lay) (hl : g.lays = l0 :: rest)
    (an un : List Str) (ha : g.atmNames = .ok an) (hu : g.underNames = .ok un) :
    g.blockNameList = .ok (an ++ un) := by
  unfold Geo.blockNameList
  rw [hl]
  simp only [ha, hu]

/-! ### the first layer below a column's surface -/

theorem bottomsDesc_all_le (a : Lay) (r : List Lay) (h : bottomsDesc (a :: r) = true) :
    ∀ l ∈ r, l.bottom ≤ a.bottom := by
  induction r generalizing a with
  | nil => intro l hl; cases hl
  | cons b r ih =>
    simp only [bottomsDesc, Bool.and_eq_true, decide_eq_true_eq] at h
    intro l hl
    rcases List.mem_cons.mp hl with rfl | hl
    · exact h.1
    · exact Rat.le_trans (ih b h.2 l hl) h.1

theorem bottomsDesc_tail (a : Lay) (r : List Lay) (h : bottomsDesc (a :: r) = true) : bottomsDesc r = true := by
  cases r with
  | nil => rfl
  | cons b r =>
    simp only [bottomsDesc, Bool.and_eq_true] at h
    exact h.2

/-- in a list with descending bottoms, the layers below `z` form a suffix: the element at
    position `length - count` is the first one below `z` -/
theorem first_below (L : List Lay) (z : Rat) (hs : bottomsDesc L = true)
    (hk : 1 ≤ (L.filter (fun l => l.bottom < z)).length) :
    ∃ sl, L[L.length - (L.filter (fun l => l.bottom < z)).length]? = some sl ∧
      L.find? (fun l => l.bottom < z) = some sl ∧ sl ∈ L ∧ sl.bottom < z := by
  induction L with
  | nil => simp at hk
  | cons a r ih =>
    by_cases ha : a.bottom < z
    · have hall : ∀ l ∈ r, l.bottom < z := fun l hl =>
        Std.lt_of_le_of_lt (bottomsDesc_all_le a r hs l hl) ha
      have hf : (a :: r).filter (fun l => l.bottom < z) = a :: r := by
        rw [List.filter_eq_self]
        intro l hl
        rcases List.mem_cons.mp hl with rfl | hl
        · simpa using ha
        · simpa using hall l hl
      rw [hf]
      refine ⟨a, by simp, by simp [ha], by simp, ha⟩
    · have hf : (a :: r).filter (fun l => l.bottom < z) = r.filter (fun l => l.bottom < z) := by
        simp [ha]
      rw [hf] at hk ⊢
      obtain ⟨sl, h1, h2, h3, h4⟩ := ih (bottomsDesc_tail a r hs) hk
      have hle : (r.filter (fun l => l.bottom < z)).length ≤ r.length := List.length_filter_le _ _
      refine ⟨sl, ?_, by simp [ha, h2], by simp [h3], h4⟩
      have : (a :: r).length - (r.filter (fun l => l.bottom < z)).length
          = (r.length - (r.filter (fun l => l.bottom < z)).length) + 1 := by
        simp only [List.length_cons]; omega
      rw [this, List.getElem?_cons_succ]
      exact h1

/-- `column_surface_layer` of a column whose stored `num_layers` is the number of layers
    below its surface (≥ 1): the first underground layer whose bottom is below the surface -/
theorem surfaceLayer_spec (g : Geo) (c : Col) (l0 : Lay) (L : List Lay) (hl : g.lays = l0 :: L)
    (hs : bottomsDesc L = true) (hn : c.numLayers = (L.filter (fun l => l.bottom < c.surface)).length)
    (h1 : 1 ≤ c.numLayers) :
    ∃ sl, g.surfaceLayer c = .ok sl ∧ L.find? (fun l => l.bottom < c.surface) = some sl ∧
      sl ∈ L ∧ sl.bottom < c.surface := by
  obtain ⟨sl, e1, e2, e3, e4⟩ := first_below L c.surface hs (by omega)
  refine ⟨sl, ?_, e2, e3, e4⟩
  have hle : (L.filter (fun l => l.bottom < c.surface)).length ≤ L.length := List.length_filter_le _ _
  unfold Geo.surfaceLayer pyIdx
  rw [hl]
  simp only [List.length_cons]
  have hnn : ¬ ((↑(L.length + 1) : Int) - (↑c.numLayers : Int) < 0) := by omega
  simp only [hnn, if_false]
  have : ((↑(L.length + 1) : Int) - (↑c.numLayers : Int)).toNat = (L.length - c.numLayers) + 1 := by omega
  rw [this, List.getElem?_cons_succ, hn, e1]

end Proofs.Mapping
