/-
  GENERATED ONCE by an adaptive subdivision (exact rational arithmetic); every number below is re-checked by Lean.
  Pieces 66..84 of the cover of the saturation interval: 646.62411843 K .. 647.0501 K.
-/
import PyTough.Proofs.ThermoSatPiece
namespace Proofs.Iapws.Cover
open Gen.Iapws Model.Thermo Proofs.Thermo Proofs.Iapws

noncomputable def P66 : Piece := { a := (161672823477 / 250000000 : ℝ), b := (32337665981 / 50000000 : ℝ), Alo := (112179731 / 250 : ℝ), Ahi := (448871539 / 1000 : ℝ), Blo := (-2599863737 / 1000 : ℝ), Bhi := (-649809889 / 250 : ℝ), Clo := (1761795747 / 500 : ℝ), Chi := (88112223 / 25 : ℝ), ACmax := (1582042765709 : ℝ), ACmin := (1581102183803 : ℝ), slo := (3270608531 / 5000 : ℝ), shi := (659456379 / 1000 : ℝ), βlo := (2162163499499 / 1000000000000 : ℝ), βhi := (433335081591 / 200000000000 : ℝ), Mg := (-21806093 / 1000 : ℝ), Mh := (264394 / 125 : ℝ) }
theorem P66_ok : P66.ok := by
  unfold Piece.ok P66 satA satB satC nr4_0 nr4_1 nr4_2 nr4_3 nr4_4 nr4_5 nr4_6 nr4_7 pmin pstar4 pcritical
  simp only [tf_lit]
  norm_num
theorem T66 (T : ℝ) (h1 : (64662411843 / 100000000 : ℝ) ≤ T) (h2 : T ≤ (32334248647 / 50000000 : ℝ)) : Branch (thetaOf T) :=
  P66.branchT P66_ok (64662411843 / 100000000 : ℝ) (32334248647 / 50000000 : ℝ) (by unfold nr4_9; rw [tf_lit]; norm_num)
    (by unfold P66 thetaOf nr4_8 nr4_9; simp only [tf_lit]; norm_num) (by unfold P66 thetaOf nr4_8 nr4_9; simp only [tf_lit]; norm_num) T h1 h2

noncomputable def P67 : Piece := { a := (646753319619 / 1000000000 : ℝ), b := (129363077379 / 200000000 : ℝ), Alo := (224435769 / 500 : ℝ), Ahi := (449024263 / 1000 : ℝ), Blo := (-2600488467 / 1000 : ℝ), Bhi := (-324982967 / 125 : ℝ), Clo := (3524488919 / 1000 : ℝ), Chi := (1762693531 / 500 : ℝ), ACmax := (1582984327305 : ℝ), ACmin := (1582042761735 : ℝ), slo := (3268616437 / 5000 : ℝ), shi := (3295334657 / 5000 : ℝ), βlo := (1081279036009 / 500000000000 : ℝ), βhi := (2167077159237 / 1000000000000 : ℝ), Mg := (-21814729 / 1000 : ℝ), Mh := (1056623 / 500 : ℝ) }
theorem P67_ok : P67.ok := by
  unfold Piece.ok P67 satA satB satC nr4_0 nr4_1 nr4_2 nr4_3 nr4_4 nr4_5 nr4_6 nr4_7 pmin pstar4 pcritical
  simp only [tf_lit]
  norm_num
theorem T67 (T : ℝ) (h1 : (32334248647 / 50000000 : ℝ) ≤ T) (h2 : T ≤ (12934916549 / 20000000 : ℝ)) : Branch (thetaOf T) :=
  P67.branchT P67_ok (32334248647 / 50000000 : ℝ) (12934916549 / 20000000 : ℝ) (by unfold nr4_9; rw [tf_lit]; norm_num)
    (by unfold P67 thetaOf nr4_8 nr4_9; simp only [tf_lit]; norm_num) (by unfold P67 thetaOf nr4_8 nr4_9; simp only [tf_lit]; norm_num) T h1 h2

noncomputable def P68 : Piece := { a := (323407693447 / 500000000 : ℝ), b := (161711609203 / 250000000 : ℝ), Alo := (224512131 / 500 : ℝ), Ahi := (112275167 / 250 : ℝ), Blo := (-1300400523 / 500 : ℝ), Bhi := (-1300244233 / 500 : ℝ), Clo := (3525387061 / 1000 : ℝ), Chi := (3525836411 / 1000 : ℝ), ACmax := (1583455487439 : ℝ), ACmin := (1582984323329 : ℝ), slo := (1636914613 / 2500 : ℝ), shi := (3287205453 / 5000 : ℝ), βlo := (216398101381 / 100000000000 : ℝ), βhi := (2166243294031 / 1000000000000 : ℝ), Mg := (-2726079 / 125 : ℝ), Mh := (211349 / 100 : ℝ) }
theorem P68_ok : P68.ok := by
  unfold Piece.ok P68 satA satB satC nr4_0 nr4_1 nr4_2 nr4_3 nr4_4 nr4_5 nr4_6 nr4_7 pmin pstar4 pcritical
  simp only [tf_lit]
  norm_num
theorem T68 (T : ℝ) (h1 : (12934916549 / 20000000 : ℝ) ≤ T) (h2 : T ≤ (6467762547 / 10000000 : ℝ)) : Branch (thetaOf T) :=
  P68.branchT P68_ok (12934916549 / 20000000 : ℝ) (6467762547 / 10000000 : ℝ) (by unfold nr4_9; rw [tf_lit]; norm_num)
    (by unfold P68 thetaOf nr4_8 nr4_9; simp only [tf_lit]; norm_num) (by unfold P68 thetaOf nr4_8 nr4_9; simp only [tf_lit]; norm_num) T h1 h2

noncomputable def P69 : Piece := { a := (646846436811 / 1000000000 : ℝ), b := (646877497987 / 1000000000 : ℝ), Alo := (449100667 / 1000 : ℝ), Ahi := (449177103 / 1000 : ℝ), Blo := (-260111377 / 100 : ℝ), Bhi := (-520160209 / 200 : ℝ), Clo := (352583641 / 100 : ℝ), Chi := (3526285953 / 1000 : ℝ), ACmax := (1583926908719 : ℝ), ACmin := (1583455483463 : ℝ), slo := (6545673691 / 10000 : ℝ), shi := (6572449397 / 10000 : ℝ), βlo := (2164179406953 / 1000000000000 : ℝ), βhi := (1083221775369 / 500000000000 : ℝ), Mg := (-10906473 / 500 : ℝ), Mh := (264067 / 125 : ℝ) }
theorem P69_ok : P69.ok := by
  unfold Piece.ok P69 satA satB satC nr4_0 nr4_1 nr4_2 nr4_3 nr4_4 nr4_5 nr4_6 nr4_7 pmin pstar4 pcritical
  simp only [tf_lit]
  norm_num
theorem T69 (T : ℝ) (h1 : (6467762547 / 10000000 : ℝ) ≤ T) (h2 : T ≤ (16170167049 / 25000000 : ℝ)) : Branch (thetaOf T) :=
  P69.branchT P69_ok (6467762547 / 10000000 : ℝ) (16170167049 / 25000000 : ℝ) (by unfold nr4_9; rw [tf_lit]; norm_num)
    (by unfold P69 thetaOf nr4_8 nr4_9; simp only [tf_lit]; norm_num) (by unfold P69 thetaOf nr4_8 nr4_9; simp only [tf_lit]; norm_num) T h1 h2

noncomputable def P70 : Piece := { a := (323438748993 / 500000000 : ℝ), b := (323454285359 / 500000000 : ℝ), Alo := (224588551 / 500 : ℝ), Ahi := (56156696 / 125 : ℝ), Blo := (-650356661 / 250 : ℝ), Bhi := (-2601113769 / 1000 : ℝ), Clo := (440785744 / 125 : ℝ), Chi := (352673569 / 100 : ℝ), ACmax := (1584398592126 : ℝ), ACmin := (1583926904742 : ℝ), slo := (3271843787 / 5000 : ℝ), shi := (328524339 / 500 : ℝ), βlo := (2164377878323 / 1000000000000 : ℝ), βhi := (541660976737 / 250000000000 : ℝ), Mg := (-10908631 / 500 : ℝ), Mh := (2111581 / 1000 : ℝ) }
theorem P70_ok : P70.ok := by
  unfold Piece.ok P70 satA satB satC nr4_0 nr4_1 nr4_2 nr4_3 nr4_4 nr4_5 nr4_6 nr4_7 pmin pstar4 pcritical
  simp only [tf_lit]
  norm_num
theorem T70 (T : ℝ) (h1 : (16170167049 / 25000000 : ℝ) ≤ T) (h2 : T ≤ (32341855461 / 50000000 : ℝ)) : Branch (thetaOf T) :=
  P70.branchT P70_ok (16170167049 / 25000000 : ℝ) (32341855461 / 50000000 : ℝ) (by unfold nr4_9; rw [tf_lit]; norm_num)
    (by unfold P70 thetaOf nr4_8 nr4_9; simp only [tf_lit]; norm_num) (by unfold P70 thetaOf nr4_8 nr4_9; simp only [tf_lit]; norm_num) T h1 h2

noncomputable def P71 : Piece := { a := (646908570717 / 1000000000 : ℝ), b := (323469827657 / 500000000 : ℝ), Alo := (449253567 / 1000 : ℝ), Ahi := (56166258 / 125 : ℝ), Blo := (-260173967 / 100 : ℝ), Bhi := (-2601426643 / 1000 : ℝ), Clo := (3526735689 / 1000 : ℝ), Chi := (3527185627 / 1000 : ℝ), ACmax := (1584870543520 : ℝ), ACmin := (1584398588149 : ℝ), slo := (6541700121 / 10000 : ℝ), shi := (3284261553 / 5000 : ℝ), βlo := (67643013263 / 31250000000 : ℝ), βhi := (270855545133 / 125000000000 : ℝ), Mg := (-21821581 / 1000 : ℝ), Mh := (1055313 / 500 : ℝ) }
theorem P71_ok : P71.ok := by
  unfold Piece.ok P71 satA satB satC nr4_0 nr4_1 nr4_2 nr4_3 nr4_4 nr4_5 nr4_6 nr4_7 pmin pstar4 pcritical
  simp only [tf_lit]
  norm_num
theorem T71 (T : ℝ) (h1 : (32341855461 / 50000000 : ℝ) ≤ T) (h2 : T ≤ (64686753647 / 100000000 : ℝ)) : Branch (thetaOf T) :=
  P71.branchT P71_ok (32341855461 / 50000000 : ℝ) (64686753647 / 100000000 : ℝ) (by unfold nr4_9; rw [tf_lit]; norm_num)
    (by unfold P71 thetaOf nr4_8 nr4_9; simp only [tf_lit]; norm_num) (by unfold P71 thetaOf nr4_8 nr4_9; simp only [tf_lit]; norm_num) T h1 h2

noncomputable def P72 : Piece := { a := (646939655313 / 1000000000 : ℝ), b := (161742688029 / 250000000 : ℝ), Alo := (449330063 / 1000 : ℝ), Ahi := (56175824 / 125 : ℝ), Blo := (-650513213 / 250 : ℝ), Bhi := (-2601739669 / 1000 : ℝ), Clo := (1763592813 / 500 : ℝ), Chi := (3527635771 / 1000 : ℝ), ACmax := (1585342769663 : ℝ), ACmin := (1584870539543 : ℝ), slo := (3269855603 / 5000 : ℝ), shi := (6566558357 / 10000 : ℝ), βlo := (2164775046823 / 1000000000000 : ℝ), βhi := (1083522462213 / 500000000000 : ℝ), Mg := (-10912951 / 500 : ℝ), Mh := (210967 / 100 : ℝ) }
theorem P72_ok : P72.ok := by
  unfold Piece.ok P72 satA satB satC nr4_0 nr4_1 nr4_2 nr4_3 nr4_4 nr4_5 nr4_6 nr4_7 pmin pstar4 pcritical
  simp only [tf_lit]
  norm_num
theorem T72 (T : ℝ) (h1 : (64686753647 / 100000000 : ℝ) ≤ T) (h2 : T ≤ (16172449093 / 25000000 : ℝ)) : Branch (thetaOf T) :=
  P72.branchT P72_ok (64686753647 / 100000000 : ℝ) (16172449093 / 25000000 : ℝ) (by unfold nr4_9; rw [tf_lit]; norm_num)
    (by unfold P72 thetaOf nr4_8 nr4_9; simp only [tf_lit]; norm_num) (by unfold P72 thetaOf nr4_8 nr4_9; simp only [tf_lit]; norm_num) T h1 h2

noncomputable def P73 : Piece := { a := (129394150423 / 200000000 : ℝ), b := (647001861477 / 1000000000 : ℝ), Alo := (449406591 / 1000 : ℝ), Ahi := (449483153 / 1000 : ℝ), Blo := (-1301183097 / 500 : ℝ), Bhi := (-2602052851 / 1000 : ℝ), Clo := (352763577 / 100 : ℝ), Chi := (28224689 / 8 : ℝ), ACmax := (1585815275521 : ℝ), ACmin := (1585342765685 : ℝ), slo := (1634430209 / 2500 : ℝ), shi := (1312918497 / 2000 : ℝ), βlo := (1082486875177 / 500000000000 : ℝ), βhi := (2167245595737 / 1000000000000 : ℝ), Mg := (-873209 / 40 : ℝ), Mh := (1054357 / 500 : ℝ) }
theorem P73_ok : P73.ok := by
  unfold Piece.ok P73 satA satB satC nr4_0 nr4_1 nr4_2 nr4_3 nr4_4 nr4_5 nr4_6 nr4_7 pmin pstar4 pcritical
  simp only [tf_lit]
  norm_num
theorem T73 (T : ℝ) (h1 : (16172449093 / 25000000 : ℝ) ≤ T) (h2 : T ≤ (32346419549 / 50000000 : ℝ)) : Branch (thetaOf T) :=
  P73.branchT P73_ok (16172449093 / 25000000 : ℝ) (32346419549 / 50000000 : ℝ) (by unfold nr4_9; rw [tf_lit]; norm_num)
    (by unfold P73 thetaOf nr4_8 nr4_9; simp only [tf_lit]; norm_num) (by unfold P73 thetaOf nr4_8 nr4_9; simp only [tf_lit]; norm_num) T h1 h2

noncomputable def P74 : Piece := { a := (161750465369 / 250000000 : ℝ), b := (647017420973 / 1000000000 : ℝ), Alo := (56185394 / 125 : ℝ), Ahi := (224760723 / 500 : ℝ), Blo := (-1301261463 / 500 : ℝ), Bhi := (-2602366193 / 1000 : ℝ), Clo := (882021531 / 250 : ℝ), Chi := (1764155691 / 500 : ℝ), ACmax := (1586051634375 : ℝ), ACmin := (1585815271542 : ℝ), slo := (6542960071 / 10000 : ℝ), shi := (6556405221 / 10000 : ℝ), βlo := (541422519189 / 250000000000 : ℝ), βhi := (433365349577 / 200000000000 : ℝ), Mg := (-21827157 / 1000 : ℝ), Mh := (2108837 / 1000 : ℝ) }
theorem P74_ok : P74.ok := by
  unfold Piece.ok P74 satA satB satC nr4_0 nr4_1 nr4_2 nr4_3 nr4_4 nr4_5 nr4_6 nr4_7 pmin pstar4 pcritical
  simp only [tf_lit]
  norm_num
theorem T74 (T : ℝ) (h1 : (32346419549 / 50000000 : ℝ) ≤ T) (h2 : T ≤ (64694360461 / 100000000 : ℝ)) : Branch (thetaOf T) :=
  P74.branchT P74_ok (32346419549 / 50000000 : ℝ) (64694360461 / 100000000 : ℝ) (by unfold nr4_9; rw [tf_lit]; norm_num)
    (by unfold P74 thetaOf nr4_8 nr4_9; simp only [tf_lit]; norm_num) (by unfold P74 thetaOf nr4_8 nr4_9; simp only [tf_lit]; norm_num) T h1 h2

noncomputable def P75 : Piece := { a := (161754355243 / 250000000 : ℝ), b := (323516491871 / 500000000 : ℝ), Alo := (89904289 / 200 : ℝ), Ahi := (449559747 / 1000 : ℝ), Blo := (-2602679699 / 1000 : ℝ), Bhi := (-104100917 / 40 : ℝ), Clo := (3528311381 / 1000 : ℝ), Chi := (1764268347 / 500 : ℝ), ACmax := (1586288063435 : ℝ), ACmin := (1586051630397 : ℝ), slo := (6541966993 / 10000 : ℝ), shi := (1638854581 / 2500 : ℝ), βlo := (33840464681 / 15625000000 : ℝ), βhi := (67716465897 / 31250000000 : ℝ), Mg := (-10914659 / 500 : ℝ), Mh := (1054179 / 500 : ℝ) }
theorem P75_ok : P75.ok := by
  unfold Piece.ok P75 satA satB satC nr4_0 nr4_1 nr4_2 nr4_3 nr4_4 nr4_5 nr4_6 nr4_7 pmin pstar4 pcritical
  simp only [tf_lit]
  norm_num
theorem T75 (T : ℝ) (h1 : (64694360461 / 100000000 : ℝ) ≤ T) (h2 : T ≤ (2021746307 / 3125000 : ℝ)) : Branch (thetaOf T) :=
  P75.branchT P75_ok (64694360461 / 100000000 : ℝ) (2021746307 / 3125000 : ℝ) (by unfold nr4_9; rw [tf_lit]; norm_num)
    (by unfold P75 thetaOf nr4_8 nr4_9; simp only [tf_lit]; norm_num) (by unfold P75 thetaOf nr4_8 nr4_9; simp only [tf_lit]; norm_num) T h1 h2

noncomputable def P76 : Piece := { a := (647032983741 / 1000000000 : ℝ), b := (647048549819 / 1000000000 : ℝ), Alo := (224779873 / 500 : ℝ), Ahi := (449598057 / 1000 : ℝ), Blo := (-1301418257 / 500 : ℝ), Bhi := (-1301339849 / 500 : ℝ), Clo := (3528536693 / 1000 : ℝ), Chi := (1764381031 / 500 : ℝ), ACmax := (1586524566691 : ℝ), ACmin := (1586288059456 : ℝ), slo := (3270486751 / 5000 : ℝ), shi := (6554431179 / 10000 : ℝ), βlo := (1082944710593 / 500000000000 : ℝ), βhi := (1083513550291 / 500000000000 : ℝ), Mg := (-21831479 / 1000 : ℝ), Mh := (2107879 / 1000 : ℝ) }
theorem P76_ok : P76.ok := by
  unfold Piece.ok P76 satA satB satC nr4_0 nr4_1 nr4_2 nr4_3 nr4_4 nr4_5 nr4_6 nr4_7 pmin pstar4 pcritical
  simp only [tf_lit]
  norm_num
theorem T76 (T : ℝ) (h1 : (2021746307 / 3125000 : ℝ) ≤ T) (h2 : T ≤ (32348701593 / 50000000 : ℝ)) : Branch (thetaOf T) :=
  P76.branchT P76_ok (2021746307 / 3125000 : ℝ) (32348701593 / 50000000 : ℝ) (by unfold nr4_9; rw [tf_lit]; norm_num)
    (by unfold P76 thetaOf nr4_8 nr4_9; simp only [tf_lit]; norm_num) (by unfold P76 thetaOf nr4_8 nr4_9; simp only [tf_lit]; norm_num) T h1 h2

noncomputable def P77 : Piece := { a := (323524274909 / 500000000 : ℝ), b := (80883014909 / 125000000 : ℝ), Alo := (56199757 / 125 : ℝ), Ahi := (56204547 / 125 : ℝ), Blo := (-260299337 / 100 : ℝ), Bhi := (-2602836513 / 1000 : ℝ), Clo := (3528762061 / 1000 : ℝ), Chi := (705797497 / 200 : ℝ), ACmax := (1586761143705 : ℝ), ACmin := (1586524562712 : ℝ), slo := (1634994913 / 2500 : ℝ), shi := (52427549 / 80 : ℝ), βlo := (108299456677 / 50000000000 : ℝ), βhi := (1083563659321 / 500000000000 : ℝ), Mg := (-21833641 / 1000 : ℝ), Mh := (2107401 / 1000 : ℝ) }
theorem P77_ok : P77.ok := by
  unfold Piece.ok P77 satA satB satC nr4_0 nr4_1 nr4_2 nr4_3 nr4_4 nr4_5 nr4_6 nr4_7 pmin pstar4 pcritical
  simp only [tf_lit]
  norm_num
theorem T77 (T : ℝ) (h1 : (32348701593 / 50000000 : ℝ) ≤ T) (h2 : T ≤ (64698924549 / 100000000 : ℝ)) : Branch (thetaOf T) :=
  P77.branchT P77_ok (32348701593 / 50000000 : ℝ) (64698924549 / 100000000 : ℝ) (by unfold nr4_9; rw [tf_lit]; norm_num)
    (by unfold P77 thetaOf nr4_8 nr4_9; simp only [tf_lit]; norm_num) (by unfold P77 thetaOf nr4_8 nr4_9; simp only [tf_lit]; norm_num) T h1 h2

noncomputable def P78 : Piece := { a := (647064119271 / 1000000000 : ℝ), b := (647079692139 / 1000000000 : ℝ), Alo := (3597091 / 8 : ℝ), Ahi := (56209338 / 125 : ℝ), Blo := (-260315027 / 100 : ℝ), Bhi := (-2602993369 / 1000 : ℝ), Clo := (882246871 / 250 : ℝ), Chi := (705842593 / 200 : ℝ), ACmax := (1586997795390 : ℝ), ACmin := (1586761139726 : ℝ), slo := (408686586 / 625 : ℝ), shi := (3276227897 / 5000 : ℝ), βlo := (2166088865261 / 1000000000000 : ℝ), βhi := (433445513847 / 200000000000 : ℝ), Mg := (-21835803 / 1000 : ℝ), Mh := (1053461 / 500 : ℝ) }
theorem P78_ok : P78.ok := by
  unfold Piece.ok P78 satA satB satC nr4_0 nr4_1 nr4_2 nr4_3 nr4_4 nr4_5 nr4_6 nr4_7 pmin pstar4 pcritical
  simp only [tf_lit]
  norm_num
theorem T78 (T : ℝ) (h1 : (64698924549 / 100000000 : ℝ) ≤ T) (h2 : T ≤ (8087555739 / 12500000 : ℝ)) : Branch (thetaOf T) :=
  P78.branchT P78_ok (64698924549 / 100000000 : ℝ) (8087555739 / 12500000 : ℝ) (by unfold nr4_9; rw [tf_lit]; norm_num)
    (by unfold P78 thetaOf nr4_8 nr4_9; simp only [tf_lit]; norm_num) (by unfold P78 thetaOf nr4_8 nr4_9; simp only [tf_lit]; norm_num) T h1 h2

noncomputable def P79 : Piece := { a := (323539846069 / 500000000 : ℝ), b := (647087479863 / 1000000000 : ℝ), Alo := (449674703 / 1000 : ℝ), Ahi := (56211734 / 125 : ℝ), Blo := (-325403592 / 125 : ℝ), Bhi := (-2603150269 / 1000 : ℝ), Clo := (882303241 / 250 : ℝ), Chi := (1764662863 / 500 : ℝ), ACmax := (1587116151275 : ℝ), ACmin := (1586997791410 : ℝ), slo := (3270805397 / 5000 : ℝ), shi := (6548348543 / 10000 : ℝ), βlo := (270806022211 / 125000000000 : ℝ), βhi := (1083508866211 / 500000000000 : ℝ), Mg := (-4366853 / 200 : ℝ), Mh := (2106983 / 1000 : ℝ) }
theorem P79_ok : P79.ok := by
  unfold Piece.ok P79 satA satB satC nr4_0 nr4_1 nr4_2 nr4_3 nr4_4 nr4_5 nr4_6 nr4_7 pmin pstar4 pcritical
  simp only [tf_lit]
  norm_num
theorem T79 (T : ℝ) (h1 : (8087555739 / 12500000 : ℝ) ≤ T) (h2 : T ≤ (64701206593 / 100000000 : ℝ)) : Branch (thetaOf T) :=
  P79.branchT P79_ok (8087555739 / 12500000 : ℝ) (64701206593 / 100000000 : ℝ) (by unfold nr4_9; rw [tf_lit]; norm_num)
    (by unfold P79 thetaOf nr4_8 nr4_9; simp only [tf_lit]; norm_num) (by unfold P79 thetaOf nr4_8 nr4_9; simp only [tf_lit]; norm_num) T h1 h2

noncomputable def P80 : Piece := { a := (323543739931 / 500000000 : ℝ), b := (32354763423 / 50000000 : ℝ), Alo := (449693871 / 1000 : ℝ), Ahi := (449713041 / 1000 : ℝ), Blo := (-2603307213 / 1000 : ℝ), Bhi := (-520645747 / 200 : ℝ), Clo := (141173029 / 40 : ℝ), Chi := (1764719251 / 500 : ℝ), ACmax := (1587234521757 : ℝ), ACmin := (1587116147295 : ℝ), slo := (261644571 / 400 : ℝ), shi := (818481689 / 1250 : ℝ), βlo := (135406133169 / 62500000000 : ℝ), βhi := (216706780743 / 100000000000 : ℝ), Mg := (-10917673 / 500 : ℝ), Mh := (263343 / 125 : ℝ) }
theorem P80_ok : P80.ok := by
  unfold Piece.ok P80 satA satB satC nr4_0 nr4_1 nr4_2 nr4_3 nr4_4 nr4_5 nr4_6 nr4_7 pmin pstar4 pcritical
  simp only [tf_lit]
  norm_num
theorem T80 (T : ℝ) (h1 : (64701206593 / 100000000 : ℝ) ≤ T) (h2 : T ≤ (32350983637 / 50000000 : ℝ)) : Branch (thetaOf T) :=
  P80.branchT P80_ok (64701206593 / 100000000 : ℝ) (32350983637 / 50000000 : ℝ) (by unfold nr4_9; rw [tf_lit]; norm_num)
    (by unfold P80 thetaOf nr4_8 nr4_9; simp only [tf_lit]; norm_num) (by unfold P80 thetaOf nr4_8 nr4_9; simp only [tf_lit]; norm_num) T h1 h2

noncomputable def P81 : Piece := { a := (647095268459 / 1000000000 : ℝ), b := (129420611589 / 200000000 : ℝ), Alo := (11242826 / 25 : ℝ), Ahi := (449732213 / 1000 : ℝ), Blo := (-2603385701 / 1000 : ℝ), Bhi := (-650826803 / 250 : ℝ), Clo := (3529438501 / 1000 : ℝ), Chi := (3529551293 / 1000 : ℝ), ACmax := (1587352913898 : ℝ), ACmin := (1587234517777 : ℝ), slo := (6540617589 / 10000 : ℝ), shi := (6547358529 / 10000 : ℝ), βlo := (2166548081531 / 1000000000000 : ℝ), βhi := (1083558947277 / 500000000000 : ℝ), Mg := (-21836427 / 1000 : ℝ), Mh := (263313 / 125 : ℝ) }
theorem P81_ok : P81.ok := by
  unfold Piece.ok P81 satA satB satC nr4_0 nr4_1 nr4_2 nr4_3 nr4_4 nr4_5 nr4_6 nr4_7 pmin pstar4 pcritical
  simp only [tf_lit]
  norm_num
theorem T81 (T : ℝ) (h1 : (32350983637 / 50000000 : ℝ) ≤ T) (h2 : T ≤ (16175681989 / 25000000 : ℝ)) : Branch (thetaOf T) :=
  P81.branchT P81_ok (32350983637 / 50000000 : ℝ) (16175681989 / 25000000 : ℝ) (by unfold nr4_9; rw [tf_lit]; norm_num)
    (by unfold P81 thetaOf nr4_8 nr4_9; simp only [tf_lit]; norm_num) (by unfold P81 thetaOf nr4_8 nr4_9; simp only [tf_lit]; norm_num) T h1 h2

noncomputable def P82 : Piece := { a := (80887882243 / 125000000 : ℝ), b := (129422169661 / 200000000 : ℝ), Alo := (112433053 / 250 : ℝ), Ahi := (449751387 / 1000 : ℝ), Blo := (-2603464199 / 1000 : ℝ), Bhi := (-2603385699 / 1000 : ℝ), Clo := (882387823 / 250 : ℝ), Chi := (1764832049 / 500 : ℝ), ACmax := (1587471323720 : ℝ), ACmin := (1587352909918 : ℝ), slo := (1308024163 / 2000 : ℝ), shi := (327343167 / 500 : ℝ), βlo := (2166598047727 / 1000000000000 : ℝ), βhi := (2167167988589 / 1000000000000 : ℝ), Mg := (-21837509 / 1000 : ℝ), Mh := (421253 / 200 : ℝ) }
theorem P82_ok : P82.ok := by
  unfold Piece.ok P82 satA satB satC nr4_0 nr4_1 nr4_2 nr4_3 nr4_4 nr4_5 nr4_6 nr4_7 pmin pstar4 pcritical
  simp only [tf_lit]
  norm_num
theorem T82 (T : ℝ) (h1 : (16175681989 / 25000000 : ℝ) ≤ T) (h2 : T ≤ (64703488637 / 100000000 : ℝ)) : Branch (thetaOf T) :=
  P82.branchT P82_ok (16175681989 / 25000000 : ℝ) (64703488637 / 100000000 : ℝ) (by unfold nr4_9; rw [tf_lit]; norm_num)
    (by unfold P82 thetaOf nr4_8 nr4_9; simp only [tf_lit]; norm_num) (by unfold P82 thetaOf nr4_8 nr4_9; simp only [tf_lit]; norm_num) T h1 h2

noncomputable def P83 : Piece := { a := (40444428019 / 62500000 : ℝ), b := (647118639557 / 1000000000 : ℝ), Alo := (224875693 / 500 : ℝ), Ahi := (112442641 / 250 : ℝ), Blo := (-2603542709 / 1000 : ℝ), Bhi := (-1301732099 / 500 : ℝ), Clo := (3529664097 / 1000 : ℝ), Chi := (3529776917 / 1000 : ℝ), ACmax := (1587589754754 : ℝ), ACmin := (1587471319740 : ℝ), slo := (817452991 / 1250 : ℝ), shi := (6546368143 / 10000 : ℝ), βlo := (108332400709 / 50000000000 : ℝ), βhi := (2167218089869 / 1000000000000 : ℝ), Mg := (-2183859 / 100 : ℝ), Mh := (84241 / 40 : ℝ) }
theorem P83_ok : P83.ok := by
  unfold Piece.ok P83 satA satB satC nr4_0 nr4_1 nr4_2 nr4_3 nr4_4 nr4_5 nr4_6 nr4_7 pmin pstar4 pcritical
  simp only [tf_lit]
  norm_num
theorem T83 (T : ℝ) (h1 : (64703488637 / 100000000 : ℝ) ≤ T) (h2 : T ≤ (32352124659 / 50000000 : ℝ)) : Branch (thetaOf T) :=
  P83.branchT P83_ok (64703488637 / 100000000 : ℝ) (32352124659 / 50000000 : ℝ) (by unfold nr4_9; rw [tf_lit]; norm_num)
    (by unfold P83 thetaOf nr4_8 nr4_9; simp only [tf_lit]; norm_num) (by unfold P83 thetaOf nr4_8 nr4_9; simp only [tf_lit]; norm_num) T h1 h2

noncomputable def P84 : Piece := { a := (161779659889 / 250000000 : ℝ), b := (161781607929 / 250000000 : ℝ), Alo := (449770563 / 1000 : ℝ), Ahi := (224894871 / 500 : ℝ), Blo := (-260362123 / 100 : ℝ), Bhi := (-650885677 / 250 : ℝ), Clo := (882444229 / 250 : ℝ), Chi := (441236219 / 125 : ℝ), ACmax := (1587708200841 : ℝ), ACmin := (1587589750773 : ℝ), slo := (3269563537 / 5000 : ℝ), shi := (6545872793 / 10000 : ℝ), βlo := (541674497799 / 250000000000 : ℝ), βhi := (541817047643 / 250000000000 : ℝ), Mg := (-2729959 / 125 : ℝ), Mh := (421157 / 200 : ℝ) }
theorem P84_ok : P84.ok := by
  unfold Piece.ok P84 satA satB satC nr4_0 nr4_1 nr4_2 nr4_3 nr4_4 nr4_5 nr4_6 nr4_7 pmin pstar4 pcritical
  simp only [tf_lit]
  norm_num
theorem T84 (T : ℝ) (h1 : (32352124659 / 50000000 : ℝ) ≤ T) (h2 : T ≤ (6470501 / 10000 : ℝ)) : Branch (thetaOf T) :=
  P84.branchT P84_ok (32352124659 / 50000000 : ℝ) (6470501 / 10000 : ℝ) (by unfold nr4_9; rw [tf_lit]; norm_num)
    (by unfold P84 thetaOf nr4_8 nr4_9; simp only [tf_lit]; norm_num) (by unfold P84 thetaOf nr4_8 nr4_9; simp only [tf_lit]; norm_num) T h1 h2

theorem cover3 (T : ℝ) (h0 : (64662411843 / 100000000 : ℝ) ≤ T) (hN : T ≤ (6470501 / 10000 : ℝ)) : Branch (thetaOf T) := by
  by_cases c66 : T ≤ (32334248647 / 50000000 : ℝ)
  · exact T66 T h0 c66
  have g66 := le_of_lt (not_le.mp c66)
  by_cases c67 : T ≤ (12934916549 / 20000000 : ℝ)
  · exact T67 T g66 c67
  have g67 := le_of_lt (not_le.mp c67)
  by_cases c68 : T ≤ (6467762547 / 10000000 : ℝ)
  · exact T68 T g67 c68
  have g68 := le_of_lt (not_le.mp c68)
  by_cases c69 : T ≤ (16170167049 / 25000000 : ℝ)
  · exact T69 T g68 c69
  have g69 := le_of_lt (not_le.mp c69)
  by_cases c70 : T ≤ (32341855461 / 50000000 : ℝ)
  · exact T70 T g69 c70
  have g70 := le_of_lt (not_le.mp c70)
  by_cases c71 : T ≤ (64686753647 / 100000000 : ℝ)
  · exact T71 T g70 c71
  have g71 := le_of_lt (not_le.mp c71)
  by_cases c72 : T ≤ (16172449093 / 25000000 : ℝ)
  · exact T72 T g71 c72
  have g72 := le_of_lt (not_le.mp c72)
  by_cases c73 : T ≤ (32346419549 / 50000000 : ℝ)
  · exact T73 T g72 c73
  have g73 := le_of_lt (not_le.mp c73)
  by_cases c74 : T ≤ (64694360461 / 100000000 : ℝ)
  · exact T74 T g73 c74
  have g74 := le_of_lt (not_le.mp c74)
  by_cases c75 : T ≤ (2021746307 / 3125000 : ℝ)
  · exact T75 T g74 c75
  have g75 := le_of_lt (not_le.mp c75)
  by_cases c76 : T ≤ (32348701593 / 50000000 : ℝ)
  · exact T76 T g75 c76
  have g76 := le_of_lt (not_le.mp c76)
  by_cases c77 : T ≤ (64698924549 / 100000000 : ℝ)
  · exact T77 T g76 c77
  have g77 := le_of_lt (not_le.mp c77)
  by_cases c78 : T ≤ (8087555739 / 12500000 : ℝ)
  · exact T78 T g77 c78
  have g78 := le_of_lt (not_le.mp c78)
  by_cases c79 : T ≤ (64701206593 / 100000000 : ℝ)
  · exact T79 T g78 c79
  have g79 := le_of_lt (not_le.mp c79)
  by_cases c80 : T ≤ (32350983637 / 50000000 : ℝ)
  · exact T80 T g79 c80
  have g80 := le_of_lt (not_le.mp c80)
  by_cases c81 : T ≤ (16175681989 / 25000000 : ℝ)
  · exact T81 T g80 c81
  have g81 := le_of_lt (not_le.mp c81)
  by_cases c82 : T ≤ (64703488637 / 100000000 : ℝ)
  · exact T82 T g81 c82
  have g82 := le_of_lt (not_le.mp c82)
  by_cases c83 : T ≤ (32352124659 / 50000000 : ℝ)
  · exact T83 T g82 c83
  have g83 := le_of_lt (not_le.mp c83)
  exact T84 T g83 hN

end Proofs.Iapws.Cover
