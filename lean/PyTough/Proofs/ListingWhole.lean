/-
  The table-reading loops of the whole-file reader (Model/ListingFile.lean) over the lines of one printed table:
  one row per printed data line, the row reader applied to that line, the file left just behind the table.
  This file: the vocabulary (table body, row updates) and the TOUGH2 family (read_table_TOUGH2, which TOUGH2,
  TOUGH2_MP, TOUGH3, TOUGHREACT and TOUGH+ are all bound to).  Core Lean only.
-/
import PyTough.Model.ListingFile
import PyTough.Proofs.Listing
import PyTough.Proofs.ListingFile
namespace Proofs.Whole
open Py Model Model.Listing Proofs.Listing

/-- the lines of a table body: each printed data line followed by the lines skipped after it (blank lines, repeated
    headers, unit lines) -/
def flat : List (Str × List Str) → List Str
  | [] => []
  | sg :: r => sg.1 :: (sg.2 ++ flat r)

theorem flat_length (segs : List (Str × List Str)) :
    (flat segs).length = segs.length + (segs.map (·.2.length)).sum := by
  induction segs with
  | nil => rfl
  | cons sg r ih => simp only [flat, List.length_cons, List.length_append, ih, List.map_cons, List.sum_cons]; omega

/-- `self._data[i, :] = vals` for a list of (row, values), in file order -/
def applyRows (data : Array (Array FVal)) : List (Nat × List FVal) → Array (Array FVal)
  | [] => data
  | u :: r => applyRows (data.set! u.1 u.2.toArray) r

theorem applyRows_size (data : Array (Array FVal)) (ups : List (Nat × List FVal)) :
    (applyRows data ups).size = data.size := by
  induction ups generalizing data with
  | nil => rfl
  | cons u r ih => simp only [applyRows, ih, Array.set!_eq_setIfInBounds, Array.size_setIfInBounds]

/-- a row no line addresses keeps what it held -/
theorem applyRows_untouched (data : Array (Array FVal)) (ups : List (Nat × List FVal)) (i : Nat)
    (h : ∀ u ∈ ups, u.1 ≠ i) : (applyRows data ups)[i]? = data[i]? := by
  induction ups generalizing data with
  | nil => rfl
  | cons u r ih =>
    simp only [applyRows]
    rw [ih _ (fun x hx => h x (List.mem_cons_of_mem _ hx))]
    have := h u List.mem_cons_self
    simp only [Array.set!_eq_setIfInBounds]
    rw [Array.getElem?_setIfInBounds_ne this]

/-- a row holds the values of the last line that addresses it -/
theorem applyRows_last (data : Array (Array FVal)) (pre post : List (Nat × List FVal)) (i : Nat) (v : List FVal)
    (hi : i < data.size) (h : ∀ u ∈ post, u.1 ≠ i) :
    (applyRows data (pre ++ (i, v) :: post))[i]? = some v.toArray := by
  induction pre generalizing data with
  | nil =>
    simp only [List.nil_append, applyRows]
    rw [applyRows_untouched _ _ _ h]
    simp only [Array.set!_eq_setIfInBounds]
    rw [Array.getElem?_setIfInBounds_self_of_lt hi]
  | cons u r ih =>
    simp only [List.cons_append, applyRows]
    exact ih _ (by simpa using hi)

/-! ### TOUGH2 family -/

/-- what one printed data line contributes: the row its key addresses (`table[key] = …`) and the values
    `read_table_line_TOUGH2` cuts out of it; `none` when the real code would raise on this line -/
def rowOfLineT (rows : Array Key) (kp : List Int) (nc : Nat) (np : List (Option Int)) (d : Str) : Option (Nat × List FVal) :=
  match keyFromLine d kp, readTableLineTOUGH2 d nc np with
  | .ok key, .ok vals =>
    match lastIdx rows key with
    | some i => if vals.length = nc then some (i, vals) else none
    | none => none
  | _, _ => none

theorem flat_cons_drop (d : Str) (sk : List Str) (more : List Str) :
    ((d :: (sk ++ more)).drop 1).drop sk.length = more := by
  simp

/-- **the row loop of read_table_TOUGH2 over a table body**: with the recorded `skiplines` equal to the numbers of
    lines between consecutive data lines, the loop reads exactly the data lines, in order, stores for each the
    values of the row reader under the row its key addresses, and leaves exactly the lines behind the body. -/
theorem readRowsL_body (kp : List Int) (nc : Nat) (np : List (Option Int)) (segs : List (Str × List Str)) (after : List Str)
    (t : Table) (hnc : t.cols.length = nc) (ups : List (Nat × List FVal))
    (hups : segs.map (fun sg => rowOfLineT t.rows kp nc np sg.1) = ups.map some) :
    readRowsL kp nc np (segs.map (·.2.length)) (flat segs ++ after) t
      = .ok ({ t with data := applyRows t.data ups }, after) := by
  induction segs generalizing t ups with
  | nil =>
    cases ups with
    | nil => rfl
    | cons _ _ => simp at hups
  | cons sg r ih =>
    cases ups with
    | nil => simp at hups
    | cons u ur =>
      simp only [List.map_cons, List.cons.injEq] at hups
      obtain ⟨h1, h2⟩ := hups
      simp only [List.map_cons, flat, List.cons_append, List.append_assoc, readRowsL, List.headD_cons]
      unfold rowOfLineT at h1
      split at h1
      · rename_i key vals hk hv
        rw [hk, hv]
        simp only
        split at h1
        · rename_i i hi
          split at h1
          · rename_i hlen
            have hu : u = (i, vals) := by injection h1 with h1; exact h1.symm
            have hlt := (lastIdx_spec hi).1
            have hset : t.setRow key vals = .ok { t with data := t.data.set! i vals.toArray } := by
              unfold Table.setRow
              rw [hi]
              unfold Table.setRowAt
              simp only
              rw [if_neg (by omega), if_pos (by omega)]
            rw [hset]
            simp only
            rw [flat_cons_drop]
            rw [ih { t with data := t.data.set! i vals.toArray } hnc ur h2]
            simp only [applyRows, hu]
          · cases h1
        · cases h1
      · cases h1

/-! ### the reader machine: small run lemmas -/

theorem bind_ok {α β : Type} (x : M α) (f : α → M β) (s s' : Rd) (a : α) (h : x s = .ok (a, s')) :
    (x >>= f) s = f a s' := by
  show (x s >>= _) = _
  rw [h]; rfl

theorem getTable_ok (tn : String) (t : Table) (s : Rd) (h : s.tables.lookup tn = some t) :
    getTable tn s = .ok (t, s) := by
  unfold getTable
  simp only [bind, StateT.bind, get, getThe, MonadStateOf.get, StateT.get, Except.bind, h, pure, StateT.pure, Except.pure]

theorem readline_cons (s : Rd) (l : Str) (r : List Str) (h : s.pos.rest = l :: r) :
    readline s = .ok (l, { s with pos := ⟨s.pos.no + 1, r⟩ }) := by
  unfold readline liftC Cu.readline
  simp only [bind, ReaderT.bind, StateT.bind, get, getThe, MonadStateOf.get, liftM, monadLift,
          MonadLift.monadLift, StateT.get, ReaderT.pure, StateT.pure, pure, Except.bind, Except.pure, h, set, StateT.set]

theorem readline_nil (s : Rd) (h : s.pos.rest = []) :
    readline s = .ok ([], s) := by
  unfold readline liftC Cu.readline
  simp only [bind, ReaderT.bind, StateT.bind, get, getThe, MonadStateOf.get, liftM, monadLift,
          MonadLift.monadLift, StateT.get, ReaderT.pure, StateT.pure, pure, Except.bind, Except.pure, h]

/-- `skiplines(n)` on the cursor: `n` lines further, the line number with it (it stays at end of file) -/
theorem cu_skiplines (n : Nat) (env : Rd) (c : Cur) :
    Cu.skiplines n env c = .ok ((), { c with pos := ⟨c.pos.no + min n c.pos.rest.length, c.pos.rest.drop n⟩ }) := by
  induction n generalizing c with
  | zero => simp [Cu.skiplines, pure, ReaderT.pure, StateT.pure, Except.pure]
  | succ k ih =>
    cases hr : c.pos.rest with
    | nil =>
      have := ih c
      simp only [Cu.skiplines, bind, ReaderT.bind, StateT.bind, Cu.readline, get, getThe, MonadStateOf.get, liftM, monadLift,
          MonadLift.monadLift, StateT.get, ReaderT.pure, StateT.pure, pure, Except.bind, Except.pure, hr]
      rw [this, hr]; simp
    | cons l r =>
      have := ih { c with pos := ⟨c.pos.no + 1, r⟩ }
      simp only [Cu.skiplines, bind, ReaderT.bind, StateT.bind, Cu.readline, get, getThe, MonadStateOf.get, liftM, monadLift,
          MonadLift.monadLift, StateT.get, ReaderT.pure, StateT.pure, pure, Except.bind, Except.pure, hr, set, StateT.set]
      rw [this]
      simp only [List.length_cons, List.drop_succ_cons]
      have : c.pos.no + 1 + min k r.length = c.pos.no + min (k + 1) (r.length + 1) := by omega
      rw [this]

theorem skiplines_run (n : Nat) (s : Rd) :
    skiplines n s = .ok ((), { s with pos := ⟨s.pos.no + min n s.pos.rest.length, s.pos.rest.drop n⟩ }) := by
  unfold skiplines liftC
  rw [cu_skiplines]


def putT (tn : String) (t : Table) (tables : List (String × Table)) : List (String × Table) :=
  tables.map fun (n, x) => if n = tn then (n, t) else (n, x)

theorem putTable_present (tn : String) (t : Table) (s : Rd) (h : (s.tables.lookup tn).isSome = true) :
    putTable tn t s = .ok ((), { s with tables := putT tn t s.tables }) := by
  unfold putTable
  simp only [modify, modifyGet, MonadStateOf.modifyGet, StateT.modifyGet, pure, Except.pure, h, if_true, putT]

theorem putT_lookup_self (tn : String) (t : Table) (tables : List (String × Table)) (h : (tables.lookup tn).isSome = true) :
    (putT tn t tables).lookup tn = some t := by
  induction tables with
  | nil => simp [List.lookup] at h
  | cons x r ih =>
    obtain ⟨n, y⟩ := x
    simp only [putT, List.map_cons]
    by_cases hn : n = tn
    · simp [hn, List.lookup]
    · have hne : (tn == n) = false := by simp; exact fun e => hn e.symm
      simp only [List.lookup, hne] at h
      rw [if_neg hn]
      simp only [List.lookup, hne]
      exact ih h

theorem putT_lookup_other (tn m : String) (t : Table) (tables : List (String × Table)) (hm : m ≠ tn) :
    (putT tn t tables).lookup m = tables.lookup m := by
  induction tables with
  | nil => rfl
  | cons x r ih =>
    obtain ⟨n, y⟩ := x
    simp only [putT, List.map_cons]
    by_cases hn : n = tn
    · rw [if_pos hn]
      have hne : (m == n) = false := by simp [hn, hm]
      simp only [List.lookup, hne]; exact ih
    · rw [if_neg hn]
      simp only [List.lookup]
      cases m == n
      · exact ih
      · rfl

theorem putT_names (tn : String) (t : Table) (tables : List (String × Table)) :
    (putT tn t tables).map (·.1) = tables.map (·.1) := by
  unfold putT
  rw [List.map_map]
  apply List.map_congr_left
  intro x _
  obtain ⟨n, y⟩ := x
  simp only [Function.comp]
  split <;> rfl

/-- **read_table_TOUGH2 on the lines of a printed table.** -/
theorem readTableTOUGH2_run (tn : String) (t : Table) (s : Rd) (header : List Str) (segs : List (Str × List Str))
    (after : List Str) (ups : List (Nat × List FVal))
    (ht : s.tables.lookup tn = some t)
    (hrest : s.pos.rest = header ++ (flat segs ++ after))
    (hh : header.length = t.headerSkip) (hsk : segs.map (·.2.length) = t.skips)
    (hups : segs.map (fun sg => rowOfLineT t.rows t.keyPos t.cols.length t.numpos sg.1) = ups.map some) :
    readTableTOUGH2 tn s = .ok ((), { s with pos := ⟨s.pos.no + (header.length + (flat segs).length), after⟩,
                                             tables := putT tn { t with data := applyRows t.data ups } s.tables }) := by
  unfold readTableTOUGH2
  rw [bind_ok _ _ _ _ _ (getTable_ok tn t s ht)]
  rw [bind_ok _ _ _ _ _ (skiplines_run _ s)]
  have hdrop : s.pos.rest.drop t.headerSkip = flat segs ++ after := by
    rw [hrest, ← hh]; simp
  have hbody := readRowsL_body t.keyPos t.cols.length t.numpos segs after t rfl ups hups
  rw [hsk] at hbody
  simp only [bind, StateT.bind, get, getThe, MonadStateOf.get, StateT.get, Except.bind, hdrop, hbody, set, StateT.set, pure, Except.pure]
  rw [putTable_present]
  · congr 3
    simp only [hrest, List.length_append]
    congr 1
    omega
  · simp [ht]


/-- **skip_table_TOUGH2 on the lines of the same printed table** (a table that was set up, with as many rows as
    printed data lines, i.e. no row printed twice): the file is left exactly where reading the table leaves it. -/
theorem skipTableTOUGH2_run (tn : String) (t : Table) (s : Rd) (header : List Str) (segs : List (Str × List Str))
    (after : List Str)
    (ht : s.tables.lookup tn = some t)
    (hrest : s.pos.rest = header ++ (flat segs ++ after))
    (hh : header.length = t.headerSkip) (hsk : segs.map (·.2.length) = t.skips) (hrows : t.rows.size = segs.length) :
    skipTableTOUGH2 tn s = .ok ((), { s with pos := ⟨s.pos.no + (header.length + (flat segs).length), after⟩ }) := by
  unfold skipTableTOUGH2
  simp only [bind, StateT.bind, get, getThe, MonadStateOf.get, StateT.get, Except.bind, pure, Except.pure, ht]
  rw [skiplines_run]
  have hn : t.headerSkip + t.rows.size + t.skips.sum = header.length + (flat segs).length := by
    rw [flat_length, hrows, ← hsk, hh]; omega
  rw [hn, hrest]
  have hd : List.drop (header.length + (flat segs).length) (header ++ (flat segs ++ after)) = after := by
    rw [← List.append_assoc, List.drop_left' (by simp)]
  have hm : min (header.length + (flat segs).length) (header ++ (flat segs ++ after)).length
      = header.length + (flat segs).length := by
    simp only [List.length_append]; omega
  rw [hd, hm]


/-! ### from the list of row updates to statements about single printed lines -/

theorem map_eq_map_some_filterMap {α β : Type} (f : α → Option β) (L : List α) (h : ∀ x ∈ L, (f x).isSome = true) :
    L.map f = (L.filterMap f).map some := by
  induction L with
  | nil => rfl
  | cons x r ih =>
    have hx := h x List.mem_cons_self
    cases hfx : f x with
    | none => rw [hfx] at hx; cases hx
    | some y =>
      simp only [List.map_cons, List.filterMap_cons, hfx, List.cons.injEq, true_and]
      exact ih (fun z hz => h z (List.mem_cons_of_mem _ hz))

/-- the row addressed by line `j` holds the values read from line `j`, unless a later line addresses the same row -/
theorem applyRows_line {α : Type} (f : α → Option (Nat × List FVal)) (L : List α) (data : Array (Array FVal))
    (j : Nat) (d : α) (i : Nat) (vals : List FVal) (hj : L[j]? = some d) (hf : f d = some (i, vals)) (hi : i < data.size)
    (hlater : ∀ j' d', j < j' → L[j']? = some d' → ∀ v', f d' ≠ some (i, v')) :
    (applyRows data (L.filterMap f))[i]? = some vals.toArray := by
  have hjl : j < L.length := by
    rcases Nat.lt_or_ge j L.length with h | h
    · exact h
    · rw [List.getElem?_eq_none h] at hj; cases hj
  have hd : L[j] = d := by
    have := List.getElem?_eq_getElem hjl
    rw [this] at hj; injection hj
  have hsplit : L = L.take j ++ d :: L.drop (j + 1) := by
    rw [← hd]; simp
  rw [hsplit, List.filterMap_append, List.filterMap_cons, hf]
  apply applyRows_last _ _ _ _ _ hi
  intro u hu
  obtain ⟨d', hd', hfd'⟩ := List.mem_filterMap.mp hu
  obtain ⟨k, hk, hkd⟩ := List.getElem_of_mem hd'
  intro hui
  have hk' : k < L.length - (j + 1) := by simpa using hk
  have : L[j + 1 + k]? = some d' := by
    rw [List.getElem_drop] at hkd
    rw [List.getElem?_eq_getElem (by omega)]; rw [hkd]
  apply hlater (j + 1 + k) d' (by omega) this u.2
  rw [hfd', ← hui]

/-- a row that no printed line addresses keeps what it held -/
theorem applyRows_no_line {α : Type} (f : α → Option (Nat × List FVal)) (L : List α) (data : Array (Array FVal)) (i : Nat)
    (h : ∀ d ∈ L, ∀ v, f d ≠ some (i, v)) : (applyRows data (L.filterMap f))[i]? = data[i]? := by
  apply applyRows_untouched
  intro u hu hui
  obtain ⟨d, hd, hfd⟩ := List.mem_filterMap.mp hu
  apply h d hd u.2
  rw [hfd, ← hui]

/-- the meaning of `rowOfLineT` -/
theorem rowOfLineT_spec (rows : Array Key) (kp : List Int) (nc : Nat) (np : List (Option Int)) (d : Str) (i : Nat) (vals : List FVal) :
    rowOfLineT rows kp nc np d = some (i, vals) ↔
      ∃ key, keyFromLine d kp = .ok key ∧ lastIdx rows key = some i ∧ readTableLineTOUGH2 d nc np = .ok vals ∧ vals.length = nc := by
  unfold rowOfLineT
  constructor
  · intro h
    split at h
    · rename_i key v hk hv
      split at h
      · rename_i i' hi
        split at h
        · rename_i hl
          injection h with h; injection h with h1 h2
          subst h1; subst h2
          exact ⟨key, hk, hi, hv, hl⟩
        · cases h
      · cases h
    · cases h
  · intro ⟨key, hk, hi, hv, hl⟩
    rw [hk, hv]
    simp only [hi, hl, if_true]

end Proofs.Whole
