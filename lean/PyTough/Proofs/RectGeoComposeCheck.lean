/-
  Proofs for C18, composition: a decidable check `latticeOk` that implies `Lattice` (bounded
  quantifiers as `List.range` loops), and a concrete 2 x 2 x 2 lattice with an atmosphere block
  (non-vacuity example of `Props.C18.rectgeo_spacings_lattice_partial`).
-/
import PyTough.Proofs.RectGeoComposeTop
import PyTough.Proofs.FromGeoExample
namespace Proofs.RectGeo
open Py Model.FromGeo Model.RectGeo

def allLe (n : Nat) (p : Nat → Bool) : Bool := (List.range (n + 1)).all p
def allLt (n : Nat) (p : Nat → Bool) : Bool := (List.range n).all p
def anyLe (n : Nat) (p : Nat → Bool) : Bool := (List.range (n + 1)).any p
def anyLt (n : Nat) (p : Nat → Bool) : Bool := (List.range n).any p

theorem allLe_iff (n : Nat) (p : Nat → Bool) : allLe n p = true ↔ ∀ i, i ≤ n → p i = true := by
  simp only [allLe, List.all_eq_true, List.mem_range]
  constructor
  · intro h i hi; exact h i (by omega)
  · intro h i hi; exact h i (by omega)
theorem allLt_iff (n : Nat) (p : Nat → Bool) : allLt n p = true ↔ ∀ i, i < n → p i = true := by
  simp only [allLt, List.all_eq_true, List.mem_range]
theorem anyLe_iff (n : Nat) (p : Nat → Bool) : anyLe n p = true ↔ ∃ i, i ≤ n ∧ p i = true := by
  simp only [anyLe, List.any_eq_true, List.mem_range]
  constructor
  · rintro ⟨i, hi, h⟩; exact ⟨i, by omega, h⟩
  · rintro ⟨i, hi, h⟩; exact ⟨i, by omega, h⟩
theorem anyLt_iff (n : Nat) (p : Nat → Bool) : anyLt n p = true ↔ ∃ i, i < n ∧ p i = true := by
  simp only [anyLt, List.any_eq_true, List.mem_range]

/-- the decidable form of `Lattice` -/
def latticeOk (T : TGrid) (mv : Rat) (nx ny nz : Nat) (blk : Nat → Nat → Nat → GBlock)
    (cx cy cz : Nat → Nat → Nat → GConn) : Bool :=
  (allLe nx fun i => allLe ny fun j => allLe nz fun l => allLe nx fun i' => allLe ny fun j' => allLe nz fun l' =>
    !decide ((blk i j l).name = (blk i' j' l').name) || decide (i = i' ∧ j = j' ∧ l = l')) &&
  (allLe nx fun i => allLe ny fun j => allLe nz fun l =>
    decide (findB T (blk i j l).name = .ok (blk i j l)) && volOk (some mv) (blk i j l)) &&
  (allLt nx fun i => allLe ny fun j => allLe nz fun l =>
    decide (cx i j l ∈ T.conns ∧ (cx i j l).dirn = 1) && joins (cx i j l) (blk i j l).name (blk (i + 1) j l).name) &&
  (allLe nx fun i => allLt ny fun j => allLe nz fun l =>
    decide (cy i j l ∈ T.conns ∧ (cy i j l).dirn = 2) && joins (cy i j l) (blk i j l).name (blk i (j + 1) l).name) &&
  (allLe nx fun i => allLe ny fun j => allLt nz fun l =>
    decide (cz i j l ∈ T.conns ∧ (cz i j l).dirn = 3) && joins (cz i j l) (blk i j l).name (blk i j (l + 1)).name) &&
  (T.conns.all fun c => allLe nx fun i => allLe ny fun j => allLe nz fun l =>
    !touches c (blk i j l).name ||
    (anyLt nx fun i' => anyLe ny fun j' => anyLe nz fun l' => decide (c = cx i' j' l')) ||
    (anyLe nx fun i' => anyLt ny fun j' => anyLe nz fun l' => decide (c = cy i' j' l')) ||
    (anyLe nx fun i' => anyLe ny fun j' => anyLt nz fun l' => decide (c = cz i' j' l')) ||
    inadmissible T (some mv) (blk i j l).name c)

theorem latticeOk_sound {T : TGrid} {mv : Rat} {nx ny nz : Nat} {blk : Nat → Nat → Nat → GBlock}
    {cx cy cz : Nat → Nat → Nat → GConn} (h : latticeOk T mv nx ny nz blk cx cy cz = true) :
    Lattice T mv nx ny nz blk cx cy cz := by
  simp only [latticeOk, Bool.and_eq_true, allLe_iff, allLt_iff, anyLe_iff, anyLt_iff, Bool.or_eq_true,
    Bool.not_eq_true', decide_eq_true_eq, decide_eq_false_iff_not, List.all_eq_true] at h
  obtain ⟨⟨⟨⟨⟨h1, h2⟩, h3⟩, h4⟩, h5⟩, h6⟩ := h
  refine ⟨?_, ?_, ?_, ?_, ?_, ?_, ?_⟩
  · intro i j l i' j' l' a b c a' b' c' e
    rcases h1 i a j b l c i' a' j' b' l' c' with h | h
    · exact absurd e h
    · exact h
  · intro i j l a b c; exact (h2 i a j b l c).1
  · intro i j l a b c; exact (h2 i a j b l c).2
  · intro i j l a b c; exact ⟨(h3 i a j b l c).1.1, (h3 i a j b l c).1.2, (h3 i a j b l c).2⟩
  · intro i j l a b c; exact ⟨(h4 i a j b l c).1.1, (h4 i a j b l c).1.2, (h4 i a j b l c).2⟩
  · intro i j l a b c; exact ⟨(h5 i a j b l c).1.1, (h5 i a j b l c).1.2, (h5 i a j b l c).2⟩
  · intro c hc i j l a b d ht
    rcases h6 c hc i a j b l d with (((h | h) | h) | h) | h
    · rw [ht] at h; cases h
    · obtain ⟨i', a1, j', a2, l', a3, e⟩ := h; exact Or.inl ⟨i', j', l', a1, a2, a3, e⟩
    · obtain ⟨i', a1, j', a2, l', a3, e⟩ := h; exact Or.inr (Or.inl ⟨i', j', l', a1, a2, a3, e⟩)
    · obtain ⟨i', a1, j', a2, l', a3, e⟩ := h; exact Or.inr (Or.inr (Or.inl ⟨i', j', l', a1, a2, a3, e⟩))
    · exact Or.inr (Or.inr (Or.inr h))

/-! ### a 2 x 2 x 2 lattice under one atmosphere block -/
namespace Ex2

def dg (i : Nat) : Char := if i = 0 then '0' else if i = 1 then '1' else '2'
def wx (i : Nat) : Rat := if i = 0 then 2 else 4
def wy (j : Nat) : Rat := if j = 0 then 3 else 5
def wz (l : Nat) : Rat := if l = 0 then 1 else 2
def px (i : Nat) : Rat := if i = 0 then 1 else 4
def py (j : Nat) : Rat := if j = 0 then 3 / 2 else 11 / 2
def pz (l : Nat) : Rat := if l = 0 then -1 / 2 else -2
def blk (i j l : Nat) : GBlock := ⟨['b', dg i, dg j, dg l, ' '], wx i * wy j * wz l, some ⟨px i, py j, pz l⟩⟩
def atm : GBlock := ⟨['A', 'T', 'M', ' ', '0'], 10 ^ 25, none⟩
def cx (i j l : Nat) : GConn := ⟨(blk i j l).name, (blk (i + 1) j l).name, 1, wx i / 2, wx (i + 1) / 2⟩
def cy (i j l : Nat) : GConn := ⟨(blk i j l).name, (blk i (j + 1) l).name, 2, wy j / 2, wy (j + 1) / 2⟩
/-- stored as `fromgeo` stores vertical connections: lower block first -/
def cz (i j l : Nat) : GConn := ⟨(blk i j (l + 1)).name, (blk i j l).name, 3, wz (l + 1) / 2, wz l / 2⟩
def ca (i j : Nat) : GConn := ⟨(blk i j 0).name, atm.name, 3, wz 0 / 2, 1 / 1000000⟩
def grid : TGrid :=
  ⟨atm :: [blk 0 0 0, blk 1 0 0, blk 0 1 0, blk 1 1 0, blk 0 0 1, blk 1 0 1, blk 0 1 1, blk 1 1 1],
   [ca 0 0, ca 1 0, ca 0 1, ca 1 1, cx 0 0 0, cx 0 1 0, cy 0 0 0, cy 1 0 0,
    cz 0 0 0, cz 1 0 0, cz 0 1 0, cz 1 1 0, cx 0 0 1, cx 0 1 1, cy 0 0 1, cy 1 0 1]⟩

theorem ok : latticeOk grid (10 ^ 20) 1 1 1 blk cx cy cz = true := by decide +kernel

theorem lattice : Lattice grid (10 ^ 20) 1 1 1 blk cx cy cz := latticeOk_sound ok

theorem layered : Layered grid (10 ^ 20) 1 1 1 blk pz where
  cover := by
    intro b hb hv
    simp only [grid, List.mem_cons, List.not_mem_nil, or_false] at hb
    rcases hb with rfl | rfl | rfl | rfl | rfl | rfl | rfl | rfl | rfl
    · exact absurd hv (by decide +kernel)
    · exact ⟨0, 0, 0, by omega, by omega, by omega, rfl⟩
    · exact ⟨1, 0, 0, by omega, by omega, by omega, rfl⟩
    · exact ⟨0, 1, 0, by omega, by omega, by omega, rfl⟩
    · exact ⟨1, 1, 0, by omega, by omega, by omega, rfl⟩
    · exact ⟨0, 0, 1, by omega, by omega, by omega, rfl⟩
    · exact ⟨1, 0, 1, by omega, by omega, by omega, rfl⟩
    · exact ⟨0, 1, 1, by omega, by omega, by omega, rfl⟩
    · exact ⟨1, 1, 1, by omega, by omega, by omega, rfl⟩
  cen := fun i j l _ _ _ => ⟨_, rfl, rfl⟩
  dec := by
    intro l l' h1 h2
    have : l = 0 ∧ l' = 1 := by omega
    obtain ⟨rfl, rfl⟩ := this
    decide +kernel

/-- the slice `i = 0` of the lattice as a grid of its own: 1 x 2 x 2 (two-dimensional) -/
def grid2 : TGrid :=
  ⟨[atm, blk 0 0 0, blk 0 1 0, blk 0 0 1, blk 0 1 1],
   [ca 0 0, ca 0 1, cy 0 0 0, cz 0 0 0, cz 0 1 0, cy 0 0 1]⟩

theorem ok2 : latticeOk grid2 (10 ^ 20) 0 1 1 blk cx cy cz = true := by decide +kernel

theorem lattice2 : Lattice grid2 (10 ^ 20) 0 1 1 blk cx cy cz := latticeOk_sound ok2

theorem layered2 : Layered grid2 (10 ^ 20) 0 1 1 blk pz where
  cover := by
    intro b hb hv
    simp only [grid2, List.mem_cons, List.not_mem_nil, or_false] at hb
    rcases hb with rfl | rfl | rfl | rfl | rfl
    · exact absurd hv (by decide +kernel)
    · exact ⟨0, 0, 0, by omega, by omega, by omega, rfl⟩
    · exact ⟨0, 1, 0, by omega, by omega, by omega, rfl⟩
    · exact ⟨0, 0, 1, by omega, by omega, by omega, rfl⟩
    · exact ⟨0, 1, 1, by omega, by omega, by omega, rfl⟩
  cen := fun i j l _ _ _ => ⟨_, rfl, rfl⟩
  dec := by
    intro l l' h1 h2
    have : l = 0 ∧ l' = 1 := by omega
    obtain ⟨rfl, rfl⟩ := this
    decide +kernel

/-- block map entry for the bottom block of column (0,0), keyed by the name the C04 example
    geometry gives the bottom block of its column `a` -/
def mp : BlockMap := [([' ', ' ', 'a', ' ', '2'], (blk 0 0 1).name)]

end Ex2
end Proofs.RectGeo
