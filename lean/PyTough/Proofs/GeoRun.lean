/-
  Histories: every sequence of primitive edits, each sensible when applied, preserves the structural invariant.
-/
import PyTough.Proofs.GeoColumnDel
namespace Proofs.Geo
open Model.Geo Model.Geo.Geo Py

theorem translate_geoInv0 (g : Geo) (dx dy dz : Rat) (w : Bool) (h : g.geoInv0 = true) :
    (g.translate dx dy dz w).geoInv0 = true := by
  have h' := h
  simp only [geoInv0, Bool.and_eq_true] at h'
  obtain ⟨⟨⟨⟨⟨⟨hh, hr⟩, hnc⟩, _⟩, _⟩, _⟩, ho⟩ := h'
  exact geoInv0_congr (translate_sameStructure g dx dy dz w) (translate_orientOK g dx dy dz w hh hr hnc ho) h

theorem setupNames_geoInv0 (g g' : Geo) (hs : g.setupNames = .ok g') (h : g.geoInv0 = true) : g'.geoInv0 = true := by
  unfold setupNames at hs
  obtain ⟨g1, h1, h2⟩ := bind_ok hs
  unfold setupBlockNames at h1
  obtain ⟨b, _, h1'⟩ := bind_ok h1
  unfold setupConnNames at h2
  obtain ⟨c, _, h2'⟩ := bind_ok h2
  simp only [pure, Except.pure, Except.ok.injEq] at h1' h2'
  subst h1'; subst h2'
  exact h

theorem mapM_lookup_mem {g : Geo} (hr : g.registriesOK = true) : ∀ (names : List Name) (ids : List Nat),
    names.mapM (lookup g.nodeD) = .ok ids → ∀ n ∈ ids, n ∈ g.nodelist
  | [], ids, h, n, hn => by
    simp only [List.mapM_nil, pure, Except.pure, Except.ok.injEq] at h; subst h; cases hn
  | a :: t, ids, h, n, hn => by
    simp only [List.mapM_cons] at h
    obtain ⟨i, hi, h⟩ := bind_ok h
    obtain ⟨r, hr', h⟩ := bind_ok h
    simp only [pure, Except.pure, Except.ok.injEq] at h; subst h
    rcases List.mem_cons.mp hn with rfl | hn
    · simp only [lookup] at hi
      cases hg : g.nodeD.get? a with
      | none => rw [hg] at hi; cases hi
      | some j =>
        rw [hg] at hi; simp only [Except.ok.injEq] at hi; subst hi
        simp only [registriesOK, Bool.and_eq_true] at hr
        exact regOK_mem hr.1.1.1.1 hg
    · exact mapM_lookup_mem hr t r hr' n hn

/-- one sensible edit keeps the structural invariant -/
theorem edit_geoInv0 (g g' : Geo) (e : Edit) (hok : g.editOK e = true) (he : g.edit e = .ok g')
    (h : g.geoInv0 = true) : g'.geoInv0 = true := by
  have hr : g.registriesOK = true := by
    have := h; simp only [geoInv0, Bool.and_eq_true] at this; exact this.1.1.1.1.1.2
  cases e with
  | addNode name pos =>
    simp only [Geo.edit, Except.ok.injEq] at he; subst he; exact addNode_geoInv0 g name pos h
  | deleteNode name =>
    apply deleteNode_geoInv0 g g' name he _ h
    intro i hi c hc
    simp only [Geo.editOK, hi, List.all_eq_true, Bool.not_eq_true', List.contains_eq_mem, decide_eq_false_iff_not] at hok
    exact hok c hc
  | addColumn name nodes centre surface nl =>
    simp only [Geo.edit] at he
    simp only [Geo.editOK, Bool.and_eq_true, Bool.not_eq_true'] at hok
    cases hm : nodes.mapM (lookup g.nodeD) with
    | error e => rw [hm] at he; cases he
    | ok ids =>
      rw [hm] at he
      have hok2 := hok.2
      rw [hm] at hok2
      simp only [Bool.and_eq_true, List.all_eq_true, List.contains_eq_mem, decide_eq_true_eq] at hok2
      exact addColumn_geoInv0 g g' name ids centre surface nl he hok.1 hok2.1 hok2.2 h
  | deleteColumn name => exact deleteColumn_geoInv0 g g' name he h
  | addConnection a b =>
    simp only [Geo.edit] at he
    simp only [Geo.editOK] at hok
    cases ha : g.columnD.get? a with
    | none => rw [ha] at he; cases he
    | some c0 =>
      cases hb : g.columnD.get? b with
      | none => rw [ha, hb] at he; cases he
      | some c1 =>
        rw [ha, hb] at he hok
        simp only [Except.ok.injEq] at he; subst he
        simp only [Bool.or_eq_true] at hok
        rcases hok with hp | hc
        · exact addConnection_geoInv0 g c0 c1 (AddConnPre.of_bool hp) h
        · rw [addConnection_eq, if_pos hc]; exact h
  | deleteConnection a b => exact deleteConnection_geoInv0 g g' (a, b) he h
  | addLayer l => simp only [Geo.edit, Except.ok.injEq] at he; subst he; exact addLayer_geoInv0 g l h
  | deleteLayer name => exact deleteLayer_geoInv0 g g' name he h
  | addWell w => simp only [Geo.edit, Except.ok.injEq] at he; subst he; exact addWell_geoInv0 g w h
  | deleteWell name => exact deleteWell_geoInv0 g g' name he h
  | translate dx dy dz w =>
    simp only [Geo.edit, Except.ok.injEq] at he; subst he; exact translate_geoInv0 g dx dy dz w h
  | setupNames => exact setupNames_geoInv0 g g' he h

/-- **any history** of sensible primitive edits keeps the structural invariant -/
theorem run_geoInv0 : ∀ (es : List Edit) (g g' : Geo), g.run es = .ok g' → g.geoInv0 = true → g'.geoInv0 = true
  | [], g, g', hr, h => by simp only [Geo.run, Except.ok.injEq] at hr; subst hr; exact h
  | e :: es, g, g', hr, h => by
    simp only [Geo.run] at hr
    split at hr
    · rename_i hok
      obtain ⟨g1, h1, h2⟩ := bind_ok hr
      exact run_geoInv0 es g1 g' h2 (edit_geoInv0 g g1 e hok h1 h)
    · cases hr

/-- ... and a history that ends by recomputing the name lists (`setup_*`) and in which the layer stack is not
    edited afterwards satisfies the name-list clause as well -/
theorem run_then_setup_fresh (es : List Edit) (g g' : Geo) (hr : g.run (es ++ [Edit.setupNames]) = .ok g')
    (h : g.geoInv0 = true) : g'.geoInv0 = true ∧ g'.namesFresh = true := by
  refine ⟨run_geoInv0 _ g g' hr h, ?_⟩
  induction es generalizing g with
  | nil =>
    simp only [List.nil_append, Geo.run, Geo.editOK, if_true] at hr
    obtain ⟨g1, h1, h2⟩ := bind_ok hr
    simp only [Geo.run, Except.ok.injEq] at h2; subst h2
    exact setupNames_fresh g g1 h1
  | cons e t ih =>
    simp only [List.cons_append, Geo.run] at hr
    split at hr
    · rename_i hok
      obtain ⟨g1, h1, h2⟩ := bind_ok hr
      exact ih g1 h2 (edit_geoInv0 g g1 e hok h1 h)
    · cases hr

end Proofs.Geo
