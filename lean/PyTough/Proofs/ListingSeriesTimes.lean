/-
  history() over all result times: the loop over the result positions visits every position in turn, what it appends at
  one position depends only on that position, and the series of an item is the concatenation, in time order, of what each
  position contributed for it.  Core Lean only.
-/
import PyTough.Model.ListingHistory
namespace Proofs.SeriesTimes
open Py Model Model.Listing

abbrev TSel := List (String × List Sel × List Sel)

/-- what history() appends at ONE result position `pb = (file position, is short output)` with index `ipos`: it seeks there and
    sets the index first, so this does not depend on anything read before -/
def valuesAt (s0 : Rd) (tsel : TSel) (short : Bool) (ft : List String) (env : Rd) (pb : Pos × Bool) (ipos : Nat) :
    Except LErr (List (Nat × FVal)) :=
  if !(pb.2 && !short) then
    match historyBody.tablesAt s0 ft tsel pb.2 none (-1) env ⟨pb.1, ipos⟩ with
    | .ok (h, _) => .ok h
    | .error e => .error e
  else .ok []

/-- visiting every result position in turn (index `i`, `i+1`, …) -/
def visitAll (f : Pos × Bool → Nat → Except LErr (List (Nat × FVal))) : List (Pos × Bool) → Nat → Except LErr (List (List (Nat × FVal)))
  | [], _ => .ok []
  | pb :: more, i =>
    match f pb i with
    | .error e => .error e
    | .ok h =>
      match visitAll f more (i + 1) with
      | .error e => .error e
      | .ok r => .ok (h :: r)

theorem visitAll_length (f) (ps : List (Pos × Bool)) (i : Nat) (r) (h : visitAll f ps i = .ok r) : r.length = ps.length := by
  induction ps generalizing i r with
  | nil => simp only [visitAll] at h; injection h with h; subst h; rfl
  | cons pb more ih =>
    simp only [visitAll] at h
    split at h
    · cases h
    · split at h
      · cases h
      · rename_i r' hr; injection h with h; subst h; simp [ih _ _ hr]

theorem positions_eq (s0 : Rd) (tsel : TSel) (short : Bool) (ft : List String) (ps : List (Pos × Bool)) (ipos : Nat) (env : Rd) (c : Cur) :
    (historyBody.positions s0 tsel short ft ps ipos env c).map (·.1)
      = (visitAll (valuesAt s0 tsel short ft env) ps ipos).map List.flatten := by
  induction ps generalizing ipos c with
  | nil => rfl
  | cons pb more ih =>
    obtain ⟨p, isShort⟩ := pb
    simp only [historyBody.positions, visitAll, valuesAt, bind, ReaderT.bind, StateT.bind, Cu.seek, modify, modifyGet,
      MonadStateOf.modifyGet, StateT.modifyGet, monadLift, MonadLift.monadLift, pure,
      Except.bind, Except.pure]
    have ih' := ih (ipos + 1)
    split
    · simp only [ReaderT.bind, StateT.bind, bind, Except.bind, ReaderT.pure, StateT.pure, pure, Except.pure]
      cases ht : historyBody.tablesAt s0 ft tsel isShort none (-1) env { pos := p, index := (ipos : Int) } with
      | error e => rfl
      | ok hc =>
        obtain ⟨h, c1⟩ := hc
        simp only
        have := ih' c1
        cases hp : historyBody.positions s0 tsel short ft more (ipos + 1) env c1 with
        | error e =>
          rw [hp] at this
          cases hv : visitAll (valuesAt s0 tsel short ft env) more (ipos + 1) with
          | error e' => rw [hv] at this; simp only [Except.map] at this ⊢; exact this
          | ok r => rw [hv] at this; simp only [Except.map] at this; cases this
        | ok rc =>
          rw [hp] at this
          cases hv : visitAll (valuesAt s0 tsel short ft env) more (ipos + 1) with
          | error e' => rw [hv] at this; simp only [Except.map] at this; cases this
          | ok r =>
            rw [hv] at this; simp only [Except.map] at this ⊢
            injection this with this
            simp only [List.flatten_cons, this]
    · simp only [ReaderT.bind, StateT.bind, bind, Except.bind, ReaderT.pure, StateT.pure, pure, Except.pure]
      have := ih' { pos := p, index := (ipos : Int) }
      cases hp : historyBody.positions s0 tsel short ft more (ipos + 1) env { pos := p, index := (ipos : Int) } with
      | error e =>
        rw [hp] at this
        cases hv : visitAll (valuesAt s0 tsel short ft env) more (ipos + 1) with
        | error e' => rw [hv] at this; simp only [Except.map] at this ⊢; exact this
        | ok r => rw [hv] at this; simp only [Except.map] at this; cases this
      | ok rc =>
        rw [hp] at this
        cases hv : visitAll (valuesAt s0 tsel short ft env) more (ipos + 1) with
        | error e' => rw [hv] at this; simp only [Except.map] at this; cases this
        | ok r =>
          rw [hv] at this; simp only [Except.map] at this ⊢
          injection this with this
          simp only [List.flatten_cons, List.nil_append, this]
/-- the tables of the file, in file order (`history()` passes them to the TOUGH+ element-table counter) -/
def fileTablesOf (s0 : Rd) : List String := fileOrder.filter (fun tn => (s0.tables.lookup tn).isSome)

/-- the (position, short?) pairs history() loops over: `zip(self._pos, self._short)` -/
def resultPositions (s0 : Rd) : List (Pos × Bool) := s0.allpos.toList.zip s0.short.toList

theorem historyBody_eq (s0 : Rd) (tsel : TSel) (short : Bool) (env : Rd) (c : Cur) :
    (historyBody s0 tsel short env c).map (·.1)
      = (visitAll (valuesAt s0 tsel short (fileTablesOf s0) env) (resultPositions s0) 0).map List.flatten := by
  rw [← positions_eq s0 tsel short (fileTablesOf s0) (resultPositions s0) 0 env ⟨⟨0, env.all⟩, -1⟩]
  rfl

/-- the values of item `k` among what was appended: `[v for (sel_index, v) in hits if sel_index == k]` -/
def seriesOf (k : Nat) (hits : List (Nat × FVal)) : List FVal := (hits.filter (·.1 = k)).map (·.2)

theorem seriesOf_flatten (k : Nat) (hitss : List (List (Nat × FVal))) :
    seriesOf k hitss.flatten = (hitss.map (seriesOf k)).flatten := by
  induction hitss with
  | nil => rfl
  | cons h r ih =>
    simp only [List.flatten_cons, List.map_cons]
    rw [← ih]
    simp [seriesOf]

/-- one value per result time, in time order -/
theorem flatten_singletons (k : Nat) (hitss : List (List (Nat × FVal))) (vs : List FVal)
    (h : hitss.map (seriesOf k) = vs.map (fun v => [v])) : (hitss.map (seriesOf k)).flatten = vs := by
  rw [h]
  clear h
  induction vs with
  | nil => rfl
  | cons v r ih => simp only [List.map_cons, List.flatten_cons, ih]; rfl

/-- **A history() call that returns series**: the selection was converted (`tsel`), every result position was visited in turn
    (`hitss`: what was appended at each, one list per position, in file order), and the series returned for item `k` is the
    concatenation over the positions of the values appended for `k`. -/
theorem historyC_series (items : List Item) (short : Bool) (env : Rd) (c c' : Cur) (r : List (Bool × List FVal))
    (h : historyC items short env c = .ok (some r, c')) :
    ∃ tsel hitss, orderedSelection env items = .ok tsel ∧
      visitAll (valuesAt env tsel short (fileTablesOf env) env) (resultPositions env) 0 = .ok hitss ∧
      hitss.length = (resultPositions env).length ∧
      r = (List.range items.length).map fun k =>
        (((hitss.map (seriesOf k)).flatten).length == env.fulltimes.size, (hitss.map (seriesOf k)).flatten) := by
  unfold historyC at h
  split at h
  · cases h
  · rename_i tsel htsel
    split at h
    · injection h with h; injection h with h1 _; cases h1
    · have hb := historyBody_eq env tsel short env c
      split at h
      · cases h
      · rename_i hits c1 hbody
        rw [hbody] at hb
        cases hv : visitAll (valuesAt env tsel short (fileTablesOf env) env) (resultPositions env) 0 with
        | error e => rw [hv] at hb; simp only [Except.map] at hb; cases hb
        | ok hitss =>
          rw [hv] at hb; simp only [Except.map] at hb
          injection hb with hb
          injection h with h; injection h with h1 _; injection h1 with h1
          refine ⟨tsel, hitss, htsel, hv, visitAll_length _ _ _ _ hv, ?_⟩
          rw [← h1]
          apply List.map_congr_left
          intro k _
          have : (hits.filter (·.1 = k)).map (·.2) = (hitss.map (seriesOf k)).flatten := by
            rw [← seriesOf_flatten, ← hb]; rfl
          simp only [this]

end Proofs.SeriesTimes

namespace Proofs.SeriesTimes
open Py Model Model.Listing

/-- `expected_floats` of history(): the number of value columns (1 for a generation table), not counting an integer column -/
def expectedOf (tname : String) (t : Table) : Int :=
  let n : Int := if tname = "generation" then 1 else t.cols.length
  if t.cols.head? = some ['I'] then n - 1 else n

/-- **One table at one result position is one `scanSel` pass**: when the table `tname` is known (`t`, with at least one column)
    and `skip_to_results_line` finds a results line — `L` are the lines from it on — history() appends exactly what the one-pass
    read `scanSel` returns on `L` with the stepping reader's `read_table_line` and column index, and fails exactly when it fails. -/
theorem historyTable_eq_scan (tname : String) (ts : List Sel) (env : Rd) (c : Cur) (t : Table) (k n : Nat) (L : List Str)
    (ht : env.tables.lookup tname = some t) (hne : t.cols ≠ [])
    (hs : skipToResultsLineL (expectedOf tname t) c.pos.rest c.pos.no 1 = some (k, ⟨n, L⟩)) :
    (historyTable tname ts env c).map (·.1)
      = match scanSel (readTableLineOf env.fam t) (colIdx t.cols) ts 0 (L.headD []) L.tail with
        | .ok (hits, _) => .ok hits
        | .error e => .error (.py e) := by
  have hexp : Cu.tableExpectedFloats tname t.cols env c = .ok (expectedOf tname t, c) := by
    unfold Cu.tableExpectedFloats expectedOf
    cases hc : t.cols with
    | nil => exact absurd hc hne
    | cons c0 cs =>
      simp only [List.head?_cons, Option.some.injEq]
      by_cases h : c0 = ['I'] <;> simp [h, pure, ReaderT.pure, StateT.pure, Except.pure]
  unfold historyTable
  simp only [bind, ReaderT.bind, StateT.bind, Except.bind, Cu.getTable, read, readThe, MonadReaderOf.read, ReaderT.read, ht,
    pure, ReaderT.pure, StateT.pure, Except.pure, hexp, Cu.skipToResultsLine, get, getThe, MonadStateOf.get, StateT.get, liftM,
    monadLift, MonadLift.monadLift, hs, set, StateT.set, Cu.readline]
  cases L with
  | nil =>
    simp only [ReaderT.pure, StateT.pure, pure, Except.pure, List.headD_nil, List.tail_nil]
    cases hsc : scanSel (readTableLineOf env.fam t) (colIdx t.cols) ts 0 [] [] with
    | error e => rfl
    | ok q => rfl
  | cons l r =>
    simp only [ReaderT.bind, ReaderT.pure, StateT.pure, StateT.set, bind, StateT.bind, Except.bind, pure, Except.pure,
      List.headD_cons, List.tail_cons]
    cases hsc : scanSel (readTableLineOf env.fam t) (colIdx t.cols) ts 0 l r with
    | error e => rfl
    | ok q => rfl
end Proofs.SeriesTimes

namespace Proofs.SeriesTimes
open Py Model Model.Listing

/-- visiting the positions in turn fails with `e` exactly when the read at some position `j` fails with `e` and the reads at
    all earlier positions returned -/
theorem visitAll_error_iff (f : Pos × Bool → Nat → Except LErr (List (Nat × FVal))) (ps : List (Pos × Bool)) (i : Nat) (e : LErr) :
    visitAll f ps i = .error e ↔
      ∃ j pb, ps[j]? = some pb ∧ f pb (i + j) = .error e ∧
        ∀ j' pb', j' < j → ps[j']? = some pb' → ∃ h, f pb' (i + j') = .ok h := by
  induction ps generalizing i e with
  | nil => simp [visitAll]
  | cons pb more ih =>
    simp only [visitAll]
    cases hf : f pb i with
    | error e' =>
      simp only
      constructor
      · intro h; injection h with h; subst h
        exact ⟨0, pb, rfl, by simpa using hf, fun j' _ hj' => absurd hj' (Nat.not_lt_zero _)⟩
      · intro ⟨j, pb', hj, hfe, hbefore⟩
        cases j with
        | zero =>
          simp only [List.getElem?_cons_zero, Option.some.injEq] at hj; subst hj
          rw [Nat.add_zero, hf] at hfe; injection hfe with hfe; rw [hfe]
        | succ j =>
          obtain ⟨h, hh⟩ := hbefore 0 pb (by omega) rfl
          rw [Nat.add_zero, hf] at hh; cases hh
    | ok h0 =>
      simp only
      cases hv : visitAll f more (i + 1) with
      | error e' =>
        have := (ih (i + 1) e').mp hv
        constructor
        · intro h; injection h with h; subst h
          obtain ⟨j, pb', hj, hfe, hbefore⟩ := this
          refine ⟨j + 1, pb', by simpa using hj, by rw [← hfe]; congr 1; omega, ?_⟩
          intro j' pb'' hj' hget
          cases j' with
          | zero => simp only [List.getElem?_cons_zero, Option.some.injEq] at hget; subst hget; exact ⟨h0, by simpa using hf⟩
          | succ j' =>
            obtain ⟨h, hh⟩ := hbefore j' pb'' (by omega) (by simpa using hget)
            exact ⟨h, by rw [← hh]; congr 1; omega⟩
        · intro ⟨j, pb', hj, hfe, hbefore⟩
          cases j with
          | zero =>
            simp only [List.getElem?_cons_zero, Option.some.injEq] at hj; subst hj
            rw [Nat.add_zero, hf] at hfe; cases hfe
          | succ j =>
            have : visitAll f more (i + 1) = .error e := (ih (i + 1) e).mpr ⟨j, pb', by simpa using hj,
              by rw [← hfe]; congr 1; omega, fun j' pb'' hj' hget => by
                obtain ⟨h, hh⟩ := hbefore (j' + 1) pb'' (by omega) (by simpa using hget)
                exact ⟨h, by rw [← hh]; congr 1; omega⟩⟩
            rw [hv] at this; exact this
      | ok r =>
        simp only
        constructor
        · intro h; cases h
        · intro ⟨j, pb', hj, hfe, hbefore⟩
          cases j with
          | zero =>
            simp only [List.getElem?_cons_zero, Option.some.injEq] at hj; subst hj
            rw [Nat.add_zero, hf] at hfe; cases hfe
          | succ j =>
            have : visitAll f more (i + 1) = .error e := (ih (i + 1) e).mpr ⟨j, pb', by simpa using hj,
              by rw [← hfe]; congr 1; omega, fun j' pb'' hj' hget => by
                obtain ⟨h, hh⟩ := hbefore (j' + 1) pb'' (by omega) (by simpa using hget)
                exact ⟨h, by rw [← hh]; congr 1; omega⟩⟩
            rw [hv] at this; cases this

/-- a history() call fails with `e` (an exception, or `diverges`) exactly when converting the selection fails with `e`, or the
    selection is non-empty and visiting the result positions in turn fails with `e` -/
theorem historyC_error_iff (items : List Item) (short : Bool) (env : Rd) (c : Cur) (e : LErr) :
    historyC items short env c = .error e ↔
      orderedSelection env items = .error e ∨
      ∃ tsel, orderedSelection env items = .ok tsel ∧ tsel.isEmpty = false ∧
        visitAll (valuesAt env tsel short (fileTablesOf env) env) (resultPositions env) 0 = .error e := by
  unfold historyC
  cases hos : orderedSelection env items with
  | error e' =>
    simp only
    constructor
    · intro h; injection h with h; subst h; exact .inl rfl
    · intro h
      rcases h with h | ⟨tsel, h, _⟩
      · injection h with h; subst h; rfl
      · cases h
  | ok tsel =>
    simp only
    have hb := historyBody_eq env tsel short env c
    cases hemp : tsel.isEmpty with
    | true =>
      simp only [if_true]
      constructor
      · intro h; cases h
      · intro h
        rcases h with h | ⟨tsel', h, h2, _⟩
        · cases h
        · injection h with h; subst h; rw [hemp] at h2; cases h2
    | false =>
      simp only [Bool.false_eq_true, if_false]
      cases hbody : historyBody env tsel short env c with
      | error e' =>
        rw [hbody] at hb
        simp only
        constructor
        · intro h; injection h with h; subst h
          refine .inr ⟨tsel, rfl, hemp, ?_⟩
          cases hv : visitAll (valuesAt env tsel short (fileTablesOf env) env) (resultPositions env) 0 with
          | error e'' => rw [hv] at hb; simp only [Except.map] at hb; injection hb with hb; rw [hb]
          | ok r => rw [hv] at hb; simp only [Except.map] at hb; cases hb
        · intro h
          rcases h with h | ⟨tsel', h, _, h3⟩
          · cases h
          · injection h with h; subst h
            rw [h3] at hb; simp only [Except.map] at hb; injection hb with hb; rw [hb]
      | ok q =>
        obtain ⟨hits, c1⟩ := q
        rw [hbody] at hb
        simp only
        constructor
        · intro h; cases h
        · intro h
          rcases h with h | ⟨tsel', h, _, h3⟩
          · cases h
          · injection h with h; subst h
            rw [h3] at hb; simp only [Except.map] at hb; cases hb

end Proofs.SeriesTimes
