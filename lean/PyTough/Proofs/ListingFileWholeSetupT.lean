import PyTough.Proofs.ListingWholeBlock
namespace Proofs.Whole
open Py Model Model.Listing Proofs.Listing

theorem tell_runT (s : Rd) : tell s = .ok (s.pos, s) := rfl
theorem seek_runT (p : Pos) (s : Rd) : seek p s = .ok ((), { s with pos := p }) := rfl

/-- the index `setup_table_TOUGH2` files a data line under: the printed index - 1, or the previous one + 1 -/
def indexOfT (start : Option Int) (lastKey : Int) (prev : Int) (line : Str) : Int :=
  match pyInt (sliceO line (some (lastKey + 5)) start) with
  | .ok v => v - 1
  | .error _ => prev + 1

/-- the loop state after the data line in hand (key `key`), `k` lines skipped behind it, next line in hand `line'` -/
def stepSt (start : Option Int) (lastKey : Int) (st : SetupSt) (key : Key) (line' : Str) (k : Nat) : SetupSt :=
  { line := line', count := st.count + 1 + k, index := indexOfT start lastKey st.index st.line,
    longest := if (strip st.line).length > st.longest.length then st.line else st.longest,
    rowdict := dictSet st.rowdict (indexOfT start lastKey st.index st.line) (st.count, key),
    skips := k :: st.skips, ihs := st.ihs }

theorem loop_step_direct (cols : List Str) (expected : Int) (start : Option Int) (keypos : List Int) (lastKey : Int)
    (title : Str) (f : Nat) (st : SetupSt) (s : Rd) (key : Key) (l : Str) (r : List Str)
    (hk : keyFromLine st.line keypos = .ok key) (hrest : s.pos.rest = l :: r)
    (h1 : isHeaderLine cols l = false) (h2 : isSeparator l = false) (h3 : isBlank l = false) :
    setupTableTOUGH2.loop cols expected start keypos lastKey title (f + 1) st s
      = setupTableTOUGH2.loop cols expected start keypos lastKey title f (stepSt start lastKey st key l 0)
          { s with pos := ⟨s.pos.no + 1, r⟩ } := by
  conv => lhs; unfold setupTableTOUGH2.loop
  simp only [keyOfLine, hk]
  rw [bind_ok _ _ _ _ _ (liftE_ok key s)]
  rw [bind_ok _ _ _ _ _ (tell_runT s)]
  rw [bind_ok _ _ _ _ _ (readline_cons s l r hrest)]
  simp only [h1, h2, h3, Bool.false_eq_true, if_false, Bool.true_and, if_true]
  have e : st.count + 1 - st.count - 1 = 0 := by omega
  rw [e]
  rfl

theorem loop_step_sep (cols : List Str) (expected : Int) (start : Option Int) (keypos : List Int) (lastKey : Int)
    (title : Str) (f : Nat) (st : SetupSt) (s : Rd) (key : Key) (l : Str) (r : List Str)
    (hk : keyFromLine st.line keypos = .ok key) (hrest : s.pos.rest = l :: r)
    (h1 : isHeaderLine cols l = false) (h2 : isSeparator l = true) :
    setupTableTOUGH2.loop cols expected start keypos lastKey title (f + 1) st s
      = .ok (stepSt start lastKey st key l 0, s) := by
  conv => lhs; unfold setupTableTOUGH2.loop
  simp only [keyOfLine, hk]
  rw [bind_ok _ _ _ _ _ (liftE_ok key s)]
  rw [bind_ok _ _ _ _ _ (tell_runT s)]
  rw [bind_ok _ _ _ _ _ (readline_cons s l r hrest)]
  simp only [h1, h2, Bool.false_eq_true, if_false, Bool.true_and, if_true]
  rw [bind_ok _ _ _ _ _ (seek_runT _ _)]
  simp only [Bool.false_eq_true, if_false, Bool.and_false]
  have e : st.count + 1 - st.count - 1 = 0 := by omega
  rw [e]
  rfl

theorem loop_step_blank (cols : List Str) (expected : Int) (start : Option Int) (keypos : List Int) (lastKey : Int)
    (title : Str) (f : Nat) (st : SetupSt) (s : Rd) (key : Key) (b l : Str) (r : List Str)
    (hk : keyFromLine st.line keypos = .ok key) (hrest : s.pos.rest = b :: l :: r)
    (h1 : isHeaderLine cols b = false) (h2 : isSeparator b = false) (h3 : isBlank b = true)
    (g1 : isHeaderLine cols l = false)
    (g2 : (isSeparator l || decide (strip l = title) || (strip l).isEmpty) = false) :
    setupTableTOUGH2.loop cols expected start keypos lastKey title (f + 1) st s
      = setupTableTOUGH2.loop cols expected start keypos lastKey title f (stepSt start lastKey st key l 1)
          { s with pos := ⟨s.pos.no + 2, r⟩ } := by
  conv => lhs; unfold setupTableTOUGH2.loop
  simp only [keyOfLine, hk]
  rw [bind_ok _ _ _ _ _ (liftE_ok key s)]
  rw [bind_ok _ _ _ _ _ (tell_runT s)]
  rw [bind_ok _ _ _ _ _ (readline_cons s b (l :: r) hrest)]
  simp only [h1, h2, h3, Bool.false_eq_true, if_false, Bool.true_and, if_true]
  rw [bind_ok _ _ _ _ _ (tell_runT _)]
  rw [bind_ok _ _ _ _ _ (readline_cons _ l r rfl)]
  simp only [g1, g2, Bool.false_eq_true, if_false]
  have e : st.count + 1 + 1 - st.count - 1 = 1 := by omega
  rw [e]
  rfl

theorem loop_step_blank_end (cols : List Str) (expected : Int) (start : Option Int) (keypos : List Int) (lastKey : Int)
    (title : Str) (f : Nat) (st : SetupSt) (s : Rd) (key : Key) (b : Str) (r : List Str)
    (hk : keyFromLine st.line keypos = .ok key) (hrest : s.pos.rest = b :: r)
    (h1 : isHeaderLine cols b = false) (h2 : isSeparator b = false) (h3 : isBlank b = true)
    (g1 : isHeaderLine cols (r.headD []) = false)
    (g2 : (isSeparator (r.headD []) || decide (strip (r.headD []) = title) || (strip (r.headD [])).isEmpty) = true) :
    setupTableTOUGH2.loop cols expected start keypos lastKey title (f + 1) st s
      = .ok (stepSt start lastKey st key (r.headD []) 1, { s with pos := ⟨s.pos.no + 1, r⟩ }) := by
  conv => lhs; unfold setupTableTOUGH2.loop
  simp only [keyOfLine, hk]
  rw [bind_ok _ _ _ _ _ (liftE_ok key s)]
  rw [bind_ok _ _ _ _ _ (tell_runT s)]
  rw [bind_ok _ _ _ _ _ (readline_cons s b r hrest)]
  simp only [h1, h2, h3, Bool.false_eq_true, if_false, Bool.true_and, if_true]
  rw [bind_ok _ _ _ _ _ (tell_runT _)]
  rw [bind_ok _ _ _ _ _ (readline_any _)]
  simp only [g1, g2, Bool.false_eq_true, if_false, if_true]
  rw [bind_ok _ _ _ _ _ (seek_runT _ _)]
  simp only [Bool.false_eq_true, if_false, Bool.and_false]
  have e : st.count + 1 + 1 - st.count - 1 = 1 := by omega
  rw [e]
  rfl

/-- the second line behind a blank line ends the table: separator, the title, or empty (`''` at end of file) -/
def termT (title : Str) (l : Str) : Bool := isSeparator l || decide (strip l = title) || (strip l).isEmpty

/-- one segment (the lines `sk` skipped behind a data line) in front of the lines `nxt`; `last`: the table ends here -/
def segOkT (cols : List Str) (title : Str) (sk : List Str) (last : Bool) (nxt : List Str) : Bool :=
  match sk with
  | [] =>
    match nxt with
    | [] => false
    | l :: _ => !isHeaderLine cols l && (if last then isSeparator l else !isSeparator l && !isBlank l)
  | [b] => !isHeaderLine cols b && !isSeparator b && isBlank b && !isHeaderLine cols (nxt.headD []) &&
           (termT title (nxt.headD []) == last)
  | _ => false

/-- a table body without repeated headers, as the set-up loop of `setup_table_TOUGH2` walks it -/
def segsOkT (cols : List Str) (title : Str) : List (Str × List Str) → List Str → Bool
  | [], _ => true
  | sg :: r, after => segOkT cols title sg.2 r.isEmpty (flat r ++ after) && segsOkT cols title r after

def SegsOkT (cols : List Str) (title : Str) (segs : List (Str × List Str)) (after : List Str) : Prop :=
  segs ≠ [] ∧ segsOkT cols title segs after = true

instance (cols : List Str) (title : Str) (segs : List (Str × List Str)) (after : List Str) :
    Decidable (SegsOkT cols title segs after) := by unfold SegsOkT; infer_instance

def keyOfT (keypos : List Int) (d : Str) : Key :=
  match keyFromLine d keypos with
  | .ok k => k
  | .error _ => []

/-- the state of the set-up loop after the segments `segs` (data line of the first one in hand) -/
def runSt (start : Option Int) (lastKey : Int) (keypos : List Int) (st : SetupSt) :
    List (Str × List Str) → List Str → SetupSt
  | [], _ => st
  | sg :: r, after =>
    runSt start lastKey keypos (stepSt start lastKey st (keyOfT keypos sg.1) ((flat r ++ after).headD []) sg.2.length) r after

theorem keyOfT_ok {keypos : List Int} {d : Str} (h : (keyFromLine d keypos).isOk = true) :
    keyFromLine d keypos = .ok (keyOfT keypos d) := by
  unfold keyOfT
  cases hk : keyFromLine d keypos with
  | ok k => rfl
  | error e => rw [hk] at h; cases h

theorem rd_pos_eta (s : Rd) (n : Nat) (rest : List Str) (hn : n = s.pos.no) (hr : s.pos.rest = rest) :
    { s with pos := ⟨n, rest⟩ } = s := by
  cases s with | mk _ _ pos => cases pos; simp_all

/-- **the set-up loop over a table body without repeated headers** -/
theorem setupLoop_run (cols : List Str) (expected : Int) (start : Option Int) (keypos : List Int) (lastKey : Int)
    (title : Str) (r : List (Str × List Str)) (d : Str) (sk : List Str) (after : List Str) (f : Nat) (st : SetupSt) (s : Rd)
    (hfuel : r.length < f) (hline : st.line = d)
    (hrest : s.pos.rest = sk ++ (flat r ++ after))
    (hkeys : ∀ sg ∈ (d, sk) :: r, (keyFromLine sg.1 keypos).isOk = true)
    (hok : segsOkT cols title ((d, sk) :: r) after = true) :
    setupTableTOUGH2.loop cols expected start keypos lastKey title f st s
      = .ok (runSt start lastKey keypos st ((d, sk) :: r) after,
             { s with pos := ⟨s.pos.no + sk.length + (flat r).length, after⟩ }) := by
  induction r generalizing d sk f st s with
  | nil =>
    cases f with
    | zero => cases hfuel
    | succ f =>
      have hk := keyOfT_ok (hkeys (d, sk) List.mem_cons_self)
      rw [← hline] at hk
      simp only [segsOkT, List.isEmpty_nil, flat, List.nil_append, Bool.and_true] at hok
      simp only [flat, List.nil_append] at hrest
      unfold segOkT at hok
      split at hok
      · split at hok
        · cases hok
        · rename_i l r'
          simp only [if_true, Bool.and_eq_true, Bool.not_eq_true'] at hok
          simp only [List.nil_append] at hrest
          rw [loop_step_sep cols expected start keypos lastKey title f st s _ l r' hk hrest hok.1 hok.2]
          simp only [runSt, flat, List.nil_append, List.headD_cons, List.length_nil, Nat.add_zero, hline]
          rw [rd_pos_eta s _ _ rfl hrest]
      · rename_i b
        simp only [Bool.and_eq_true, Bool.not_eq_true', beq_iff_eq] at hok
        obtain ⟨⟨⟨⟨h1, h2⟩, h3⟩, g1⟩, g2⟩ := hok
        rw [loop_step_blank_end cols expected start keypos lastKey title f st s _ b after hk hrest h1 h2 h3 g1 g2]
        simp only [runSt, flat, List.nil_append, List.length_cons, List.length_nil, Nat.add_zero, Nat.zero_add, hline]
      · cases hok
  | cons sg r' ih =>
    cases f with
    | zero => cases hfuel
    | succ f =>
      have hk := keyOfT_ok (hkeys (d, sk) List.mem_cons_self)
      rw [← hline] at hk
      have hkeys' : ∀ x ∈ (sg.1, sg.2) :: r', (keyFromLine x.1 keypos).isOk = true :=
        fun x hx => hkeys x (List.mem_cons_of_mem _ hx)
      have hfuel' : r'.length < f := by simp only [List.length_cons] at hfuel; omega
      simp only [segsOkT, List.isEmpty_cons, flat, List.cons_append, Bool.and_eq_true] at hok
      obtain ⟨hseg, hsegs⟩ := hok
      simp only [flat, List.cons_append] at hrest
      unfold segOkT at hseg
      split at hseg
      · simp only [Bool.false_eq_true, if_false, Bool.and_eq_true, Bool.not_eq_true'] at hseg
        obtain ⟨h1, h2, h3⟩ := hseg
        simp only [List.nil_append] at hrest
        rw [loop_step_direct cols expected start keypos lastKey title f st s _ sg.1 _ hk hrest h1 h2 h3]
        rw [ih sg.1 sg.2 f _ _ hfuel' rfl (List.append_assoc _ _ _) hkeys' (by simpa [segsOkT] using hsegs)]
        simp only [runSt, flat, List.cons_append, List.headD_cons, List.length_nil, List.length_cons, List.length_append, hline]
        congr 4
        omega
      · rename_i b
        simp only [List.headD_cons, Bool.and_eq_true, Bool.not_eq_true', beq_iff_eq] at hseg
        obtain ⟨⟨⟨⟨h1, h2⟩, h3⟩, g1⟩, g2⟩ := hseg
        simp only [List.cons_append, List.nil_append] at hrest
        rw [loop_step_blank cols expected start keypos lastKey title f st s _ b sg.1 _ hk hrest h1 h2 h3 g1 g2]
        rw [ih sg.1 sg.2 f _ _ hfuel' rfl (List.append_assoc _ _ _) hkeys' (by simpa [segsOkT] using hsegs)]
        simp only [runSt, flat, List.cons_append, List.headD_cons, List.length_nil, List.length_cons, List.length_append, hline]
        congr 4
        omega
      · cases hseg

theorem runSt_skips (start : Option Int) (lastKey : Int) (keypos : List Int) (st : SetupSt)
    (segs : List (Str × List Str)) (after : List Str) :
    (runSt start lastKey keypos st segs after).skips.reverse = st.skips.reverse ++ segs.map (·.2.length) := by
  induction segs generalizing st with
  | nil => simp [runSt]
  | cons sg r ih => simp only [runSt, ih, stepSt, List.reverse_cons, List.map_cons, List.append_assoc, List.singleton_append]

theorem runSt_ihs (start : Option Int) (lastKey : Int) (keypos : List Int) (st : SetupSt)
    (segs : List (Str × List Str)) (after : List Str) :
    (runSt start lastKey keypos st segs after).ihs = st.ihs := by
  induction segs generalizing st with
  | nil => rfl
  | cons sg r ih => simp only [runSt, ih, stepSt]

theorem runSt_count (start : Option Int) (lastKey : Int) (keypos : List Int) (st : SetupSt)
    (segs : List (Str × List Str)) (after : List Str) :
    (runSt start lastKey keypos st segs after).count = st.count + (flat segs).length := by
  induction segs generalizing st with
  | nil => rfl
  | cons sg r ih => simp only [runSt, ih, stepSt, flat, List.length_cons, List.length_append]; omega

/-! ### the pieces in front of the loop -/

def expectedT (tn : String) (cols : List Str) : Int :=
  let n : Int := if tn = "generation" then 1 else cols.length
  if cols.head? = some ['I'] then n - 1 else n

theorem tableExpectedFloats_run (tn : String) (c : Str) (cs : List Str) (s : Rd) :
    tableExpectedFloats tn (c :: cs) s = .ok (expectedT tn (c :: cs), s) := by
  unfold tableExpectedFloats liftC Cu.tableExpectedFloats expectedT
  by_cases hc : c = ['I'] <;> simp [hc, pure, ReaderT.pure, StateT.pure, Except.pure]

theorem skipToResultsLine_run (expected : Int) (s : Rd) (k : Nat) (p : Pos)
    (h : skipToResultsLineL expected s.pos.rest s.pos.no 1 = some (k, p)) :
    skipToResultsLine expected s = .ok (k, { s with pos := p }) := by
  unfold skipToResultsLine liftC Cu.skipToResultsLine
  simp only [bind, ReaderT.bind, StateT.bind, get, getThe, MonadStateOf.get, liftM, monadLift,
    MonadLift.monadLift, StateT.get, Except.bind, h, set, StateT.set, pure, Except.pure, ReaderT.pure, StateT.pure]

theorem skipToResultsLineL_app (expected : Int) (H : List Str) (d0 : Str) (rest : List Str) (n k : Nat)
    (hH : ∀ l ∈ H, isResultsLine (strip l) expected = false) (hd : isResultsLine (strip d0) expected = true) :
    skipToResultsLineL expected (H ++ d0 :: rest) n k = some (k + H.length, ⟨n + H.length, d0 :: rest⟩) := by
  induction H generalizing n k with
  | nil => simp [skipToResultsLineL, hd]
  | cons a H' ih =>
    simp only [List.cons_append, skipToResultsLineL, hH a List.mem_cons_self, Bool.false_eq_true, if_false]
    rw [ih (n + 1) (k + 1) (fun l hl => hH l (List.mem_cons_of_mem _ hl))]
    simp only [List.length_cons]
    have e1 : k + 1 + H'.length = k + (H'.length + 1) := by omega
    have e2 : n + 1 + H'.length = n + (H'.length + 1) := by omega
    rw [e1, e2]

/-- `self._table[name] = t` on the list of tables: replace in place, or append -/
def putT' (tn : String) (t : Table) (tables : List (String × Table)) : List (String × Table) :=
  if (tables.lookup tn).isSome then putT tn t tables else tables ++ [(tn, t)]

theorem putTable_runT (tn : String) (t : Table) (s : Rd) :
    putTable tn t s = .ok ((), { s with tables := putT' tn t s.tables }) := by
  unfold putTable putT'
  simp only [modify, modifyGet, MonadStateOf.modifyGet, StateT.modifyGet, pure, Except.pure, putT]
  split <;> rfl

theorem lookup_append_singleT (tn m : String) (t : Table) (tables : List (String × Table)) :
    (tables ++ [(tn, t)]).lookup m = match tables.lookup m with
      | some x => some x
      | none => if m = tn then some t else none := by
  induction tables with
  | nil =>
    simp only [List.nil_append, List.lookup]
    by_cases h : m = tn
    · simp [h]
    · have hb : (m == tn) = false := by simp [h]
      simp [h, hb]
  | cons x r ih =>
    obtain ⟨n, y⟩ := x
    simp only [List.cons_append, List.lookup]
    cases m == n
    · exact ih
    · rfl

theorem putT'_lookup_self (tn : String) (t : Table) (tables : List (String × Table)) :
    (putT' tn t tables).lookup tn = some t := by
  unfold putT'
  split
  · rename_i h; exact putT_lookup_self tn t tables h
  · rename_i h
    rw [lookup_append_singleT]
    cases hl : tables.lookup tn with
    | some x => rw [hl] at h; simp at h
    | none => simp

theorem putT'_lookup_other (tn m : String) (t : Table) (tables : List (String × Table)) (hm : m ≠ tn) :
    (putT' tn t tables).lookup m = tables.lookup m := by
  unfold putT'
  split
  · exact putT_lookup_other tn m t tables hm
  · rw [lookup_append_singleT]
    cases tables.lookup m with
    | some x => rfl
    | none => simp [hm]

/-- the table `setup_table_TOUGH2` stores, from the final state of its loop -/
def setupTableOfT (tn : String) (nkeys : Nat) (cols : List Str) (keypos : List Int) (numpos : List (Option Int))
    (headerSkip : Nat) (st : SetupSt) : Table :=
  { mkTable cols ((sortByIndex st.rowdict).map (·.2.2)).toArray nkeys (tn = "connection") with
    keyPos := keypos, numpos := numpos, rowLine := some ((sortByIndex st.rowdict).map (·.2.1)).toArray,
    headerSkip := headerSkip, skips := st.skips.reverse, longest := st.longest }

/-- **setup_table_TOUGH2 on the lines of a printed table without repeated headers** (header parse given as a run of
    `parseTableHeaderTOUGH2`, which reads one line) -/
theorem setupTableTOUGH2_run (tn : String) (s : Rd) (hdr : Str) (H : List Str) (d0 : Str) (sk0 : List Str)
    (r : List (Str × List Str)) (after : List Str)
    (nkeys : Nat) (c : Str) (cs : List Str) (start : Option Int) (keypos : List Int) (numpos : List (Option Int))
    (hhdr : parseTableHeaderTOUGH2 s = .ok ((nkeys, c :: cs), { s with pos := ⟨s.pos.no + 1, H ++ (flat ((d0, sk0) :: r) ++ after)⟩ }))
    (hH : ∀ l ∈ H, isResultsLine (strip l) (expectedT tn (c :: cs)) = false)
    (hd0 : isResultsLine (strip d0) (expectedT tn (c :: cs)) = true)
    (hstart : startOfValues d0 (c :: cs) = .ok start)
    (hkp : keyPositions (sliceO d0 none start) nkeys = .ok (some keypos)) (hne : keypos ≠ [])
    (hkeys : ∀ sg ∈ (d0, sk0) :: r, (keyFromLine sg.1 keypos).isOk = true)
    (hok : segsOkT (c :: cs) s.title ((d0, sk0) :: r) after = true)
    (hnp : parseTableLine (runSt start keypos.getLast! keypos { line := d0, longest := d0 } ((d0, sk0) :: r) after).longest
              start (c :: cs) = .ok numpos) :
    setupTableTOUGH2 tn s = .ok ((),
      { s with pos := ⟨s.pos.no + (hdr :: H).length + (flat ((d0, sk0) :: r)).length, after⟩,
               tables := putT' tn (setupTableOfT tn nkeys (c :: cs) keypos numpos (hdr :: H).length
                 (runSt start keypos.getLast! keypos { line := d0, longest := d0 } ((d0, sk0) :: r) after)) s.tables,
               tablenames := s.tablenames ++ [tn] }) := by
  unfold setupTableTOUGH2
  rw [bind_ok _ _ _ _ _ hhdr]
  simp only
  rw [bind_ok _ _ _ _ _ (tableExpectedFloats_run tn c cs _)]
  rw [bind_ok _ _ _ _ _ (skipToResultsLine_run _ _ _ _ (skipToResultsLineL_app _ H d0 _ _ 1 hH hd0))]
  rw [bind_ok _ _ _ _ _ (readline_cons _ d0 _ rfl)]
  rw [hstart, bind_ok _ _ _ _ _ (liftE_ok _ _)]
  rw [hkp, bind_ok _ _ _ _ _ (liftE_ok _ _)]
  cases keypos with
  | nil => exact absurd rfl hne
  | cons k0 ks =>
    simp only [bind, StateT.bind, get, getThe, MonadStateOf.get, StateT.get, Except.bind, pure, Except.pure]
    rw [setupLoop_run (c :: cs) _ start (k0 :: ks) _ s.title r d0 sk0 after _ _ _ (by have := flat_length r; simp; omega) rfl
      (by simp) hkeys hok]
    simp only
    rw [hnp]
    rw [liftE_ok]
    simp only
    rw [putTable_runT]
    simp only [modify, modifyGet, MonadStateOf.modifyGet, StateT.modifyGet, pure, Except.pure, setupTableOfT,
      List.length_cons, flat, List.length_append]
    have e1 : 1 + H.length = H.length + 1 := by omega
    have e2 : s.pos.no + 1 + H.length + 1 + sk0.length + (flat r).length
        = s.pos.no + (H.length + 1) + (sk0.length + (flat r).length + 1) := by omega
    rw [e1, e2]

/-! ### the column header line, as a pure function -/

def headerGoT (flow : List Str) : List Str → List Str → Option (List Str)
  | [], acc => some acc.reverse
  | x :: r, acc =>
    if flow.contains x then
      match acc with
      | [] => none
      | last :: more => headerGoT flow r ((last ++ [' '] ++ x) :: more)
    else headerGoT flow r (x :: acc)

/-- `parse_table_header_TOUGH2` on the column header line: the number of key columns and the column names;
    `none` where the real code raises -/
def headerColsT (plus : Bool) (hdr : Str) : Option (Nat × List Str) :=
  let flow := if plus then [S "Flow", S "Veloc"] else [S "RATE"]
  let headstrs := splitWs (strip hdr)
  let nkeys? := match headstrs.idxOf? (S "INDEX") with
    | some k => some k
    | none => headstrs.idxOf? (S "IND.")
  match nkeys? with
  | none => none
  | some nkeys =>
    match headerGoT flow (headstrs.drop (nkeys + 1)) [] with
    | some cols => some (nkeys, cols)
    | none => none

theorem headerGo_run (flow : List Str) (L acc cols : List Str) (s : Rd) (h : headerGoT flow L acc = some cols) :
    parseTableHeaderTOUGH2.go flow L acc s = .ok (cols, s) := by
  induction L generalizing acc with
  | nil =>
    simp only [headerGoT, Option.some.injEq] at h
    subst h; rfl
  | cons x r ih =>
    unfold parseTableHeaderTOUGH2.go
    unfold headerGoT at h
    split at h
    · rename_i hc
      rw [if_pos hc]
      split at h
      · cases h
      · exact ih _ h
    · rename_i hc
      rw [if_neg hc]
      exact ih _ h

theorem parseTableHeaderTOUGH2_run (s : Rd) (hdr : Str) (rest : List Str) (nkeys : Nat) (cols : List Str)
    (hrest : s.pos.rest = hdr :: rest) (h : headerColsT (s.fam == Fam.toughplus) hdr = some (nkeys, cols)) :
    parseTableHeaderTOUGH2 s = .ok ((nkeys, cols), { s with pos := ⟨s.pos.no + 1, rest⟩ }) := by
  unfold parseTableHeaderTOUGH2 isPlus
  simp only [bind, StateT.bind, get, getThe, MonadStateOf.get, StateT.get, Except.bind, pure, Except.pure, StateT.pure]
  rw [readline_cons s hdr rest hrest]
  simp only
  unfold headerColsT at h
  simp only at h
  have key : ∀ (k : Nat) (s1 : Rd),
      (match headerGoT (if (s.fam == Fam.toughplus) = true then [S "Flow", S "Veloc"] else [S "RATE"])
          (List.drop (k + 1) (splitWs (strip hdr))) [] with
        | some cols => some (k, cols)
        | none => none) = some (nkeys, cols) →
      ((StateT.pure k : M Nat).bind fun nkeys =>
          StateT.bind
            (parseTableHeaderTOUGH2.go (if (s.fam == Fam.toughplus) = true then [S "Flow", S "Veloc"] else [S "RATE"])
              (List.drop (nkeys + 1) (splitWs (strip hdr))) [])
            fun cols => (StateT.pure (nkeys, cols) : M (Nat × List Str))) s1 = .ok ((nkeys, cols), s1) := by
    intro k s1 hk
    split at hk
    · rename_i cols' hg
      simp only [Option.some.injEq, Prod.mk.injEq] at hk
      obtain ⟨rfl, rfl⟩ := hk
      simp only [StateT.bind, StateT.pure, bind, Except.bind, pure, Except.pure, headerGo_run _ _ _ _ _ hg]
    · cases hk
  cases hi : List.idxOf? (S "INDEX") (splitWs (strip hdr)) with
  | some k =>
    rw [hi] at h
    exact key k _ h
  | none =>
    rw [hi] at h
    simp only at h ⊢
    cases hi2 : List.idxOf? (S "IND.") (splitWs (strip hdr)) with
    | some k =>
      rw [hi2] at h
      exact key k _ h
    | none =>
      rw [hi2] at h
      cases h

/-- **set-up and reading agree on the region**: `setup_table_TOUGH2`, run at the column header line of a printed table
    region `header ++ (flat segs ++ after)` without repeated headers, stores a table whose `header_skiplines` and
    `skiplines` are those of the region (the first three clauses of `TableRegionT`), and leaves the file at `after` -/
theorem setupTableTOUGH2_region (tn : String) (s : Rd) (hdr : Str) (H : List Str) (d0 : Str) (sk0 : List Str)
    (r : List (Str × List Str)) (after : List Str)
    (nkeys : Nat) (c : Str) (cs : List Str) (start : Option Int) (keypos : List Int) (numpos : List (Option Int))
    (hrest : s.pos.rest = (hdr :: H) ++ (flat ((d0, sk0) :: r) ++ after))
    (hhdr : headerColsT (s.fam == Fam.toughplus) hdr = some (nkeys, c :: cs))
    (hH : ∀ l ∈ H, isResultsLine (strip l) (expectedT tn (c :: cs)) = false)
    (hd0 : isResultsLine (strip d0) (expectedT tn (c :: cs)) = true)
    (hstart : startOfValues d0 (c :: cs) = .ok start)
    (hkp : keyPositions (sliceO d0 none start) nkeys = .ok (some keypos)) (hne : keypos ≠ [])
    (hkeys : ∀ sg ∈ (d0, sk0) :: r, (keyFromLine sg.1 keypos).isOk = true)
    (hok : SegsOkT (c :: cs) s.title ((d0, sk0) :: r) after)
    (hnp : parseTableLine (runSt start keypos.getLast! keypos { line := d0, longest := d0 } ((d0, sk0) :: r) after).longest
              start (c :: cs) = .ok numpos) :
    ∃ t s', setupTableTOUGH2 tn s = .ok ((), s') ∧ s'.tables.lookup tn = some t ∧
      (hdr :: H).length = t.headerSkip ∧ ((d0, sk0) :: r).map (·.2.length) = t.skips ∧ t.data.size = t.rows.size ∧
      t.cols = c :: cs ∧ t.numKeys = nkeys ∧ t.keyPos = keypos ∧ t.numpos = numpos ∧
      t.rows = ((sortByIndex (runSt start keypos.getLast! keypos { line := d0, longest := d0 } ((d0, sk0) :: r) after).rowdict).map (·.2.2)).toArray ∧
      s'.pos = ⟨s.pos.no + (hdr :: H).length + (flat ((d0, sk0) :: r)).length, after⟩ ∧
      (∀ m, m ≠ tn → s'.tables.lookup m = s.tables.lookup m) ∧
      s'.tablenames = s.tablenames ++ [tn] ∧
      s' = { s with pos := s'.pos, tables := s'.tables, tablenames := s'.tablenames } := by
  have hp := parseTableHeaderTOUGH2_run s hdr _ nkeys (c :: cs) hrest hhdr
  have hrun := setupTableTOUGH2_run tn s hdr H d0 sk0 r after nkeys c cs start keypos numpos hp hH hd0 hstart hkp hne hkeys hok.2 hnp
  refine ⟨_, _, hrun, putT'_lookup_self _ _ _, rfl, ?_, ?_, rfl, rfl, rfl, rfl, rfl, rfl,
    fun m hm => putT'_lookup_other _ _ _ _ hm, rfl, rfl⟩
  · have := runSt_skips start keypos.getLast! keypos { line := d0, longest := d0 } ((d0, sk0) :: r) after
    simp only [setupTableOfT, this, List.reverse_nil, List.nil_append]
  · simp only [setupTableOfT, mkTable, Array.size_replicate]
