/-
  C03 proofs, part 10: reading the written lines back.
-/
import PyTough.Proofs.GeoFileRoundtrip
namespace Proofs.GeoFile
open Py Model Model.GeoFile Proofs

theorem readSections_kw (fuel : Nat) (g : Geo) (kw : Str) (k : Keyword) (rest : List Str)
    (hne : (strip (kwLine kw)).isEmpty = false)
    (hk : keywordOf (rstrip (slice (strip (kwLine kw)) 0 5)) = some k) :
    readSections SP (fuel + 1) g (kwLine kw :: rest)
      = (readSection SP k g rest).bind fun p => readSections SP fuel p.1 p.2 := by
  rw [readSections]
  simp only [readline_cons, hne, Bool.false_eq_true, if_false, hk]
  rfl

theorem readSections_end (fuel : Nat) (g : Geo) (rest : List Str) :
    readSections SP (fuel + 1) g (['\n'] :: rest) = .ok g := by
  rw [readSections]
  simp only [readline_cons]
  rfl

/-! ### the columns after LAYERS and SURFA -/

theorem lookup_surfPairs (s : Rat) : ∀ (cs : List GColumn), (cs.map (·.name)).Nodup → ∀ c ∈ cs,
    List.lookup c.name ((surfPairs cs).map (canonPair s))
      = if c.defaultSurface then none else c.surface.map (canonC 2 s) := by
  intro cs
  induction cs with
  | nil => intro _ c hc; cases hc
  | cons c0 r ih =>
    intro hd c hc
    rw [List.map_cons, List.nodup_cons] at hd
    have hnone : ∀ nm, nm ∉ r.map (·.name) → List.lookup nm ((surfPairs r).map (canonPair s)) = none := by
      intro nm hnm
      rw [List.lookup_eq_none_iff]
      intro p hp
      simp only [bne_iff_ne, ne_eq]
      intro e
      apply hnm
      obtain ⟨q, hq, rfl⟩ := List.mem_map.mp hp
      unfold surfPairs at hq
      obtain ⟨c', hc', hcq⟩ := List.mem_filterMap.mp hq
      split at hcq
      · cases hcq
      · cases hz : c'.surface with
        | none => rw [hz] at hcq; cases hcq
        | some z =>
          rw [hz] at hcq
          simp only [Option.map_some, Option.some.injEq] at hcq
          subst hcq
          exact List.mem_map.mpr ⟨c', hc', e.symm⟩
    have hpairs : (surfPairs (c0 :: r)).map (canonPair s) =
        (if c0.defaultSurface then [] else match c0.surface with
          | some z => [(c0.name, canonC 2 s z)]
          | none => []) ++ (surfPairs r).map (canonPair s) := by
      unfold surfPairs
      rw [List.filterMap_cons]
      by_cases hd0 : c0.defaultSurface = true
      · simp [hd0]
      · cases hz : c0.surface with
        | none => simp [hd0, hz]
        | some z => simp [hd0, hz, canonPair]
    rw [hpairs]
    rcases List.mem_cons.mp hc with rfl | hcr
    · by_cases hd0 : c.defaultSurface = true
      · simp only [hd0, if_true, List.nil_append]
        exact hnone _ hd.1
      · cases hz : c.surface with
        | none => simp only [hd0, Bool.false_eq_true, if_false, List.nil_append, Option.map_none]; exact hnone _ hd.1
        | some z => simp [hd0, List.lookup_cons]
    · have hne : c.name ≠ c0.name := by
        intro e
        exact hd.1 (e ▸ List.mem_map.mpr ⟨c, hcr, rfl⟩)
      have := ih hd.2 c hcr
      by_cases hd0 : c0.defaultSurface = true
      · simp only [hd0, if_true, List.nil_append]; exact this
      · cases hz : c0.surface with
        | none => simp only [hd0, Bool.false_eq_true, if_false, List.nil_append]; exact this
        | some z =>
          simp only [hd0, Bool.false_eq_true, if_false, List.cons_append, List.nil_append, List.lookup_cons]
          have : (c.name == c0.name) = false := by simpa using hne
          rw [this]
          assumption

theorem head_canonLayers {s : Rat} {ls : List GLayer} {l0 : GLayer} (h : (canonLayers s ls).head? = some l0) :
    (canonLayers s ls).head?.map (·.bottom) = some l0.bottom := by rw [h]; rfl

theorem column_final_default {s : Rat} {nodes' : List GNode} {layers' : List GLayer} {l0 : GLayer}
    (hl : layers'.head? = some l0) (c : GColumn) (hd : c.defaultSurface = true) :
    defaultize l0.bottom layers'.length (preColumn s nodes' c) = canonColumn s nodes' layers' c := by
  unfold defaultize preColumn canonColumn
  cases c
  simp only at hd
  subst hd
  simp [hl]
  try rfl

theorem column_final {s : Rat} {nodes' : List GNode} {layers' : List GLayer} {l0 : GLayer}
    (hl : layers'.head? = some l0) (cs : List GColumn) (hd : (cs.map (·.name)).Nodup) (c : GColumn) (hc : c ∈ cs)
    (hs : c.defaultSurface = true ∨ ∃ z, c.surface = some z) :
    applySurf layers' ((surfPairs cs).map (canonPair s)) (defaultize l0.bottom layers'.length (preColumn s nodes' c))
      = canonColumn s nodes' layers' c := by
  unfold applySurf
  have hn : (defaultize l0.bottom layers'.length (preColumn s nodes' c)).name = c.name := rfl
  rw [hn, lookup_surfPairs s cs hd c hc]
  rcases hs with hdef | ⟨z, hz⟩
  · simp only [hdef, if_true]
    exact column_final_default hl c hdef
  · by_cases hdef : c.defaultSurface = true
    · simp only [hdef, if_true]
      exact column_final_default hl c hdef
    · have hdef' : c.defaultSurface = false := by simpa using hdef
      simp only [hdef', Bool.false_eq_true, if_false, hz, Option.map_some]
      unfold surfUpd defaultize preColumn canonColumn
      cases c
      simp only at hz hdef'
      subst hz hdef'
      simp
      try rfl

/-! ### the main theorem -/

theorem env_of {g : Geo} {L LL : Nat} {s : Rat} (w : WFP g L LL s) (g' : Geo) (h : g'.hdr = canonHeader g.hdr) :
    Env g' L LL s := by
  refine ⟨?_, ?_, ?_, w.hL, w.hLL⟩
  · rw [h]; exact w.cl
  · rw [h]; exact w.ll
  · rw [h]; exact w.sc

theorem kw_verti : (strip (kwLine kwVertices)).isEmpty = false ∧
    keywordOf (rstrip (slice (strip (kwLine kwVertices)) 0 5)) = some .verti := by decide
theorem kw_grid : (strip (kwLine kwGrid)).isEmpty = false ∧
    keywordOf (rstrip (slice (strip (kwLine kwGrid)) 0 5)) = some .grid := by decide
theorem kw_conne : (strip (kwLine kwConnections)).isEmpty = false ∧
    keywordOf (rstrip (slice (strip (kwLine kwConnections)) 0 5)) = some .conne := by decide
theorem kw_layer : (strip (kwLine kwLayers)).isEmpty = false ∧
    keywordOf (rstrip (slice (strip (kwLine kwLayers)) 0 5)) = some .layer := by decide
theorem kw_surfa : (strip (kwLine kwSurfa)).isEmpty = false ∧
    keywordOf (rstrip (slice (strip (kwLine kwSurfa)) 0 5)) = some .surfa := by decide
theorem kw_wells : (strip (kwLine kwWells)).isEmpty = false ∧
    keywordOf (rstrip (slice (strip (kwLine kwWells)) 0 5)) = some .wells := by decide

/-- reading the optional WELLS section and the end of the file -/
theorem read_tailWells {g : Geo} {L LL : Nat} {s : Rat} (w : WFP g L LL s) (g5 : Geo) (h5 : g5.hdr = canonHeader g.hdr)
    (hw5 : g5.wells = []) (fuel : Nat) :
    readSections SP (fuel + 2) g5 (tailWells g s [['\n']]) = .ok { g5 with wells := g.wells.map (canonWell s) } := by
  unfold tailWells
  by_cases hnw : g.wells.length > 0
  · rw [if_pos hnw, readSections_kw _ _ _ _ _ kw_wells.1 kw_wells.2,
      readSection_wells (env_of w g5 h5) g.wells w.wells (by rw [hw5]; simpa using w.wellsNodup)]
    simp only [Except.bind, hw5, List.nil_append]
    exact readSections_end _ _ _
  · rw [if_neg hnw, readSections_end]
    have : g.wells = [] := by
      cases hg : g.wells with
      | nil => rfl
      | cons a b => rw [hg] at hnw; simp at hnw
    rw [this]
    cases g5
    simp only at hw5
    subst hw5
    rfl

def st0 (g : Geo) : Geo := { hdr := canonHeader g.hdr }
def st1 (g : Geo) (s : Rat) : Geo := { hdr := canonHeader g.hdr, nodes := g.nodes.map (canonNode s) }
def st2 (g : Geo) (s : Rat) : Geo :=
  { hdr := canonHeader g.hdr, nodes := g.nodes.map (canonNode s),
    columns := g.columns.map (preColumn s (g.nodes.map (canonNode s))) }
def st3 (g : Geo) (s : Rat) : Geo :=
  { hdr := canonHeader g.hdr, nodes := g.nodes.map (canonNode s),
    columns := g.columns.map (preColumn s (g.nodes.map (canonNode s))), connections := g.connections }
def st4 (g : Geo) (s : Rat) (l0 : GLayer) : Geo :=
  { hdr := canonHeader g.hdr, nodes := g.nodes.map (canonNode s),
    columns := (g.columns.map (preColumn s (g.nodes.map (canonNode s)))).map
      (defaultize l0.bottom (canonLayers s g.layers).length),
    connections := g.connections, layers := canonLayers s g.layers }

theorem read_body {g : Geo} {L LL : Nat} {s : Rat} (w : WFP g L LL s) (fuel : Nat) :
    readSections SP (fuel + 7) (st0 g) (bodyLines g s) = .ok (canonGeo g) := by
  unfold bodyLines
  -- VERTICES
  rw [readSections_kw _ _ _ _ _ kw_verti.1 kw_verti.2,
    readSection_verti (env_of w (st0 g) rfl) g.nodes w.nodes (by simpa [st0] using w.nodesNodup)]
  rw [show ({ st0 g with nodes := (st0 g).nodes ++ g.nodes.map (canonNode s) } : Geo) = st1 g s from rfl]
  simp only [Except.bind]
  -- GRID
  rw [readSections_kw _ _ _ _ _ kw_grid.1 kw_grid.2,
    readSection_grid (env_of w (st1 g s) rfl) g.columns w.cols (by simpa [st1] using w.colsNodup)]
  rw [show ({ st1 g s with columns := (st1 g s).columns ++ g.columns.map (preColumn s (st1 g s).nodes) } : Geo) = st2 g s from rfl]
  simp only [Except.bind]
  -- CONNECTIONS
  have hcolnames : (st2 g s).columns.map (·.name) = g.columns.map (·.name) := by
    simp [st2, preColumn]
  rw [readSections_kw _ _ _ _ _ kw_conne.1 kw_conne.2,
    readSection_conne (env_of w (st2 g s) rfl) g.connections (by
      intro k hkk
      obtain ⟨h1, h2⟩ := w.conns k hkk
      have shape : ∀ nm ∈ g.columns.map (·.name), NameShape L nm := by
        intro nm h
        obtain ⟨c, hc, e⟩ := List.mem_map.mp h
        exact e ▸ (w.cols c hc).name
      exact ⟨shape _ h1, shape _ h2, lookupColumn_isSome (by rw [hcolnames]; exact h1),
        lookupColumn_isSome (by rw [hcolnames]; exact h2)⟩) (by simpa [st2] using w.connsNodup)]
  rw [show ({ st2 g s with connections := (st2 g s).connections ++ g.connections } : Geo) = st3 g s from rfl]
  simp only [Except.bind]
  -- LAYERS
  obtain ⟨l0, hl0, hlay⟩ := readSection_layer (env_of w (st3 g s) rfl) g.layers rfl w.layersNe w.layers w.layersNodup
    (tailSurf g s (tailWells g s [['\n']]))
  rw [readSections_kw _ _ _ _ _ kw_layer.1 kw_layer.2, hlay]
  have e4 : ({ (st3 g s) with layers := (canonLayers s g.layers), columns := ((st3 g s).columns.map (defaultize l0.bottom (canonLayers s g.layers).length)) } : Geo) = st4 g s l0 := rfl
  rw [e4]
  simp only [Except.bind]
  -- SURFA / WELLS / end
  have hfinal : ∀ cols5, cols5 = g.columns.map (canonColumn s (g.nodes.map (canonNode s)) (canonLayers s g.layers)) →
      ({ hdr := canonHeader g.hdr, nodes := g.nodes.map (canonNode s), columns := cols5, connections := g.connections,
         layers := canonLayers s g.layers, wells := g.wells.map (canonWell s) } : Geo) = canonGeo g := by
    intro cols5 h
    unfold canonGeo
    rw [w.sOf, h]
  unfold tailSurf
  by_cases hds : (g.columns.all fun c => c.defaultSurface) = true
  · rw [if_pos hds, show fuel + 3 = (fuel + 1) + 2 from rfl, read_tailWells w _ rfl rfl]
    apply congrArg
    apply hfinal
    simp only [st4, List.map_map]
    apply List.map_congr_left
    intro c hc
    have hd : c.defaultSurface = true := by
      have := List.all_eq_true.mp hds c hc
      simpa using this
    exact column_final_default hl0 c hd
  · rw [if_neg hds, readSections_kw _ _ _ _ _ kw_surfa.1 kw_surfa.2]
    unfold surfTextLines
    have hnames4 : (st4 g s l0).columns.map (·.name) = g.columns.map (·.name) := by
      simp [st4, defaultize, preColumn]
    have hpairs : ∀ nz ∈ surfPairs g.columns,
        NameShape L nz.1 ∧ fitsC 2 s nz.2 = true ∧ nz.1 ∈ (st4 g s l0).columns.map (·.name) := by
      intro nz hnz
      unfold surfPairs at hnz
      obtain ⟨c, hc, hcz⟩ := List.mem_filterMap.mp hnz
      rcases w.colSurf c hc with hd | ⟨z, hz, hf⟩
      · simp [hd] at hcz
      · by_cases hd : c.defaultSurface = true
        · simp [hd] at hcz
        · simp only [hd, Bool.false_eq_true, if_false, hz, Option.map_some, Option.some.injEq] at hcz
          subst hcz
          exact ⟨(w.cols c hc).name, hf, by rw [hnames4]; exact List.mem_map.mpr ⟨c, hc, rfl⟩⟩
    have hpnodup : ((surfPairs g.columns).map (·.1)).Nodup := by
      have hsub : ((surfPairs g.columns).map (·.1)).Sublist (g.columns.map (·.name)) := by
        unfold surfPairs
        generalize g.columns = cs
        induction cs with
        | nil => exact List.Sublist.slnil
        | cons c r ih =>
          rw [List.filterMap_cons]
          by_cases hd : c.defaultSurface = true
          · simp only [hd, if_true, List.map_cons]
            exact List.Sublist.cons _ ih
          · cases hz : c.surface with
            | none =>
              simp only [hd, Bool.false_eq_true, if_false, hz, Option.map_none, List.map_cons]
              exact List.Sublist.cons _ ih
            | some z =>
              simp only [hd, Bool.false_eq_true, if_false, hz, Option.map_some, List.map_cons]
              exact List.Sublist.cons₂ _ ih
      exact List.Nodup.sublist hsub w.colsNodup
    rw [readSection_surfa (env_of w (st4 g s l0) rfl) (surfPairs g.columns) hpairs hpnodup]
    simp only [Except.bind]
    rw [read_tailWells w _ rfl rfl]
    apply congrArg
    apply hfinal
    simp only [st4, List.map_map]
    apply List.map_congr_left
    intro c hc
    simp only [Function.comp]
    apply column_final hl0 g.columns w.colsNodup c hc
    rcases w.colSurf c hc with hd | ⟨z, hz, _⟩
    · exact Or.inl hd
    · exact Or.inr ⟨z, hz⟩

theorem bodyLines_length (g : Geo) (s : Rat) : ∃ f, (bodyLines g s).length + 1 = f + 7 := by
  refine ⟨(bodyLines g s).length - 6, ?_⟩
  have : 8 ≤ (bodyLines g s).length := by
    unfold bodyLines
    simp only [List.length_cons, List.length_append]
    omega
  omega

/-- **Round trip**: a well-formed geometry is written to a text that reads back as its canonical form. -/
theorem roundtrip {g : Geo} (hwf : WF g = true) :
    ∃ t, write g = .ok t ∧ GeoFile.read t = .ok (canonGeo g) := by
  obtain ⟨L, LL, s, w⟩ := wfp_of hwf
  obtain ⟨t, ht, hl⟩ := pyLines_write w
  refine ⟨t, ht, ?_⟩
  unfold GeoFile.read readInto
  rw [specs_eq]
  simp only [bind, Except.bind, hl, fileLines, readline_cons]
  rw [readHeader_written w.hdr ['\n']]
  simp only
  have htype : (canonHeader g.hdr).type = ['G', 'E', 'N', 'E', 'R'] := w.hdr.type
  rw [if_pos htype]
  obtain ⟨f, hf⟩ := bodyLines_length g s
  rw [hf]
  exact read_body w f

end Proofs.GeoFile
