/-
  Proofs for C18: the surface formula, the missing spacing, rotation algebra, rectangle half
  widths (Mathlib ring/field tactics over ℚ), and the direction track along a line of blocks
  (core Lean).
-/
import Mathlib.Tactic.Ring
import Mathlib.Tactic.FieldSimp
import Mathlib.Tactic.Linarith
import PyTough.Model.RectGeo
import PyTough.Proofs.FromGeoConn
namespace Proofs.RectGeo
open Py Model.FromGeo Model.RectGeo

/-! ### the surface formula inverts `block_centre` / `block_volume` -/

theorem layer_name_ne (g : Geo) (lay : Layer) (hwf : LayersWF g) (hl : lay ∈ g.layers) :
    lay.name ≠ g.layer0.name := by
  have hnd := hwf.2.2
  simp only [Geo.layerlist, List.map_cons, List.nodup_cons, List.mem_map, not_exists, not_and] at hnd
  exact fun h => hnd.1 lay hl h

theorem surface_inside (g : Geo) (lay : Layer) (col : Column) (hwf : LayersWF g) (hl : lay ∈ g.layers)
    (ha : 0 < col.area) (hb : lay.bottom < col.surface) (ht : col.surface ≤ lay.top)
    (lt : Rat) (hlt : col.surface - lay.bottom ≤ lt) :
    ∃ c v, blockCentre g lay col = some c ∧ blockVolume g lay col = some v ∧
      surfaceFormula c.z (v / col.area) lt = col.surface := by
  have hn := layer_name_ne g lay hwf hl
  refine ⟨⟨col.centre.x, col.centre.y, (1 / 2 : Rat) * (lay.bottom + col.surface)⟩,
          col.area * (blockTop g lay col - lay.bottom), ?_, Proofs.FromGeo.block_volume_any g lay col hwf hl hb, ?_⟩
  · simp [blockCentre, hn, hb, ht]
  · have htop : blockTop g lay col = col.surface := by
      unfold blockTop
      by_cases h1 : g.layers.head? = some lay ∨ col.surface < lay.top
      · simp [h1]
      · simp only [h1, if_false]
        have := not_or.1 h1
        exact le_antisymm (not_lt.1 this.2) ht
    rw [htop]
    have hne : col.area ≠ 0 := ne_of_gt ha
    have hbh : col.area * (col.surface - lay.bottom) / col.area = col.surface - lay.bottom := by
      field_simp
    rw [hbh]
    unfold surfaceFormula
    simp only [hlt, if_true]
    ring

theorem surface_above (g : Geo) (lay : Layer) (col : Column) (hwf : LayersWF g)
    (hl : g.layers.head? = some lay) (ha : 0 < col.area) (ht : lay.top < col.surface)
    (hmid : lay.centre = (1 / 2 : Rat) * (lay.bottom + lay.top)) :
    ∃ c v, blockCentre g lay col = some c ∧ blockVolume g lay col = some v ∧
      surfaceFormula c.z (v / col.area) (lay.top - lay.bottom) = col.surface := by
  have hmem : lay ∈ g.layers := by
    cases hls : g.layers with
    | nil => rw [hls] at hl; cases hl
    | cons a r => rw [hls] at hl; simp at hl; rw [hl]; exact List.mem_cons_self
  have hn := layer_name_ne g lay hwf hmem
  have hpos : lay.bottom < lay.top := by
    have hc := hwf.2.1
    cases hls : g.layers with
    | nil => rw [hls] at hl; cases hl
    | cons a r =>
      rw [hls] at hl hc
      simp at hl
      simp only [chainOk, Bool.and_eq_true, decide_eq_true_eq] at hc
      rw [← hl]; exact hc.1.2
  have hb : lay.bottom < col.surface := lt_trans hpos ht
  refine ⟨⟨col.centre.x, col.centre.y, lay.centre⟩,
          col.area * (blockTop g lay col - lay.bottom), ?_, Proofs.FromGeo.block_volume_any g lay col hwf hmem hb, ?_⟩
  · have h1 : ¬ col.surface ≤ lay.top := not_le.2 ht
    have h2 : ¬ col.surface ≤ lay.bottom := not_le.2 hb
    simp [blockCentre, hn, h1, h2]
  · have htop : blockTop g lay col = col.surface := by
      unfold blockTop; simp [hl]
    rw [htop]
    have hne : col.area ≠ 0 := ne_of_gt ha
    have hbh : col.area * (col.surface - lay.bottom) / col.area = col.surface - lay.bottom := by
      field_simp
    rw [hbh]
    unfold surfaceFormula
    have : ¬ (col.surface - lay.bottom ≤ lay.top - lay.bottom) := by
      intro h; linarith
    simp only [this, if_false, hmid]
    ring

/-! ### missing spacing -/

theorem missing_spacing (s1 s2 s3 : List Rat) (p1 p2 : Nat) (a b c vol : Rat)
    (h1 : ownSpacing s1 s2 s3 p1 = .ok a) (h2 : ownSpacing s1 s2 s3 p2 = .ok b)
    (ha : a ≠ 0) (hb : b ≠ 0) (hv : vol = a * b * c) :
    missingSpacing s1 s2 s3 [p1, p2] vol = .ok c := by
  simp only [missingSpacing, h1, h2, hv]
  congr 1
  field_simp

/-! ### rotation -/

theorem rot_inverse (c s : Rat) (h : c * c + s * s = 1) (p : P2) : rotP c (-s) (rotP c s p) = p := by
  cases p with
  | mk x y =>
    simp only [rotP, P2.mk.injEq]
    constructor
    · have : c * (c * x - s * y) - -s * (s * x + c * y) = (c * c + s * s) * x := by ring
      rw [this, h]; ring
    · have : -s * (c * x - s * y) + c * (s * x + c * y) = (c * c + s * s) * y := by ring
      rw [this, h]; ring

theorem cosSin_unit (d : P2) (second : Bool) (nrm : Rat) (hn : nrm * nrm = d.x * d.x + d.y * d.y) (h0 : nrm ≠ 0) :
    (cosSin d second nrm).x * (cosSin d second nrm).x + (cosSin d second nrm).y * (cosSin d second nrm).y = 1 := by
  unfold cosSin
  cases second <;> simp only [if_true, if_false, Bool.false_eq_true] <;> field_simp <;> linarith

/-! ### rectangles: twice the connection distance is the spacing -/

theorem rect_half_width_x (x0 x1 y0 y1 : Rat) (hy : y0 ≠ y1) :
    P2.normSq (P2.sub (lineProjection ⟨(x0 + x1) / 2, (y0 + y1) / 2⟩ ⟨x1, y0⟩ ⟨x1, y1⟩) ⟨(x0 + x1) / 2, (y0 + y1) / 2⟩)
      = ((x1 - x0) / 2) ^ 2 := by
  have h : (⟨x1, y0⟩ : P2) ≠ ⟨x1, y1⟩ := by
    intro h; injection h with _ h2; exact hy h2
  rw [Proofs.FromGeo.perp_dist_cross _ _ _ h]
  simp only [cross, P2.sub, P2.normSq, P2.dot]
  have : y1 - y0 ≠ 0 := sub_ne_zero.2 (Ne.symm hy)
  field_simp
  ring

theorem rect_half_width_y (x0 x1 y0 y1 : Rat) (hx : x0 ≠ x1) :
    P2.normSq (P2.sub (lineProjection ⟨(x0 + x1) / 2, (y0 + y1) / 2⟩ ⟨x0, y1⟩ ⟨x1, y1⟩) ⟨(x0 + x1) / 2, (y0 + y1) / 2⟩)
      = ((y1 - y0) / 2) ^ 2 := by
  have h : (⟨x0, y1⟩ : P2) ≠ ⟨x1, y1⟩ := by
    intro h; injection h with h1 _; exact hx h1
  rw [Proofs.FromGeo.perp_dist_cross _ _ _ h]
  simp only [cross, P2.sub, P2.normSq, P2.dot]
  have : x1 - x0 ≠ 0 := sub_ne_zero.2 (Ne.symm hx)
  field_simp
  ring

/-! ### following a direction along a line of blocks -/

theorem joins_iff (c : GConn) (a b : Str) :
    joins c a b = true ↔ (c.b0 = a ∧ c.b1 = b) ∨ (c.b0 = b ∧ c.b1 = a) := by
  simp [joins]

theorem touches_iff (c : GConn) (l : Str) : touches c l = true ↔ (c.b0 = l ∨ c.b1 = l) := by
  simp [touches]

theorem conDist_of_touches {c : GConn} {a : Str} (h : touches c a = true) : conDist c a = .ok (distAt c a) := by
  rw [touches_iff] at h
  unfold conDist distAt
  rcases h with h0 | h1
  · simp [h0]
  · by_cases h0 : c.b0 = a
    · simp [h0]
    · simp [h0, h1]

theorem touches_of_joins {c : GConn} {a b : Str} (h : joins c a b = true) : touches c a = true := by
  rw [joins_iff] at h; rw [touches_iff]
  rcases h with ⟨h0, _⟩ | ⟨_, h1⟩
  · exact Or.inl h0
  · exact Or.inr h1

theorem touches_of_joins' {c : GConn} {a b : Str} (h : joins c a b = true) : touches c b = true := by
  rw [joins_iff] at h; rw [touches_iff]
  rcases h with ⟨_, h1⟩ | ⟨h0, _⟩
  · exact Or.inr h1
  · exact Or.inl h0

theorem otherEnd_of_joins {c : GConn} {a b : Str} (h : joins c a b = true) : otherEnd c a = b := by
  rw [joins_iff] at h
  unfold otherEnd
  rcases h with ⟨h0, h1⟩ | ⟨h0, h1⟩
  · simp [h0, h1]
  · by_cases h2 : c.b0 = a
    · simp only [h2, if_true]; rw [h1]; rw [← h2, h0]
    · simp only [h2, if_false]; exact h0

/-- scanning a list whose members are the admissible connection `c` or connections to boundary
    blocks, and which contains `c`, finds `c` -/
theorem nextScan_mixed (T : TGrid) (blk : Str) (mv : Option Rat) (c : GConn) (nb : GBlock)
    (hf : findB T (otherEnd c blk) = .ok nb) (hv : volOk mv nb = true) :
    ∀ (l : List GConn), c ∈ l → (∀ x ∈ l, x = c ∨ inadmissible T mv blk x = true) →
      nextScan T blk mv l = .ok (some (nb, c)) := by
  intro l
  induction l with
  | nil => intro h; cases h
  | cons x xs ih =>
    intro hmem hall
    by_cases hx : x = c
    · subst hx; simp [nextScan, hf, hv]
    · have hin : inadmissible T mv blk x = true := by
        rcases hall x List.mem_cons_self with h | h
        · exact absurd h hx
        · exact h
      unfold inadmissible at hin
      simp only [nextScan]
      cases hfx : findB T (otherEnd x blk) with
      | error e => rw [hfx] at hin; cases hin
      | ok nb' =>
        rw [hfx] at hin
        simp only [Bool.not_eq_true'] at hin
        simp only [hin]
        apply ih
        · rcases List.mem_cons.1 hmem with h | h
          · exact absurd h.symm hx
          · exact h
        · intro y hy; exact hall y (List.mem_cons_of_mem _ hy)

theorem nextScan_none (T : TGrid) (blk : Str) (mv : Option Rat) :
    ∀ (l : List GConn), (∀ x ∈ l, inadmissible T mv blk x = true) → nextScan T blk mv l = .ok none := by
  intro l
  induction l with
  | nil => intro _; rfl
  | cons x xs ih =>
    intro hall
    have hin := hall x List.mem_cons_self
    unfold inadmissible at hin
    simp only [nextScan]
    cases hfx : findB T (otherEnd x blk) with
    | error e => rw [hfx] at hin; cases hin
    | ok nb' =>
      rw [hfx] at hin
      simp only [Bool.not_eq_true'] at hin
      simp only [hin]
      exact ih (fun y hy => hall y (List.mem_cons_of_mem _ hy))

theorem mem_candidates (T : TGrid) (blk : Str) (last : Option Str) (k : Nat) (c : GConn) :
    c ∈ candidates T blk last k ↔
      c ∈ T.conns ∧ touches c blk = true ∧ c.dirn = k ∧ (∀ l, last = some l → touches c l = false) := by
  unfold candidates connsOf touches
  cases last with
  | none =>
    simp only [List.mem_filter, Bool.or_eq_true, decide_eq_true_eq]
    constructor
    · rintro ⟨⟨h1, h2⟩, h3⟩; exact ⟨h1, h2, h3, by intro l hl; cases hl⟩
    · rintro ⟨h1, h2, h3, _⟩; exact ⟨⟨h1, h2⟩, h3⟩
  | some l =>
    simp only [List.mem_filter, Bool.or_eq_true, decide_eq_true_eq, Bool.and_eq_true, ne_eq,
      Option.some.injEq, forall_eq', Bool.or_eq_false_iff, decide_eq_false_iff_not]
    constructor
    · rintro ⟨⟨⟨h1, h2⟩, h3⟩, h4, h5⟩; exact ⟨h1, h2, h3, by simpa using h4, by simpa using h5⟩
    · rintro ⟨h1, h2, h3, h4, h5⟩; exact ⟨⟨⟨h1, h2⟩, h3⟩, by simpa using h4, by simpa using h5⟩

theorem incident_spec {T : TGrid} {k : Nat} {mv : Option Rat} {n : Str} {allowed : List GConn}
    (h : incidentAmong T k mv n allowed = true) (c : GConn) (hc : c ∈ T.conns) (hk : c.dirn = k)
    (ht : touches c n = true) : c ∈ allowed ∨ inadmissible T mv n c = true := by
  unfold incidentAmong at h
  rw [List.all_eq_true] at h
  have := h c hc
  simp only [hk, ht, decide_true, Bool.and_self, Bool.not_true, Bool.false_or, Bool.or_eq_true,
    List.contains_iff_mem] at this
  exact this

/-- what `isLine` says at a step -/
theorem isLine_cons {T : TGrid} {k : Nat} {mv : Option Rat} {last : Option Str} {prev : Option GConn}
    {b : GBlock} {c : GConn} {nb : GBlock} {rest : List (GConn × GBlock)}
    (h : isLine T k mv last prev b ((c, nb) :: rest) = true) :
    incidentAmong T k mv b.name (prev.toList ++ [c]) = true ∧
    (∀ p ∈ prev, ∃ l, last = some l ∧ touches p l = true) ∧
    c ∈ T.conns ∧ c.dirn = k ∧ joins c b.name nb.name = true ∧ (∀ l, last = some l → touches c l = false) ∧
    findB T nb.name = .ok nb ∧ volOk mv nb = true ∧ isLine T k mv (some b.name) (some c) nb rest = true := by
  simp only [isLine, Bool.and_eq_true, decide_eq_true_eq, List.contains_iff_mem] at h
  obtain ⟨⟨⟨⟨⟨⟨⟨⟨h1, h2⟩, h3⟩, h4⟩, h5⟩, h6⟩, h7⟩, h8⟩, h9⟩ := h
  refine ⟨h1, ?_, h3, h4, h5, ?_, h7, h8, h9⟩
  · intro p hp
    cases prev with
    | none => cases hp
    | some q =>
      cases hp
      cases last with
      | none => simp at h2
      | some l => exact ⟨l, rfl, by simpa using h2⟩
  · intro l hl
    subst hl
    simpa using h6

theorem isLine_nil {T : TGrid} {k : Nat} {mv : Option Rat} {last : Option Str} {prev : Option GConn}
    {b : GBlock} (h : isLine T k mv last prev b [] = true) :
    incidentAmong T k mv b.name prev.toList = true ∧
    (∀ p ∈ prev, ∃ l, last = some l ∧ touches p l = true) := by
  simp only [isLine, Bool.and_eq_true] at h
  refine ⟨h.1, ?_⟩
  intro p hp
  cases prev with
  | none => cases hp
  | some q =>
    cases hp
    cases last with
    | none => simp at h
    | some l => exact ⟨l, rfl, by simpa using h.2⟩

/-- the candidate next block is unique: on a line, `next_block_in_direction` returns the next
    block of the line and the connection to it, whatever the order of the connection set -/
theorem nextBlock_step (T : TGrid) (k : Nat) (mv : Option Rat) (last : Option Str) (prev : Option GConn)
    (b : GBlock) (c : GConn) (nb : GBlock) (rest : List (GConn × GBlock))
    (h : isLine T k mv last prev b ((c, nb) :: rest) = true) :
    nextBlock T b.name last k mv = .ok (some (nb, c)) := by
  obtain ⟨hinc, hprev, hc, hk, hj, hlast, hf, hv, _⟩ := isLine_cons h
  unfold nextBlock
  apply nextScan_mixed T b.name mv c nb (by rw [otherEnd_of_joins hj]; exact hf) hv
  · rw [mem_candidates]
    exact ⟨hc, touches_of_joins hj, hk, hlast⟩
  · intro x hx
    rw [mem_candidates] at hx
    obtain ⟨hx1, hx2, hx3, hx4⟩ := hx
    rcases incident_spec hinc x hx1 hx3 hx2 with hp | hp
    · rcases List.mem_append.1 hp with hp | hp
      · -- x is the previous connection: it touches `last`, so it was filtered out
        have hp' : x ∈ prev := by simpa using hp
        obtain ⟨l, hl, hxl⟩ := hprev x hp'
        have := hx4 l hl
        rw [hxl] at this; cases this
      · exact Or.inl (by simpa using hp)
    · exact Or.inr hp

theorem nextBlock_end (T : TGrid) (k : Nat) (mv : Option Rat) (last : Option Str) (prev : Option GConn)
    (b : GBlock) (h : isLine T k mv last prev b [] = true) :
    nextBlock T b.name last k mv = .ok none := by
  obtain ⟨hinc, hprev⟩ := isLine_nil h
  unfold nextBlock
  apply nextScan_none
  intro x hx
  rw [mem_candidates] at hx
  obtain ⟨hx1, hx2, hx3, hx4⟩ := hx
  rcases incident_spec hinc x hx1 hx3 hx2 with hp | hp
  · have hp' : x ∈ prev := by simpa using hp
    obtain ⟨l, hl, hxl⟩ := hprev x hp'
    have := hx4 l hl
    rw [hxl] at this; cases this
  · exact hp

/-- `block_direction_track` along a line returns exactly the blocks of the line, in order, and
    twice each block's own connection distance -/
theorem trackLoop_line (T : TGrid) (k : Nat) (mv : Option Rat) :
    ∀ (steps : List (GConn × GBlock)) (fuel : Nat) (last : Option Str) (prev : Option GConn) (b : GBlock)
      (blks : List GBlock) (sizes : List Rat),
      steps.length < fuel → volOk mv b = true → isLine T k mv last prev b steps = true →
      (∀ p ∈ prev, touches p b.name = true) →
      trackLoop T k mv fuel b last prev blks sizes =
        .ok (blks ++ lineBlocks b steps, sizes ++ lineSizes prev b steps) := by
  intro steps
  induction steps with
  | nil =>
    intro fuel last prev b blks sizes hfuel hok hline hprevb
    cases fuel with
    | zero => simp at hfuel
    | succ fuel =>
      simp only [trackLoop, hok, if_true, nextBlock_end T k mv last prev b hline]
      cases prev with
      | none => simp [lineBlocks, lineSizes]
      | some lc =>
        simp [conDist_of_touches (hprevb lc rfl), lineBlocks, lineSizes]
  | cons step rest ih =>
    intro fuel last prev b blks sizes hfuel hok hline hprevb
    obtain ⟨c, nb⟩ := step
    cases fuel with
    | zero => simp at hfuel
    | succ fuel =>
      have hstep := nextBlock_step T k mv last prev b c nb rest hline
      obtain ⟨_, _, _, _, hj, _, _, hv, hrest⟩ := isLine_cons hline
      simp only [trackLoop, hok, if_true, hstep, conDist_of_touches (touches_of_joins hj)]
      rw [ih fuel (some b.name) (some c) nb (blks ++ [b]) (sizes ++ [2 * distAt c b.name])
        (by simpa using hfuel) hv hrest
        (by intro p hp; cases hp; exact touches_of_joins' hj)]
      simp [lineBlocks, lineSizes]

theorem track_line (T : TGrid) (k : Nat) (mv : Option Rat) (b : GBlock) (steps : List (GConn × GBlock))
    (hlen : steps.length ≤ T.blocks.length) (hok : volOk mv b = true)
    (hline : isLine T k mv none none b steps = true) :
    track T b k mv = .ok (lineBlocks b steps, lineSizes none b steps) := by
  unfold track
  rw [trackLoop_line T k mv steps _ none none b [] [] (by omega) hok hline (by intro p hp; cases hp)]
  simp

/-- `find_surface` for one column whose blocks form a vertical line starting at the mapped bottom
    block: the new surface is the two-case formula applied to the top block of the line, its
    volume over the column area, and twice its own vertical distance (the block height itself
    when the line is a single block). -/
theorem columnSurface_line (T : TGrid) (g : Geo) (mp : BlockMap) (maxVol : Rat) (col : Column)
    (bottomLayer : Layer) (gn : Str) (bb : GBlock) (steps : List (GConn × GBlock))
    (hbl : g.layerlist.getLast? = some bottomLayer)
    (hgn : blockName g.convention bottomLayer.name col.name = .ok gn)
    (hmp : mp.lookup gn = some bb.name) (hfb : findB T bb.name = .ok bb)
    (hlen : steps.length ≤ T.blocks.length) (hok : volOk (some maxVol) bb = true)
    (hline : isLine T 3 (some maxVol) none none bb steps = true)
    (top : GBlock) (htop : (lineBlocks bb steps).getLast? = some top) (c : P3) (hc : top.centre = some c)
    (hv : top.volume > 0) :
    columnSurface T g mp maxVol col =
      .ok (some (surfaceFormula c.z (top.volume / col.area)
        (lastOr (lineSizes none bb steps) (top.volume / col.area)))) := by
  unfold columnSurface
  have hne : (lineBlocks bb steps).isEmpty = false := by simp [lineBlocks]
  simp only [hbl, hgn, hmp, hfb, track_line T 3 (some maxVol) bb steps hlen hok hline, hne, List.contains_nil,
    List.filter_false, removeLoop, htop, hc, hv, if_true, Bool.false_eq_true, if_false]

end Proofs.RectGeo
