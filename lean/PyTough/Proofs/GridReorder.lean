/-
  Invariant preservation: reorder (block permutation, connection permutation with reversals).
-/
import PyTough.Proofs.GridStep
namespace Proofs.Grid
open Py Model Model.Grid Model.Grid.World

theorem connReplace_ok {w : World} {b : Nat} {orig names : CName} (hb : b < w.blks.length)
    (hk : orig ∈ (w.bk b).conn) :
    connReplace w b orig names =
      some (w.setBlk b { w.bk b with conn := sadd ((w.bk b).conn.erase orig) names }) := by
  simp only [connReplace, connRemove, hk, if_true, World.connAdd, bk_setBlk, hb, and_self]
  simp only [World.setBlk, List.set_set]

/-- the state after the reversal branch -/
def flipWorld (w : World) (c : Nat) (orig names : CName) (b0 b1 : Nat) : World :=
  { w with cons := w.cons.set c (flipCon (w.cn c)),
           blks := (w.blks.set b1 { w.bk b1 with conn := sadd ((w.bk b1).conn.erase orig) names }).set b0
                     { w.bk b0 with conn := sadd ((w.bk b0).conn.erase orig) names },
           connection := dset (ddel w.connection orig) names c }

theorem flipConnection_ok {w : World} (hI : Grid.Inv w) {c : Nat} {orig names : CName}
    (hd : dget w.connection orig = some c) :
    flipConnection w c orig names = .ok (flipWorld w c orig names (w.cn c).b0 (w.cn c).b1) := by
  have hc := hI.cd_sound orig c hd
  have ends := hI.c_ends c hc.1
  have hlt0 := hI.bl_lt _ ends.1
  have hlt1 := hI.bl_lt _ ends.2.1
  have hk0 : orig ∈ (w.bk (w.cn c).b0).conn := (hI.conn_iff _ ends.1 orig).mpr ⟨c, hc.1, hc.2, Or.inl rfl⟩
  have hk1 : orig ∈ (w.bk (w.cn c).b1).conn := (hI.conn_iff _ ends.2.1 orig).mpr ⟨c, hc.1, hc.2, Or.inr rfl⟩
  have hne := ends.2.2
  unfold flipConnection
  have e1 : (flipCon (w.cn c)).b0 = (w.cn c).b1 := rfl
  have e2 : (flipCon (w.cn c)).b1 = (w.cn c).b0 := rfl
  simp only [e1, e2]
  rw [connReplace_ok (w := w.setCon c (flipCon (w.cn c))) (by simpa [World.setCon] using hlt1) (by simpa using hk1)]
  simp only []
  rw [connReplace_ok (by simpa [World.setCon, World.setBlk] using hlt0)
        (by simp only [bk_setBlk, bk_setCon, Ne.symm hne, false_and, if_false]; exact hk0)]
  simp only [bk_setBlk, bk_setCon, Ne.symm hne, false_and, if_false]
  rfl

theorem flipWorld_inv {w : World} (hI : Grid.Inv w) {c : Nat} {names : CName}
    (hc : c ∈ w.connectionlist) (horig : w.ckey c = (names.2, names.1))
    (hnone : dget w.connection names = none) :
    Grid.Inv (flipWorld w c (names.2, names.1) names (w.cn c).b0 (w.cn c).b1) := by
  have hC := hI.conInv
  have hB := hI.blockInv
  have ends := hI.c_ends c hc
  have hclt := hI.cl_lt c hc
  have hlt0 := hI.bl_lt _ ends.1
  have hlt1 := hI.bl_lt _ ends.2.1
  have hd := hI.cd_complete c hc
  rw [horig] at hd
  generalize horig' : (names.2, names.1) = orig at *
  generalize hb0 : (w.cn c).b0 = b0 at *
  generalize hb1 : (w.cn c).b1 = b1 at *
  have hne := ends.2.2
  have hnames : names = (w.bname b1, w.bname b0) := by
    have : (w.bname b0, w.bname b1) = orig := by simpa only [World.ckey, hb0, hb1] using horig
    rw [← horig'] at this
    simp only [Prod.mk.injEq] at this
    exact Prod.ext this.2.symm this.1.symm
  have hon : orig ≠ names := by
    intro e; rw [e] at hd; rw [hd] at hnone; cases hnone
  generalize hw' : flipWorld w c orig names b0 b1 = w'
  unfold flipWorld at hw'
  have hbk : ∀ x, w'.bk x = if x = b0 ∨ x = b1 then { w.bk x with conn := sadd ((w.bk x).conn.erase orig) names } else w.bk x := by
    intro x; subst hw'
    simp only [World.bk, getD_set, List.length_set]
    by_cases e0 : b0 = x
    · subst e0; simp [hlt0]
    · by_cases e1 : b1 = x
      · subst e1; simp [e0, hlt1]
      · simp [e0, e1, Ne.symm e0, Ne.symm e1]
  have hnm : ∀ x, w'.bname x = w.bname x := by
    intro x; simp only [World.bname, hbk]; split <;> rfl
  have hcn : ∀ x, w'.cn x = if x = c then flipCon (w.cn c) else w.cn x := by
    intro x; subst hw'
    simp only [World.cn, getD_set]
    by_cases e : c = x
    · subst e; simp [hclt]
    · simp [e, Ne.symm e]
  have hkey : ∀ x, w'.ckey x = if x = c then names else w.ckey x := by
    intro x
    simp only [World.ckey, hnm, hcn]
    split
    · rename_i e; subst e
      show (w.bname (w.cn x).b1, w.bname (w.cn x).b0) = names
      rw [hb0, hb1, hnames]
    · rfl
  have hcl : w'.connectionlist = w.connectionlist := by subst hw'; rfl
  have hcd : w'.connection = dset (ddel w.connection orig) names c := by subst hw'; rfl
  have hblist : w'.blocklist = w.blocklist := by subst hw'; rfl
  -- mentions are symmetric in the two ends
  have hment : ∀ y x, ((w'.cn y).b0 = x ∨ (w'.cn y).b1 = x) ↔ ((w.cn y).b0 = x ∨ (w.cn y).b1 = x) := by
    intro y x; rw [hcn]; split
    · rename_i e; subst e; show ((w.cn y).b1 = x ∨ (w.cn y).b0 = x) ↔ _; exact Or.comm
    · exact Iff.rfl
  refine inv_of_con_change hI (by subst hw'; rfl) (by subst hw'; rfl) (by subst hw'; rfl) hblist (by subst hw'; rfl)
    (by subst hw'; simp) (fun x _ => hnm x) ?_ ⟨?_, ?_, ?_, ?_, ?_⟩ ⟨?_, ?_⟩
  · intro x _; rw [hbk]; split <;> rfl
  · intro x hx; rw [hcl] at hx; subst hw'; simp only [List.length_set]; exact hC.cl_lt x hx
  · rw [hcl]; exact hC.cl_nodup
  · intro k' x hx
    rw [hcd, dget_dset] at hx
    rw [hcl, hkey]
    split at hx
    · rename_i hkk; cases hx; simp [hc, hkk]
    · rename_i hne'
      rw [dget_ddel] at hx
      split at hx
      · cases hx
      · rename_i hno
        have := hC.cd_sound k' x hx
        have hxc : x ≠ c := by intro e; subst e; exact hno (horig.symm.trans this.2)
        simp [hxc, this.1, this.2]
  · intro x hx
    rw [hcl] at hx
    rw [hcd, hkey]
    by_cases e : x = c
    · subst e; simp
    · have hx' := hC.cd_complete x hx
      have h1 : names ≠ w.ckey x := by intro e2; rw [← e2, hnone] at hx'; cases hx'
      have h2 : orig ≠ w.ckey x := by intro e2; exact e (hC.key_inj hx hc (e2.symm.trans horig.symm))
      simp [e, dget_dset, dget_ddel, h1, h2, hx']
  · intro x hx
    rw [hcl] at hx
    rw [hcn, hblist]
    split
    · rename_i e; subst e
      show (w.cn x).b1 ∈ _ ∧ (w.cn x).b0 ∈ _ ∧ (w.cn x).b1 ≠ (w.cn x).b0
      rw [hb0, hb1]; exact ⟨ends.2.1, ends.1, Ne.symm hne⟩
    · exact hC.c_ends x hx
  · intro x hx
    rw [hblist] at hx
    rw [hbk]; split
    · exact nodup_sadd _ ((hI.conn_nodup x hx).erase _)
    · exact hI.conn_nodup x hx
  · intro x hx k'
    rw [hblist] at hx
    have hiff := hI.conn_iff x hx k'
    have hnd := hI.conn_nodup x hx
    rw [hbk, hcl]
    simp only [hment, hkey]
    have hcm : ((w.cn c).b0 = x ∨ (w.cn c).b1 = x) ↔ (x = b0 ∨ x = b1) := by
      rw [hb0, hb1]; constructor <;> (rintro (h | h) <;> simp [h])
    split
    · rename_i hx01
      show k' ∈ sadd ((w.bk x).conn.erase orig) names ↔ _
      rw [mem_sadd, hnd.mem_erase_iff, hiff]
      constructor
      · rintro (e | ⟨hne', y, hy, e, hm⟩)
        · exact ⟨c, hc, by simp [e], hcm.mpr hx01⟩
        · have hyc : y ≠ c := by intro e2; subst e2; exact hne' (e.symm.trans horig)
          exact ⟨y, hy, by simp [hyc, e], hm⟩
      · rintro ⟨y, hy, e, hm⟩
        by_cases hyc : y = c
        · subst hyc; simp at e; exact Or.inl e.symm
        · simp only [hyc, if_false] at e
          refine Or.inr ⟨?_, y, hy, e, hm⟩
          intro e2; exact hyc (hC.key_inj hy hc (e.trans (e2.trans horig.symm)))
    · rename_i hx01
      rw [hiff]
      constructor
      · rintro ⟨y, hy, e, hm⟩
        have hyc : y ≠ c := by intro e2; subst e2; exact hx01 (hcm.mp hm)
        exact ⟨y, hy, by simp [hyc, e], hm⟩
      · rintro ⟨y, hy, e, hm⟩
        have hyc : y ≠ c := by intro e2; subst e2; exact hx01 (hcm.mp hm)
        simp only [hyc, if_false] at e
        exact ⟨y, hy, e, hm⟩

/-- which connection a name pair designates is not changed by a reversal -/
theorem resolveCon_flipWorld {w : World} {c : Nat} {names : CName} {b0 b1 : Nat}
    (hd : dget w.connection (names.2, names.1) = some c) (hnone : dget w.connection names = none) (k : CName) :
    resolveCon (flipWorld w c (names.2, names.1) names b0 b1) k = resolveCon w k := by
  have hon : (names.2, names.1) ≠ names := by intro e; rw [e] at hd; rw [hd] at hnone; cases hnone
  have hno : names ≠ (names.2, names.1) := Ne.symm hon
  simp only [resolveCon, flipWorld, dget_dset, dget_ddel]
  by_cases e1 : names = k
  · subst e1; simp [hnone, hd]
  · by_cases e2 : (names.2, names.1) = k
    · subst e2; simp [hno, hd]
    · have e3 : names ≠ (k.2, k.1) := by
        intro e; apply e2; rw [e]
      have e4 : (names.2, names.1) ≠ (k.2, k.1) := by
        intro e; apply e1; simp only [Prod.mk.injEq] at e; exact Prod.ext e.2 e.1
      simp [e1, e2, e3, e4]

theorem reorderConnections_spec {w : World} (hI : Grid.Inv w) (cs : List CName) (acc : List Nat) :
    match reorderConnections w cs acc with
    | .ok (w', acc') => Grid.Inv w' ∧ w'.connectionlist = w.connectionlist ∧
        acc'.map some = acc.map some ++ cs.map (resolveCon w)
    | .error (_, w') => Grid.Inv w' := by
  induction cs generalizing w acc with
  | nil => simp [reorderConnections, hI]
  | cons names r ih =>
    cases hd : dget w.connection names with
    | some c =>
      have := ih hI (acc ++ [c])
      have hstep : reorderConnections w (names :: r) acc = reorderConnections w r (acc ++ [c]) := by
        simp only [reorderConnections, hd]
      rw [hstep]
      split at this
      · rename_i w' acc' heq
        skip
        refine ⟨this.1, this.2.1, ?_⟩
        rw [this.2.2]; simp [resolveCon, hd]
      · rename_i e w' heq
        exact this
    | none =>
      cases hd2 : dget w.connection (names.2, names.1) with
      | none =>
        have hstep : reorderConnections w (names :: r) acc = .error (.generic, w) := by
          simp only [reorderConnections, hd, hd2]
        rw [hstep]; exact hI
      | some c =>
        have hc := hI.cd_sound _ _ hd2
        have hstep : reorderConnections w (names :: r) acc =
            reorderConnections (flipWorld w c (names.2, names.1) names (w.cn c).b0 (w.cn c).b1) r (acc ++ [c]) := by
          simp only [reorderConnections, hd, hd2, flipConnection_ok hI hd2]
        rw [hstep]
        have hI1 := flipWorld_inv hI hc.1 hc.2 hd
        have hres := resolveCon_flipWorld (b0 := (w.cn c).b0) (b1 := (w.cn c).b1) hd2 hd
        have := ih hI1 (acc ++ [c])
        split at this
        · rename_i w' acc' heq
          skip
          refine ⟨this.1, this.2.1, ?_⟩
          rw [this.2.2]
          have : resolveCon w names = some c := by simp [resolveCon, hd, hd2]
          simp [this, hres]
        · rename_i e w' heq
          exact this

/-- a connection list with the same members and no repetition can replace `connectionlist` -/
theorem inv_of_connectionlist_perm {w : World} (hI : Grid.Inv w) {l : List Nat} (hn : l.Nodup)
    (hm : ∀ x, x ∈ l ↔ x ∈ w.connectionlist) : Grid.Inv { w with connectionlist := l } := by
  have hC := hI.conInv
  refine Inv.mk' ?_ ?_ ⟨?_, hn, ?_, ?_, ?_⟩ ?_ ⟨?_, ?_⟩
  · exact hI.rockInv.frame rfl rfl (Nat.le_refl _) (fun _ _ => rfl)
  · exact hI.blockInv.frame rfl rfl (Nat.le_refl _) (fun _ _ => rfl)
  · intro x hx; exact hC.cl_lt x ((hm x).mp hx)
  · intro k x hx; have := hC.cd_sound k x hx; exact ⟨(hm x).mpr this.1, this.2⟩
  · intro x hx; exact hC.cd_complete x ((hm x).mp hx)
  · intro x hx; exact hC.c_ends x ((hm x).mp hx)
  · exact hI.rockLink.frame rfl (fun _ h => h) (fun _ _ => rfl)
  · exact hI.conn_nodup
  · intro b hb k
    show k ∈ (w.bk b).conn ↔ ∃ c ∈ l, w.ckey c = k ∧ ((w.cn c).b0 = b ∨ (w.cn c).b1 = b)
    rw [hI.conn_iff b hb k]
    constructor
    · rintro ⟨c, hc, h⟩; exact ⟨c, (hm c).mpr hc, h⟩
    · rintro ⟨c, hc, h⟩; exact ⟨c, (hm c).mp hc, h⟩

/-- from a permutation of the options to the list facts needed -/
theorem perm_some_facts {l l0 : List Nat} (hp : (l.map some).Perm (l0.map some)) (hn : l0.Nodup) :
    l.Nodup ∧ ∀ x, x ∈ l ↔ x ∈ l0 := by
  have hnd : (l.map some).Nodup := hp.nodup_iff.mpr (List.Pairwise.map some (fun _ _ h e => h (Option.some.inj e)) hn)
  refine ⟨List.Pairwise.of_map some (fun _ _ h e => h (congrArg some e)) hnd, ?_⟩
  intro x
  have := hp.mem_iff (a := some x)
  simpa using this

/-- the connection half of `reorder` -/
theorem reorder_connections_inv {w1 : World} (hI1 : Grid.Inv w1) (cs : List CName)
    (hc : cs.isEmpty = true ∨ (cs.map (resolveCon w1)).Perm (w1.connectionlist.map some)) :
    Grid.Inv (worldOf (if cs.isEmpty = true then (Except.ok w1 : R) else
      match reorderConnections w1 cs [] with
      | .error e => .error e
      | .ok (w2, acc) => .ok { w2 with connectionlist := acc })) := by
  by_cases he : cs.isEmpty = true
  · simp only [he, if_true, worldOf_ok]; exact hI1
  · rcases hc with hc | hc
    · exact absurd hc he
    simp only [he, if_false]
    have := reorderConnections_spec hI1 cs []
    split at this
    · rename_i w2 acc heq
      simp only [heq, worldOf_ok]
      obtain ⟨hI2, hcl2, hacc⟩ := this
      simp only [List.map_nil, List.nil_append] at hacc
      rw [← hacc] at hc
      obtain ⟨hn, hm⟩ := perm_some_facts hc hI1.cl_nodup
      refine inv_of_connectionlist_perm hI2 hn ?_
      intro x; rw [hm, hcl2]
    · rename_i e w2 heq
      simp only [heq, worldOf_error]; exact this

/-- `reorder(block_names, connection_names)` when the names are permutations of the grid's blocks
    and connections (each connection in either orientation) -/
theorem reorder_inv {w : World} (hI : Grid.Inv w) (bs : List Name) (cs : List CName)
    (hpre : pre w (.reorder bs cs) = true) : Grid.Inv (worldOf (reorder w bs cs)) := by
  simp only [pre, Bool.and_eq_true, Bool.or_eq_true, List.isPerm_iff] at hpre
  obtain ⟨hb, hc⟩ := hpre
  unfold reorder
  by_cases he : bs.isEmpty = true
  · simp only [he, if_true]
    exact reorder_connections_inv hI cs hc
  · rcases hb with hb | hb
    · exact absurd hb he
    simp only [he]
    cases hl : lookupAll w.block bs with
    | none => simp only [worldOf_error]; exact hI
    | some l =>
      simp only []
      have := lookupAll_some hl
      rw [this] at hb
      obtain ⟨hn, hm⟩ := perm_some_facts hb hI.bl_nodup
      exact reorder_connections_inv (inv_of_blocklist_perm hI hn hm) cs hc

end Proofs.Grid
