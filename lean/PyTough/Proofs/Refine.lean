/-
  Lemmas behind Props/C11: shoelace sums over directed edges, cancellation of interior edges,
  permutation invariance, splitting a side at a point of it.
-/
import PyTough.Model.Refine
namespace Proofs.Refine
open Model.Geo Model.Refine Gen.RefineTables

/-! ### sums of rationals -/

theorem sumRat_nil : sumRat [] = 0 := rfl
theorem sumRat_cons (a : Rat) (l : List Rat) : sumRat (a :: l) = a + sumRat l := rfl

theorem sumRat_append (l₁ l₂ : List Rat) : sumRat (l₁ ++ l₂) = sumRat l₁ + sumRat l₂ := by
  induction l₁ with
  | nil => simp [sumRat_nil]; grind
  | cons a t ih => simp only [List.cons_append, sumRat_cons, ih]; grind

theorem sumRat_perm {l₁ l₂ : List Rat} (h : l₁.Perm l₂) : sumRat l₁ = sumRat l₂ := by
  induction h with
  | nil => rfl
  | cons a _ ih => simp only [sumRat_cons, ih]
  | swap a b l => simp only [sumRat_cons]; grind
  | trans _ _ ih₁ ih₂ => exact ih₁.trans ih₂

theorem sumRat_flatMap {α} (f : α → List Rat) (l : List α) :
    sumRat (l.flatMap f) = sumRat (l.map fun a => sumRat (f a)) := by
  induction l with
  | nil => rfl
  | cons a t ih => simp only [List.flatMap_cons, List.map_cons, sumRat_append, sumRat_cons, ih]

/-! ### an antisymmetric edge functional and cancellation -/

/-- sum of an edge functional over a list of directed edges -/
def esum {α} (f : α × α → Rat) (l : List (α × α)) : Rat := sumRat (l.map f)

theorem esum_cons {α} (f : α × α → Rat) (e) (l : List (α × α)) : esum f (e :: l) = f e + esum f l := rfl

theorem esum_append {α} (f : α × α → Rat) (l₁ l₂ : List (α × α)) :
    esum f (l₁ ++ l₂) = esum f l₁ + esum f l₂ := by
  simp only [esum, List.map_append, sumRat_append]

theorem esum_perm {α} (f : α × α → Rat) {l₁ l₂ : List (α × α)} (h : l₁.Perm l₂) :
    esum f l₁ = esum f l₂ := sumRat_perm (h.map f)

theorem esum_erase {α} [DecidableEq α] (f : α × α → Rat) (e : α × α) (l : List (α × α)) (h : e ∈ l) :
    esum f (l.erase e) + f e = esum f l := by
  have := esum_perm f (List.perm_cons_erase h)
  rw [esum_cons] at this
  rw [this]; grind

theorem esum_cancel (f : Edge → Rat) (anti : ∀ a b, f (b, a) = - f (a, b)) (l : List Edge) :
    esum f (cancel l) = esum f l := by
  induction l with
  | nil => rfl
  | cons e es ih =>
    simp only [cancel]
    split
    · rename_i hmem
      have h1 := esum_erase f (e.2, e.1) (cancel es) hmem
      rw [esum_cons, ← ih]
      have := anti e.1 e.2
      grind
    · rw [esum_cons, esum_cons, ih]

/-! ### polygons as cyclic edge lists -/

theorem cycGo_map {α β} (g : α → β) (first : α) (l : List α) :
    cycGo (g first) (l.map g) = (cycGo first l).map (fun e => (g e.1, g e.2)) := by
  induction l with
  | nil => rfl
  | cons x t ih =>
    cases t with
    | nil => rfl
    | cons y r =>
      simp only [List.map_cons, cycGo] at ih ⊢
      rw [ih]

theorem cyc_map {α β} (g : α → β) (l : List α) :
    cyc (l.map g) = (cyc l).map (fun e => (g e.1, g e.2)) := by
  cases l with
  | nil => rfl
  | cons a t => simpa [cyc] using cycGo_map g a (a :: t)

/-- the edge functional "cross product of the two end points" under a valuation -/
def ef (ρ : Val) (e : Edge) : Rat := Pt.cross (ρ.at e.1) (ρ.at e.2)

theorem ef_anti (ρ : Val) (a b : Vert) : ef ρ (b, a) = - ef ρ (a, b) := by
  simp only [ef, Pt.cross]; grind

theorem area2_eq_esum (ρ : Val) (p : Poly) : area2 ρ p = esum (ef ρ) (cyc p) := by
  simp only [area2, shoelace2, esum, cyc_map, List.map_map]
  rfl

theorem sum_area2_eq_esum (ρ : Val) (ps : List Poly) :
    sumRat (ps.map (area2 ρ)) = esum (ef ρ) (polyEdges ps) := by
  simp only [polyEdges, esum, List.map_flatMap, sumRat_flatMap]
  congr 1
  apply List.map_congr_left
  intro p _
  exact area2_eq_esum ρ p

/-- the heart of the tiling argument: if the sub-columns' directed edges cancel down to a
    rearrangement of an edge list `B`, their signed areas add up to the edge sum over `B` -/
theorem sum_area2_of_boundary (ρ : Val) (ps : List Poly) (B : List Edge)
    (h : (cancel (polyEdges ps)).isPerm B = true) :
    sumRat (ps.map (area2 ρ)) = esum (ef ρ) B := by
  rw [sum_area2_eq_esum, ← esum_cancel (ef ρ) (ef_anti ρ)]
  exact esum_perm _ (List.isPerm_iff.mp h)

/-! ### splitting a side at its mid point does not change the edge sum -/

theorem cross_split_mid (a b : Pt) :
    Pt.cross a (Pt.mid a b) + Pt.cross (Pt.mid a b) b = Pt.cross a b := by
  simp only [Pt.cross, Pt.mid, Pt.smul, Pt.add]; grind

theorem at_normVert_mid (ρ : Val) (i j : Nat) :
    ρ.at (normVert (.mid i j)) = Pt.mid (ρ.corner i) (ρ.corner j) := by
  simp only [normVert]
  split
  · rfl
  · simp only [Val.at, Pt.mid, Pt.add, Pt.smul]
    have h1 : (ρ.corner j).1 + (ρ.corner i).1 = (ρ.corner i).1 + (ρ.corner j).1 := by grind
    have h2 : (ρ.corner j).2 + (ρ.corner i).2 = (ρ.corner i).2 + (ρ.corner j).2 := by grind
    rw [h1, h2]

/-- one side of the refined boundary contributes what the unrefined side does -/
theorem esum_side (ρ : Val) (i j : Nat) (b : Bool) :
    esum (ef ρ) (if b then [(Vert.corner i, normVert (.mid i j)), (normVert (.mid i j), Vert.corner j)]
                 else [(Vert.corner i, Vert.corner j)]) = ef ρ (Vert.corner i, Vert.corner j) := by
  cases b
  · simp [esum, sumRat]
    grind
  · simp only [if_true, esum, List.map_cons, List.map_nil, sumRat_cons, sumRat_nil, ef, at_normVert_mid]
    have := cross_split_mid (ρ.corner i) (ρ.corner j)
    simp only [Val.at]
    grind

theorem esum_refBoundary (ρ : Val) (nn : Nat) (sides : List Nat) :
    esum (ef ρ) (refBoundary nn sides) = esum (ef ρ) (refBoundary nn []) := by
  simp only [refBoundary, esum, List.map_flatMap, sumRat_flatMap]
  congr 1
  apply List.map_congr_left
  intro i _
  have := esum_side ρ i ((i + 1) % nn) (sides.contains i)
  simp only [esum] at this
  rw [this]
  simp [sumRat, ef]
  grind

/-! ### the unrefined boundary is the parent polygon -/

theorem cycGo_range' (n : Nat) : ∀ (k s : Nat), s + (k + 1) = n →
    cycGo 0 (List.range' s (k + 1)) = (List.range' s (k + 1)).map (fun i => (i, (i + 1) % n))
  | 0, s, h => by
    have : (s + 1) % n = 0 := by subst h; simp
    simp [List.range', cycGo, this]
  | k + 1, s, h => by
    have ih := cycGo_range' n k (s + 1) (by omega)
    have hs : (s + 1) % n = s + 1 := Nat.mod_eq_of_lt (by omega)
    rw [show List.range' s (k + 1 + 1) = s :: List.range' (s + 1) (k + 1) from rfl]
    rw [show List.range' (s + 1) (k + 1) = (s + 1) :: List.range' (s + 1 + 1) k from rfl] at ih ⊢
    simp only [cycGo, List.map_cons, hs]
    rw [ih]
    simp

theorem cyc_range (n : Nat) : cyc (List.range n) = (List.range n).map (fun i => (i, (i + 1) % n)) := by
  cases n with
  | zero => rfl
  | succ m =>
    rw [List.range_eq_range']
    have := cycGo_range' (m + 1) m 0 (by omega)
    rw [show List.range' 0 (m + 1) = 0 :: List.range' 1 m from rfl] at this ⊢
    simpa [cyc] using this

theorem flatMap_single {α β} (f : α → β) (l : List α) : l.flatMap (fun a => [f a]) = l.map f := by
  induction l with
  | nil => rfl
  | cons a t ih => simp only [List.flatMap_cons, List.map_cons, ih, List.singleton_append]

theorem refBoundary_nil (nn : Nat) : refBoundary nn [] = cyc (parentPoly nn) := by
  simp only [parentPoly, cyc_map, cyc_range, refBoundary, List.map_map]
  have : ∀ i : Nat, (([] : List Nat).contains i) = false := fun _ => rfl
  simp only [this]
  exact flatMap_single _ _

theorem esum_refBoundary_parent (ρ : Val) (nn : Nat) (sides : List Nat) :
    esum (ef ρ) (refBoundary nn sides) = area2 ρ (parentPoly nn) := by
  rw [esum_refBoundary, refBoundary_nil, area2_eq_esum]

/-! ### triangulation about a centre node, for every number of sides -/

theorem telescope_cycGo {α} (g : α → Rat) (first : α) : ∀ (l : List α) (a : α),
    sumRat ((cycGo first (a :: l)).map (fun e => g e.2 - g e.1)) = g first - g a
  | [], a => by simp [cycGo, sumRat]; grind
  | b :: r, a => by
    have ih := telescope_cycGo g first r b
    simp only [cycGo, List.map_cons, sumRat_cons] at ih ⊢
    rw [ih]; grind

theorem telescope_cyc {α} (g : α → Rat) (l : List α) :
    sumRat ((cyc l).map (fun e => g e.2 - g e.1)) = 0 := by
  cases l with
  | nil => rfl
  | cons a t => simp only [cyc]; rw [telescope_cycGo]; grind

theorem sumRat_map_add {α} (f g : α → Rat) (l : List α) :
    sumRat (l.map fun a => f a + g a) = sumRat (l.map f) + sumRat (l.map g) := by
  induction l with
  | nil => simp [sumRat]; grind
  | cons a t ih => simp only [List.map_cons, sumRat_cons, ih]; grind

theorem triangulate_eq (n : Nat) :
    triangulate n = (List.range n).map fun i => [Vert.corner i, Vert.corner ((i + 1) % n), Vert.centre] := by
  simp only [triangulate, subdivide, List.map_map]
  apply List.map_congr_left
  intro i hi
  have hi' : i < n := List.mem_range.mp hi
  have h1 : (0 + i) % n = i := by rw [Nat.zero_add]; exact Nat.mod_eq_of_lt hi'
  have h2 : (0 + (i + 1) % n) % n = (i + 1) % n := by rw [Nat.zero_add]; exact Nat.mod_mod _ _
  simp [Nat.mod_eq_of_lt hi']

theorem area2_triangle_centre (ρ : Val) (i j : Nat) :
    area2 ρ [Vert.corner i, Vert.corner j, Vert.centre] =
      ef ρ (Vert.corner i, Vert.corner j) +
        (Pt.cross (ρ.corner j) ρ.centre - Pt.cross (ρ.corner i) ρ.centre) := by
  simp only [area2, shoelace2, List.map_cons, List.map_nil, cyc, cycGo, sumRat_cons, sumRat_nil, ef, Val.at,
    Pt.cross]
  grind

theorem triangulate_area (ρ : Val) (n : Nat) :
    sumRat ((triangulate n).map (area2 ρ)) = area2 ρ (parentPoly n) := by
  rw [triangulate_eq, List.map_map]
  have h : ((area2 ρ) ∘ fun i => [Vert.corner i, Vert.corner ((i + 1) % n), Vert.centre]) =
      fun i => ef ρ (Vert.corner i, Vert.corner ((i + 1) % n)) +
        (Pt.cross (ρ.corner ((i + 1) % n)) ρ.centre - Pt.cross (ρ.corner i) ρ.centre) := by
    funext i; exact area2_triangle_centre ρ i _
  rw [h, sumRat_map_add]
  have t := telescope_cyc (fun k : Nat => Pt.cross (ρ.corner k) ρ.centre) (List.range n)
  rw [cyc_range, List.map_map] at t
  have t' : sumRat ((List.range n).map fun i =>
      Pt.cross (ρ.corner ((i + 1) % n)) ρ.centre - Pt.cross (ρ.corner i) ρ.centre) = 0 := t
  rw [t']
  have b := esum_refBoundary_parent ρ n []
  rw [← b, refBoundary_nil, esum, parentPoly, cyc_map, cyc_range, List.map_map, List.map_map]
  have : sumRat ((List.range n).map fun i => ef ρ (Vert.corner i, Vert.corner ((i + 1) % n))) =
      sumRat ((List.range n).map (ef ρ ∘ (fun e : Nat × Nat => (Vert.corner e.1, Vert.corner e.2)) ∘ fun i => (i, (i + 1) % n))) := rfl
  rw [this, Rat.add_zero]
  rfl

/-! ### membership in `sublists` -/

theorem mem_sublists {α} {s l : List α} : s ∈ sublists l ↔ s.Sublist l := by
  constructor
  · induction l generalizing s with
    | nil => intro h; simp [sublists] at h; subst h; exact .slnil
    | cons a t ih =>
      intro h
      simp only [sublists, List.mem_append, List.mem_map] at h
      rcases h with ⟨s', hs', rfl⟩ | h
      · exact (ih hs').cons_cons a
      · exact (ih h).cons a
  · intro h
    induction h with
    | slnil => simp [sublists]
    | cons a _ ih => simp only [sublists, List.mem_append]; exact Or.inr ih
    | cons_cons a _ ih => simp only [sublists, List.mem_append, List.mem_map]; exact Or.inl ⟨_, ih, rfl⟩

end Proofs.Refine
