import PyTough.Proofs.ThermoReal
import PyTough.Gen.Ifc67
import PyTough.Gen.Iapws
open Model.Thermo Proofs.Thermo
namespace Proofs.Ifc67
open Gen.Ifc67

/-- the double nearest 0.01 -/
noncomputable def tmin : ℝ := 5764607523034235 / 576460752303423488
/-- IFC-67 saturation pressure and B23 pressure as numbers -/
noncomputable def sat67 (t : ℝ) : ℝ := (sat t false).toK
noncomputable def b23p67 (t : ℝ) : ℝ := (b23p t).toK
/-- the critical temperature of IFC-67 in degC as the module computes it (`Tc1 - tc_k` in double) -/
noncomputable def tc1C : ℝ := (Tc1_C : ℝ)

theorem ite_decide (A B : Prop) [Decidable A] [Decidable B] :
    ((if A then decide B else false) = true) ↔ (A ∧ B) := by
  by_cases h : A <;> simp [h]

theorem ite_ite_decide (A B C D E F : Prop) [Decidable A] [Decidable B] [Decidable C] [Decidable D] [Decidable E] [Decidable F] :
    ((if A then (if B then decide C else (if D then decide E else decide F)) else false) = true) ↔
      (A ∧ ((B ∧ C) ∨ (¬B ∧ D ∧ E) ∨ (¬B ∧ ¬D ∧ F))) := by
  by_cases hA : A <;> by_cases hB : B <;> by_cases hD : D <;> simp [hA, hB, hD]

/-- **Range checking of the liquid routine.**  With checking on, the routine is the unchecked routine
    inside `0.01 ≤ t ≤ 350`, `p_sat(t) ≤ p ≤ 100 MPa` and returns `(None, None)` outside. -/
theorem cowat_guard (t p : ℝ) : cowat t p true =
    if tmin ≤ t ∧ t ≤ 350 ∧ p ≤ 100000000 ∧ sat67 t ≤ p then cowat t p false else Ret.nonePair := by
  unfold cowat sat67 tmin
  simp only [tf_le', tf_lit, Bool.and_eq_true, decide_eq_true_eq, if_true, Bool.false_eq_true, if_false, ite_decide]
  norm_num only [and_assoc]

theorem supst_guard (t p : ℝ) : supst t p true =
    if tmin ≤ t ∧ t ≤ 800 ∧ 0 ≤ p ∧
        ((t ≤ tc1C ∧ p ≤ sat67 t) ∨ (¬ t ≤ tc1C ∧ t ≤ 590 ∧ p ≤ b23p67 t) ∨ (¬ t ≤ tc1C ∧ ¬ t ≤ 590 ∧ p ≤ 100000000))
    then supst t p false else Ret.nonePair := by
  unfold supst sat67 b23p67 tmin tc1C
  simp only [tf_le', tf_lit, tf_ofInt, Bool.and_eq_true, decide_eq_true_eq, if_true, Bool.false_eq_true, if_false, ite_ite_decide]
  norm_num only [and_assoc]

theorem supst_unchecked (t p : ℝ) : ∃ d u, supst t p false = Ret.pair d u := by
  unfold supst
  simp only [if_true, Bool.false_eq_true, if_false]
  exact ⟨_, _, rfl⟩

/-- reduced temperature `(t + 273.15) / 647.3` as written in `cowat` -/
noncomputable def tkr (t : ℝ) : ℝ := (t + 2402652809016115 / 8796093022208) / (2846855506637619 / 4398046511104)
noncomputable def cowatY (t : ℝ) : ℝ :=
  1 - cowat_sa_1 * (tkr t * tkr t) - cowat_sa_2 / (tkr t * tkr t * (tkr t * tkr t) * (tkr t * tkr t))
/-- the quantity `ZP` whose sign `cowat` tests before taking its square root -/
noncomputable def cowatZP (t p : ℝ) : ℝ :=
  cowat_sa_3 * cowatY t * cowatY t - 2 * cowat_sa_4 * tkr t + 2 * cowat_sa_5 * (p / 22120000)

theorem ite_pair_eq_nonePair (z a b : ℝ) :
    ((if 0 ≤ z then Ret.pair a b else (Ret.nonePair : Ret ℝ)) = Ret.nonePair) ↔ z < 0 := by
  by_cases h : 0 ≤ z
  · rw [if_pos h]; constructor
    · intro e; cases e
    · intro h2; exact absurd h (not_le.mpr h2)
  · rw [if_neg h]; exact ⟨fun _ => not_le.mp h, fun _ => rfl⟩

theorem ite_pair_shape (z a b : ℝ) :
    (if 0 ≤ z then Ret.pair a b else (Ret.nonePair : Ret ℝ)) = Ret.nonePair ∨
    ∃ d u, (if 0 ≤ z then Ret.pair a b else (Ret.nonePair : Ret ℝ)) = Ret.pair d u := by
  by_cases h : 0 ≤ z
  · right; rw [if_pos h]; exact ⟨_, _, rfl⟩
  · left; rw [if_neg h]

/-- without range checking `cowat` returns `(None, None)` exactly when its internal test `ZP < 0` fires -/
theorem cowat_unchecked (t p : ℝ) : cowat t p false = Ret.nonePair ↔ cowatZP t p < 0 := by
  unfold cowat cowatZP cowatY tkr
  simp only [tf_le', tf_lit, decide_eq_true_eq, if_true, Bool.false_eq_true, if_false]
  norm_num only []
  exact ite_pair_eq_nonePair _ _ _

theorem cowat_unchecked_shape (t p : ℝ) : cowat t p false = Ret.nonePair ∨ ∃ d u, cowat t p false = Ret.pair d u := by
  unfold cowat
  simp only [tf_le', tf_lit, decide_eq_true_eq, if_true, Bool.false_eq_true, if_false]
  norm_num only []
  exact ite_pair_shape _ _ _

/-! ### saturation pressure -/

theorem sat_guard (t : ℝ) : sat t true = if tmin ≤ t ∧ t ≤ tc1C then sat t false else Ret.none := by
  unfold sat tmin tc1C
  simp only [tf_le', tf_lit, Bool.and_eq_true, decide_eq_true_eq, if_true, Bool.false_eq_true, if_false]
  norm_num only []

theorem sat_unchecked (t : ℝ) : (sat t false = Ret.none ↔ ¬(tmin ≤ t ∧ t ≤ 500)) ∧
    (tmin ≤ t ∧ t ≤ 500 → ∃ s, sat t false = Ret.num s) := by
  unfold sat tmin
  simp only [tf_le', tf_lit, Bool.and_eq_true, decide_eq_true_eq, if_true, Bool.false_eq_true, if_false]
  norm_num only []
  constructor
  · constructor
    · intro h; split_ifs at h with h1; exact h1
    · intro h; rw [if_neg h]
  · intro h; rw [if_pos h]; exact ⟨_, rfl⟩

theorem tc1C_le_500 : tc1C ≤ 500 := by
  unfold tc1C Tc1_C; rw [tf_lit]; norm_num

theorem tmin_nonneg : (0 : ℝ) ≤ tmin := by unfold tmin; norm_num

theorem bounds_sat (t : ℝ) : sat t true = Ret.none ↔ ¬(tmin ≤ t ∧ t ≤ tc1C) := by
  rw [sat_guard]
  constructor
  · intro h
    split_ifs at h with h1
    · exfalso
      exact ((sat_unchecked t).1.mp h) ⟨h1.1, le_trans h1.2 tc1C_le_500⟩
    · exact h1
  · intro h; rw [if_neg h]

/-! ### the guard of `tsat` -/

theorem bounds_tsat (p : ℝ) : (tsat_ok p true = true ↔ sat67 tmin ≤ p ∧ p ≤ (Pc1 : ℝ)) ∧ tsat_ok p false = true := by
  unfold tsat_ok sat67 tmin
  simp only [tf_le', tf_lit, Bool.and_eq_true, decide_eq_true_eq, if_true, Bool.false_eq_true, if_false, and_true]
  norm_num only []

/-! ### separated steam fraction -/

theorem ssf_eq (h hl1 hs1 hl2 hs2 : ℝ) (one : Bool) : ssf h one hl1 hs1 hl2 hs2 =
    max (min ((if one then 1 / (hs1 - hl1) else (hs2 - hl1) / ((hs1 - hl1) * (hs2 - hl2))) * h +
      (if one then (-hl1) / (hs1 - hl1) else (hs1 * (hl1 - hl2) - hl1 * (hs2 - hl2)) / ((hs1 - hl1) * (hs2 - hl2)))) 1) 0 := by
  unfold ssf
  cases one <;> simp [pyMax_eq, pyMin_eq, tf_lit]

theorem ssf_unit (h hl1 hs1 hl2 hs2 : ℝ) (one : Bool) :
    0 ≤ ssf h one hl1 hs1 hl2 hs2 ∧ ssf h one hl1 hs1 hl2 hs2 ≤ 1 := by
  rw [ssf_eq]
  exact ⟨le_max_right _ _, max_le (min_le_right _ _) zero_le_one⟩

theorem ssf_mono (h h' hl1 hs1 hl2 hs2 : ℝ) (one : Bool) (hh : h ≤ h')
    (hc : 0 ≤ (if one then 1 / (hs1 - hl1) else (hs2 - hl1) / ((hs1 - hl1) * (hs2 - hl2)))) :
    ssf h one hl1 hs1 hl2 hs2 ≤ ssf h' one hl1 hs1 hl2 hs2 := by
  rw [ssf_eq, ssf_eq]
  apply max_le_max _ (le_refl _)
  apply min_le_min _ (le_refl _)
  have := mul_le_mul_of_nonneg_left hh hc
  linarith

theorem ssf_coeff_nonneg (hl1 hs1 hl2 hs2 : ℝ) (one : Bool) (h1 : hl1 < hs1) (h2 : one = false → hl2 < hs2 ∧ hl1 ≤ hs2) :
    0 ≤ (if one then 1 / (hs1 - hl1) else (hs2 - hl1) / ((hs1 - hl1) * (hs2 - hl2))) := by
  cases one
  · obtain ⟨a, b⟩ := h2 rfl
    simp only [Bool.false_eq_true, if_false]
    exact div_nonneg (by linarith) (le_of_lt (mul_pos (by linarith) (by linarith)))
  · simp only [if_true]
    exact div_nonneg zero_le_one (by linarith)

/-! ### the two region classifiers -/

theorem region67_unfold (t p : ℝ) : region t p =
    if tmin ≤ t ∧ t ≤ 800 ∧ 0 ≤ p ∧ p ≤ 100000000 then
      if t ≤ 350 then (if p < sat67 t then Ret.int 2 else Ret.int 1)
      else if t ≤ tc1C then (if p ≤ b23p67 t then Ret.int 2 else if p < sat67 t then Ret.int 3 else Ret.int 4)
      else if t ≤ 590 then (if p < b23p67 t then Ret.int 2 else Ret.int 3)
      else Ret.int 2
    else Ret.none := by
  unfold region sat67 b23p67 tmin tc1C
  simp only [tf_le', tf_lt', tf_lit, Bool.and_eq_true, decide_eq_true_eq]
  norm_num only []
  simp only [and_assoc]
end Proofs.Ifc67
