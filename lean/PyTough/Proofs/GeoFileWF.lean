/-
  C03 proofs, part 8: from the decidable predicate `WF g` to the facts the section lemmas use.
-/
import PyTough.Proofs.GeoFileHeader
import PyTough.Proofs.GeoFileWells
namespace Proofs.GeoFile
open Py Model Model.GeoFile Proofs

structure WFP (g : Geo) (L LL : Nat) (s : Rat) : Prop where
  hdr : HeaderOK g.hdr
  cl : colnameLength g.hdr.convention = .ok L
  ll : layernameLength g.hdr.convention = .ok LL
  sc : unitScale g.hdr.unitType = .ok s
  hL : L ≤ 3
  hLL : LL ≤ 3
  sOf : scaleOf g = s
  nodes : ∀ n ∈ g.nodes, NodeOK L s n
  nodesNodup : (g.nodes.map (·.name)).Nodup
  cols : ∀ c ∈ g.columns, ColOK L s (g.nodes.map (canonNode s)) c
  colSurf : ∀ c ∈ g.columns, c.defaultSurface = true ∨ ∃ z, c.surface = some z ∧ fitsC 2 s z = true
  colsNodup : (g.columns.map (·.name)).Nodup
  conns : ∀ k ∈ g.connections, k.1 ∈ g.columns.map (·.name) ∧ k.2 ∈ g.columns.map (·.name)
  connsNodup : g.connections.Nodup
  layersNe : g.layers ≠ []
  layers : ∀ l ∈ g.layers, LayerOK LL s l
  layersNodup : (g.layers.map (·.name)).Nodup
  wells : ∀ w ∈ g.wells, WellOK s w
  wellsNodup : (g.wells.map fun w => rjust w.name 5).Nodup

theorem lengths_of_conv (c : Int) (h : 0 ≤ c ∧ c ≤ 3) :
    ∃ L LL, colnameLength c = .ok L ∧ layernameLength c = .ok LL ∧ L ≤ 3 ∧ LL ≤ 3 := by
  have : c = 0 ∨ c = 1 ∨ c = 2 ∨ c = 3 := by omega
  rcases this with rfl | rfl | rfl | rfl
  · exact ⟨3, 2, rfl, rfl, by decide, by decide⟩
  · exact ⟨2, 3, rfl, rfl, by decide, by decide⟩
  · exact ⟨3, 2, rfl, rfl, by decide, by decide⟩
  · exact ⟨3, 2, rfl, rfl, by decide, by decide⟩

theorem scale_of_unit (u : Str) (h : u = [] ∨ u = feet) : ∃ s, unitScale u = .ok s := by
  rcases h with rfl | rfl
  · exact ⟨1, rfl⟩
  · exact ⟨mkRat 381 1250, rfl⟩

theorem mem_names_of_lookupNode {ns : List GNode} {name : Str} (h : (lookupNode ns name).isSome = true) :
    ∃ n ∈ ns, n.name = name := by
  unfold lookupNode at h
  rw [List.find?_isSome] at h
  obtain ⟨c, hc, he⟩ := h
  exact ⟨c, hc, by simpa using he⟩

theorem lookupNode_some_of_mem {ns : List GNode} {name : Str} (h : name ∈ ns.map (·.name)) :
    ∃ nd, lookupNode ns name = some nd := by
  cases hl : lookupNode ns name with
  | some nd => exact ⟨nd, rfl⟩
  | none =>
    unfold lookupNode at hl
    rw [List.find?_eq_none] at hl
    obtain ⟨n, hn, he⟩ := List.mem_map.mp h
    exact absurd (by simpa using he) (hl n hn)

theorem wellNameOK_of {name : Str} (h1 : name.length ≤ 5) (h2 : noNewline name = true) : WellNameOK name := by
  refine ⟨h1, ?_⟩
  intro hc
  unfold noNewline at h2
  have := List.all_eq_true.mp h2 _ hc
  simp at this

theorem wfp_of {g : Geo} (h : WF g = true) : ∃ L LL s, WFP g L LL s := by
  unfold WF at h
  rw [Bool.and_eq_true] at h
  obtain ⟨hh, hrest⟩ := h
  have hdr := headerOK_of hh
  obtain ⟨L, LL, hcl, hll, hL, hLL⟩ := lengths_of_conv _ hdr.conv
  obtain ⟨s, hs⟩ := scale_of_unit _ hdr.unit
  have hsOf : scaleOf g = s := by unfold scaleOf; rw [hs]
  rw [hcl, hll] at hrest
  simp only [hsOf, Bool.and_eq_true, List.all_eq_true, decide_eq_true_eq, nodup, Bool.not_eq_true'] at hrest
  obtain ⟨⟨⟨⟨⟨⟨⟨⟨⟨⟨hn, hnd⟩, hc⟩, hcd⟩, hk⟩, hkd⟩, hlne⟩, hl⟩, hld⟩, hw⟩, hwd⟩ := hrest
  have hnodes : ∀ n ∈ g.nodes, NodeOK L s n := by
    intro n hn'
    have := hn n hn'
    exact ⟨nameShape_of_ok this.1.1, this.1.2, this.2⟩
  refine ⟨L, LL, s, ⟨hdr, hcl, hll, hs, hL, hLL, hsOf, hnodes, hnd, ?_, ?_, hcd, ?_, hkd, ?_, ?_, hld, ?_, hwd⟩⟩
  · -- columns
    intro c hc'
    have := hc c hc'
    unfold columnOK at this
    simp only [Bool.and_eq_true, List.all_eq_true, decide_eq_true_eq, Bool.or_eq_true, beq_iff_eq] at this
    obtain ⟨⟨⟨⟨⟨h1, h2⟩, h3⟩, h4⟩, _⟩, h6⟩ := this
    refine ⟨nameShape_of_ok h1, h2, ?_, ?_, ?_⟩
    · intro nm hnm
      obtain ⟨n, hn1, hn2⟩ := mem_names_of_lookupNode (h3 nm hnm)
      refine ⟨hn2 ▸ (hnodes n hn1).name, ?_⟩
      apply lookupNode_some_of_mem
      rw [map_canonNode_name]
      exact List.mem_map.mpr ⟨n, hn1, hn2⟩
    · rcases h4 with h4 | ⟨h4, h5⟩
      · exact Or.inl h4
      · right
        refine ⟨h4, ?_⟩
        cases hcc : c.centre with
        | none => rw [hcc] at h5; cases h5
        | nan => rw [hcc] at h5; cases h5
        | «at» x y =>
          rw [hcc] at h5
          simp only [Bool.and_eq_true] at h5
          exact ⟨x, y, rfl, h5.1, h5.2⟩
    · unfold orientationOK at h6
      simpa using h6
  · intro c hc'
    have := hc c hc'
    unfold columnOK at this
    simp only [Bool.and_eq_true, Bool.or_eq_true] at this
    rcases this.1.2 with h5 | h5
    · exact Or.inl h5
    · right
      cases hz : c.surface with
      | none => rw [hz] at h5; cases h5
      | some z => rw [hz] at h5; exact ⟨z, rfl, h5⟩
  · intro k hk'
    have := hk k hk'
    exact ⟨mem_names_of_lookupColumn this.1, mem_names_of_lookupColumn this.2⟩
  · intro he; rw [he] at hlne; simp at hlne
  · intro l hl'
    have := hl l hl'
    exact ⟨nameShape_of_ok this.1.1, this.1.2, this.2⟩
  · intro w hw'
    have := hw w hw'
    unfold wellOK at this
    simp only [Bool.and_eq_true, List.all_eq_true, Bool.not_eq_true'] at this
    obtain ⟨⟨⟨h1, h2⟩, h3⟩, h4⟩ := this
    refine ⟨wellNameOK_of (by simpa using h1) h2, ?_, ?_⟩
    · intro he; rw [he] at h3; simp at h3
    · intro p hp
      have := h4 p hp
      exact ⟨this.1.1, this.1.2, this.2⟩

end Proofs.GeoFile
