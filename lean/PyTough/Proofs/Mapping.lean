/-
  Helper lemmas for C19 (Model/Mapping.lean): `mapE`, the insertion-ordered dict,
  string slices and block names.
-/
import PyTough.Model.Mapping
namespace Proofs.Mapping
open Py Model.Mapping

/-! ### mapE -/

theorem mapE_ok_of_forall {α β : Type} (f : α → Except Exc β) (g : α → β) (l : List α)
    (h : ∀ a ∈ l, f a = .ok (g a)) : mapE f l = .ok (l.map g) := by
  induction l with
  | nil => rfl
  | cons a as ih =>
    have h1 := h a (by simp)
    have h2 := ih (fun x hx => h x (by simp [hx]))
    simp [mapE, h1, h2]

theorem mapE_cons_ok {α β : Type} {f : α → Except Exc β} {a : α} {as : List α} {bs : List β}
    (h : mapE f (a :: as) = .ok bs) : ∃ b bs', bs = b :: bs' ∧ f a = .ok b ∧ mapE f as = .ok bs' := by
  unfold mapE at h
  split at h
  · cases h
  · rename_i b hb
    split at h
    · cases h
    · rename_i bs' hbs
      cases h
      exact ⟨b, bs', rfl, hb, hbs⟩

theorem mapE_length {α β : Type} {f : α → Except Exc β} {l : List α} {bs : List β}
    (h : mapE f l = .ok bs) : bs.length = l.length := by
  induction l generalizing bs with
  | nil => simp [mapE] at h; subst h; rfl
  | cons a as ih =>
    obtain ⟨b, bs', rfl, _, h2⟩ := mapE_cons_ok h
    simp [ih h2]

/-- every input has its output in the result -/
theorem mapE_mem_left {α β : Type} {f : α → Except Exc β} {l : List α} {bs : List β}
    (h : mapE f l = .ok bs) : ∀ a ∈ l, ∃ b ∈ bs, f a = .ok b := by
  induction l generalizing bs with
  | nil => intro a ha; cases ha
  | cons a as ih =>
    obtain ⟨b, bs', rfl, h1, h2⟩ := mapE_cons_ok h
    intro x hx
    rcases List.mem_cons.mp hx with rfl | hx
    · exact ⟨b, by simp, h1⟩
    · obtain ⟨b', hb', hf⟩ := ih h2 x hx
      exact ⟨b', by simp [hb'], hf⟩

/-- every output comes from an input -/
theorem mapE_mem_right {α β : Type} {f : α → Except Exc β} {l : List α} {bs : List β}
    (h : mapE f l = .ok bs) : ∀ b ∈ bs, ∃ a ∈ l, f a = .ok b := by
  induction l generalizing bs with
  | nil => simp [mapE] at h; subst h; intro b hb; cases hb
  | cons a as ih =>
    obtain ⟨b, bs', rfl, h1, h2⟩ := mapE_cons_ok h
    intro x hx
    rcases List.mem_cons.mp hx with rfl | hx
    · exact ⟨a, by simp, h1⟩
    · obtain ⟨a', ha', hf⟩ := ih h2 x hx
      exact ⟨a', by simp [ha'], hf⟩

/-- inputs and outputs are aligned -/
theorem mapE_zip {α β : Type} {f : α → Except Exc β} {l : List α} {bs : List β}
    (h : mapE f l = .ok bs) : ∀ p ∈ l.zip bs, f p.1 = .ok p.2 := by
  induction l generalizing bs with
  | nil => intro p hp; simp at hp
  | cons a as ih =>
    obtain ⟨b, bs', rfl, h1, h2⟩ := mapE_cons_ok h
    intro p hp
    simp only [List.zip_cons_cons, List.mem_cons] at hp
    rcases hp with rfl | hp
    · exact h1
    · exact ih h2 p hp

/-- `mapE` succeeds as soon as every element does -/
theorem mapE_ok_of_each {α β : Type} (f : α → Except Exc β) (l : List α)
    (h : ∀ a ∈ l, ∃ b, f a = .ok b) : ∃ bs, mapE f l = .ok bs := by
  induction l with
  | nil => exact ⟨[], rfl⟩
  | cons a as ih =>
    obtain ⟨b, hb⟩ := h a (by simp)
    obtain ⟨bs, hbs⟩ := ih (fun x hx => h x (by simp [hx]))
    exact ⟨b :: bs, by simp [mapE, hb, hbs]⟩

/-- a failure of `mapE` is the failure of some element -/
theorem mapE_error {α β : Type} {f : α → Except Exc β} {l : List α} {e : Exc}
    (h : mapE f l = .error e) : ∃ a ∈ l, f a = .error e := by
  induction l with
  | nil => simp [mapE] at h
  | cons a as ih =>
    unfold mapE at h
    split at h
    · rename_i e' he; cases h; exact ⟨a, by simp, he⟩
    · split at h
      · rename_i e' he; cases h
        obtain ⟨x, hx, hf⟩ := ih he
        exact ⟨x, by simp [hx], hf⟩
      · cases h

/-- the first element failing makes `mapE` fail with its error -/
theorem mapE_head_error {α β : Type} {f : α → Except Exc β} {a : α} {as : List α} {e : Exc}
    (h : f a = .error e) : mapE f (a :: as) = .error e := by
  simp [mapE, h]

/-! ### dict -/

theorem dget_nil {β : Type} (k : Str) : dget ([] : Dict β) k = .error .keyError := rfl

theorem find_map_replace {β : Type} (d : Dict β) (k' : Str) (v : β) (k : Str) :
    (d.map (fun p => if p.1 == k' then (k', v) else p)).find? (fun p => p.1 == k) =
      if k' = k then (d.find? (fun p => p.1 == k')).map (fun _ => (k', v))
      else d.find? (fun p => p.1 == k) := by
  induction d with
  | nil => simp
  | cons p ps ih =>
    rw [List.map_cons, List.find?_cons, ih]
    by_cases hk : k' = k
    · subst hk
      by_cases hp : p.1 = k'
      · simp [hp]
      · have h1 : (p.1 == k') = false := by simpa using hp
        simp [h1]
    · have hk1 : (k' == k) = false := by simpa using hk
      by_cases hp : p.1 = k'
      · simp [hp, hk, hk1]
      · have h1 : (p.1 == k') = false := by simpa using hp
        simp [h1, hk, List.find?_cons]

theorem dget_dset {β : Type} (d : Dict β) (k' : Str) (v : β) (k : Str) :
    dget (dset d k' v) k = if k' = k then .ok v else dget d k := by
  unfold dset dget
  by_cases hany : d.any (fun p => p.1 == k') = true
  · rw [if_pos hany, find_map_replace]
    by_cases hk : k' = k
    · rw [if_pos hk, if_pos hk]
      obtain ⟨p, hp, hpk⟩ := List.any_eq_true.mp hany
      cases hf : d.find? (fun p => p.1 == k') with
      | some q => simp
      | none =>
        rw [List.find?_eq_none] at hf
        exact absurd hpk (hf p hp)
    · rw [if_neg hk, if_neg hk]
  · rw [if_neg hany, List.find?_append]
    have hnone : d.find? (fun p => p.1 == k') = none := by
      rw [List.find?_eq_none]
      intro p hp hpk
      exact hany (List.any_eq_true.mpr ⟨p, hp, hpk⟩)
    by_cases hk : k' = k
    · subst hk
      simp [hnone]
    · have hk1 : (k' == k) = false := by simpa using hk
      cases hf : d.find? (fun p => p.1 == k) with
      | some p => simp [hk]
      | none => simp [hk, hk1]

/-- the value read from a dict built by successive assignments -/
theorem dget_foldl {β : Type} (ps : List (Str × β)) (d : Dict β) (k : Str) :
    dget (ps.foldl (fun d p => dset d p.1 p.2) d) k =
      ps.foldl (fun acc p => if p.1 = k then .ok p.2 else acc) (dget d k) := by
  induction ps generalizing d with
  | nil => rfl
  | cons p ps ih =>
    simp only [List.foldl_cons]
    rw [ih, dget_dset]

theorem foldl_pick_none {β : Type} (ps : List (Str × β)) (k : Str) (acc : Except Exc β)
    (h : ∀ p ∈ ps, p.1 ≠ k) :
    ps.foldl (fun acc p => if p.1 = k then .ok p.2 else acc) acc = acc := by
  induction ps generalizing acc with
  | nil => rfl
  | cons p ps ih =>
    simp only [List.foldl_cons]
    rw [if_neg (h p (by simp))]
    exact ih acc (fun q hq => h q (by simp [hq]))

theorem foldl_pick_fun {β : Type} (ps : List (Str × β)) (k : Str) (v : β) (acc : Except Exc β)
    (hex : ∃ p ∈ ps, p.1 = k) (hfun : ∀ p ∈ ps, p.1 = k → p.2 = v) :
    ps.foldl (fun acc p => if p.1 = k then .ok p.2 else acc) acc = .ok v := by
  induction ps generalizing acc with
  | nil => obtain ⟨p, hp, _⟩ := hex; cases hp
  | cons p ps ih =>
    simp only [List.foldl_cons]
    by_cases hrest : ∃ q ∈ ps, q.1 = k
    · exact ih _ hrest (fun q hq => hfun q (by simp [hq]))
    · have hnone : ∀ q ∈ ps, q.1 ≠ k := fun q hq hk => hrest ⟨q, hq, hk⟩
      rw [foldl_pick_none ps k _ hnone]
      obtain ⟨q, hq, hqk⟩ := hex
      rcases List.mem_cons.mp hq with rfl | hq
      · rw [if_pos hqk, hfun q (by simp) hqk]
      · exact absurd hqk (hnone q hq)

/-- a key assigned (only) the value `v` reads back `v` -/
theorem dget_dictOf_fun {β : Type} (ps : List (Str × β)) (k : Str) (v : β)
    (hex : ∃ p ∈ ps, p.1 = k) (hfun : ∀ p ∈ ps, p.1 = k → p.2 = v) :
    dget (dictOf ps) k = .ok v := by
  unfold dictOf
  rw [dget_foldl]
  exact foldl_pick_fun ps k v _ hex hfun

/-- same, when earlier assignments (a prefix) may have used other values -/
theorem dget_dictOf_append_fun {β : Type} (ps₁ ps₂ : List (Str × β)) (k : Str) (v : β)
    (hex : ∃ p ∈ ps₂, p.1 = k) (hfun : ∀ p ∈ ps₂, p.1 = k → p.2 = v) :
    dget (dictOf (ps₁ ++ ps₂)) k = .ok v := by
  unfold dictOf
  rw [dget_foldl, List.foldl_append]
  exact foldl_pick_fun ps₂ k v _ hex hfun

/-- a key that was assigned reads back some assigned value -/
theorem dget_dictOf_mem {β : Type} (ps : List (Str × β)) (k : Str) (hex : ∃ p ∈ ps, p.1 = k) :
    ∃ p ∈ ps, p.1 = k ∧ dget (dictOf ps) k = .ok p.2 := by
  unfold dictOf
  rw [dget_foldl]
  generalize dget ([] : Dict β) k = acc
  induction ps generalizing acc with
  | nil => obtain ⟨p, hp, _⟩ := hex; cases hp
  | cons p ps ih =>
    simp only [List.foldl_cons]
    by_cases hrest : ∃ q ∈ ps, q.1 = k
    · obtain ⟨q, hq, hk, hv⟩ := ih hrest (if p.1 = k then .ok p.2 else acc)
      exact ⟨q, by simp [hq], hk, hv⟩
    · have hnone : ∀ q ∈ ps, q.1 ≠ k := fun q hq hk => hrest ⟨q, hq, hk⟩
      rw [foldl_pick_none ps k _ hnone]
      obtain ⟨q, hq, hqk⟩ := hex
      rcases List.mem_cons.mp hq with rfl | hq
      · exact ⟨q, by simp, hqk, by rw [if_pos hqk]⟩
      · exact absurd hqk (hnone q hq)

/-- a key never assigned is a KeyError -/
theorem dget_dictOf_none {β : Type} (ps : List (Str × β)) (k : Str) (h : ∀ p ∈ ps, p.1 ≠ k) :
    dget (dictOf ps) k = .error .keyError := by
  unfold dictOf
  rw [dget_foldl, foldl_pick_none ps k _ h]
  rfl

/-! ### slices and block names -/

set_option linter.unusedSimpArgs false

theorem slice_zero_self (s : Str) (n : Nat) (h : s.length = n) : slice s 0 n = s := by
  simp [slice, ← h]

theorem slice_append_left (a b : Str) (n : Nat) (h : a.length = n) : slice (a ++ b) 0 n = a := by
  simp [slice, ← h]

theorem slice_append_right (a b : Str) (n m k : Nat) (ha : a.length = n) (hb : b.length = m) (hk : k = n + m) :
    slice (a ++ b) n k = b := by
  subst hk
  simp [slice, ← ha, ← hb]

theorem rawName_eq (cv : Conv) (l c : Str) (hl : l.length = layLen cv) (hc : c.length = colLen cv) :
    rawName cv l c = (match cv with | .c0 => c ++ l | .c3 => c ++ l | .c1 => l ++ c | .c2 => l ++ c) := by
  cases cv <;> simp only [rawName] <;>
    rw [slice_zero_self l _ (by simpa [layLen] using hl), slice_zero_self c _ (by simpa [colLen] using hc)]

theorem rawName_length (cv : Conv) (l c : Str) (hl : l.length = layLen cv) (hc : c.length = colLen cv) :
    (rawName cv l c).length = 5 := by
  rw [rawName_eq cv l c hl hc]
  cases cv <;> simp only [layLen, colLen] at hl hc <;> simp [hl, hc]

theorem columnName_rawName (cv : Conv) (l c : Str) (hl : l.length = layLen cv) (hc : c.length = colLen cv) :
    columnName cv (rawName cv l c) = c := by
  rw [rawName_eq cv l c hl hc]
  cases cv <;> simp [layLen, colLen, columnName] at *
  · exact slice_append_left c l 3 hc
  · exact slice_append_right l c 3 2 5 hl hc rfl
  · exact slice_append_right l c 2 3 5 hl hc rfl
  · exact slice_append_left c l 3 hc

theorem layerName_rawName (cv : Conv) (l c : Str) (hl : l.length = layLen cv) (hc : c.length = colLen cv) :
    layerName cv (rawName cv l c) = l := by
  rw [rawName_eq cv l c hl hc]
  cases cv <;> simp [layLen, colLen, layerName] at *
  · exact slice_append_right c l 3 2 5 hc hl rfl
  · exact slice_append_left l c 3 hl
  · exact slice_append_left l c 2 hl
  · exact slice_append_right c l 3 2 5 hc hl rfl

theorem fixBlockname_ok (n : Str) (h : n.length = 5) : ∃ m, fixBlockname n = .ok m := by
  match n, h with
  | [a, b, c, d, e], _ =>
    simp only [fixBlockname, List.getElem?_cons_succ, List.getElem?_cons_zero]
    split
    · exact ⟨_, rfl⟩
    · split
      · exact ⟨_, rfl⟩
      · split <;> exact ⟨_, rfl⟩

theorem blockName_ok (cv : Conv) (l c : Str) (hl : l.length = layLen cv) (hc : c.length = colLen cv) :
    ∃ m, blockName cv l c = .ok m :=
  fixBlockname_ok _ (rawName_length cv l c hl hc)

theorem blockName_inert (cv : Conv) (l c : Str) (h : fixInert (rawName cv l c) = true) :
    blockName cv l c = .ok (rawName cv l c) := by
  unfold blockName
  simpa [fixInert] using h

end Proofs.Mapping
