/-
  GENERATED ONCE by an adaptive subdivision (exact rational arithmetic); every number below is re-checked by Lean.
  Pieces 0..21 of the cover of the saturation interval: 273.15999 K .. 460.105045 K.
-/
import PyTough.Proofs.ThermoSatPiece
namespace Proofs.Iapws.Cover
open Gen.Iapws Model.Thermo Proofs.Thermo Proofs.Iapws

noncomputable def P0 : Piece := { a := (273160622747 / 1000000000 : ℝ), b := (68293959101 / 250000000 : ℝ), Alo := (-330803751 / 1000 : ℝ), Ahi := (-330777683 / 1000 : ℝ), Blo := (-1223075541 / 1000 : ℝ), Bhi := (-244550149 / 200 : ℝ), Clo := (200503703 / 1000 : ℝ), Chi := (40110859 / 200 : ℝ), ACmax := (-66322150311 : ℝ), ACmin := (-66344113066 : ℝ), slo := (6634018363 / 5000 : ℝ), shi := (13271361013 / 10000 : ℝ), βlo := (78622377717 / 500000000000 : ℝ), βhi := (78662488479 / 500000000000 : ℝ), Mg := (423381 / 1000 : ℝ), Mh := (289199 / 250 : ℝ) }
theorem P0_ok : P0.ok := by
  unfold Piece.ok P0 satA satB satC nr4_0 nr4_1 nr4_2 nr4_3 nr4_4 nr4_5 nr4_6 nr4_7 pmin pstar4 pcritical
  simp only [tf_lit]
  norm_num
theorem T0 (T : ℝ) (h1 : (27315999 / 100000 : ℝ) ≤ T) (h2 : T ≤ (27317520363 / 100000000 : ℝ)) : Branch (thetaOf T) :=
  P0.branchT P0_ok (27315999 / 100000 : ℝ) (27317520363 / 100000000 : ℝ) (by unfold nr4_9; rw [tf_lit]; norm_num)
    (by unfold P0 thetaOf nr4_8 nr4_9; simp only [tf_lit]; norm_num) (by unfold P0 thetaOf nr4_8 nr4_9; simp only [tf_lit]; norm_num) T h1 h2

noncomputable def P1 : Piece := { a := (273175836403 / 1000000000 : ℝ), b := (273191050059 / 1000000000 : ℝ), Alo := (-82694421 / 250 : ℝ), Ahi := (-41343952 / 125 : ℝ), Blo := (-611517291 / 500 : ℝ), Bhi := (-611354889 / 500 : ℝ), Clo := (100277147 / 500 : ℝ), Chi := (100302447 / 500 : ℝ), ACmax := (-66333656836 : ℝ), ACmin := (-66355622237 : ℝ), slo := (2653566527 / 2000 : ℝ), shi := (13271156987 / 10000 : ℝ), βlo := (19661026991 / 125000000000 : ℝ), βhi := (39342114439 / 250000000000 : ℝ), Mg := (52927 / 125 : ℝ), Mh := (46283 / 40 : ℝ) }
theorem P1_ok : P1.ok := by
  unfold Piece.ok P1 satA satB satC nr4_0 nr4_1 nr4_2 nr4_3 nr4_4 nr4_5 nr4_6 nr4_7 pmin pstar4 pcritical
  simp only [tf_lit]
  norm_num
theorem T1 (T : ℝ) (h1 : (27317520363 / 100000000 : ℝ) ≤ T) (h2 : T ≤ (13659520863 / 50000000 : ℝ)) : Branch (thetaOf T) :=
  P1.branchT P1_ok (27317520363 / 100000000 : ℝ) (13659520863 / 50000000 : ℝ) (by unfold nr4_9; rw [tf_lit]; norm_num)
    (by unfold P1 thetaOf nr4_8 nr4_9; simp only [tf_lit]; norm_num) (by unfold P1 thetaOf nr4_8 nr4_9; simp only [tf_lit]; norm_num) T h1 h2

noncomputable def P2 : Piece := { a := (136595525029 / 500000000 : ℝ), b := (3415268467 / 12500000 : ℝ), Alo := (-330751617 / 1000 : ℝ), Ahi := (-8267487 / 25 : ℝ), Blo := (-1223135569 / 1000 : ℝ), Bhi := (-1222485939 / 1000 : ℝ), Clo := (200604893 / 1000 : ℝ), Chi := (200706111 / 1000 : ℝ), ACmax := (-66339933800 : ℝ), ACmin := (-66383870756 : ℝ), slo := (1658233061 / 1250 : ℝ), shi := (13272513339 / 10000 : ℝ), βlo := (157313302363 / 1000000000000 : ℝ), βhi := (157473841827 / 1000000000000 : ℝ), Mg := (10583 / 25 : ℝ), Mh := (578589 / 500 : ℝ) }
theorem P2_ok : P2.ok := by
  unfold Piece.ok P2 satA satB satC nr4_0 nr4_1 nr4_2 nr4_3 nr4_4 nr4_5 nr4_6 nr4_7 pmin pstar4 pcritical
  simp only [tf_lit]
  norm_num
theorem T2 (T : ℝ) (h1 : (13659520863 / 50000000 : ℝ) ≤ T) (h2 : T ≤ (27322084451 / 100000000 : ℝ)) : Branch (thetaOf T) :=
  P2.branchT P2_ok (13659520863 / 50000000 : ℝ) (27322084451 / 100000000 : ℝ) (by unfold nr4_9; rw [tf_lit]; norm_num)
    (by unfold P2 thetaOf nr4_8 nr4_9; simp only [tf_lit]; norm_num) (by unfold P2 thetaOf nr4_8 nr4_9; simp only [tf_lit]; norm_num) T h1 h2

noncomputable def P3 : Piece := { a := (273221477359 / 1000000000 : ℝ), b := (68320582993 / 250000000 : ℝ), Alo := (-330699481 / 1000 : ℝ), Ahi := (-165297601 / 500 : ℝ), Blo := (-1223337637 / 1000 : ℝ), Bhi := (-305509571 / 250 : ℝ), Clo := (20070611 / 100 : ℝ), Chi := (200908629 / 1000 : ℝ), ACmax := (-66352476978 : ℝ), ACmin := (-66440379339 : ℝ), slo := (26523857 / 20 : ℝ), shi := (13275226897 / 10000 : ℝ), βlo := (157363465101 / 1000000000000 : ℝ), βhi := (78842388479 / 500000000000 : ℝ), Mg := (52891 / 125 : ℝ), Mh := (1157383 / 1000 : ℝ) }
theorem P3_ok : P3.ok := by
  unfold Piece.ok P3 satA satB satC nr4_0 nr4_1 nr4_2 nr4_3 nr4_4 nr4_5 nr4_6 nr4_7 pmin pstar4 pcritical
  simp only [tf_lit]
  norm_num
theorem T3 (T : ℝ) (h1 : (27322084451 / 100000000 : ℝ) ≤ T) (h2 : T ≤ (13664084951 / 50000000 : ℝ)) : Branch (thetaOf T) :=
  P3.branchT P3_ok (27322084451 / 100000000 : ℝ) (13664084951 / 50000000 : ℝ) (by unfold nr4_9; rw [tf_lit]; norm_num)
    (by unfold P3 thetaOf nr4_8 nr4_9; simp only [tf_lit]; norm_num) (by unfold P3 thetaOf nr4_8 nr4_9; simp only [tf_lit]; norm_num) T h1 h2

noncomputable def P4 : Piece := { a := (273282331971 / 1000000000 : ℝ), b := (273404041197 / 1000000000 : ℝ), Alo := (-330595203 / 1000 : ℝ), Ahi := (-41298328 / 125 : ℝ), Blo := (-1223742153 / 1000 : ℝ), Bhi := (-305285767 / 250 : ℝ), Clo := (50227157 / 250 : ℝ), Chi := (50328499 / 250 : ℝ), ACmax := (-66377523337 : ℝ), ACmin := (-66553441375 : ℝ), slo := (2650811563 / 2000 : ℝ), shi := (13280657449 / 10000 : ℝ), βlo := (39365938981 / 250000000000 : ℝ), βhi := (158107311423 / 1000000000000 : ℝ), Mg := (52843 / 125 : ℝ), Mh := (578897 / 500 : ℝ) }
theorem P4_ok : P4.ok := by
  unfold Piece.ok P4 satA satB satC nr4_0 nr4_1 nr4_2 nr4_3 nr4_4 nr4_5 nr4_6 nr4_7 pmin pstar4 pcritical
  simp only [tf_lit]
  norm_num
theorem T4 (T : ℝ) (h1 : (13664084951 / 50000000 : ℝ) ≤ T) (h2 : T ≤ (6835085201 / 25000000 : ℝ)) : Branch (thetaOf T) :=
  P4.branchT P4_ok (13664084951 / 50000000 : ℝ) (6835085201 / 25000000 : ℝ) (by unfold nr4_9; rw [tf_lit]; norm_num)
    (by unfold P4 thetaOf nr4_8 nr4_9; simp only [tf_lit]; norm_num) (by unfold P4 thetaOf nr4_8 nr4_9; simp only [tf_lit]; norm_num) T h1 h2

noncomputable def P5 : Piece := { a := (68351010299 / 250000000 : ℝ), b := (136823729823 / 500000000 : ℝ), Alo := (-2643093 / 8 : ℝ), Ahi := (-16498469 / 50 : ℝ), Blo := (-1224552703 / 1000 : ℝ), Bhi := (-152419127 / 125 : ℝ), Clo := (40262799 / 200 : ℝ), Chi := (202126057 / 1000 : ℝ), ACmax := (-66427454115 : ℝ), ACmin := (-66779745797 : ℝ), slo := (13238321623 / 10000 : ℝ), shi := (830720768 / 625 : ℝ), βlo := (78832097499 / 500000000000 : ℝ), βhi := (7947752241 / 50000000000 : ℝ), Mg := (421971 / 1000 : ℝ), Mh := (289653 / 250 : ℝ) }
theorem P5_ok : P5.ok := by
  unfold Piece.ok P5 satA satB satC nr4_0 nr4_1 nr4_2 nr4_3 nr4_4 nr4_5 nr4_6 nr4_7 pmin pstar4 pcritical
  simp only [tf_lit]
  norm_num
theorem T5 (T : ℝ) (h1 : (6835085201 / 25000000 : ℝ) ≤ T) (h2 : T ≤ (1710292663 / 6250000 : ℝ)) : Branch (thetaOf T) :=
  P5.branchT P5_ok (6835085201 / 25000000 : ℝ) (1710292663 / 6250000 : ℝ) (by unfold nr4_9; rw [tf_lit]; norm_num)
    (by unfold P5 thetaOf nr4_8 nr4_9; simp only [tf_lit]; norm_num) (by unfold P5 thetaOf nr4_8 nr4_9; simp only [tf_lit]; norm_num) T h1 h2

noncomputable def P6 : Piece := { a := (54729491929 / 200000000 : ℝ), b := (137067148273 / 500000000 : ℝ), Alo := (-329969381 / 1000 : ℝ), Ahi := (-65826907 / 200 : ℝ), Blo := (-153272484 / 125 : ℝ), Bhi := (-121577443 / 100 : ℝ), Clo := (25265757 / 125 : ℝ), Chi := (5093887 / 25 : ℝ), ACmax := (-66526665452 : ℝ), ACmin := (-67233069611 : ℝ), slo := (13206869903 / 10000 : ℝ), shi := (13313336761 / 10000 : ℝ), βlo := (39516126151 / 250000000000 : ℝ), βhi := (40165302411 / 250000000000 : ℝ), Mg := (84083 / 200 : ℝ), Mh := (29006 / 25 : ℝ) }
theorem P6_ok : P6.ok := by
  unfold Piece.ok P6 satA satB satC nr4_0 nr4_1 nr4_2 nr4_3 nr4_4 nr4_5 nr4_6 nr4_7 pmin pstar4 pcritical
  simp only [tf_lit]
  norm_num
theorem T6 (T : ℝ) (h1 : (1710292663 / 6250000 : ℝ) ≤ T) (h2 : T ≤ (3426670777 / 12500000 : ℝ)) : Branch (thetaOf T) :=
  P6.branchT P6_ok (1710292663 / 6250000 : ℝ) (3426670777 / 12500000 : ℝ) (by unfold nr4_9; rw [tf_lit]; norm_num)
    (by unfold P6 thetaOf nr4_8 nr4_9; simp only [tf_lit]; norm_num) (by unfold P6 thetaOf nr4_8 nr4_9; simp only [tf_lit]; norm_num) T h1 h2

noncomputable def P7 : Piece := { a := (54826859309 / 200000000 : ℝ), b := (275107970353 / 1000000000 : ℝ), Alo := (-41141817 / 125 : ℝ), Ahi := (-40932928 / 125 : ℝ), Blo := (-1229458491 / 1000 : ℝ), Bhi := (-151077916 / 125 : ℝ), Clo := (203755479 / 1000 : ℝ), Chi := (25879442 / 125 : ℝ), ACmax := (-66722466812 : ℝ), ACmin := (-68142545077 : ℝ), slo := (2628809781 / 2000 : ℝ), shi := (6678582113 / 5000 : ℝ), βlo := (4964463581 / 31250000000 : ℝ), βhi := (32823340537 / 200000000000 : ℝ), Mg := (52157 / 125 : ℝ), Mh := (1163459 / 1000 : ℝ) }
theorem P7_ok : P7.ok := by
  unfold Piece.ok P7 satA satB satC nr4_0 nr4_1 nr4_2 nr4_3 nr4_4 nr4_5 nr4_6 nr4_7 pmin pstar4 pcritical
  simp only [tf_lit]
  norm_num
theorem T7 (T : ℝ) (h1 : (3426670777 / 12500000 : ℝ) ≤ T) (h2 : T ≤ (3438841679 / 12500000 : ℝ)) : Branch (thetaOf T) :=
  P7.branchT P7_ok (3426670777 / 12500000 : ℝ) (3438841679 / 12500000 : ℝ) (by unfold nr4_9; rw [tf_lit]; norm_num)
    (by unfold P7 thetaOf nr4_8 nr4_9; simp only [tf_lit]; norm_num) (by unfold P7 thetaOf nr4_8 nr4_9; simp only [tf_lit]; norm_num) T h1 h2

noncomputable def P8 : Piece := { a := (17194248147 / 62500000 : ℝ), b := (277055317993 / 1000000000 : ℝ), Alo := (-13098537 / 40 : ℝ), Ahi := (-162057757 / 500 : ℝ), Blo := (-1236112849 / 1000 : ℝ), Bhi := (-1194345403 / 1000 : ℝ), Clo := (41407107 / 200 : ℝ), Chi := (213680489 / 1000 : ℝ), ACmax := (-67103428842 : ℝ), ACmin := (-69972544784 : ℝ), slo := (650936759 / 500 : ℝ), shi := (840355476 / 625 : ℝ), βlo := (1253517761 / 7812500000 : ℝ), βhi := (171203324519 / 1000000000000 : ℝ), Mg := (102689 / 250 : ℝ), Mh := (4679 / 4 : ℝ) }
theorem P8_ok : P8.ok := by
  unfold Piece.ok P8 satA satB satC nr4_0 nr4_1 nr4_2 nr4_3 nr4_4 nr4_5 nr4_6 nr4_7 pmin pstar4 pcritical
  simp only [tf_lit]
  norm_num
theorem T8 (T : ℝ) (h1 : (3438841679 / 12500000 : ℝ) ≤ T) (h2 : T ≤ (3463183483 / 12500000 : ℝ)) : Branch (thetaOf T) :=
  P8.branchT P8_ok (3438841679 / 12500000 : ℝ) (3463183483 / 12500000 : ℝ) (by unfold nr4_9; rw [tf_lit]; norm_num)
    (by unfold P8 thetaOf nr4_8 nr4_9; simp only [tf_lit]; norm_num) (by unfold P8 thetaOf nr4_8 nr4_9; simp only [tf_lit]; norm_num) T h1 h2

noncomputable def P9 : Piece := { a := (34631914749 / 125000000 : ℝ), b := (280950013387 / 1000000000 : ℝ), Alo := (-64823103 / 200 : ℝ), Ahi := (-317396941 / 1000 : ℝ), Blo := (-1249810047 / 1000 : ℝ), Bhi := (-1165886673 / 1000 : ℝ), Clo := (26710061 / 125 : ℝ), Chi := (227309759 / 1000 : ℝ), ACmax := (-67821533242 : ℝ), ACmin := (-73674619603 : ℝ), slo := (12769408237 / 10000 : ℝ), shi := (2725232931 / 2000 : ℝ), βlo := (81793875149 / 500000000000 : ℝ), βhi := (37220763121 / 200000000000 : ℝ), Mg := (49629 / 125 : ℝ), Mh := (236349 / 200 : ℝ) }
theorem P9_ok : P9.ok := by
  unfold Piece.ok P9 satA satB satC nr4_0 nr4_1 nr4_2 nr4_3 nr4_4 nr4_5 nr4_6 nr4_7 pmin pstar4 pcritical
  simp only [tf_lit]
  norm_num
theorem T9 (T : ℝ) (h1 : (3463183483 / 12500000 : ℝ) ≤ T) (h2 : T ≤ (28094936729 / 100000000 : ℝ)) : Branch (thetaOf T) :=
  P9.branchT P9_ok (3463183483 / 12500000 : ℝ) (28094936729 / 100000000 : ℝ) (by unfold nr4_9; rw [tf_lit]; norm_num)
    (by unfold P9 thetaOf nr4_8 nr4_9; simp only [tf_lit]; norm_num) (by unfold P9 thetaOf nr4_8 nr4_9; simp only [tf_lit]; norm_num) T h1 h2

noncomputable def P10 : Piece := { a := (140475006693 / 500000000 : ℝ), b := (72184851151 / 250000000 : ℝ), Alo := (-158698471 / 500 : ℝ), Ahi := (-303868781 / 1000 : ℝ), Blo := (-159844796 / 125 : ℝ), Bhi := (-1109357689 / 1000 : ℝ), Clo := (113654879 / 500 : ℝ), Chi := (255925753 / 1000 : ℝ), ACmax := (-69072339072 : ℝ), ACmin := (-81230051382 : ℝ), slo := (1534480693 / 1250 : ℝ), shi := (1400051131 / 1000 : ℝ), βlo := (84854767793 / 500000000000 : ℝ), βhi := (219026168681 / 1000000000000 : ℝ), Mg := (366749 / 1000 : ℝ), Mh := (601699 / 500 : ℝ) }
theorem P10_ok : P10.ok := by
  unfold Piece.ok P10 satA satB satC nr4_0 nr4_1 nr4_2 nr4_3 nr4_4 nr4_5 nr4_6 nr4_7 pmin pstar4 pcritical
  simp only [tf_lit]
  norm_num
theorem T10 (T : ℝ) (h1 : (28094936729 / 100000000 : ℝ) ≤ T) (h2 : T ≤ (692972987 / 2400000 : ℝ)) : Branch (thetaOf T) :=
  P10.branchT P10_ok (28094936729 / 100000000 : ℝ) (692972987 / 2400000 : ℝ) (by unfold nr4_9; rw [tf_lit]; norm_num)
    (by unfold P10 thetaOf nr4_8 nr4_9; simp only [tf_lit]; norm_num) (by unfold P10 thetaOf nr4_8 nr4_9; simp only [tf_lit]; norm_num) T h1 h2

noncomputable def P11 : Piece := { a := (288739404603 / 1000000000 : ℝ), b := (152159094459 / 500000000 : ℝ), Alo := (-151934391 / 500 : ℝ), Ahi := (-276448411 / 1000 : ℝ), Blo := (-33571768 / 25 : ℝ), Bhi := (-7982829 / 8 : ℝ), Clo := (31990719 / 125 : ℝ), Chi := (7964689 / 25 : ℝ), ACmax := (-70750267474 : ℝ), ACmin := (-96808813818 : ℝ), slo := (5654009477 / 5000 : ℝ), shi := (14800462919 / 10000 : ℝ), βlo := (181320067803 / 1000000000000 : ℝ), βhi := (149666095311 / 500000000000 : ℝ), Mg := (295381 / 1000 : ℝ), Mh := (1237499 / 1000 : ℝ) }
theorem P11_ok : P11.ok := by
  unfold Piece.ok P11 satA satB satC nr4_0 nr4_1 nr4_2 nr4_3 nr4_4 nr4_5 nr4_6 nr4_7 pmin pstar4 pcritical
  simp only [tf_lit]
  norm_num
theorem T11 (T : ℝ) (h1 : (692972987 / 2400000 : ℝ) ≤ T) (h2 : T ≤ (365180999 / 1200000 : ℝ)) : Branch (thetaOf T) :=
  P11.branchT P11_ok (692972987 / 2400000 : ℝ) (365180999 / 1200000 : ℝ) (by unfold nr4_9; rw [tf_lit]; norm_num)
    (by unfold P11 thetaOf nr4_8 nr4_9; simp only [tf_lit]; norm_num) (by unfold P11 thetaOf nr4_8 nr4_9; simp only [tf_lit]; norm_num) T h1 h2

noncomputable def P12 : Piece := { a := (304318188917 / 1000000000 : ℝ), b := (63979395207 / 200000000 : ℝ), Alo := (-69112103 / 250 : ℝ), Ahi := (-248542639 / 1000 : ℝ), Blo := (-165204471 / 125 : ℝ), Bhi := (-484165507 / 500 : ℝ), Clo := (318587559 / 1000 : ℝ), Chi := (38848913 / 100 : ℝ), ACmax := (-79182592666 : ℝ), ACmin := (-107397203068 : ℝ), slo := (5599989561 / 5000 : ℝ), shi := (2950464313 / 2000 : ℝ), βlo := (28477172287 / 125000000000 : ℝ), βhi := (186028707033 / 500000000000 : ℝ), Mg := (124967 / 500 : ℝ), Mh := (1494243 / 1000 : ℝ) }
theorem P12_ok : P12.ok := by
  unfold Piece.ok P12 satA satB satC nr4_0 nr4_1 nr4_2 nr4_3 nr4_4 nr4_5 nr4_6 nr4_7 pmin pstar4 pcritical
  simp only [tf_lit]
  norm_num
theorem T12 (T : ℝ) (h1 : (365180999 / 1200000 : ℝ) ≤ T) (h2 : T ≤ (255917003 / 800000 : ℝ)) : Branch (thetaOf T) :=
  P12.branchT P12_ok (365180999 / 1200000 : ℝ) (255917003 / 800000 : ℝ) (by unfold nr4_9; rw [tf_lit]; norm_num)
    (by unfold P12 thetaOf nr4_8 nr4_9; simp only [tf_lit]; norm_num) (by unfold P12 thetaOf nr4_8 nr4_9; simp only [tf_lit]; norm_num) T h1 h2

noncomputable def P13 : Piece := { a := (159948488017 / 500000000 : ℝ), b := (167737883187 / 500000000 : ℝ), Alo := (-6213566 / 25 : ℝ), Ahi := (-27518933 / 125 : ℝ), Blo := (-1308688417 / 1000 : ℝ), Bhi := (-94709599 / 100 : ℝ), Clo := (388489129 / 1000 : ℝ), Chi := (465630469 / 1000 : ℝ), ACmax := (-85526450497 : ℝ), ACmin := (-115729026030 : ℝ), slo := (11131471673 / 10000 : ℝ), shi := (921865779 / 625 : ℝ), βlo := (139559867993 / 500000000000 : ℝ), βhi := (452015061767 / 1000000000000 : ℝ), Mg := (15773 / 100 : ℝ), Mh := (175649 / 100 : ℝ) }
theorem P13_ok : P13.ok := by
  unfold Piece.ok P13 satA satB satC nr4_0 nr4_1 nr4_2 nr4_3 nr4_4 nr4_5 nr4_6 nr4_7 pmin pstar4 pcritical
  simp only [tf_lit]
  norm_num
theorem T13 (T : ℝ) (h1 : (255917003 / 800000 : ℝ) ≤ T) (h2 : T ≤ (40257001 / 120000 : ℝ)) : Branch (thetaOf T) :=
  P13.branchT P13_ok (255917003 / 800000 : ℝ) (40257001 / 120000 : ℝ) (by unfold nr4_9; rw [tf_lit]; norm_num)
    (by unfold P13 thetaOf nr4_8 nr4_9; simp only [tf_lit]; norm_num) (by unfold P13 thetaOf nr4_8 nr4_9; simp only [tf_lit]; norm_num) T h1 h2

noncomputable def P14 : Piece := { a := (335475766373 / 1000000000 : ℝ), b := (175527280219 / 500000000 : ℝ), Alo := (-44030293 / 200 : ℝ), Ahi := (-47818721 / 250 : ℝ), Blo := (-652014337 / 500 : ℝ), Bhi := (-233537139 / 250 : ℝ), Clo := (116407617 / 250 : ℝ), Chi := (68751448 / 125 : ℝ), ACmax := (-89063413753 : ℝ), ACmin := (-121085855985 : ℝ), slo := (11085518389 / 10000 : ℝ), shi := (3695296171 / 2500 : ℝ), βlo := (167363710173 / 500000000000 : ℝ), βhi := (538514199511 / 1000000000000 : ℝ), Mg := (5543 / 500 : ℝ), Mh := (2017393 / 1000 : ℝ) }
theorem P14_ok : P14.ok := by
  unfold Piece.ok P14 satA satB satC nr4_0 nr4_1 nr4_2 nr4_3 nr4_4 nr4_5 nr4_6 nr4_7 pmin pstar4 pcritical
  simp only [tf_lit]
  norm_num
theorem T14 (T : ℝ) (h1 : (40257001 / 120000 : ℝ) ≤ T) (h2 : T ≤ (842529031 / 2400000 : ℝ)) : Branch (thetaOf T) :=
  P14.branchT P14_ok (40257001 / 120000 : ℝ) (842529031 / 2400000 : ℝ) (by unfold nr4_9; rw [tf_lit]; norm_num)
    (by unfold P14 thetaOf nr4_8 nr4_9; simp only [tf_lit]; norm_num) (by unfold P14 thetaOf nr4_8 nr4_9; simp only [tf_lit]; norm_num) T h1 h2

noncomputable def P15 : Piece := { a := (351054560437 / 1000000000 : ℝ), b := (366633358839 / 1000000000 : ℝ), Alo := (-38254977 / 200 : ℝ), Ahi := (-161912899 / 1000 : ℝ), Blo := (-261531309 / 200 : ℝ), Bhi := (-185897743 / 200 : ℝ), Clo := (550011583 / 1000 : ℝ), Chi := (160408121 / 250 : ℝ), ACmax := (-89053969887 : ℝ), ACmin := (-122728179590 : ℝ), slo := (5523054297 / 5000 : ℝ), shi := (1854419703 / 1250 : ℝ), βlo := (98526278813 / 250000000000 : ℝ), βhi := (9857440303 / 15625000000 : ℝ), Mg := (-314719 / 1000 : ℝ), Mh := (283804 / 125 : ℝ) }
theorem P15_ok : P15.ok := by
  unfold Piece.ok P15 satA satB satC nr4_0 nr4_1 nr4_2 nr4_3 nr4_4 nr4_5 nr4_6 nr4_7 pmin pstar4 pcritical
  simp only [tf_lit]
  norm_num
theorem T15 (T : ℝ) (h1 : (842529031 / 2400000 : ℝ) ≤ T) (h2 : T ≤ (146653007 / 400000 : ℝ)) : Branch (thetaOf T) :=
  P15.branchT P15_ok (842529031 / 2400000 : ℝ) (146653007 / 400000 : ℝ) (by unfold nr4_9; rw [tf_lit]; norm_num)
    (by unfold P15 thetaOf nr4_8 nr4_9; simp only [tf_lit]; norm_num) (by unfold P15 thetaOf nr4_8 nr4_9; simp only [tf_lit]; norm_num) T h1 h2

noncomputable def P16 : Piece := { a := (183316679419 / 500000000 : ℝ), b := (11944130073 / 31250000 : ℝ), Alo := (-1619129 / 10 : ℝ), Ahi := (-26413101 / 200 : ℝ), Blo := (-566150987 / 500 : ℝ), Bhi := (-1120386539 / 1000 : ℝ), Clo := (641632483 / 1000 : ℝ), Chi := (37024659 / 50 : ℝ), ACmax := (-84737517891 : ℝ), ACmin := (-119895398205 : ℝ), slo := (12626226943 / 10000 : ℝ), shi := (829554039 / 625 : ℝ), βlo := (104347942689 / 200000000000 : ℝ), βhi := (155369347641 / 250000000000 : ℝ), Mg := (-160161 / 250 : ℝ), Mh := (573391 / 200 : ℝ) }
theorem P16_ok : P16.ok := by
  unfold Piece.ok P16 satA satB satC nr4_0 nr4_1 nr4_2 nr4_3 nr4_4 nr4_5 nr4_6 nr4_7 pmin pstar4 pcritical
  simp only [tf_lit]
  norm_num
theorem T16 (T : ℝ) (h1 : (146653007 / 400000 : ℝ) ≤ T) (h2 : T ≤ (917307053 / 2400000 : ℝ)) : Branch (thetaOf T) :=
  P16.branchT P16_ok (146653007 / 400000 : ℝ) (917307053 / 2400000 : ℝ) (by unfold nr4_9; rw [tf_lit]; norm_num)
    (by unfold P16 thetaOf nr4_8 nr4_9; simp only [tf_lit]; norm_num) (by unfold P16 thetaOf nr4_8 nr4_9; simp only [tf_lit]; norm_num) T h1 h2

noncomputable def P17 : Piece := { a := (76442432467 / 200000000 : ℝ), b := (397790971871 / 1000000000 : ℝ), Alo := (-66032753 / 500 : ℝ), Ahi := (-50866351 / 500 : ℝ), Blo := (-1152505033 / 1000 : ℝ), Bhi := (-1132301973 / 1000 : ℝ), Clo := (740493179 / 1000 : ℝ), Chi := (846593687 / 1000 : ℝ), ACmax := (-75332371912 : ℝ), ACmin := (-111805823651 : ℝ), slo := (12583470291 / 10000 : ℝ), shi := (1665594463 / 1250 : ℝ), βlo := (595975017259 / 1000000000000 : ℝ), βhi := (88531784283 / 125000000000 : ℝ), Mg := (-553437 / 500 : ℝ), Mh := (1558177 / 500 : ℝ) }
theorem P17_ok : P17.ok := by
  unfold Piece.ok P17 satA satB satC nr4_0 nr4_1 nr4_2 nr4_3 nr4_4 nr4_5 nr4_6 nr4_7 pmin pstar4 pcritical
  simp only [tf_lit]
  norm_num
theorem T17 (T : ℝ) (h1 : (917307053 / 2400000 : ℝ) ≤ T) (h2 : T ≤ (7458563 / 18750 : ℝ)) : Branch (thetaOf T) :=
  P17.branchT P17_ok (917307053 / 2400000 : ℝ) (7458563 / 18750 : ℝ) (by unfold nr4_9; rw [tf_lit]; norm_num)
    (by unfold P17 thetaOf nr4_8 nr4_9; simp only [tf_lit]; norm_num) (by unfold P17 thetaOf nr4_8 nr4_9; simp only [tf_lit]; norm_num) T h1 h2

noncomputable def P18 : Piece := { a := (39779097187 / 100000000 : ℝ), b := (103342447159 / 250000000 : ℝ), Alo := (-101732703 / 1000 : ℝ), Ahi := (-35457243 / 500 : ℝ), Blo := (-147624466 / 125 : ℝ), Bhi := (-144063129 / 125 : ℝ), Clo := (423296843 / 500 : ℝ), Chi := (47996701 / 50 : ℝ), ACmax := (-60035756093 : ℝ), ACmin := (-97656682557 : ℝ), slo := (6261810587 / 5000 : ℝ), shi := (13361802423 / 10000 : ℝ), βlo := (672653557787 / 1000000000000 : ℝ), βhi := (798326028313 / 1000000000000 : ℝ), Mg := (-836167 / 500 : ℝ), Mh := (3338387 / 1000 : ℝ) }
theorem P18_ok : P18.ok := by
  unfold Piece.ok P18 satA satB satC nr4_0 nr4_1 nr4_2 nr4_3 nr4_4 nr4_5 nr4_6 nr4_7 pmin pstar4 pcritical
  simp only [tf_lit]
  norm_num
theorem T18 (T : ℝ) (h1 : (7458563 / 18750 : ℝ) ≤ T) (h2 : T ≤ (13227801 / 32000 : ℝ)) : Branch (thetaOf T) :=
  P18.branchT P18_ok (7458563 / 18750 : ℝ) (13227801 / 32000 : ℝ) (by unfold nr4_9; rw [tf_lit]; norm_num)
    (by unfold P18 thetaOf nr4_8 nr4_9; simp only [tf_lit]; norm_num) (by unfold P18 thetaOf nr4_8 nr4_9; simp only [tf_lit]; norm_num) T h1 h2

noncomputable def P19 : Piece := { a := (82673957727 / 200000000 : ℝ), b := (428948614159 / 1000000000 : ℝ), Alo := (-70914487 / 1000 : ℝ), Ahi := (-39610853 / 1000 : ℝ), Blo := (-304443519 / 250 : ℝ), Bhi := (-1180995727 / 1000 : ℝ), Clo := (959934019 / 1000 : ℝ), Chi := (1080514203 / 1000 : ℝ), ACmax := (-38023805316 : ℝ), ACmin := (-76624110402 : ℝ), slo := (2487445379 / 2000 : ℝ), shi := (13377107841 / 10000 : ℝ), βlo := (75127349333 / 100000000000 : ℝ), βhi := (891249223537 / 1000000000000 : ℝ), Mg := (-2341117 / 1000 : ℝ), Mh := (3528747 / 1000 : ℝ) }
theorem P19_ok : P19.ok := by
  unfold Piece.ok P19 satA satB satC nr4_0 nr4_1 nr4_2 nr4_3 nr4_4 nr4_5 nr4_6 nr4_7 pmin pstar4 pcritical
  simp only [tf_lit]
  norm_num
theorem T19 (T : ℝ) (h1 : (13227801 / 32000 : ℝ) ≤ T) (h2 : T ≤ (514737043 / 1200000 : ℝ)) : Branch (thetaOf T) :=
  P19.branchT P19_ok (13227801 / 32000 : ℝ) (514737043 / 1200000 : ℝ) (by unfold nr4_9; rw [tf_lit]; norm_num)
    (by unfold P19 thetaOf nr4_8 nr4_9; simp only [tf_lit]; norm_num) (by unfold P19 thetaOf nr4_8 nr4_9; simp only [tf_lit]; norm_num) T h1 h2

noncomputable def P20 : Piece := { a := (214474307079 / 500000000 : ℝ), b := (44452745043 / 100000000 : ℝ), Alo := (-19805427 / 500 : ℝ), Ahi := (-3910899 / 500 : ℝ), Blo := (-157855012 / 125 : ℝ), Bhi := (-48710963 / 40 : ℝ), Clo := (540257101 / 500 : ℝ), Chi := (241666853 / 200 : ℝ), ACmax := (-8451563824 : ℝ), ACmin := (-47863152155 : ℝ), slo := (12315762067 / 10000 : ℝ), shi := (1336494563 / 1000 : ℝ), βlo := (207844380149 / 250000000000 : ℝ), βhi := (493328485529 / 500000000000 : ℝ), Mg := (-389577 / 125 : ℝ), Mh := (3683859 / 1000 : ℝ) }
theorem P20_ok : P20.ok := by
  unfold Piece.ok P20 satA satB satC nr4_0 nr4_1 nr4_2 nr4_3 nr4_4 nr4_5 nr4_6 nr4_7 pmin pstar4 pcritical
  simp only [tf_lit]
  norm_num
theorem T20 (T : ℝ) (h1 : (514737043 / 1200000 : ℝ) ≤ T) (h2 : T ≤ (1066863097 / 2400000 : ℝ)) : Branch (thetaOf T) :=
  P20.branchT P20_ok (514737043 / 1200000 : ℝ) (1066863097 / 2400000 : ℝ) (by unfold nr4_9; rw [tf_lit]; norm_num)
    (by unfold P20 thetaOf nr4_8 nr4_9; simp only [tf_lit]; norm_num) (by unfold P20 thetaOf nr4_8 nr4_9; simp only [tf_lit]; norm_num) T h1 h2

noncomputable def P21 : Piece := { a := (444527450429 / 1000000000 : ℝ), b := (115026575023 / 250000000 : ℝ), Alo := (-7821799 / 1000 : ℝ), Ahi := (4890537 / 200 : ℝ), Blo := (-164524227 / 125 : ℝ), Bhi := (-252568019 / 200 : ℝ), Clo := (151041783 / 125 : ℝ), Chi := (335848561 / 250 : ℝ), ACmax := (32849596280 : ℝ), ACmin := (-10507759755 : ℝ), slo := (12096969539 / 10000 : ℝ), shi := (1665081267 / 1250 : ℝ), βlo := (456274987359 / 500000000000 : ℝ), βhi := (271663117161 / 250000000000 : ℝ), Mg := (-4010557 / 1000 : ℝ), Mh := (3800807 / 1000 : ℝ) }
theorem P21_ok : P21.ok := by
  unfold Piece.ok P21 satA satB satC nr4_0 nr4_1 nr4_2 nr4_3 nr4_4 nr4_5 nr4_6 nr4_7 pmin pstar4 pcritical
  simp only [tf_lit]
  norm_num
theorem T21 (T : ℝ) (h1 : (1066863097 / 2400000 : ℝ) ≤ T) (h2 : T ≤ (92021009 / 200000 : ℝ)) : Branch (thetaOf T) :=
  P21.branchT P21_ok (1066863097 / 2400000 : ℝ) (92021009 / 200000 : ℝ) (by unfold nr4_9; rw [tf_lit]; norm_num)
    (by unfold P21 thetaOf nr4_8 nr4_9; simp only [tf_lit]; norm_num) (by unfold P21 thetaOf nr4_8 nr4_9; simp only [tf_lit]; norm_num) T h1 h2

theorem cover0 (T : ℝ) (h0 : (27315999 / 100000 : ℝ) ≤ T) (hN : T ≤ (92021009 / 200000 : ℝ)) : Branch (thetaOf T) := by
  by_cases c0 : T ≤ (27317520363 / 100000000 : ℝ)
  · exact T0 T h0 c0
  have g0 := le_of_lt (not_le.mp c0)
  by_cases c1 : T ≤ (13659520863 / 50000000 : ℝ)
  · exact T1 T g0 c1
  have g1 := le_of_lt (not_le.mp c1)
  by_cases c2 : T ≤ (27322084451 / 100000000 : ℝ)
  · exact T2 T g1 c2
  have g2 := le_of_lt (not_le.mp c2)
  by_cases c3 : T ≤ (13664084951 / 50000000 : ℝ)
  · exact T3 T g2 c3
  have g3 := le_of_lt (not_le.mp c3)
  by_cases c4 : T ≤ (6835085201 / 25000000 : ℝ)
  · exact T4 T g3 c4
  have g4 := le_of_lt (not_le.mp c4)
  by_cases c5 : T ≤ (1710292663 / 6250000 : ℝ)
  · exact T5 T g4 c5
  have g5 := le_of_lt (not_le.mp c5)
  by_cases c6 : T ≤ (3426670777 / 12500000 : ℝ)
  · exact T6 T g5 c6
  have g6 := le_of_lt (not_le.mp c6)
  by_cases c7 : T ≤ (3438841679 / 12500000 : ℝ)
  · exact T7 T g6 c7
  have g7 := le_of_lt (not_le.mp c7)
  by_cases c8 : T ≤ (3463183483 / 12500000 : ℝ)
  · exact T8 T g7 c8
  have g8 := le_of_lt (not_le.mp c8)
  by_cases c9 : T ≤ (28094936729 / 100000000 : ℝ)
  · exact T9 T g8 c9
  have g9 := le_of_lt (not_le.mp c9)
  by_cases c10 : T ≤ (692972987 / 2400000 : ℝ)
  · exact T10 T g9 c10
  have g10 := le_of_lt (not_le.mp c10)
  by_cases c11 : T ≤ (365180999 / 1200000 : ℝ)
  · exact T11 T g10 c11
  have g11 := le_of_lt (not_le.mp c11)
  by_cases c12 : T ≤ (255917003 / 800000 : ℝ)
  · exact T12 T g11 c12
  have g12 := le_of_lt (not_le.mp c12)
  by_cases c13 : T ≤ (40257001 / 120000 : ℝ)
  · exact T13 T g12 c13
  have g13 := le_of_lt (not_le.mp c13)
  by_cases c14 : T ≤ (842529031 / 2400000 : ℝ)
  · exact T14 T g13 c14
  have g14 := le_of_lt (not_le.mp c14)
  by_cases c15 : T ≤ (146653007 / 400000 : ℝ)
  · exact T15 T g14 c15
  have g15 := le_of_lt (not_le.mp c15)
  by_cases c16 : T ≤ (917307053 / 2400000 : ℝ)
  · exact T16 T g15 c16
  have g16 := le_of_lt (not_le.mp c16)
  by_cases c17 : T ≤ (7458563 / 18750 : ℝ)
  · exact T17 T g16 c17
  have g17 := le_of_lt (not_le.mp c17)
  by_cases c18 : T ≤ (13227801 / 32000 : ℝ)
  · exact T18 T g17 c18
  have g18 := le_of_lt (not_le.mp c18)
  by_cases c19 : T ≤ (514737043 / 1200000 : ℝ)
  · exact T19 T g18 c19
  have g19 := le_of_lt (not_le.mp c19)
  by_cases c20 : T ≤ (1066863097 / 2400000 : ℝ)
  · exact T20 T g19 c20
  have g20 := le_of_lt (not_le.mp c20)
  exact T21 T g20 hN

end Proofs.Iapws.Cover
