/-
  Proofs for C16 (core Lean only).  Statements are re-exported in Props/C16.lean.
-/
import PyTough.Model.Fortran
import PyTough.Proofs.StrLemmas
namespace Proofs
open Py Model

/-- characters that can occur in text accepted by `float()` (besides whitespace) -/
def floatAlpha (c : Char) : Bool :=
  ['0','1','2','3','4','5','6','7','8','9','+','-','.','_','e','d','i','n','f','t','y','a'].contains (lowerChar c)

/-- characters that can occur in text accepted by `int()` (besides whitespace) -/
def intAlpha (c : Char) : Bool :=
  ['0','1','2','3','4','5','6','7','8','9','+','-','_'].contains c

inductive Sign where | none | plus | minus
  deriving DecidableEq, Repr

def Sign.chars : Sign → Str
  | .none => [] | .plus => ['+'] | .minus => ['-']

/-- the exponent part of a printed real -/
inductive ExpForm where
  | absent
  | letter (l : Char) (sg : Sign) (ds : Str)   -- `E+05`, `D-05`, `e05`
  | bare (neg : Bool) (ds : Str)               -- `+100`, `-100`: the letter dropped
  deriving Repr

structure FReal where
  sign : Sign
  ip : Str          -- integer digits
  point : Bool
  fp : Str          -- fraction digits
  ex : ExpForm
  deriving Repr

def ExpForm.chars : ExpForm → Str
  | .absent => []
  | .letter l sg ds => l :: sg.chars ++ ds
  | .bare neg ds => (if neg then '-' else '+') :: ds

def ExpForm.val : ExpForm → Int
  | .absent => 0
  | .letter _ sg ds => if sg = .minus then -(digitsVal ds : Int) else digitsVal ds
  | .bare neg ds => if neg then -(digitsVal ds : Int) else digitsVal ds

def ExpForm.WF : ExpForm → Prop
  | .absent => True
  | .letter l _ ds => (l = 'E' ∨ l = 'e' ∨ l = 'D' ∨ l = 'd') ∧ ds ≠ [] ∧ ∀ c ∈ ds, isDigit c = true
  | .bare _ ds => ds ≠ [] ∧ ∀ c ∈ ds, isDigit c = true

def FReal.render (r : FReal) : Str :=
  r.sign.chars ++ r.ip ++ (if r.point then ['.'] else []) ++ r.fp ++ r.ex.chars

/-- the exact decimal printed -/
def FReal.value (r : FReal) : FVal :=
  .fin (r.sign = .minus) (digitsVal (r.ip ++ r.fp)) (r.ex.val - r.fp.length)

def FReal.WF (r : FReal) : Prop :=
  (∀ c ∈ r.ip, isDigit c = true) ∧ (∀ c ∈ r.fp, isDigit c = true) ∧
  ¬ (r.ip = [] ∧ r.fp = []) ∧ (r.fp ≠ [] → r.point = true) ∧ r.ex.WF

def renderInt (neg plus : Bool) (ds : Str) : Str :=
  (if neg then ['-'] else if plus then ['+'] else []) ++ ds

-- non-vacuity: a concrete printed real meets WF
example : (FReal.mk .minus ['1'] true ['0'] (.bare true ['1','0','0'])).WF := by
  refine ⟨?_, ?_, ?_, ?_, ?_, ?_⟩ <;> simp [ExpForm.WF, isDigit] <;> decide

/-! ### the alphabet of `float()` -/

theorem floatAlpha_lowerChar (c : Char) : floatAlpha (lowerChar c) = floatAlpha c := by
  unfold floatAlpha; rw [lowerChar_idem]

theorem floatAlpha_digit {c : Char} (h : isDigit c = true) : floatAlpha c = true :=
  isDigit_elim h (P := fun d => floatAlpha d = true) (by decide)

theorem floatAlpha_of_lower {c : Char} {s1 L : Str} (hc : c ∈ s1) (hL : lower s1 = L)
    (hall : ∀ x ∈ L, floatAlpha x = true) : floatAlpha c = true := by
  rw [← floatAlpha_lowerChar]
  exact hall _ (hL ▸ mem_lower hc)

theorem takeWhile_all {p : Char → Bool} {l : Str} (h : ∀ c ∈ l, p c = true) : l.takeWhile p = l := by
  have := List.takeWhile_append_of_pos (l₂ := []) h
  simpa using this

theorem dropWhile_all {p : Char → Bool} {l : Str} (h : ∀ c ∈ l, p c = true) : l.dropWhile p = [] := by
  have := List.dropWhile_append_of_pos (l₂ := []) h
  simpa using this

theorem parseExpTail_some {r : Str} {e : Int} (h : parseExpTail r = some e) :
    ∀ c ∈ r, isDigit c = true ∨ c = '-' ∨ c = '+' := by
  unfold parseExpTail at h
  simp only at h
  split at h
  · cases h
  · rename_i hc
    simp only [Bool.or_eq_true, Bool.not_eq_true', not_or, Bool.not_eq_true, Bool.not_eq_false] at hc
    have hd : (takeSign r).2.dropWhile isDigit = [] := by simpa using hc.2
    have ht : (takeSign r).2 = (takeSign r).2.takeWhile isDigit := by
      have := List.takeWhile_append_dropWhile (p := isDigit) (l := (takeSign r).2)
      rw [hd] at this; simpa using this.symm
    have hdig : ∀ c ∈ (takeSign r).2, isDigit c = true := by
      intro c hc; rw [ht] at hc; exact mem_takeWhile_imp hc
    intro c hcr
    rcases takeSign_cases r with ⟨h1, t, rfl⟩ | ⟨h1, t, rfl⟩ | ⟨h1, _⟩
    · rw [h1] at hdig
      rcases List.mem_cons.mp hcr with rfl | h'
      · simp
      · exact Or.inl (hdig c (by simpa using h'))
    · rw [h1] at hdig
      rcases List.mem_cons.mp hcr with rfl | h'
      · simp
      · exact Or.inl (hdig c (by simpa using h'))
    · rw [h1] at hdig
      exact Or.inl (hdig c hcr)

theorem parseExp_some {r : Str} {e : Int} (h : parseExp r = some e) :
    ∀ c ∈ r, floatAlpha c = true := by
  cases r with
  | nil => simp
  | cons x xs =>
    rw [parseExp_cons] at h
    split at h
    · rename_i hx
      intro c hc
      rcases List.mem_cons.mp hc with rfl | h'
      · simp only [Bool.or_eq_true, decide_eq_true_eq] at hx
        rcases hx with rfl | rfl <;> decide
      · rcases parseExpTail_some h c h' with hd | rfl | rfl
        · exact floatAlpha_digit hd
        · decide
        · decide
    · cases h

theorem fracPart_mem (r1 : Str) :
    ∀ c ∈ r1, c = '.' ∨ isDigit c = true ∨ c ∈ (fracPart r1).2 := by
  intro c hc
  by_cases h : ∃ t, r1 = '.' :: t
  · obtain ⟨t, rfl⟩ := h
    rw [fracPart_dot]
    rcases List.mem_cons.mp hc with rfl | h'
    · simp
    · rw [← List.takeWhile_append_dropWhile (p := isDigit) (l := t)] at h'
      rcases List.mem_append.mp h' with h'' | h''
      · exact Or.inr (Or.inl (mem_takeWhile_imp h''))
      · exact Or.inr (Or.inr h'')
  · rw [fracPart_other]
    · exact Or.inr (Or.inr hc)
    · intro x r hr hx; exact h ⟨r, by rw [hr, hx]⟩

theorem parseNum_some {neg : Bool} {s1 : Str} {v : FVal} (h : parseNum neg s1 = some v) :
    ∀ c ∈ s1, floatAlpha c = true := by
  unfold parseNum at h
  simp only at h
  split at h
  · cases h
  · split at h
    · rename_i e he
      intro c hc
      rw [← List.takeWhile_append_dropWhile (p := isDigit) (l := s1)] at hc
      rcases List.mem_append.mp hc with h' | h'
      · exact floatAlpha_digit (mem_takeWhile_imp h')
      · rcases fracPart_mem _ c h' with rfl | hd | h''
        · decide
        · exact floatAlpha_digit hd
        · exact parseExp_some he c h''
    · cases h

theorem parseBody_some {neg : Bool} {s1 : Str} {v : FVal} (h : parseBody neg s1 = some v) :
    ∀ c ∈ s1, floatAlpha c = true := by
  unfold parseBody at h
  split at h
  · rename_i hl
    simp only [Bool.or_eq_true, decide_eq_true_eq] at hl
    intro c hc
    rcases hl with hl | hl
    · exact floatAlpha_of_lower hc hl (by decide)
    · exact floatAlpha_of_lower hc hl (by decide)
  · split at h
    · rename_i hl
      intro c hc
      exact floatAlpha_of_lower hc hl (by decide)
    · exact parseNum_some h

/-- everything `strtod` accepts is written in the number alphabet -/
theorem parseDecimal_some {u : Str} {v : FVal} (h : parseDecimal u = some v) :
    ∀ c ∈ u, floatAlpha c = true := by
  rw [parseDecimal_eq] at h
  have hb := parseBody_some h
  intro c hc
  rcases takeSign_cases u with ⟨h1, t, rfl⟩ | ⟨h1, t, rfl⟩ | ⟨h1, _⟩
  · rw [h1] at hb
    rcases List.mem_cons.mp hc with rfl | h'
    · decide
    · exact hb c (by simpa using h')
  · rw [h1] at hb
    rcases List.mem_cons.mp hc with rfl | h'
    · decide
    · exact hb c (by simpa using h')
  · rw [h1] at hb
    exact hb c hc

/-! ### `float()` and `int()` -/

theorem pyFloat_error {s : Str} {e : Exc} (h : pyFloat s = .error e) : e = .valueError := by
  unfold pyFloat at h
  simp only at h
  split at h
  · cases h; rfl
  · split at h
    · cases h
    · cases h; rfl

theorem pyFloat_ok_alpha {s : Str} {v : FVal} (h : pyFloat s = .ok v) :
    ∀ c ∈ stripBy isNumWs s, floatAlpha c = true := by
  unfold pyFloat at h
  simp only at h
  split at h
  · cases h
  · rename_i u hu
    split at h
    · rename_i v' hv
      have ha := parseDecimal_some hv
      intro c hc
      split at hu
      · split at hu
        · cases hu
          by_cases hcu : c = '_'
          · subst hcu; decide
          · exact ha c (mem_removeUnderscores hc hcu)
        · cases hu
      · cases hu
        exact ha c hc
    · cases h

theorem pyFloat_bad {s : Str} {c : Char} (hc : c ∈ s) (hws : isNumWs c = false)
    (hbad : floatAlpha c = false) : pyFloat s = .error .valueError := by
  cases h : pyFloat s with
  | ok v =>
    have := pyFloat_ok_alpha h c (mem_stripBy_of_not hc hws)
    rw [hbad] at this; cases this
  | error e => rw [pyFloat_error h]

theorem pyFloat_clean {u : Str} (hws : ∀ c ∈ u, isNumWs c = false) (hu : '_' ∉ u) :
    pyFloat u = match parseDecimal u with
      | some v => .ok v
      | none => .error .valueError := by
  unfold pyFloat
  simp only
  rw [stripBy_none hws]
  have : u.contains '_' = false := by simpa using hu
  rw [this]
  rfl

theorem pyFloat_of_strip {s u : Str} (hs : stripBy isNumWs s = u) (hu : '_' ∉ u) :
    pyFloat s = match parseDecimal u with
      | some v => .ok v
      | none => .error .valueError := by
  unfold pyFloat
  simp only
  rw [hs]
  have : u.contains '_' = false := by simpa using hu
  rw [this]
  rfl

/-! ### the `try` ladder of `fortran_float` -/

/-- the part of `fortranFloat` after `s` has been normalised to `s2` -/
def ffTail (s2 : Str) : Except Exc (FOut FVal) :=
  match pyFloat s2 with
  | .ok v => .ok (.val v)
  | .error _ =>
    match (headReplace s2 '-' ['e', '-'] >>= pyFloat) with
    | .ok v => .ok (.val v)
    | .error .valueError =>
      match (headReplace s2 '+' ['e'] >>= pyFloat) with
      | .ok v => .ok (.val v)
      | .error .valueError => .ok (.val .nan)
      | .error e => .error e
    | .error e => .error e

def ffS2 (s : Str) : Str := replaceChar ' ' [] (replaceChar 'd' ['e'] (lower (strip s)))

theorem fortranFloat_ok {s : Str} {v : FVal} (h : pyFloat s = .ok v) :
    fortranFloat s = .ok (.val v) := by
  unfold fortranFloat; rw [h]

theorem fortranFloat_err {s : Str} {e : Exc} (h : pyFloat s = .error e) :
    fortranFloat s = if (strip s).isEmpty then .ok .blank else ffTail (ffS2 s) := by
  have := pyFloat_error h; subst this
  unfold fortranFloat ffTail ffS2; rw [h]
  rfl

/-- the ladder when `s2` is not empty (so `s2[0]` exists) -/
def ffTail' (h : Char) (tl : Str) : Except Exc (FOut FVal) :=
  match pyFloat (h :: tl) with
  | .ok v => .ok (.val v)
  | .error _ =>
    match pyFloat (h :: replaceChar '-' ['e','-'] tl) with
    | .ok v => .ok (.val v)
    | .error _ =>
      match pyFloat (h :: replaceChar '+' ['e'] tl) with
      | .ok v => .ok (.val v)
      | .error _ => .ok (.val .nan)

theorem headReplace_cons (h : Char) (tl : Str) (c : Char) (t : Str) :
    (headReplace (h :: tl) c t >>= pyFloat) = pyFloat (h :: replaceChar c t tl) := rfl

theorem ffTail_cons (h : Char) (tl : Str) : ffTail (h :: tl) = ffTail' h tl := by
  unfold ffTail ffTail'
  rw [headReplace_cons, headReplace_cons]
  cases h1 : pyFloat (h :: tl) with
  | ok v => rfl
  | error e1 =>
    simp only
    cases h2 : pyFloat (h :: replaceChar '-' ['e','-'] tl) with
    | ok v => rfl
    | error e2 =>
      have := pyFloat_error h2; subst this
      simp only
      cases h3 : pyFloat (h :: replaceChar '+' ['e'] tl) with
      | ok v => rfl
      | error e3 =>
        have := pyFloat_error h3; subst this
        rfl

theorem ffTail'_total (h : Char) (tl : Str) : ∃ o, ffTail' h tl = .ok o := by
  unfold ffTail'
  split
  · exact ⟨_, rfl⟩
  · split
    · exact ⟨_, rfl⟩
    · split <;> exact ⟨_, rfl⟩

theorem ffTail'_nan {h : Char} {tl : Str}
    (h1 : pyFloat (h :: tl) = .error .valueError)
    (h2 : pyFloat (h :: replaceChar '-' ['e','-'] tl) = .error .valueError)
    (h3 : pyFloat (h :: replaceChar '+' ['e'] tl) = .error .valueError) :
    ffTail' h tl = .ok (.val .nan) := by
  unfold ffTail'; rw [h1]; simp only; rw [h2]; simp only; rw [h3]

/-- a non-blank character of `s` survives into `s2` (lower-cased) -/
theorem mem_ffS2 {s : Str} {c : Char} (hc : c ∈ s) (hws : isStrWs c = false)
    (hd : lowerChar c ≠ 'd') : lowerChar c ∈ ffS2 s := by
  unfold ffS2
  apply mem_replaceChar_of_ne
  · apply mem_replaceChar_of_ne _ hd
    exact mem_lower (mem_stripBy_of_not hc hws)
  · intro e
    have := isStrWs_lowerChar c
    rw [e, hws] at this
    revert this; decide

theorem isNumWs_of_isStrWs_false {c : Char} (h : isStrWs c = false) : isNumWs c = false := by
  unfold isStrWs at h
  simp only [Bool.or_eq_false_iff] at h
  exact h.1.1.1.1

theorem strip_ne_nil {s : Str} {c : Char} (hc : c ∈ s) (hws : isStrWs c = false) :
    (strip s).isEmpty = false := by
  have : c ∈ strip s := mem_stripBy_of_not hc hws
  cases hs : strip s with
  | nil => rw [hs] at this; simp at this
  | cons _ _ => rfl

theorem fortranFloat_total (s : Str) : ∃ o, fortranFloat s = .ok o := by
  cases h : pyFloat s with
  | ok v => exact ⟨_, fortranFloat_ok h⟩
  | error e =>
    rw [fortranFloat_err h]
    cases hs : strip s with
    | nil => exact ⟨_, rfl⟩
    | cons x xs =>
      simp only [List.isEmpty_cons, Bool.false_eq_true, if_false]
      have hx : isStrWs x = false := stripBy_head isStrWs s x xs hs
      have hxs : x ∈ s := mem_of_mem_stripBy (p := isStrWs) (by unfold strip at hs; rw [hs]; simp)
      -- some character survives into `s2`
      have : ∃ y, y ∈ ffS2 s := by
        by_cases hd : lowerChar x = 'd'
        · refine ⟨'e', ?_⟩
          unfold ffS2
          apply mem_replaceChar_of_ne _ (by decide)
          have hm : lowerChar x ∈ lower (strip s) := mem_lower (mem_stripBy_of_not hxs hx)
          rw [hd] at hm
          clear hs h
          generalize lower (strip s) = l at hm
          induction l with
          | nil => simp at hm
          | cons y ys ih =>
            unfold replaceChar
            rcases List.mem_cons.mp hm with rfl | h'
            · simp
            · split
              · simp
              · exact List.mem_cons_of_mem _ (ih h')
        · exact ⟨_, mem_ffS2 hxs hx hd⟩
      obtain ⟨y, hy⟩ := this
      cases h2 : ffS2 s with
      | nil => rw [h2] at hy; simp at hy
      | cons a as => rw [ffTail_cons]; exact ffTail'_total a as

theorem fortranFloat_blank (s : Str) (h : ∀ c ∈ s, isStrWs c = true) :
    fortranFloat s = .ok .blank := by
  have hs : strip s = [] := stripBy_all isStrWs s h
  cases hp : pyFloat s with
  | ok v =>
    exfalso
    have ha := pyFloat_ok_alpha hp
    cases ht : stripBy isNumWs s with
    | nil =>
      have := pyFloat_of_strip ht (by simp)
      rw [hp, show parseDecimal [] = none by decide] at this
      cases this
    | cons x xs =>
      have hx : x ∈ stripBy isNumWs s := by rw [ht]; simp
      have h1 := ha x hx
      have h2 := h x (mem_of_mem_stripBy hx)
      have h3 : isNumWs x = false := stripBy_head isNumWs s x xs ht
      unfold isStrWs at h2
      rw [h3] at h2
      simp only [Bool.false_or, Bool.or_eq_true, decide_eq_true_eq] at h2
      rcases h2 with ((rfl | rfl) | rfl) | rfl <;> revert h1 <;> decide
  | error e =>
    rw [fortranFloat_err hp, hs]; rfl

theorem fortranFloat_bad (s : Str) (c : Char) (hc : c ∈ s)
    (hws : isStrWs c = false) (hbad : floatAlpha c = false) :
    fortranFloat s = .ok (.val .nan) := by
  have hnw := isNumWs_of_isStrWs_false hws
  have h1 := pyFloat_bad hc hnw hbad
  rw [fortranFloat_err h1, strip_ne_nil hc hws]
  simp only [Bool.false_eq_true, if_false]
  -- the lower-cased bad character
  have hbad' : floatAlpha (lowerChar c) = false := by rw [floatAlpha_lowerChar]; exact hbad
  have hws' : isNumWs (lowerChar c) = false := by rw [isNumWs_lowerChar]; exact hnw
  have hd : lowerChar c ≠ 'd' := by
    intro e; rw [e] at hbad'; revert hbad'; decide
  have hm : lowerChar c ∈ ffS2 s := mem_ffS2 hc hws hd
  generalize lowerChar c = c' at hbad' hws' hm
  cases h2 : ffS2 s with
  | nil => rw [h2] at hm; simp at hm
  | cons a as =>
    rw [h2] at hm
    rw [ffTail_cons]
    have key : ∀ (x : Char) (t : Str), c' ≠ x → c' ∈ a :: replaceChar x t as := by
      intro x t hx
      rcases List.mem_cons.mp hm with rfl | h'
      · simp
      · exact List.mem_cons_of_mem _ (mem_replaceChar_of_ne h' hx)
    apply ffTail'_nan
    · exact pyFloat_bad hm hws' hbad'
    · exact pyFloat_bad (key '-' _ (by intro e; rw [e] at hbad'; revert hbad'; decide)) hws' hbad'
    · exact pyFloat_bad (key '+' _ (by intro e; rw [e] at hbad'; revert hbad'; decide)) hws' hbad'


/-! ### `fortran_int` -/

theorem isStrWs_mem {c : Char} (h : isStrWs c = true) :
    c ∈ [' ','\t','\n','\x0b','\x0c','\r','\x1c','\x1d','\x1e','\x1f'] := by
  unfold isStrWs isNumWs at h
  simp only [Bool.or_eq_true, decide_eq_true_eq, or_assoc] at h
  simp only [List.mem_cons, List.not_mem_nil, or_false]
  exact h

theorem isStrWs_elim {c : Char} (h : isStrWs c = true) {P : Char → Prop}
    (hP : ∀ d ∈ [' ','\t','\n','\x0b','\x0c','\r','\x1c','\x1d','\x1e','\x1f'], P d) : P c :=
  hP c (isStrWs_mem h)

theorem intAlpha_digit {c : Char} (h : isDigit c = true) : intAlpha c = true :=
  isDigit_elim h (P := fun d => intAlpha d = true) (by decide)

/-- `int()` after the surrounding whitespace has been removed -/
def pyIntCore (t : Str) : Except Exc Int :=
  if (takeSign t).2.isEmpty then .error .valueError
  else if !(underscoresOk '\x00' (takeSign t).2) then .error .valueError
  else
    if (removeUnderscores (takeSign t).2).isEmpty || !((removeUnderscores (takeSign t).2).all isDigit)
    then .error .valueError
    else .ok (if (takeSign t).1 then -(digitsVal (removeUnderscores (takeSign t).2) : Int)
              else (digitsVal (removeUnderscores (takeSign t).2) : Int))

theorem pyInt_eq (s : Str) : pyInt s = pyIntCore (stripBy isNumWs s) := rfl

theorem pyIntCore_error {t : Str} {e : Exc} (h : pyIntCore t = .error e) : e = .valueError := by
  unfold pyIntCore at h
  split at h
  · cases h; rfl
  · split at h
    · cases h; rfl
    · split at h
      · cases h; rfl
      · cases h

theorem pyInt_error {s : Str} {e : Exc} (h : pyInt s = .error e) : e = .valueError :=
  pyIntCore_error (by rw [← pyInt_eq]; exact h)

theorem pyIntCore_ok_alpha {t : Str} {v : Int} (h : pyIntCore t = .ok v) :
    ∀ c ∈ t, intAlpha c = true := by
  unfold pyIntCore at h
  split at h
  · cases h
  · split at h
    · cases h
    · split at h
      · cases h
      · rename_i hc
        simp only [Bool.or_eq_true, Bool.not_eq_true', not_or, Bool.not_eq_true,
          Bool.not_eq_false] at hc
        have hall := List.all_eq_true.mp hc.2
        have hd : ∀ c ∈ (takeSign t).2, intAlpha c = true := by
          intro c hc
          by_cases hcu : c = '_'
          · subst hcu; decide
          · exact intAlpha_digit (hall c (mem_removeUnderscores hc hcu))
        intro c hct
        rcases takeSign_cases t with ⟨h1, t', rfl⟩ | ⟨h1, t', rfl⟩ | ⟨h1, _⟩
        · rw [h1] at hd
          rcases List.mem_cons.mp hct with rfl | h'
          · decide
          · exact hd c (by simpa using h')
        · rw [h1] at hd
          rcases List.mem_cons.mp hct with rfl | h'
          · decide
          · exact hd c (by simpa using h')
        · rw [h1] at hd
          exact hd c hct

theorem pyInt_bad {s : Str} {c : Char} (hc : c ∈ s) (hws : isNumWs c = false)
    (hbad : intAlpha c = false) : pyInt s = .error .valueError := by
  cases h : pyInt s with
  | ok v =>
    rw [pyInt_eq] at h
    have := pyIntCore_ok_alpha h c (mem_stripBy_of_not hc hws)
    rw [hbad] at this; cases this
  | error e => rw [pyInt_error h]

theorem fortranInt_ok {s : Str} {v : Int} (h : pyInt s = .ok v) :
    fortranInt s = .ok (.val (some v)) := by
  unfold fortranInt; rw [h]

theorem fortranInt_err {s : Str} {e : Exc} (h : pyInt s = .error e) :
    fortranInt s = if (strip s).isEmpty then .ok .blank else
      match pyInt (replaceChar ' ' [] (strip s)) with
      | .ok v => .ok (.val (some v))
      | .error _ => .ok (.val none) := by
  have := pyInt_error h; subst this
  unfold fortranInt; rw [h]
  rfl

theorem fortranInt_total (s : Str) : ∃ o, fortranInt s = .ok o := by
  cases h : pyInt s with
  | ok v => exact ⟨_, fortranInt_ok h⟩
  | error e =>
    rw [fortranInt_err h]
    split
    · exact ⟨_, rfl⟩
    · split <;> exact ⟨_, rfl⟩

theorem fortranInt_blank (s : Str) (h : ∀ c ∈ s, isStrWs c = true) :
    fortranInt s = .ok .blank := by
  have hs : strip s = [] := stripBy_all isStrWs s h
  cases hp : pyInt s with
  | ok v =>
    exfalso
    rw [pyInt_eq] at hp
    have ha := pyIntCore_ok_alpha hp
    cases ht : stripBy isNumWs s with
    | nil =>
      rw [ht, show pyIntCore [] = .error .valueError by decide] at hp
      cases hp
    | cons x xs =>
      have hx : x ∈ stripBy isNumWs s := by rw [ht]; simp
      have h1 := ha x hx
      have h2 := h x (mem_of_mem_stripBy hx)
      have : intAlpha x = false :=
        isStrWs_elim h2 (P := fun d => intAlpha d = false) (by decide)
      rw [this] at h1; cases h1
  | error e =>
    rw [fortranInt_err hp, hs]; rfl

theorem fortranInt_bad (s : Str) (c : Char) (hc : c ∈ s)
    (hws : isStrWs c = false) (hbad : intAlpha c = false) :
    fortranInt s = .ok (.val none) := by
  have hnw := isNumWs_of_isStrWs_false hws
  rw [fortranInt_err (pyInt_bad hc hnw hbad), strip_ne_nil hc hws]
  simp only [Bool.false_eq_true, if_false]
  have hm : c ∈ replaceChar ' ' [] (strip s) := by
    apply mem_replaceChar_of_ne (mem_stripBy_of_not hc hws)
    intro e; rw [e] at hws; revert hws; decide
  rw [pyInt_bad hm hnw hbad]

/-- stripping only removes blanks when every other character is unstrippable -/
theorem filter_stripBy {p : Char → Bool} {s : Str} (h : ∀ c ∈ s, c = ' ' ∨ p c = false) :
    (stripBy p s).filter (· != ' ') = s.filter (· != ' ') := by
  obtain ⟨a, b, hs, ha, hb⟩ := stripBy_decomp p s
  have hblank : ∀ (l : Str), (∀ c ∈ l, c ∈ s) → (∀ c ∈ l, p c = true) →
      l.filter (· != ' ') = [] := by
    intro l hl hp
    rw [List.filter_eq_nil_iff]
    intro c hc
    rcases h c (hl c hc) with rfl | h'
    · simp
    · rw [hp c hc] at h'; cases h'
  have e := congrArg (List.filter (· != ' ')) hs
  rw [List.filter_append, List.filter_append, hblank a, hblank b] at e
  · simpa using e.symm
  · intro c hc; rw [hs]; simp [hc]
  · exact hb
  · intro c hc; rw [hs]; simp [hc]
  · exact ha

theorem filter_blank_self {l : Str} (h : ∀ c ∈ l, c ≠ ' ') : l.filter (· != ' ') = l := by
  rw [List.filter_eq_self]; intro c hc; simpa using h c hc

theorem mem_of_filter_eq {s u : Str} (hs : s.filter (· != ' ') = u) {c : Char} (hc : c ∈ u) :
    c ∈ s := by
  rw [← hs] at hc; exact (List.mem_filter.mp hc).1

theorem blank_or_of_filter_eq {s u : Str} (hs : s.filter (· != ' ') = u) {c : Char} (hc : c ∈ s) :
    c = ' ' ∨ c ∈ u := by
  by_cases h : c = ' '
  · exact Or.inl h
  · right; rw [← hs]; exact List.mem_filter.mpr ⟨hc, by simpa using h⟩

theorem underscoresOk_digits {ds : Str} (hd : ∀ c ∈ ds, isDigit c = true) :
    ∀ prev, prev ≠ '_' → underscoresOk prev ds = true := by
  induction ds with
  | nil => intro prev hp; simpa [underscoresOk] using hp
  | cons x xs ih =>
    intro prev hp
    have hx : isDigit x = true := hd x (by simp)
    have hxu : x ≠ '_' := by intro e; rw [e] at hx; revert hx; decide
    unfold underscoresOk
    rw [if_neg hxu, ih (fun c hc => hd c (List.mem_cons_of_mem _ hc)) x hxu]
    simp [hx]

theorem removeUnderscores_digits {ds : Str} (hd : ∀ c ∈ ds, isDigit c = true) :
    removeUnderscores ds = ds := by
  unfold removeUnderscores
  rw [List.filter_eq_self]
  intro c hc
  have hx := hd c hc
  have : c ≠ '_' := by intro e; rw [e] at hx; revert hx; decide
  simpa using this

theorem digit_not_sign {ds : Str} (hd : ∀ c ∈ ds, isDigit c = true) :
    ∀ x r, ds = x :: r → x ≠ '-' ∧ x ≠ '+' := by
  intro x r h
  have hx := hd x (by rw [h]; simp)
  constructor <;> (intro e; rw [e] at hx; revert hx; decide)

theorem takeSign_renderInt (neg plus : Bool) {ds : Str} (hd : ∀ c ∈ ds, isDigit c = true) :
    takeSign (renderInt neg plus ds) = (neg, ds) := by
  unfold renderInt
  cases neg
  · cases plus
    · simpa using takeSign_nosign (digit_not_sign hd)
    · rfl
  · rfl

theorem pyIntCore_renderInt (neg plus : Bool) {ds : Str} (hne : ds ≠ [])
    (hd : ∀ c ∈ ds, isDigit c = true) :
    pyIntCore (renderInt neg plus ds) =
      .ok (if neg then -(digitsVal ds : Int) else digitsVal ds) := by
  unfold pyIntCore
  rw [takeSign_renderInt neg plus hd]
  simp only
  have h1 : ds.isEmpty = false := by cases ds with | nil => exact absurd rfl hne | cons _ _ => rfl
  have h2 : ds.all isDigit = true := List.all_eq_true.mpr hd
  rw [removeUnderscores_digits hd, underscoresOk_digits hd _ (by decide), h1, h2]
  simp

theorem renderInt_mem {neg plus : Bool} {ds : Str} (hd : ∀ c ∈ ds, isDigit c = true) :
    ∀ c ∈ renderInt neg plus ds, isStrWs c = false ∧ c ≠ ' ' := by
  have hdig : ∀ c, isDigit c = true → isStrWs c = false ∧ c ≠ ' ' := fun c h =>
    isDigit_elim h (P := fun d => isStrWs d = false ∧ d ≠ ' ') (by decide)
  intro c hc
  unfold renderInt at hc
  rcases List.mem_append.mp hc with h | h
  · cases neg <;> cases plus <;> simp at h <;> subst h <;> decide
  · exact hdig c (hd c h)

theorem fortranInt_reads (neg plus : Bool) (ds : Str) (hd : ds ≠ []) (hdig : ∀ c ∈ ds, isDigit c = true)
    (s : Str) (hs : s.filter (· != ' ') = renderInt neg plus ds) :
    fortranInt s = .ok (.val (some (if neg then -(digitsVal ds : Int) else digitsVal ds))) := by
  have hr := renderInt_mem (neg := neg) (plus := plus) hdig
  -- every character of `s` is a blank or is not whitespace at all
  have hsw : ∀ c ∈ s, c = ' ' ∨ isStrWs c = false := fun c hc =>
    (blank_or_of_filter_eq hs hc).imp id (fun h => (hr c h).1)
  have hsn : ∀ c ∈ s, c = ' ' ∨ isNumWs c = false := fun c hc =>
    (hsw c hc).imp id isNumWs_of_isStrWs_false
  have hcore : pyInt (renderInt neg plus ds) = .ok (if neg then -(digitsVal ds : Int) else digitsVal ds) := by
    rw [pyInt_eq, stripBy_none (fun c hc => isNumWs_of_isStrWs_false (hr c hc).1)]
    exact pyIntCore_renderInt neg plus hd hdig
  cases h1 : pyInt s with
  | ok v =>
    rw [fortranInt_ok h1]
    rw [pyInt_eq] at h1
    have ha := pyIntCore_ok_alpha h1
    have ht : stripBy isNumWs s = renderInt neg plus ds := by
      rw [← hs, ← filter_stripBy hsn, filter_blank_self]
      intro c hc e
      have := ha c hc
      rw [e] at this; revert this; decide
    rw [ht, pyIntCore_renderInt neg plus hd hdig] at h1
    cases h1; rfl
  | error e =>
    rw [fortranInt_err h1]
    obtain ⟨x, xs, hx⟩ : ∃ x xs, ds = x :: xs := by
      cases ds with
      | nil => exact absurd rfl hd
      | cons x xs => exact ⟨x, xs, rfl⟩
    have hxr : x ∈ renderInt neg plus ds := by
      unfold renderInt; rw [hx]; simp
    rw [strip_ne_nil (mem_of_filter_eq hs hxr) (hr x hxr).1]
    simp only [Bool.false_eq_true, if_false]
    have : replaceChar ' ' [] (strip s) = renderInt neg plus ds := by
      rw [replaceChar_nil_eq_filter]
      unfold strip
      rw [filter_stripBy hsw, hs]
    rw [this, hcore]


/-! ### printed reals -/

/-- digits, the point and the signs -/
def plainChar (c : Char) : Bool := isDigit c || c == '.' || c == '+' || c == '-'

theorem plainChar_mem {c : Char} (h : plainChar c = true) :
    c ∈ ['0','1','2','3','4','5','6','7','8','9','.','+','-'] := by
  unfold plainChar at h
  simp only [Bool.or_eq_true, beq_iff_eq] at h
  rcases h with ((h | rfl) | rfl) | rfl
  · exact List.mem_append_left ['.','+','-'] (isDigit_mem h)
  · decide
  · decide
  · decide

theorem plainChar_elim {c : Char} (h : plainChar c = true) {P : Char → Prop}
    (hP : ∀ d ∈ ['0','1','2','3','4','5','6','7','8','9','.','+','-'], P d) : P c :=
  hP c (plainChar_mem h)

theorem plainChar_digit {c : Char} (h : isDigit c = true) : plainChar c = true := by
  unfold plainChar; simp [h]

theorem plainChar_facts {c : Char} (h : plainChar c = true) :
    lowerChar c = c ∧ c ≠ 'd' ∧ c ≠ 'e' ∧ isStrWs c = false ∧ isNumWs c = false ∧ c ≠ '_' ∧ c ≠ ' ' :=
  plainChar_elim h
    (P := fun c => lowerChar c = c ∧ c ≠ 'd' ∧ c ≠ 'e' ∧ isStrWs c = false ∧ isNumWs c = false ∧ c ≠ '_' ∧ c ≠ ' ')
    (by decide)

theorem digit_facts {c : Char} (h : isDigit c = true) :
    c ≠ '-' ∧ c ≠ '+' ∧ c ≠ '.' ∧ c ≠ 'i' ∧ c ≠ 'n' :=
  isDigit_elim h (P := fun c => c ≠ '-' ∧ c ≠ '+' ∧ c ≠ '.' ∧ c ≠ 'i' ∧ c ≠ 'n') (by decide)

theorem Sign_chars_plain (sg : Sign) : ∀ c ∈ sg.chars, plainChar c = true := by
  cases sg <;> simp [Sign.chars] <;> decide

theorem takeWhile_append_stop {p : Char → Bool} {ds rest : Str} (hd : ∀ c ∈ ds, p c = true)
    (hr : ∀ x r, rest = x :: r → p x = false) : (ds ++ rest).takeWhile p = ds := by
  have := span_append hd hr; rw [span_eq] at this; exact (Prod.mk.inj this).1

theorem dropWhile_append_stop {p : Char → Bool} {ds rest : Str} (hd : ∀ c ∈ ds, p c = true)
    (hr : ∀ x r, rest = x :: r → p x = false) : (ds ++ rest).dropWhile p = rest := by
  have := span_append hd hr; rw [span_eq] at this; exact (Prod.mk.inj this).2

theorem parseNum_of {neg : Bool} {s1 ip r1 fp r2 : Str} (h1 : s1.takeWhile isDigit = ip)
    (h2 : s1.dropWhile isDigit = r1) (h3 : fracPart r1 = (fp, r2))
    (hne : (ip.isEmpty && fp.isEmpty) = false) :
    parseNum neg s1 = match parseExp r2 with
      | some e => some (.fin neg (digitsVal (ip ++ fp)) (e - fp.length))
      | none => none := by
  unfold parseNum
  simp only [h1, h2, h3, hne]
  rfl

theorem parseBody_of_head {neg : Bool} {x : Char} {t : Str} (hx : isDigit x = true ∨ x = '.') :
    parseBody neg (x :: t) = parseNum neg (x :: t) := by
  have hl : lowerChar x = x := by
    rcases hx with h | rfl
    · exact lowerChar_digit h
    · decide
  have hi : x ≠ 'i' ∧ x ≠ 'n' := by
    rcases hx with h | rfl
    · exact ⟨(digit_facts h).2.2.2.1, (digit_facts h).2.2.2.2⟩
    · decide
  unfold parseBody
  have : lower (x :: t) = x :: lower t := by simp [lower, hl]
  rw [this]
  simp [hi.1, hi.2]

/-- the unsigned mantissa `ip [.] fp` followed by `rest` -/
theorem parseNum_um {neg : Bool} {ip fp rest : Str} {point : Bool}
    (hip : ∀ c ∈ ip, isDigit c = true) (hfp : ∀ c ∈ fp, isDigit c = true)
    (hne : ¬ (ip = [] ∧ fp = [])) (hpt : fp ≠ [] → point = true)
    (hrest : ∀ x t, rest = x :: t → isDigit x = false ∧ x ≠ '.') :
    parseNum neg (ip ++ ((if point then ['.'] else []) ++ (fp ++ rest))) =
      match parseExp rest with
      | some e => some (.fin neg (digitsVal (ip ++ fp)) (e - fp.length))
      | none => none := by
  have hr1 : ∀ x t, rest = x :: t → isDigit x = false := fun x t h => (hrest x t h).1
  cases point with
  | true =>
    simp only [if_true, List.cons_append, List.nil_append]
    apply parseNum_of (r1 := '.' :: (fp ++ rest))
    · exact takeWhile_append_stop hip (by intro x r h; cases h; decide)
    · exact dropWhile_append_stop hip (by intro x r h; cases h; decide)
    · rw [fracPart_dot, takeWhile_append_stop hfp hr1, dropWhile_append_stop hfp hr1]
    · cases ip with
      | nil =>
        cases fp with
        | nil => exact absurd ⟨rfl, rfl⟩ hne
        | cons _ _ => rfl
      | cons _ _ => rfl
  | false =>
    have hfp0 : fp = [] := by
      cases fp with
      | nil => rfl
      | cons a b => have := hpt (by simp); cases this
    subst hfp0
    simp only [Bool.false_eq_true, if_false, List.nil_append]
    apply parseNum_of (r1 := rest)
    · exact takeWhile_append_stop hip hr1
    · exact dropWhile_append_stop hip hr1
    · exact fracPart_other (fun x t h => (hrest x t h).2)
    · cases ip with
      | nil => exact absurd ⟨rfl, rfl⟩ hne
      | cons _ _ => rfl

theorem um_cons {ip fp : Str} {point : Bool}
    (hip : ∀ c ∈ ip, isDigit c = true) (hfp : ∀ c ∈ fp, isDigit c = true)
    (hne : ¬ (ip = [] ∧ fp = [])) :
    ∃ x t, ip ++ ((if point then ['.'] else []) ++ fp) = x :: t ∧
      (isDigit x = true ∨ x = '.') ∧ ∀ c ∈ t, isDigit c = true ∨ c = '.' := by
  have hall : ∀ c ∈ ip ++ ((if point then ['.'] else []) ++ fp), isDigit c = true ∨ c = '.' := by
    intro c hc
    rcases List.mem_append.mp hc with h | h
    · exact Or.inl (hip c h)
    · rcases List.mem_append.mp h with h | h
      · cases point <;> simp at h
        exact Or.inr h
      · exact Or.inl (hfp c h)
  cases hum : ip ++ ((if point then ['.'] else []) ++ fp) with
  | nil =>
    simp only [List.append_eq_nil_iff] at hum
    exact absurd ⟨hum.1, hum.2.2⟩ hne
  | cons x t =>
    rw [hum] at hall
    exact ⟨x, t, rfl, hall x (by simp), fun c hc => hall c (List.mem_cons_of_mem _ hc)⟩

def FReal.mant (r : FReal) : Str :=
  r.sign.chars ++ (r.ip ++ ((if r.point then ['.'] else []) ++ r.fp))

theorem render_eq (r : FReal) : r.render = r.mant ++ r.ex.chars := by
  simp [FReal.render, FReal.mant, List.append_assoc]

theorem mant_cons (r : FReal) (hr : r.WF) :
    ∃ h m', r.mant = h :: m' ∧ ∀ c ∈ m', isDigit c = true ∨ c = '.' := by
  obtain ⟨sg, ip, point, fp, ex⟩ := r
  obtain ⟨hip, hfp, hne, hpt, _⟩ := hr
  simp only at hip hfp hne hpt
  obtain ⟨x, t, hum, hx, ht⟩ := um_cons (point := point) hip hfp hne
  simp only [FReal.mant]
  rw [hum]
  cases sg with
  | none => exact ⟨x, t, rfl, ht⟩
  | plus =>
    refine ⟨'+', x :: t, rfl, ?_⟩
    intro c hc
    rcases List.mem_cons.mp hc with rfl | h
    · exact hx
    · exact ht c h
  | minus =>
    refine ⟨'-', x :: t, rfl, ?_⟩
    intro c hc
    rcases List.mem_cons.mp hc with rfl | h
    · exact hx
    · exact ht c h

theorem mant_plain (r : FReal) (hr : r.WF) : ∀ c ∈ r.mant, plainChar c = true := by
  obtain ⟨hip, hfp, _, _, _⟩ := hr
  intro c hc
  unfold FReal.mant at hc
  rcases List.mem_append.mp hc with h | h
  · exact Sign_chars_plain _ c h
  · rcases List.mem_append.mp h with h | h
    · exact plainChar_digit (hip c h)
    · rcases List.mem_append.mp h with h | h
      · cases hp : r.point <;> rw [hp] at h <;> simp at h
        subst h; decide
      · exact plainChar_digit (hfp c h)

/-- `strtod` on a printed mantissa followed by `rest` -/
theorem parseDecimal_mant (r : FReal) (hr : r.WF) (rest : Str)
    (hrest : ∀ x t, rest = x :: t → isDigit x = false ∧ x ≠ '.') :
    parseDecimal (r.mant ++ rest) =
      match parseExp rest with
      | some e => some (.fin (decide (r.sign = .minus)) (digitsVal (r.ip ++ r.fp)) (e - r.fp.length))
      | none => none := by
  obtain ⟨sg, ip, point, fp, ex⟩ := r
  obtain ⟨hip, hfp, hne, hpt, _⟩ := hr
  simp only at hip hfp hne hpt
  simp only [FReal.mant, List.append_assoc]
  obtain ⟨x, t, hum, hx, _⟩ := um_cons (point := point) hip hfp hne
  have hum' : ip ++ ((if point then ['.'] else []) ++ (fp ++ rest)) = x :: (t ++ rest) := by
    have := congrArg (· ++ rest) hum
    simpa [List.append_assoc] using this
  have hts : takeSign (sg.chars ++ (ip ++ ((if point then ['.'] else []) ++ (fp ++ rest)))) =
      (decide (sg = .minus), ip ++ ((if point then ['.'] else []) ++ (fp ++ rest))) := by
    cases sg with
    | none =>
      simp only [Sign.chars, List.nil_append]
      rw [hum']
      have : takeSign (x :: (t ++ rest)) = (false, x :: (t ++ rest)) := by
        apply takeSign_nosign
        intro y r h
        cases h
        rcases hx with h | rfl
        · exact ⟨(digit_facts h).1, (digit_facts h).2.1⟩
        · decide
      rw [this]; rfl
    | plus => rfl
    | minus => rfl
  rw [parseDecimal_eq, hts]
  simp only
  rw [hum', parseBody_of_head hx, ← hum']
  exact parseNum_um hip hfp hne hpt hrest

theorem takeSign_signDigits (sg : Sign) {ds : Str} (hd : ∀ c ∈ ds, isDigit c = true) :
    takeSign (sg.chars ++ ds) = (decide (sg = .minus), ds) := by
  cases sg with
  | none => simpa [Sign.chars] using takeSign_nosign (digit_not_sign hd)
  | plus => rfl
  | minus => rfl

theorem parseExp_letter {l : Char} (sg : Sign) {ds : Str} (hl : l = 'E' ∨ l = 'e')
    (hne : ds ≠ []) (hd : ∀ c ∈ ds, isDigit c = true) :
    parseExp (l :: (sg.chars ++ ds)) =
      some (if sg = .minus then -(digitsVal ds : Int) else digitsVal ds) := by
  rw [parseExp_cons]
  have : (decide (l = 'e') || decide (l = 'E')) = true := by
    rcases hl with rfl | rfl <;> decide
  rw [if_pos this]
  unfold parseExpTail
  rw [takeSign_signDigits sg hd]
  simp only
  rw [takeWhile_all hd, dropWhile_all hd]
  have h1 : ds.isEmpty = false := by cases ds with | nil => exact absurd rfl hne | cons _ _ => rfl
  simp [h1]

theorem parseExp_none {l : Char} (rest : Str) (hl : l ≠ 'e' ∧ l ≠ 'E') :
    parseExp (l :: rest) = none := by
  rw [parseExp_cons]
  simp [hl.1, hl.2]

/-- level 1: Python reads a blank-free printed real correctly or not at all -/
theorem parseDecimal_render (r : FReal) (hr : r.WF) :
    parseDecimal r.render = some r.value ∨ parseDecimal r.render = none := by
  have hex := hr.2.2.2.2
  rw [render_eq]
  cases he : r.ex with
  | absent =>
    left
    rw [parseDecimal_mant r hr _ (by intro x t h; simp [ExpForm.chars] at h)]
    simp [ExpForm.chars, parseExp, FReal.value, he, ExpForm.val]
  | letter l sg ds =>
    rw [he] at hex
    obtain ⟨hl, hne, hd⟩ := hex
    have hrest : ∀ x t, ExpForm.chars (.letter l sg ds) = x :: t → isDigit x = false ∧ x ≠ '.' := by
      intro x t h
      simp only [ExpForm.chars, List.cons_append, List.cons.injEq] at h
      rw [← h.1]
      rcases hl with rfl | rfl | rfl | rfl <;> decide
    rw [parseDecimal_mant r hr _ hrest]
    simp only [ExpForm.chars, List.cons_append]
    rcases hl with rfl | rfl | rfl | rfl
    · left
      rw [parseExp_letter sg (Or.inl rfl) hne hd]
      simp [FReal.value, he, ExpForm.val]
    · left
      rw [parseExp_letter sg (Or.inr rfl) hne hd]
      simp [FReal.value, he, ExpForm.val]
    · right; rw [parseExp_none _ (by decide)]
    · right; rw [parseExp_none _ (by decide)]
  | bare neg ds =>
    right
    have hrest : ∀ x t, ExpForm.chars (.bare neg ds) = x :: t → isDigit x = false ∧ x ≠ '.' := by
      intro x t h
      simp only [ExpForm.chars, List.cons.injEq] at h
      rw [← h.1]
      cases neg <;> decide
    rw [parseDecimal_mant r hr _ hrest]
    simp only [ExpForm.chars]
    rw [parseExp_none _ (by cases neg <;> decide)]


/-! ### the later levels of the ladder on a printed real -/

theorem plain_lower {l : Str} (h : ∀ c ∈ l, plainChar c = true) : lower l = l :=
  lower_fixed (fun c hc => (plainChar_facts (h c hc)).1)

theorem plain_no_d {l : Str} (h : ∀ c ∈ l, plainChar c = true) :
    replaceChar 'd' ['e'] l = l :=
  replaceChar_of_not_mem (fun hd => (plainChar_facts (h _ hd)).2.1 rfl)

theorem signDigits_plain (sg : Sign) {ds : Str} (hd : ∀ c ∈ ds, isDigit c = true) :
    ∀ c ∈ sg.chars ++ ds, plainChar c = true := by
  intro c hc
  rcases List.mem_append.mp hc with h | h
  · exact Sign_chars_plain sg c h
  · exact plainChar_digit (hd c h)

/-- the exponent part after `.lower().replace('d','e')` -/
def normEx : ExpForm → Str
  | .absent => []
  | .letter _ sg ds => 'e' :: (sg.chars ++ ds)
  | .bare neg ds => (if neg then '-' else '+') :: ds

theorem normEx_eq (ex : ExpForm) (hex : ex.WF) :
    replaceChar 'd' ['e'] (lower ex.chars) = normEx ex := by
  cases ex with
  | absent => rfl
  | letter l sg ds =>
    obtain ⟨hl, _, hd⟩ := hex
    have hp := signDigits_plain sg hd
    simp only [ExpForm.chars, normEx, List.cons_append]
    have : lower (l :: (sg.chars ++ ds)) = lowerChar l :: (sg.chars ++ ds) := by
      have := plain_lower hp
      simp only [lower] at this ⊢
      rw [List.map_cons, this]
    rw [this]
    unfold replaceChar
    rw [plain_no_d hp]
    rcases hl with rfl | rfl | rfl | rfl <;> rfl
  | bare neg ds =>
    obtain ⟨_, hd⟩ := hex
    have hp : ∀ c ∈ ExpForm.chars (.bare neg ds), plainChar c = true := by
      intro c hc
      simp only [ExpForm.chars] at hc
      rcases List.mem_cons.mp hc with rfl | h
      · cases neg <;> decide
      · exact plainChar_digit (hd c h)
    rw [plain_lower hp, plain_no_d hp]
    rfl

theorem exChars_facts (ex : ExpForm) (hex : ex.WF) :
    ∀ c ∈ ex.chars, isStrWs c = false ∧ c ≠ '_' := by
  have hplain : ∀ c, plainChar c = true → isStrWs c = false ∧ c ≠ '_' := fun c h =>
    ⟨(plainChar_facts h).2.2.2.1, (plainChar_facts h).2.2.2.2.2.1⟩
  intro c hc
  cases ex with
  | absent => simp [ExpForm.chars] at hc
  | letter l sg ds =>
    obtain ⟨hl, _, hd⟩ := hex
    simp only [ExpForm.chars, List.cons_append] at hc
    rcases List.mem_cons.mp hc with rfl | h
    · rcases hl with rfl | rfl | rfl | rfl <;> decide
    · exact hplain c (signDigits_plain sg hd c h)
  | bare neg ds =>
    obtain ⟨_, hd⟩ := hex
    simp only [ExpForm.chars] at hc
    rcases List.mem_cons.mp hc with rfl | h
    · cases neg <;> decide
    · exact hplain c (plainChar_digit (hd c h))

theorem render_facts (r : FReal) (hr : r.WF) :
    ∀ c ∈ r.render, isStrWs c = false ∧ c ≠ '_' := by
  intro c hc
  rw [render_eq] at hc
  rcases List.mem_append.mp hc with h | h
  · have := plainChar_facts (mant_plain r hr c h)
    exact ⟨this.2.2.2.1, this.2.2.2.2.2.1⟩
  · exact exChars_facts r.ex hr.2.2.2.2 c h

theorem ffS2_eq (r : FReal) (hr : r.WF) (s : Str) (hs : s.filter (· != ' ') = r.render) :
    ffS2 s = r.mant ++ normEx r.ex := by
  have hsw : ∀ c ∈ s, c = ' ' ∨ isStrWs c = false := fun c hc =>
    (blank_or_of_filter_eq hs hc).imp id (fun h => (render_facts r hr c h).1)
  have hm := mant_plain r hr
  unfold ffS2
  rw [replaceChar_nil_eq_filter, filter_replaceChar (by decide) (by decide), filter_lower]
  unfold strip
  rw [filter_stripBy hsw, hs, render_eq, lower_append, replaceChar_append, plain_lower hm,
    plain_no_d hm, normEx_eq r.ex hr.2.2.2.2]

/-- `float()` on a printed mantissa followed by a clean `rest` -/
theorem pyFloat_mant (r : FReal) (hr : r.WF) (rest : Str)
    (hclean : ∀ c ∈ rest, isNumWs c = false ∧ c ≠ '_')
    (hrest : ∀ x t, rest = x :: t → isDigit x = false ∧ x ≠ '.') :
    pyFloat (r.mant ++ rest) =
      match parseExp rest with
      | some e => .ok (.fin (decide (r.sign = .minus)) (digitsVal (r.ip ++ r.fp)) (e - r.fp.length))
      | none => .error .valueError := by
  have hall : ∀ c ∈ r.mant ++ rest, isNumWs c = false ∧ c ≠ '_' := by
    intro c hc
    rcases List.mem_append.mp hc with h | h
    · have := plainChar_facts (mant_plain r hr c h)
      exact ⟨this.2.2.2.2.1, this.2.2.2.2.2.1⟩
    · exact hclean c h
  rw [pyFloat_clean (fun c hc => (hall c hc).1) (fun h => (hall _ h).2 rfl),
    parseDecimal_mant r hr rest hrest]
  cases parseExp rest <;> rfl

theorem eDigits_clean (sg : Sign) {ds : Str} (hd : ∀ c ∈ ds, isDigit c = true) :
    ∀ c ∈ 'e' :: (sg.chars ++ ds), isNumWs c = false ∧ c ≠ '_' := by
  intro c hc
  rcases List.mem_cons.mp hc with rfl | h
  · decide
  · have := plainChar_facts (signDigits_plain sg hd c h)
    exact ⟨this.2.2.2.2.1, this.2.2.2.2.2.1⟩

theorem eDigits_head (sg : Sign) (ds : Str) :
    ∀ x t, 'e' :: (sg.chars ++ ds) = x :: t → isDigit x = false ∧ x ≠ '.' := by
  intro x t h; cases h; decide

/-- `float()` on mantissa + `e` + sign + digits -/
theorem pyFloat_mant_e (r : FReal) (hr : r.WF) (sg : Sign) {ds : Str} (hne : ds ≠ [])
    (hd : ∀ c ∈ ds, isDigit c = true) :
    pyFloat (r.mant ++ 'e' :: (sg.chars ++ ds)) =
      .ok (.fin (decide (r.sign = .minus)) (digitsVal (r.ip ++ r.fp))
        ((if sg = .minus then -(digitsVal ds : Int) else digitsVal ds) - r.fp.length)) := by
  rw [pyFloat_mant r hr _ (eDigits_clean sg hd) (eDigits_head sg ds),
    parseExp_letter sg (Or.inr rfl) hne hd]

/-- `float()` on mantissa + bare signed exponent fails -/
theorem pyFloat_mant_bare (r : FReal) (hr : r.WF) (neg : Bool) {ds : Str}
    (hd : ∀ c ∈ ds, isDigit c = true) :
    pyFloat (r.mant ++ (if neg then '-' else '+') :: ds) = .error .valueError := by
  rw [pyFloat_mant r hr]
  · rw [parseExp_none _ (by cases neg <;> decide)]
  · intro c hc
    rcases List.mem_cons.mp hc with rfl | h
    · cases neg <;> decide
    · have := plainChar_facts (plainChar_digit (hd c h))
      exact ⟨this.2.2.2.2.1, this.2.2.2.2.2.1⟩
  · intro x t h; cases h; cases neg <;> decide

theorem ffTail'_ok1 {h : Char} {tl : Str} {v : FVal} (h1 : pyFloat (h :: tl) = .ok v) :
    ffTail' h tl = .ok (.val v) := by
  unfold ffTail'; rw [h1]

theorem ffTail'_ok2 {h : Char} {tl : Str} {v : FVal} {e : Exc} (h1 : pyFloat (h :: tl) = .error e)
    (h2 : pyFloat (h :: replaceChar '-' ['e','-'] tl) = .ok v) :
    ffTail' h tl = .ok (.val v) := by
  unfold ffTail'; rw [h1]; simp only; rw [h2]

theorem ffTail'_ok3 {h : Char} {tl : Str} {v : FVal} {e e' : Exc} (h1 : pyFloat (h :: tl) = .error e)
    (h2 : pyFloat (h :: replaceChar '-' ['e','-'] tl) = .error e')
    (h3 : pyFloat (h :: replaceChar '+' ['e'] tl) = .ok v) :
    ffTail' h tl = .ok (.val v) := by
  unfold ffTail'; rw [h1]; simp only; rw [h2]; simp only; rw [h3]

theorem not_mem_of_digitOrPoint {l : Str} (h : ∀ c ∈ l, isDigit c = true ∨ c = '.') :
    '-' ∉ l ∧ '+' ∉ l := by
  constructor <;> intro hm <;> rcases h _ hm with hd | e
  · revert hd; decide
  · revert e; decide
  · revert hd; decide
  · revert e; decide

theorem not_mem_of_digits {l : Str} (h : ∀ c ∈ l, isDigit c = true) : '-' ∉ l ∧ '+' ∉ l :=
  not_mem_of_digitOrPoint (fun c hc => Or.inl (h c hc))

theorem ffTail'_value (r : FReal) (hr : r.WF) (h : Char) (m' : Str) (hm : r.mant = h :: m')
    (hm' : ∀ c ∈ m', isDigit c = true ∨ c = '.') :
    ffTail' h (m' ++ normEx r.ex) = .ok (.val r.value) := by
  have e : ∀ X, h :: (m' ++ X) = r.mant ++ X := by intro X; rw [hm]; rfl
  have hex := hr.2.2.2.2
  have hnm := not_mem_of_digitOrPoint hm'
  cases he : r.ex with
  | absent =>
    apply ffTail'_ok1
    rw [e, pyFloat_mant r hr _ (by simp [normEx]) (by simp [normEx])]
    simp [normEx, parseExp, FReal.value, he, ExpForm.val]
  | letter l sg ds =>
    rw [he] at hex
    obtain ⟨_, hne, hd⟩ := hex
    apply ffTail'_ok1
    simp only [normEx]
    rw [e, pyFloat_mant_e r hr sg hne hd]
    simp [FReal.value, he, ExpForm.val]
  | bare neg ds =>
    rw [he] at hex
    obtain ⟨hne, hd⟩ := hex
    have hnd := not_mem_of_digits hd
    simp only [normEx]
    have h1 : pyFloat (h :: (m' ++ (if neg then '-' else '+') :: ds)) = .error .valueError := by
      rw [e]; exact pyFloat_mant_bare r hr neg hd
    cases neg with
    | true =>
      apply ffTail'_ok2 h1
      have : replaceChar '-' ['e','-'] (m' ++ '-' :: ds) = m' ++ 'e' :: (Sign.minus.chars ++ ds) := by
        rw [replaceChar_append, replaceChar_of_not_mem hnm.1]
        unfold replaceChar
        rw [if_pos rfl, replaceChar_of_not_mem hnd.1]
        rfl
      simp only [if_true]
      rw [this, e, pyFloat_mant_e r hr .minus hne hd]
      simp [FReal.value, he, ExpForm.val]
    | false =>
      simp only [Bool.false_eq_true, if_false] at h1 ⊢
      have h2 : replaceChar '-' ['e','-'] (m' ++ '+' :: ds) = m' ++ '+' :: ds := by
        apply replaceChar_of_not_mem
        intro hmem
        rcases List.mem_append.mp hmem with h' | h'
        · exact hnm.1 h'
        · rcases List.mem_cons.mp h' with h'' | h''
          · revert h''; decide
          · exact hnd.1 h''
      apply ffTail'_ok3 h1 (by rw [h2]; exact h1)
      have : replaceChar '+' ['e'] (m' ++ '+' :: ds) = m' ++ 'e' :: (Sign.none.chars ++ ds) := by
        rw [replaceChar_append, replaceChar_of_not_mem hnm.2]
        unfold replaceChar
        rw [if_pos rfl, replaceChar_of_not_mem hnd.2]
        rfl
      rw [this, e, pyFloat_mant_e r hr .none hne hd]
      simp [FReal.value, he, ExpForm.val]

theorem fortranFloat_reads (r : FReal) (hr : r.WF) (s : Str)
    (hs : s.filter (· != ' ') = r.render) :
    fortranFloat s = .ok (.val r.value) := by
  have hrw := render_facts r hr
  have hsn : ∀ c ∈ s, c = ' ' ∨ isNumWs c = false := fun c hc =>
    (blank_or_of_filter_eq hs hc).imp id (fun h => isNumWs_of_isStrWs_false (hrw c h).1)
  cases h1 : pyFloat s with
  | ok v =>
    rw [fortranFloat_ok h1]
    have ha := pyFloat_ok_alpha h1
    have ht : stripBy isNumWs s = r.render := by
      rw [← hs, ← filter_stripBy hsn, filter_blank_self]
      intro c hc e
      have := ha c hc
      rw [e] at this; revert this; decide
    have := pyFloat_of_strip ht (fun h => (hrw _ h).2 rfl)
    rw [h1] at this
    rcases parseDecimal_render r hr with hp | hp <;> rw [hp] at this <;> cases this
    rfl
  | error e =>
    rw [fortranFloat_err h1]
    obtain ⟨h, m', hm, hm'⟩ := mant_cons r hr
    have hhr : h ∈ r.render := by rw [render_eq, hm]; simp
    rw [strip_ne_nil (mem_of_filter_eq hs hhr) (hrw h hhr).1]
    simp only [Bool.false_eq_true, if_false]
    rw [ffS2_eq r hr s hs, hm]
    simp only [List.cons_append]
    rw [ffTail_cons]
    exact ffTail'_value r hr h m' hm hm'

end Proofs
