/-
  Proofs for C16 (core Lean only).  Statements are re-exported in Props/C16.lean.
-/
import PyTough.Model.Fortran
import PyTough.Proofs.StrLemmas
namespace Proofs
open Py Model

/-- characters that can occur in text accepted by `float()` (besides whitespace) -/
def floatAlpha (c : Char) : Bool :=
  ['0','1','2','3','4','5','6','7','8','9','+','-','.','_','e','d','i','n','f','t','y','a'].contains (lowerChar c)

/-- characters that can occur in text accepted by `int()` (besides whitespace) -/
def intAlpha (c : Char) : Bool :=
  ['0','1','2','3','4','5','6','7','8','9','+','-','_'].contains c

inductive Sign where | none | plus | minus
  deriving DecidableEq, Repr

def Sign.chars : Sign → Str
  | .none => [] | .plus => ['+'] | .minus => ['-']

/-- the exponent part of a printed real -/
inductive ExpForm where
  | absent
  | letter (l : Char) (sg : Sign) (ds : Str)   -- `E+05`, `D-05`, `e05`
  | bare (neg : Bool) (ds : Str)               -- `+100`, `-100`: the letter dropped
  deriving Repr

structure FReal where
  sign : Sign
  ip : Str          -- integer digits
  point : Bool
  fp : Str          -- fraction digits
  ex : ExpForm
  deriving Repr

def ExpForm.chars : ExpForm → Str
  | .absent => []
  | .letter l sg ds => l :: sg.chars ++ ds
  | .bare neg ds => (if neg then '-' else '+') :: ds

def ExpForm.val : ExpForm → Int
  | .absent => 0
  | .letter _ sg ds => if sg = .minus then -(digitsVal ds : Int) else digitsVal ds
  | .bare neg ds => if neg then -(digitsVal ds : Int) else digitsVal ds

def ExpForm.WF : ExpForm → Prop
  | .absent => True
  | .letter l _ ds => (l = 'E' ∨ l = 'e' ∨ l = 'D' ∨ l = 'd') ∧ ds ≠ [] ∧ ∀ c ∈ ds, isDigit c = true
  | .bare _ ds => ds ≠ [] ∧ ∀ c ∈ ds, isDigit c = true

def FReal.render (r : FReal) : Str :=
  r.sign.chars ++ r.ip ++ (if r.point then ['.'] else []) ++ r.fp ++ r.ex.chars

/-- the exact decimal printed -/
def FReal.value (r : FReal) : FVal :=
  .fin (r.sign = .minus) (digitsVal (r.ip ++ r.fp)) (r.ex.val - r.fp.length)

def FReal.WF (r : FReal) : Prop :=
  (∀ c ∈ r.ip, isDigit c = true) ∧ (∀ c ∈ r.fp, isDigit c = true) ∧
  ¬ (r.ip = [] ∧ r.fp = []) ∧ (r.fp ≠ [] → r.point = true) ∧ r.ex.WF

def renderInt (neg plus : Bool) (ds : Str) : Str :=
  (if neg then ['-'] else if plus then ['+'] else []) ++ ds

-- non-vacuity: a concrete printed real meets WF
example : (FReal.mk .minus ['1'] true ['0'] (.bare true ['1','0','0'])).WF := by
  refine ⟨?_, ?_, ?_, ?_, ?_, ?_⟩ <;> simp [ExpForm.WF, isDigit] <;> decide

theorem fortranFloat_total (s : Str) : ∃ o, fortranFloat s = .ok o := by
  sorry

theorem fortranInt_total (s : Str) : ∃ o, fortranInt s = .ok o := by
  sorry

theorem fortranFloat_blank (s : Str) (h : ∀ c ∈ s, isStrWs c = true) :
    fortranFloat s = .ok .blank := by
  sorry

theorem fortranInt_blank (s : Str) (h : ∀ c ∈ s, isStrWs c = true) :
    fortranInt s = .ok .blank := by
  sorry

theorem fortranFloat_bad (s : Str) (c : Char) (hc : c ∈ s)
    (hws : isStrWs c = false) (hbad : floatAlpha c = false) :
    fortranFloat s = .ok (.val .nan) := by
  sorry

theorem fortranInt_bad (s : Str) (c : Char) (hc : c ∈ s)
    (hws : isStrWs c = false) (hbad : intAlpha c = false) :
    fortranInt s = .ok (.val none) := by
  sorry

theorem fortranFloat_reads (r : FReal) (hr : r.WF) (s : Str)
    (hs : s.filter (· != ' ') = r.render) :
    fortranFloat s = .ok (.val r.value) := by
  sorry

theorem fortranInt_reads (neg plus : Bool) (ds : Str) (hd : ds ≠ []) (hdig : ∀ c ∈ ds, isDigit c = true)
    (s : Str) (hs : s.filter (· != ' ') = renderInt neg plus ds) :
    fortranInt s = .ok (.val (some (if neg then -(digitsVal ds : Int) else digitsVal ds))) := by
  sorry

end Proofs
