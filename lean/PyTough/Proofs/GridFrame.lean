/-
  The invariant split into components, each with a frame lemma saying which parts of the
  state it depends on.  An operation's proof then only re-establishes what it touches.
-/
import PyTough.Proofs.GridBasics
namespace Proofs.Grid
open Py Model Model.Grid Model.Grid.World

structure RockInv (w : World) : Prop where
  rl_lt : ∀ r ∈ w.rocktypelist, r < w.rocks.length
  rl_nodup : w.rocktypelist.Nodup
  rd_sound : ∀ n r, dget w.rocktype n = some r → r ∈ w.rocktypelist ∧ w.rname r = n
  rd_complete : ∀ r ∈ w.rocktypelist, dget w.rocktype (w.rname r) = some r

structure BlockInv (w : World) : Prop where
  bl_lt : ∀ b ∈ w.blocklist, b < w.blks.length
  bl_nodup : w.blocklist.Nodup
  bd_sound : ∀ n b, dget w.block n = some b → b ∈ w.blocklist ∧ w.bname b = n
  bd_complete : ∀ b ∈ w.blocklist, dget w.block (w.bname b) = some b

structure ConInv (w : World) : Prop where
  cl_lt : ∀ c ∈ w.connectionlist, c < w.cons.length
  cl_nodup : w.connectionlist.Nodup
  cd_sound : ∀ k c, dget w.connection k = some c → c ∈ w.connectionlist ∧ w.ckey c = k
  cd_complete : ∀ c ∈ w.connectionlist, dget w.connection (w.ckey c) = some c
  c_ends : ∀ c ∈ w.connectionlist,
    (w.cn c).b0 ∈ w.blocklist ∧ (w.cn c).b1 ∈ w.blocklist ∧ (w.cn c).b0 ≠ (w.cn c).b1

/-- every block's rock type is registered -/
def RockLink (w : World) : Prop := ∀ b ∈ w.blocklist, (w.bk b).rock ∈ w.rocktypelist

structure ConnLink (w : World) : Prop where
  conn_nodup : ∀ b ∈ w.blocklist, (w.bk b).conn.Nodup
  conn_iff : ∀ b ∈ w.blocklist, ∀ k, k ∈ (w.bk b).conn ↔
    ∃ c ∈ w.connectionlist, w.ckey c = k ∧ ((w.cn c).b0 = b ∨ (w.cn c).b1 = b)

theorem inv_iff (w : World) : Grid.Inv w ↔ RockInv w ∧ BlockInv w ∧ ConInv w ∧ RockLink w ∧ ConnLink w := by
  constructor
  · intro h
    exact ⟨⟨h.rl_lt, h.rl_nodup, h.rd_sound, h.rd_complete⟩, ⟨h.bl_lt, h.bl_nodup, h.bd_sound, h.bd_complete⟩,
           ⟨h.cl_lt, h.cl_nodup, h.cd_sound, h.cd_complete, h.c_ends⟩, h.b_rock, ⟨h.conn_nodup, h.conn_iff⟩⟩
  · rintro ⟨r, b, c, rl, cl⟩
    exact ⟨r.rl_lt, b.bl_lt, c.cl_lt, r.rl_nodup, r.rd_sound, r.rd_complete, b.bl_nodup, b.bd_sound, b.bd_complete, rl,
           c.cl_nodup, c.cd_sound, c.cd_complete, c.c_ends, cl.conn_nodup, cl.conn_iff⟩

theorem _root_.Model.Grid.Inv.rockInv {w} (h : Grid.Inv w) : RockInv w := ((inv_iff w).mp h).1
theorem _root_.Model.Grid.Inv.blockInv {w} (h : Grid.Inv w) : BlockInv w := ((inv_iff w).mp h).2.1
theorem _root_.Model.Grid.Inv.conInv {w} (h : Grid.Inv w) : ConInv w := ((inv_iff w).mp h).2.2.1
theorem _root_.Model.Grid.Inv.rockLink {w} (h : Grid.Inv w) : RockLink w := ((inv_iff w).mp h).2.2.2.1
theorem _root_.Model.Grid.Inv.connLink {w} (h : Grid.Inv w) : ConnLink w := ((inv_iff w).mp h).2.2.2.2
theorem Inv.mk' {w} (r : RockInv w) (b : BlockInv w) (c : ConInv w) (rl : RockLink w) (cl : ConnLink w) : Grid.Inv w :=
  (inv_iff w).mpr ⟨r, b, c, rl, cl⟩

/-! ### consequences used everywhere -/

theorem BlockInv.name_inj {w} (h : BlockInv w) {b b' : Nat} (hb : b ∈ w.blocklist) (hb' : b' ∈ w.blocklist)
    (e : w.bname b = w.bname b') : b = b' := by
  have h1 := h.bd_complete b hb
  have h2 := h.bd_complete b' hb'
  rw [e, h2] at h1; exact (Option.some.inj h1).symm

theorem RockInv.name_inj {w} (h : RockInv w) {r r' : Nat} (hr : r ∈ w.rocktypelist) (hr' : r' ∈ w.rocktypelist)
    (e : w.rname r = w.rname r') : r = r' := by
  have h1 := h.rd_complete r hr
  have h2 := h.rd_complete r' hr'
  rw [e, h2] at h1; exact (Option.some.inj h1).symm

theorem ConInv.key_inj {w} (h : ConInv w) {c c' : Nat} (hc : c ∈ w.connectionlist) (hc' : c' ∈ w.connectionlist)
    (e : w.ckey c = w.ckey c') : c = c' := by
  have h1 := h.cd_complete c hc
  have h2 := h.cd_complete c' hc'
  rw [e, h2] at h1; exact (Option.some.inj h1).symm

theorem BlockInv.mem_iff {w} (h : BlockInv w) (b : Nat) : b ∈ w.blocklist ↔ ∃ n, dget w.block n = some b :=
  ⟨fun hb => ⟨_, h.bd_complete b hb⟩, fun ⟨n, hn⟩ => (h.bd_sound n b hn).1⟩

/-! ### frames -/

theorem RockInv.frame {w w' : World} (h : RockInv w) (hl : w'.rocktypelist = w.rocktypelist)
    (hd : w'.rocktype = w.rocktype) (hlen : w.rocks.length ≤ w'.rocks.length)
    (hn : ∀ r ∈ w.rocktypelist, w'.rname r = w.rname r) : RockInv w' := by
  refine ⟨?_, hl ▸ h.rl_nodup, ?_, ?_⟩
  · intro r hr; rw [hl] at hr; exact Nat.lt_of_lt_of_le (h.rl_lt r hr) hlen
  · intro n r hr; rw [hd] at hr; have := h.rd_sound n r hr
    rw [hl]; exact ⟨this.1, (hn r this.1).trans this.2⟩
  · intro r hr; rw [hl] at hr; rw [hd, hn r hr]; exact h.rd_complete r hr

theorem BlockInv.frame {w w' : World} (h : BlockInv w) (hl : w'.blocklist = w.blocklist)
    (hd : w'.block = w.block) (hlen : w.blks.length ≤ w'.blks.length)
    (hn : ∀ b ∈ w.blocklist, w'.bname b = w.bname b) : BlockInv w' := by
  refine ⟨?_, hl ▸ h.bl_nodup, ?_, ?_⟩
  · intro r hr; rw [hl] at hr; exact Nat.lt_of_lt_of_le (h.bl_lt r hr) hlen
  · intro n r hr; rw [hd] at hr; have := h.bd_sound n r hr
    rw [hl]; exact ⟨this.1, (hn r this.1).trans this.2⟩
  · intro r hr; rw [hl] at hr; rw [hd, hn r hr]; exact h.bd_complete r hr

theorem ckey_congr {w w' : World} {c : Nat} (hc : w'.cn c = w.cn c)
    (h0 : w'.bname (w.cn c).b0 = w.bname (w.cn c).b0) (h1 : w'.bname (w.cn c).b1 = w.bname (w.cn c).b1) :
    w'.ckey c = w.ckey c := by
  simp only [World.ckey, hc, h0, h1]

theorem ConInv.frame {w w' : World} (h : ConInv w) (hl : w'.connectionlist = w.connectionlist)
    (hd : w'.connection = w.connection) (hlen : w.cons.length ≤ w'.cons.length)
    (hb : ∀ c ∈ w.connectionlist, (w.cn c).b0 ∈ w'.blocklist ∧ (w.cn c).b1 ∈ w'.blocklist)
    (hc : ∀ c ∈ w.connectionlist, w'.cn c = w.cn c)
    (hn : ∀ b ∈ w.blocklist, w'.bname b = w.bname b) : ConInv w' := by
  have hk : ∀ c ∈ w.connectionlist, w'.ckey c = w.ckey c := fun c hcl =>
    ckey_congr (hc c hcl) (hn _ (h.c_ends c hcl).1) (hn _ (h.c_ends c hcl).2.1)
  refine ⟨?_, hl ▸ h.cl_nodup, ?_, ?_, ?_⟩
  · intro r hr; rw [hl] at hr; exact Nat.lt_of_lt_of_le (h.cl_lt r hr) hlen
  · intro n r hr; rw [hd] at hr; have := h.cd_sound n r hr
    rw [hl]; exact ⟨this.1, (hk r this.1).trans this.2⟩
  · intro r hr; rw [hl] at hr; rw [hd, hk r hr]; exact h.cd_complete r hr
  · intro c hcl; rw [hl] at hcl; rw [hc c hcl]
    have := h.c_ends c hcl
    exact ⟨(hb c hcl).1, (hb c hcl).2, this.2.2⟩

theorem RockLink.frame {w w' : World} (h : RockLink w) (hl : w'.blocklist = w.blocklist)
    (hr : ∀ r, r ∈ w.rocktypelist → r ∈ w'.rocktypelist)
    (hk : ∀ b ∈ w.blocklist, (w'.bk b).rock = (w.bk b).rock) : RockLink w' := by
  intro b hb; rw [hl] at hb; rw [hk b hb]; exact hr _ (h b hb)

theorem ConnLink.frame {w w' : World} (h : ConnLink w) (hci : ConInv w) (hl : w'.blocklist = w.blocklist)
    (hcl : w'.connectionlist = w.connectionlist)
    (hc : ∀ c ∈ w.connectionlist, w'.cn c = w.cn c)
    (hn : ∀ b ∈ w.blocklist, w'.bname b = w.bname b)
    (hk : ∀ b ∈ w.blocklist, (w'.bk b).conn = (w.bk b).conn) : ConnLink w' := by
  have hkey : ∀ c ∈ w.connectionlist, w'.ckey c = w.ckey c := fun c hc' =>
    ckey_congr (hc c hc') (hn _ (hci.c_ends c hc').1) (hn _ (hci.c_ends c hc').2.1)
  refine ⟨?_, ?_⟩
  · intro b hb; rw [hl] at hb; rw [hk b hb]; exact h.conn_nodup b hb
  · intro b hb k; rw [hl] at hb; rw [hk b hb, h.conn_iff b hb k, hcl]
    constructor
    · rintro ⟨c, hc', e, hb'⟩; exact ⟨c, hc', by rw [hkey c hc']; exact e, by rw [hc c hc']; exact hb'⟩
    · rintro ⟨c, hc', e, hb'⟩; exact ⟨c, hc', by rw [← hkey c hc']; exact e, by rw [← hc c hc']; exact hb'⟩

/-- versions for a block list that shrinks -/
theorem RockLink.frame_sub {w w' : World} (h : RockLink w) (hl : ∀ b ∈ w'.blocklist, b ∈ w.blocklist)
    (hr : ∀ r, r ∈ w.rocktypelist → r ∈ w'.rocktypelist)
    (hk : ∀ b ∈ w.blocklist, (w'.bk b).rock = (w.bk b).rock) : RockLink w' := by
  intro b hb; have hb' := hl b hb; rw [hk b hb']; exact hr _ (h b hb')

theorem ConnLink.frame_sub {w w' : World} (h : ConnLink w) (hci : ConInv w) (hl : ∀ b ∈ w'.blocklist, b ∈ w.blocklist)
    (hcl : w'.connectionlist = w.connectionlist)
    (hc : ∀ c ∈ w.connectionlist, w'.cn c = w.cn c)
    (hn : ∀ b ∈ w.blocklist, w'.bname b = w.bname b)
    (hk : ∀ b ∈ w.blocklist, (w'.bk b).conn = (w.bk b).conn) : ConnLink w' := by
  have hkey : ∀ c ∈ w.connectionlist, w'.ckey c = w.ckey c := fun c hc' =>
    ckey_congr (hc c hc') (hn _ (hci.c_ends c hc').1) (hn _ (hci.c_ends c hc').2.1)
  refine ⟨?_, ?_⟩
  · intro b hb; have hb' := hl b hb; rw [hk b hb']; exact h.conn_nodup b hb'
  · intro b hb k; have hb' := hl b hb; rw [hk b hb', h.conn_iff b hb' k, hcl]
    constructor
    · rintro ⟨c, hc', e, hb'⟩; exact ⟨c, hc', by rw [hkey c hc']; exact e, by rw [hc c hc']; exact hb'⟩
    · rintro ⟨c, hc', e, hb'⟩; exact ⟨c, hc', by rw [← hkey c hc']; exact e, by rw [← hc c hc']; exact hb'⟩

/-! ### reading the heap after a write -/

@[simp] theorem bk_setBlk (w : World) (b b' : Nat) (v : Blk) :
    (w.setBlk b v).bk b' = if b = b' ∧ b < w.blks.length then v else w.bk b' := by
  simp only [World.setBlk, World.bk]; exact getD_set ..

@[simp] theorem cn_setCon (w : World) (c c' : Nat) (v : Con) :
    (w.setCon c v).cn c' = if c = c' ∧ c < w.cons.length then v else w.cn c' := by
  simp only [World.setCon, World.cn]; exact getD_set ..

@[simp] theorem rk_setRock (w : World) (r r' : Nat) (v : Rock) :
    (w.setRock r v).rk r' = if r = r' ∧ r < w.rocks.length then v else w.rk r' := by
  simp only [World.setRock, World.rk]; exact getD_set ..

@[simp] theorem cn_setBlk (w : World) (b c : Nat) (v : Blk) : (w.setBlk b v).cn c = w.cn c := rfl
@[simp] theorem rk_setBlk (w : World) (b r : Nat) (v : Blk) : (w.setBlk b v).rk r = w.rk r := rfl
@[simp] theorem bk_setCon (w : World) (c b : Nat) (v : Con) : (w.setCon c v).bk b = w.bk b := rfl
@[simp] theorem rk_setCon (w : World) (c r : Nat) (v : Con) : (w.setCon c v).rk r = w.rk r := rfl
@[simp] theorem bk_setRock (w : World) (r b : Nat) (v : Rock) : (w.setRock r v).bk b = w.bk b := rfl
@[simp] theorem cn_setRock (w : World) (r c : Nat) (v : Rock) : (w.setRock r v).cn c = w.cn c := rfl

theorem bname_setBlk (w : World) (b b' : Nat) (v : Blk) :
    (w.setBlk b v).bname b' = if b = b' ∧ b < w.blks.length then v.name else w.bname b' := by
  simp only [World.bname, bk_setBlk]; split <;> rfl

/-- a write that keeps the name keeps all names -/
theorem bname_setBlk_same (w : World) (b b' : Nat) (v : Blk) (h : v.name = w.bname b) :
    (w.setBlk b v).bname b' = w.bname b' := by
  rw [bname_setBlk]; split
  · rename_i hh; rw [h, hh.1]
  · rfl

theorem ckey_setBlk_same (w : World) (b c : Nat) (v : Blk) (h : v.name = w.bname b) :
    (w.setBlk b v).ckey c = w.ckey c := by
  simp only [World.ckey, cn_setBlk, bname_setBlk_same w b _ v h]

@[simp] theorem setBlk_blks_length (w : World) (b : Nat) (v : Blk) : (w.setBlk b v).blks.length = w.blks.length := by
  simp [World.setBlk]
@[simp] theorem setCon_cons_length (w : World) (c : Nat) (v : Con) : (w.setCon c v).cons.length = w.cons.length := by
  simp [World.setCon]
@[simp] theorem setRock_rocks_length (w : World) (r : Nat) (v : Rock) : (w.setRock r v).rocks.length = w.rocks.length := by
  simp [World.setRock]

/-! ### allocation -/

theorem rk_newRock (w : World) (v : Rock) (r : Nat) :
    (w.newRock v).2.rk r = if r < w.rocks.length then w.rk r else if r = w.rocks.length then v else default := by
  simp only [World.newRock, World.rk]; exact getD_append_one ..

theorem bk_newBlk (w : World) (v : Blk) (b : Nat) :
    (w.newBlk v).2.bk b = if b < w.blks.length then w.bk b else if b = w.blks.length then v else default := by
  simp only [World.newBlk, World.bk]; exact getD_append_one ..

theorem cn_newCon (w : World) (v : Con) (c : Nat) :
    (w.newCon v).2.cn c = if c < w.cons.length then w.cn c else if c = w.cons.length then v else default := by
  simp only [World.newCon, World.cn]; exact getD_append_one ..

end Proofs.Grid
