/-
  C01 proofs, layer 3c: INCON, ELEME, CONNE — records that start with block names.
-/
import PyTough.Proofs.T2DataNames
import PyTough.Props.C02
namespace Proofs.T2
open Py Model Model.T2 Proofs Proofs.Incon
open Gen.Sections (Rec)

/-- a block name as it appears in files: five characters, something visible, no newline -/
structure GoodName (n : Str) : Prop where
  len : n.length = 5
  vis : isBlank (unfixBlockname n) = false
  nonl : '\n' ∉ unfixBlockname n

/-- an A5 name field -/
structure NameField (f : FieldSpec) : Prop where
  typ : f.typ = 's'
  prec : f.prec = none
  width : f.width = 5

theorem name_field_write {f : FieldSpec} (hf : NameField f) {u : Str} (hu : u.length = 5) (hnl : '\n' ∉ u) :
    writeField f (.str u) = .ok u ∧ canonV f (.str u) = .str u := by
  have := Props.C02.roundtrip_name_full_width .default hf.typ hf.prec u (by rw [hu, hf.width]) hnl
  refine ⟨this.1, ?_⟩
  unfold canonV reparse
  rw [this.1]
  simp only
  rw [hf.typ, this.2]
  rfl

/-- a record whose first field is a name: the written line starts with the name -/
theorem leading_name_line {r : Rec} {f : FieldSpec} {fs : List FieldSpec} (hfs : r.fs = f :: fs) (hf : NameField f)
    {u : Str} (hu : u.length = 5) (hnl : '\n' ∉ u) {vals : List Val} {l : Str}
    (h : writeValuesLine r (.str u :: vals) = .ok l) : ∃ tail, l = u ++ tail := by
  rw [writeValuesLine_eq] at h
  obtain ⟨rec, hw, rfl⟩ := writeLine_ok h
  obtain ⟨strs, h1, rfl⟩ := (writeValues_ok_iff _ _ _).mp hw
  rw [hfs] at h1
  simp only [List.zip_cons_cons] at h1
  cases h1 with
  | cons hab t =>
    rename_i s ss
    have : s = u := by
      have h2 := (name_field_write hf hu hnl).1
      simp only at hab
      rw [h2] at hab
      cases hab; rfl
    subst this
    exact ⟨ss.flatten ++ ['\n'], by simp [List.flatten]⟩

theorem line_not_blank {u tail : Str} (h : isBlank u = false) : isBlank (padstring (u ++ tail)) = false :=
  not_blank_padstring (not_blank_append h)

/-! ### INCON -/

structure InconShape (r1 r2 : Rec) (fn fq fa fp : FieldSpec) : Prop where
  fs1 : r1.fs = [fn, fq, fa, fp]
  name : NameField fn
  nq : NumericTyp fq.typ
  na : NumericTyp fa.typ
  np : NumericTyp fp.typ
  num2 : ∀ f ∈ r2.fs, NumericTyp f.typ

/-- what an initial-conditions entry reads back as -/
def canonIncon (r2 : Rec) (fq fa fp : FieldSpec) (e : Incon) : Incon :=
  let nseq := zeroNone (canonV fq (match e.seq with | some p => p.1 | none => .none))
  let nadd := zeroNone (canonV fa (match e.seq with | some p => p.2 | none => .none))
  { name := cycleName e.name, porosity := canonV fp e.porosity,
    vars := trimTrailingNones ((e.vars.zip r2.fs).map (fun vf => canonV vf.2 vf.1) ++ (r2.fs.drop e.vars.length).map (fun _ => Val.none)),
    seq := if nseq == .none then none else some (nseq, nadd) }

theorem incon_record_core {T : Tabs} {r1 r2 : Rec} {fn fq fa fp : FieldSpec}
    (hT1 : T.get c!"incon1" = .ok r1) (hT2 : T.get c!"incon2" = .ok r2) (hs : InconShape r1 r2 fn fq fa fp)
    (name : Str) (nseq nadd por : Val) (vars : List Val) (hn : GoodName name) {l1 l2 : Str}
    (h1 : writeValuesLine r1 [.str (unfixBlockname name), nseq, nadd, por] = .ok l1)
    (h2 : writeValuesLine r2 vars = .ok l2) :
    isBlank l1 = false ∧
      ∀ rest, readIncon .default T l1 (l2 :: rest) =
        .ok ({ name := cycleName name, porosity := canonV fp por,
               vars := trimTrailingNones ((vars.zip r2.fs).map (fun vf => canonV vf.2 vf.1) ++ (r2.fs.drop vars.length).map (fun _ => Val.none)),
               seq := if zeroNone (canonV fq nseq) == .none then none else some (zeroNone (canonV fq nseq), zeroNone (canonV fa nadd)) }, 1) := by
  have hu := unfix_length hn.len
  obtain ⟨tail, hl1⟩ := leading_name_line hs.fs1 hs.name hu hn.nonl h1
  refine ⟨by rw [hl1]; exact not_blank_append hn.vis, fun rest => ?_⟩
  have hvalid1 : ∀ f ∈ r1.fs, ValidTyp f.typ := by
    rw [hs.fs1]; intro f hf
    simp at hf
    rcases hf with rfl | rfl | rfl | rfl
    · unfold ValidTyp; rw [hs.name.typ]; simp
    · exact NumericTyp.valid hs.nq
    · exact NumericTyp.valid hs.na
    · exact NumericTyp.valid hs.np
  have hnum1 : ∀ f ∈ r1.fs.drop [Val.str (unfixBlockname name), nseq, nadd, por].length, NumericTyp f.typ := by
    rw [hs.fs1]; intro f hf; simp at hf
  have hrd1 := readValues_written r1 _ hvalid1 hnum1 h1 [] (by intro c hc; cases hc)
  rw [List.append_nil, hs.fs1] at hrd1
  simp only [List.zip_cons_cons, List.zip_nil_right, List.map_cons, List.map_nil, List.length_cons, List.length_nil,
    List.drop_succ_cons, List.drop_nil, List.append_nil, (name_field_write hs.name hu hn.nonl).2] at hrd1
  have hvalid2 : ∀ f ∈ r2.fs, ValidTyp f.typ := fun f hf => NumericTyp.valid (hs.num2 f hf)
  have hnum2 : ∀ f ∈ r2.fs.drop vars.length, NumericTyp f.typ := fun f hf => hs.num2 f (List.mem_of_mem_drop hf)
  have hrd2 := readValues_written r2 vars hvalid2 hnum2 h2 [] (by intro c hc; cases hc)
  rw [List.append_nil] at hrd2
  unfold readIncon
  simp only [hT1, hT2, bind, Except.bind, pure, Except.pure, hrd1, readline, hrd2, Val.str?]
  rw [(cycle_ok hn.len).1]

theorem incon_record {T : Tabs} {r1 r2 : Rec} {fn fq fa fp : FieldSpec}
    (hT1 : T.get c!"incon1" = .ok r1) (hT2 : T.get c!"incon2" = .ok r2) (hs : InconShape r1 r2 fn fq fa fp)
    (e : Incon) (hn : GoodName e.name) {ls : List Str} (hw : writeIncon T e = .ok ls) :
    ∃ l1 l2, ls = [l1, l2] ∧ isBlank l1 = false ∧
      ∀ rest, readIncon .default T l1 (l2 :: rest) = .ok (canonIncon r2 fq fa fp e, 1) := by
  unfold writeIncon at hw
  simp only [hT1, hT2, bind, Except.bind, pure, Except.pure] at hw
  cases hseq : e.seq with
  | none =>
    simp only [hseq] at hw
    cases h1 : writeValuesLine r1 [.str (unfixBlockname e.name), Val.none, Val.none, e.porosity] with
    | error err => rw [h1] at hw; cases hw
    | ok l1 =>
      rw [h1] at hw
      cases h2 : writeValuesLine r2 e.vars with
      | error err => rw [h2] at hw; cases hw
      | ok l2 =>
        rw [h2] at hw
        cases hw
        obtain ⟨hb, hrd⟩ := incon_record_core hT1 hT2 hs e.name .none .none e.porosity e.vars hn h1 h2
        refine ⟨l1, l2, rfl, hb, fun rest => ?_⟩
        rw [hrd rest]; simp only [canonIncon, hseq]
  | some p =>
    simp only [hseq] at hw
    cases h1 : writeValuesLine r1 [.str (unfixBlockname e.name), p.1, p.2, e.porosity] with
    | error err => rw [h1] at hw; cases hw
    | ok l1 =>
      rw [h1] at hw
      cases h2 : writeValuesLine r2 e.vars with
      | error err => rw [h2] at hw; cases hw
      | ok l2 =>
        rw [h2] at hw
        cases hw
        obtain ⟨hb, hrd⟩ := incon_record_core hT1 hT2 hs e.name p.1 p.2 e.porosity e.vars hn h1 h2
        refine ⟨l1, l2, rfl, hb, fun rest => ?_⟩
        rw [hrd rest]; simp only [canonIncon, hseq]

/-- **section_roundtrip_INCON**: the entries written (two lines each: name / sequence numbers / porosity, then
    up to four primary variables at 15 significant digits) read back one for one, in order, and the blank
    line that closes the section is consumed -/
theorem section_roundtrip_INCON {T : Tabs} {r1 r2 : Rec} {fn fq fa fp : FieldSpec}
    (hT1 : T.get c!"incon1" = .ok r1) (hT2 : T.get c!"incon2" = .ok r2) (hs : InconShape r1 r2 fn fq fa fp)
    (es : List Incon) (hn : ∀ e ∈ es, GoodName e.name)
    (hw : ∀ e ∈ es, ∃ ls, writeIncon T e = .ok ls)
    (d0 : List Incon) (rest : List Str) :
    readIncons .default T d0 ((es.map (fun e => match writeIncon T e with | .ok ls => ls | .error _ => [])).flatten ++ nl [] :: rest) =
      .ok ((es.map (canonIncon r2 fq fa fp)).foldl setIncon d0, rest) := by
  unfold readIncons
  have hrt : ∀ e ∈ es, RecordRT id (fun _ => false) (readIncon .default T)
      (fun e => match writeIncon T e with | .ok ls => ls | .error _ => []) (canonIncon r2 fq fa fp) e := by
    intro e he
    obtain ⟨ls, hls⟩ := hw e he
    obtain ⟨l1, l2, rfl, hb, hrd⟩ := incon_record hT1 hT2 hs e (hn e he) hls
    exact ⟨l1, [l2], by simp only [hls], hb, rfl, fun rest' => hrd rest'⟩
  rw [untilBlank_roundtrip id (fun _ => false) _ _ _ es hrt (nl []) (Or.inl isBlank_nl_nil) rest]
  rfl


/-! ### ELEME -/

structure BlockShape (r : Rec) (fN fq fa fR fv fh fp fx fy fz : FieldSpec) : Prop where
  names : r.names = [c!"name", c!"nseq", c!"nadd", c!"rocktype", c!"volume", c!"ahtx", c!"pmx", c!"x", c!"y", c!"z"]
  fs : r.fs = [fN, fq, fa, fR, fv, fh, fp, fx, fy, fz]
  name : NameField fN
  rock : NameField fR
  num : ∀ f ∈ [fq, fa, fv, fh, fp, fx, fy, fz], NumericTyp f.typ

/-- the values of a block line -/
def blockVals (b : Block) : List Val :=
  [.str (unfixBlockname b.name), b.nseq, b.nadd, .str b.rock, b.volume, b.ahtx, b.pmx] ++
    (match b.centre with | none => [Val.none, Val.none, Val.none] | some c => c)

/-- what a block reads back as -/
def canonBlock (fq fa fv fh fp fx fy fz : FieldSpec) (b : Block) : Block :=
  let c := match b.centre with | none => [Val.none, Val.none, Val.none] | some c => c
  let x := canonV fx (c.getD 0 .none)
  let y := canonV fy (c.getD 1 .none)
  let z := canonV fz (c.getD 2 .none)
  { name := cycleName b.name, nseq := zeroNone (canonV fq b.nseq), nadd := zeroNone (canonV fa b.nadd), rock := b.rock,
    volume := canonV fv b.volume, ahtx := canonV fh b.ahtx, pmx := canonV fp b.pmx,
    centre := if x != .none && y != .none && z != .none then some [x, y, z] else none }

/-- a block the ELEME writer and reader agree on: a good name, a five-character rock-type name that the
    grid knows, and (if any) a three-component centre -/
structure GoodBlock (rocks : List Rock) (b : Block) : Prop where
  name : GoodName b.name
  rockLen : b.rock.length = 5
  rockNl : '\n' ∉ b.rock
  rockKnown : rocks.any (·.name == .str b.rock) = true
  centre : ∀ c, b.centre = some c → c.length = 3

theorem writeBlock_eq {T : Tabs} {r : Rec} {fN fq fa fR fv fh fp fx fy fz : FieldSpec}
    (hT : T.get c!"blocks" = .ok r) (hs : BlockShape r fN fq fa fR fv fh fp fx fy fz) (b : Block) :
    writeBlock T b = writeValuesLine r (blockVals b) := by
  unfold writeBlock blockVals
  simp only [hT, bind, Except.bind]
  cases hc : b.centre with
  | none =>
    simp only [writeValueLine, hs.names, List.map_cons, List.map_nil, Dict.get, List.find?]
    rfl
  | some c => rfl

theorem block_record {T : Tabs} {r : Rec} {fN fq fa fR fv fh fp fx fy fz : FieldSpec}
    (hT : T.get c!"blocks" = .ok r) (hs : BlockShape r fN fq fa fR fv fh fp fx fy fz)
    (rocks : List Rock) (b : Block) (hb : GoodBlock rocks b) {l : Str} (hw : writeBlock T b = .ok l) :
    isBlank (padstring l) = false ∧
      ∀ rest, readBlock .default T rocks (padstring l) rest = .ok (canonBlock fq fa fv fh fp fx fy fz b, 0) := by
  rw [writeBlock_eq hT hs] at hw
  have hu := unfix_length hb.name.len
  obtain ⟨tail, hl⟩ := leading_name_line hs.fs hs.name hu hb.name.nonl (vals := (blockVals b).drop 1) (by exact hw)
  refine ⟨by rw [hl]; exact line_not_blank hb.name.vis, fun rest => ?_⟩
  obtain ⟨cx, cy, cz, hcv⟩ : ∃ cx cy cz, (match b.centre with | none => [Val.none, Val.none, Val.none] | some c => c) = [cx, cy, cz] := by
    cases hc : b.centre with
    | none => exact ⟨_, _, _, rfl⟩
    | some c =>
      have := hb.centre c hc
      match c, this with
      | [x, y, z], _ => exact ⟨x, y, z, rfl⟩
  have hvals : blockVals b = [.str (unfixBlockname b.name), b.nseq, b.nadd, .str b.rock, b.volume, b.ahtx, b.pmx, cx, cy, cz] := by
    unfold blockVals; rw [hcv]; rfl
  rw [hvals] at hw
  have hnumall := hs.num
  have hvalid : ∀ f ∈ r.fs, ValidTyp f.typ := by
    rw [hs.fs]; intro f hf
    simp only [List.mem_cons, List.not_mem_nil, or_false] at hf
    rcases hf with rfl | rfl | rfl | rfl | rfl | rfl | rfl | rfl | rfl | rfl
    · unfold ValidTyp; rw [hs.name.typ]; simp
    · exact NumericTyp.valid (hnumall _ (by simp))
    · exact NumericTyp.valid (hnumall _ (by simp))
    · unfold ValidTyp; rw [hs.rock.typ]; simp
    all_goals exact NumericTyp.valid (hnumall _ (by simp))
  have hnum : ∀ f ∈ r.fs.drop [Val.str (unfixBlockname b.name), b.nseq, b.nadd, Val.str b.rock, b.volume, b.ahtx, b.pmx, cx, cy, cz].length,
      NumericTyp f.typ := by
    rw [hs.fs]; intro f hf; simp at hf
  have hrd := readValues_written r _ hvalid hnum hw (List.replicate (80 - l.length) ' ') (spaces_ws _)
  rw [hs.fs] at hrd
  simp only [List.zip_cons_cons, List.zip_nil_right, List.map_cons, List.map_nil, List.length_cons, List.length_nil,
    List.drop_succ_cons, List.drop_nil, List.append_nil, (name_field_write hs.name hu hb.name.nonl).2,
    (name_field_write hs.rock hb.rockLen hb.rockNl).2] at hrd
  unfold readBlock
  rw [padstring_eq]
  simp only [hT, bind, Except.bind, pure, Except.pure, hrd, Val.str?]
  rw [(cycle_ok hb.name.len).1]
  simp only [lookupRock, hb.rockKnown, if_true]
  simp only [canonBlock, hcv, List.getD_cons_zero, List.getD_cons_succ]

/-- **section_roundtrip_ELEME**: the block lines written by `write_blocks` read back one for one, in order:
    name (through one unfix/fix cycle), sequence numbers (0 = absent), rock type, volume, heat-exchange area,
    permeability modifier and centre, each to the digits of its field; the closing blank line is consumed -/
theorem section_roundtrip_ELEME {T : Tabs} {r : Rec} {fN fq fa fR fv fh fp fx fy fz : FieldSpec}
    (hT : T.get c!"blocks" = .ok r) (hs : BlockShape r fN fq fa fR fv fh fp fx fy fz)
    (rocks : List Rock) (bs : List Block) (hb : ∀ b ∈ bs, GoodBlock rocks b)
    (hw : ∀ b ∈ bs, ∃ l, writeBlock T b = .ok l) (rest : List Str) :
    readBlocks .default T rocks
        ((bs.map (fun b => match writeBlock T b with | .ok l => [l] | .error _ => [])).flatten ++ nl [] :: rest) =
      .ok ((bs.map (canonBlock fq fa fv fh fp fx fy fz)).foldl addBlock [], rest) := by
  unfold readBlocks
  have hrt : ∀ b ∈ bs, RecordRT padstring (fun _ => false) (readBlock .default T rocks)
      (fun b => match writeBlock T b with | .ok l => [l] | .error _ => []) (canonBlock fq fa fv fh fp fx fy fz) b := by
    intro b hbm
    obtain ⟨l, hl⟩ := hw b hbm
    obtain ⟨hnb, hrd⟩ := block_record hT hs rocks b (hb b hbm) hl
    exact ⟨l, [], by simp only [hl], hnb, rfl, fun rest' => hrd rest'⟩
  rw [untilBlank_roundtrip padstring (fun _ => false) _ _ _ bs hrt (nl []) (Or.inl (by decide)) rest]
  rfl


/-! ### CONNE -/

theorem isPrefixOf_append_left : ∀ (p u t : Str), p.length ≤ u.length → p.isPrefixOf (u ++ t) = p.isPrefixOf u := by
  intro p
  induction p with
  | nil => intro u t _; simp
  | cons a as ih =>
    intro u t h
    cases u with
    | nil => simp at h
    | cons b bs =>
      simp only [List.cons_append, List.isPrefixOf]
      rw [ih bs t (by simpa using h)]

structure ConnShape (r : Rec) (f1 f2 fq fa1 fa2 fdir fd1 fd2 far fdc fsg : FieldSpec) : Prop where
  fs : r.fs = [f1, f2, fq, fa1, fa2, fdir, fd1, fd2, far, fdc, fsg]
  name1 : NameField f1
  name2 : NameField f2
  num : ∀ f ∈ [fq, fa1, fa2, fdir, fd1, fd2, far, fdc, fsg], NumericTyp f.typ

def canonConn (fq fa1 fa2 fdir fd1 fd2 far fdc fsg : FieldSpec) (c : Conn) : Conn :=
  { b1 := cycleName c.b1, b2 := cycleName c.b2, nseq := zeroNone (canonV fq c.nseq), nad1 := zeroNone (canonV fa1 c.nad1),
    nad2 := zeroNone (canonV fa2 c.nad2), direction := canonV fdir c.direction,
    dist := [canonV fd1 (c.dist.getD 0 .none), canonV fd2 (c.dist.getD 1 .none)],
    area := canonV far c.area, dircos := canonV fdc c.dircos, sigma := canonV fsg c.sigma }

/-- a connection the CONNE writer and reader agree on: two good names of blocks the (already read) grid holds,
    two distances, and a first name that is not the `+++` end mark -/
structure GoodConn (blocks : List Block) (c : Conn) : Prop where
  n1 : GoodName c.b1
  n2 : GoodName c.b2
  known1 : blocks.any (·.name == cycleName c.b1) = true
  known2 : blocks.any (·.name == cycleName c.b2) = true
  dist : c.dist.length = 2
  noplus : startsWith (unfixBlockname c.b1) c!"+++" = false

theorem conn_record {T : Tabs} {r : Rec} {f1 f2 fq fa1 fa2 fdir fd1 fd2 far fdc fsg : FieldSpec}
    (hT : T.get c!"connections" = .ok r) (hs : ConnShape r f1 f2 fq fa1 fa2 fdir fd1 fd2 far fdc fsg)
    (blocks : List Block) (c : Conn) (hc : GoodConn blocks c) {l : Str} (hw : writeConn T c = .ok l) :
    isBlank (padstring l) = false ∧ startsWith (padstring l) c!"+++" = false ∧
      ∀ rest, readConn .default T blocks (padstring l) rest =
        .ok (canonConn fq fa1 fa2 fdir fd1 fd2 far fdc fsg c, 0) := by
  unfold writeConn at hw
  simp only [hT, bind, Except.bind] at hw
  obtain ⟨d1, d2, hd⟩ : ∃ d1 d2, c.dist = [d1, d2] := by
    have := hc.dist
    match hcd : c.dist, this with
    | [x, y], _ => exact ⟨x, y, rfl⟩
  rw [hd] at hw
  have hu1 := unfix_length hc.n1.len
  have hu2 := unfix_length hc.n2.len
  have hw' : writeValuesLine r [.str (unfixBlockname c.b1), .str (unfixBlockname c.b2), c.nseq, c.nad1, c.nad2, c.direction,
      d1, d2, c.area, c.dircos, c.sigma] = .ok l := hw
  obtain ⟨tail, hl⟩ := leading_name_line hs.fs hs.name1 hu1 hc.n1.nonl hw'
  have hplus : startsWith (padstring l) c!"+++" = false := by
    rw [hl, padstring_eq, List.append_assoc]
    unfold startsWith
    rw [isPrefixOf_append_left _ _ _ (by rw [hu1]; decide)]
    exact hc.noplus
  refine ⟨by rw [hl]; exact line_not_blank hc.n1.vis, hplus, fun rest => ?_⟩
  have hnumall := hs.num
  have hvalid : ∀ f ∈ r.fs, ValidTyp f.typ := by
    rw [hs.fs]; intro f hf
    simp only [List.mem_cons, List.not_mem_nil, or_false] at hf
    rcases hf with rfl | rfl | rfl | rfl | rfl | rfl | rfl | rfl | rfl | rfl | rfl
    · unfold ValidTyp; rw [hs.name1.typ]; simp
    · unfold ValidTyp; rw [hs.name2.typ]; simp
    all_goals exact NumericTyp.valid (hnumall _ (by simp))
  have hnum : ∀ f ∈ r.fs.drop [Val.str (unfixBlockname c.b1), Val.str (unfixBlockname c.b2), c.nseq, c.nad1, c.nad2, c.direction,
      d1, d2, c.area, c.dircos, c.sigma].length, NumericTyp f.typ := by
    rw [hs.fs]; intro f hf; simp at hf
  have hrd := readValues_written r _ hvalid hnum hw' (List.replicate (80 - l.length) ' ') (spaces_ws _)
  rw [hs.fs] at hrd
  simp only [List.zip_cons_cons, List.zip_nil_right, List.map_cons, List.map_nil, List.length_cons, List.length_nil,
    List.drop_succ_cons, List.drop_nil, List.append_nil, (name_field_write hs.name1 hu1 hc.n1.nonl).2,
    (name_field_write hs.name2 hu2 hc.n2.nonl).2] at hrd
  unfold readConn
  rw [padstring_eq]
  simp only [hT, bind, Except.bind, pure, Except.pure, hrd, Val.str?]
  rw [(cycle_ok hc.n1.len).1, (cycle_ok hc.n2.len).1]
  simp only [hc.known1, hc.known2, Bool.not_true, Bool.or_self, Bool.false_eq_true, if_false]
  simp only [canonConn, hd, List.getD_cons_zero, List.getD_cons_succ]

/-- **section_roundtrip_CONNE**: the connection lines written by `write_connections` read back one for one, in
    order — both block names, sequence numbers (0 = absent), direction, the two distances, area, gravity cosine
    (10.7f) and radiant emittance — and the closing blank line is consumed -/
theorem section_roundtrip_CONNE {T : Tabs} {r : Rec} {f1 f2 fq fa1 fa2 fdir fd1 fd2 far fdc fsg : FieldSpec}
    (hT : T.get c!"connections" = .ok r) (hs : ConnShape r f1 f2 fq fa1 fa2 fdir fd1 fd2 far fdc fsg)
    (blocks : List Block) (cs : List Conn) (hc : ∀ c ∈ cs, GoodConn blocks c)
    (hw : ∀ c ∈ cs, ∃ l, writeConn T c = .ok l) (rest : List Str) :
    readConns .default T blocks
        ((cs.map (fun c => match writeConn T c with | .ok l => [l] | .error _ => [])).flatten ++ nl [] :: rest) =
      .ok ((cs.map (canonConn fq fa1 fa2 fdir fd1 fd2 far fdc fsg)).foldl addConn [], rest) := by
  unfold readConns
  have hrt : ∀ c ∈ cs, RecordRT padstring (fun l => startsWith l c!"+++") (readConn .default T blocks)
      (fun c => match writeConn T c with | .ok l => [l] | .error _ => []) (canonConn fq fa1 fa2 fdir fd1 fd2 far fdc fsg) c := by
    intro c hcm
    obtain ⟨l, hl⟩ := hw c hcm
    obtain ⟨hnb, hnp, hrd⟩ := conn_record hT hs blocks c (hc c hcm) hl
    exact ⟨l, [], by simp only [hl], hnb, hnp, fun rest' => hrd rest'⟩
  rw [untilBlank_roundtrip padstring (fun l => startsWith l c!"+++") _ _ _ cs hrt (nl []) (Or.inl (by decide)) rest]
  rfl

end Proofs.T2
