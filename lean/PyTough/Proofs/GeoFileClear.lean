/-
  C03 proofs, part 16: `StableSurfaces g` holds exactly when no surface rounds onto a layer bottom
  it lies strictly above (`SurfaceClear g`).
-/
import PyTough.Proofs.GeoFileMono
namespace Proofs.GeoFile
open Py Model Model.GeoFile Proofs

theorem mem_zip_map {α β : Type} (f : α → β) : ∀ (l : List α) (p : α × β), p ∈ l.zip (l.map f) → p.1 ∈ l ∧ p.2 = f p.1 := by
  intro l
  induction l with
  | nil => intro p hp; simp at hp
  | cons a r ih =>
    intro p hp
    rw [List.map_cons, List.zip_cons_cons] at hp
    rcases List.mem_cons.mp hp with rfl | hp
    · exact ⟨by simp, rfl⟩
    · exact ⟨List.mem_cons_of_mem _ (ih p hp).1, (ih p hp).2⟩

theorem exists_zip_left {α β : Type} : ∀ (l : List α) (m : List β), l.length = m.length → ∀ a ∈ l, ∃ b, (a, b) ∈ l.zip m := by
  intro l
  induction l with
  | nil => intro m _ a ha; cases ha
  | cons x r ih =>
    intro m hl a ha
    cases m with
    | nil => simp at hl
    | cons y s =>
      rcases List.mem_cons.mp ha with rfl | ha
      · exact ⟨y, by simp⟩
      · obtain ⟨b, hb⟩ := ih s (by simpa using hl) a ha
        exact ⟨b, by rw [List.zip_cons_cons]; exact List.mem_cons_of_mem _ hb⟩

/-- bottoms and tops of the re-read layers, pair by pair -/
theorem zip_layerTops_vals (s : Rat) : ∀ (ls : List GLayer) (above : Option GLayer) (t : Flt),
    layerTopsOK t ls = true →
    ∀ p ∈ ls.zip (layerTops (canonC 2 s t) (canonLayersAux s above ls)),
      p.2.bottom = canonC 2 s p.1.bottom ∧ p.2.top = canonC 2 s p.1.top ∧ (p.1.top = t ∨ ∃ lb ∈ ls, p.1.top = lb.bottom) := by
  intro ls
  induction ls with
  | nil => intro _ _ _ p hp; simp at hp
  | cons l r ih =>
    intro above t hok p hp
    simp only [layerTopsOK, Bool.and_eq_true, beq_iff_eq] at hok
    simp only [canonLayersAux, layerTops, List.zip_cons_cons, List.mem_cons] at hp
    rcases hp with rfl | hp
    · refine ⟨rfl, ?_, Or.inl hok.1⟩
      show canonC 2 s t = canonC 2 s l.top
      rw [hok.1]
    · have hb : (canonLayerAt s above l).bottom = canonC 2 s l.bottom := rfl
      rw [hb] at hp
      obtain ⟨h1, h2, h3⟩ := ih _ l.bottom hok.2 p hp
      refine ⟨h1, h2, Or.inr ?_⟩
      rcases h3 with h3 | ⟨lb, hlb, h3⟩
      · exact ⟨l, by simp, h3⟩
      · exact ⟨lb, List.mem_cons_of_mem _ hlb, h3⟩

theorem zip_canonLayers_vals (s : Rat) {l0 : GLayer} {r : List GLayer} (hok : layerTopsOK l0.bottom (l0 :: r) = true) :
    ∀ p ∈ (l0 :: r).zip (canonLayers s (l0 :: r)),
      p.2.bottom = canonC 2 s p.1.bottom ∧ p.2.top = canonC 2 s p.1.top ∧ ∃ lb ∈ l0 :: r, p.1.top = lb.bottom := by
  intro p hp
  have hc : canonLayers s (l0 :: r) = layerTops (canonC 2 s l0.bottom) (canonLayersAux s none (l0 :: r)) := rfl
  rw [hc] at hp
  obtain ⟨h1, h2, h3⟩ := zip_layerTops_vals s (l0 :: r) none l0.bottom hok p hp
  refine ⟨h1, h2, ?_⟩
  rcases h3 with h3 | h3
  · exact ⟨l0, by simp, h3⟩
  · exact h3

theorem scale_pos {u : Str} {s : Rat} (h : unitScale u = .ok s) : 0 < s := by
  rcases unitScale_cases h with ⟨_, rfl⟩ | ⟨_, rfl⟩ <;> decide

/-- the surface of a re-read column -/
theorem canonColumn_surface {s : Rat} {nodes' : List GNode} {layers' : List GLayer} {l0 : GLayer} {c : GColumn} {z : Flt}
    (hl : layers'.head?.map (·.bottom) = some (canonC 2 s l0.bottom))
    (hc : if c.defaultSurface then c.surface = some l0.bottom else True) (hz : c.surface = some z) :
    (canonColumn s nodes' layers' c).surface = some (canonC 2 s z) := by
  unfold canonColumn
  by_cases hd : c.defaultSurface = true
  · simp only [hd, if_true] at hc ⊢
    rw [hl]
    rw [hc] at hz
    cases hz
    rfl
  · simp only [hd, Bool.false_eq_true, if_false, hz, Option.map_some]

/-- **When can rounding move a surface across a layer boundary?**  Exactly when some column surface
    lies strictly above a layer bottom and both are written as the same decimal. -/
theorem stableSurfaces_iff {g : Geo} (hwf : WF g = true) (hcons : Consistent g = true) :
    StableSurfaces g = SurfaceClear g := by
  obtain ⟨L, LL, s, w⟩ := wfp_of hwf
  have hs : 0 < s := scale_pos w.sc
  cases hl : g.layers with
  | nil => exact absurd hl w.layersNe
  | cons l0 r =>
  unfold Consistent at hcons
  rw [hl] at hcons
  simp only [Bool.and_eq_true, List.all_eq_true] at hcons
  obtain ⟨htops, hcols⟩ := hcons
  have hlay : (canonGeo g).layers = canonLayers s (l0 :: r) := by unfold canonGeo; rw [w.sOf, hl]
  have hcolsG : (canonGeo g).columns = g.columns.map (canonColumn s (g.nodes.map (canonNode s)) (canonLayers s (l0 :: r))) := by
    unfold canonGeo; rw [w.sOf, hl]
  have hhead : (canonLayers s (l0 :: r)).head?.map (·.bottom) = some (canonC 2 s l0.bottom) := rfl
  -- every column has a surface, and its re-read surface is the rounded one
  have hsurf : ∀ c ∈ g.columns, ∃ z, c.surface = some z ∧
      (canonColumn s (g.nodes.map (canonNode s)) (canonLayers s (l0 :: r)) c).surface = some (canonC 2 s z) := by
    intro c hc
    have h := hcols c hc
    by_cases hd : c.defaultSurface = true
    · simp only [hd, if_true, beq_iff_eq] at h
      exact ⟨l0.bottom, h, canonColumn_surface hhead (by simp [hd, h]) h⟩
    · simp only [hd, Bool.false_eq_true, if_false] at h
      cases hz : c.surface with
      | none => rw [hz] at h; cases h
      | some z => exact ⟨z, rfl, canonColumn_surface hhead (by simp [hd]) hz⟩
  have hvals := zip_canonLayers_vals s htops
  have hlen : (l0 :: r).length = (canonLayers s (l0 :: r)).length := (canonLayers_length s _).symm
  have mono := fun (x y : Flt) => canonC_mono 2 (by decide) hs (x := x) (y := y)
  -- both directions
  apply Bool.eq_iff_iff.mpr
  constructor
  · -- stable → clear
    intro hst
    simp only [StableSurfaces, hlay, hcolsG, hl, List.all_eq_true] at hst
    unfold SurfaceClear
    rw [w.sOf, hl]
    simp only [List.all_eq_true]
    intro c hc l hlm
    obtain ⟨z, hz, hz'⟩ := hsurf c hc
    rw [hz]
    obtain ⟨l', hl'⟩ := exists_zip_left _ _ hlen l hlm
    have h1 := hst _ (mem_zip_map_self _ g.columns c hc) (l, l') hl'
    simp only [hz, hz', Bool.and_eq_true, beq_iff_eq] at h1
    obtain ⟨hb, _, _⟩ := hvals (l, l') hl'
    simp only at hb
    rw [hb] at h1
    simp only [Bool.not_eq_true', Bool.and_eq_false_iff, decide_eq_false_iff_not]
    by_cases hgt : z.toRat > l.bottom.toRat
    · right
      intro heq
      have := h1.1
      rw [decide_eq_true hgt] at this
      have hgt' : (canonC 2 s z).toRat > (canonC 2 s l.bottom).toRat := of_decide_eq_true this.symm
      rw [heq] at hgt'
      exact absurd hgt' (lt_irrefl _)
    · exact Or.inl hgt
  · -- clear → stable
    intro hcl
    unfold SurfaceClear at hcl
    rw [w.sOf, hl] at hcl
    simp only [List.all_eq_true] at hcl
    simp only [StableSurfaces, hlay, hcolsG, hl, List.all_eq_true]
    intro p hp q hq
    obtain ⟨hc, hpe⟩ := mem_zip_map _ _ p hp
    obtain ⟨c, c'⟩ := p
    obtain ⟨l, l'⟩ := q
    simp only at hc hpe
    subst hpe
    obtain ⟨z, hz, hz'⟩ := hsurf c hc
    obtain ⟨hb, ht, lb, hlb, htb⟩ := hvals (l, l') hq
    simp only at hb ht htb
    have hlm : l ∈ l0 :: r := (List.of_mem_zip hq).1
    simp only [hz, hz', hb, ht, Bool.and_eq_true, beq_iff_eq]
    -- the comparison with any bottom is preserved
    have key : ∀ b ∈ l0 :: r, decide (z.toRat > b.bottom.toRat) = decide ((canonC 2 s z).toRat > (canonC 2 s b.bottom).toRat) ∧
        decide (z.toRat ≤ b.bottom.toRat) = decide ((canonC 2 s z).toRat ≤ (canonC 2 s b.bottom).toRat) := by
      intro b hbm
      have hc1 := hcl c hc b hbm
      rw [hz] at hc1
      simp only [Bool.not_eq_true', Bool.and_eq_false_iff, decide_eq_false_iff_not] at hc1
      by_cases hgt : z.toRat > b.bottom.toRat
      · have hne : (canonC 2 s z).toRat ≠ (canonC 2 s b.bottom).toRat := by
          rcases hc1 with h | h
          · exact absurd hgt h
          · exact h
        have hge := mono b.bottom z (le_of_lt hgt)
        have hgt' : (canonC 2 s z).toRat > (canonC 2 s b.bottom).toRat := lt_of_le_of_ne hge (Ne.symm hne)
        exact ⟨by rw [decide_eq_true hgt, decide_eq_true hgt'],
          by rw [decide_eq_false (not_le.mpr hgt), decide_eq_false (not_le.mpr hgt')]⟩
      · have hle : z.toRat ≤ b.bottom.toRat := not_lt.mp hgt
        have hle' := mono z b.bottom hle
        exact ⟨by rw [decide_eq_false hgt, decide_eq_false (not_lt.mpr hle')],
          by rw [decide_eq_true hle, decide_eq_true hle']⟩
    refine ⟨(key l hlm).1, ?_⟩
    rw [htb]
    exact (key lb hlb).2

end Proofs.GeoFile
