/-
  A small concrete geometry used by the non-vacuity examples of Props/C04.lean:
  two columns (a 2x2 square and a 3x2 rectangle sharing the edge x = 2), two underground layers,
  one atmosphere block; column `a` has its surface inside the top layer (a truncated block),
  column `b` has its surface above the top layer.
-/
import PyTough.Model.FromGeo
namespace Proofs.FromGeo.Ex
open Py Model.FromGeo

def colA : Column := mkColumn [' ',' ','a'] [⟨0,0⟩, ⟨0,2⟩, ⟨2,2⟩, ⟨2,0⟩] ⟨1,1⟩ (-1/2)
def colB : Column := mkColumn [' ',' ','b'] [⟨2,0⟩, ⟨2,2⟩, ⟨5,2⟩, ⟨5,0⟩] ⟨7/2,1⟩ 1
def l0 : Layer := ⟨[' ','0'], 0, 0, 0⟩
def l1 : Layer := ⟨[' ','1'], -1, -1/2, 0⟩
def l2 : Layer := ⟨[' ','2'], -3, -2, -1⟩
def con : Conn := ⟨colA, colB, ⟨2,0⟩, ⟨2,2⟩⟩
def names : List Str :=
  [['A','T','M',' ','0'], [' ',' ','a',' ','1'], [' ',' ','b',' ','1'], [' ',' ','a',' ','2'], [' ',' ','b',' ','2']]
def geo : Geo := ⟨0, 0, 1000, 1/1000000, 0, l0, [l1, l2], [colA, colB], [con], ⟨0,0,-1⟩, ⟨1,0⟩, names⟩
/-- a block map renaming the truncated block -/
def bmap : BlockMap := [([' ',' ','a',' ','1'], ['#','0','0','0','1'])]

/-- the grid the model builds for `geo` -/
def grid : Grid := match fromgeo geo bmap with
  | .ok t => t
  | .error _ => ⟨[], []⟩

end Proofs.FromGeo.Ex
