/-
  C09: reordering and renaming leave the physical network unchanged.
-/
import PyTough.Model.GridPhys
import PyTough.Proofs.GridSpec
namespace Proofs.Grid
open Py Model Model.Grid Model.Grid.World

theorem conSig_flipCon (con : Con) (h : con.b0 ≠ con.b1) : conSig (flipCon con) = conSig con := by
  unfold conSig flipCon
  by_cases h1 : con.b0 ≤ con.b1
  · have h2 : ¬ con.b1 ≤ con.b0 := fun h3 => h (Nat.le_antisymm h1 h3)
    simp only [h1, h2, if_true, if_false]
    congr 1
    cases con.dircos with
    | none => rfl
    | some x => simp [Rat.neg_neg]
  · have h2 : con.b1 ≤ con.b0 := Nat.le_of_not_le h1
    simp only [h1, h2, if_true, if_false]

theorem _root_.Model.Grid.PhysEq.refl (w : World) : PhysEq w w := ⟨List.Perm.refl _, List.Perm.refl _, fun _ => rfl, fun _ => rfl⟩

theorem _root_.Model.Grid.PhysEq.trans {w1 w2 w3 : World} (h12 : PhysEq w1 w2) (h23 : PhysEq w2 w3) : PhysEq w1 w3 :=
  ⟨h23.blocks.trans h12.blocks, h23.connections.trans h12.connections,
   fun b => (h23.blk b).trans (h12.blk b), fun c => (h23.con c).trans (h12.con c)⟩

/-- a state that differs only in names, `connection_name` records, orders of the lists and the
    dictionaries has the same physics -/
theorem physEq_of_payload {w w' : World} (hb : w'.blocklist.Perm w.blocklist)
    (hc : w'.connectionlist.Perm w.connectionlist) (hr : w'.rocks = w.rocks)
    (hblk : ∀ b, (w'.bk b).volume = (w.bk b).volume ∧ (w'.bk b).rock = (w.bk b).rock ∧ (w'.bk b).centre = (w.bk b).centre)
    (hcon : ∀ c, conSig (w'.cn c) = conSig (w.cn c)) : PhysEq w w' := by
  refine ⟨hb, hc, ?_, hcon⟩
  intro b
  obtain ⟨h1, h2, h3⟩ := hblk b
  simp only [blkPhys, h1, h2, h3, World.rname, World.rk, hr]

theorem flipWorld_phys {w : World} (hI : Grid.Inv w) {c : Nat} (hc : c ∈ w.connectionlist) (orig names : CName) :
    PhysEq w (flipWorld w c orig names (w.cn c).b0 (w.cn c).b1) := by
  have ends := hI.c_ends c hc
  have hclt := hI.cl_lt c hc
  refine physEq_of_payload (List.Perm.refl _) (List.Perm.refl _) rfl ?_ ?_
  · intro b
    simp only [flipWorld, World.bk, getD_set, List.length_set]
    split
    · rename_i h; rw [← h.1]; exact ⟨rfl, rfl, rfl⟩
    · split
      · rename_i h; rw [← h.1]; exact ⟨rfl, rfl, rfl⟩
      · exact ⟨rfl, rfl, rfl⟩
  · intro x
    simp only [flipWorld, World.cn, getD_set]
    split
    · rename_i h
      rw [← h.1]
      exact conSig_flipCon _ ends.2.2
    · rfl

theorem reorderConnections_phys {w : World} (hI : Grid.Inv w) (cs : List CName) (acc : List Nat) :
    match reorderConnections w cs acc with
    | .ok (w', _) => PhysEq w w'
    | .error (_, w') => PhysEq w w' := by
  induction cs generalizing w acc with
  | nil => simp only [reorderConnections]; exact PhysEq.refl w
  | cons names r ih =>
    cases hd : dget w.connection names with
    | some c =>
      have hstep : reorderConnections w (names :: r) acc = reorderConnections w r (acc ++ [c]) := by
        simp only [reorderConnections, hd]
      rw [hstep]; exact ih hI (acc ++ [c])
    | none =>
      cases hd2 : dget w.connection (names.2, names.1) with
      | none =>
        have hstep : reorderConnections w (names :: r) acc = .error (.generic, w) := by
          simp only [reorderConnections, hd, hd2]
        rw [hstep]; exact PhysEq.refl w
      | some c =>
        have hc := hI.cd_sound _ _ hd2
        have hstep : reorderConnections w (names :: r) acc =
            reorderConnections (flipWorld w c (names.2, names.1) names (w.cn c).b0 (w.cn c).b1) r (acc ++ [c]) := by
          simp only [reorderConnections, hd, hd2, flipConnection_ok hI hd2]
        rw [hstep]
        have hI1 := flipWorld_inv hI hc.1 hc.2 hd
        have hp := flipWorld_phys hI hc.1 (names.2, names.1) names
        have := ih hI1 (acc ++ [c])
        split at this
        · exact hp.trans this
        · exact hp.trans this

theorem perm_of_some_perm {l l0 : List Nat} (hp : (l.map some).Perm (l0.map some)) (hn : l0.Nodup) : l.Perm l0 := by
  obtain ⟨h1, h2⟩ := perm_some_facts hp hn
  exact (List.perm_ext_iff_of_nodup h1 hn).mpr h2

/-- **reorder_preserves_phys** -/
theorem reorder_physEq {w : World} (hI : Grid.Inv w) (bs : List Name) (cs : List CName)
    (hpre : pre w (.reorder bs cs) = true) : PhysEq w (worldOf (reorder w bs cs)) := by
  simp only [pre, Bool.and_eq_true, Bool.or_eq_true, List.isPerm_iff] at hpre
  obtain ⟨hb, hc⟩ := hpre
  -- the connection half, from any state with the same connections
  have conn_part : ∀ w1 : World, Grid.Inv w1 → PhysEq w w1 → w1.connection = w.connection →
      w1.connectionlist = w.connectionlist →
      PhysEq w (worldOf (if cs.isEmpty = true then (Except.ok w1 : R) else
        match reorderConnections w1 cs [] with
        | .error e => .error e
        | .ok (w2, acc) => .ok { w2 with connectionlist := acc })) := by
    intro w1 hI1 hp hcd hcl
    by_cases he : cs.isEmpty = true
    · simp only [he, if_true, worldOf_ok]; exact hp
    · rcases hc with hc | hc
      · exact absurd hc he
      rw [if_neg he]
      have hs := reorderConnections_spec hI1 cs []
      have hph := reorderConnections_phys hI1 cs []
      split at hs
      · rename_i w2 acc heq
        rw [heq] at hph ⊢
        simp only [worldOf_ok] at hph ⊢
        obtain ⟨_, hcl2, hacc⟩ := hs
        simp only [List.map_nil, List.nil_append] at hacc
        have hres : cs.map (resolveCon w1) = cs.map (resolveCon w) := by
          apply List.map_congr_left; intro k _; simp only [resolveCon, hcd]
        rw [hres] at hacc
        rw [← hacc] at hc
        have hperm := perm_of_some_perm hc hI.cl_nodup
        have h2 := hp.trans hph
        exact ⟨h2.blocks, hperm, h2.blk, h2.con⟩
      · rename_i e w2 heq
        rw [heq] at hph ⊢
        simp only [worldOf_error] at hph ⊢
        exact hp.trans hph
  unfold reorder
  by_cases he : bs.isEmpty = true
  · simp only [he, if_true]
    exact conn_part w hI (PhysEq.refl w) rfl rfl
  · rcases hb with hb | hb
    · exact absurd hb he
    simp only [he]
    cases hl : lookupAll w.block bs with
    | none => simp only [worldOf_error]; exact PhysEq.refl w
    | some l =>
      simp only []
      have := lookupAll_some hl
      rw [this] at hb
      obtain ⟨hn, hm⟩ := perm_some_facts hb hI.bl_nodup
      have hperm := perm_of_some_perm hb hI.bl_nodup
      refine conn_part _ (inv_of_blocklist_perm hI hn hm) ⟨hperm, List.Perm.refl _, fun _ => rfl, fun _ => rfl⟩ rfl rfl

/-- **rename_preserves_phys** -/
theorem rename_physEq {w : World} (hI : Grid.Inv w) (m : Dict Name Name) (fix : Bool)
    (hpre : pre w (.renameBlocks m fix) = true) : PhysEq w (worldOf (renameBlocks w m fix)) := by
  have key : ∀ m1 : Dict Name Name, (w.blocklist.map fun b => mapName m1 (w.bname b)).Nodup →
      PhysEq w (rebuildConnection (rebuildBlock (renameLoop m1 w w.blocklist))) := by
    intro m1 hnd
    obtain ⟨f1, f2, _, _, _, f6, f7, f8⟩ := renameWorld_facts hI m1 hnd
    refine physEq_of_payload (List.Perm.of_eq f1) (List.Perm.of_eq f2) f8 f6 ?_
    intro c; simp only [World.cn, f7]
  simp only [pre, effectiveMap] at hpre
  unfold renameBlocks
  cases fix with
  | false =>
    simp only [Bool.false_eq_true, if_false, decide_eq_true_eq] at hpre ⊢
    exact key m hpre
  | true =>
    simp only [if_true] at hpre ⊢
    cases hf : fixBlockMapping m with
    | error e => simp only [worldOf_error]; exact PhysEq.refl w
    | ok m1 =>
      simp only [hf, decide_eq_true_eq] at hpre
      simp only [worldOf_ok]
      exact key m1 hpre

end Proofs.Grid
