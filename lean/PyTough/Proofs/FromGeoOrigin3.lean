/-
  Proofs for C04, part 4c: where the connections of the grid come from; adjacent layers.
-/
import PyTough.Proofs.FromGeoOrigin2
namespace Proofs.FromGeo
open Py Model.FromGeo

/-! ### where the connections of the grid come from -/

/-- connection `c` was built by the vertical loop for some column of some layer, or by the
    horizontal loop for some geometry connection of some layer; `above` is the layer just above
    `lay` in `layerlist`, and the "first layer" flag is `pre = []` -/
def ConnOrigin (g : Geo) (m : BlockMap) (bs : List Block) (c : TConn) : Prop :=
  ∃ pre above lay post, g.layerlist = pre ++ above :: lay :: post ∧
    ((∃ col ∈ layerCols g lay, vertConn g m bs (decide (pre = [])) above lay col = .ok (some c)) ∨
     (∃ k ∈ layerConns g (layerCols g lay), horizConn g m bs lay k = .ok c))

theorem mem_addConn {cs : List TConn} {c x : TConn} (h : x ∈ addConn cs c) : x ∈ cs ∨ x = c := by
  unfold addConn at h
  split at h
  · rw [List.mem_map] at h
    obtain ⟨y, hy, hyx⟩ := h
    split at hyx
    · exact Or.inr hyx.symm
    · exact Or.inl (hyx ▸ hy)
  · rcases List.mem_append.1 h with h | h
    · exact Or.inl h
    · exact Or.inr (by simpa using h)

theorem addVertical_mem (g : Geo) (m : BlockMap) (bs : List Block) (first : Bool) (above lay : Layer) :
    ∀ (cols : List Column) (cs cs' : List TConn), addVertical g m bs first above lay cs cols = .ok cs' →
      ∀ x ∈ cs', x ∈ cs ∨ ∃ col ∈ cols, vertConn g m bs first above lay col = .ok (some x) := by
  intro cols
  induction cols with
  | nil => intro cs cs' h x hx; simp only [addVertical] at h; cases h; exact Or.inl hx
  | cons col rest ih =>
    intro cs cs' h x hx
    simp only [addVertical] at h
    cases hv : vertConn g m bs first above lay col with
    | error e => rw [hv] at h; cases h
    | ok o =>
      rw [hv] at h
      cases o with
      | none =>
        simp only at h
        rcases ih _ _ h x hx with h1 | ⟨c', hc', hx'⟩
        · exact Or.inl h1
        · exact Or.inr ⟨c', List.mem_cons_of_mem _ hc', hx'⟩
      | some c =>
        simp only at h
        rcases ih _ _ h x hx with h1 | ⟨c', hc', hx'⟩
        · rcases mem_addConn h1 with h2 | h2
          · exact Or.inl h2
          · exact Or.inr ⟨col, List.mem_cons_self, h2 ▸ hv⟩
        · exact Or.inr ⟨c', List.mem_cons_of_mem _ hc', hx'⟩

theorem addHorizontal_mem (g : Geo) (m : BlockMap) (bs : List Block) (lay : Layer) :
    ∀ (ks : List Conn) (cs cs' : List TConn), addHorizontal g m bs lay cs ks = .ok cs' →
      ∀ x ∈ cs', x ∈ cs ∨ ∃ k ∈ ks, horizConn g m bs lay k = .ok x := by
  intro ks
  induction ks with
  | nil => intro cs cs' h x hx; simp only [addHorizontal] at h; cases h; exact Or.inl hx
  | cons k rest ih =>
    intro cs cs' h x hx
    simp only [addHorizontal] at h
    cases hv : horizConn g m bs lay k with
    | error e => rw [hv] at h; cases h
    | ok c =>
      rw [hv] at h
      simp only at h
      rcases ih _ _ h x hx with h1 | ⟨k', hk', hx'⟩
      · rcases mem_addConn h1 with h2 | h2
        · exact Or.inl h2
        · exact Or.inr ⟨k, List.mem_cons_self, h2 ▸ hv⟩
      · exact Or.inr ⟨k', List.mem_cons_of_mem _ hk', hx'⟩

theorem addConnsFrom_mem (g : Geo) (m : BlockMap) (bs : List Block) :
    ∀ (ls : List Layer) (first : Bool) (above : Layer) (cs cs' : List TConn) (pre : List Layer),
      g.layerlist = pre ++ above :: ls → first = decide (pre = []) →
      addConnsFrom g m bs first above cs ls = .ok cs' →
      ∀ x ∈ cs', x ∈ cs ∨ ConnOrigin g m bs x := by
  intro ls
  induction ls with
  | nil => intro first above cs cs' pre _ _ h x hx; simp only [addConnsFrom] at h; cases h; exact Or.inl hx
  | cons lay ls ih =>
    intro first above cs cs' pre hll hfirst h x hx
    simp only [addConnsFrom] at h
    cases hv : addVertical g m bs first above lay cs (layerCols g lay) with
    | error e => rw [hv] at h; cases h
    | ok cs1 =>
      rw [hv] at h
      simp only at h
      cases hh : addHorizontal g m bs lay cs1 (layerConns g (layerCols g lay)) with
      | error e => rw [hh] at h; cases h
      | ok cs2 =>
        rw [hh] at h
        simp only at h
        have hll' : g.layerlist = (pre ++ [above]) ++ lay :: ls := by rw [hll]; simp
        rcases ih false lay cs2 cs' (pre ++ [above]) hll' (by simp) h x hx with h1 | h1
        · rcases addHorizontal_mem g m bs lay _ _ _ hh x h1 with h2 | ⟨k, hk, hxk⟩
          · rcases addVertical_mem g m bs first above lay _ _ _ hv x h2 with h3 | ⟨col, hcol, hxc⟩
            · exact Or.inl h3
            · exact Or.inr ⟨pre, above, lay, ls, hll, Or.inl ⟨col, hcol, hfirst ▸ hxc⟩⟩
          · exact Or.inr ⟨pre, above, lay, ls, hll, Or.inr ⟨k, hk, hxk⟩⟩
        · exact Or.inr h1

/-- every connection of the grid `fromgeo` builds comes from one of the two loop bodies, applied
    to the grid's own block list -/
theorem fromgeo_conn_origin (g : Geo) (m : BlockMap) (T : Grid) (h : fromgeo g m = .ok T) :
    ∀ c ∈ T.conns, ConnOrigin g m T.blocks c := by
  unfold fromgeo at h
  split at h
  · cases h
  · rename_i bs hb
    split at h
    · cases h
    · rename_i cs hc
      cases h
      intro c hcm
      rcases addConnsFrom_mem g m bs _ _ _ _ _ [] rfl (by simp) hc c hcm with h1 | h1
      · cases h1
      · exact h1

/-- adjacent layers of a well-formed stack -/
theorem chain_adjacent : ∀ (ls : List Layer) (l0 : Layer), chainOk l0.bottom ls = true →
    ∀ (pre : List Layer) (above lay : Layer) (post : List Layer), l0 :: ls = pre ++ above :: lay :: post →
      lay.top = above.bottom ∧ lay.bottom < lay.top ∧ lay ∈ ls := by
  intro ls
  induction ls with
  | nil =>
    intro l0 _ pre above lay post h
    have := congrArg List.length h
    simp at this
    omega
  | cons l ls ih =>
    intro l0 hc pre above lay post h
    simp only [chainOk, Bool.and_eq_true, decide_eq_true_eq] at hc
    obtain ⟨⟨htop, hpos⟩, hrest⟩ := hc
    cases pre with
    | nil =>
      simp only [List.nil_append, List.cons.injEq] at h
      obtain ⟨h1, h2, _⟩ := h
      subst h1; subst h2
      exact ⟨htop, hpos, List.mem_cons_self⟩
    | cons p pre =>
      simp only [List.cons_append, List.cons.injEq] at h
      obtain ⟨_, h2⟩ := h
      obtain ⟨a, b, c⟩ := ih l hrest pre above lay post h2
      exact ⟨a, b, List.mem_cons_of_mem _ c⟩

end Proofs.FromGeo
