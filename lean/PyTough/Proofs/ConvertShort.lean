/-
  C20 helper lemmas, fifth part: the SHORT section at the level of name lines, written and read back
  (heading with the frequency; ELEME / CONNE / GENER sub-sections; items resolved against the grid and the
  generator lookup).
-/
import PyTough.Proofs.ConvertGeneral
namespace Proofs.Convert
open Py Model.Convert Gen.ConvertTables

/-! ### SHORT name lines written and read back -/

/-- a name that can stand at the start of a line of a SHORT sub-section: five characters, not blank, not one of
    the sub-headings -/
def goodName (n : Str) : Bool := n.length == 5 && !n.all isStrWs && ![ELEME, CONNE, GENER].contains n

def goodBlocks (blocks : List Str) (l : List Item) : Bool :=
  l.all fun it => match it with | .blk n => goodName n && blocks.contains n | _ => false
def goodCons (cons : List (Str × Str)) (l : List Item) : Bool :=
  l.all fun it => match it with | .con a b => goodName a && b.length == 5 && cons.contains (a, b) | _ => false
def goodGens (dict : GDict) (l : List Item) : Bool :=
  l.all fun it => match it with | .gen i b n => goodName b && n.length == 5 && dict.lookup (b, n) == some i | _ => false

/-- a line that a sub-reader keeps (neither blank nor a sub-heading) -/
def itemLine (l : Str) : Bool := !isBlankLine l && !isSubHeading l
/-- a line at which a sub-reader stops -/
def stopLine (l : Str) : Bool := isBlankLine l || isSubHeading l

theorem takeSub_append (ls rest : List Str) (h : ∀ l ∈ ls, itemLine l = true)
    (hr : rest = [] ∨ ∃ x r, rest = x :: r ∧ stopLine x = true) : takeSub (ls ++ rest) = (ls, rest) := by
  induction ls with
  | nil =>
    rcases hr with rfl | ⟨x, r, rfl, hx⟩
    · rfl
    · simp only [List.nil_append, takeSub]
      unfold stopLine at hx
      simp [hx]
  | cons l r ih =>
    have hl := h l (List.mem_cons_self ..)
    unfold itemLine at hl
    have hl' : (isBlankLine l || isSubHeading l) = false := by
      simp only [Bool.and_eq_true, Bool.not_eq_true'] at hl
      simp [hl.1, hl.2]
    have := ih (fun x hx => h x (List.mem_cons_of_mem _ hx))
    simp only [List.cons_append, takeSub, hl', Bool.false_eq_true, if_false, this]

theorem slice_prefix5 (a b : Str) (h : a.length = 5) : slice (a ++ b) 0 5 = a := by
  unfold slice
  simp only [List.drop_zero, Nat.sub_zero]
  rw [← h, List.take_left]

theorem slice_suffix5 (a b : Str) (ha : a.length = 5) (hb : b.length = 5) : slice (a ++ b) 5 10 = b := by
  unfold slice
  rw [← ha, List.drop_left]
  have : 10 - a.length = b.length := by omega
  rw [this, List.take_length]

theorem slice_self5 (a : Str) (h : a.length = 5) : slice a 0 5 = a := by
  have := slice_prefix5 a [] h
  simpa using this

theorem goodName_spec (n : Str) (h : goodName n = true) :
    n.length = 5 ∧ n.all isStrWs = false ∧ [ELEME, CONNE, GENER].contains n = false := by
  unfold goodName at h
  simp only [Bool.and_eq_true, beq_iff_eq, Bool.not_eq_true'] at h
  exact ⟨h.1.1, h.1.2, h.2⟩

theorem itemLine_name (n b : Str) (h : goodName n = true) : itemLine (n ++ b) = true := by
  obtain ⟨h1, h2, h3⟩ := goodName_spec n h
  unfold itemLine isBlankLine isSubHeading
  rw [slice_prefix5 n b h1, h3]
  simp only [List.all_append, h2, Bool.false_and, Bool.not_false, Bool.and_self]


def StopHead (rest : List Str) : Prop := rest = [] ∨ ∃ x r, rest = x :: r ∧ stopLine x = true

theorem stopHead_blank (r : List Str) : StopHead ([] :: r) := Or.inr ⟨[], r, rfl, by decide⟩

theorem loop_end (blocks : List Str) (cons : List (Str × Str)) (dict : GDict) (fuel : Nat) (r : List Str) (so : Short) :
    readShortLoop blocks cons dict fuel ([] :: r) so = .ok so := by
  cases fuel with
  | zero => rfl
  | succ n => simp [readShortLoop, isBlankLine]

/-! one sub-section: what is written for it, and what the loop does with it -/

theorem mapM_some {α β : Type} (f : α → Option β) (g : α → β) (l : List α) (h : ∀ x ∈ l, f x = some (g x)) :
    l.mapM f = some (l.map g) := by
  induction l with
  | nil => rfl
  | cons x r ih =>
    simp [List.mapM_cons, h x (List.mem_cons_self ..), ih (fun y hy => h y (List.mem_cons_of_mem _ hy))]

def blkLine : Item → Str | .blk n => n | _ => []
def conLine' : Item → Str | .con a b => a ++ b | _ => []
def genLine : Item → Str | .gen _ b n => b ++ n | _ => []

theorem goodBlocks_item (blocks : List Str) (l : List Item) (h : goodBlocks blocks l = true) (it : Item) (hi : it ∈ l) :
    ∃ n, it = .blk n ∧ goodName n = true ∧ blocks.contains n = true := by
  have := List.all_eq_true.mp h it hi
  cases it with
  | blk n => simp only [Bool.and_eq_true] at this; exact ⟨n, rfl, this.1, this.2⟩
  | con _ _ => cases this
  | gen _ _ _ => cases this
  | str _ => cases this
  | tup _ _ => cases this

theorem goodCons_item (cons : List (Str × Str)) (l : List Item) (h : goodCons cons l = true) (it : Item) (hi : it ∈ l) :
    ∃ a b, it = .con a b ∧ goodName a = true ∧ b.length = 5 ∧ cons.contains (a, b) = true := by
  have := List.all_eq_true.mp h it hi
  cases it with
  | con a b => simp only [Bool.and_eq_true, beq_iff_eq] at this; exact ⟨a, b, rfl, this.1.1, this.1.2, this.2⟩
  | blk _ => cases this
  | gen _ _ _ => cases this
  | str _ => cases this
  | tup _ _ => cases this

theorem goodGens_item (dict : GDict) (l : List Item) (h : goodGens dict l = true) (it : Item) (hi : it ∈ l) :
    ∃ i b n, it = .gen i b n ∧ goodName b = true ∧ n.length = 5 ∧ dict.lookup (b, n) = some i := by
  have := List.all_eq_true.mp h it hi
  cases it with
  | gen i b n => simp only [Bool.and_eq_true, beq_iff_eq] at this; exact ⟨i, b, n, rfl, this.1.1, this.1.2, this.2⟩
  | blk _ => cases this
  | con _ _ => cases this
  | str _ => cases this
  | tup _ _ => cases this

theorem resolveBlocks_lines (blocks : List Str) (l : List Item) (h : goodBlocks blocks l = true) :
    resolveBlocks blocks (l.map blkLine) = l := by
  unfold resolveBlocks
  induction l with
  | nil => rfl
  | cons x r ih =>
    obtain ⟨n, rfl, hn, hc⟩ := goodBlocks_item blocks _ h x (List.mem_cons_self ..)
    have hr : goodBlocks blocks r = true := by
      unfold goodBlocks at h ⊢; simp only [List.all_cons, Bool.and_eq_true] at h; exact h.2
    have h5 := (goodName_spec n hn).1
    simp only [List.map_cons, blkLine, slice_self5 n h5, List.filter_cons, hc, if_true]
    rw [ih hr]

theorem resolveCons_lines (cons : List (Str × Str)) (l : List Item) (h : goodCons cons l = true) :
    resolveCons cons (l.map conLine') = l := by
  unfold resolveCons
  induction l with
  | nil => rfl
  | cons x r ih =>
    obtain ⟨a, b, rfl, ha, hb, hc⟩ := goodCons_item cons _ h x (List.mem_cons_self ..)
    have hr : goodCons cons r = true := by
      unfold goodCons at h ⊢; simp only [List.all_cons, Bool.and_eq_true] at h; exact h.2
    have h5 := (goodName_spec a ha).1
    simp only [List.map_cons, conLine', slice_prefix5 a b h5, slice_suffix5 a b h5 hb, List.filter_cons, hc, if_true]
    rw [ih hr]

theorem resolveGens_lines (dict : GDict) (l : List Item) (h : goodGens dict l = true) :
    resolveGens dict (l.map genLine) = l := by
  unfold resolveGens
  induction l with
  | nil => rfl
  | cons x r ih =>
    obtain ⟨i, b, n, rfl, hb, hn, hc⟩ := goodGens_item dict _ h x (List.mem_cons_self ..)
    have hr : goodGens dict r = true := by
      unfold goodGens at h ⊢; simp only [List.all_cons, Bool.and_eq_true] at h; exact h.2
    have h5 := (goodName_spec b hb).1
    simp only [List.map_cons, genLine, slice_prefix5 b n h5, slice_suffix5 b n h5 hn, List.filterMap_cons, hc, Option.map_some]
    rw [ih hr]

/-- the three kinds of sub-section -/
inductive Sub | blocks | cons | gens

def Sub.kw : Sub → Str | .blocks => ELEME | .cons => CONNE | .gens => GENER
def Sub.line : Sub → Item → Str | .blocks => blkLine | .cons => conLine' | .gens => genLine
def Sub.wline : Sub → Item → Option Str | .blocks => shortBlockLine | .cons => shortConLine | .gens => shortGenLine
def Sub.good (blocks : List Str) (cons : List (Str × Str)) (dict : GDict) : Sub → List Item → Bool
  | .blocks => goodBlocks blocks | .cons => goodCons cons | .gens => goodGens dict
def Sub.set : Sub → Short → Option (List Item) → Short
  | .blocks, so, v => { so with block := v } | .cons, so, v => { so with con := v } | .gens, so, v => { so with gen := v }
def Sub.get : Sub → Short → Option (List Item)
  | .blocks, so => so.block | .cons, so => so.con | .gens, so => so.gen

theorem sub_written (blocks : List Str) (cons : List (Str × Str)) (dict : GDict) (s : Sub) (l : List Item)
    (h : s.good blocks cons dict l = true) :
    l.mapM s.wline = some (l.map s.line) ∧ ∀ x ∈ l.map s.line, itemLine x = true := by
  cases s with
  | blocks =>
    refine ⟨mapM_some _ _ _ (fun it hi => ?_), fun x hx => ?_⟩
    · obtain ⟨n, rfl, _, _⟩ := goodBlocks_item blocks l h it hi; rfl
    · obtain ⟨it, hi, rfl⟩ := List.mem_map.mp hx
      obtain ⟨n, rfl, hn, _⟩ := goodBlocks_item blocks l h it hi
      have := itemLine_name n [] hn
      simpa [Sub.line, blkLine] using this
  | cons =>
    refine ⟨mapM_some _ _ _ (fun it hi => ?_), fun x hx => ?_⟩
    · obtain ⟨a, b, rfl, _, _, _⟩ := goodCons_item cons l h it hi; rfl
    · obtain ⟨it, hi, rfl⟩ := List.mem_map.mp hx
      obtain ⟨a, b, rfl, ha, _, _⟩ := goodCons_item cons l h it hi
      exact itemLine_name a b ha
  | gens =>
    refine ⟨mapM_some _ _ _ (fun it hi => ?_), fun x hx => ?_⟩
    · obtain ⟨i, b, n, rfl, _, _, _⟩ := goodGens_item dict l h it hi; rfl
    · obtain ⟨it, hi, rfl⟩ := List.mem_map.mp hx
      obtain ⟨i, b, n, rfl, hb, _, _⟩ := goodGens_item dict l h it hi
      exact itemLine_name b n hb

/-- what the loop does with one written sub-section (or with none, when the key is absent) -/
theorem loop_sub (blocks : List Str) (cons : List (Str × Str)) (dict : GDict) (s : Sub) (ov : Option (List Item))
    (hgood : ∀ l, ov = some l → s.good blocks cons dict l = true) (rest : List Str) (hrest : StopHead rest) :
    ∃ A, subLines s.kw s.wline ov = some A ∧ StopHead (A ++ rest) ∧ (if ov.isSome then 1 else 0) ≤ A.length ∧
      ∀ (fuel : Nat) (so0 : Short), s.get so0 = none → 0 < fuel →
        readShortLoop blocks cons dict fuel (A ++ rest) so0 =
        readShortLoop blocks cons dict (fuel - (if ov.isSome then 1 else 0)) rest (s.set so0 ov) := by
  cases ov with
  | none =>
    refine ⟨[], rfl, hrest, Nat.le_refl _, fun fuel so0 h0 _ => ?_⟩
    have : s.set so0 none = so0 := by
      cases s <;> simp only [Sub.set, Sub.get] at h0 ⊢ <;> cases so0 <;> simp_all
    simp [this]
  | some l =>
    obtain ⟨hw, hlines⟩ := sub_written blocks cons dict s l (hgood l rfl)
    have hkw : stopLine s.kw = true := by cases s <;> decide
    refine ⟨s.kw :: l.map s.line, by simp [subLines, hw], Or.inr ⟨_, _, rfl, hkw⟩, by simp, fun fuel so0 h0 hf => ?_⟩
    cases fuel with
    | zero => cases hf
    | succ n =>
      have hnb : isBlankLine s.kw = false := by cases s <;> decide
      have hts := takeSub_append (l.map s.line) rest hlines hrest
      have hg := hgood l rfl
      cases s <;> simp only [Sub.kw, Sub.line, Sub.good] at hnb hts hg
      case blocks =>
        have hk : slice ELEME 0 5 = ELEME := by decide
        simp only [List.cons_append, readShortLoop, Sub.kw, hnb, Bool.false_eq_true, if_false, hk, if_true, hts,
          Option.isSome_some, Nat.add_sub_cancel, Sub.set, Sub.line]
        rw [resolveBlocks_lines blocks l hg]
      case cons =>
        have hk : slice CONNE 0 5 = CONNE := by decide
        have h1 : ¬ CONNE = ELEME := by decide
        simp only [List.cons_append, readShortLoop, Sub.kw, hnb, Bool.false_eq_true, if_false, hk, h1, if_true, hts,
          Option.isSome_some, Nat.add_sub_cancel, Sub.set, Sub.line]
        rw [resolveCons_lines cons l hg]
      case gens =>
        have hk : slice GENER 0 5 = GENER := by decide
        have h1 : ¬ GENER = ELEME := by decide
        have h2 : ¬ GENER = CONNE := by decide
        simp only [List.cons_append, readShortLoop, Sub.kw, hnb, Bool.false_eq_true, if_false, hk, h1, h2, if_true, hts,
          Option.isSome_some, Nat.add_sub_cancel, Sub.set, Sub.line]
        rw [resolveGens_lines dict l hg]


/-- what `frequency` reads back as: absent, `None` and 0 all give `None` (nothing is printed for them) -/
def canonFreq : Option PyV → PyV
  | some (.int f) => if f = 0 then .none else .int f
  | _ => .none

/-- a frequency the heading line can carry in its two columns -/
def goodFreq : Option PyV → Bool
  | none => true
  | some .none => true
  | some (.int f) => decide (0 ≤ f) && decide (f < 100)
  | _ => false

def readFreq (h : Str) : PyV := match pyInt (slice h 5 7) with | .ok i => PyV.int i | .error _ => PyV.none

theorem freq_table : ∀ n : Nat, n < 100 →
    readFreq (if (n : Int) = 0 then SHORT else SHORT ++ rjust (intText n) 2) = (if (n : Int) = 0 then PyV.none else PyV.int n) := by
  decide +kernel

theorem header_roundtrip (so : Short) (hf : goodFreq so.freq = true) :
    ∃ h, shortHeader so = some h ∧ readFreq h = canonFreq so.freq := by
  unfold shortHeader
  cases hfr : so.freq with
  | none => exact ⟨SHORT, rfl, by decide⟩
  | some v =>
    rw [hfr] at hf
    cases v with
    | none => exact ⟨SHORT, rfl, by decide⟩
    | num q => cases hf
    | str s => cases hf
    | int f =>
      simp only [goodFreq, Bool.and_eq_true, decide_eq_true_eq] at hf
      refine ⟨_, rfl, ?_⟩
      have hn : f = (f.toNat : Int) := by omega
      have := freq_table f.toNat (by omega)
      rw [← hn] at this
      simpa [canonFreq] using this

/-- **the SHORT section written and read back**: heading with the frequency, the sub-sections that are present,
    items resolved against the grid and the generator lookup -/
theorem short_lines_roundtrip (blocks : List Str) (cons : List (Str × Str)) (dict : GDict) (so : Short)
    (hf : goodFreq so.freq = true)
    (hb : ∀ l, so.block = some l → goodBlocks blocks l = true)
    (hc : ∀ l, so.con = some l → goodCons cons l = true)
    (hg : ∀ l, so.gen = some l → goodGens dict l = true) :
    ∃ h body, writeShort so = some (h, body) ∧
      readShort blocks cons dict h body = .ok { so with freq := some (canonFreq so.freq) } := by
  obtain ⟨h, hh, hfr⟩ := header_roundtrip so hf
  obtain ⟨C, hC, hCs, hCl, hCe⟩ := loop_sub blocks cons dict .gens so.gen hg [[]] (stopHead_blank [])
  obtain ⟨B, hB, hBs, hBl, hBe⟩ := loop_sub blocks cons dict .cons so.con hc (C ++ [[]]) hCs
  obtain ⟨A, hA, hAs, hAl, hAe⟩ := loop_sub blocks cons dict .blocks so.block hb (B ++ (C ++ [[]])) hBs
  refine ⟨h, A ++ B ++ C ++ [[]], ?_, ?_⟩
  · simp only [writeShort, hh, Sub.kw, Sub.wline] at hA hB hC ⊢
    simp [hA, hB, hC]
  · show readShortLoop blocks cons dict ((A ++ B ++ C ++ [[]]).length + 1) (A ++ B ++ C ++ [[]]) { freq := some (readFreq h) } = _
    rw [hfr]
    have hassoc : A ++ B ++ C ++ [[]] = A ++ (B ++ (C ++ [[]])) := by simp
    rw [hassoc]
    have hlen : (A ++ (B ++ (C ++ [[]]))).length = A.length + B.length + C.length + 1 := by simp; omega
    rw [hlen]
    rw [hAe _ _ rfl (by omega), hBe _ _ rfl (by omega), hCe _ _ rfl (by omega), loop_end]
    simp [Sub.set]

end Proofs.Convert
