/-
  C20 helper lemmas, second part: dict facts, which sections are present, the closed form of
  convert_to_AUTOUGH2, and the obligations on the generated tables (`decide` over whole tables).
-/
import PyTough.Proofs.Convert
namespace Proofs.Convert
open Py Model.Convert Gen.ConvertTables


/-! ### dict facts -/

theorem has_set (m : Dict) (k k' : Str) (v : PyV) : (Dict.set m k v).has k' = (m.has k' || k == k') := by
  induction m with
  | nil => simp [Dict.set, Dict.has]
  | cons x r ih =>
    unfold Dict.set
    split
    · rename_i h
      have hx : x.1 = k := by simpa using h
      simp only [Dict.has, List.any_cons]
      by_cases hk : k = k'
      · simp [hx, hk]
      · have : (k == k') = false := by simpa using hk
        simp [this]
    · simp only [Dict.has, List.any_cons] at ih ⊢
      rw [ih, Bool.or_assoc]

theorem has_del (m : Dict) (k : Str) : (Dict.del m k).has k = false := by
  simp [Dict.has, Dict.del]

theorem has_del_ne (m : Dict) (k k' : Str) (h : k ≠ k') : (Dict.del m k).has k' = m.has k' := by
  induction m with
  | nil => rfl
  | cons x r ih =>
    simp only [Dict.del, Dict.has] at ih ⊢
    by_cases hx : x.1 = k
    · have : ¬ x.1 = k' := fun h' => h (hx ▸ h')
      simp [hx, ih]
      exact fun hk => absurd hk h
    · simp [hx, ih]

theorem set_ne_nil (m : Dict) (k : Str) (v : PyV) : Dict.set m k v ≠ [] := by
  cases m with
  | nil => simp [Dict.set]
  | cons x r => unfold Dict.set; split <;> simp

theorem multiA2T_no_eos (m : Dict) : (multiA2T m).has kEos = false := by
  unfold multiA2T
  split
  · rename_i h
    have : m = [] := by simpa using h
    subst this; rfl
  · rw [has_set]
    have hne : (kNumInc == kEos) = false := by decide
    rw [hne, Bool.or_false]
    split
    · exact has_del _ _
    · rename_i h; simpa using h

/-- MULTI stays present / absent, and every other key keeps its presence -/
theorem multiA2T_isEmpty (m : Dict) : (multiA2T m).isEmpty = m.isEmpty := by
  unfold multiA2T
  split
  · rfl
  · rename_i h
    have h1 : m.isEmpty = false := by simpa using h
    rw [h1]
    have := set_ne_nil (if m.has kEos = true then m.del kEos else m) kNumInc PyV.none
    cases hh : Dict.set (if m.has kEos = true then m.del kEos else m) kNumInc PyV.none with
    | nil => exact absurd hh this
    | cons _ _ => rfl



/-! ### which sections are present -/

theorem mem_presentSections (d : T2) (k : Str) :
    k ∈ presentSections d ↔ k ∈ sections ∧ dataPresent d k = true := by
  simp [presentSections, List.mem_filter]

theorem dataPresent_SIMUL (d : T2) : dataPresent d SIMUL = !d.simulator.isEmpty := by
  simp [dataPresent]
theorem dataPresent_LINEQ (d : T2) : dataPresent d LINEQ = !d.lineq.isEmpty := by
  have : ¬ LINEQ = SIMUL := by decide
  have : ¬ LINEQ = ROCKS := by decide
  have : ¬ LINEQ = PARAM := by decide
  simp [dataPresent, *]
theorem dataPresent_SOLVR (d : T2) : dataPresent d SOLVR = !d.solver.isEmpty := by
  have : ¬ SOLVR = SIMUL := by decide
  have : ¬ SOLVR = ROCKS := by decide
  have : ¬ SOLVR = PARAM := by decide
  have : ¬ SOLVR = LINEQ := by decide
  simp [dataPresent, *]
theorem dataPresent_SHORT (d : T2) : dataPresent d SHORT = d.short.truthy := by
  have : ¬ SHORT = SIMUL := by decide
  have : ¬ SHORT = ROCKS := by decide
  have : ¬ SHORT = PARAM := by decide
  have : ¬ SHORT = LINEQ := by decide
  have : ¬ SHORT = SOLVR := by decide
  have : ¬ SHORT = MULTI := by decide
  have : ¬ SHORT = ELEME := by decide
  have : ¬ SHORT = CONNE := by decide
  have : ¬ SHORT = GENER := by decide
  simp [dataPresent, *]
theorem dataPresent_FOFT (d : T2) : dataPresent d FOFT = !d.histBlock.isEmpty := by
  have : ¬ FOFT = SIMUL := by decide
  have : ¬ FOFT = ROCKS := by decide
  have : ¬ FOFT = PARAM := by decide
  have : ¬ FOFT = LINEQ := by decide
  have : ¬ FOFT = SOLVR := by decide
  have : ¬ FOFT = MULTI := by decide
  have : ¬ FOFT = ELEME := by decide
  have : ¬ FOFT = CONNE := by decide
  have : ¬ FOFT = GENER := by decide
  have : ¬ FOFT = SHORT := by decide
  simp [dataPresent, *]
theorem dataPresent_COFT (d : T2) : dataPresent d COFT = !d.histCon.isEmpty := by
  have : ¬ COFT = SIMUL := by decide
  have : ¬ COFT = ROCKS := by decide
  have : ¬ COFT = PARAM := by decide
  have : ¬ COFT = LINEQ := by decide
  have : ¬ COFT = SOLVR := by decide
  have : ¬ COFT = MULTI := by decide
  have : ¬ COFT = ELEME := by decide
  have : ¬ COFT = CONNE := by decide
  have : ¬ COFT = GENER := by decide
  have : ¬ COFT = SHORT := by decide
  have : ¬ COFT = FOFT := by decide
  simp [dataPresent, *]
theorem dataPresent_GOFT (d : T2) : dataPresent d GOFT = !d.histGen.isEmpty := by
  have : ¬ GOFT = SIMUL := by decide
  have : ¬ GOFT = ROCKS := by decide
  have : ¬ GOFT = PARAM := by decide
  have : ¬ GOFT = LINEQ := by decide
  have : ¬ GOFT = SOLVR := by decide
  have : ¬ GOFT = MULTI := by decide
  have : ¬ GOFT = ELEME := by decide
  have : ¬ GOFT = CONNE := by decide
  have : ¬ GOFT = GENER := by decide
  have : ¬ GOFT = SHORT := by decide
  have : ¬ GOFT = FOFT := by decide
  have : ¬ GOFT = COFT := by decide
  simp [dataPresent, *]

/-- a keyword is in the section list after `update_sections` (the first thing `write` does, and the
    list of keywords it then writes) iff its data is present -/
theorem mem_updateSections (d : T2) (k : Str) :
    k ∈ (updateSections d).sections ↔ k ∈ sections ∧ dataPresent d k = true := by
  unfold updateSections
  simp only []
  rw [mem_updateSectionsL, mem_presentSections]

/-! ### the closed form of convert_to_AUTOUGH2 -/

def autough2Of (mp : Bool) (sim eos : Str) (ty : Int) (d : T2) : T2 :=
  { filename := autough2Filename d.filename
    simulator := ljust sim 10 ++ eos
    sections := insertSectionL (insertSectionL d.sections SIMUL) LINEQ
    multi := multiNumInc (multiSetEos eos d.multi)
    lineq := newLineq ty
    solver := []
    option := mopT2A mp d.option
    rocks := d.rocks
    gens := d.gens
    gendict := d.gendict
    short := { freq := none
               block := keepNonEmpty (d.histBlock.filter Item.isBlk)
               con := keepNonEmpty (d.histCon.filter Item.isCon)
               gen := keepNonEmpty (d.histGen.filter Item.isGen) }
    histBlock := []
    histCon := []
    histGen := []
    other := d.other
    blocks := d.blocks }

theorem convertToAutough2_eq (mp : Bool) (sim eos : Str) (d : T2) :
    convertToAutough2 mp sim eos d =
      match lineqTypeOf (solverTypeT2A mp d.solver d.option) with
      | .ok ty => (autough2Of mp sim eos ty d, none)
      | .error e => ({ d with filename := autough2Filename d.filename, simulator := ljust sim 10 ++ eos,
                              sections := insertSectionL d.sections SIMUL,
                              multi := multiNumInc (multiSetEos eos d.multi) }, some e) := by
  unfold convertToAutough2 convParamsT2A
  simp only [insertSection]
  cases h : lineqTypeOf (solverTypeT2A mp d.solver d.option) <;>
    simp [autough2Of, historyToShort]



/-! ### obligations on the generated tables (re-checked against /repo's current tables by every build) -/

/-- every convertible type is converted to a type TOUGH2 has -/
theorem convert_targets_tough2 : ∀ p ∈ convert, isTough2Type p.2 = true := by decide

/-- the hand-written MOP rules agree with what the real converters did to every digit 0..9 at
    every position 0..24 (tables evaluated on the real code by the translator) -/
theorem mop_table_a2t :
    (List.range 25).all (fun i => (List.range 10).all fun x =>
      specA2T false 4 i x == (((tblMopA2T.getD i []).getD x 99 : Nat) : Int) &&
      specA2T true 4 i x == (((tblMopA2TMP.getD i []).getD x 99 : Nat) : Int)) = true := by decide

theorem mop_table_t2a :
    (List.range 25).all (fun i => (List.range 10).all fun x =>
      specT2A false i x == (((tblMopT2A.getD i []).getD x 99 : Nat) : Int) &&
      specT2A true i x == (((tblMopT2AMP.getD i []).getD x 99 : Nat) : Int)) = true := by decide

/-- LINEQ type → MOP(21) as evaluated on the real code -/
theorem lineq_to_solver_table :
    (List.range 10).all (fun t => solverTypeOfLineq [(kType, .int t)] == .ok (lineqToSolver.getD t 99)) = true := by decide

/-- solver type / MOP(21) → LINEQ type as evaluated on the real code -/
theorem solver_to_lineq_table :
    (List.range 10).all (fun t => lineqTypeOf (.int t) == .ok (solverToLineq.getD t 99)) = true := by decide

/-- number of conductivity rescalings for each tabled simulator string, position and digit -/
theorem cond_table :
    tblCondA2T.all (fun e => (List.range 25).all fun i => (List.range 10).all fun x =>
      let c := condCount e.1 (if i = 10 then x else 0) (if i = 23 then x else 0)
      c == (e.2.1.getD i []).getD x 99 && c == (e.2.2.getD i []).getD x 99) = true := by decide

theorem type_names_table : typeNames = [AUTOUGH2, TOUGH2] := by decide

theorem sections_head : sections.head? = some SIMUL := by decide
theorem sections_nodup : sections.Nodup := by decide
theorem keywords_in_sections :
    [SIMUL, ROCKS, PARAM, LINEQ, SOLVR, MULTI, ELEME, CONNE, GENER, SHORT, FOFT, COFT, GOFT].all sections.contains = true := by decide


/-! ### FOFT / COFT / GOFT lines -/

theorem writeNames_blk (l : List Item) (h : ∀ it ∈ l, ∃ n, it = .blk n) :
    writeNames l = some (l.map fun it => match it with | .blk n => n | _ => []) := by
  induction l with
  | nil => rfl
  | cons x r ih =>
    obtain ⟨n, rfl⟩ := h x (List.mem_cons_self ..)
    have := ih (fun it hi => h it (List.mem_cons_of_mem _ hi))
    unfold writeNames at this ⊢
    simp [List.mapM_cons, this, blockLine]

/-- block objects of the grid survive being written under FOFT/GOFT and read back -/
theorem readNames_writeNames_blocks (blocks : List Str) (l : List Item)
    (h : ∀ it ∈ l, ∃ n, it = .blk n ∧ n ∈ blocks) :
    ∃ lines, writeNames l = some lines ∧ readNames blocks lines = l := by
  refine ⟨_, writeNames_blk l (fun it hi => let ⟨n, hn, _⟩ := h it hi; ⟨n, hn⟩), ?_⟩
  unfold readNames
  cases l with
  | nil => simp
  | cons x r =>
    obtain ⟨n, rfl, hn⟩ := h x (List.mem_cons_self ..)
    have hne : blocks.isEmpty = false := by
      cases blocks with
      | nil => cases hn
      | cons _ _ => rfl
    simp only [hne, Bool.false_eq_true, if_false]
    have hall : ∀ it ∈ (Item.blk n :: r), ∃ n, it = .blk n ∧ n ∈ blocks := h
    clear h
    generalize (Item.blk n :: r) = l at hall
    induction l with
    | nil => rfl
    | cons y s ih =>
      obtain ⟨m, rfl, hm⟩ := hall y (List.mem_cons_self ..)
      have := ih (fun it hi => hall it (List.mem_cons_of_mem _ hi))
      simp only [List.map_cons, List.filter_cons]
      have hc : blocks.contains m = true := by simpa using hm
      simp only [hc, if_true, List.map_cons]
      rw [this]

/-- bare names survive when there is no grid -/
theorem readNames_writeNames_names (l : List Item) (h : ∀ it ∈ l, ∃ s, it = .str s) :
    ∃ lines, writeNames l = some lines ∧ readNames [] lines = l := by
  induction l with
  | nil => exact ⟨[], rfl, rfl⟩
  | cons x r ih =>
    obtain ⟨s, rfl⟩ := h x (List.mem_cons_self ..)
    obtain ⟨ls, hw, hr⟩ := ih (fun it hi => h it (List.mem_cons_of_mem _ hi))
    refine ⟨s :: ls, ?_, ?_⟩
    · unfold writeNames at hw ⊢
      simp [List.mapM_cons, hw, blockLine]
    · unfold readNames at hr ⊢
      simpa using hr


/-! ### inversion: what a conversion that did not raise has produced -/

theorem convertToTough2_ok {mp : Bool} {d d' : T2} (h : convertToTough2 mp d = (d', none)) :
    ∃ st, solverTypeOfLineq d.lineq = .ok st ∧ d' = tough2Of mp st d := by
  rw [convertToTough2_eq] at h
  cases hs : solverTypeOfLineq d.lineq with
  | ok st =>
    rw [hs] at h
    exact ⟨st, rfl, (Prod.mk.inj h).1.symm⟩
  | error e =>
    rw [hs] at h
    cases h

theorem convertToAutough2_ok {mp : Bool} {sim eos : Str} {d d' : T2}
    (h : convertToAutough2 mp sim eos d = (d', none)) :
    ∃ ty, lineqTypeOf (solverTypeT2A mp d.solver d.option) = .ok ty ∧ d' = autough2Of mp sim eos ty d := by
  rw [convertToAutough2_eq] at h
  cases hs : lineqTypeOf (solverTypeT2A mp d.solver d.option) with
  | ok ty =>
    rw [hs] at h
    exact ⟨ty, rfl, (Prod.mk.inj h).1.symm⟩
  | error e =>
    rw [hs] at h
    cases h


theorem mem_of_lookup {α β : Type} [BEq α] [LawfulBEq α] (l : List (α × β)) (k : α) (v : β)
    (h : l.lookup k = some v) : (k, v) ∈ l := by
  induction l with
  | nil => cases h
  | cons x r ih =>
    obtain ⟨a, b⟩ := x
    rw [List.lookup_cons] at h
    by_cases hk : k = a
    · subst hk
      simp at h
      subst h
      exact List.mem_cons_self ..
    · have : (k == a) = false := by simpa using hk
      rw [this] at h
      exact List.mem_cons_of_mem _ (ih h)

/-! ### more dict facts -/

theorem get_set_same (m : Dict) (k : Str) (v : PyV) : Dict.get? (Dict.set m k v) k = some v := by
  induction m with
  | nil => simp [Dict.set, Dict.get?]
  | cons x r ih =>
    obtain ⟨a, b⟩ := x
    unfold Dict.set
    by_cases h : a = k
    · subst h; simp [Dict.get?]
    · have h1 : (a == k) = false := by simpa using h
      have h2 : (k == a) = false := by simpa using (fun h' : k = a => h h'.symm)
      simp only [h1, Bool.false_eq_true, if_false]
      simp only [Dict.get?, List.lookup_cons, h2] at ih ⊢
      exact ih

theorem get_set_ne (m : Dict) (k k' : Str) (v : PyV) (h : k ≠ k') :
    Dict.get? (Dict.set m k v) k' = Dict.get? m k' := by
  induction m with
  | nil =>
    have : (k' == k) = false := by simpa using (fun h' : k' = k => h h'.symm)
    simp [Dict.set, Dict.get?, List.lookup, this]
  | cons x r ih =>
    obtain ⟨a, b⟩ := x
    unfold Dict.set
    by_cases ha : a = k
    · subst ha
      have : (k' == a) = false := by simpa using (fun h' : k' = a => h h'.symm)
      simp [Dict.get?, List.lookup_cons, this]
    · have h1 : (a == k) = false := by simpa using ha
      simp only [h1, Bool.false_eq_true, if_false]
      simp only [Dict.get?, List.lookup_cons] at ih ⊢
      cases (k' == a) <;> simp [ih]

theorem multiT2A_eos (eos : Str) (m : Dict) (h : m ≠ []) :
    Dict.get? (multiNumInc (multiSetEos eos m)) kEos = some (.str eos) := by
  have h1 : m.isEmpty = false := by cases m <;> simp_all
  have h2 : (multiSetEos eos m).isEmpty = false := by
    unfold multiSetEos
    rw [h1]
    simp only [Bool.false_eq_true, if_false]
    have := set_ne_nil m kEos (.str eos)
    cases hh : Dict.set m kEos (.str eos) with
    | nil => exact absurd hh this
    | cons _ _ => rfl
  unfold multiNumInc
  rw [h2]
  simp only [Bool.false_eq_true, if_false]
  rw [get_set_ne _ _ _ _ (by decide)]
  unfold multiSetEos
  rw [h1]
  simp only [Bool.false_eq_true, if_false]
  exact get_set_same _ _ _

theorem newLineq_type (ty : Int) : Dict.get? (newLineq ty) kType = some (.int ty) := by
  simp [newLineq, lineqKeys, Dict.get?, kType]

theorem lineqTypeOf_mem (v : PyV) (ty : Int) (h : lineqTypeOf v = .ok ty) : ty ∈ lineqTypes := by
  have h0 : lineqTypes.getD 0 0 ∈ lineqTypes := by decide
  unfold lineqTypeOf at h
  cases v with
  | none => cases h
  | str s => cases h
  | int i =>
    simp only at h
    split at h
    · rename_i hr
      have := Except.ok.inj h
      subst this
      have hlt : i.toNat < lineqTypes.length := by omega
      have : lineqTypes.getD i.toNat 0 = lineqTypes[i.toNat] := by
        simp [List.getD_eq_getElem?_getD, List.getElem?_eq_getElem hlt]
      rw [this]
      exact List.getElem_mem _
    · have := Except.ok.inj h
      subst this; exact h0
  | num q =>
    simp only at h
    split at h
    · cases h
    · have := Except.ok.inj h
      subst this; exact h0

theorem ljust_append_ne_nil (s e : Str) : (ljust s 10 ++ e).isEmpty = false := by
  cases s with
  | nil => simp [ljust, List.replicate]
  | cons a r => simp [ljust]

/-! ### connection lines -/

theorem writeCons_con (l : List Item) (h : ∀ it ∈ l, ∃ a b, it = .con a b) :
    writeCons l = some (l.map fun it => match it with | .con a b => (a, b) | _ => ([], [])) := by
  induction l with
  | nil => rfl
  | cons x r ih =>
    obtain ⟨a, b, rfl⟩ := h x (List.mem_cons_self ..)
    have := ih (fun it hi => h it (List.mem_cons_of_mem _ hi))
    unfold writeCons at this ⊢
    simp [List.mapM_cons, this, conLine]

theorem readCons_writeCons (blocks : List Str) (cons : List (Str × Str)) (l : List Item) (hb : blocks ≠ [])
    (h : ∀ it ∈ l, ∃ a b, it = .con a b ∧ (a, b) ∈ cons) :
    ∃ lines, writeCons l = some lines ∧ readCons blocks cons lines = l := by
  refine ⟨_, writeCons_con l (fun it hi => let ⟨a, b, hn, _⟩ := h it hi; ⟨a, b, hn⟩), ?_⟩
  unfold readCons
  have hne : blocks.isEmpty = false := by cases blocks <;> simp_all
  simp only [hne, Bool.false_eq_true, if_false]
  induction l with
  | nil => rfl
  | cons y s ih =>
    obtain ⟨a, b, rfl, hm⟩ := h y (List.mem_cons_self ..)
    have := ih (fun it hi => h it (List.mem_cons_of_mem _ hi))
    simp only [List.map_cons, List.filter_cons]
    have hc : cons.contains (a, b) = true := by simpa using hm
    simp only [hc, if_true, List.map_cons]
    rw [this]

/-! ### rocks -/

theorem scaleRocks_fields (rs : List Rock) :
    (scaleRocks rs).map (·.name) = rs.map (·.name) ∧ (scaleRocks rs).map (·.porosity) = rs.map (·.porosity) ∧
    (scaleRocks rs).map (·.payload) = rs.map (·.payload) ∧
    (scaleRocks rs).map (·.conductivity) = rs.map (fun r => r.conductivity * (1 - r.porosity)) := by
  simp [scaleRocks, List.map_map, Function.comp_def]

/-! ### SIMUL goes to the front -/

theorem insert_SIMUL (secs : List Str) (h : SIMUL ∉ secs) : insertSectionL secs SIMUL = SIMUL :: secs := by
  unfold insertSectionL
  have : secs.contains SIMUL = false := by simpa using h
  rw [this]
  simp only [Bool.false_eq_true, if_false]
  have hi : sectionInsertionIndex secs SIMUL = 0 := by
    unfold sectionInsertionIndex
    have : sections.findIdx? (· == SIMUL) = some 0 := by decide
    rw [this]
    rfl
  rw [hi]
  simp [listInsert]


/-! ### decidable forms of "every item is an object of the grid" -/

/-- every item is a `t2block` of the grid -/
def allGridBlocks (blocks : List Str) (l : List Item) : Bool :=
  l.all fun it => match it with | .blk n => blocks.contains n | _ => false

/-- every item is a `t2connection` of the grid -/
def allGridCons (cons : List (Str × Str)) (l : List Item) : Bool :=
  l.all fun it => match it with | .con a b => cons.contains (a, b) | _ => false

theorem allGridBlocks_spec (blocks : List Str) (l : List Item) (h : allGridBlocks blocks l = true) :
    ∀ it ∈ l, ∃ n, it = .blk n ∧ n ∈ blocks := by
  intro it hi
  have := List.all_eq_true.mp h it hi
  cases it with
  | blk n => exact ⟨n, rfl, by simpa using this⟩
  | con _ _ => cases this
  | gen _ _ _ => cases this
  | str _ => cases this
  | tup _ _ => cases this

theorem allGridCons_spec (cons : List (Str × Str)) (l : List Item) (h : allGridCons cons l = true) :
    ∀ it ∈ l, ∃ a b, it = .con a b ∧ (a, b) ∈ cons := by
  intro it hi
  have := List.all_eq_true.mp h it hi
  cases it with
  | con a b => exact ⟨a, b, rfl, by simpa using this⟩
  | blk _ => cases this
  | gen _ _ _ => cases this
  | str _ => cases this
  | tup _ _ => cases this

end Proofs.Convert
