/-
  Helper lemmas about the Python string primitives (core Lean only).
-/
import PyTough.Py.Num
namespace Py

theorem rstripBy_prefix (p : Char → Bool) (l : Str) : rstripBy p l <+: l := by
  unfold rstripBy
  have h : l.reverse.dropWhile p <:+ l.reverse := List.dropWhile_suffix p
  have := List.reverse_prefix.mpr h
  simpa using this

theorem lstripBy_head (p : Char → Bool) (l : Str) (c : Char) (r : Str)
    (h : lstripBy p l = c :: r) : p c = false := by
  unfold lstripBy at h
  have hne : l.dropWhile p ≠ [] := by rw [h]; simp
  have := List.head_dropWhile_not p hne
  simpa [h] using this

/-- the first character of a non-empty stripped string is not strippable -/
theorem stripBy_head (p : Char → Bool) (l : Str) (c : Char) (r : Str)
    (h : stripBy p l = c :: r) : p c = false := by
  unfold stripBy at h
  have hp := rstripBy_prefix p (lstripBy p l)
  rw [h] at hp
  obtain ⟨t, ht⟩ := hp
  exact lstripBy_head p l c (r ++ t) (by rw [← ht]; simp)

theorem stripBy_sublist (p : Char → Bool) (l : Str) : (stripBy p l).Sublist l := by
  unfold stripBy
  exact ((rstripBy_prefix p _).sublist).trans (List.dropWhile_sublist p)

theorem mem_of_mem_stripBy {p : Char → Bool} {l : Str} {c : Char} (h : c ∈ stripBy p l) : c ∈ l :=
  (stripBy_sublist p l).subset h

/-- every character dropped by `stripBy p` satisfies `p`; every other one is kept -/
theorem mem_stripBy_of_not {p : Char → Bool} {l : Str} {c : Char} (h : c ∈ l) (hc : p c = false) :
    c ∈ stripBy p l := by
  unfold stripBy rstripBy lstripBy
  have h1 : c ∈ l.dropWhile p := by
    induction l with
    | nil => simp at h
    | cons x xs ih =>
      rw [List.dropWhile_cons]
      split
      · rename_i hx
        rcases List.mem_cons.mp h with rfl | h'
        · simp_all
        · exact ih h'
      · exact h
  have h2 : ∀ (m : Str), c ∈ m → c ∈ m.dropWhile p := by
    intro m hm
    induction m with
    | nil => simp at hm
    | cons x xs ih =>
      rw [List.dropWhile_cons]
      split
      · rename_i hx
        rcases List.mem_cons.mp hm with rfl | h'
        · simp_all
        · exact ih h'
      · exact hm
  have := h2 (l.dropWhile p).reverse (by simpa using h1)
  simpa using this

theorem stripBy_all (p : Char → Bool) (l : Str) (h : ∀ c ∈ l, p c = true) : stripBy p l = [] := by
  cases hs : stripBy p l with
  | nil => rfl
  | cons c r =>
    have h1 := stripBy_head p l c r hs
    have h2 : c ∈ l := mem_of_mem_stripBy (by rw [hs]; simp)
    rw [h _ h2] at h1; cases h1

theorem mem_replaceChar_of_ne {c x : Char} {t l : Str} (h : x ∈ l) (hx : x ≠ c) :
    x ∈ replaceChar c t l := by
  induction l with
  | nil => simp at h
  | cons y ys ih =>
    unfold replaceChar
    rcases List.mem_cons.mp h with rfl | h'
    · simp [hx]
    · split
      · exact List.mem_append_right _ (ih h')
      · exact List.mem_cons_of_mem _ (ih h')

theorem mem_replaceChar {c x : Char} {t l : Str} (h : x ∈ replaceChar c t l) :
    x ∈ l ∨ x ∈ t := by
  induction l with
  | nil => simp [replaceChar] at h
  | cons y ys ih =>
    unfold replaceChar at h
    split at h
    · rcases List.mem_append.mp h with h | h
      · exact Or.inr h
      · rcases ih h with h | h
        · exact Or.inl (List.mem_cons_of_mem _ h)
        · exact Or.inr h
    · rcases List.mem_cons.mp h with rfl | h
      · exact Or.inl (by simp)
      · rcases ih h with h | h
        · exact Or.inl (List.mem_cons_of_mem _ h)
        · exact Or.inr h

theorem removeUnderscores_mem {c : Char} {l : Str} (h : c ∈ removeUnderscores l) : c ∈ l := by
  unfold removeUnderscores at h
  exact (List.mem_filter.mp h).1

theorem mem_removeUnderscores {c : Char} {l : Str} (h : c ∈ l) (hc : c ≠ '_') : c ∈ removeUnderscores l := by
  unfold removeUnderscores
  exact List.mem_filter.mpr ⟨h, by simpa using hc⟩

/-! ### generic list facts -/

theorem span_loop_eq (p : Char → Bool) (l acc : Str) :
    List.span.loop p l acc = (acc.reverse ++ l.takeWhile p, l.dropWhile p) := by
  induction l generalizing acc with
  | nil => simp [List.span.loop]
  | cons x xs ih =>
    unfold List.span.loop
    cases hx : p x with
    | true => simp [ih, hx]
    | false => simp [hx]

theorem span_eq (p : Char → Bool) (l : Str) : l.span p = (l.takeWhile p, l.dropWhile p) := by
  unfold List.span; rw [span_loop_eq]; simp

theorem mem_takeWhile_imp {p : Char → Bool} {l : Str} {c : Char} (h : c ∈ l.takeWhile p) :
    p c = true := by
  induction l with
  | nil => simp at h
  | cons x xs ih =>
    rw [List.takeWhile_cons] at h
    split at h
    · rcases List.mem_cons.mp h with rfl | h'
      · assumption
      · exact ih h'
    · simp at h

theorem dropWhile_none {p : Char → Bool} {l : Str} (h : ∀ c ∈ l, p c = false) :
    l.dropWhile p = l := by
  cases l with
  | nil => rfl
  | cons x xs => rw [List.dropWhile_cons]; simp [h x (by simp)]

theorem takeWhile_none {p : Char → Bool} {l : Str} (h : ∀ x r, l = x :: r → p x = false) :
    l.takeWhile p = [] := by
  cases l with
  | nil => rfl
  | cons x xs => rw [List.takeWhile_cons]; simp [h x xs rfl]

theorem dropWhile_head {p : Char → Bool} {l : Str} (h : ∀ x r, l = x :: r → p x = false) :
    l.dropWhile p = l := by
  cases l with
  | nil => rfl
  | cons x xs => rw [List.dropWhile_cons]; simp [h x xs rfl]

/-- a run of `p`-characters followed by something that does not start with one -/
theorem span_append {p : Char → Bool} {ds rest : Str} (hd : ∀ c ∈ ds, p c = true)
    (hr : ∀ x r, rest = x :: r → p x = false) :
    (ds ++ rest).span p = (ds, rest) := by
  rw [span_eq, List.takeWhile_append_of_pos hd, List.dropWhile_append_of_pos hd,
    takeWhile_none hr, dropWhile_head hr]; simp

theorem stripBy_none {p : Char → Bool} {l : Str} (h : ∀ c ∈ l, p c = false) : stripBy p l = l := by
  unfold stripBy rstripBy lstripBy
  rw [dropWhile_none h, dropWhile_none (l := l.reverse) (by simpa using h)]; simp

theorem stripBy_decomp (p : Char → Bool) (l : Str) :
    ∃ a b, l = a ++ stripBy p l ++ b ∧ (∀ c ∈ a, p c = true) ∧ (∀ c ∈ b, p c = true) := by
  refine ⟨l.takeWhile p, ((l.dropWhile p).reverse.takeWhile p).reverse, ?_, ?_, ?_⟩
  · unfold stripBy rstripBy lstripBy
    have h1 : (List.dropWhile p (List.dropWhile p l).reverse).reverse ++
        (List.takeWhile p (List.dropWhile p l).reverse).reverse = l.dropWhile p := by
      rw [← List.reverse_append, List.takeWhile_append_dropWhile, List.reverse_reverse]
    rw [List.append_assoc, h1, List.takeWhile_append_dropWhile]
  · intro c hc; exact mem_takeWhile_imp hc
  · intro c hc; exact mem_takeWhile_imp (List.mem_reverse.mp hc)

/-! ### replaceChar -/

theorem replaceChar_append (c : Char) (t a b : Str) :
    replaceChar c t (a ++ b) = replaceChar c t a ++ replaceChar c t b := by
  induction a with
  | nil => simp [replaceChar]
  | cons x xs ih =>
    simp only [List.cons_append, replaceChar]
    split <;> simp [ih]

theorem replaceChar_of_not_mem {c : Char} {t l : Str} (h : c ∉ l) : replaceChar c t l = l := by
  induction l with
  | nil => simp [replaceChar]
  | cons x xs ih =>
    simp only [List.mem_cons, not_or] at h
    unfold replaceChar
    rw [if_neg (fun e => h.1 e.symm), ih h.2]

theorem replaceChar_nil_eq_filter (c : Char) (l : Str) :
    replaceChar c [] l = l.filter (· != c) := by
  induction l with
  | nil => simp [replaceChar]
  | cons x xs ih =>
    unfold replaceChar
    by_cases hx : x = c
    · simp [hx, ih]
    · simp [hx, ih]

theorem filter_replaceChar {c x : Char} {t : Str} (hcx : c ≠ x) (ht : x ∉ t) (l : Str) :
    (replaceChar c t l).filter (· != x) = replaceChar c t (l.filter (· != x)) := by
  induction l with
  | nil => simp [replaceChar]
  | cons y ys ih =>
    by_cases hy : y = c
    · subst hy
      have : (y != x) = true := by simpa using hcx
      have ht' : t.filter (· != x) = t := by
        rw [List.filter_eq_self]; intro a ha
        have : a ≠ x := fun e => ht (e ▸ ha)
        simpa using this
      simp [replaceChar, this, ih, ht']
    · by_cases hyx : y = x
      · subst hyx
        simp [replaceChar, hy, ih]
      · simp [replaceChar, hy, hyx, ih]


/-! ### characters -/

theorem isDigit_mem {c : Char} (h : isDigit c = true) :
    c ∈ ['0','1','2','3','4','5','6','7','8','9'] := by
  unfold isDigit at h
  simp only [Bool.and_eq_true, decide_eq_true_eq, Char.le_def] at h
  obtain ⟨h1, h2⟩ := h
  have e : c = Char.ofNat c.toNat := (Char.ofNat_toNat c).symm
  have h1' : 48 ≤ c.toNat := by
    have := UInt32.le_iff_toNat_le.mp h1; simpa using this
  have h2' : c.toNat ≤ 57 := by
    have := UInt32.le_iff_toNat_le.mp h2; simpa using this
  generalize c.toNat = n at e h1' h2'
  have : n = 48 ∨ n = 49 ∨ n = 50 ∨ n = 51 ∨ n = 52 ∨ n = 53 ∨ n = 54 ∨ n = 55 ∨ n = 56 ∨ n = 57 := by omega
  rcases this with h|h|h|h|h|h|h|h|h|h <;> subst h <;> subst e <;> decide

/-- to prove a (decidable) fact about every digit, check the ten digits -/
theorem isDigit_elim {c : Char} (h : isDigit c = true) {P : Char → Prop}
    (hP : ∀ d ∈ ['0','1','2','3','4','5','6','7','8','9'], P d) : P c := hP c (isDigit_mem h)

theorem lowerChar_digit {c : Char} (h : isDigit c = true) : lowerChar c = c :=
  isDigit_elim h (P := fun d => lowerChar d = d) (by decide)

theorem lowerChar_cases (c : Char) : lowerChar c = c ∨ lowerChar c ∈ ['a','b','c','d','e','f','g','h','i','j','k','l','m','n','o','p','q','r','s','t','u','v','w','x','y','z'] := by
  unfold lowerChar
  split <;> simp

theorem lowerChar_idem (c : Char) : lowerChar (lowerChar c) = lowerChar c := by
  rcases lowerChar_cases c with h | h
  · simp [h]
  · simp only [List.mem_cons, List.not_mem_nil, or_false] at h
    rcases h with h|h|h|h|h|h|h|h|h|h|h|h|h|h|h|h|h|h|h|h|h|h|h|h|h|h <;> rw [h] <;> decide

theorem isNumWs_lowerChar (c : Char) : isNumWs (lowerChar c) = isNumWs c := by
  unfold lowerChar
  split <;> first | rfl | decide

theorem isStrWs_lowerChar (c : Char) : isStrWs (lowerChar c) = isStrWs c := by
  unfold lowerChar
  split <;> first | rfl | decide

theorem lowerChar_ne_blank (c : Char) : (lowerChar c != ' ') = (c != ' ') := by
  unfold lowerChar
  split <;> first | rfl | decide

theorem filter_lower (l : Str) : (lower l).filter (· != ' ') = lower (l.filter (· != ' ')) := by
  unfold lower
  rw [List.filter_map]
  congr 1
  apply List.filter_congr
  intro c _
  simp only [Function.comp]
  exact lowerChar_ne_blank c

theorem mem_lower {c : Char} {l : Str} (h : c ∈ l) : lowerChar c ∈ lower l :=
  List.mem_map_of_mem h

theorem lower_fixed {l : Str} (h : ∀ c ∈ l, lowerChar c = c) : lower l = l := by
  unfold lower
  induction l with
  | nil => rfl
  | cons x xs ih =>
    simp only [List.map_cons]
    rw [h x (by simp), ih (fun c hc => h c (List.mem_cons_of_mem _ hc))]

theorem lower_append (a b : Str) : lower (a ++ b) = lower a ++ lower b := by
  simp [lower]

/-! ### the parsers, stage by stage -/

theorem takeSign_cases (s : Str) :
    (takeSign s = (true, s.drop 1) ∧ ∃ t, s = '-' :: t) ∨
    (takeSign s = (false, s.drop 1) ∧ ∃ t, s = '+' :: t) ∨
    (takeSign s = (false, s) ∧ ∀ x r, s = x :: r → x ≠ '-' ∧ x ≠ '+') := by
  unfold takeSign
  split
  · left; simp
  · right; left; simp
  · right; right
    refine ⟨rfl, ?_⟩
    intro x r h
    subst h
    rename_i h1 h2
    exact ⟨fun e => h1 r (by rw [e]), fun e => h2 r (by rw [e])⟩

theorem takeSign_nosign {s : Str} (h : ∀ x r, s = x :: r → x ≠ '-' ∧ x ≠ '+') :
    takeSign s = (false, s) := by
  rcases takeSign_cases s with ⟨_, t, rfl⟩ | ⟨_, t, rfl⟩ | ⟨h', _⟩
  · exact absurd rfl (h _ _ rfl).1
  · exact absurd rfl (h _ _ rfl).2
  · exact h'

/-- exponent digits after the `e` -/
def parseExpTail (r : Str) : Option Int :=
  let ed := (takeSign r).2.takeWhile isDigit
  let r2 := (takeSign r).2.dropWhile isDigit
  if ed.isEmpty || !r2.isEmpty then none
  else some (if (takeSign r).1 then -(digitsVal ed : Int) else (digitsVal ed : Int))

theorem parseExp_cons (c : Char) (r : Str) :
    parseExp (c :: r) = if c = 'e' || c = 'E' then parseExpTail r else none := by
  unfold parseExp parseExpTail
  simp only [span_eq]

def fracPart (r1 : Str) : Str × Str :=
  match r1 with
  | '.' :: t => t.span isDigit
  | _ => ([], r1)

theorem fracPart_dot (t : Str) : fracPart ('.' :: t) = (t.takeWhile isDigit, t.dropWhile isDigit) := by
  simp [fracPart, span_eq]

theorem fracPart_other {r1 : Str} (h : ∀ x r, r1 = x :: r → x ≠ '.') : fracPart r1 = ([], r1) := by
  unfold fracPart
  split
  · exact absurd rfl (h _ _ rfl)
  · rfl

def parseNum (neg : Bool) (s1 : Str) : Option FVal :=
  let ip := s1.takeWhile isDigit
  let r1 := s1.dropWhile isDigit
  let fp := (fracPart r1).1
  let r2 := (fracPart r1).2
  if ip.isEmpty && fp.isEmpty then none
  else match parseExp r2 with
    | some e => some (.fin neg (digitsVal (ip ++ fp)) (e - fp.length))
    | none => none

def parseBody (neg : Bool) (s1 : Str) : Option FVal :=
  if lower s1 = ['i','n','f'] || lower s1 = ['i','n','f','i','n','i','t','y'] then some (.inf neg)
  else if lower s1 = ['n','a','n'] then some .nan
  else parseNum neg s1

theorem parseDecimal_eq (s : Str) :
    parseDecimal s = parseBody (takeSign s).1 (takeSign s).2 := by
  unfold parseDecimal parseBody parseNum fracPart
  simp only [span_eq]
  rfl

end Py
