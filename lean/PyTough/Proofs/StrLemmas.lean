/-
  Helper lemmas about the Python string primitives (core Lean only).
-/
import PyTough.Py.Num
namespace Py

theorem rstripBy_prefix (p : Char → Bool) (l : Str) : rstripBy p l <+: l := by
  unfold rstripBy
  have h : l.reverse.dropWhile p <:+ l.reverse := List.dropWhile_suffix p
  have := List.reverse_prefix.mpr h
  simpa using this

theorem lstripBy_head (p : Char → Bool) (l : Str) (c : Char) (r : Str)
    (h : lstripBy p l = c :: r) : p c = false := by
  unfold lstripBy at h
  have hne : l.dropWhile p ≠ [] := by rw [h]; simp
  have := List.head_dropWhile_not p hne
  simpa [h] using this

/-- the first character of a non-empty stripped string is not strippable -/
theorem stripBy_head (p : Char → Bool) (l : Str) (c : Char) (r : Str)
    (h : stripBy p l = c :: r) : p c = false := by
  unfold stripBy at h
  have hp := rstripBy_prefix p (lstripBy p l)
  rw [h] at hp
  obtain ⟨t, ht⟩ := hp
  exact lstripBy_head p l c (r ++ t) (by rw [← ht]; simp)

theorem stripBy_sublist (p : Char → Bool) (l : Str) : (stripBy p l).Sublist l := by
  unfold stripBy
  exact ((rstripBy_prefix p _).sublist).trans (List.dropWhile_sublist p)

theorem mem_of_mem_stripBy {p : Char → Bool} {l : Str} {c : Char} (h : c ∈ stripBy p l) : c ∈ l :=
  (stripBy_sublist p l).subset h

/-- every character dropped by `stripBy p` satisfies `p`; every other one is kept -/
theorem mem_stripBy_of_not {p : Char → Bool} {l : Str} {c : Char} (h : c ∈ l) (hc : p c = false) :
    c ∈ stripBy p l := by
  unfold stripBy rstripBy lstripBy
  have h1 : c ∈ l.dropWhile p := by
    induction l with
    | nil => simp at h
    | cons x xs ih =>
      rw [List.dropWhile_cons]
      split
      · rename_i hx
        rcases List.mem_cons.mp h with rfl | h'
        · simp_all
        · exact ih h'
      · exact h
  have h2 : ∀ (m : Str), c ∈ m → c ∈ m.dropWhile p := by
    intro m hm
    induction m with
    | nil => simp at hm
    | cons x xs ih =>
      rw [List.dropWhile_cons]
      split
      · rename_i hx
        rcases List.mem_cons.mp hm with rfl | h'
        · simp_all
        · exact ih h'
      · exact hm
  have := h2 (l.dropWhile p).reverse (by simpa using h1)
  simpa using this

theorem stripBy_all (p : Char → Bool) (l : Str) (h : ∀ c ∈ l, p c = true) : stripBy p l = [] := by
  cases hs : stripBy p l with
  | nil => rfl
  | cons c r =>
    have h1 := stripBy_head p l c r hs
    have h2 : c ∈ l := mem_of_mem_stripBy (by rw [hs]; simp)
    rw [h _ h2] at h1; cases h1

theorem mem_replaceChar_of_ne {c x : Char} {t l : Str} (h : x ∈ l) (hx : x ≠ c) :
    x ∈ replaceChar c t l := by
  induction l with
  | nil => simp at h
  | cons y ys ih =>
    unfold replaceChar
    rcases List.mem_cons.mp h with rfl | h'
    · simp [hx]
    · split
      · exact List.mem_append_right _ (ih h')
      · exact List.mem_cons_of_mem _ (ih h')

theorem mem_replaceChar {c x : Char} {t l : Str} (h : x ∈ replaceChar c t l) :
    x ∈ l ∨ x ∈ t := by
  induction l with
  | nil => simp [replaceChar] at h
  | cons y ys ih =>
    unfold replaceChar at h
    split at h
    · rcases List.mem_append.mp h with h | h
      · exact Or.inr h
      · rcases ih h with h | h
        · exact Or.inl (List.mem_cons_of_mem _ h)
        · exact Or.inr h
    · rcases List.mem_cons.mp h with rfl | h
      · exact Or.inl (by simp)
      · rcases ih h with h | h
        · exact Or.inl (List.mem_cons_of_mem _ h)
        · exact Or.inr h

theorem removeUnderscores_mem {c : Char} {l : Str} (h : c ∈ removeUnderscores l) : c ∈ l := by
  unfold removeUnderscores at h
  exact (List.mem_filter.mp h).1

theorem mem_removeUnderscores {c : Char} {l : Str} (h : c ∈ l) (hc : c ≠ '_') : c ∈ removeUnderscores l := by
  unfold removeUnderscores
  exact List.mem_filter.mpr ⟨h, by simpa using hc⟩

end Py
