/-
  Proofs for C04, part 1: the block list and the connection list built by `fromgeo`
  are the announced name lists (core Lean only).
-/
import PyTough.Model.FromGeo
namespace Proofs.FromGeo
open Py Model.FromGeo

/-! ### `add_block` / `add_connection` on the level of names -/

def pushName {α} [DecidableEq α] (acc : List α) (p : α) : List α := if p ∈ acc then acc else acc ++ [p]
def pushNames {α} [DecidableEq α] (acc : List α) (ps : List α) : List α := ps.foldl pushName acc
theorem pushNames_nil {α} [DecidableEq α] (acc : List α) : pushNames acc [] = acc := rfl
theorem pushNames_cons {α} [DecidableEq α] (acc : List α) (p : α) (ps : List α) :
    pushNames acc (p :: ps) = pushNames (pushName acc p) ps := rfl
theorem pushNames_append {α} [DecidableEq α] (acc ps qs : List α) :
    pushNames acc (ps ++ qs) = pushNames (pushNames acc ps) qs := by
  simp [pushNames, List.foldl_append]

theorem pushNames_nodup {α} [DecidableEq α] (acc ps : List α) (h : (acc ++ ps).Nodup) :
    pushNames acc ps = acc ++ ps := by
  induction ps generalizing acc with
  | nil => simp [pushNames]
  | cons p ps ih =>
    have hp : p ∉ acc := by
      intro hm
      have := List.nodup_append.1 h
      exact this.2.2 p hm p (List.mem_cons_self) rfl
    simp only [pushNames, List.foldl_cons, pushName, hp, if_false]
    have := ih (acc ++ [p]) (by simpa using h)
    simpa [pushNames] using this

theorem addBlock_names (bs : List Block) (b : Block) :
    (addBlock bs b).map (·.name) = pushName (bs.map (·.name)) b.name := by
  unfold addBlock pushName
  by_cases h : b.name ∈ bs.map (·.name)
  · have : bs.any (fun x => decide (x.name = b.name)) = true := by
      simp only [List.any_eq_true, decide_eq_true_eq]
      simp only [List.mem_map] at h
      obtain ⟨x, hx, hxe⟩ := h
      exact ⟨x, hx, hxe⟩
    simp only [this, if_true, h]
    rw [List.map_map]
    apply List.map_congr_left
    intro x _
    simp only [Function.comp]
    split <;> simp_all
  · have : bs.any (fun x => decide (x.name = b.name)) = false := by
      simp only [List.any_eq_false, decide_eq_true_eq]
      intro x hx hxe
      exact h (List.mem_map.2 ⟨x, hx, hxe⟩)
    simp [this, h]

theorem addConn_names (cs : List TConn) (c : TConn) :
    (addConn cs c).map TConn.names = pushName (cs.map TConn.names) c.names := by
  unfold addConn pushName
  by_cases h : c.names ∈ cs.map TConn.names
  · have : cs.any (fun x => decide (x.names = c.names)) = true := by
      simp only [List.any_eq_true, decide_eq_true_eq]
      simp only [List.mem_map] at h
      obtain ⟨x, hx, hxe⟩ := h
      exact ⟨x, hx, hxe⟩
    simp only [this, if_true, h]
    rw [List.map_map]
    apply List.map_congr_left
    intro x _
    simp only [Function.comp]
    split <;> simp_all
  · have : cs.any (fun x => decide (x.names = c.names)) = false := by
      simp only [List.any_eq_false, decide_eq_true_eq]
      intro x hx hxe
      exact h (List.mem_map.2 ⟨x, hx, hxe⟩)
    simp [this, h]

theorem applyMap_nil (n : Str) : applyMap [] n = n := by
  simp [applyMap, List.lookup]

theorem blockName_map (conv : Nat) (l c : Str) (m : BlockMap) :
    blockName conv l c m = match blockName conv l c [] with
      | .ok n => .ok (applyMap m n)
      | .error e => .error e := by
  unfold blockName
  cases fixBlockname (rawName conv l c) <;> simp [applyMap_nil]

theorem blockName_map_ok {conv : Nat} {l c : Str} {n : Str} (m : BlockMap)
    (h : blockName conv l c [] = .ok n) : blockName conv l c m = .ok (applyMap m n) := by
  unfold blockName at h ⊢
  cases hf : fixBlockname (rawName conv l c) <;> simp [hf, applyMap_nil] at h ⊢
  rw [h]

theorem blockName_map_err {conv : Nat} {l c : Str} {e : Exc} (m : BlockMap)
    (h : blockName conv l c [] = .error e) : blockName conv l c m = .error e := by
  unfold blockName at h ⊢
  cases hf : fixBlockname (rawName conv l c) <;> simp [hf, applyMap_nil] at h ⊢
  exact h

theorem findBlock_name {bs : List Block} {n : Str} {b : Block} (h : findBlock bs n = .ok b) : b.name = n := by
  unfold findBlock at h
  split at h
  · rename_i b' hb
    cases h
    have := List.find?_some hb
    simpa using this
  · cases h

theorem layerBlockNames_length (conv : Nat) (lay : Layer) :
    ∀ (cols : List Column) (ns : List Str), layerBlockNames conv lay cols = .ok ns → ns.length = cols.length := by
  intro cols
  induction cols with
  | nil => intro ns h; simp [layerBlockNames] at h; subst h; rfl
  | cons c cs ih =>
    intro ns h
    simp only [layerBlockNames] at h
    split at h
    · cases h
    · split at h
      · cases h
      · rename_i n hn ns' hns
        cases h
        simp [ih ns' hns]

theorem addAtmColumns_names (g : Geo) (m : BlockMap) :
    ∀ (cols : List Column) (bs bs' : List Block) (ns : List Str),
      layerBlockNames g.convention g.layer0 cols = .ok ns →
      addAtmColumns g m bs cols = .ok bs' →
      bs'.map (·.name) = pushNames (bs.map (·.name)) (ns.map (applyMap m)) := by
  intro cols
  induction cols with
  | nil =>
    intro bs bs' ns h1 h2
    simp [layerBlockNames] at h1; subst h1
    simp [addAtmColumns] at h2; subst h2; rfl
  | cons c cs ih =>
    intro bs bs' ns h1 h2
    simp only [layerBlockNames] at h1
    simp only [addAtmColumns] at h2
    rw [blockName_map] at h2
    split at h1
    · cases h1
    · rename_i n hn
      split at h1
      · cases h1
      · rename_i ns' hns
        cases h1
        rw [hn] at h2
        simp only at h2
        have := ih _ _ _ hns h2
        rw [this, addBlock_names, List.map_cons, pushNames_cons]

theorem addUnderground_names (g : Geo) (m : BlockMap) :
    ∀ (rest : List Str) (bs bs' : List Block),
      addUnderground g m bs rest = .ok bs' →
      bs'.map (·.name) = pushNames (bs.map (·.name)) (rest.map (applyMap m)) := by
  intro rest
  induction rest with
  | nil => intro bs bs' h; simp [addUnderground] at h; subst h; rfl
  | cons nm rest ih =>
    intro bs bs' h
    simp only [addUnderground] at h
    split at h
    · cases h
    · split at h
      · cases h
      · have := ih _ _ h
        rw [this, addBlock_names, List.map_cons, pushNames_cons]

theorem atm_part (g : Geo) (m : BlockMap) (a : List Str) (bs0 : List Block) (n : Nat)
    (ha : atmNames g = .ok a) (hb : addAtmosphereBlocks g m [] = .ok bs0) (hn : numAtmBlocks g = .ok n) :
    bs0.map (·.name) = pushNames [] (a.map (applyMap m)) ∧ n = a.length := by
  unfold atmNames at ha
  unfold addAtmosphereBlocks at hb
  unfold numAtmBlocks at hn
  by_cases h0 : g.atmType = 0
  · simp only [h0, if_true] at ha hb hn
    rw [blockName_map] at hb
    split at ha
    · rename_i n0 hn0
      cases ha
      rw [hn0] at hb
      simp only at hb
      cases hb; cases hn
      simp [addBlock_names, pushNames, pushName]
    · cases ha
  · by_cases h1 : g.atmType = 1
    · simp only [h1, if_true, if_false, Nat.one_ne_zero] at ha hb hn
      cases hn
      have := addAtmColumns_names g m _ _ _ _ ha hb
      exact ⟨by simpa using this, (layerBlockNames_length _ _ _ _ ha).symm⟩
    · simp only [h0, h1, if_false] at ha hb hn
      cases ha; cases hb
      split at hn
      · cases hn; simp [pushNames]
      · cases hn

theorem freshSplit (g : Geo) (hf : Fresh g) :
    ∃ a u, atmNames g = .ok a ∧ g.blockNames = a ++ u := by
  unfold Fresh blockNameList at hf
  split at hf
  · cases hf
  · rename_i a ha
    refine ⟨a, ?_⟩
    split at hf
    · split at hf
      · rename_i u _
        exact ⟨u, ha, (Except.ok.inj hf).symm⟩
      · cases hf
    · split at hf
      · split at hf
        · rename_i h w _
          exact ⟨h ++ w, ha, (Except.ok.inj hf).symm⟩
        · cases hf
      · cases hf

theorem addBlocks_names (g : Geo) (m : BlockMap) (bs : List Block) (hf : Fresh g)
    (hn : (g.blockNames.map (applyMap m)).Nodup) (h : addBlocks g m = .ok bs) :
    bs.map (·.name) = g.blockNames.map (applyMap m) := by
  obtain ⟨a, u, ha, hau⟩ := freshSplit g hf
  unfold addBlocks at h
  split at h
  · cases h
  · rename_i bs0 hb0
    split at h
    · cases h
    · rename_i n hnn
      obtain ⟨h1, h2⟩ := atm_part g m a bs0 n ha hb0 hnn
      have h3 := addUnderground_names g m _ _ _ h
      rw [h3, h1, hau, h2, List.drop_left, ← pushNames_append, ← List.map_append]
      rw [hau] at hn
      rw [pushNames_nodup [] _ (by simpa using hn)]
      simp

theorem vertConn_name (g : Geo) (m : BlockMap) (bs : List Block) (first : Bool) (above lay : Layer)
    (col : Column) (o : Option TConn)
    (hbn : bs.map (·.name) = g.blockNames.map (applyMap m))
    (h : vertConn g m bs first above lay col = .ok o) :
    ∃ o', vertName g first above lay col = .ok o' ∧ o.map TConn.names = o'.map (mapPair m) := by
  unfold vertConn at h
  unfold vertName
  cases hthis : blockName g.convention lay.name col.name [] with
  | error e => rw [blockName_map_err m hthis] at h; cases h
  | ok this =>
    rw [blockName_map_ok m hthis] at h
    simp only at h ⊢
    cases hfb : findBlock bs (applyMap m this) with
    | error e => rw [hfb] at h; cases h
    | ok thisblk =>
      rw [hfb] at h
      simp only at h
      have hname := findBlock_name hfb
      by_cases hc : (first = true ∨ col.surface ≤ lay.top)
      · simp only [hc, if_true] at h ⊢
        cases hz : centreZ thisblk with
        | error e => rw [hz] at h; cases h
        | ok cz =>
          rw [hz] at h
          simp only at h
          by_cases h0 : g.atmType = 0
          · simp only [h0, if_true] at h ⊢
            cases hh : bs.head? with
            | none => rw [hh] at h; cases h
            | some ab =>
              rw [hh] at h
              simp only at h
              have : (bs.map (·.name)).head? = some ab.name := by simp [List.head?_map, hh]
              rw [hbn, List.head?_map] at this
              cases ha : g.blockNames.head? with
              | none => rw [ha] at this; cases this
              | some a =>
                rw [ha] at this
                simp only [Option.map_some, Option.some.injEq] at this
                cases h
                exact ⟨_, rfl, by simp [TConn.names, mapPair, hname, this]⟩
          · by_cases h1 : g.atmType = 1
            · simp only [h1, if_true, if_false, Nat.one_ne_zero] at h ⊢
              cases han : blockName g.convention g.layer0.name col.name [] with
              | error e => rw [blockName_map_err m han] at h; cases h
              | ok an =>
                rw [blockName_map_ok m han] at h
                simp only at h ⊢
                cases hfa : findBlock bs (applyMap m an) with
                | error e => rw [hfa] at h; cases h
                | ok ab =>
                  rw [hfa] at h
                  cases h
                  exact ⟨_, rfl, by simp [TConn.names, mapPair, hname, findBlock_name hfa]⟩
            · simp only [h0, h1, if_false] at h ⊢
              cases h
              exact ⟨none, rfl, rfl⟩
      · simp only [hc, if_false] at h ⊢
        cases han : blockName g.convention above.name col.name [] with
        | error e => rw [blockName_map_err m han] at h; cases h
        | ok an =>
          rw [blockName_map_ok m han] at h
          simp only at h ⊢
          cases hfa : findBlock bs (applyMap m an) with
          | error e => rw [hfa] at h; cases h
          | ok ab =>
            rw [hfa] at h
            simp only at h
            cases hz : centreZ ab with
            | error e => rw [hz] at h; cases h
            | ok az =>
              rw [hz] at h
              cases h
              exact ⟨_, rfl, by simp [TConn.names, mapPair, hname, findBlock_name hfa]⟩


theorem horizConn_name (g : Geo) (m : BlockMap) (bs : List Block) (lay : Layer) (k : Conn) (c : TConn)
    (h : horizConn g m bs lay k = .ok c) :
    ∃ p, horizName g.convention lay k = .ok p ∧ c.names = mapPair m p := by
  unfold horizConn at h
  unfold horizName
  cases h0 : blockName g.convention lay.name k.col0.name [] with
  | error e => rw [blockName_map_err m h0] at h; cases h
  | ok a =>
    rw [blockName_map_ok m h0] at h
    simp only at h ⊢
    cases hf0 : findBlock bs (applyMap m a) with
    | error e => rw [hf0] at h; cases h
    | ok b0 =>
      rw [hf0] at h
      simp only at h
      cases h1 : blockName g.convention lay.name k.col1.name [] with
      | error e => rw [blockName_map_err m h1] at h; cases h
      | ok b =>
        rw [blockName_map_ok m h1] at h
        simp only at h ⊢
        cases hf1 : findBlock bs (applyMap m b) with
        | error e => rw [hf1] at h; cases h
        | ok b1 =>
          rw [hf1] at h
          simp only at h
          split at h
          · cases h
          · split at h
            · cases h
            · split at h
              · cases h
              · cases h
                exact ⟨_, rfl, by simp [TConn.names, mapPair, findBlock_name hf0, findBlock_name hf1]⟩

theorem addVertical_names (g : Geo) (m : BlockMap) (bs : List Block) (first : Bool) (above lay : Layer)
    (hbn : bs.map (·.name) = g.blockNames.map (applyMap m)) :
    ∀ (cols : List Column) (cs cs' : List TConn), addVertical g m bs first above lay cs cols = .ok cs' →
      ∃ v, vertNames g first above lay cols = .ok v ∧
        cs'.map TConn.names = pushNames (cs.map TConn.names) (v.map (mapPair m)) := by
  intro cols
  induction cols with
  | nil =>
    intro cs cs' h
    simp only [addVertical] at h
    cases h
    exact ⟨[], rfl, rfl⟩
  | cons col rest ih =>
    intro cs cs' h
    simp only [addVertical] at h
    simp only [vertNames]
    cases hv : vertConn g m bs first above lay col with
    | error e => rw [hv] at h; cases h
    | ok o =>
      obtain ⟨o', ho', hoo⟩ := vertConn_name g m bs first above lay col o hbn hv
      rw [hv] at h
      rw [ho']
      cases o with
      | none =>
        simp only at h
        obtain ⟨v, hvn, hres⟩ := ih _ _ h
        cases o' with
        | none => exact ⟨v, by simp [hvn], hres⟩
        | some p => cases hoo
      | some c =>
        simp only at h
        obtain ⟨v, hvn, hres⟩ := ih _ _ h
        cases o' with
        | none => cases hoo
        | some p =>
          simp only [Option.map_some, Option.some.injEq] at hoo
          refine ⟨p :: v, by simp [hvn], ?_⟩
          rw [hres, addConn_names, List.map_cons, pushNames_cons, hoo]

theorem addHorizontal_names (g : Geo) (m : BlockMap) (bs : List Block) (lay : Layer) :
    ∀ (ks : List Conn) (cs cs' : List TConn), addHorizontal g m bs lay cs ks = .ok cs' →
      ∃ v, horizNames g.convention lay ks = .ok v ∧
        cs'.map TConn.names = pushNames (cs.map TConn.names) (v.map (mapPair m)) := by
  intro ks
  induction ks with
  | nil =>
    intro cs cs' h
    simp only [addHorizontal] at h
    cases h
    exact ⟨[], rfl, rfl⟩
  | cons k rest ih =>
    intro cs cs' h
    simp only [addHorizontal] at h
    simp only [horizNames]
    cases hv : horizConn g m bs lay k with
    | error e => rw [hv] at h; cases h
    | ok c =>
      obtain ⟨p, hp, hcp⟩ := horizConn_name g m bs lay k c hv
      rw [hv] at h
      simp only at h
      obtain ⟨v, hvn, hres⟩ := ih _ _ h
      rw [hp]
      refine ⟨p :: v, by simp [hvn], ?_⟩
      rw [hres, addConn_names, List.map_cons, pushNames_cons, hcp]

theorem addConnsFrom_names (g : Geo) (m : BlockMap) (bs : List Block)
    (hbn : bs.map (·.name) = g.blockNames.map (applyMap m)) :
    ∀ (ls : List Layer) (first : Bool) (above : Layer) (cs cs' : List TConn),
      addConnsFrom g m bs first above cs ls = .ok cs' →
      ∃ L, connNamesFrom g first above ls = .ok L ∧
        cs'.map TConn.names = pushNames (cs.map TConn.names) (L.map (mapPair m)) := by
  intro ls
  induction ls with
  | nil =>
    intro first above cs cs' h
    simp only [addConnsFrom] at h
    cases h
    exact ⟨[], rfl, rfl⟩
  | cons lay ls ih =>
    intro first above cs cs' h
    simp only [addConnsFrom] at h
    simp only [connNamesFrom]
    cases hv : addVertical g m bs first above lay cs (layerCols g lay) with
    | error e => rw [hv] at h; cases h
    | ok cs1 =>
      rw [hv] at h
      simp only at h
      obtain ⟨v, hvn, hv1⟩ := addVertical_names g m bs first above lay hbn _ _ _ hv
      cases hh : addHorizontal g m bs lay cs1 (layerConns g (layerCols g lay)) with
      | error e => rw [hh] at h; cases h
      | ok cs2 =>
        rw [hh] at h
        simp only at h
        obtain ⟨w, hwn, hw1⟩ := addHorizontal_names g m bs lay _ _ _ hh
        obtain ⟨L, hL, hL1⟩ := ih _ _ _ _ h
        rw [hvn, hwn, hL]
        refine ⟨v ++ w ++ L, rfl, ?_⟩
        rw [hL1, hw1, hv1, List.map_append, List.map_append, pushNames_append, pushNames_append]

/-- the block list built by `fromgeo` carries the announced names -/
theorem fromgeo_blocks (g : Geo) (m : BlockMap) (T : Grid) (hf : Fresh g)
    (hn : (g.blockNames.map (applyMap m)).Nodup) (h : fromgeo g m = .ok T) :
    T.blocks.map (·.name) = g.blockNames.map (applyMap m) := by
  unfold fromgeo at h
  split at h
  · cases h
  · rename_i bs hb
    split at h
    · cases h
    · cases h
      exact addBlocks_names g m bs hf hn hb

/-- the connection list built by `fromgeo` carries the announced name pairs -/
theorem fromgeo_conns (g : Geo) (m : BlockMap) (T : Grid) (hf : Fresh g)
    (hn : (g.blockNames.map (applyMap m)).Nodup) (h : fromgeo g m = .ok T) :
    ∃ L, blockConnectionNameList g = .ok L ∧
      ((L.map (mapPair m)).Nodup → T.conns.map TConn.names = L.map (mapPair m)) := by
  unfold fromgeo at h
  split at h
  · cases h
  · rename_i bs hb
    have hbn := addBlocks_names g m bs hf hn hb
    split at h
    · cases h
    · rename_i cs hc
      cases h
      obtain ⟨L, hL, hres⟩ := addConnsFrom_names g m bs hbn _ _ _ _ _ hc
      refine ⟨L, hL, ?_⟩
      intro hnd
      rw [hres]
      simpa using pushNames_nodup [] _ (by simpa using hnd)

end Proofs.FromGeo
