/-
  A decision procedure for the hypotheses of `Props.C05.column_boundaries_correct` on a concrete line:
  split the line at given boundaries into prefix ++ fields ++ tail and check every side condition.
  `rowFormat_sound` shows that a positive answer really provides the hypotheses.  Core Lean only
  (the driver runs it on the longest line of every table of every file it opens).
-/
import PyTough.Proofs.ListingRows
namespace Proofs.Rows
open Py Model Model.Listing

def Cell.wfB (c : Cell) : Bool :=
  !c.pre.contains '.' && !c.pre.contains ' ' && !c.post.contains '.' && !c.post.contains ' '

theorem Cell.wfB_sound {c : Cell} (h : c.wfB = true) : c.WF := by
  simp only [Cell.wfB, Bool.and_eq_true, Bool.not_eq_true', List.contains_eq_mem, decide_eq_false_iff_not] at h
  exact ⟨h.1.1.1, h.1.1.2, h.1.2, h.2⟩

def sepB (a b : Cell) : Bool :=
  (decide (b.pad ≥ 1) && !b.pre.isEmpty) ||
  (decide (b.pad = 0) && decide (a.post.length ≥ 4) &&
    ((a.post.drop (a.post.length - 4)).head? == some 'E') && !(a.post.take (a.post.length - 4)).contains 'E')

theorem sepB_sound {a b : Cell} (h : sepB a b = true) : Sep a b := by
  unfold sepB at h
  rcases Bool.or_eq_true_iff.mp h with h1 | h2
  · left
    simp only [Bool.and_eq_true, decide_eq_true_eq, Bool.not_eq_true', List.isEmpty_eq_false_iff] at h1
    exact h1
  · right
    simp only [Bool.and_eq_true, decide_eq_true_eq, Bool.not_eq_true', beq_iff_eq, List.contains_eq_mem, decide_eq_false_iff_not] at h2
    obtain ⟨⟨⟨hp, hlen⟩, hE⟩, hno⟩ := h2
    refine ⟨hp, a.post.take (a.post.length - 4), ?_⟩
    have hsplit : a.post = a.post.take (a.post.length - 4) ++ a.post.drop (a.post.length - 4) := (List.take_append_drop _ _).symm
    have hdl : (a.post.drop (a.post.length - 4)).length = 4 := by simp; omega
    match hd : a.post.drop (a.post.length - 4), hdl with
    | [x, s, d1, d2], _ =>
      rw [hd] at hE
      simp at hE
      refine ⟨s, d1, d2, ?_, hno⟩
      rw [← hE, ← hd]; exact hsplit

def sepChainB : List Cell → Bool
  | a :: b :: r => sepB a b && sepChainB (b :: r)
  | _ => true

theorem sepChainB_sound : ∀ {l : List Cell}, sepChainB l = true → SepChain l
  | [], _ => trivial
  | [_], _ => trivial
  | a :: b :: r, h => by
    simp only [sepChainB, Bool.and_eq_true] at h
    exact ⟨sepB_sound h.1, sepChainB_sound h.2⟩

/-- the field text as a cell: leading blanks, then the text up to the first point, then the rest -/
def parseCell (field : Str) : Cell :=
  let pad := (field.takeWhile (· = ' ')).length
  let txt := field.drop pad
  { pad, pre := txt.takeWhile (· != '.'), post := (txt.dropWhile (· != '.')).drop 1 }

/-- split `line` at `bounds = [b₀, b₁, …, b_{n-1}]` (field starts); the last field ends before the trailing whitespace -/
def cutFields (line : Str) : List Nat → List Str
  | a :: b :: r => slice line a b :: cutFields line (b :: r)
  | [a] =>
    let rest := line.drop a
    [rstrip rest]
  | [] => []

/-- the check: with `P = line[:b₀]`, the fields cut at the boundaries and the tail (trailing whitespace of the line),
    the line is `P ++ fields ++ tail`, every side condition of the theorem holds and the boundaries are the field starts -/
def rowFormatB (line : Str) (bounds : List Nat) : Bool :=
  match bounds with
  | [] => false
  | b0 :: _ =>
    let P := line.take b0
    let cells := (cutFields line bounds).map parseCell
    let tail := line.drop (b0 + (cells.map Cell.width).sum)
    !P.contains '.' && !tail.contains '.' && cells.all Cell.wfB && sepChainB cells && !cells.isEmpty &&
      (P ++ (renderAll cells ++ tail) == line) && (starts P.length cells == bounds)

theorem rowFormat_sound (line : Str) (bounds : List Nat) (h : rowFormatB line bounds = true) :
    ∃ (P : Str) (cells : List Cell) (tail : Str),
      line = P ++ (renderAll cells ++ tail) ∧ '.' ∉ P ∧ '.' ∉ tail ∧ (∀ c ∈ cells, c.WF) ∧ SepChain cells ∧ cells ≠ [] ∧
      starts P.length cells = bounds := by
  unfold rowFormatB at h
  cases bounds with
  | nil => cases h
  | cons b0 r =>
    simp only [Bool.and_eq_true, Bool.not_eq_true', List.contains_eq_mem, decide_eq_false_iff_not, List.all_eq_true,
      beq_iff_eq, List.isEmpty_eq_false_iff] at h
    obtain ⟨⟨⟨⟨⟨⟨hP, ht⟩, hwf⟩, hsep⟩, hne⟩, hline⟩, hst⟩ := h
    exact ⟨_, _, _, hline.symm, hP, ht, fun c hc => Cell.wfB_sound (hwf c hc), sepChainB_sound hsep, hne, hst⟩

end Proofs.Rows
