/-
  C01 proofs, layer 3b: block names on the way out (`unfix_blockname`) and in (`fix_blockname`),
  and the sections that are lists of names (FOFT, COFT, GOFT).
-/
import PyTough.Proofs.T2DataSections
namespace Proofs.T2
open Py Model Model.T2 Proofs Proofs.Incon
open Gen.Sections (Rec)

theorem flatten_map_singleton {α β} (f : α → β) (l : List α) : (l.map (fun x => [f x])).flatten = l.map f := by
  induction l with
  | nil => rfl
  | cons a as ih => simp [ih]

/-- the name a block comes back with after one write (`unfix_blockname`) / read (`fix_blockname`) cycle -/
def cycleName (n : Str) : Str :=
  match fixBlockname (unfixBlockname n) with
  | .ok c => c
  | .error _ => n

theorem unfix_length {n : Str} (h : n.length = 5) : (unfixBlockname n).length = 5 := by
  obtain ⟨a, b, c, d, e, rfl⟩ := Proofs.Names.len5 h
  show (Model.Names.unfixBlockname [a, b, c, d, e]).length = 5
  rw [Proofs.Names.unfix5]
  split <;> rfl

/-- for five-character names the cycle never fails, and it is idempotent: the second cycle changes nothing
    (this is why the second written file equals the first) -/
theorem cycle_ok {n : Str} (h : n.length = 5) :
    fixBlockname (unfixBlockname n) = .ok (cycleName n) ∧ (cycleName n).length = 5 ∧
      cycleName (cycleName n) = cycleName n ∧ unfixBlockname (cycleName n) = unfixBlockname n := by
  obtain ⟨a, b, c, d, e, rfl⟩ := Proofs.Names.len5 h
  obtain ⟨c1, h1, h2, h3, h4⟩ := Proofs.Names.cycle5 a b c d e
  have hc : cycleName [a, b, c, d, e] = c1 := by
    unfold cycleName
    show (match Model.Names.fixBlockname (Model.Names.unfixBlockname [a, b, c, d, e]) with | .ok c => c | .error _ => _) = c1
    rw [h1]
  refine ⟨by rw [hc]; exact h1, by rw [hc]; exact h2, ?_, by rw [hc]; exact h4⟩
  rw [hc]
  unfold cycleName
  show (match Model.Names.fixBlockname (Model.Names.unfixBlockname c1) with | .ok c => c | .error _ => _) = c1
  rw [h3]

theorem slice_prefix (u tail : Str) : slice (u ++ tail) 0 u.length = u := by
  have := Proofs.slice_mid [] u tail
  simpa using this

/-- a written name line read back: columns 1-5 hold the written name whatever follows -/
theorem name_line {n : Str} (h : n.length = 5) (tail : Str) :
    fixBlockname (slice (unfixBlockname n ++ tail) 0 5) = .ok (cycleName n) := by
  have hl := unfix_length h
  have := slice_prefix (unfixBlockname n) tail
  rw [hl] at this
  rw [this]
  exact (cycle_ok h).1

theorem name_line2 {n m : Str} (hn : n.length = 5) (hm : m.length = 5) (tail : Str) :
    fixBlockname (slice (unfixBlockname n ++ unfixBlockname m ++ tail) 5 10) = .ok (cycleName m) := by
  have h1 := unfix_length hn
  have h2 := unfix_length hm
  have := Proofs.slice_mid (unfixBlockname n) (unfixBlockname m) tail
  rw [h1, h2] at this
  rw [this]
  exact (cycle_ok hm).1

/-- a name with a visible character in its written form (every real block name) -/
def Visible (n : Str) : Prop := n.length = 5 ∧ isBlank (unfixBlockname n) = false

theorem visible_line {n : Str} (h : Visible n) (tail : Str) : isBlank (unfixBlockname n ++ tail) = false :=
  not_blank_append h.2

/-! ### FOFT, GOFT: one block name per line -/

/-- **section_roundtrip_FOFT / GOFT**: the history-block (or history-generator) list written under its
    keyword reads back as the same names in the same order (each through one unfix/fix cycle) — as bare
    names when the object has no grid yet, as the grid's blocks when it has and they all exist -/
theorem section_roundtrip_history_blocks (kw : Str) (items : List HItem) (hne : items ≠ [])
    (hv : ∀ i ∈ items, Visible i.name) (blocks : List Block) (rest : List Str) :
    ∃ body, writeHistoryBlocks kw items = nl kw :: body ∧
      readHistoryBlocks blocks (body ++ rest) =
        .ok (if blocks.isEmpty then items.map (fun i => { isObj := false, name := cycleName i.name })
             else ((items.map (fun i => cycleName i.name)).filter fun n => blocks.any (·.name == n)).map
                    (fun n => { isObj := true, name := n }), rest) := by
  have he : items.isEmpty = false := by cases items with | nil => exact absurd rfl hne | cons _ _ => rfl
  refine ⟨items.map (fun i => nl (unfixBlockname i.name)) ++ [nl []], ?_, ?_⟩
  · unfold writeHistoryBlocks; rw [he]; simp
  · unfold readHistoryBlocks
    have henc : items.map (fun i => nl (unfixBlockname i.name)) ++ [nl []] ++ rest =
        (items.map (fun i => [nl (unfixBlockname i.name)])).flatten ++ nl [] :: rest := by
      rw [flatten_map_singleton]; simp
    rw [henc]
    have hrt : ∀ i ∈ items, RecordRT id (fun _ => false)
        (fun line (_ : List Str) => do pure (← fixBlockname (slice line 0 5), 0))
        (fun i => [nl (unfixBlockname i.name)]) (fun i => cycleName i.name) i := by
      intro i hi
      refine ⟨nl (unfixBlockname i.name), [], rfl, ?_, rfl, ?_⟩
      · exact visible_line (hv i hi) _
      · intro rest'
        show (do pure (← fixBlockname (slice (unfixBlockname i.name ++ ['\n']) 0 5), 0)) = _
        rw [name_line (hv i hi).1]
        rfl
    rw [untilBlank_roundtrip id (fun _ => false) _ _ _ items hrt (nl []) (Or.inl isBlank_nl_nil) rest]
    simp only [bind, Except.bind, pure, Except.pure]
    cases hb : blocks.isEmpty <;> simp [List.map_map, Function.comp_def]

/-! ### COFT: two block names per line -/

theorem section_roundtrip_COFT (items : List HConn) (hne : items ≠ [])
    (hv : ∀ i ∈ items, Visible i.n1 ∧ i.n2.length = 5) (rest : List Str) :
    ∃ body, writeHistoryConns items = nl c!"COFT" :: body ∧
      readHistoryConns [] [] (body ++ rest) =
        .ok (items.map (fun i => { isObj := false, n1 := cycleName i.n1, n2 := cycleName i.n2 }), rest) := by
  have he : items.isEmpty = false := by cases items with | nil => exact absurd rfl hne | cons _ _ => rfl
  refine ⟨items.map (fun i => nl (unfixBlockname i.n1 ++ unfixBlockname i.n2)) ++ [nl []], ?_, ?_⟩
  · unfold writeHistoryConns; rw [he]; simp
  · unfold readHistoryConns
    have henc : items.map (fun i => nl (unfixBlockname i.n1 ++ unfixBlockname i.n2)) ++ [nl []] ++ rest =
        (items.map (fun i => [nl (unfixBlockname i.n1 ++ unfixBlockname i.n2)])).flatten ++ nl [] :: rest := by
      rw [flatten_map_singleton]; simp
    rw [henc]
    have hrt : ∀ i ∈ items, RecordRT id (fun _ => false)
        (fun line (_ : List Str) => do pure ((← fixBlockname (slice line 0 5), ← fixBlockname (slice line 5 10)), 0))
        (fun i => [nl (unfixBlockname i.n1 ++ unfixBlockname i.n2)]) (fun i => (cycleName i.n1, cycleName i.n2)) i := by
      intro i hi
      refine ⟨nl (unfixBlockname i.n1 ++ unfixBlockname i.n2), [], rfl, ?_, rfl, ?_⟩
      · unfold nl; rw [List.append_assoc]; exact visible_line (hv i hi).1 _
      · intro rest'
        show (do pure ((← fixBlockname (slice (unfixBlockname i.n1 ++ unfixBlockname i.n2 ++ ['\n']) 0 5),
                        ← fixBlockname (slice (unfixBlockname i.n1 ++ unfixBlockname i.n2 ++ ['\n']) 5 10)), 0)) = _
        rw [name_line2 (hv i hi).1.1 (hv i hi).2, List.append_assoc, name_line (hv i hi).1.1]
        rfl
    rw [untilBlank_roundtrip id (fun _ => false) _ _ _ items hrt (nl []) (Or.inl isBlank_nl_nil) rest]
    simp [bind, Except.bind, pure, Except.pure, List.map_map, Function.comp_def]

end Proofs.T2
