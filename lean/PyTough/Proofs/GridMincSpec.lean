/-
  MINC: what the loop over the matrix levels of one block creates (volumes, chain of connections).
-/
import PyTough.Proofs.GridEmbed
namespace Proofs.Grid
open Py Model Model.Grid Model.Grid.World

/-- under the invariant, a pair of names of which one is not a block name is not a connection key -/
theorem no_key_of_fresh_name {w : World} (hI : Grid.Inv w) {n0 n1 : Name} (h : dget w.block n1 = none) :
    dget w.connection (n0, n1) = none := by
  cases hd : dget w.connection (n0, n1) with
  | none => rfl
  | some c =>
    have hc := hI.cd_sound _ _ hd
    have ends := hI.c_ends c hc.1
    have := hI.bd_complete _ ends.2.1
    have e : w.bname (w.cn c).b1 = n1 := by
      have := hc.2; simp only [World.ckey, Prod.mk.injEq] at this; exact this.2
    rw [e, h] at this; cases this

/-- one pass of the loop `for vf in volume_fractions[1:]` -/
def mincStep (args : MincArgs) (blkname : Name) (origVol : Rat) (origRock : Nat) (centre : Option (List Rat))
    (w : World) (vf : Rat) (m0 lastblk : Nat) : Except (Exc × World) (World × Nat) :=
  match duplicateRock w (mincRockname (w.rname origRock) (m0 + 1)) origRock with
  | .error e => .error e
  | .ok w1 =>
    if (dget w1.block (matrixBlockname blkname (m0 + 1))).isSome then .error (.generic, w1)
    else
      match dget w1.rocktype (mincRockname (w.rname origRock) (m0 + 1)) with
      | none => .error (.keyError, w1)
      | some mrock =>
        match addBlock (w1.newBlk { name := matrixBlockname blkname (m0 + 1), volume := origVol * vf, rock := mrock, centre := centre, conn := [] }).2 (w1.newBlk { name := matrixBlockname blkname (m0 + 1), volume := origVol * vf, rock := mrock, centre := centre, conn := [] }).1 with
        | .error e => .error e
        | .ok w3 =>
          match addConnection (w3.newCon (mincCon args origVol (m0 + 1) lastblk w1.blks.length)).2 (w3.newCon (mincCon args origVol (m0 + 1) lastblk w1.blks.length)).1 with
          | .error e => .error e
          | .ok w5 => .ok (w5, w1.blks.length)

theorem mincLevels_cons (args : MincArgs) (blkname : Name) (origVol : Rat) (origRock : Nat) (centre : Option (List Rat))
    (w : World) (vf : Rat) (r : List Rat) (m0 lastblk iblk : Nat) (idx : List Nat) :
    mincLevels args blkname origVol origRock centre w (vf :: r) m0 lastblk iblk idx =
      match mincStep args blkname origVol origRock centre w vf m0 lastblk with
      | .error e => .error e
      | .ok (w5, mb) => mincLevels args blkname origVol origRock centre w5 r (m0 + 1) mb (iblk + 1) (idx ++ [iblk + 1]) := by
  simp only [mincLevels, mincStep]
  cases duplicateRock w (mincRockname (w.rname origRock) (m0 + 1)) origRock with
  | error e => rfl
  | ok w1 =>
    simp only []
    split
    · rfl
    · cases dget w1.rocktype (mincRockname (w.rname origRock) (m0 + 1)) with
      | none => rfl
      | some mrock =>
        simp only [World.newBlk]
        split
        · rename_i heq; simp only [heq]
        · rename_i w3 heq
          simp only [heq, World.newCon]
          split
          · rename_i heq2; simp only [heq2]
          · rename_i heq2; simp only [heq2]

/-- what one pass creates: one matrix block (appended to the block list, with volume `V·vf`, the
    level's name and the original centre) and one connection `lastblk → new block` (appended to the
    connection list) carrying the level's area and distances; existing blocks keep their volumes -/
theorem mincStep_spec (args : MincArgs) (blkname : Name) (origVol : Rat) (origRock : Nat) (centre : Option (List Rat))
    {w : World} (hI : Grid.Inv w) (vf : Rat) (m0 : Nat) {lastblk : Nat} (hlast : lastblk ∈ w.blocklist)
    {w5 : World} {mb : Nat} (hok : mincStep args blkname origVol origRock centre w vf m0 lastblk = .ok (w5, mb)) :
    Grid.Inv w5 ∧ mb = w.blks.length ∧ w5.blocklist = w.blocklist ++ [mb] ∧
    w5.blks.length = w.blks.length + 1 ∧
    (∀ x, x < w.blks.length → (w5.bk x).volume = (w.bk x).volume ∧ (w5.bk x).name = (w.bk x).name) ∧
    (w5.bk mb).volume = origVol * vf ∧ (w5.bk mb).name = matrixBlockname blkname (m0 + 1) ∧ (w5.bk mb).centre = centre ∧
    w5.connectionlist = w.connectionlist ++ [w.cons.length] ∧
    w5.cons = w.cons ++ [mincCon args origVol (m0 + 1) lastblk mb] := by
  unfold mincStep at hok
  obtain ⟨w1, h1, hI1, hbl1, hbd1, hblks1, hcons1, hcl1, hcd1, hsome⟩ := duplicateRock_spec hI (mincRockname (w.rname origRock) (m0 + 1)) origRock
  simp only [h1] at hok
  cases hdb : dget w1.block (matrixBlockname blkname (m0 + 1)) with
  | some x => simp only [hdb, Option.isSome_some, if_true] at hok; cases hok
  | none =>
    simp only [hdb, Option.isSome_none, Bool.false_eq_true, if_false] at hok
    obtain ⟨mrock, hmrock⟩ := Option.isSome_iff_exists.mp hsome
    simp only [hmrock] at hok
    have hmr := hI1.rd_sound _ _ hmrock
    generalize hv : ({ name := matrixBlockname blkname (m0 + 1), volume := origVol * vf, rock := mrock, centre := centre, conn := [] } : Blk) = v at hok
    have hI2 := newBlk_inv hI1 v
    have hbk2 : (w1.newBlk v).2.bk (w1.newBlk v).1 = v := by
      show (w1.newBlk v).2.bk w1.blks.length = v; simp [bk_newBlk]
    have hnm2 : (w1.newBlk v).2.bname (w1.newBlk v).1 = matrixBlockname blkname (m0 + 1) := by
      show ((w1.newBlk v).2.bk (w1.newBlk v).1).name = _; rw [hbk2, ← hv]
    have hd2 : dget (w1.newBlk v).2.block ((w1.newBlk v).2.bname (w1.newBlk v).1) = none := by rw [hnm2]; exact hdb
    have hnew2 : (w1.newBlk v).1 ∉ (w1.newBlk v).2.blocklist := fun h => Nat.lt_irrefl _ (hI1.bl_lt _ h)
    have hI3 := addBlock_inv hI2 (b := (w1.newBlk v).1) (by simp [World.newBlk]) hnew2
      (by rw [hbk2, ← hv]) (by rw [hbk2, ← hv]; exact hmr.1) (fun old h => by rw [hd2] at h; cases h)
    obtain ⟨w3, h3, hbl3, hcons3, hblks3, hcl3, hcd3, hbd3⟩ : ∃ w3, addBlock (w1.newBlk v).2 (w1.newBlk v).1 = .ok w3 ∧
        w3.blocklist = w1.blocklist ++ [w1.blks.length] ∧ w3.cons = w1.cons ∧ w3.blks = w1.blks ++ [v] ∧
        w3.connectionlist = w1.connectionlist ∧ w3.connection = w1.connection ∧
        w3.block = dset w1.block (matrixBlockname blkname (m0 + 1)) w1.blks.length :=
      ⟨_, addBlock_fresh_ok hd2, rfl, rfl, rfl, rfl, rfl, by rw [← hnm2]; rfl⟩
    rw [h3] at hI3 hok
    simp only [worldOf_ok] at hI3 hok
    generalize hcv : mincCon args origVol (m0 + 1) lastblk w1.blks.length = cv at hok
    have hcv0 : cv.b0 = lastblk := by rw [← hcv]; rfl
    have hcv1 : cv.b1 = w1.blks.length := by rw [← hcv]; rfl
    have hI4 := newCon_inv hI3 cv
    have hcn4 : (w3.newCon cv).2.cn (w3.newCon cv).1 = cv := by
      show (w3.newCon cv).2.cn w3.cons.length = cv; simp [cn_newCon]
    have hlast1 : lastblk ∈ w1.blocklist := hbl1 ▸ hlast
    have hlt : lastblk < w1.blks.length := hI1.bl_lt _ hlast1
    have hne : ((w3.newCon cv).2.cn (w3.newCon cv).1).b0 ≠ ((w3.newCon cv).2.cn (w3.newCon cv).1).b1 := by
      rw [hcn4, hcv0, hcv1]; exact Nat.ne_of_lt hlt
    have hI5 := addConnection_inv hI4 (c := (w3.newCon cv).1) (by simp [World.newCon])
      (fun h => Nat.lt_irrefl _ (hI3.cl_lt _ h))
      (by rw [hcn4, hcv0]; show lastblk ∈ w3.blocklist; rw [hbl3]; simp [hlast1])
      (by rw [hcn4, hcv1]; show _ ∈ w3.blocklist; rw [hbl3]; simp)
      hne
    -- the key of the new connection is fresh: its second name is the new block's
    have hbk4 : ∀ x, (w3.newCon cv).2.bk x = w3.bk x := fun x => rfl
    have hkey : (w3.newCon cv).2.ckey (w3.newCon cv).1 = (w3.bname lastblk, matrixBlockname blkname (m0 + 1)) := by
      simp only [World.ckey, hcn4, hcv0, hcv1, World.bname, hbk4]
      congr 1
      simp only [World.bk, hblks3]
      rw [getD_append_one]; simp [← hv]
    have hfreshkey : dget (w3.newCon cv).2.connection ((w3.newCon cv).2.ckey (w3.newCon cv).1) = none := by
      rw [hkey]
      show dget w3.connection _ = none
      rw [hcd3]
      exact no_key_of_fresh_name hI1 hdb
    rw [addConnection_ok hne (l := (w3.newCon cv).2.connectionlist ++ [(w3.newCon cv).1]) (by simp only [hfreshkey])] at hI5 hok
    simp only [worldOf_ok] at hI5
    simp only [Except.ok.injEq, Prod.mk.injEq] at hok
    obtain ⟨hw5, hmb⟩ := hok
    subst hw5
    have hlen : w1.blks.length = w.blks.length := by rw [hblks1]
    have g_bk : ∀ x, ((addConWorld (w3.newCon cv).2 (w3.newCon cv).1 ((w3.newCon cv).2.connectionlist ++ [(w3.newCon cv).1])).bk x).volume = (w3.bk x).volume ∧
        ((addConWorld (w3.newCon cv).2 (w3.newCon cv).1 ((w3.newCon cv).2.connectionlist ++ [(w3.newCon cv).1])).bk x).name = (w3.bk x).name ∧
        ((addConWorld (w3.newCon cv).2 (w3.newCon cv).1 ((w3.newCon cv).2.connectionlist ++ [(w3.newCon cv).1])).bk x).centre = (w3.bk x).centre := by
      intro x
      simp only [addConWorld, addConWorld', World.bk, getD_set, List.length_set]
      split
      · rename_i h; rw [← h.1]; exact ⟨rfl, rfl, rfl⟩
      · split
        · rename_i h; rw [← h.1]; exact ⟨rfl, rfl, rfl⟩
        · exact ⟨rfl, rfl, rfl⟩
    have h3bk_old : ∀ x, x < w.blks.length → w3.bk x = w.bk x := by
      intro x hx
      simp only [World.bk, hblks3, hblks1]
      rw [getD_append_one]; simp [hx]
    have h3bk_new : w3.bk w.blks.length = v := by
      simp only [World.bk, hblks3, hblks1]
      rw [getD_append_one]; simp
    refine ⟨hI5, by rw [← hmb, hlen], ?_, ?_, ?_, ?_, ?_, ?_, ?_, ?_⟩
    · show w3.blocklist = _; rw [hbl3, hbl1, ← hmb, hlen]
    · show ((w3.blks.set _ _).set _ _).length = _
      simp only [List.length_set, hblks3, hblks1, List.length_append, List.length_singleton]
    · intro x hx
      have := g_bk x
      rw [this.1, this.2.1, h3bk_old x hx]; exact ⟨rfl, rfl⟩
    · rw [← hmb, hlen, (g_bk _).1, h3bk_new, ← hv]
    · rw [← hmb, hlen, (g_bk _).2.1, h3bk_new, ← hv]
    · rw [← hmb, hlen, (g_bk _).2.2, h3bk_new, ← hv]
    · show w3.connectionlist ++ [w3.cons.length] = _
      rw [hcl3, hcl1, hcons3, hcons1]
    · show w3.cons ++ [cv] = _
      rw [hcons3, hcons1, ← hcv, ← hmb]

/-- the whole loop over the matrix levels of one block, when it completes -/
theorem mincLevels_spec (args : MincArgs) (blkname : Name) (origVol : Rat) (origRock : Nat) (centre : Option (List Rat))
    (vfs : List Rat) : ∀ {w : World} (m0 : Nat) {lastblk : Nat} (iblk : Nat) (idx : List Nat) {w' : World} {iblk' : Nat} {idx' : List Nat},
    Grid.Inv w → lastblk ∈ w.blocklist →
    mincLevels args blkname origVol origRock centre w vfs m0 lastblk iblk idx = .ok (w', iblk', idx') →
    Grid.Inv w' ∧
    w'.blocklist = w.blocklist ++ List.range' w.blks.length vfs.length ∧
    w'.blks.length = w.blks.length + vfs.length ∧
    (∀ x, x < w.blks.length → (w'.bk x).volume = (w.bk x).volume ∧ (w'.bk x).name = (w.bk x).name) ∧
    (∀ i (hi : i < vfs.length), (w'.bk (w.blks.length + i)).volume = origVol * vfs[i] ∧
        (w'.bk (w.blks.length + i)).name = matrixBlockname blkname (m0 + i + 1)) ∧
    w'.connectionlist = w.connectionlist ++ List.range' w.cons.length vfs.length ∧
    w'.cons = w.cons ++ mincChain args origVol m0 lastblk w.blks.length vfs ∧
    iblk' = iblk + vfs.length ∧ idx' = idx ++ List.range' (iblk + 1) vfs.length := by
  induction vfs with
  | nil =>
    intro w m0 lastblk iblk idx w' iblk' idx' hI _ hok
    simp only [mincLevels, Except.ok.injEq, Prod.mk.injEq] at hok
    obtain ⟨rfl, rfl, rfl⟩ := hok
    simp [mincChain, hI]
  | cons vf r ih =>
    intro w m0 lastblk iblk idx w' iblk' idx' hI hlast hok
    rw [mincLevels_cons] at hok
    cases hs : mincStep args blkname origVol origRock centre w vf m0 lastblk with
    | error e => rw [hs] at hok; cases hok
    | ok p =>
      obtain ⟨w5, mb⟩ := p
      rw [hs] at hok
      simp only [] at hok
      obtain ⟨hI5, hmb, s3, s4, s5, s6, s7, _, s9, s10⟩ := mincStep_spec args blkname origVol origRock centre hI vf m0 hlast hs
      have hmb5 : mb ∈ w5.blocklist := by rw [s3]; simp
      obtain ⟨t1, t2, t3, t4, t5, t6, t7, t8, t9⟩ := ih (m0 + 1) (iblk + 1) (idx ++ [iblk + 1]) hI5 hmb5 hok
      subst hmb
      refine ⟨t1, ?_, ?_, ?_, ?_, ?_, ?_, ?_, ?_⟩
      · rw [t2, s3, s4, List.append_assoc]; simp [List.range'_succ]
      · rw [t3, s4]; simp only [List.length_cons]; omega
      · intro x hx
        have a1 := t4 x (by rw [s4]; omega)
        have a2 := s5 x hx
        exact ⟨a1.1.trans a2.1, a1.2.trans a2.2⟩
      · intro i hi
        cases i with
        | zero =>
          have a1 := t4 w.blks.length (by rw [s4]; omega)
          simp only [Nat.add_zero, List.getElem_cons_zero]
          exact ⟨a1.1.trans s6, a1.2.trans s7⟩
        | succ j =>
          have hj : j < r.length := by simp only [List.length_cons] at hi; omega
          have a1 := t5 j hj
          rw [s4] at a1
          have e1 : w.blks.length + 1 + j = w.blks.length + (j + 1) := by omega
          have e2 : m0 + 1 + j + 1 = m0 + (j + 1) + 1 := by omega
          rw [e1, e2] at a1
          simpa using a1
      · rw [t6, s9, List.append_assoc]
        have : w5.cons.length = w.cons.length + 1 := by rw [s10]; simp
        rw [this]; simp [List.range'_succ]
      · rw [t7, s10, List.append_assoc, s4]; rfl
      · rw [t8]; simp only [List.length_cons]; omega
      · rw [t9, List.append_assoc]; simp [List.range'_succ]

/-! ### the volume arithmetic -/

theorem sumRat_map_mul (c : Rat) (l : List Rat) : sumRat (l.map (c * ·)) = c * sumRat l := by
  induction l with
  | nil => simp only [List.map_nil, sumRat_nil]; grind
  | cons x r ih => simp only [List.map_cons, sumRat_cons, ih]; grind

theorem sumRat_map_div (s : Rat) (l : List Rat) : sumRat (l.map (· / s)) = sumRat l / s := by
  induction l with
  | nil => simp only [List.map_nil, sumRat_nil]; grind
  | cons x r ih => simp only [List.map_cons, sumRat_cons, ih]; grind

theorem sumRat_normFracs (l : List Rat) (h : sumRat l ≠ 0) : sumRat (normFracs l) = 1 := by
  unfold normFracs; rw [sumRat_map_div]; grind

theorem headD_add_sum_drop (l : List Rat) (h : l ≠ []) : l.headD 0 + sumRat (l.drop 1) = sumRat l := by
  cases l with
  | nil => exact absurd rfl h
  | cons x r => simp [sumRat_cons]

end Proofs.Grid
