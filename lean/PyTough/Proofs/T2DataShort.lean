/-
  C01 proofs, layer 3l: SHORT (short-output selections, resolved against the grid and the generators while reading).
-/
import PyTough.Proofs.T2DataMesh3
set_option linter.unusedSimpArgs false
namespace Proofs.T2
open Py Model Model.T2 Proofs Proofs.Incon
open Gen.Sections (Rec)

/-- the lists of one SHORT section, in the order they are written -/
inductive ShortGrp where
  | blk (ns : List Str)
  | con (ps : List (Str × Str))
  | gen (ps : List (Str × Str))

def ShortGrp.lines : ShortGrp → List Str
  | .blk ns => nl c!"ELEME" :: ns.map (fun n => nl (unfixBlockname n))
  | .con ps => nl c!"CONNE" :: ps.map (fun n => nl (unfixBlockname n.1 ++ unfixBlockname n.2))
  | .gen ps => nl c!"GENER" :: ps.map (fun n => nl (unfixBlockname n.1 ++ unfixBlockname n.2))

def ShortGrp.apply (s : Short) : ShortGrp → Short
  | .blk ns => { s with block := some (ns.map cycleName) }
  | .con ps => { s with connection := some (ps.map fun p => (cycleName p.1, cycleName p.2)) }
  | .gen ps => { s with generator := some (ps.map fun p => (cycleName p.1, cycleName p.2)) }

/-- a written name that cannot be taken for one of SHORT's sub-keywords -/
def NotSubKw (n : Str) : Prop := shortKeywords.contains (unfixBlockname n) = false

/-- a list the SHORT writer and reader agree on: visible names of blocks / connections / generators that the
    object (already read: in-file mesh, GENER before SHORT) holds -/
def ShortGrp.Good (blocks : List Block) (conns : List Conn) (gens : List Gener) : ShortGrp → Prop
  | .blk ns => ∀ n ∈ ns, Visible n ∧ NotSubKw n ∧ blocks.any (·.name == cycleName n) = true
  | .con ps => ∀ p ∈ ps, Visible p.1 ∧ p.2.length = 5 ∧ NotSubKw p.1 ∧
      conns.any (fun c => c.b1 == cycleName p.1 && c.b2 == cycleName p.2) = true
  | .gen ps => ∀ p ∈ ps, Visible p.1 ∧ p.2.length = 5 ∧ NotSubKw p.1 ∧
      gens.any (fun g => g.block == cycleName p.1 && g.name == cycleName p.2) = true

theorem slice5_name {n : Str} (h : n.length = 5) (tail : Str) : slice (unfixBlockname n ++ tail) 0 5 = unfixBlockname n := by
  have := slice_prefix (unfixBlockname n) tail
  rw [unfix_length h] at this
  exact this

/-- the item loop: lines of names up to a blank line or a sub-keyword line -/
theorem shortItems_read {α β : Type} (item : Str → Except Exc (Option β)) (enc : α → Str) (canon : α → β)
    (as : List α) (h : ∀ a ∈ as, isBlank (enc a) = false ∧ shortKeywords.contains (slice (enc a) 0 5) = false ∧
      item (enc a) = .ok (some (canon a)))
    (t : Str) (ht : isBlank t = true ∨ shortKeywords.contains (slice t 0 5) = true) (rest : List Str) :
    readShortItems item (as.map enc ++ t :: rest) = .ok (as.map canon, t, rest) := by
  induction as with
  | nil =>
    simp only [List.map_nil, List.nil_append, readShortItems]
    rcases ht with hb | hk
    · simp only [hb, if_true]
    · cases hb : isBlank t
      · simp only [Bool.false_eq_true, if_false, hk, if_true]
      · simp only [if_true]
  | cons a as ih =>
    obtain ⟨h1, h2, h3⟩ := h a (by simp)
    simp only [List.map_cons, List.cons_append, readShortItems, h1, h2, h3, Bool.false_eq_true, if_false,
      ih (fun b hb => h b (List.mem_cons_of_mem _ hb))]

theorem grp_head_kw (g : ShortGrp) : ∃ kw tl, g.lines = nl kw :: tl ∧ shortKeywords.contains kw = true ∧ kw.length = 5 := by
  cases g <;> exact ⟨_, _, rfl, by decide, rfl⟩

theorem slice_kw (kw : Str) (h : kw.length = 5) : slice (nl kw) 0 5 = kw := by
  have := slice_prefix kw ['\n']
  rw [h] at this
  exact this

/-- what follows a list is a blank line or the next list's keyword line -/
theorem next_is_stop (gs : List ShortGrp) (rest : List Str) :
    ∃ t r, (gs.map ShortGrp.lines).flatten ++ nl [] :: rest = t :: r ∧
      (isBlank t = true ∨ shortKeywords.contains (slice t 0 5) = true) := by
  cases gs with
  | nil => exact ⟨nl [], rest, rfl, Or.inl isBlank_nl_nil⟩
  | cons g gs =>
    obtain ⟨kw, tl, hl, hk, h5⟩ := grp_head_kw g
    refine ⟨nl kw, tl ++ ((gs.map ShortGrp.lines).flatten ++ nl [] :: rest), by simp [hl], Or.inr ?_⟩
    rw [slice_kw kw h5]; exact hk

/-- **the sub-section loop of SHORT**: the lists written one after the other and closed by a blank line are read
    list by list -/
theorem shortLoop_groups (blocks : List Block) (conns : List Conn) (gens : List Gener) :
    ∀ (gs : List ShortGrp), (∀ g ∈ gs, g.Good blocks conns gens) → ∀ (fuel : Nat), gs.length < fuel →
      ∀ (s : Short) (rest : List Str) (t : Str) (r : List Str),
        (gs.map ShortGrp.lines).flatten ++ nl [] :: rest = t :: r →
        shortLoop blocks conns gens fuel s t r = .ok (gs.foldl ShortGrp.apply s, rest) := by
  intro gs
  induction gs with
  | nil =>
    intro _ fuel hf s rest t r h
    simp only [List.map_nil, List.flatten_nil, List.nil_append, List.cons.injEq] at h
    obtain ⟨rfl, rfl⟩ := h
    cases fuel with
    | zero => simp at hf
    | succ fuel => simp [shortLoop, isBlank_nl_nil]
  | cons g gs ih =>
    intro hg fuel hf s rest t r h
    cases fuel with
    | zero => simp at hf
    | succ fuel =>
      obtain ⟨t', r', hnext, hstop⟩ := next_is_stop gs rest
      have hih := ih (fun x hx => hg x (List.mem_cons_of_mem _ hx)) fuel (by simpa using hf)
      have hgg := hg g (by simp)
      cases g with
      | blk ns =>
        simp only [List.map_cons, List.flatten_cons, ShortGrp.lines, List.cons_append, List.append_assoc, List.cons.injEq] at h
        obtain ⟨rfl, rfl⟩ := h
        rw [hnext]
        have hitems := shortItems_read (shortBlockItem blocks) (fun n => nl (unfixBlockname n)) cycleName ns (by
          intro n hn
          obtain ⟨hv, hk, hin⟩ := hgg n hn
          have hsl : slice (nl (unfixBlockname n)) 0 5 = unfixBlockname n := slice5_name hv.1 _
          refine ⟨visible_line hv _, by rw [hsl]; exact hk, ?_⟩
          unfold shortBlockItem
          simp only [hsl, (cycle_ok hv.1).1, bind, Except.bind, pure, Except.pure, hin, if_true]) t' hstop r'
        simp only [shortLoop, show isBlank (nl c!"ELEME") = false by decide, Bool.false_eq_true, if_false,
          slice_kw c!"ELEME" rfl, show (c!"ELEME" == c!"ELEME") = true by decide, if_true, hitems, List.foldl_cons,
          ShortGrp.apply]
        exact hih _ rest t' r' hnext
      | con ps =>
        simp only [List.map_cons, List.flatten_cons, ShortGrp.lines, List.cons_append, List.append_assoc, List.cons.injEq] at h
        obtain ⟨rfl, rfl⟩ := h
        rw [hnext]
        have hitems := shortItems_read (shortConnItem conns) (fun n : Str × Str => nl (unfixBlockname n.1 ++ unfixBlockname n.2))
          (fun p => (cycleName p.1, cycleName p.2)) ps (by
          intro p hp
          obtain ⟨hv, h2, hk, hin⟩ := hgg p hp
          have hsl : slice (nl (unfixBlockname p.1 ++ unfixBlockname p.2)) 0 5 = unfixBlockname p.1 := by
            unfold nl; rw [List.append_assoc]; exact slice5_name hv.1 _
          refine ⟨by unfold nl; rw [List.append_assoc]; exact visible_line hv _, by rw [hsl]; exact hk, ?_⟩
          unfold shortConnItem
          have e2 : fixBlockname (slice (nl (unfixBlockname p.1 ++ unfixBlockname p.2)) 5 10) = .ok (cycleName p.2) :=
            name_line2 hv.1 h2 ['\n']
          simp only [hsl, (cycle_ok hv.1).1, e2, bind, Except.bind, pure, Except.pure, hin, if_true]) t' hstop r'
        simp only [shortLoop, show isBlank (nl c!"CONNE") = false by decide, Bool.false_eq_true, if_false,
          slice_kw c!"CONNE" rfl, show (c!"CONNE" == c!"ELEME") = false by decide,
          show (c!"CONNE" == c!"CONNE") = true by decide, if_true, hitems, List.foldl_cons, ShortGrp.apply]
        exact hih _ rest t' r' hnext
      | gen ps =>
        simp only [List.map_cons, List.flatten_cons, ShortGrp.lines, List.cons_append, List.append_assoc, List.cons.injEq] at h
        obtain ⟨rfl, rfl⟩ := h
        rw [hnext]
        have hitems := shortItems_read (shortGenItem gens) (fun n : Str × Str => nl (unfixBlockname n.1 ++ unfixBlockname n.2))
          (fun p => (cycleName p.1, cycleName p.2)) ps (by
          intro p hp
          obtain ⟨hv, h2, hk, hin⟩ := hgg p hp
          have hsl : slice (nl (unfixBlockname p.1 ++ unfixBlockname p.2)) 0 5 = unfixBlockname p.1 := by
            unfold nl; rw [List.append_assoc]; exact slice5_name hv.1 _
          refine ⟨by unfold nl; rw [List.append_assoc]; exact visible_line hv _, by rw [hsl]; exact hk, ?_⟩
          unfold shortGenItem
          have e2 : fixBlockname (slice (nl (unfixBlockname p.1 ++ unfixBlockname p.2)) 5 10) = .ok (cycleName p.2) :=
            name_line2 hv.1 h2 ['\n']
          simp only [hsl, (cycle_ok hv.1).1, e2, bind, Except.bind, pure, Except.pure, hin, if_true]) t' hstop r'
        simp only [shortLoop, show isBlank (nl c!"GENER") = false by decide, Bool.false_eq_true, if_false,
          slice_kw c!"GENER" rfl, show (c!"GENER" == c!"ELEME") = false by decide,
          show (c!"GENER" == c!"CONNE") = false by decide, show (c!"GENER" == c!"GENER") = true by decide, if_true, hitems,
          List.foldl_cons, ShortGrp.apply]
        exact hih _ rest t' r' hnext


/-! ### the SHORT section -/

def f2d : FieldSpec := { raw := ['2'], width := 2, left := false, prec := none, typ := 'd' }

def gsOf (s : Short) : List ShortGrp :=
  (match s.block with | some ns => [ShortGrp.blk ns] | none => []) ++
  (match s.connection with | some ps => [ShortGrp.con ps] | none => []) ++
  (match s.generator with | some ps => [ShortGrp.gen ps] | none => [])

/-- the text written after `SHORT` on the header line -/
abbrev freqText (s : Short) : Except Exc Str := shortFreqText s

/-- the frequency the reader gets from columns 6-7 of the header line -/
def canonFreq (s : Short) : Val :=
  match freqText s with
  | .ok t => if t.isEmpty then .none else (match readField .default 'd' t with | .ok p => p.toVal | .error _ => .none)
  | .error _ => .none

structure ShortShape (T : Tabs) (r : Rec) (fx fd : FieldSpec) : Prop where
  t : T.get c!"short" = .ok r
  fs : r.fs = [fx, fd]
  x : fx.typ = 'x'
  wx : fx.width = 5
  d : fd.typ = 'd'
  wd : fd.width = 2

/-- a SHORT section the writer and reader agree on: a frequency that is absent / zero or prints in two columns,
    and lists of names the object holds -/
structure GoodShort (blocks : List Block) (conns : List Conn) (gens : List Gener) (s : Short) : Prop where
  nonempty : s.isEmpty = false
  freq : ∃ t, freqText s = .ok t ∧ (t = [] ∨ t.length = 2)
  lists : ∀ g ∈ gsOf s, g.Good blocks conns gens

theorem writeShort_eq (s : Short) (hne : s.isEmpty = false) (t : Str) (ht : freqText s = .ok t) :
    writeShort s = .ok (nl (c!"SHORT" ++ t) :: ((gsOf s).map ShortGrp.lines).flatten ++ [nl []]) := by
  unfold writeShort
  rw [hne]
  have ht' : shortFreqText s = .ok t := ht
  simp only [Bool.false_eq_true, if_false, bind, Except.bind, pure, Except.pure, ht', gsOf]
  cases s.block <;> cases s.connection <;> cases s.generator <;> simp [ShortGrp.lines, List.flatten]

/-- **section_roundtrip_SHORT** (with the mesh and the generators already read): the header line with its
    frequency and the lists of blocks, connections and generators read back list by list, every name resolved
    against the grid, and the closing blank line is consumed -/
theorem section_roundtrip_SHORT {T : Tabs} {r : Rec} {fx fd : FieldSpec} (hs : ShortShape T r fx fd)
    (blocks : List Block) (conns : List Conn) (gens : List Gener) (s s0 : Short) (hg : GoodShort blocks conns gens s)
    (rest : List Str) :
    ∃ header body, writeShort s = .ok (header :: body) ∧
      readShort .default T blocks conns gens s0 header (body ++ rest) =
        .ok ((gsOf s).foldl ShortGrp.apply { s0 with frequency := some (canonFreq s) }, rest) := by
  obtain ⟨t, ht, htl⟩ := hg.freq
  refine ⟨nl (c!"SHORT" ++ t), ((gsOf s).map ShortGrp.lines).flatten ++ [nl []], writeShort_eq s hg.nonempty t ht, ?_⟩
  -- the header line
  have hhead : readValues .default r (nl (c!"SHORT" ++ t)) = .ok [.none, canonFreq s] := by
    unfold readValues parseString lineSpec
    rw [hs.fs]
    simp only [lineSpec.go, hs.wx, hs.wd, hs.x, hs.d, List.mapM_cons, List.mapM_nil, bind, Except.bind, pure, Except.pure]
    have hx : readField .default 'x' (slice (nl (c!"SHORT" ++ t)) 0 (0 + 5)) = .ok .none := rfl
    rw [hx]
    simp only
    unfold canonFreq
    rw [ht]
    simp only
    rcases htl with rfl | h2
    · have : readField .default 'd' (slice (nl (c!"SHORT" ++ [])) (0 + 5) (0 + 5 + 2)) = .ok .none := by decide
      rw [this]; rfl
    · match t, h2 with
      | [a, b], _ =>
        have hsl : slice (nl (c!"SHORT" ++ [a, b])) (0 + 5) (0 + 5 + 2) = [a, b] := rfl
        rw [hsl]
        have hne : ([a, b] : Str).isEmpty = false := rfl
        simp only [hne, Bool.false_eq_true, if_false]
        have htot := readField_default_total (typ := 'd') (by unfold ValidTyp; simp) [a, b]
        obtain ⟨p, hp⟩ := htot
        rw [hp]; rfl
  obtain ⟨t', r', hnext, _⟩ := next_is_stop (gsOf s) rest
  unfold readShort
  have hbody : ((gsOf s).map ShortGrp.lines).flatten ++ [nl []] ++ rest = t' :: r' := by
    rw [List.append_assoc]; exact hnext
  rw [hbody]
  simp only [hs.t, bind, Except.bind, pure, Except.pure, hhead, List.length_cons, List.length_nil, readline,
    show (0 + 1 + 1 > 1) = True by decide, if_true, List.getD_cons_succ, List.getD_cons_zero]
  have hlen : (gsOf s).length < (t' :: r').length + 2 := by
    have h1 : ((gsOf s).map ShortGrp.lines).length ≤ ((gsOf s).map ShortGrp.lines).flatten.length :=
      flatten_length_ge (by
        intro ls hls
        obtain ⟨g, _, rfl⟩ := List.mem_map.mp hls
        cases g <;> simp [ShortGrp.lines])
    have h2 := congrArg List.length hnext
    simp only [List.length_append, List.length_cons, List.length_map] at h1 h2 ⊢
    omega
  exact shortLoop_groups blocks conns gens (gsOf s) hg.lists _ hlen _ rest t' r' hnext

end Proofs.T2
