/-
  C01 proofs, layer 2: the three loop shapes of `t2data.py` read back what their writers wrote.
    chunked lists   (`for i in range(nlines): … write_values(vals[i*n : (i+1)*n] + [None]*…)`)
    untilBlank      (`line = readline(); while line.strip(): …`)
    untilKeyword    (PARAM's further default-incon lines)
-/
import PyTough.Proofs.T2DataRecords
namespace Proofs.T2
open Py Model Model.T2 Proofs Proofs.Incon

/-! ### chunked lists -/

/-- what `k` lines of a chunked list read back as: per line, the values present and `None` padding -/
def readBack (f0 : FieldSpec) (n : Nat) : Nat → List Val → List Val
  | 0, _ => []
  | k + 1, ys => (ys.take n).map (canonV f0) ++ List.replicate (n - (ys.take n).length) Val.none ++ readBack f0 n k (ys.drop n)

theorem readBack_nil (f0 : FieldSpec) (n : Nat) : ∀ k, readBack f0 n k [] = List.replicate (k * n) Val.none := by
  intro k
  induction k with
  | zero => simp [readBack]
  | succ k ih =>
    simp only [readBack, List.take_nil, List.map_nil, List.length_nil, List.drop_nil, ih, List.nil_append, Nat.sub_zero]
    rw [List.replicate_append_replicate]
    congr 1
    rw [Nat.succ_mul]; omega

/-- with enough lines the padding is all at the end -/
theorem readBack_eq (f0 : FieldSpec) (n : Nat) (_hn : 0 < n) : ∀ k ys, ys.length ≤ k * n →
    readBack f0 n k ys = ys.map (canonV f0) ++ List.replicate (k * n - ys.length) Val.none := by
  intro k
  induction k with
  | zero => intro ys h; simp at h; subst h; simp [readBack]
  | succ k ih =>
    intro ys h
    simp only [readBack]
    by_cases hlen : n ≤ ys.length
    · have h1 : (ys.take n).length = n := by simp [List.length_take]; omega
      have h2 : (ys.drop n).length ≤ k * n := by simp [List.length_drop]; rw [Nat.succ_mul] at h; omega
      rw [h1, Nat.sub_self, List.replicate_zero, List.append_nil, ih _ h2, ← List.append_assoc, ← List.map_append,
        List.take_append_drop]
      congr 2
      simp [List.length_drop]; rw [Nat.succ_mul]; omega
    · have hlt : ys.length < n := Nat.lt_of_not_le hlen
      have h1 : ys.take n = ys := List.take_of_length_le (by omega)
      have h2 : ys.drop n = [] := List.drop_of_length_le (by omega)
      rw [h1, h2, readBack_nil, List.append_assoc, List.replicate_append_replicate]
      congr 2
      rw [Nat.succ_mul]; omega

/-- the slice a chunk line takes is the next `n` values -/
theorem chunk_slice (xs : List Val) (n i : Nat) :
    (xs.take (min ((i + 1) * n) xs.length)).drop (i * n) = (xs.drop (i * n)).take n := by
  rw [List.drop_take]
  by_cases h : (i + 1) * n ≤ xs.length
  · rw [Nat.min_eq_left h]; congr 1; rw [Nat.succ_mul]; omega
  · have h' : xs.length ≤ (i + 1) * n := by omega
    rw [Nat.min_eq_right h']
    rw [List.take_of_length_le (by simp [List.length_drop]), List.take_of_length_le]
    simp [List.length_drop]; rw [Nat.succ_mul] at h'; omega

/-- a record whose fields are all the numeric field `f0`, `n` of them (every chunk record of the tables) -/
structure ChunkRec (r : Gen.Sections.Rec) (n : Nat) (f0 : FieldSpec) : Prop where
  len : r.fs.length = n
  uniform : ∀ f ∈ r.fs, f = f0
  numeric : NumericTyp f0.typ

theorem ChunkRec.fs_eq {r : Gen.Sections.Rec} {n : Nat} {f0 : FieldSpec} (h : ChunkRec r n f0) :
    r.fs = List.replicate n f0 := by
  rw [← h.len]
  exact List.eq_replicate_iff.mpr ⟨rfl, h.uniform⟩

theorem map_zip_replicate (f0 : FieldSpec) (n : Nat) (vals : List Val) (h : vals.length ≤ n) :
    (vals.zip (List.replicate n f0)).map (fun vf => canonV vf.2 vf.1) = vals.map (canonV f0) := by
  induction vals generalizing n with
  | nil => simp
  | cons v vs ih =>
    cases n with
    | zero => simp at h
    | succ n =>
      simp only [List.replicate_succ, List.zip_cons_cons, List.map_cons]
      rw [ih n (by simpa using h)]

/-- one chunk line read back -/
theorem chunkLine_read {r : Gen.Sections.Rec} {n : Nat} {f0 : FieldSpec} (hr : ChunkRec r n f0)
    (xs : List Val) (i : Nat) {l : Str} (h : chunkLine r n xs xs.length i = .ok l) :
    readValues .default r l =
      .ok ((((xs.drop (i * n)).take n).map (canonV f0)) ++
           List.replicate (n - ((xs.drop (i * n)).take n).length) Val.none) := by
  unfold chunkLine at h
  rw [chunk_slice] at h
  have hcl0 : ((xs.drop (i * n)).take n).length ≤ n := by simp [List.length_take]; omega
  generalize (xs.drop (i * n)).take n = c at h hcl0 ⊢
  have hcl : c.length ≤ n := hcl0
  simp only at h
  have hvl : (c ++ List.replicate (n - c.length) Val.none).length = r.fs.length := by
    rw [hr.len]; simp; omega
  have hvalid : ∀ f ∈ r.fs, ValidTyp f.typ := fun f hf => by rw [hr.uniform f hf]; exact NumericTyp.valid hr.numeric
  have hnum : ∀ f ∈ r.fs.drop (c ++ List.replicate (n - c.length) Val.none).length, NumericTyp f.typ := by
    rw [hvl, List.drop_length]; intro f hf; cases hf
  have := readValues_written r _ hvalid hnum h [] (by intro c hc; cases hc)
  rw [List.append_nil] at this
  rw [this, hvl, List.drop_length, List.map_nil, List.append_nil, hr.fs_eq,
    map_zip_replicate f0 n _ (by simp; omega), List.map_append, List.map_replicate, canonV_none hr.numeric]

/-- **chunked lists read back**: `k` lines written from position `i*n` on read back as the values present,
    line by line, with `None` in the padded positions -/
theorem chunks_read {r : Gen.Sections.Rec} {n : Nat} {f0 : FieldSpec} (hr : ChunkRec r n f0) (xs : List Val) :
    ∀ (k i : Nat) (lines : List Str), writeChunksFrom r n xs xs.length i k = .ok lines →
      lines.length = k ∧
      ∀ rest, readChunks .default r k (lines ++ rest) = .ok (readBack f0 n k (xs.drop (i * n)), rest) := by
  intro k
  induction k with
  | zero =>
    intro i lines h
    simp only [writeChunksFrom] at h
    cases h
    exact ⟨rfl, fun rest => rfl⟩
  | succ k ih =>
    intro i lines h
    simp only [writeChunksFrom] at h
    cases hl : chunkLine r n xs xs.length i with
    | error e => rw [hl] at h; cases h
    | ok l =>
      rw [hl] at h
      cases hrest : writeChunksFrom r n xs xs.length (i + 1) k with
      | error e => rw [hrest] at h; cases h
      | ok ls =>
        rw [hrest] at h
        cases h
        obtain ⟨hlen, hrd⟩ := ih (i + 1) ls hrest
        refine ⟨by simp [hlen], fun rest => ?_⟩
        simp only [List.cons_append, readChunks, readline]
        rw [chunkLine_read hr xs i hl, hrd rest]
        simp only [readBack]
        congr 3
        rw [List.drop_drop]
        congr 1
        rw [Nat.succ_mul]

/-- **chunked_roundtrip**: a list of any length written in `ceil(len/n)` lines of `n` values reads back,
    over the same number of lines, as the values written (each to the digits of its field) followed only by
    the `None` padding of the last line -/
theorem chunked_roundtrip {r : Gen.Sections.Rec} {n : Nat} {f0 : FieldSpec} (hr : ChunkRec r n f0) (hn : 0 < n)
    (xs : List Val) {lines : List Str}
    (hw : writeChunks r n xs xs.length ((xs.length + n - 1) / n) = .ok lines) (rest : List Str) :
    readChunks .default r ((xs.length + n - 1) / n) (lines ++ rest) =
      .ok (xs.map (canonV f0) ++ List.replicate (((xs.length + n - 1) / n) * n - xs.length) Val.none, rest) := by
  obtain ⟨_, hrd⟩ := chunks_read hr xs _ 0 lines hw
  rw [hrd rest, Nat.zero_mul, List.drop_zero, readBack_eq f0 n hn]
  -- enough lines
  have := Nat.div_add_mod (xs.length + n - 1) n
  have hmod := Nat.mod_lt (xs.length + n - 1) hn
  calc xs.length ≤ n * ((xs.length + n - 1) / n) := by omega
    _ = (xs.length + n - 1) / n * n := Nat.mul_comm _ _

theorem nonNone_append_nones (vs : List Val) (m : Nat) :
    nonNone (vs ++ List.replicate m Val.none) = nonNone vs := by
  unfold nonNone
  rw [List.filter_append]
  have : (List.replicate m Val.none).filter (· != Val.none) = [] := by
    apply List.filter_eq_nil_iff.mpr
    intro a ha; rw [(List.mem_replicate.mp ha).2]; decide
  rw [this, List.append_nil]

theorem nonNone_id {vs : List Val} (h : ∀ v ∈ vs, v ≠ Val.none) : nonNone vs = vs := by
  unfold nonNone
  apply List.filter_eq_self.mpr
  intro a ha
  simp [h a ha]

/-- the readers that keep only the values present (`if val is not None: append`) get exactly the list back -/
theorem chunked_roundtrip_nonNone {r : Gen.Sections.Rec} {n : Nat} {f0 : FieldSpec} (hr : ChunkRec r n f0) (hn : 0 < n)
    (xs : List Val) (hx : ∀ x ∈ xs, canonV f0 x ≠ Val.none) {lines : List Str}
    (hw : writeChunks r n xs xs.length ((xs.length + n - 1) / n) = .ok lines) (rest : List Str) :
    ∃ vs, readChunks .default r ((xs.length + n - 1) / n) (lines ++ rest) = .ok (vs, rest) ∧
      nonNone vs = xs.map (canonV f0) := by
  refine ⟨_, chunked_roundtrip hr hn xs hw rest, ?_⟩
  rw [nonNone_append_nones, nonNone_id]
  intro v hv
  obtain ⟨x, hx', rfl⟩ := List.mem_map.mp hv
  exact hx x hx'

/-- the readers that slice the first `len` values (`[0: n]`) get exactly the list back -/
theorem chunked_roundtrip_take {r : Gen.Sections.Rec} {n : Nat} {f0 : FieldSpec} (hr : ChunkRec r n f0) (hn : 0 < n)
    (xs : List Val) {lines : List Str}
    (hw : writeChunks r n xs xs.length ((xs.length + n - 1) / n) = .ok lines) (rest : List Str) :
    ∃ vs, readChunks .default r ((xs.length + n - 1) / n) (lines ++ rest) = .ok (vs, rest) ∧
      vs.take xs.length = xs.map (canonV f0) := by
  refine ⟨_, chunked_roundtrip hr hn xs hw rest, ?_⟩
  rw [List.take_append_of_le_length (by simp)]
  simp [List.take_of_length_le]

/-! ### records until a blank line -/

/-- what the generic theorem needs from one record kind: its lines are a non-blank header (that does not
    trigger the stop condition) and `ex` further lines, and the record reader recovers `canon a` from
    them, consuming exactly those lines, whatever follows -/
def RecordRT {α β} (pad : Str → Str) (stop : Str → Bool) (rd : Str → List Str → Except Exc (β × Nat))
    (enc : α → List Str) (canon : α → β) (a : α) : Prop :=
  ∃ h ex, enc a = h :: ex ∧ isBlank (pad h) = false ∧ stop (pad h) = false ∧
    ∀ rest, rd (pad h) (ex ++ rest) = .ok (canon a, ex.length)

/-- **untilBlank_roundtrip**: records written one after the other and closed by a blank line (or a stop
    line) are read back one for one, and the terminator is consumed -/
theorem untilBlank_roundtrip {α β} (pad : Str → Str) (stop : Str → Bool) (rd : Str → List Str → Except Exc (β × Nat))
    (enc : α → List Str) (canon : α → β) (as : List α) (hrt : ∀ a ∈ as, RecordRT pad stop rd enc canon a)
    (t : Str) (ht : isBlank (pad t) = true ∨ stop (pad t) = true) (rest : List Str) :
    untilBlank pad stop rd ((as.map enc).flatten ++ t :: rest) = .ok (as.map canon, rest) := by
  induction as with
  | nil =>
    simp only [List.map_nil, List.flatten_nil, List.nil_append]
    rw [untilBlank]
    have : (isBlank (pad t) || stop (pad t)) = true := by rcases ht with h | h <;> simp [h]
    simp [this]
  | cons a as ih =>
    obtain ⟨h, ex, henc, hnb, hns, hrd⟩ := hrt a (by simp)
    simp only [List.map_cons, List.flatten_cons, henc, List.cons_append, List.append_assoc]
    rw [untilBlank]
    simp only [hnb, hns, Bool.or_self, Bool.false_eq_true, if_false]
    rw [hrd]
    simp only [List.drop_left, ih (fun b hb => hrt b (List.mem_cons_of_mem _ hb))]

/-- the same at end of file: no terminator line -/
theorem untilBlank_roundtrip_eof {α β} (pad : Str → Str) (stop : Str → Bool) (rd : Str → List Str → Except Exc (β × Nat))
    (enc : α → List Str) (canon : α → β) (as : List α) (hrt : ∀ a ∈ as, RecordRT pad stop rd enc canon a) :
    untilBlank pad stop rd (as.map enc).flatten = .ok (as.map canon, []) := by
  induction as with
  | nil => simp only [List.map_nil, List.flatten_nil]; rw [untilBlank]
  | cons a as ih =>
    obtain ⟨h, ex, henc, hnb, hns, hrd⟩ := hrt a (by simp)
    simp only [List.map_cons, List.flatten_cons, henc, List.cons_append]
    rw [untilBlank]
    simp only [hnb, hns, Bool.or_self, Bool.false_eq_true, if_false]
    rw [hrd (as.map enc).flatten]
    simp only [List.drop_left, ih (fun b hb => hrt b (List.mem_cons_of_mem _ hb))]


/-! ### lines until a blank line or a section keyword (PARAM's further default initial conditions) -/

/-- one continuation line: not blank, not a keyword line, and its values (trailing `None`s trimmed) are `row` -/
def LineRT (r : Gen.Sections.Rec) (kws : List Str) (l : Str) (row : List Val) : Prop :=
  isBlank (padstring l) = false ∧ kws.any (startsWith (padstring l)) = false ∧
    ∃ vs, readValues .default r (padstring l) = .ok vs ∧ trimTrailingNones vs = row

/-- how the continuation lines end: a blank line (consumed), a keyword line (handed back padded), or the end of
    the file -/
inductive KwEnd (kws : List Str) : List Str → Option Str → List Str → Prop where
  | blank (t : Str) (rest : List Str) (h : isBlank (padstring t) = true) : KwEnd kws (t :: rest) none rest
  | keyword (t : Str) (rest : List Str) (h1 : isBlank (padstring t) = false)
      (h2 : kws.any (startsWith (padstring t)) = true) : KwEnd kws (t :: rest) (some (padstring t)) rest
  | eof : KwEnd kws [] none []

/-- **untilKeyword_roundtrip**: the continuation lines are read one for one until the blank line / keyword line /
    end of file, and a keyword line is handed back to the caller -/
theorem untilKeyword_roundtrip (r : Gen.Sections.Rec) (kws : List Str) :
    ∀ (lines : List Str) (rows : List (List Val)), All2 (LineRT r kws) lines rows →
    ∀ (tail : List Str) (nxt : Option Str) (rest : List Str), KwEnd kws tail nxt rest →
      untilKeyword .default r kws (lines ++ tail) = .ok (rows.flatten, nxt, rest) := by
  intro lines rows h
  induction h with
  | nil =>
    intro tail nxt rest hend
    cases hend with
    | blank t rest hb => simp only [List.nil_append, untilKeyword, hb, if_true, List.flatten_nil]
    | keyword t rest h1 h2 =>
      simp only [List.nil_append, untilKeyword, h1, h2, Bool.false_eq_true, if_false, if_true, List.flatten_nil]
    | eof => simp only [List.nil_append, untilKeyword, List.flatten_nil]
  | cons hl _ ih =>
    rename_i l row ls rs
    intro tail nxt rest hend
    obtain ⟨hnb, hnk, vs, hrd, htrim⟩ := hl
    simp only [List.cons_append, untilKeyword, hnb, hnk, Bool.false_eq_true, if_false, hrd, ih tail nxt rest hend,
      List.flatten_cons, htrim]

end Proofs.T2
