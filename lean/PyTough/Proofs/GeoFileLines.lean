/-
  C03 proofs, part 2: names, lines of the file, the section loops.
-/
import PyTough.Proofs.GeoFileNum
namespace Proofs.GeoFile
open Py Model Model.GeoFile Proofs

/-! ### right-justified names -/

theorem eq_replicate_of_all {l : Str} {c : Char} (h : ∀ x ∈ l, x = c) : l = List.replicate l.length c :=
  List.eq_replicate_iff.mpr ⟨rfl, h⟩

theorem takeWhile_blank (n : Str) :
    n.takeWhile (· == ' ') = List.replicate (n.takeWhile (· == ' ')).length ' ' :=
  eq_replicate_of_all fun x hx => by simpa using mem_takeWhile_imp hx

structure NameShape (L : Nat) (n : Str) : Prop where
  ex : ∃ k core a b, n = List.replicate k ' ' ++ core ∧ core.head? = some a ∧ core.getLast? = some b ∧
        isStrWs a = false ∧ isStrWs b = false
  len : n.length = L
  nonl : '\n' ∉ n

theorem nameShape_of_ok {L : Nat} {n : Str} (h : nameOK L n = true) : NameShape L n := by
  unfold nameOK at h
  simp only [Bool.and_eq_true, beq_iff_eq] at h
  obtain ⟨⟨hl, hc⟩, hn⟩ := h
  refine ⟨?_, hl, ?_⟩
  · unfold coreOK at hc
    simp only at hc
    generalize hcore : n.dropWhile (· == ' ') = core at hc
    cases hh : core.head? with
    | none => simp [hh] at hc
    | some a =>
      cases hg : core.getLast? with
      | none => simp [hh, hg] at hc
      | some b =>
        simp only [hh, hg, Bool.and_eq_true, Bool.not_eq_true'] at hc
        refine ⟨(n.takeWhile (· == ' ')).length, core, a, b, ?_, hh, hg, hc.1, hc.2⟩
        rw [← takeWhile_blank, ← hcore, List.takeWhile_append_dropWhile]
  · unfold noNewline at hn
    intro hc
    have := List.all_eq_true.mp hn _ hc
    simp at this

theorem strip_shape {k j : Nat} {core : Str} {a b : Char} (ha : core.head? = some a) (hb : core.getLast? = some b)
    (hwa : isStrWs a = false) (hwb : isStrWs b = false) :
    strip (List.replicate k ' ' ++ core ++ List.replicate j ' ') = core := by
  have hblank : isStrWs ' ' = true := by decide
  cases core with
  | nil => simp at ha
  | cons x r =>
    simp only [List.head?_cons, Option.some.injEq] at ha
    subst ha
    unfold strip stripBy lstripBy rstripBy
    rw [List.append_assoc, dropWhile_replicate_append hblank]
    have h1 : ((x :: r) ++ List.replicate j ' ').dropWhile isStrWs = (x :: r) ++ List.replicate j ' ' := by
      rw [List.cons_append, List.dropWhile_cons, if_neg (by rw [hwa]; simp)]
    rw [h1, List.reverse_append, List.reverse_replicate, dropWhile_replicate_append hblank]
    have hlast : (x :: r).reverse.head? = some b := by rw [List.head?_reverse]; exact hb
    cases hrev : (x :: r).reverse with
    | nil => simp at hrev
    | cons y t =>
      rw [hrev] at hlast
      simp only [List.head?_cons, Option.some.injEq] at hlast
      subst hlast
      rw [List.dropWhile_cons, if_neg (by rw [hwb]; simp), ← hrev, List.reverse_reverse]

/-- **right-justified names are safe**: the transformations applied to a name on the way to the
    file (`ljust(3)`) and back (`strip().rjust(L)`) are inverse for a right-justified name of the
    convention's length `L ≤ 3` -/
theorem fixName_ljust {L : Nat} {n : Str} (_hL : L ≤ 3) (h : NameShape L n) : fixName (ljust n 3) L = n := by
  obtain ⟨k, core, a, b, rfl, ha, hb, hwa, hwb⟩ := h.ex
  unfold fixName ljust
  rw [strip_shape ha hb hwa hwb]
  unfold rjust
  have := h.len
  simp only [List.length_append, List.length_replicate] at this
  congr 2
  omega

theorem ljust_length {n : Str} {w : Nat} (h : n.length ≤ w) : (ljust n w).length = w := by
  unfold ljust; simp; omega

theorem ljust_no_newline {n : Str} {w : Nat} (h : '\n' ∉ n) : '\n' ∉ ljust n w := by
  unfold ljust
  simp only [List.mem_append, not_or]
  exact ⟨h, fun hc => by have := mem_replicate_blank hc; revert this; decide⟩

/-- a right-justified name contains a character that is not whitespace -/
theorem nameShape_nonblank {L : Nat} {n : Str} (h : NameShape L n) : ∃ c ∈ n, isStrWs c = false := by
  obtain ⟨k, core, a, b, rfl, ha, _, hwa, _⟩ := h.ex
  cases core with
  | nil => simp at ha
  | cons x r =>
    simp only [List.head?_cons, Option.some.injEq] at ha
    subst ha
    exact ⟨x, by simp, hwa⟩

/-- the field item of a name written `ljust(3)` in a `3s` field -/
theorem fieldRT_name {L : Nat} {n : Str} (hL : L ≤ 3) (h : NameShape L n) :
    FieldRT (fS 3) (.str (ljust n 3)) (ljust n 3) (.str (ljust n 3)) :=
  fieldRT_s 3 _ (ljust_length (by rw [h.len]; exact hL)) (ljust_no_newline h.nonl)

/-! ### blank and non-blank lines -/

theorem isBlank_false_of_mem {l : Str} {c : Char} (hc : c ∈ l) (hw : isStrWs c = false) : isBlank l = false := by
  unfold isBlank
  exact strip_ne_nil hc hw

theorem isBlank_of_all {l : Str} (h : ∀ c ∈ l, isStrWs c = true) : isBlank l = true := by
  unfold isBlank strip
  rw [stripBy_all _ _ h]; rfl

theorem isBlank_newline : isBlank ['\n'] = true := by decide

theorem isBlank_padded_newline : isBlank (padstring ['\n']) = true := by decide

theorem padstring_eq (l : Str) : padstring l = l ++ List.replicate (80 - l.length) ' ' := rfl

theorem isBlank_padstring_false {l : Str} {c : Char} (hc : c ∈ l) (hw : isStrWs c = false) :
    isBlank (padstring l) = false :=
  isBlank_false_of_mem (c := c) (by rw [padstring_eq]; exact List.mem_append_left _ hc) hw

/-! ### the lines of a written file -/

theorem pyLines_line (b rest : Str) (h : '\n' ∉ b) :
    pyLines (b ++ '\n' :: rest) = (b ++ ['\n']) :: pyLines rest := by
  induction b with
  | nil => simp [pyLines]
  | cons c r ih =>
    simp only [List.mem_cons, not_or] at h
    have hc : c ≠ '\n' := fun e => h.1 e.symm
    simp only [List.cons_append, pyLines, if_neg hc, ih h.2]

/-- a text made of complete lines splits back into exactly those lines -/
theorem pyLines_flatten (ls : List Str) (h : ∀ l ∈ ls, ∃ b, l = b ++ ['\n'] ∧ '\n' ∉ b) :
    pyLines ls.flatten = ls := by
  induction ls with
  | nil => rfl
  | cons l r ih =>
    obtain ⟨b, rfl, hb⟩ := h l (by simp)
    rw [List.flatten_cons, List.append_assoc, List.singleton_append, pyLines_line _ _ hb,
      ih (fun x hx => h x (List.mem_cons_of_mem _ hx))]

/-! ### the section loop -/

theorem sectionLoop_blank (step : Geo → Str → Except Exc Geo) (g : Geo) (line : Str) (ls : List Str)
    (h : isBlank line = true) : sectionLoop step g line ls = .ok (g, ls) := by
  cases ls <;> simp [sectionLoop, h]

theorem sectionLoop_step (step : Geo → Str → Except Exc Geo) (g g' : Geo) (line l : Str) (ls : List Str)
    (h : isBlank line = false) (hs : step g line = .ok g') :
    sectionLoop step g line (l :: ls) = sectionLoop step g' l ls := by
  simp [sectionLoop, h, hs]

/-- running the loop over the lines of the records `a0 :: r` (the first line possibly padded),
    a blank terminator `term`, and whatever follows -/
theorem sectionLoop_run {α : Type} (step : Geo → Str → Except Exc Geo) (f : Geo → α → Geo) (L : α → Str) :
    ∀ (r : List α) (g : Geo) (first : Str) (a0 : α) (term : Str) (tail : List Str),
    isBlank first = false → step g first = .ok (f g a0) →
    (∀ pre a post, r = pre ++ a :: post →
      isBlank (L a) = false ∧ step (pre.foldl f (f g a0)) (L a) = .ok (f (pre.foldl f (f g a0)) a)) →
    isBlank term = true →
    sectionLoop step g first (r.map L ++ term :: tail) = .ok (r.foldl f (f g a0), tail) := by
  intro r
  induction r with
  | nil =>
    intro g first a0 term tail hb hs _ ht
    simp only [List.map_nil, List.nil_append, List.foldl_nil]
    rw [sectionLoop_step step g (f g a0) first term tail hb hs, sectionLoop_blank _ _ _ _ ht]
  | cons a r ih =>
    intro g first a0 term tail hb hs hall ht
    simp only [List.map_cons, List.cons_append, List.foldl_cons]
    rw [sectionLoop_step step g (f g a0) first (L a) _ hb hs]
    have h0 := hall [] a r rfl
    simp only [List.foldl_nil] at h0
    apply ih (f g a0) (L a) a term tail h0.1 h0.2 _ ht
    intro pre x post e
    have := hall (a :: pre) x post (by rw [e]; rfl)
    simpa using this

end Proofs.GeoFile
