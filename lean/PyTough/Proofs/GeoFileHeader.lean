/-
  C03 proofs, part 7: the header line.
-/
import PyTough.Proofs.GeoFileLayers
namespace Proofs.GeoFile
open Py Model Model.GeoFile Proofs

def fItem (p : Nat) (x : Flt) : Item :=
  (fF p, x.toVal, textF 10 p x, .flt (.fin x.isNeg (roundHalfEven (x.absNum * 10 ^ p) x.den) (-(p : Int))))

def eItem (x : Flt) : Item :=
  (fE, x.toVal, textE 10 2 x, .flt (.fin x.isNeg (fmtEParts 2 x.absNum x.den).1 ((fmtEParts 2 x.absNum x.den).2 - 2)))

def strItem (w : Nat) (nm : Str) : Item := (fS w, .str nm, nm, .str nm)

def blank5 : Str := [' ', ' ', ' ', ' ', ' ']

/-- the unit-type field: `''` is written as five blanks -/
def unitItem (u : Str) : Item := if u = [] then (fS 5, .str [], blank5, .str blank5) else strItem 5 u

def optFItem (o : Option Flt) : Item := match o with
  | some x => fItem 2 x
  | none => noneItem (fF 2)

def optDItem (w : Nat) (o : Option Int) : Item := match o with
  | some i => intItem w i
  | none => noneItem (fD w)

def hdrItems (h : Header) : List Item :=
  [strItem 5 h.type, intItem 1 h.convention, intItem 1 h.atmosType, eItem h.atmosVolume, eItem h.atmosConnection,
   unitItem h.unitType, optFItem h.gdcx, optFItem h.gdcy, optDItem 1 h.cntype, fItem 2 h.permAngle,
   optDItem 2 h.blockOrderInt]

structure HeaderOK (h : Header) : Prop where
  type : h.type = ['G', 'E', 'N', 'E', 'R']
  conv : 0 ≤ h.convention ∧ h.convention ≤ 3
  atm : 0 ≤ h.atmosType ∧ h.atmosType ≤ 9
  unit : h.unitType = [] ∨ h.unitType = feet
  vol : fitsB fE h.atmosVolume.toVal = true
  conn : fitsB fE h.atmosConnection.toVal = true
  gdcx : ∀ x, h.gdcx = some x → fitsB (fF 2) x.toVal = true
  gdcy : ∀ x, h.gdcy = some x → fitsB (fF 2) x.toVal = true
  cntype : ∀ i, h.cntype = some i → 0 ≤ i ∧ i ≤ 9
  perm : fitsB (fF 2) h.permAngle.toVal = true
  boi : h.blockOrderInt = none ∨ h.blockOrderInt = some 0 ∨ h.blockOrderInt = some 1
  bo : h.blockOrder = h.blockOrderInt.map Int.toNat
  extra : h.extra = []

theorem headerOK_of {h : Header} (hh : headerOK h = true) : HeaderOK h := by
  unfold headerOK at hh
  simp only [Bool.and_eq_true, beq_iff_eq, decide_eq_true_eq, Bool.or_eq_true, List.isEmpty_iff] at hh
  obtain ⟨⟨⟨⟨⟨⟨⟨⟨⟨⟨⟨⟨h1, h2⟩, h3⟩, h4⟩, h5⟩, h6⟩, h7⟩, h8⟩, h9⟩, h10⟩, h11⟩, h12⟩, h13⟩ := hh
  refine ⟨h1, h2, h3, ?_, h5, h6, ?_, ?_, ?_, h10, ?_, h12, h13⟩
  · exact h4
  · intro x hx; rw [hx] at h7; exact h7
  · intro x hx; rw [hx] at h8; exact h8
  · intro i hi; rw [hi] at h9; simpa using h9
  · cases hb : h.blockOrderInt with
    | none => exact Or.inl rfl
    | some i =>
      rw [hb] at h11
      simp only [Bool.or_eq_true, beq_iff_eq] at h11
      rcases h11 with rfl | rfl
      · exact Or.inr (Or.inl rfl)
      · exact Or.inr (Or.inr rfl)

theorem fits_digit (i : Int) (h : 0 ≤ i ∧ i ≤ 9) : fitsB (fD 1) (.int i) = true := by
  obtain ⟨n, rfl⟩ := Int.eq_ofNat_of_zero_le h.1
  exact fits_nat 1 (by decide) n (by omega)

theorem blankUnit_ok : FieldRT (fS 5) (.str []) blank5 (.str blank5) := by
  refine ⟨by decide, rfl, ?_, by decide⟩
  intro rf
  rw [show (fS 5).typ = 's' from rfl, read_name]
  rfl

theorem hdrItems_ok {h : Header} (hh : HeaderOK h) : ItemsOK (hdrItems h) := by
  intro it hit
  simp only [hdrItems, List.mem_cons, List.not_mem_nil, or_false] at hit
  rcases hit with rfl | rfl | rfl | rfl | rfl | rfl | rfl | rfl | rfl | rfl | rfl
  · rw [hh.type]; exact fieldRT_s 5 _ rfl (by decide)
  · exact intItem_ok (fits_digit _ ⟨hh.conv.1, by have := hh.conv.2; omega⟩)
  · exact intItem_ok (fits_digit _ hh.atm)
  · exact fieldRT_e _ hh.vol
  · exact fieldRT_e _ hh.conn
  · rcases hh.unit with hu | hu
    · rw [hu]; exact blankUnit_ok
    · rw [hu]; exact fieldRT_s 5 _ rfl (by decide)
  · cases hx : h.gdcx with
    | none => exact noneItem_ok _ (Or.inr (Or.inr rfl))
    | some x => exact fieldRT_f 2 x (hh.gdcx x hx)
  · cases hx : h.gdcy with
    | none => exact noneItem_ok _ (Or.inr (Or.inr rfl))
    | some x => exact fieldRT_f 2 x (hh.gdcy x hx)
  · cases hx : h.cntype with
    | none => exact noneItem_ok _ (Or.inl rfl)
    | some i => exact intItem_ok (fits_digit _ (hh.cntype i hx))
  · exact fieldRT_f 2 _ hh.perm
  · rcases hh.boi with hb | hb | hb <;> rw [hb]
    · exact noneItem_ok _ (Or.inl rfl)
    · exact intItem_ok (by decide)
    · exact intItem_ok (by decide)

theorem hdrItems_fields (h : Header) : (hdrItems h).map (·.1) = SP.header := by
  unfold hdrItems unitItem optFItem optDItem
  cases h.gdcx <;> cases h.gdcy <;> cases h.cntype <;> cases h.blockOrderInt <;> by_cases hu : h.unitType = [] <;>
    simp [hu, strItem, intItem, eItem, fItem, noneItem, SP]

theorem hdrItems_vals {h : Header} (hh : HeaderOK h) : (hdrItems h).map (·.2.1) = SP.headerNames.map h.get := by
  unfold hdrItems unitItem optFItem optDItem
  rcases hh.unit with hu | hu
  · cases hx : h.gdcx <;> cases hy : h.gdcy <;> cases hc : h.cntype <;> cases hb : h.blockOrderInt <;>
      simp [hu, hx, hy, hc, hb, strItem, intItem, eItem, fItem, noneItem, SP, Header.get, optFlt, optInt]
  · cases hx : h.gdcx <;> cases hy : h.gdcy <;> cases hc : h.cntype <;> cases hb : h.blockOrderInt <;>
      simp [hu, hx, hy, hc, hb, feet, strItem, intItem, eItem, fItem, noneItem, SP, Header.get, optFlt, optInt]

theorem writeHeader_eq {h : Header} (hh : HeaderOK h) : writeHeader SP h = .ok (recText (hdrItems h) ++ ['\n']) := by
  unfold writeHeader
  rw [← hdrItems_fields h, ← hdrItems_vals hh]
  exact lineOf_items (hdrItems h) (hdrItems_ok hh)

/-! ### reading the header line back -/

theorem set_type (h : Header) (t : Str) : h.set "type" (.str t) = .ok { h with type := t } := by
  simp [Header.set]
theorem set_unit (h : Header) (t : Str) : h.set "_unit_type" (.str t) = .ok { h with unitType := t } := by
  simp [Header.set]
theorem set_conv (h : Header) (i : Int) : h.set "_convention" (.int i) = .ok { h with convention := i } := by
  simp [Header.set]
theorem set_atm (h : Header) (i : Int) : h.set "_atmosphere_type" (.int i) = .ok { h with atmosType := i } := by
  simp [Header.set]
theorem set_vol (h : Header) (neg : Bool) (m : Nat) (e : Int) :
    h.set "atmosphere_volume" (.flt (.fin neg m e)) = .ok { h with atmosVolume := ofDec neg m e } := by
  simp [Header.set, ofFVal_fin]
theorem set_conn (h : Header) (neg : Bool) (m : Nat) (e : Int) :
    h.set "atmosphere_connection" (.flt (.fin neg m e)) = .ok { h with atmosConnection := ofDec neg m e } := by
  simp [Header.set, ofFVal_fin]
theorem set_perm (h : Header) (neg : Bool) (m : Nat) (e : Int) :
    h.set "permeability_angle" (.flt (.fin neg m e)) = .ok { h with permAngle := ofDec neg m e } := by
  simp [Header.set, ofFVal_fin]
theorem set_gdcx (h : Header) (o : Option Flt) :
    h.set "gdcx" (optFItem o).2.2.2 = .ok { h with gdcx := match o with | some x => some (roundF 2 x) | none => h.gdcx } := by
  cases o with
  | none => rfl
  | some x => simp [optFItem, fItem, Header.set, ofFVal_fin, roundF]
theorem set_gdcy (h : Header) (o : Option Flt) :
    h.set "gdcy" (optFItem o).2.2.2 = .ok { h with gdcy := match o with | some x => some (roundF 2 x) | none => h.gdcy } := by
  cases o with
  | none => rfl
  | some x => simp [optFItem, fItem, Header.set, ofFVal_fin, roundF]
theorem set_cntype (h : Header) (o : Option Int) :
    h.set "cntype" (optDItem 1 o).2.2.2 = .ok { h with cntype := match o with | some i => some i | none => h.cntype } := by
  cases o with
  | none => rfl
  | some x => simp [optDItem, intItem, Header.set]
theorem set_boi (h : Header) (o : Option Int) :
    h.set "_block_order_int" (optDItem 2 o).2.2.2
      = .ok { h with blockOrderInt := match o with | some i => some i | none => h.blockOrderInt } := by
  cases o with
  | none => rfl
  | some x => simp [optDItem, intItem, Header.set]

theorem checkSecondary_ok (h : Header) (hc : 0 ≤ h.convention ∧ h.convention ≤ 3) : checkSecondary h = .ok () := by
  have : h.convention = 0 ∨ h.convention = 1 ∨ h.convention = 2 ∨ h.convention = 3 := by omega
  unfold checkSecondary
  by_cases ha : h.atmosType = 0 <;> rcases this with e | e | e | e <;> rw [e] <;> simp [ha] <;> rfl

theorem unitItem_pv (u : Str) (hu : u = [] ∨ u = feet) :
    (unitItem u).2.2.2 = .str (if u = [] then blank5 else u) := by
  rcases hu with rfl | rfl <;> rfl

theorem readHeader_written {h : Header} (hh : HeaderOK h) (tail : Str) :
    readHeader SP {} (recText (hdrItems h) ++ tail) = .ok (canonHeader h) := by
  unfold readHeader
  have hp := parse_items .default (hdrItems h) (hdrItems_ok hh) tail
  rw [hdrItems_fields] at hp
  rw [hp]
  have hz : SP.headerNames.zip ((hdrItems h).map (·.2.2.2)) =
      [("type", .str h.type), ("_convention", .int h.convention), ("_atmosphere_type", .int h.atmosType),
       ("atmosphere_volume", (eItem h.atmosVolume).2.2.2), ("atmosphere_connection", (eItem h.atmosConnection).2.2.2),
       ("_unit_type", (unitItem h.unitType).2.2.2), ("gdcx", (optFItem h.gdcx).2.2.2), ("gdcy", (optFItem h.gdcy).2.2.2),
       ("cntype", (optDItem 1 h.cntype).2.2.2), ("permeability_angle", (fItem 2 h.permAngle).2.2.2),
       ("_block_order_int", (optDItem 2 h.blockOrderInt).2.2.2)] := rfl
  simp only [bind, Except.bind]
  rw [hz, unitItem_pv _ hh.unit]
  simp only [setAll, set_type, set_conv, set_atm, eItem, set_vol, set_conn, set_unit, set_gdcx, set_gdcy, set_cntype,
    fItem, set_perm, set_boi, bind, Except.bind]
  obtain ⟨type, conv, atm, vol, conn, unit, gdcx, gdcy, cntype, perm, boi, bo, extra⟩ := h
  have h1 := hh.type; have h2 := hh.conv; have h3 := hh.unit; have h4 := hh.boi; have h5 := hh.bo; have h6 := hh.extra
  simp only at h1 h2 h3 h4 h5 h6
  subst h1 h5 h6
  rw [checkSecondary_ok _ h2]
  simp only [pure, Except.pure]
  rcases h3 with rfl | rfl
  · rcases h4 with rfl | rfl | rfl <;> cases gdcx <;> cases gdcy <;> cases cntype <;> rfl
  · rcases h4 with rfl | rfl | rfl <;> cases gdcx <;> cases gdcy <;> cases cntype <;> rfl

end Proofs.GeoFile
