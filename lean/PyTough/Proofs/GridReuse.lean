/-
  Invariant preservation: handing an existing object to add_* again.
-/
import PyTough.Proofs.GridMinc
namespace Proofs.Grid
open Py Model Model.Grid Model.Grid.World

theorem findOutside_some {l : List Nat} {n : Nat} {p : Nat → Bool} {x : Nat} (h : findOutside l n p = some x) :
    x < n ∧ x ∉ l ∧ p x = true := by
  unfold findOutside at h
  have h1 := List.find?_some h
  have h2 := List.mem_of_find?_eq_some h
  simp only [List.mem_reverse, List.mem_range] at h2
  simp only [Bool.and_eq_true, Bool.not_eq_true', List.contains_eq_mem, decide_eq_false_iff_not] at h1
  exact ⟨h2, h1.1, h1.2⟩

theorem replaceFirst_self {l : List Nat} {x : Nat} (h : x ∈ l) : replaceFirst l x x = some l := by
  induction l with
  | nil => cases h
  | cons a r ih =>
    unfold replaceFirst
    by_cases e : a = x
    · simp [e]
    · rcases List.mem_cons.mp h with h | h
      · exact absurd h.symm e
      · simp [e, ih h]

/-- only the lookups of a dictionary matter -/
theorem inv_of_block_dict_ext {w : World} (hI : Grid.Inv w) (d : Dict Name Nat) (h : ∀ k, dget d k = dget w.block k) :
    Grid.Inv { w with block := d } := by
  refine Inv.mk' ?_ ⟨hI.bl_lt, hI.bl_nodup, ?_, ?_⟩ ?_ ?_ ?_
  · exact hI.rockInv.frame rfl rfl (Nat.le_refl _) (fun _ _ => rfl)
  · intro n b hb; exact hI.bd_sound n b (by rw [← h]; exact hb)
  · intro b hb; show dget d (w.bname b) = some b; rw [h]; exact hI.bd_complete b hb
  · exact hI.conInv.frame rfl rfl (Nat.le_refl _) (fun c h => ⟨(hI.c_ends c h).1, (hI.c_ends c h).2.1⟩) (fun _ _ => rfl) (fun _ _ => rfl)
  · exact hI.rockLink.frame rfl (fun _ h => h) (fun _ _ => rfl)
  · exact hI.connLink.frame hI.conInv rfl rfl (fun _ _ => rfl) (fun _ _ => rfl) (fun _ _ => rfl)

/-- `add_block(b)` for a block that is already in the grid changes nothing observable -/
theorem addBlock_again_inv {w : World} (hI : Grid.Inv w) {b : Nat} (hb : b ∈ w.blocklist) :
    Grid.Inv (worldOf (addBlock w b)) := by
  have hd := hI.bd_complete b hb
  simp only [addBlock, hd, replaceFirst_self hb, worldOf_ok]
  refine inv_of_block_dict_ext hI _ ?_
  intro k
  rw [dget_dset]
  split
  · rename_i e; rw [← e, hd]
  · rfl

theorem stepReuse_inv {w : World} (hI : Grid.Inv w) (op : Op) (hpre : pre w op = true) :
    Grid.Inv (stepReuse w op).w := by
  cases op with
  | addBlockFresh nm rock vol centre => simp [pre] at hpre
  | readdBlock nm =>
    simp only [pre] at hpre
    simp only [stepReuse]
    cases ho : outsideBlock w nm with
    | none => exact hI
    | some b =>
      simp only [ho, Bool.and_eq_true, List.isEmpty_iff, decide_eq_true_eq, Bool.not_eq_true'] at hpre
      obtain ⟨hlt, hnew, hname⟩ := findOutside_some ho
      simp only [beq_iff_eq] at hname
      simp only [ofR_w]
      refine addBlock_inv hI hlt hnew hpre.1.1 hpre.1.2 ?_
      intro old hd
      rw [hname] at hd
      exact blockNameConnected_false hpre.2 old hd
  | readdRocktype nm =>
    simp only [pre] at hpre
    simp only [stepReuse]
    cases ho : outsideRock w nm with
    | none => exact hI
    | some r =>
      simp only [ho, Bool.not_eq_true'] at hpre
      obtain ⟨hlt, hnew, hname⟩ := findOutside_some ho
      simp only [beq_iff_eq] at hname
      simp only [ofR_w]
      refine addRocktype_inv hI hlt hnew ?_
      intro old hd
      rw [hname] at hd
      exact rockNameInUse_false hpre old hd
  | readdConnection n0 n1 =>
    simp only [pre] at hpre
    simp only [stepReuse]
    cases ho : outsideCon w (n0, n1) with
    | none => exact hI
    | some c =>
      simp only [ho, Bool.and_eq_true, decide_eq_true_eq, bne_iff_ne, ne_eq] at hpre
      obtain ⟨hlt, hnew, _⟩ := findOutside_some ho
      simp only [ofR_w]
      exact addConnection_inv hI hlt hnew hpre.1.1 hpre.1.2 hpre.2
  | againBlock nm =>
    simp only [stepReuse]
    cases hd : dget w.block nm with
    | none => exact hI
    | some b =>
      simp only [ofR_w]
      exact addBlock_again_inv hI (hI.bd_sound _ _ hd).1
  | _ => exact hI

end Proofs.Grid
