/-
  `add_connection` preserves the structural invariant; the Boolean clauses of GeoInv as propositions.
-/
import PyTough.Proofs.GeoEdits
namespace Proofs.Geo
open Model.Geo Model.Geo.Geo Py

theorem mem_setAdd (s : List Nat) (x y : Nat) : y ∈ setAdd s x ↔ y ∈ s ∨ y = x := by
  unfold setAdd
  split
  · rename_i h
    simp only [List.contains_eq_mem, decide_eq_true_eq] at h
    constructor
    · exact Or.inl
    · rintro (h' | rfl)
      · exact h'
      · exact h
  · simp

/-- what `add_connection` builds when the key is new -/
def addConnFresh (g : Geo) (c0 c1 : Nat) : Geo :=
  let i := g.K.size
  { g with K := g.K.push { c0, c1, nodes := g.connectionNodes c0 c1 },
           connlist := g.connlist ++ [i],
           connD := g.connD.set ((g.col c0).name, (g.col c1).name) i,
           C := (((g.C.modify c0 fun cl => { cl with cons := setAdd cl.cons i }).modify c1
                  fun cl => { cl with cons := setAdd cl.cons i }).modify c0
                  fun cl => { cl with nbrs := setAdd cl.nbrs c1 }).modify c1
                  fun cl => { cl with nbrs := setAdd cl.nbrs c0 } }

theorem addConnection_eq (g : Geo) (c0 c1 : Nat) :
    g.addConnection c0 c1 =
      if g.connD.contains ((g.col c0).name, (g.col c1).name) then g else addConnFresh g c0 c1 := rfl

/-- the columns after `add_connection` -/
theorem addConnFresh_col (g : Geo) (c0 c1 : Nat) (h0 : c0 < g.C.size) (h1 : c1 < g.C.size) (hne : c0 ≠ c1)
    (j : Nat) :
    (addConnFresh g c0 c1).col j =
      if j = c0 then { g.col c0 with cons := setAdd (g.col c0).cons g.K.size, nbrs := setAdd (g.col c0).nbrs c1 }
      else if j = c1 then { g.col c1 with cons := setAdd (g.col c1).cons g.K.size, nbrs := setAdd (g.col c1).nbrs c0 }
      else g.col j := by
  simp only [addConnFresh, Geo.col]
  rw [getElem!_modify _ _ _ _ (by simp [h1]), getElem!_modify _ _ _ _ (by simp [h0]),
    getElem!_modify _ _ _ _ (by simp [h1]), getElem!_modify _ _ _ _ h0]
  by_cases e0 : j = c0
  · subst e0
    simp [hne, Ne.symm hne]
  · by_cases e1 : j = c1
    · subst e1
      simp [hne, Ne.symm hne]
    · simp [e0, e1, Ne.symm e0, Ne.symm e1]

end Proofs.Geo

namespace Proofs.Geo
open Model.Geo Model.Geo.Geo Py

/-- the situation in which `add_connection(connection([col0, col1]))` is a sensible edit: two different columns of
    the geometry, not yet joined, sharing a side (which `connection_nodes` then finds) -/
structure AddConnPre (g : Geo) (c0 c1 : Nat) : Prop where
  m0 : c0 ∈ g.columnlist
  m1 : c1 ∈ g.columnlist
  ne : c0 ≠ c1
  notJoined : g.joined c0 c1 = false
  side : ∃ a b, g.connectionNodes c0 c1 = some (a, b) ∧ a ≠ b ∧
    isSide (g.col c0).nodes a b = true ∧ isSide (g.col c1).nodes a b = true

theorem AddConnPre.of_bool {g : Geo} {c0 c1 : Nat} (h : g.addConnPreB c0 c1 = true) : AddConnPre g c0 c1 := by
  simp only [Geo.addConnPreB, Bool.and_eq_true, List.contains_eq_mem, decide_eq_true_eq, bne_iff_ne, ne_eq,
    Bool.not_eq_true'] at h
  obtain ⟨⟨⟨⟨m0, m1⟩, ne⟩, nj⟩, hs⟩ := h
  refine ⟨m0, m1, ne, nj, ?_⟩
  cases hn : g.connectionNodes c0 c1 with
  | none => rw [hn] at hs; cases hs
  | some p =>
    rw [hn] at hs
    simp only [Bool.and_eq_true, bne_iff_ne, ne_eq] at hs
    exact ⟨p.1, p.2, rfl, hs.1.1, hs.1.2, hs.2⟩

theorem heapOK_cons {g : Geo} (h : g.heapOK = true) : ∀ n ∈ g.connlist, n < g.K.size := by
  simp only [heapOK, Bool.and_eq_true, List.all_eq_true, decide_eq_true_eq] at h
  exact h.1.1.2

section addconn
variable (g : Geo) (c0 c1 : Nat) (h0 : c0 < g.C.size) (h1 : c1 < g.C.size) (hne : c0 ≠ c1)
include h0 h1 hne

theorem addConnFresh_colName (j : Nat) : ((addConnFresh g c0 c1).col j).name = (g.col j).name := by
  rw [addConnFresh_col g c0 c1 h0 h1 hne]; split
  · rename_i e; rw [e]
  · split
    · rename_i e; rw [e]
    · rfl

theorem addConnFresh_colNodes (j : Nat) : ((addConnFresh g c0 c1).col j).nodes = (g.col j).nodes := by
  rw [addConnFresh_col g c0 c1 h0 h1 hne]; split
  · rename_i e; rw [e]
  · split
    · rename_i e; rw [e]
    · rfl

theorem addConnFresh_colArea (j : Nat) : ((addConnFresh g c0 c1).col j).area = (g.col j).area := by
  rw [addConnFresh_col g c0 c1 h0 h1 hne]; split
  · rename_i e; rw [e]
  · split
    · rename_i e; rw [e]
    · rfl

theorem addConnFresh_colSurface (j : Nat) : ((addConnFresh g c0 c1).col j).surface = (g.col j).surface := by
  rw [addConnFresh_col g c0 c1 h0 h1 hne]; split
  · rename_i e; rw [e]
  · split
    · rename_i e; rw [e]
    · rfl

theorem addConnFresh_colNumLayers (j : Nat) : ((addConnFresh g c0 c1).col j).numLayers = (g.col j).numLayers := by
  rw [addConnFresh_col g c0 c1 h0 h1 hne]; split
  · rename_i e; rw [e]
  · split
    · rename_i e; rw [e]
    · rfl

theorem addConnFresh_mem_cons (j k : Nat) :
    k ∈ ((addConnFresh g c0 c1).col j).cons ↔ k ∈ (g.col j).cons ∨ (k = g.K.size ∧ (j = c0 ∨ j = c1)) := by
  rw [addConnFresh_col g c0 c1 h0 h1 hne]; split
  · rename_i e; subst e; simp [mem_setAdd]
  · rename_i e0; split
    · rename_i e; subst e; simp [mem_setAdd]
    · rename_i e1; simp [e0, e1]

theorem addConnFresh_mem_nbrs (j d : Nat) :
    d ∈ ((addConnFresh g c0 c1).col j).nbrs ↔ d ∈ (g.col j).nbrs ∨ (j = c0 ∧ d = c1) ∨ (j = c1 ∧ d = c0) := by
  rw [addConnFresh_col g c0 c1 h0 h1 hne]; split
  · rename_i e; subst e; simp [mem_setAdd, hne]
  · rename_i e0; split
    · rename_i e; subst e; simp [mem_setAdd, Ne.symm hne]
    · rename_i e1; simp [e0, e1]

end addconn

theorem addConnFresh_con_old (g : Geo) (c0 c1 k : Nat) (hk : k < g.K.size) :
    (addConnFresh g c0 c1).con k = g.con k := by
  simp only [addConnFresh, Geo.con]; exact getElem!_push_lt _ _ _ hk

theorem addConnFresh_con_new (g : Geo) (c0 c1 : Nat) :
    (addConnFresh g c0 c1).con g.K.size = { c0, c1, nodes := g.connectionNodes c0 c1 } := by
  simp only [addConnFresh, Geo.con]; exact getElem!_push_eq _ _

end Proofs.Geo

namespace Proofs.Geo
open Model.Geo Model.Geo.Geo Py

/-! ### the Boolean clauses as propositions -/

theorem colConsOK_iff (g : Geo) : g.colConsOK = true ↔
    (∀ k ∈ g.connlist, (g.con k).c0 ∈ g.columnlist ∧ (g.con k).c1 ∈ g.columnlist) ∧
    ∀ c ∈ g.columnlist,
      (∀ k ∈ (g.col c).cons, k ∈ g.connlist ∧ ((g.con k).c0 = c ∨ (g.con k).c1 = c)) ∧
      ∀ k ∈ g.connlist, ((g.con k).c0 = c ∨ (g.con k).c1 = c) → k ∈ (g.col c).cons := by
  simp only [colConsOK, Bool.and_eq_true, List.all_eq_true, List.contains_eq_mem, decide_eq_true_eq,
    Bool.or_eq_true, Bool.not_eq_true', decide_eq_false_iff_not]
  constructor
  · rintro ⟨h1, h2⟩
    refine ⟨h1, fun c hc => ⟨(h2 c hc).1, fun k hk hor => ?_⟩⟩
    rcases (h2 c hc).2 k hk with h | h
    · simp only [Bool.or_eq_false_iff, decide_eq_false_iff_not] at h
      rcases hor with e | e
      · exact absurd e h.1
      · exact absurd e h.2
    · exact h
  · rintro ⟨h1, h2⟩
    refine ⟨h1, fun c hc => ⟨(h2 c hc).1, fun k hk => ?_⟩⟩
    by_cases hor : (g.con k).c0 = c ∨ (g.con k).c1 = c
    · exact Or.inr ((h2 c hc).2 k hk hor)
    · left
      simp only [Bool.or_eq_false_iff, decide_eq_false_iff_not]
      exact ⟨fun e => hor (Or.inl e), fun e => hor (Or.inr e)⟩

theorem joined_iff (g : Geo) (c d : Nat) : g.joined c d = true ↔
    ∃ k ∈ g.connlist, ((g.con k).c0 = c ∧ (g.con k).c1 = d) ∨ ((g.con k).c0 = d ∧ (g.con k).c1 = c) := by
  simp only [joined, List.any_eq_true, Bool.or_eq_true, Bool.and_eq_true, decide_eq_true_eq]

theorem nbrsOK_iff (g : Geo) : g.nbrsOK = true ↔
    ∀ c ∈ g.columnlist, (∀ d ∈ (g.col c).nbrs, g.joined c d = true) ∧
      ∀ d ∈ g.columnlist, g.joined c d = true → d ∈ (g.col c).nbrs := by
  simp only [nbrsOK, Bool.and_eq_true, List.all_eq_true, List.contains_eq_mem, decide_eq_true_eq,
    Bool.or_eq_true, Bool.not_eq_true']
  constructor
  · intro h c hc
    refine ⟨(h c hc).1, fun d hd hj => ?_⟩
    rcases (h c hc).2 d hd with h' | h'
    · rw [hj] at h'; cases h'
    · exact h'
  · intro h c hc
    refine ⟨(h c hc).1, fun d hd => ?_⟩
    cases hj : g.joined c d
    · exact Or.inl rfl
    · exact Or.inr ((h c hc).2 d hd hj)

theorem conNodesOK_iff (g : Geo) : g.conNodesOK = true ↔
    ∀ k ∈ g.connlist, ∃ a b, (g.con k).nodes = some (a, b) ∧ a ≠ b ∧
      isSide (g.col (g.con k).c0).nodes a b = true ∧ isSide (g.col (g.con k).c1).nodes a b = true := by
  simp only [conNodesOK, List.all_eq_true]
  constructor
  · intro h k hk
    have := h k hk
    cases hn : (g.con k).nodes with
    | none => rw [hn] at this; cases this
    | some p =>
      rw [hn] at this
      simp only [Bool.and_eq_true, bne_iff_ne, ne_eq] at this
      exact ⟨p.1, p.2, rfl, this.1.1, this.1.2, this.2⟩
  · intro h k hk
    obtain ⟨a, b, hn, hab, h0, h1⟩ := h k hk
    rw [hn]
    simp only [Bool.and_eq_true, bne_iff_ne, ne_eq]
    exact ⟨⟨hab, h0⟩, h1⟩

end Proofs.Geo

namespace Proofs.Geo
open Model.Geo Model.Geo.Geo Py

theorem addConnFresh_geoInv0 (g : Geo) (c0 c1 : Nat) (pre : AddConnPre g c0 c1)
    (hfresh : g.connD.contains ((g.col c0).name, (g.col c1).name) = false) (h : g.geoInv0 = true) :
    (addConnFresh g c0 c1).geoInv0 = true := by
  simp only [geoInv0, Bool.and_eq_true] at h ⊢
  obtain ⟨⟨⟨⟨⟨⟨hh, hr⟩, hnc⟩, hcc⟩, hnb⟩, hcn⟩, ho⟩ := h
  have h0 : c0 < g.C.size := heapOK_cols hh c0 pre.m0
  have h1 : c1 < g.C.size := heapOK_cols hh c1 pre.m1
  have hne := pre.ne
  have hklt := heapOK_cons hh
  have hnotin : g.K.size ∉ g.connlist := fun hm => Nat.lt_irrefl _ (hklt _ hm)
  have hname := addConnFresh_colName g c0 c1 h0 h1 hne
  have hnodes := addConnFresh_colNodes g c0 c1 h0 h1 hne
  have hcold := fun k hk => addConnFresh_con_old g c0 c1 k (hklt k hk)
  have hcnew := addConnFresh_con_new g c0 c1
  have hlist : (addConnFresh g c0 c1).connlist = g.connlist ++ [g.K.size] := rfl
  have hcl : (addConnFresh g c0 c1).columnlist = g.columnlist := rfl
  refine ⟨⟨⟨⟨⟨⟨?_, ?_⟩, ?_⟩, ?_⟩, ?_⟩, ?_⟩, ?_⟩
  · -- heapOK
    simp only [heapOK, Bool.and_eq_true] at hh ⊢
    refine ⟨⟨⟨⟨hh.1.1.1.1, ?_⟩, ?_⟩, hh.1.2⟩, hh.2⟩
    · simp only [List.all_eq_true, decide_eq_true_eq] at hh ⊢
      intro j hj
      have : (addConnFresh g c0 c1).C.size = g.C.size := by simp [addConnFresh]
      rw [this]; exact hh.1.1.1.2 j hj
    · simp only [List.all_eq_true, decide_eq_true_eq]
      intro j hj
      have : (addConnFresh g c0 c1).K.size = g.K.size + 1 := by simp [addConnFresh]
      rw [this]
      rcases List.mem_append.mp hj with hj | hj
      · exact Nat.lt_succ_of_lt (hklt j hj)
      · simp at hj; omega
  · -- registries
    simp only [registriesOK, Bool.and_eq_true] at hr ⊢
    refine ⟨⟨⟨⟨hr.1.1.1.1, ?_⟩, hr.1.1.2⟩, hr.1.2⟩, ?_⟩
    · have : (fun i => ((addConnFresh g c0 c1).col i).name) = fun i => (g.col i).name := funext hname
      show regOK g.columnlist g.columnD (fun i => ((addConnFresh g c0 c1).col i).name) = true
      rw [this]; exact hr.1.1.1.2
    · show regOK (g.connlist ++ [g.K.size]) (g.connD.set ((g.col c0).name, (g.col c1).name) g.K.size)
        (addConnFresh g c0 c1).conKey = true
      rw [Dict.set_fresh _ _ _ hfresh]
      apply regOK_append g.connlist g.connD g.conKey _ g.K.size _ hr.2 hnotin hfresh
      · simp only [Geo.conKey, hcnew, hname]
      · intro j hj; simp only [Geo.conKey, hcold j hj, hname]
  · -- nodeColsOK
    have : (addConnFresh g c0 c1).nodeColsOK = g.nodeColsOK := by
      simp only [nodeColsOK, hcl, hnodes]; rfl
    rw [this]; exact hnc
  · -- colConsOK
    rw [colConsOK_iff] at hcc ⊢
    rw [hlist, hcl]
    refine ⟨?_, ?_⟩
    · intro k hk
      rcases List.mem_append.mp hk with hk | hk
      · rw [hcold k hk]; exact hcc.1 k hk
      · simp at hk; subst hk; rw [hcnew]; exact ⟨pre.m0, pre.m1⟩
    · intro c hc
      refine ⟨?_, ?_⟩
      · intro k hk
        rcases (addConnFresh_mem_cons g c0 c1 h0 h1 hne c k).mp hk with hk | ⟨rfl, hcc'⟩
        · have := (hcc.2 c hc).1 k hk
          rw [hcold k this.1]
          exact ⟨List.mem_append_left _ this.1, this.2⟩
        · rw [hcnew]
          refine ⟨by simp, ?_⟩
          rcases hcc' with rfl | rfl
          · exact Or.inl rfl
          · exact Or.inr rfl
      · intro k hk hor
        apply (addConnFresh_mem_cons g c0 c1 h0 h1 hne c k).mpr
        rcases List.mem_append.mp hk with hk | hk
        · rw [hcold k hk] at hor
          exact Or.inl ((hcc.2 c hc).2 k hk hor)
        · simp at hk; subst hk
          rw [hcnew] at hor
          right
          refine ⟨rfl, ?_⟩
          rcases hor with e | e
          · exact Or.inl e.symm
          · exact Or.inr e.symm
  · -- nbrsOK
    have hj : ∀ c d, (addConnFresh g c0 c1).joined c d = true ↔
        g.joined c d = true ∨ (c = c0 ∧ d = c1) ∨ (c = c1 ∧ d = c0) := by
      intro c d
      rw [joined_iff, joined_iff, hlist]
      constructor
      · rintro ⟨k, hk, hor⟩
        rcases List.mem_append.mp hk with hk | hk
        · rw [hcold k hk] at hor; exact Or.inl ⟨k, hk, hor⟩
        · simp at hk; subst hk
          rw [hcnew] at hor
          rcases hor with ⟨e1, e2⟩ | ⟨e1, e2⟩
          · exact Or.inr (Or.inl ⟨e1.symm, e2.symm⟩)
          · exact Or.inr (Or.inr ⟨e2.symm, e1.symm⟩)
      · rintro (⟨k, hk, hor⟩ | ⟨rfl, rfl⟩ | ⟨rfl, rfl⟩)
        · exact ⟨k, List.mem_append_left _ hk, by rw [hcold k hk]; exact hor⟩
        · exact ⟨g.K.size, by simp, by rw [hcnew]; exact Or.inl ⟨rfl, rfl⟩⟩
        · exact ⟨g.K.size, by simp, by rw [hcnew]; exact Or.inr ⟨rfl, rfl⟩⟩
    rw [nbrsOK_iff] at hnb ⊢
    rw [hcl]
    intro c hc
    refine ⟨?_, ?_⟩
    · intro d hd
      rw [hj]
      rcases (addConnFresh_mem_nbrs g c0 c1 h0 h1 hne c d).mp hd with hd | hd
      · exact Or.inl ((hnb c hc).1 d hd)
      · exact Or.inr hd
    · intro d hd hjd
      apply (addConnFresh_mem_nbrs g c0 c1 h0 h1 hne c d).mpr
      rcases (hj c d).mp hjd with hjd | hjd
      · exact Or.inl ((hnb c hc).2 d hd hjd)
      · exact Or.inr hjd
  · -- conNodesOK
    rw [conNodesOK_iff] at hcn ⊢
    rw [hlist]
    intro k hk
    rcases List.mem_append.mp hk with hk | hk
    · rw [hcold k hk]
      simp only [hnodes]
      exact hcn k hk
    · simp at hk; subst hk
      rw [hcnew]
      simp only [hnodes]
      exact pre.side
  · -- orientOK
    have : (addConnFresh g c0 c1).orientOK = g.orientOK := by
      simp only [orientOK, hcl, hnodes, addConnFresh_colArea g c0 c1 h0 h1 hne]; rfl
    rw [this]; exact ho

/-- `add_connection` between two unjoined columns of the geometry that share a side keeps the structural
    invariant and the layer counts (it does not refresh the connection name list: known finding) -/
theorem addConnection_geoInv0 (g : Geo) (c0 c1 : Nat) (pre : AddConnPre g c0 c1) (h : g.geoInv0 = true) :
    (g.addConnection c0 c1).geoInv0 = true := by
  rw [addConnection_eq]
  split
  · exact h
  · rename_i hf
    exact addConnFresh_geoInv0 g c0 c1 pre (by simpa using hf) h

end Proofs.Geo
