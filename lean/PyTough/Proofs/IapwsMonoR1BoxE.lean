/-
  Region 1 density monotonicity, boxes (part E): narrow temperature slabs 230 … 250 degC cut into pressure intervals that are chained
  (`GpAnti.union`) in `Proofs/IapwsMonoR1Slabs.lean`; bounds evaluated on the generated table `tbl1` by `norm_num`.
-/
import PyTough.Proofs.IapwsMonoR1Chain
namespace Proofs.Iapws
open Gen.Iapws Model.Thermo Proofs.Thermo

theorem sumU_r1_s235_25 : sumU2 tbl1 (687 / 100) (69489 / 10000) (3697 / 2500) (15057 / 10000) < 0 ∧ sumU1 tbl1 (687 / 100) (69489 / 10000) (3697 / 2500) (15057 / 10000) < 0 := by
  unfold sumU2 sumU1 rowU2 rowU1 yMax yMin tbl1
  simp only [zip3, ir1, jr1, nr1, tf_lit, List.zip_cons_cons, List.zip_nil_right, List.map_cons, List.map_nil, List.sum_cons, List.sum_nil]
  norm_num [Int.toNat]

/-- `235 ≤ t ≤ 240` degC, `2500000 ≤ p ≤ 3800000` Pa -/
theorem gpAnti_s235_25 (t : ℝ) (ht1 : 235 ≤ t) (ht2 : t ≤ 240) : GpAnti t 2500000 3800000 :=
  gpAnti_box 235 240 2500000 3800000 (687 / 100) (69489 / 10000) (3697 / 2500) (15057 / 10000) t
    (by norm_num) (by norm_num) (by norm_num) (by norm_num) (by norm_num) (by norm_num) (by norm_num)
    sumU_r1_s235_25.1 sumU_r1_s235_25.2 ht1 ht2

theorem sumU_r1_s240_30 : sumU2 tbl1 (16933 / 2500) (69187 / 10000) (14631 / 10000) (1849 / 1250) < 0 ∧ sumU1 tbl1 (16933 / 2500) (69187 / 10000) (14631 / 10000) (1849 / 1250) < 0 := by
  unfold sumU2 sumU1 rowU2 rowU1 yMax yMin tbl1
  simp only [zip3, ir1, jr1, nr1, tf_lit, List.zip_cons_cons, List.zip_nil_right, List.map_cons, List.map_nil, List.sum_cons, List.sum_nil]
  norm_num [Int.toNat]

/-- `240 ≤ t ≤ 243` degC, `3000000 ≤ p ≤ 5400000` Pa -/
theorem gpAnti_s240_30 (t : ℝ) (ht1 : 240 ≤ t) (ht2 : t ≤ 243) : GpAnti t 3000000 5400000 :=
  gpAnti_box 240 243 3000000 5400000 (16933 / 2500) (69187 / 10000) (14631 / 10000) (1849 / 1250) t
    (by norm_num) (by norm_num) (by norm_num) (by norm_num) (by norm_num) (by norm_num) (by norm_num)
    sumU_r1_s240_30.1 sumU_r1_s240_30.2 ht1 ht2

theorem sumU_r1_s243_30 : sumU2 tbl1 (16691 / 2500) (69187 / 10000) (579 / 400) (2927 / 2000) < 0 ∧ sumU1 tbl1 (16691 / 2500) (69187 / 10000) (579 / 400) (2927 / 2000) < 0 := by
  unfold sumU2 sumU1 rowU2 rowU1 yMax yMin tbl1
  simp only [zip3, ir1, jr1, nr1, tf_lit, List.zip_cons_cons, List.zip_nil_right, List.map_cons, List.map_nil, List.sum_cons, List.sum_nil]
  norm_num [Int.toNat]

/-- `243 ≤ t ≤ 246` degC, `3000000 ≤ p ≤ 7000000` Pa -/
theorem gpAnti_s243_30 (t : ℝ) (ht1 : 243 ≤ t) (ht2 : t ≤ 246) : GpAnti t 3000000 7000000 :=
  gpAnti_box 243 246 3000000 7000000 (16691 / 2500) (69187 / 10000) (579 / 400) (2927 / 2000) t
    (by norm_num) (by norm_num) (by norm_num) (by norm_num) (by norm_num) (by norm_num) (by norm_num)
    sumU_r1_s243_30.1 sumU_r1_s243_30.2 ht1 ht2

theorem sumU_r1_s246_33 : sumU2 tbl1 (68579 / 10000) (13801 / 2000) (14271 / 10000) (181 / 125) < 0 ∧ sumU1 tbl1 (68579 / 10000) (13801 / 2000) (14271 / 10000) (181 / 125) < 0 := by
  unfold sumU2 sumU1 rowU2 rowU1 yMax yMin tbl1
  simp only [zip3, ir1, jr1, nr1, tf_lit, List.zip_cons_cons, List.zip_nil_right, List.map_cons, List.map_nil, List.sum_cons, List.sum_nil]
  norm_num [Int.toNat]

/-- `246 ≤ t ≤ 250` degC, `3300000 ≤ p ≤ 4000000` Pa -/
theorem gpAnti_s246_33 (t : ℝ) (ht1 : 246 ≤ t) (ht2 : t ≤ 250) : GpAnti t 3300000 4000000 :=
  gpAnti_box 246 250 3300000 4000000 (68579 / 10000) (13801 / 2000) (14271 / 10000) (181 / 125) t
    (by norm_num) (by norm_num) (by norm_num) (by norm_num) (by norm_num) (by norm_num) (by norm_num)
    sumU_r1_s246_33.1 sumU_r1_s246_33.2 ht1 ht2

theorem sumU_r1_s246_53 : sumU2 tbl1 (65493 / 10000) (13559 / 2000) (14271 / 10000) (181 / 125) < 0 ∧ sumU1 tbl1 (65493 / 10000) (13559 / 2000) (14271 / 10000) (181 / 125) < 0 := by
  unfold sumU2 sumU1 rowU2 rowU1 yMax yMin tbl1
  simp only [zip3, ir1, jr1, nr1, tf_lit, List.zip_cons_cons, List.zip_nil_right, List.map_cons, List.map_nil, List.sum_cons, List.sum_nil]
  norm_num [Int.toNat]

/-- `246 ≤ t ≤ 250` degC, `5300000 ≤ p ≤ 9100000` Pa -/
theorem gpAnti_s246_53 (t : ℝ) (ht1 : 246 ≤ t) (ht2 : t ≤ 250) : GpAnti t 5300000 9100000 :=
  gpAnti_box 246 250 5300000 9100000 (65493 / 10000) (13559 / 2000) (14271 / 10000) (181 / 125) t
    (by norm_num) (by norm_num) (by norm_num) (by norm_num) (by norm_num) (by norm_num) (by norm_num)
    sumU_r1_s246_53.1 sumU_r1_s246_53.2 ht1 ht2

end Proofs.Iapws
