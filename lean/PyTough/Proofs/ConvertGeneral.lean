/-
  C20 helper lemmas, fourth part: the generator and lookup theorems without distinctness assumptions
  (an object may be listed more than once; nothing is assumed about what lookup entries point to),
  and `self.generator[key] = obj` (keys stay unique, the last assignment wins).
-/
import PyTough.Proofs.ConvertOrder
namespace Proofs.Convert
open Py Model.Convert Gen.ConvertTables

/-! ### generator lists in which an object occurs more than once

  `SameObj gens`: entries with the same identity are the same record (they *are* one Python object).
  No distinctness is assumed. -/

def SameObj (gens : List Gener) : Prop := ∀ a ∈ gens, ∀ b ∈ gens, a.id = b.id → a = b

theorem removeObj_cons_same (y : Gener) (m : List Gener) (gid : Nat) (h : y.id = gid) :
    removeObj (y :: m) gid = m := by
  simp [removeObj, List.eraseP_cons, h]

theorem removeObj_cons_ne (y : Gener) (m : List Gener) (gid : Nat) (h : y.id ≠ gid) :
    removeObj (y :: m) gid = y :: removeObj m gid := by
  simp [removeObj, List.eraseP_cons, h]

theorem foldl_removeObj_cons_ne (dl : List Gener) (y : Gener) (m : List Gener) (h : ∀ g ∈ dl, g.id ≠ y.id) :
    dl.foldl (fun l g => removeObj l g.id) (y :: m) = y :: dl.foldl (fun l g => removeObj l g.id) m := by
  induction dl generalizing m with
  | nil => rfl
  | cons g r ih =>
    have hg : y.id ≠ g.id := fun h' => h g (List.mem_cons_self ..) h'.symm
    rw [List.foldl_cons, List.foldl_cons, removeObj_cons_ne y m g.id hg]
    exact ih _ (fun g' hg' => h g' (List.mem_cons_of_mem _ hg'))

/-- removing, one `list.remove` at a time, every listed object that satisfies `p` (a property of the object)
    leaves exactly the others — whether or not an object is listed several times -/
theorem foldl_removeObj_filter (l : List Gener) (p : Gener → Bool) (f : Gener → Gener) (hf : ∀ g, (f g).id = g.id)
    (hs : SameObj l) :
    (l.filter p).foldl (fun l g => removeObj l g.id) (l.map f) = (l.filter (fun g => !p g)).map f := by
  induction l with
  | nil => rfl
  | cons x r ih =>
    have hs' : SameObj r := fun a ha b hb => hs a (List.mem_cons_of_mem _ ha) b (List.mem_cons_of_mem _ hb)
    by_cases hp : p x = true
    · simp only [List.filter_cons, hp, if_true, List.map_cons, List.foldl_cons, Bool.not_true, Bool.false_eq_true, if_false]
      rw [removeObj_cons_same (f x) _ x.id (hf x)]
      exact ih hs'
    · have hp' : p x = false := by simpa using hp
      simp only [List.filter_cons, hp', Bool.false_eq_true, if_false, List.map_cons, Bool.not_false, if_true]
      rw [foldl_removeObj_cons_ne]
      · rw [ih hs']
      · intro g hg hid
        have hg' := List.mem_filter.mp hg
        have : g = x := hs g (List.mem_cons_of_mem _ hg'.1) x (List.mem_cons_self ..) (by rw [hid, hf])
        rw [this, hp'] at hg'
        exact Bool.noConfusion hg'.2

/-- the generator list after conversion, for any list (objects may be listed more than once) -/
theorem convGensList_eq (gens : List Gener) (hs : SameObj gens) :
    convGensList gens = (gens.filter (fun g => !toDelete g)).map convGen :=
  foldl_removeObj_filter gens toDelete convGen convGen_id hs

theorem sameObj_of_nodup (gens : List Gener) (h : (gens.map (·.id)).Nodup) : SameObj gens :=
  fun _ ha _ hb hid => gener_eq_of_id h ha hb hid

/-! ### the lookup, with nothing assumed about what its entries point to -/

theorem mem_dictStep' (dc : GDict) (g : Gener) (hk : (dc.map (·.1)).Nodup) (e : (Str × Str) × Nat) :
    e ∈ dictStep dc g ↔ e ∈ dc ∧ ¬ (e.1 = (g.block, g.name) ∧ e.2 = g.id) := by
  unfold dictStep
  split
  · rename_i hl
    have hl : dc.lookup (g.block, g.name) = some g.id := by simpa using hl
    rw [List.mem_filter]
    constructor
    · rintro ⟨hm, hne⟩
      refine ⟨hm, fun h => ?_⟩
      simp [h.1] at hne
    · rintro ⟨hm, hne⟩
      refine ⟨hm, ?_⟩
      simp only [bne_iff_ne, ne_eq]
      intro hk'
      have : dc.lookup e.1 = some e.2 := lookup_of_mem_nodup dc hk e.1 e.2 hm
      rw [hk', hl] at this
      exact hne ⟨hk', (Option.some.inj this).symm⟩
  · rename_i hl
    constructor
    · intro hm
      refine ⟨hm, fun h => ?_⟩
      have : dc.lookup e.1 = some e.2 := lookup_of_mem_nodup dc hk e.1 e.2 hm
      rw [h.1, h.2] at this
      exact hl (by simp [this])
    · exact fun h => h.1

theorem mem_foldl_dictStep' (dl : List Gener) (dc : GDict) (hk : (dc.map (·.1)).Nodup) (e : (Str × Str) × Nat) :
    e ∈ dl.foldl dictStep dc ↔ e ∈ dc ∧ ∀ g ∈ dl, ¬ (e.1 = (g.block, g.name) ∧ e.2 = g.id) := by
  induction dl generalizing dc with
  | nil => simp
  | cons g r ih =>
    rw [List.foldl_cons, ih _ (nodup_keys_dictStep dc g hk), mem_dictStep' dc g hk]
    simp only [List.mem_cons, forall_eq_or_imp]
    constructor
    · rintro ⟨⟨a, b⟩, c⟩; exact ⟨a, b, c⟩
    · rintro ⟨a, b, c⟩; exact ⟨⟨a, b⟩, c⟩

/-- what `convert_AUTOUGH2_generators_to_TOUGH2` does to the lookup: an entry goes exactly when it is the entry
    *of* a deleted generator — stored under that generator's (block, name) and pointing to that very object -/
theorem convDict_mem (gens : List Gener) (dict : GDict) (hk : (dict.map (·.1)).Nodup) (e : (Str × Str) × Nat) :
    e ∈ convDict gens dict ↔
      e ∈ dict ∧ ∀ g ∈ gens, toDelete g = true → ¬ (e.1 = (g.block, g.name) ∧ e.2 = g.id) := by
  unfold convDict
  rw [mem_foldl_dictStep' _ _ hk]
  constructor
  · rintro ⟨a, b⟩; exact ⟨a, fun g hg hd => b g (List.mem_filter.mpr ⟨hg, hd⟩)⟩
  · rintro ⟨a, b⟩; exact ⟨a, fun g hg => b g (List.mem_filter.mp hg).1 (List.mem_filter.mp hg).2⟩

theorem convDict_nodup_keys (gens : List Gener) (dict : GDict) (hk : (dict.map (·.1)).Nodup) :
    ((convDict gens dict).map (·.1)).Nodup := by
  unfold convDict
  generalize gens.filter toDelete = dl
  induction dl generalizing dict with
  | nil => exact hk
  | cons g r ih => exact ih _ (nodup_keys_dictStep dict g hk)

/-! ### `self.generator[key] = obj`: keys stay unique, the last assignment wins -/

theorem gdSet_keys (dc : GDict) (k : Str × Str) (v : Nat) :
    (gdSet dc k v).map (·.1) = if k ∈ dc.map (·.1) then dc.map (·.1) else dc.map (·.1) ++ [k] := by
  induction dc with
  | nil => simp [gdSet]
  | cons x r ih =>
    obtain ⟨a, b⟩ := x
    unfold gdSet
    by_cases h : a = k
    · subst h; simp
    · have h1 : (a == k) = false := by simpa using h
      have h2 : ¬ k = a := fun h' => h h'.symm
      simp only [h1, Bool.false_eq_true, if_false, List.map_cons, ih, List.mem_cons, h2, false_or]
      split <;> simp

theorem gdSet_nodup_keys (dc : GDict) (k : Str × Str) (v : Nat) (hk : (dc.map (·.1)).Nodup) :
    ((gdSet dc k v).map (·.1)).Nodup := by
  rw [gdSet_keys]
  split
  · exact hk
  · rename_i h
    exact List.nodup_append.mpr ⟨hk, by simp, by
      intro a ha b hb
      simp only [List.mem_singleton] at hb
      subst hb
      exact fun hab => h (hab ▸ ha)⟩

theorem lookup_gdSet (dc : GDict) (k k' : Str × Str) (v : Nat) :
    (gdSet dc k v).lookup k' = if k = k' then some v else dc.lookup k' := by
  induction dc with
  | nil =>
    by_cases h : k = k'
    · subst h; simp [gdSet]
    · have : (k' == k) = false := by simpa using (fun h' : k' = k => h h'.symm)
      simp [gdSet, List.lookup_cons, this, h]
  | cons x r ih =>
    obtain ⟨a, b⟩ := x
    unfold gdSet
    by_cases ha : a = k
    · subst ha
      by_cases h : a = k'
      · subst h; simp
      · have : (k' == a) = false := by simpa using (fun h' : k' = a => h h'.symm)
        simp [List.lookup_cons, this, h]
    · have h1 : (a == k) = false := by simpa using ha
      simp only [h1, Bool.false_eq_true, if_false, List.lookup_cons, ih]
      by_cases h : k = k'
      · subst h
        have : (k == a) = false := by simpa using (fun h' : k = a => ha h'.symm)
        simp [this]
      · simp [h]

/-- after adding generators one by one, the lookup entry of a (block, name) is the *last* generator added
    under it (earlier ones with the same block and name stay in the list without an entry) -/
theorem lookup_last_wins (gs : List Gener) (d : T2) (k : Str × Str) :
    (gs.foldl addGenerator d).gendict.lookup k =
      match gs.reverse.find? (fun g => (g.block, g.name) == k) with
      | some g => some g.id
      | none => d.gendict.lookup k := by
  induction gs generalizing d with
  | nil => rfl
  | cons g r ih =>
    rw [List.foldl_cons, ih, List.reverse_cons, List.find?_append]
    cases hr : r.reverse.find? (fun g => (g.block, g.name) == k) with
    | some g' => rfl
    | none =>
      simp only [Option.none_or]
      show (gdSet d.gendict (g.block, g.name) g.id).lookup k = _
      rw [lookup_gdSet]
      by_cases h : (g.block, g.name) = k
      · simp [h]
      · have : ((g.block, g.name) == k) = false := by simpa using h
        simp [h, this]

theorem addGenerator_nodup_keys (d : T2) (g : Gener) (hk : (d.gendict.map (·.1)).Nodup) :
    ((addGenerator d g).gendict.map (·.1)).Nodup := gdSet_nodup_keys _ _ _ hk

end Proofs.Convert
