/-
  C13, more proofs (3): every line `write` emits for a well-formed object is clean (text without
  `'\n'` / `'\r'`, then one `'\n'`), so the hypothesis of `splitLines_clean` is derived.
-/
import PyTough.Proofs.InconMore2
namespace Proofs.Incon
open Py Model Model.Incon Model.Names Proofs

abbrev Plain (c : Char) : Prop := c ≠ '\n' ∧ c ≠ '\r'

theorem digit_plain {c : Char} (h : isDigit c = true) : Plain c :=
  isDigit_elim h (P := Plain) (by decide)

theorem blanks_plain (k : Nat) : ∀ c ∈ List.replicate k ' ', Plain c := by
  intro c hc; rw [(List.mem_replicate.mp hc).2]; decide

theorem pad_plain {left : Bool} {w : Nat} {s : Str} (h : ∀ c ∈ s, Plain c) : ∀ c ∈ pad left w s, Plain c := by
  unfold pad ljust rjust
  intro c hc
  cases left <;> simp only [Bool.false_eq_true, if_false, if_true, List.mem_append] at hc
  · rcases hc with hc | hc
    · exact blanks_plain _ c hc
    · exact h c hc
  · rcases hc with hc | hc
    · exact h c hc
    · exact blanks_plain _ c hc

theorem signChars_plain (neg : Bool) : ∀ c ∈ signChars neg, Plain c := by
  cases neg
  · intro c hc; simp [signChars] at hc
  · intro c hc; simp [signChars] at hc; rw [hc]; decide

theorem fmtEBody_plain (p n d : Nat) : ∀ c ∈ fmtEBody p n d, Plain c := by
  unfold fmtEBody
  intro c h
  simp only [List.mem_append, List.mem_cons, List.not_mem_nil, or_false] at h
  rcases h with (h | h | h) | h
  · generalize hz : zfill (p + 1) (fmtEParts p n d).1 = ds at h
    have hd : ∀ c ∈ ds, isDigit c = true := by rw [← hz]; exact zfill_isDigit _ _
    cases ds with
    | nil => simp at h
    | cons c0 r =>
      simp only at h
      by_cases hp : p = 0
      · simp only [hp, if_true, List.mem_cons, List.not_mem_nil, or_false] at h
        rw [h]; exact digit_plain (hd c0 (by simp))
      · simp only [if_neg hp, List.mem_cons] at h
        rcases h with h | h | h
        · rw [h]; exact digit_plain (hd c0 (by simp))
        · rw [h]; decide
        · exact digit_plain (hd _ (List.mem_cons_of_mem _ h))
  · rw [h]; decide
  · rw [h]; split <;> decide
  · exact digit_plain (zfill_isDigit _ _ _ h)

/-- what a field may be asked to hold in an initial-conditions file -/
def Kind (f : FieldSpec) (v : Val) : Prop :=
  (f.typ = 's' ∧ ∃ t, v = .str t ∧ ∀ c ∈ t, Plain c) ∨ (f.typ = 'd' ∧ IsIntOrNone v) ∨ (f.typ = 'e' ∧ IsRealOrNone v)

theorem fmtVal_plain {g : FieldSpec} {v : Val} {s : Str} (h : fmtVal g v = .ok s) (hv : v ≠ .none) (hk : Kind g v) :
    ∀ c ∈ s, Plain c := by
  rcases hk with ⟨ht, t, rfl, hp⟩ | ⟨ht, hi⟩ | ⟨ht, hr⟩
  · rw [fmtVal_s_str ht] at h
    cases h
    apply pad_plain
    intro c hc
    cases hpr : g.prec with
    | none => rw [hpr] at hc; exact hp c hc
    | some k => rw [hpr] at hc; exact hp c (List.mem_of_mem_take hc)
  · rcases hi with rfl | ⟨i, rfl⟩
    · exact absurd rfl hv
    · rw [fmtVal_d_int ht] at h
      cases h
      apply pad_plain
      intro c hc
      rcases List.mem_append.mp hc with hc | hc
      · exact signChars_plain _ c hc
      · exact digit_plain (natDigits_isDigit _ _ hc)
  · rcases hr with rfl | ⟨r, rfl⟩
    · exact absurd rfl hv
    · rw [fmtVal_e_real ht] at h
      cases h
      apply pad_plain
      intro c hc
      rcases List.mem_append.mp hc with hc | hc
      · exact signChars_plain _ c hc
      · exact fmtEBody_plain _ _ _ c hc

theorem kind_atPrec {f : FieldSpec} {v : Val} (q : Nat) (hk : Kind f v) : Kind (atPrec f q) v := hk

theorem writeField_plain {f : FieldSpec} {v : Val} {s : Str} (h : writeField f v = .ok s) (hk : Kind f v) :
    ∀ c ∈ s, Plain c := by
  rcases (writeField_ok h).2 with ⟨_, hs⟩ | ⟨hv, hf⟩ | ⟨hv, _, _, q, _, _, hf, _, _⟩
  · rw [hs]; exact blanks_plain _
  · exact fmtVal_plain hf hv hk
  · exact fmtVal_plain hf hv (kind_atPrec q hk)

theorem writeLine_clean {fs : List FieldSpec} {vals : List Val} {l : Str} (h : writeLine fs vals = .ok l)
    (hk : ∀ vf ∈ vals.zip fs, Kind vf.2 vf.1) : CleanLine l := by
  obtain ⟨rec, hw, rfl⟩ := writeLine_ok h
  obtain ⟨strs, hs, rfl⟩ := (writeValues_ok_iff _ _ _).mp hw
  refine ⟨_, rfl, ?_⟩
  clear hw h
  generalize vals.zip fs = z at hs hk
  induction hs with
  | nil => intro c hc; simp at hc
  | cons hab _ ih =>
    intro c hc
    rw [List.flatten_cons] at hc
    rcases List.mem_append.mp hc with hc | hc
    · exact writeField_plain hab (hk _ (by simp)) c hc
    · exact ih (fun vf hvf => hk vf (List.mem_cons_of_mem _ hvf)) c hc

theorem kind_intOrNone {f : FieldSpec} (ht : f.typ = 'd') {v : Val} (hv : IsIntOrNone v) : Kind f v := Or.inr (Or.inl ⟨ht, hv⟩)
theorem kind_realOrNone {f : FieldSpec} (ht : f.typ = 'e') {v : Val} (hv : IsRealOrNone v) : Kind f v := Or.inr (Or.inr ⟨ht, hv⟩)
theorem kind_real {f : FieldSpec} (ht : f.typ = 'e') {v : Val} (hv : IsReal v) : Kind f v := Or.inr (Or.inr ⟨ht, Or.inr hv⟩)
theorem kind_str {f : FieldSpec} (ht : f.typ = 's') {t : Str} (hp : ∀ c ∈ t, Plain c) : Kind f (.str t) := Or.inl ⟨ht, t, rfl, hp⟩

/-- a name accepted by `valid_blockname` is made of the characters of the three tables, none of
    which is a line end (`decide` over the regenerated tables) -/
theorem valid_name_plain {n : Str} (h5 : n.length = 5) (hv : validBlockname n = .ok true) : ∀ c ∈ n, Plain c := by
  obtain ⟨a, b, c, d, e, rfl⟩ := Proofs.Names.len5 h5
  have t1 : ∀ c ∈ Gen.Conventions.validFirst3, Plain c := by decide
  have t4 : ∀ c ∈ Gen.Conventions.validFourth, Plain c := by decide
  have t5 : ∀ c ∈ Gen.Conventions.validFifth, Plain c := by decide
  unfold validBlockname at hv
  have hs : slice [a, b, c, d, e] 0 3 = [a, b, c] := rfl
  have g3 : getIdx [a, b, c, d, e] 3 = .ok d := rfl
  have g4 : getIdx [a, b, c, d, e] 4 = .ok e := rfl
  rw [hs, g3, g4] at hv
  simp only at hv
  split at hv
  · rename_i h123
    split at hv
    · rename_i h4
      simp only [Except.ok.injEq] at hv
      simp only [List.all_cons, List.all_nil, Bool.and_true, Bool.and_eq_true] at h123
      intro x hx
      simp only [List.mem_cons, List.not_mem_nil, or_false] at hx
      rcases hx with rfl | rfl | rfl | rfl | rfl
      · exact t1 _ (List.contains_iff_mem.mp h123.1)
      · exact t1 _ (List.contains_iff_mem.mp h123.2.1)
      · exact t1 _ (List.contains_iff_mem.mp h123.2.2)
      · exact t4 _ (List.contains_iff_mem.mp h4)
      · exact t5 _ (List.contains_iff_mem.mp hv)
    · cases hv
  · cases hv

/-- every line of a written block is clean -/
theorem writeBlock_clean {S : Specs} {L : Layout} (hL : LayoutOK S L) (sim : Str) {b : Block Val}
    (hwf : BlockWF b) {lines : List Str} (hw : writeBlock S sim b = .ok lines) : ∀ l ∈ lines, CleanLine l := by
  rw [writeBlock_eq hL] at hw
  cases h1 : writeLine S.incon1Tr (hdrVals sim b) with
  | error e => rw [h1] at hw; cases hw
  | ok l1 =>
    rw [h1] at hw
    cases hls : (chunks4 b.vars.length b.vars).mapM (writeLine S.incon2) with
    | error e => rw [hls] at hw; cases hw
    | ok ls =>
      rw [hls] at hw
      cases hw
      have kn : Kind L.name (.str (unfixBlockname b.block)) :=
        kind_str hL.name_s (valid_name_plain (unfix_length5 hwf.name5) hwf.valid)
      have ks := kind_intOrNone hL.nseq_d hwf.nseq
      have ka := kind_intOrNone hL.nadd_d hwf.nadd
      have kp := kind_realOrNone hL.por_e hwf.por
      have hc1 : CleanLine l1 := by
        apply writeLine_clean h1
        unfold hdrVals
        rw [hL.incon1Tr]
        cases hd : decide (sim = TOUGHREACT) <;> cases hp : b.permeability with
        | none =>
          intro vf hvf; simp at hvf
          rcases hvf with rfl | rfl | rfl | rfl
          · exact kn
          · exact ks
          · exact ka
          · exact kp
        | some k =>
          obtain ⟨k1, k2, k3⟩ := k
          intro vf hvf; simp at hvf
          first
            | (rcases hvf with rfl | rfl | rfl | rfl
               · exact kn
               · exact ks
               · exact ka
               · exact kp)
            | (obtain ⟨r1, r2, r3⟩ := hwf.perm _ hp
               rcases hvf with rfl | rfl | rfl | rfl | rfl | rfl | rfl
               · exact kn
               · exact ks
               · exact ka
               · exact kp
               · exact kind_real hL.k1_e r1
               · exact kind_real hL.k2_e r2
               · exact kind_real hL.k3_e r3)
      obtain ⟨_, hchunks⟩ := chunks4_spec b.vars.length b.vars (Nat.le_refl _)
      have hall := (mapM_ok_iff _ _ _).mp hls
      have key : ∀ (cs : List (List Val)) (ls : List Str), (∀ c ∈ cs, ∀ x ∈ c, x ∈ b.vars) →
          All2 (fun c l => writeLine S.incon2 c = .ok l) cs ls → ∀ l ∈ ls, CleanLine l := by
        intro cs ls hcs hall
        induction hall with
        | nil => intro l hl; cases hl
        | cons hab t ih =>
          rename_i c l0 cs' ls'
          intro l hl
          rcases List.mem_cons.mp hl with rfl | hl
          · apply writeLine_clean hab
            rw [hL.incon2]
            intro vf hvf
            have h2 := (List.of_mem_zip hvf).2
            have h1 := (List.of_mem_zip hvf).1
            simp at h2
            rw [h2]
            exact kind_real hL.v_e (hwf.vars_real _ (hcs c (by simp) _ h1))
          · exact ih (fun c' hc' => hcs c' (List.mem_cons_of_mem _ hc')) l hl
      intro l hl
      rcases List.mem_cons.mp hl with rfl | hl
      · exact hc1
      · exact key _ _ (fun c hc => (hchunks c hc).2.2) hall l hl

theorem body_clean {S : Specs} {L : Layout} (hL : LayoutOK S L) (sim : Str) :
    ∀ (blocks : List (Block Val)) (body : List (List Str)), (∀ b ∈ blocks, BlockWF b) →
    blocks.mapM (writeBlock S sim) = .ok body → ∀ l ∈ body.flatten, CleanLine l := by
  intro blocks body hb hm
  have hall := (mapM_ok_iff _ _ _).mp hm
  clear hm
  induction hall with
  | nil => intro l hl; simp at hl
  | cons hab _ ih =>
    intro l hl
    rw [List.flatten_cons] at hl
    rcases List.mem_append.mp hl with hl | hl
    · exact writeBlock_clean hL sim (hb _ (by simp)) hab l hl
    · exact ih (fun b' hb' => hb b' (List.mem_cons_of_mem _ hb')) l hl

/-- the header line `write` emits -/
theorem write_header {S : Specs} {x : Incon Val} {reset : Bool} {file : List Str} (hw : write S x reset = .ok file) :
    ∃ header rest, file = header :: rest ∧
      (writeLine S.headerShort [Val.str headerShortTitle] = .ok header ∨
       ∃ t, x.timing = some t ∧
         writeLine S.headerLong [Val.str headerTitle, Val.int x.blocks.length, Val.str headerMiddle, t.sumtim] = .ok header) := by
  unfold write at hw
  simp only [bind, Except.bind, pure, Except.pure] at hw
  cases ht : x.timing with
  | none =>
    rw [ht] at hw
    simp only [Option.isNone_none, Bool.true_or] at hw
    cases hh : writeLine S.headerShort [Val.str headerShortTitle] with
    | error e => rw [hh] at hw; cases hw
    | ok header =>
      rw [hh] at hw
      simp only at hw
      cases hb : x.blocks.mapM (writeBlock S x.simulator) with
      | error e => rw [hb] at hw; cases hw
      | ok body => rw [hb] at hw; cases hw; exact ⟨header, _, rfl, Or.inl rfl⟩
  | some t =>
    rw [ht] at hw
    cases reset with
    | true =>
      simp only [Option.isNone_some, Bool.or_true] at hw
      cases hh : writeLine S.headerShort [Val.str headerShortTitle] with
      | error e => rw [hh] at hw; cases hw
      | ok header =>
        rw [hh] at hw
        simp only at hw
        cases hb : x.blocks.mapM (writeBlock S x.simulator) with
        | error e => rw [hb] at hw; cases hw
        | ok body => rw [hb] at hw; cases hw; exact ⟨header, _, rfl, Or.inl rfl⟩
    | false =>
      simp only [Option.isNone_some, Bool.or_false] at hw
      cases hh : writeLine S.headerLong [Val.str headerTitle, Val.int x.blocks.length, Val.str headerMiddle, t.sumtim] with
      | error e => rw [hh] at hw; cases hw
      | ok header =>
        rw [hh] at hw
        simp only at hw
        cases hb : x.blocks.mapM (writeBlock S x.simulator) with
        | error e => rw [hb] at hw; cases hw
        | ok body =>
          rw [hb] at hw
          simp only at hw
          cases hl : writeLine (if x.simulator = TOUGHREACT then S.timingTr else S.timing)
              [t.kcyc, t.iter, t.nm, t.tstart, t.sumtim] with
          | error e => rw [hl] at hw; cases hw
          | ok l => rw [hl] at hw; cases hw; exact ⟨header, _, rfl, Or.inr ⟨t, rfl, hh⟩⟩

/-- the types of the header fields -/
structure HeaderTypes (S : Specs) (h0 h1 h2 h3 : FieldSpec) : Prop where
  short : ∀ f ∈ S.headerShort, f.typ = 's'
  t0 : h0.typ = 's'
  t1 : h1.typ = 'd'
  t2 : h2.typ = 's'
  t3 : h3.typ = 'e'

theorem timing_clean {fs : List FieldSpec} {T : TLayout} (hT : TimingOK fs T) {t : Timing Val}
    (hwf : TimingWF t) {l : Str} (h : writeLine fs [t.kcyc, t.iter, t.nm, t.tstart, t.sumtim] = .ok l) : CleanLine l := by
  apply writeLine_clean h
  rw [hT.shape]
  intro vf hvf; simp at hvf
  rcases hvf with rfl | rfl | rfl | rfl | rfl
  · exact kind_intOrNone hT.kcyc_d hwf.kcyc
  · exact kind_intOrNone hT.iter_d hwf.iter
  · exact kind_intOrNone hT.nm_d hwf.nm
  · exact kind_realOrNone hT.tstart_e hwf.tstart
  · exact kind_real hT.sumtim_e hwf.sumtim

/-- **Every line `write` emits for a well-formed object is clean.** -/
theorem write_clean {S : Specs} {L : Layout} {T U : TLayout} {h0 h1 h2 h3 : FieldSpec}
    (hL : LayoutOK S L) (hT : TimingOK S.timing T) (hU : TimingOK S.timingTr U) (hH : HeaderOK S h0 h1 h2 h3)
    (hHT : HeaderTypes S h0 h1 h2 h3)
    (x : Incon Val) (nvars : Option Nat) (reset : Bool) (hwf : InconWF x nvars) {file : List Str}
    (hw : write S x reset = .ok file) : ∀ l ∈ file, CleanLine l := by
  obtain ⟨header, rest, hfile, hhead⟩ := write_header hw
  obtain ⟨header', body, footer, hfile', hbody, hfoot⟩ := write_parts hw
  subst hfile
  cases hfile'
  have p1 : ∀ c ∈ headerShortTitle, Plain c := by decide
  have p2 : ∀ c ∈ headerTitle, Plain c := by decide
  have p3 : ∀ c ∈ headerMiddle, Plain c := by decide
  have hch : CleanLine header := by
    rcases hhead with hh | ⟨t, ht, hh⟩
    · apply writeLine_clean hh
      intro vf hvf
      have a1 := (List.of_mem_zip hvf).1
      have a2 := (List.of_mem_zip hvf).2
      simp only [List.mem_singleton] at a1
      obtain ⟨v, f⟩ := vf
      simp only at a1 a2 ⊢
      rw [a1]
      exact kind_str (hHT.short f a2) p1
    · apply writeLine_clean hh
      rw [hH.shape]
      intro vf hvf; simp at hvf
      rcases hvf with rfl | rfl | rfl | rfl
      · exact kind_str hHT.t0 p2
      · exact kind_intOrNone hHT.t1 (Or.inr ⟨_, rfl⟩)
      · exact kind_str hHT.t2 p3
      · exact kind_real hHT.t3 (hwf.timing t ht).sumtim
  have hcb := body_clean hL x.simulator x.blocks body (fun b hb => (hwf.blocks b hb).1) hbody
  have hnl : CleanLine ['\n'] := ⟨[], rfl, by intro c hc; cases hc⟩
  intro l hl
  rcases List.mem_cons.mp hl with rfl | hl
  · exact hch
  · rcases List.mem_append.mp hl with hl | hl
    · exact hcb l hl
    · rcases hfoot with ⟨_, rfl⟩ | ⟨t, l', ht, hr, rfl, hline⟩
      · simp at hl; rw [hl]; exact hnl
      · simp only [List.mem_cons, List.not_mem_nil, or_false] at hl
        rcases hl with rfl | rfl
        · exact ⟨['+', '+', '+'], rfl, by decide⟩
        · by_cases hs : x.simulator = TOUGHREACT
          · rw [if_pos hs] at hline; exact timing_clean hU (hwf.timing t ht) hline
          · rw [if_neg hs] at hline; exact timing_clean hT (hwf.timing t ht) hline

end Proofs.Incon
