/-
  history() against STEPPING for the TOUGH2-family row loop, from the REGION predicate of a table
  (`Props.C05.TableRegionT`: header lines, then per recorded `skiplines` entry one printed data line followed by that many
  lines): the line offset `rowOffset t.skips k` the one-pass scan uses for the k-th row line is the k-th printed data line
  of the region, so `rowInPlace` need not be assumed.  Core Lean only.
-/
import PyTough.Model.ListingHistory
import PyTough.Proofs.ListingHistory
import PyTough.Proofs.ListingSeriesStep
import PyTough.Proofs.ListingWhole
namespace Proofs.Series2Region
open Py Model Model.Listing Proofs.History Proofs.SeriesStep Proofs.Whole

theorem rowOffset_cons_succ (a : Nat) (more : List Nat) (k : Nat) :
    rowOffset (a :: more) (k + 1) = (1 + a) + rowOffset more k := by
  simp only [rowOffset, List.take_succ_cons, List.sum_cons]; omega

/-- **the k-th row-line offset of the scan is the k-th printed data line of the region** -/
theorem lineAt_region (segs : List (Str × List Str)) (after : List Str) (k : Nat) (d : Str)
    (hk : (segs.map (·.1))[k]? = some d) :
    lineAt (flat segs ++ after) (rowOffset (segs.map (·.2.length)) k) = d := by
  induction segs generalizing k with
  | nil => simp at hk
  | cons sg r ih =>
    cases k with
    | zero =>
      simp only [List.map_cons, List.getElem?_cons_zero, Option.some.injEq] at hk
      subst hk
      simp [rowOffset, flat, lineAt]
    | succ k =>
      simp only [List.map_cons, List.getElem?_cons_succ] at hk
      simp only [List.map_cons]
      rw [rowOffset_cons_succ, ← lineAt_drop]
      have : (flat (sg :: r) ++ after).drop (1 + sg.2.length) = flat r ++ after := by
        simp only [flat, List.cons_append, List.append_assoc]
        rw [Nat.add_comm, List.drop_succ_cons, List.drop_left]
      rw [this]
      exact ih k hk

/-- the cell history() picks from a line whose values the stepping reader stored in row `r` is the cell of row `r` -/
theorem cellOf_eq_steppingCell_row (readVals : Str → Except Exc (List FVal)) (cols : List Str) (t' : Table) (L : List Str)
    (hcols : t'.cols = cols) (e : Sel) (r : Nat) (vals : List FVal)
    (hv : readVals (lineAt L e.1.toNat) = .ok vals) (hl : vals.length = cols.length) (hdata : t'.data[r]? = some vals.toArray) :
    cellOf readVals (colIdx cols) L e = steppingCell t' r e := by
  obtain ⟨li, col, rev, si⟩ := e
  have hview := rowView_get t' r rev vals col hdata (by rw [hcols]; exact hl)
  simp only [cellOf, steppingCell, hview, hcols]
  unfold pickCell
  simp only at hv
  simp only [hv]
  cases hc : colIdx cols col with
  | none => rfl
  | some vi =>
    have := colIdx_lt _ _ _ hc
    simp only
    rw [List.getElem?_eq_getElem (by omega)]
    rfl

/-- `read_table_line` as bound for a reader whose `read_table_line` is not `read_table_line_AUTOUGH2` -/
theorem readTableLineOf_T (fam : Fam) (t : Table)
    (hfam : (bound fam "read_table_line" == "read_table_line_AUTOUGH2") = false) :
    readTableLineOf fam t = fun l => readTableLineTOUGH2 l t.cols.length t.numpos := by
  funext l; simp only [readTableLineOf, hfam, Bool.false_eq_true, if_false]

end Proofs.Series2Region
