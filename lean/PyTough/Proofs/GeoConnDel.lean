/-
  `delete_connection` preserves the structural invariant.
-/
import PyTough.Proofs.GeoConn
namespace Proofs.Geo
open Model.Geo Model.Geo.Geo Py

/-- after removing connection `i`, does another connection of its first column still reach its second column? -/
def stillJoined (g : Geo) (i : Nat) : Bool :=
  ((g.col (g.con i).c0).cons.filter (· != i)).any fun j => (g.con j).c0 = (g.con i).c1 || (g.con j).c1 = (g.con i).c1

theorem updCol_con (g : Geo) (c : Nat) (f : Column → Column) (j : Nat) : (g.updCol c f).con j = g.con j := rfl

theorem updCol_Csize (g : Geo) (c : Nat) (f : Column → Column) : (g.updCol c f).C.size = g.C.size := by
  simp [updCol]

theorem updCol_col (g : Geo) (c : Nat) (f : Column → Column) (j : Nat) (h : c < g.C.size) :
    (g.updCol c f).col j = if c = j then f (g.col j) else g.col j := by
  simp only [Geo.col, updCol]; exact getElem!_modify _ _ _ _ h

theorem col_with (g2 : Geo) (d : Dict (Name × Name)) (l : List Nat) (j : Nat) :
    ({ g2 with connD := d, connlist := l } : Geo).col j = g2.col j := rfl

theorem delConn_col (g : Geo) (names : Name × Name) (i : Nat)
    (h0 : (g.con i).c0 < g.C.size) (h1 : (g.con i).c1 < g.C.size) (hne : (g.con i).c0 ≠ (g.con i).c1) (j : Nat) :
    (g.delConn names i).col j =
      if j = (g.con i).c0 then
        { g.col j with cons := (g.col j).cons.filter (· != i),
                       nbrs := if stillJoined g i then (g.col j).nbrs else setDiscard (g.col j).nbrs (g.con i).c1 }
      else if j = (g.con i).c1 then
        { g.col j with cons := (g.col j).cons.filter (· != i),
                       nbrs := if stillJoined g i then (g.col j).nbrs else setDiscard (g.col j).nbrs (g.con i).c0 }
      else g.col j := by
  have hC1 : ∀ x, ((g.C.modify (g.con i).c0 (rmCon i)).modify (g.con i).c1 (rmCon i))[x]! =
      if x = (g.con i).c0 then rmCon i g.C[x]! else if x = (g.con i).c1 then rmCon i g.C[x]! else g.C[x]! := by
    intro x
    rw [getElem!_modify _ _ _ _ (by simp [h1]), getElem!_modify _ _ _ _ h0]
    by_cases e0 : x = (g.con i).c0
    · subst e0; simp [hne, Ne.symm hne]
    · by_cases e1 : x = (g.con i).c1
      · subst e1; simp [hne, Ne.symm hne]
      · simp [e0, e1, Ne.symm e0, Ne.symm e1]
  have hstill : (((g.C.modify (g.con i).c0 (rmCon i)).modify (g.con i).c1 (rmCon i))[(g.con i).c0]!.cons.any fun j =>
      decide ((g.con j).c0 = (g.con i).c1) || decide ((g.con j).c1 = (g.con i).c1)) = stillJoined g i := by
    rw [hC1, if_pos rfl]; rfl
  simp only [delConn, Geo.col, hstill]
  cases hst : stillJoined g i
  · simp only [Bool.false_eq_true, if_false]
    rw [getElem!_modify _ _ _ _ (by simp [h1]), getElem!_modify _ _ _ _ (by simp [h0]), hC1]
    by_cases e0 : j = (g.con i).c0
    · subst e0; simp [hne, Ne.symm hne, rmCon]
    · by_cases e1 : j = (g.con i).c1
      · subst e1; simp [hne, Ne.symm hne, rmCon]
      · simp [e0, e1, Ne.symm e0, Ne.symm e1]
  · simp only [if_true]
    rw [hC1]
    by_cases e0 : j = (g.con i).c0
    · subst e0; simp [rmCon]
    · by_cases e1 : j = (g.con i).c1
      · subst e1; simp [e0, rmCon]
      · simp [e0, e1]

end Proofs.Geo

namespace Proofs.Geo
open Model.Geo Model.Geo.Geo Py

theorem regOK_key {κ} [DecidableEq κ] {l : List Nat} {d : Dict κ} {nm : Nat → κ} {k : κ} {i : Nat}
    (h : regOK l d nm = true) (hk : Dict.get? d k = some i) : nm i = k := by
  simp only [regOK, Bool.and_eq_true, decide_eq_true_eq, List.all_eq_true, beq_iff_eq, List.contains_eq_mem] at h
  exact (h.2 _ (Dict.get?_mem hk)).2

theorem connlist_nodup {g : Geo} (h : g.registriesOK = true) : g.connlist.Nodup := by
  simp only [registriesOK, Bool.and_eq_true] at h
  exact regOK_nodup h.2

theorem mem_setDiscard (s : List Nat) (x y : Nat) : y ∈ setDiscard s x ↔ y ∈ s ∧ y ≠ x := by
  simp [setDiscard]

/-- `delete_connection` keeps the structural invariant (and does not touch surfaces or layer counts) -/
theorem deleteConnection_geoInv0 (g g' : Geo) (names : Name × Name) (hd : g.deleteConnection names = .ok g')
    (h : g.geoInv0 = true) : g'.geoInv0 = true := by
  simp only [geoInv0, Bool.and_eq_true] at h
  obtain ⟨⟨⟨⟨⟨⟨hh, hr⟩, hnc⟩, hcc⟩, hnb⟩, hcn⟩, ho⟩ := h
  have hr' := hr
  simp only [registriesOK, Bool.and_eq_true] at hr'
  unfold deleteConnection at hd
  cases hk : g.connD.get? names with
  | none => rw [hk] at hd; cases hd
  | some i =>
    rw [hk] at hd
    simp only at hd
    have hil : i ∈ g.connlist := regOK_mem hr'.2 hk
    have hcc' := (colConsOK_iff g).mp hcc
    have hm0 : (g.con i).c0 ∈ g.columnlist := (hcc'.1 i hil).1
    have hm1 : (g.con i).c1 ∈ g.columnlist := (hcc'.1 i hil).2
    have h0 := heapOK_cols hh _ hm0
    have h1 := heapOK_cols hh _ hm1
    split at hd
    · cases hd
    · split at hd
      · cases hd
      · rename_i hc1
        split at hd
        · cases hd
        · simp only [Except.ok.injEq] at hd
          have hne : (g.con i).c0 ≠ (g.con i).c1 := by
            intro e
            rw [← e, updCol_col _ _ _ _ h0, if_pos rfl] at hc1
            simp [rmCon] at hc1
          subst hd
          have hcolF := delConn_col g names i h0 h1 hne
          have hnd := connlist_nodup hr
          have hmem : ∀ k, k ∈ (g.delConn names i).connlist ↔ k ∈ g.connlist ∧ k ≠ i := by
            intro k
            show k ∈ g.connlist.erase i ↔ _
            rw [List.Nodup.mem_erase_iff hnd]; exact and_comm
          have hcon : ∀ k, (g.delConn names i).con k = g.con k := fun _ => rfl
          have hcl : (g.delConn names i).columnlist = g.columnlist := rfl
          have hname : ∀ j, ((g.delConn names i).col j).name = (g.col j).name := by
            intro j; rw [hcolF]; split
            · rfl
            · split <;> rfl
          have hnodes : ∀ j, ((g.delConn names i).col j).nodes = (g.col j).nodes := by
            intro j; rw [hcolF]; split
            · rfl
            · split <;> rfl
          have harea : ∀ j, ((g.delConn names i).col j).area = (g.col j).area := by
            intro j; rw [hcolF]; split
            · rfl
            · split <;> rfl
          have hcons : ∀ j k, k ∈ ((g.delConn names i).col j).cons ↔
              k ∈ (g.col j).cons ∧ (k ≠ i ∨ (j ≠ (g.con i).c0 ∧ j ≠ (g.con i).c1)) := by
            intro j k; rw [hcolF]; split
            · rename_i e; simp [e]
            · rename_i e0; split
              · rename_i e; simp [e, e0]
              · rename_i e1; simp [e0, e1]
          simp only [geoInv0, Bool.and_eq_true]
          refine ⟨⟨⟨⟨⟨⟨?_, ?_⟩, ?_⟩, ?_⟩, ?_⟩, ?_⟩, ?_⟩
          · -- heapOK
            simp only [heapOK, Bool.and_eq_true, List.all_eq_true, decide_eq_true_eq] at hh ⊢
            have hCs : (g.delConn names i).C.size = g.C.size := by
              simp only [delConn]; split <;> simp
            refine ⟨⟨⟨⟨hh.1.1.1.1, ?_⟩, ?_⟩, hh.1.2⟩, hh.2⟩
            · rw [hcl, hCs]; exact hh.1.1.1.2
            · intro k hk'; exact hh.1.1.2 k ((hmem k).mp hk').1
          · -- registries
            simp only [registriesOK, Bool.and_eq_true]
            refine ⟨⟨⟨⟨hr'.1.1.1.1, ?_⟩, hr'.1.1.2⟩, hr'.1.2⟩, ?_⟩
            · have : (fun j => ((g.delConn names i).col j).name) = fun j => (g.col j).name := funext hname
              show regOK g.columnlist g.columnD (fun j => ((g.delConn names i).col j).name) = true
              rw [this]; exact hr'.1.1.1.2
            · have : (g.delConn names i).conKey = g.conKey := by
                funext k; simp only [Geo.conKey, hcon, hname]
              show regOK (g.connlist.erase i) (g.connD.del names) (g.delConn names i).conKey = true
              rw [this]; exact regOK_erase _ _ _ _ _ hr'.2 hk
          · -- nodeColsOK
            have : (g.delConn names i).nodeColsOK = g.nodeColsOK := by
              simp only [nodeColsOK, hcl, hnodes]; rfl
            rw [this]; exact hnc
          · -- colConsOK
            rw [colConsOK_iff]
            rw [hcl]
            refine ⟨?_, ?_⟩
            · intro k hk'
              rw [hcon]; exact hcc'.1 k ((hmem k).mp hk').1
            · intro c hc
              refine ⟨?_, ?_⟩
              · intro k hk'
                have hk2 := (hcons c k).mp hk'
                have old := (hcc'.2 c hc).1 k hk2.1
                rw [hcon]
                refine ⟨(hmem k).mpr ⟨old.1, ?_⟩, old.2⟩
                rcases hk2.2 with hki | ⟨hc0, hc1⟩
                · exact hki
                · intro e; subst e
                  rcases old.2 with e | e
                  · exact hc0 e.symm
                  · exact hc1 e.symm
              · intro k hk' hor
                have hk2 := (hmem k).mp hk'
                rw [hcon] at hor
                exact (hcons c k).mpr ⟨(hcc'.2 c hc).2 k hk2.1 hor, Or.inl hk2.2⟩
          · -- nbrsOK
            have hnb' := (nbrsOK_iff g).mp hnb
            -- which columns a connection joins
            let joins (k c d : Nat) : Prop :=
              ((g.con k).c0 = c ∧ (g.con k).c1 = d) ∨ ((g.con k).c0 = d ∧ (g.con k).c1 = c)
            have hJ : ∀ c d, (g.delConn names i).joined c d = true ↔ ∃ k ∈ g.connlist, k ≠ i ∧ joins k c d := by
              intro c d
              rw [joined_iff]
              constructor
              · rintro ⟨k, hk', hor⟩
                rw [hcon] at hor
                exact ⟨k, ((hmem k).mp hk').1, ((hmem k).mp hk').2, hor⟩
              · rintro ⟨k, hk1, hk2, hor⟩
                exact ⟨k, (hmem k).mpr ⟨hk1, hk2⟩, by rw [hcon]; exact hor⟩
            have hS : stillJoined g i = true ↔ ∃ k ∈ g.connlist, k ≠ i ∧ joins k (g.con i).c0 (g.con i).c1 := by
              simp only [stillJoined, List.any_eq_true, List.mem_filter, bne_iff_ne, ne_eq, Bool.or_eq_true,
                decide_eq_true_eq]
              constructor
              · rintro ⟨k, ⟨hkc, hki⟩, hor⟩
                have old := (hcc'.2 _ hm0).1 k hkc
                refine ⟨k, old.1, hki, ?_⟩
                rcases old.2 with e0 | e0 <;> rcases hor with e1 | e1
                · exact absurd (e0.symm.trans e1) hne
                · exact Or.inl ⟨e0, e1⟩
                · exact Or.inr ⟨e1, e0⟩
                · exact absurd (e0.symm.trans e1) hne
              · rintro ⟨k, hk1, hk2, hor⟩
                refine ⟨k, ⟨(hcc'.2 _ hm0).2 k hk1 ?_, hk2⟩, ?_⟩
                · rcases hor with ⟨e, _⟩ | ⟨_, e⟩
                  · exact Or.inl e
                  · exact Or.inr e
                · rcases hor with ⟨_, e⟩ | ⟨e, _⟩
                  · exact Or.inr e
                  · exact Or.inl e
            have hnbrs : ∀ c d, d ∈ ((g.delConn names i).col c).nbrs ↔ d ∈ (g.col c).nbrs ∧
                (stillJoined g i = true ∨ ¬((c = (g.con i).c0 ∧ d = (g.con i).c1) ∨ (c = (g.con i).c1 ∧ d = (g.con i).c0))) := by
              intro c d
              rw [hcolF]
              cases hst : stillJoined g i
              · split
                · rename_i e; subst e
                  simp only [Bool.false_eq_true, if_false, mem_setDiscard, false_or]
                  constructor
                  · rintro ⟨a, b⟩; exact ⟨a, by rintro (⟨_, e⟩ | ⟨e, _⟩); exact b e; exact hne e⟩
                  · rintro ⟨a, b⟩; exact ⟨a, fun e => b (Or.inl ⟨trivial, e⟩)⟩
                · rename_i e0; split
                  · rename_i e; subst e
                    simp only [Bool.false_eq_true, if_false, mem_setDiscard, false_or]
                    constructor
                    · rintro ⟨a, b⟩; exact ⟨a, by rintro (⟨e, _⟩ | ⟨_, e⟩); exact e0 e; exact b e⟩
                    · rintro ⟨a, b⟩; exact ⟨a, fun e => b (Or.inr ⟨trivial, e⟩)⟩
                  · rename_i e1
                    simp [e0, e1]
              · split
                · simp
                · split <;> simp
            rw [nbrsOK_iff, hcl]
            intro c hc
            refine ⟨?_, ?_⟩
            · intro d hd'
              obtain ⟨hd1, hd2⟩ := (hnbrs c d).mp hd'
              obtain ⟨k, hk1, hor⟩ := (joined_iff g c d).mp ((hnb' c hc).1 d hd1)
              rw [hJ]
              by_cases hki : k = i
              · subst hki
                have hpair : (c = (g.con k).c0 ∧ d = (g.con k).c1) ∨ (c = (g.con k).c1 ∧ d = (g.con k).c0) := by
                  rcases hor with ⟨e1, e2⟩ | ⟨e1, e2⟩
                  · exact Or.inl ⟨e1.symm, e2.symm⟩
                  · exact Or.inr ⟨e2.symm, e1.symm⟩
                rcases hd2 with hst | hnp
                · obtain ⟨k', hk1', hk2', hor'⟩ := hS.mp hst
                  refine ⟨k', hk1', hk2', ?_⟩
                  rcases hpair with ⟨e1, e2⟩ | ⟨e1, e2⟩
                  · rw [e1, e2]; exact hor'
                  · rw [e1, e2]
                    rcases hor' with h' | h'
                    · exact Or.inr h'
                    · exact Or.inl h'
                · exact absurd hpair hnp
              · exact ⟨k, hk1, hki, hor⟩
            · intro d hd hjd
              obtain ⟨k, hk1, hk2, hor⟩ := (hJ c d).mp hjd
              refine (hnbrs c d).mpr ⟨(hnb' c hc).2 d hd ((joined_iff g c d).mpr ⟨k, hk1, hor⟩), ?_⟩
              by_cases hp : (c = (g.con i).c0 ∧ d = (g.con i).c1) ∨ (c = (g.con i).c1 ∧ d = (g.con i).c0)
              · left
                apply hS.mpr
                refine ⟨k, hk1, hk2, ?_⟩
                rcases hp with ⟨e1, e2⟩ | ⟨e1, e2⟩
                · rw [← e1, ← e2]; exact hor
                · rw [← e1, ← e2]
                  rcases hor with h' | h'
                  · exact Or.inr h'
                  · exact Or.inl h'
              · exact Or.inr hp
          · -- conNodesOK
            rw [conNodesOK_iff] at hcn ⊢
            intro k hk'
            rw [hcon]; simp only [hnodes]
            exact hcn k ((hmem k).mp hk').1
          · -- orientOK
            have : (g.delConn names i).orientOK = g.orientOK := by
              simp only [orientOK, hcl, hnodes, harea]; rfl
            rw [this]; exact ho

end Proofs.Geo
