/-
  Proofs for C04, part 4a: where the blocks of the grid come from; membership of the announced names.
-/
import PyTough.Proofs.FromGeoNames
namespace Proofs.FromGeo
open Py Model.FromGeo

/-! ### where the blocks of the grid come from -/

/-- what `add_underground_blocks` builds for the announced name `nm` -/
def underBlock (g : Geo) (m : BlockMap) (nm : Str) : Except Exc Block :=
  match findLayer g (layerName g.convention nm) with
  | .error e => .error e
  | .ok lay =>
    match findColumn g (columnName g.convention nm) with
    | .error e => .error e
    | .ok col => .ok ⟨applyMap m nm, blockVolume g lay col, blockCentre g lay col, false⟩

theorem addUnderground_cons (g : Geo) (m : BlockMap) (bs : List Block) (nm : Str) (rest : List Str) :
    addUnderground g m bs (nm :: rest) =
      match underBlock g m nm with
      | .error e => .error e
      | .ok b => addUnderground g m (addBlock bs b) rest := by
  simp only [addUnderground, underBlock]
  cases findLayer g (layerName g.convention nm) with
  | error e => rfl
  | ok lay =>
    cases findColumn g (columnName g.convention nm) with
    | error e => rfl
    | ok col => rfl

theorem mem_addBlock {bs : List Block} {b x : Block} (h : x ∈ addBlock bs b) : x ∈ bs ∨ x = b := by
  unfold addBlock at h
  split at h
  · rw [List.mem_map] at h
    obtain ⟨y, hy, hyx⟩ := h
    split at hyx
    · exact Or.inr hyx.symm
    · exact Or.inl (hyx ▸ hy)
  · rcases List.mem_append.1 h with h | h
    · exact Or.inl h
    · exact Or.inr (by simpa using h)

theorem addUnderground_mem (g : Geo) (m : BlockMap) :
    ∀ (rest : List Str) (bs bs' : List Block), addUnderground g m bs rest = .ok bs' →
      ∀ x ∈ bs', x ∈ bs ∨ ∃ nm ∈ rest, underBlock g m nm = .ok x := by
  intro rest
  induction rest with
  | nil => intro bs bs' h x hx; simp only [addUnderground] at h; cases h; exact Or.inl hx
  | cons nm rest ih =>
    intro bs bs' h x hx
    rw [addUnderground_cons] at h
    cases hu : underBlock g m nm with
    | error e => rw [hu] at h; cases h
    | ok b =>
      rw [hu] at h
      simp only at h
      rcases ih _ _ h x hx with h1 | ⟨nm', hnm', hx'⟩
      · rcases mem_addBlock h1 with h2 | h2
        · exact Or.inl h2
        · exact Or.inr ⟨nm, List.mem_cons_self, h2 ▸ hu⟩
      · exact Or.inr ⟨nm', List.mem_cons_of_mem _ hnm', hx'⟩

theorem addAtmColumns_mem (g : Geo) (m : BlockMap) :
    ∀ (cols : List Column) (bs bs' : List Block), addAtmColumns g m bs cols = .ok bs' →
      ∀ x ∈ bs', x ∈ bs ∨ x.atm = true := by
  intro cols
  induction cols with
  | nil => intro bs bs' h x hx; simp only [addAtmColumns] at h; cases h; exact Or.inl hx
  | cons c cs ih =>
    intro bs bs' h x hx
    simp only [addAtmColumns] at h
    split at h
    · cases h
    · rcases ih _ _ h x hx with h1 | h1
      · rcases mem_addBlock h1 with h2 | h2
        · exact Or.inl h2
        · exact Or.inr (by rw [h2])
      · exact Or.inr h1

theorem addAtmosphereBlocks_atm (g : Geo) (m : BlockMap) (bs0 : List Block)
    (h : addAtmosphereBlocks g m [] = .ok bs0) : ∀ x ∈ bs0, x.atm = true := by
  intro x hx
  unfold addAtmosphereBlocks at h
  split at h
  · split at h
    · cases h
    · cases h
      rcases mem_addBlock hx with h2 | h2
      · cases h2
      · rw [h2]
  · split at h
    · rcases addAtmColumns_mem g m _ _ _ h x hx with h1 | h1
      · cases h1
      · exact h1
    · cases h; cases hx

/-- every block of the grid is an atmosphere block or was built by `add_underground_blocks`
    for an announced name -/
theorem addBlocks_origin (g : Geo) (m : BlockMap) (bs : List Block) (h : addBlocks g m = .ok bs) :
    ∀ x ∈ bs, x.atm = true ∨ ∃ nm ∈ g.blockNames, underBlock g m nm = .ok x := by
  intro x hx
  unfold addBlocks at h
  split at h
  · cases h
  · rename_i bs0 hb0
    split at h
    · cases h
    · rename_i n _
      rcases addUnderground_mem g m _ _ _ h x hx with h1 | ⟨nm, hnm, hx'⟩
      · exact Or.inl (addAtmosphereBlocks_atm g m bs0 hb0 x h1)
      · exact Or.inr ⟨nm, List.mem_of_mem_drop hnm, hx'⟩

theorem findBlock_of_mem_names {bs : List Block} {n : Str} (h : n ∈ bs.map (·.name)) :
    ∃ b, findBlock bs n = .ok b := by
  unfold findBlock
  cases hf : bs.find? (fun b => decide (b.name = n)) with
  | some b => exact ⟨b, rfl⟩
  | none =>
    rw [List.find?_eq_none] at hf
    rw [List.mem_map] at h
    obtain ⟨b, hb, hbn⟩ := h
    exact absurd (by simpa using hbn) (hf b hb)

theorem findBlock_mem {bs : List Block} {n : Str} {b : Block} (h : findBlock bs n = .ok b) : b ∈ bs := by
  unfold findBlock at h
  split at h
  · rename_i b' hb; cases h; exact List.mem_of_find?_eq_some hb
  · cases h

/-! ### the announced underground names are exactly the (layer, column) pairs with a block -/

theorem layerBlockNames_mem (conv : Nat) (lay : Layer) :
    ∀ (cols : List Column) (ns : List Str), layerBlockNames conv lay cols = .ok ns →
      (∀ c ∈ cols, ∃ n ∈ ns, blockName conv lay.name c.name = .ok n) ∧
      (∀ n ∈ ns, ∃ c ∈ cols, blockName conv lay.name c.name = .ok n) := by
  intro cols
  induction cols with
  | nil => intro ns h; simp only [layerBlockNames] at h; cases h; simp
  | cons c cs ih =>
    intro ns h
    simp only [layerBlockNames] at h
    split at h
    · cases h
    · rename_i n hn
      split at h
      · cases h
      · rename_i ns' hns
        cases h
        obtain ⟨i1, i2⟩ := ih ns' hns
        constructor
        · intro c' hc'
          rcases List.mem_cons.1 hc' with rfl | hm
          · exact ⟨n, List.mem_cons_self, hn⟩
          · obtain ⟨n', hn', hb⟩ := i1 c' hm
            exact ⟨n', List.mem_cons_of_mem _ hn', hb⟩
        · intro n' hn'
          rcases List.mem_cons.1 hn' with rfl | hm
          · exact ⟨c, List.mem_cons_self, hn⟩
          · obtain ⟨c', hc', hb⟩ := i2 n' hm
            exact ⟨c', List.mem_cons_of_mem _ hc', hb⟩

theorem namesLayerColumn_mem (g : Geo) :
    ∀ (ls : List Layer) (u : List Str), namesLayerColumn g ls = .ok u →
      (∀ lay ∈ ls, ∀ c ∈ layerCols g lay, ∃ n ∈ u, blockName g.convention lay.name c.name = .ok n) ∧
      (∀ n ∈ u, ∃ lay ∈ ls, ∃ c ∈ layerCols g lay, blockName g.convention lay.name c.name = .ok n) := by
  intro ls
  induction ls with
  | nil => intro u h; simp only [namesLayerColumn] at h; cases h; simp
  | cons l ls ih =>
    intro u h
    simp only [namesLayerColumn] at h
    split at h
    · cases h
    · rename_i ns hns
      split at h
      · cases h
      · rename_i r hr
        cases h
        obtain ⟨a1, a2⟩ := layerBlockNames_mem g.convention l _ _ hns
        obtain ⟨i1, i2⟩ := ih r hr
        constructor
        · intro lay hlay c hc
          rcases List.mem_cons.1 hlay with rfl | hm
          · obtain ⟨n, hn, hb⟩ := a1 c hc
            exact ⟨n, List.mem_append_left _ hn, hb⟩
          · obtain ⟨n, hn, hb⟩ := i1 lay hm c hc
            exact ⟨n, List.mem_append_right _ hn, hb⟩
        · intro n hn
          rcases List.mem_append.1 hn with hm | hm
          · obtain ⟨c, hc, hb⟩ := a2 n hm
            exact ⟨l, List.mem_cons_self, c, hc, hb⟩
          · obtain ⟨lay, hlay, c, hc, hb⟩ := i2 n hm
            exact ⟨lay, List.mem_cons_of_mem _ hlay, c, hc, hb⟩

theorem namesDmplexLayer_mem (conv : Nat) (lay : Layer) :
    ∀ (cols : List Column) (h w : List Str), namesDmplexLayer conv lay cols = .ok (h, w) →
      (∀ c ∈ cols, ∃ n ∈ h ++ w, blockName conv lay.name c.name = .ok n) ∧
      (∀ n ∈ h ++ w, ∃ c ∈ cols, blockName conv lay.name c.name = .ok n) := by
  intro cols
  induction cols with
  | nil => intro h w hh; simp only [namesDmplexLayer] at hh; cases hh; simp
  | cons c cs ih =>
    intro h w hh
    simp only [namesDmplexLayer] at hh
    split at hh
    · cases hh
    · rename_i n hn
      split at hh
      · cases hh
      · split at hh
        · cases hh
        · rename_i h' w' hr
          obtain ⟨i1, i2⟩ := ih h' w' hr
          split at hh
          · cases hh
            constructor
            · intro c' hc'
              rcases List.mem_cons.1 hc' with rfl | hm
              · exact ⟨n, by simp, hn⟩
              · obtain ⟨n', hn', hb⟩ := i1 c' hm
                exact ⟨n', by
                  rcases List.mem_append.1 hn' with q | q
                  · exact List.mem_append_left _ (List.mem_cons_of_mem _ q)
                  · exact List.mem_append_right _ q, hb⟩
            · intro n' hn'
              rcases List.mem_append.1 hn' with q | q
              · rcases List.mem_cons.1 q with rfl | q
                · exact ⟨c, List.mem_cons_self, hn⟩
                · obtain ⟨c', hc', hb⟩ := i2 n' (List.mem_append_left _ q)
                  exact ⟨c', List.mem_cons_of_mem _ hc', hb⟩
              · obtain ⟨c', hc', hb⟩ := i2 n' (List.mem_append_right _ q)
                exact ⟨c', List.mem_cons_of_mem _ hc', hb⟩
          · cases hh
            constructor
            · intro c' hc'
              rcases List.mem_cons.1 hc' with rfl | hm
              · exact ⟨n, by simp, hn⟩
              · obtain ⟨n', hn', hb⟩ := i1 c' hm
                exact ⟨n', by
                  rcases List.mem_append.1 hn' with q | q
                  · exact List.mem_append_left _ q
                  · exact List.mem_append_right _ (List.mem_cons_of_mem _ q), hb⟩
            · intro n' hn'
              rcases List.mem_append.1 hn' with q | q
              · obtain ⟨c', hc', hb⟩ := i2 n' (List.mem_append_left _ q)
                exact ⟨c', List.mem_cons_of_mem _ hc', hb⟩
              · rcases List.mem_cons.1 q with rfl | q
                · exact ⟨c, List.mem_cons_self, hn⟩
                · obtain ⟨c', hc', hb⟩ := i2 n' (List.mem_append_right _ q)
                  exact ⟨c', List.mem_cons_of_mem _ hc', hb⟩

end Proofs.FromGeo
