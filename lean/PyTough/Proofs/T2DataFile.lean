/-
  C01 proofs, layer 4: the file level — `_sections` bookkeeping, the keyword loop of `read()`,
  and "the second written file is a fixed point" as a consequence of the round trip.
-/
import PyTough.Proofs.T2DataGrid
namespace Proofs.T2
open Py Model Model.T2 Proofs
open Gen.Sections (Rec)

/-! ### `_sections`: insert / delete / update -/

theorem insertAt_erase {l : List Str} {x : Str} (hx : x ∉ l) (i : Nat) : (insertAt l i x).erase x = l := by
  unfold insertAt
  have h1 : x ∉ l.take i := fun h => hx (List.mem_of_mem_take h)
  rw [List.append_assoc, List.erase_append_right _ h1]
  simp [List.take_append_drop]

/-- inserting a section leaves the sections already there in their order -/
theorem insert_keeps_others (all secs : List Str) (s : Str) (hs : s ∉ secs) :
    (insertSection all secs s).erase s = secs := by
  unfold insertSection
  have : secs.contains s = false := by simpa using hs
  rw [this]
  exact insertAt_erase hs _

theorem insert_mem (all secs : List Str) (s : Str) : s ∈ insertSection all secs s := by
  unfold insertSection
  split
  · rename_i h; simpa using h
  · simp [insertAt]

/-- an inserted section is not inserted twice -/
theorem insert_idem (all secs : List Str) (s : Str) :
    insertSection all (insertSection all secs s) s = insertSection all secs s := by
  have h := insert_mem all secs s
  generalize insertSection all secs s = t at h ⊢
  unfold insertSection
  simp [h]

/-- deleting a section does not reorder the rest -/
theorem delete_sublist (secs : List Str) (s : Str) : (deleteSection secs s).Sublist secs :=
  List.erase_sublist

/-- a from-scratch object that has every section gets them in the order of `t2data_sections`
    (a test of the insertion rule on the generated table, evaluated by the kernel) -/
theorem update_sections_canonical_all : updateSectionsWith allSections allSections [] = allSections := by
  decide +kernel

/-- … and the typical from-scratch subsets as well (tests) -/
theorem update_sections_canonical_samples :
    updateSectionsWith allSections [c!"PARAM", c!"ELEME", c!"CONNE"] [] = [c!"PARAM", c!"ELEME", c!"CONNE"] ∧
    updateSectionsWith allSections [c!"SIMUL", c!"ROCKS", c!"PARAM", c!"MULTI", c!"ELEME", c!"CONNE", c!"GENER", c!"INCON"] []
      = [c!"SIMUL", c!"ROCKS", c!"PARAM", c!"MULTI", c!"ELEME", c!"CONNE", c!"GENER", c!"INCON"] ∧
    -- a section added to an object read from a file in non-standard order goes next to its standard neighbour
    updateSectionsWith allSections [c!"ROCKS", c!"PARAM", c!"MULTI", c!"ELEME", c!"CONNE", c!"GENER"]
        [c!"GENER", c!"ELEME", c!"CONNE", c!"ROCKS", c!"PARAM"]
      = [c!"GENER", c!"ELEME", c!"CONNE", c!"ROCKS", c!"PARAM", c!"MULTI"] := by
  decide +kernel

/-! ### the keyword loop of `read()` -/

/-- one written section as the keyword loop meets it -/
structure Sec where
  kw : Str
  raw : Str             -- its keyword line as written
  body : List Str       -- the lines after it

def layout (secs : List Sec) : List Str := (secs.map fun s => s.raw :: s.body).flatten

/-- what follows a section reader's return: nothing read ahead, or (PARAM) the next line read ahead and
    handed back padded -/
def Follows (rest : List Str) (nxt : Option Str) (rest' : List Str) : Prop :=
  (nxt = none ∧ rest' = rest) ∨ (∃ l r, rest = l :: r ∧ nxt = some (padstring l) ∧ rest' = r)

/-- the loop state `(nxt, ls)` stands for the remaining raw lines `R` -/
def Rep (nxt : Option Str) (ls : List Str) (R : List Str) : Prop := Follows R nxt ls

def IsEnd (kw : Str) : Prop := kw = c!"ENDCY" ∨ kw = c!"ENDFI"

/-- what the loop needs from one section: its keyword is a section keyword (seen raw or padded), and its
    reader consumes exactly its body, whatever follows, without touching `_sections` -/
structure StepOK (rf : ReadFn) (pdat : Option (List Str)) (d : T2Data) (s : Sec) (d' : T2Data) : Prop where
  mem : allSections.contains s.kw = true
  notEnd : ¬ IsEnd s.kw
  kwRaw : keywordOf s.raw = s.kw
  kwPad : keywordOf (padstring s.raw) = s.kw
  nonempty : s.raw ≠ []
  reads : ∀ line, line = s.raw ∨ line = padstring s.raw → ∀ rest, ∃ nxt' rest',
    readSection rf pdat d s.kw line (s.body ++ rest) = .ok (d', nxt', rest') ∧ Follows rest nxt' rest'

def ChainOK (rf : ReadFn) (pdat : Option (List Str)) : T2Data → List Sec → T2Data → Prop
  | d, [], d' => d' = d
  | d, s :: ss, d'' => ∃ d', StepOK rf pdat d s d' ∧ ChainOK rf pdat { d' with sections := d'.sections ++ [s.kw] } ss d''

theorem padstring_ne_nil {s : Str} (h : s ≠ []) : padstring s ≠ [] := by
  unfold padstring ljust
  intro h'
  exact h (List.append_eq_nil_iff.mp h').1

/-- one turn of the keyword loop on a non-empty line -/
def loopBody (rf : ReadFn) (pdat : Option (List Str)) (fuel : Nat) (d : T2Data) (line : Str) (rest : List Str) :
    Except Exc T2Data :=
  let kw := keywordOf line
  if kw == c!"ENDCY" || kw == c!"ENDFI" then .ok { d with endKeyword := kw }
  else if allSections.contains kw then
    match readSection rf pdat d kw line rest with
    | .error e => .error e
    | .ok (d, nxt, r) => readLoop rf pdat fuel { d with sections := d.sections ++ [kw] } nxt r
  else readLoop rf pdat fuel d none rest

theorem readLoop_none (rf : ReadFn) (pdat : Option (List Str)) (fuel : Nat) (d : T2Data) {line : Str} (rest : List Str)
    (hne : line ≠ []) : readLoop rf pdat (fuel + 1) d none (line :: rest) = loopBody rf pdat fuel d line rest := by
  cases line with
  | nil => exact absurd rfl hne
  | cons c cs => simp only [readLoop, readline, loopBody, List.isEmpty_cons, Bool.false_eq_true, if_false]; rfl

theorem readLoop_some (rf : ReadFn) (pdat : Option (List Str)) (fuel : Nat) (d : T2Data) {line : Str} (rest : List Str)
    (hne : line ≠ []) : readLoop rf pdat (fuel + 1) d (some line) rest = loopBody rf pdat fuel d line rest := by
  cases line with
  | nil => exact absurd rfl hne
  | cons c cs => simp only [readLoop, loopBody, List.isEmpty_cons, Bool.false_eq_true, if_false]; rfl

/-- **the keyword loop reads a written file section by section**: for a file laid out as keyword line + body
    per section and closed by ENDCY or ENDFI, if every section reader consumes exactly its own body, the loop
    dispatches each section once, in file order, records its keyword, and stops at the end keyword -/
theorem readLoop_chain (rf : ReadFn) (pdat : Option (List Str)) (endkw : Str) (hend : IsEnd endkw) :
    ∀ (secs : List Sec) (d dfin : T2Data) (nxt : Option Str) (ls : List Str) (fuel : Nat),
      ChainOK rf pdat d secs dfin → Rep nxt ls (layout secs ++ [nl endkw]) → secs.length < fuel →
      readLoop rf pdat fuel d nxt ls = .ok { dfin with endKeyword := endkw } := by
  have hkwEnd : keywordOf (nl endkw) = endkw ∧ keywordOf (padstring (nl endkw)) = endkw := by
    rcases hend with rfl | rfl <;> exact ⟨by decide, by decide⟩
  have hendNe : nl endkw ≠ [] := by unfold nl; simp
  have hendTest : (endkw == c!"ENDCY" || endkw == c!"ENDFI") = true := by
    rcases hend with rfl | rfl <;> decide
  intro secs
  induction secs with
  | nil =>
    intro d dfin nxt ls fuel hch hrep hf
    cases hch
    cases fuel with
    | zero => omega
    | succ fuel =>
      simp only [layout, List.map_nil, List.flatten_nil, List.nil_append] at hrep
      rcases hrep with ⟨rfl, rfl⟩ | ⟨l, r, hR, rfl, rfl⟩
      · rw [readLoop_none _ _ _ _ _ hendNe]
        simp only [loopBody, hkwEnd.1, hendTest, if_true]
      · cases hR
        rw [readLoop_some _ _ _ _ _ (padstring_ne_nil hendNe)]
        simp only [loopBody, hkwEnd.2, hendTest, if_true]
  | cons s ss ih =>
    intro d dfin nxt ls fuel hch hrep hf
    obtain ⟨d', hstep, htail⟩ := hch
    cases fuel with
    | zero => simp at hf
    | succ fuel =>
      have hlay : layout (s :: ss) ++ [nl endkw] = s.raw :: (s.body ++ (layout ss ++ [nl endkw])) := by
        simp [layout, List.flatten]
      rw [hlay] at hrep
      have hnotend : (s.kw == c!"ENDCY" || s.kw == c!"ENDFI") = false := by
        have := hstep.notEnd
        unfold IsEnd at this
        cases h1 : (s.kw == c!"ENDCY") <;> cases h2 : (s.kw == c!"ENDFI") <;> simp_all
      obtain ⟨line, hline, hkw, hloop⟩ : ∃ line, (line = s.raw ∨ line = padstring s.raw) ∧ keywordOf line = s.kw ∧
          readLoop rf pdat (fuel + 1) d nxt ls = loopBody rf pdat fuel d line (s.body ++ (layout ss ++ [nl endkw])) := by
        rcases hrep with ⟨rfl, rfl⟩ | ⟨l, r, hR, rfl, rfl⟩
        · exact ⟨s.raw, Or.inl rfl, hstep.kwRaw, readLoop_none _ _ _ _ _ hstep.nonempty⟩
        · cases hR
          exact ⟨padstring s.raw, Or.inr rfl, hstep.kwPad, readLoop_some _ _ _ _ _ (padstring_ne_nil hstep.nonempty)⟩
      rw [hloop]
      obtain ⟨nxt', rest', hrd, hfol⟩ := hstep.reads line hline (layout ss ++ [nl endkw])
      simp only [loopBody, hkw, hnotend, hstep.mem, hrd, Bool.false_eq_true, if_false, if_true]
      exact ih _ dfin nxt' rest' fuel htail hfol (by simpa using hf)

/-- the sections a chain of well-behaved section readers records: the keywords of the file, in file order -/
theorem chain_sections (rf : ReadFn) (pdat : Option (List Str)) :
    ∀ (secs : List Sec) (d dfin : T2Data), ChainOK rf pdat d secs dfin →
      (∀ d s d', StepOK rf pdat d s d' → s ∈ secs → d'.sections = d.sections) →
      dfin.sections = d.sections ++ secs.map (·.kw) := by
  intro secs
  induction secs with
  | nil => intro d dfin h _; cases h; simp
  | cons s ss ih =>
    intro d dfin ⟨d', hstep, htail⟩ hpres
    have := ih _ dfin htail (fun d s' d' h hm => hpres d s' d' h (List.mem_cons_of_mem _ hm))
    rw [this, hpres d s d' hstep (by simp)]
    simp

/-! ### the second written file is a fixed point -/

/-- If reading what `write` produced gives `canon d` (the round trip) and `canon` is idempotent (a value
    already rounded to its field is not rounded again), then from the second written file on every further
    read-and-write cycle reproduces the file: `write (read f) = f` for `f = write (read (write d))`. -/
theorem fixpoint_of_roundtrip {D F E : Type} (write : D → Except E F) (read : F → Except E D) (canon : D → D)
    (hrt : ∀ d f, write d = .ok f → read f = .ok (canon d))
    (hidem : ∀ d, canon (canon d) = canon d)
    (d : D) (f1 f2 : F) (h1 : write d = .ok f1) (h2 : ∀ d1, read f1 = .ok d1 → write d1 = .ok f2) :
    ∀ d2, read f2 = .ok d2 → write d2 = .ok f2 := by
  intro d2 hd2
  have hr1 := hrt d f1 h1
  have hw2 := h2 _ hr1
  have hr2 := hrt _ f2 hw2
  rw [hidem] at hr2
  rw [hr2] at hd2
  cases hd2
  exact hw2

/-! ### flavours -/

/-- reader and writer choose the PARAM and MULTI record kinds by the same function of `simulator` -/
theorem flavour_param_spec (T : Tabs) (d : T2Data) :
    param1Rec T d = T.get (if d.simulator.isEmpty then c!"param1" else c!"param1_autough2") ∧
    multiRec T d = T.get (if d.simulator.isEmpty then c!"multi" else c!"multi_autough2") := by
  unfold param1Rec multiRec T2Data.autough2
  cases d.simulator.isEmpty <;> exact ⟨rfl, rfl⟩

end Proofs.T2
