/-
  history() against STEPPING, one table at one result time (TOUGH2-family row reader).

  The stepping reader (`read_table_TOUGH2`, model `readRowsL`) walks the row lines of a table — line `rowOffset skips k`
  for the k-th entry of the recorded `skiplines` — and stores `read_table_line(line)` in the row its key addresses.
  history() reads a selected line with the same `read_table_line` and picks one column (`pickCell`).  The lemmas here
  say that the two are the same cell.  Core Lean only.
-/
import PyTough.Model.ListingHistory
import PyTough.Proofs.ListingHistory
namespace Proofs.SeriesStep
open Py Model Model.Listing Proofs.History

/-- the lines `read_table_TOUGH2` reads as row lines, in the order it reads them -/
def rowLines : List Nat → List Str → List Str
  | [], _ => []
  | skip :: more, rest => rest.headD [] :: rowLines more ((rest.drop 1).drop skip)

/-- offset (from the first results line) of the k-th row line: one line per earlier row plus the lines skipped after it -/
def rowOffset (skips : List Nat) (k : Nat) : Nat := k + (skips.take k).sum

theorem lineAt_drop (L : List Str) (a b : Nat) : lineAt (L.drop a) b = lineAt L (a + b) := by
  unfold lineAt; rw [List.getElem?_drop]

/-- the k-th row line of the stepping reader is line `rowOffset skips k` of the table -/
theorem rowLines_getElem (skips : List Nat) (rest : List Str) (k : Nat) (hk : k < skips.length) :
    (rowLines skips rest)[k]? = some (lineAt rest (rowOffset skips k)) := by
  induction skips generalizing rest k with
  | nil => simp at hk
  | cons skip more ih =>
    cases k with
    | zero =>
      simp only [rowLines, List.getElem?_cons_zero, rowOffset, List.take_zero, List.sum_nil, Nat.add_zero]
      rw [← headD_drop rest 0]; simp
    | succ k =>
      simp only [rowLines, List.getElem?_cons_succ]
      rw [ih _ k (by simpa using hk), List.drop_drop, lineAt_drop]
      congr 2
      simp only [rowOffset, List.take_succ_cons, List.sum_cons]; omega

theorem rowLines_length (skips : List Nat) (rest : List Str) : (rowLines skips rest).length = skips.length := by
  induction skips generalizing rest with
  | nil => rfl
  | cons s m ih => simp [rowLines, ih]

/-- what `self._data[i, :] = vals` stores -/
def rowData (nc : Nat) (vals : List FVal) : Array FVal :=
  if vals.length = nc then vals.toArray else Array.replicate nc (vals.headD zero)

theorem setRowAt_spec (t t' : Table) (i : Nat) (vals : List FVal) (h : t.setRowAt i vals = .ok t') :
    t'.rows = t.rows ∧ t'.cols = t.cols ∧ t'.data.size = t.data.size ∧ i < t.rows.size ∧
    (vals.length = t.cols.length ∨ vals.length = 1) ∧
    (∀ r, r ≠ i → t'.data[r]? = t.data[r]?) ∧ (i < t.data.size → t'.data[i]? = some (rowData t.cols.length vals)) := by
  simp only [Table.setRowAt] at h
  split at h
  · cases h
  · rename_i hi
    split at h
    · rename_i hl
      injection h with h; subst h
      refine ⟨rfl, rfl, by simp, by omega, Or.inl hl, ?_, ?_⟩
      · intro r hr; simp only [Array.set!_eq_setIfInBounds]; rw [Array.getElem?_setIfInBounds_ne (Ne.symm hr)]
      · intro hlt; simp only [Array.set!_eq_setIfInBounds, rowData, hl, if_true]
        rw [Array.getElem?_setIfInBounds_self_of_lt hlt]
    · rename_i hl
      split at h
      · rename_i h1
        injection h with h; subst h
        refine ⟨rfl, rfl, by simp, by omega, Or.inr h1, ?_, ?_⟩
        · intro r hr; simp only [Array.set!_eq_setIfInBounds]; rw [Array.getElem?_setIfInBounds_ne (Ne.symm hr)]
        · intro hlt; simp only [Array.set!_eq_setIfInBounds, rowData, hl, if_false]
          rw [Array.getElem?_setIfInBounds_self_of_lt hlt]
      · cases h

theorem setRow_spec (t t' : Table) (key : Key) (vals : List FVal) (h : t.setRow key vals = .ok t') :
    ∃ i, lastIdx t.rows key = some i ∧ t.setRowAt i vals = .ok t' := by
  unfold Table.setRow at h
  split at h
  · cases h
  · rename_i i hi; exact ⟨i, hi, h⟩

/-- one iteration of the row loop of read_table_TOUGH2 -/
theorem readRowsL_cons_inv (kp : List Int) (nc : Nat) (np : List (Option Int)) (skip : Nat) (more : List Nat) (rest : List Str)
    (t t' : Table) (rest' : List Str) (h : readRowsL kp nc np (skip :: more) rest t = .ok (t', rest')) :
    ∃ key vals t1, keyFromLine (rest.headD []) kp = .ok key ∧ readTableLineTOUGH2 (rest.headD []) nc np = .ok vals ∧
      t.setRow key vals = .ok t1 ∧ readRowsL kp nc np more ((rest.drop 1).drop skip) t1 = .ok (t', rest') := by
  simp only [readRowsL] at h
  cases hkey : keyFromLine (rest.headD []) kp with
  | error e => rw [hkey] at h; cases h
  | ok key =>
    cases hvals : readTableLineTOUGH2 (rest.headD []) nc np with
    | error e => rw [hkey, hvals] at h; cases h
    | ok vals =>
      cases hset : t.setRow key vals with
      | error e => rw [hkey, hvals] at h; simp only [hset] at h; cases h
      | ok t1 => rw [hkey, hvals] at h; simp only [hset] at h; exact ⟨key, vals, t1, rfl, rfl, hset, h⟩

/-- reading the rows changes neither the row names, nor the columns, nor the shape of the data -/
theorem readRowsL_frame (kp : List Int) (nc : Nat) (np : List (Option Int)) (skips : List Nat) (rest : List Str) (t t' : Table)
    (rest' : List Str) (h : readRowsL kp nc np skips rest t = .ok (t', rest')) :
    t'.rows = t.rows ∧ t'.cols = t.cols ∧ t'.data.size = t.data.size := by
  induction skips generalizing rest t with
  | nil => simp only [readRowsL] at h; injection h with h; injection h with h1 _; subst h1; exact ⟨rfl, rfl, rfl⟩
  | cons k more ih =>
    obtain ⟨key, vals, t1, hkey, hvals, hset, h⟩ := readRowsL_cons_inv _ _ _ _ _ _ _ _ _ h
    ·     obtain ⟨i, _, hi⟩ := setRow_spec _ _ _ _ hset
          obtain ⟨a, b, c, _⟩ := setRowAt_spec _ _ _ _ hi
          obtain ⟨a', b', c'⟩ := ih _ _ h
          exact ⟨a'.trans a, b'.trans b, c'.trans c⟩

/-- a row that no row line addresses keeps its cells (this is how cells go stale: C07 `stale_cells_witness`) -/
theorem readRowsL_untouched (kp : List Int) (nc : Nat) (np : List (Option Int)) (skips : List Nat) (rest : List Str) (t t' : Table)
    (rest' : List Str) (h : readRowsL kp nc np skips rest t = .ok (t', rest')) (r : Nat)
    (hno : ∀ line key, line ∈ rowLines skips rest → keyFromLine line kp = .ok key → lastIdx t.rows key ≠ some r) :
    t'.data[r]? = t.data[r]? := by
  induction skips generalizing rest t with
  | nil => simp only [readRowsL] at h; injection h with h; injection h with h1 _; subst h1; rfl
  | cons k more ih =>
    obtain ⟨key, vals, t1, hkey, hvals, hset, h⟩ := readRowsL_cons_inv _ _ _ _ _ _ _ _ _ h
    ·     obtain ⟨i, hidx, hi⟩ := setRow_spec _ _ _ _ hset
          obtain ⟨hrows, _, _, _, _, hother, _⟩ := setRowAt_spec _ _ _ _ hi
          have hne : r ≠ i := by
            intro e; subst e
            exact hno _ key (by simp [rowLines]) hkey hidx
          rw [ih _ _ h (by
            intro line key' hl hk'; rw [hrows]
            exact hno line key' (by simp only [rowLines, List.mem_cons]; exact Or.inr hl) hk')]
          exact hother r hne

/-- **What stepping stores.**  After `read_table_TOUGH2` has read the rows of a table, for the k-th row line `line`:
    its key addresses a row `r` of the table, `read_table_line(line)` succeeded with values `vals`, and — unless a later
    row line of the same table addresses the same row — row `r` of the table holds exactly those values. -/
theorem readRowsL_row (kp : List Int) (nc : Nat) (np : List (Option Int)) (skips : List Nat) (rest : List Str) (t t' : Table)
    (rest' : List Str) (h : readRowsL kp nc np skips rest t = .ok (t', rest')) (hsz : t.data.size = t.rows.size)
    (k : Nat) (line : Str) (hk : (rowLines skips rest)[k]? = some line) :
    ∃ key vals r, keyFromLine line kp = .ok key ∧ readTableLineTOUGH2 line nc np = .ok vals ∧ lastIdx t.rows key = some r ∧
      (vals.length = t.cols.length ∨ vals.length = 1) ∧
      ((∀ k' line' key', k < k' → (rowLines skips rest)[k']? = some line' → keyFromLine line' kp = .ok key' →
          lastIdx t.rows key' ≠ some r) → t'.data[r]? = some (rowData t.cols.length vals)) := by
  induction skips generalizing rest t k with
  | nil => simp [rowLines] at hk
  | cons skip more ih =>
    obtain ⟨key, vals, t1, hkey, hvals, hset, h⟩ := readRowsL_cons_inv _ _ _ _ _ _ _ _ _ h
    ·     obtain ⟨i, hidx, hi⟩ := setRow_spec _ _ _ _ hset
          obtain ⟨hrows, hcols, hsize, hilt, hlen, hother, hself⟩ := setRowAt_spec _ _ _ _ hi
          cases k with
          | zero =>
            simp only [rowLines, List.getElem?_cons_zero] at hk
            injection hk with hk; subst hk
            refine ⟨key, vals, i, hkey, hvals, hidx, hlen, ?_⟩
            intro hlater
            rw [readRowsL_untouched _ _ _ _ _ _ _ _ h i (by
              intro line' key' hl hk'; rw [hrows]
              obtain ⟨k', hk'lt, hk'eq⟩ := List.getElem_of_mem hl
              exact hlater (k' + 1) line' key' (by omega)
                (by simp only [rowLines, List.getElem?_cons_succ]; rw [List.getElem?_eq_getElem hk'lt, hk'eq]) hk')]
            exact hself (by omega)
          | succ k =>
            simp only [rowLines, List.getElem?_cons_succ] at hk
            obtain ⟨key2, vals2, r, h1, h2, h3, h4, h5⟩ := ih _ _ h (by rw [hsize, hrows]; exact hsz) k hk
            rw [hrows] at h3; rw [hcols] at h4 h5
            refine ⟨key2, vals2, r, h1, h2, h3, h4, ?_⟩
            intro hlater
            apply h5
            intro k' line' key' hkk' hl' hk'; rw [hrows]
            exact hlater (k' + 1) line' key' (by omega) (by simp only [rowLines, List.getElem?_cons_succ]; exact hl') hk'

/-! ### the cell history() picks is the cell stepping shows -/

theorem colIdx_go_spec (cols : List Str) (c : Str) (i : Nat) (acc : Option Nat) (vi : Nat)
    (h : colIdx.go c cols i acc = some vi) : acc = some vi ∨ (i ≤ vi ∧ vi < i + cols.length) := by
  induction cols generalizing i acc with
  | nil => simp only [colIdx.go] at h; exact Or.inl h
  | cons x r ih =>
    simp only [colIdx.go] at h
    rcases ih _ _ h with h1 | h1
    · split at h1
      · injection h1 with h1; subst h1; exact Or.inr ⟨by omega, by simp⟩
      · exact Or.inl h1
    · exact Or.inr ⟨by omega, by simp only [List.length_cons]; omega⟩

theorem colIdx_lt (cols : List Str) (c : Str) (vi : Nat) (h : colIdx cols c = some vi) : vi < cols.length := by
  unfold colIdx at h
  rcases colIdx_go_spec cols c 0 none vi h with h1 | h1
  · cases h1
  · omega

theorem map_fst_zip_of_le {α β : Type} (a : List α) (b : List β) (h : a.length ≤ b.length) : (a.zip b).map (·.1) = a := by
  induction a generalizing b with
  | nil => rfl
  | cons x r ih =>
    cases b with
    | nil => simp at h
    | cons y s => simp only [List.zip_cons_cons, List.map_cons]; rw [ih s (by simpa using h)]

theorem zip_getElem? {α β : Type} (a : List α) (b : List β) (i : Nat) (ha : i < a.length) (hb : i < b.length) :
    (a.zip b)[i]? = some (a[i], b[i]) :=
  List.getElem?_zip_eq_some.mpr ⟨List.getElem?_eq_getElem ha, List.getElem?_eq_getElem hb⟩

/-- `table[r][col]` of a table whose row `r` holds `vals` (one value per column) -/
theorem rowView_get (t : Table) (r : Nat) (rev : Bool) (vals : List FVal) (col : Str)
    (hd : t.data[r]? = some vals.toArray) (hl : vals.length = t.cols.length) :
    (t.rowView r rev).get col = match colIdx t.cols col with
      | some vi => (vals[vi]?).map (fun v => if rev then negF v else v)
      | none => none := by
  unfold Table.rowView RowView.get
  simp only [hd, Option.getD_some, List.toList_toArray]
  cases rev with
  | true =>
    simp only [if_true]
    rw [map_fst_zip_of_le _ _ (by simp [hl])]
    cases hc : colIdx t.cols col with
    | none => rfl
    | some vi =>
      simp only
      have := colIdx_lt _ _ _ hc
      rw [zip_getElem? _ _ vi this (by simp; omega), List.getElem?_eq_getElem (by omega)]
      simp
  | false =>
    simp only [Bool.false_eq_true, if_false]
    rw [map_fst_zip_of_le _ _ (by simp [hl])]
    cases hc : colIdx t.cols col with
    | none => rfl
    | some vi =>
      simp only
      have := colIdx_lt _ _ _ hc
      rw [zip_getElem? _ _ vi this (by omega), List.getElem?_eq_getElem (by omega)]
      simp

theorem mapM_ok_length {α β ε : Type} (f : α → Except ε β) (l : List α) (r : List β) (h : l.mapM f = .ok r) :
    r.length = l.length := by
  induction l generalizing r with
  | nil => simp only [List.mapM_nil, pure, Except.pure] at h; injection h with h; subst h; rfl
  | cons a m ih =>
    simp only [List.mapM_cons, bind, Except.bind, pure, Except.pure] at h
    cases hf : f a with
    | error e => rw [hf] at h; cases h
    | ok b =>
      rw [hf] at h; simp only at h
      cases hm : m.mapM f with
      | error e => rw [hm] at h; cases h
      | ok bs => rw [hm] at h; simp only at h; injection h with h; subst h; simp [ih bs hm]

theorem fieldsOf_length (line : Str) (np : List (Option Int)) : (fieldsOf line np).length = np.length - 1 := by
  induction np with
  | nil => rfl
  | cons a r ih =>
    cases r with
    | nil => rfl
    | cons b r' => simp only [fieldsOf, List.length_cons] at ih ⊢; omega

/-- `read_table_line_TOUGH2` pads with zeros: it never returns fewer values than the table has columns -/
theorem readTableLineTOUGH2_length (line : Str) (nc : Nat) (np : List (Option Int)) (vals : List FVal)
    (h : readTableLineTOUGH2 line nc np = .ok vals) : nc ≤ vals.length := by
  unfold readTableLineTOUGH2 at h
  simp only [bind, Except.bind, pure, Except.pure] at h
  split at h
  · cases h
  · rename_i v hv
    injection h with h; subst h
    have := mapM_ok_length _ _ _ hv
    rw [fieldsOf_length] at this
    simp only [List.length_append, List.length_replicate]; omega

/-- **The cell history() picks from a row line is the cell the stepping reader shows for that row**: `t'` is the table after
    stepping stored `read_table_line(line)` in row `r`; history() reads the same line with the same `read_table_line`, takes column
    `col` and flips the sign for a reversed name; `t'[r][col]` (with the sign flipped when addressed by the reversed name) is the
    same value, and both raise KeyError for a column the table does not have. -/
theorem pickCell_eq_stepping (t t' : Table) (r : Nat) (vals : List FVal) (line : Str)
    (hvals : readTableLineTOUGH2 line t.cols.length t.numpos = .ok vals)
    (hlen : vals.length = t.cols.length ∨ vals.length = 1)
    (hd : t'.data[r]? = some (rowData t.cols.length vals)) (hcols : t'.cols = t.cols) (col : Str) (rev : Bool) :
    pickCell (fun l => readTableLineTOUGH2 l t.cols.length t.numpos) (colIdx t.cols) line col rev
      = match (t'.rowView r rev).get col with
        | some v => .ok v
        | none => .error .keyError := by
  by_cases hl : vals.length = t.cols.length
  · have hd' : t'.data[r]? = some vals.toArray := by rw [hd]; simp [rowData, hl]
    rw [rowView_get t' r rev vals col hd' (by rw [hcols]; exact hl), hcols]
    unfold pickCell
    simp only [hvals]
    cases hc : colIdx t.cols col with
    | none => rfl
    | some vi =>
      have := colIdx_lt _ _ _ hc
      simp only
      rw [List.getElem?_eq_getElem (by omega)]
      rfl
  · have h1 : vals.length = 1 := by rcases hlen with h | h; exact absurd h hl; exact h
    have h0 : t.cols.length = 0 := by have := readTableLineTOUGH2_length _ _ _ _ hvals; omega
    have hnil : t.cols = [] := List.eq_nil_of_length_eq_zero h0
    have hvals0 : readTableLineTOUGH2 line 0 t.numpos = .ok vals := by rw [← h0]; exact hvals
    unfold pickCell Table.rowView RowView.get
    simp only [hcols, hnil]
    cases rev <;> simp [colIdx, colIdx.go, hvals0]

/-- decidable, per table and result time: the key printed on the k-th row line addresses row `r` of the table, and no later row
    line of the table addresses row `r` again (a repeated key would overwrite it: numpy keeps the last) -/
def rowInPlace (t : Table) (L : List Str) (k r : Nat) : Bool :=
  (match keyFromLine (lineAt L (rowOffset t.skips k)) t.keyPos with
    | .ok key => lastIdx t.rows key == some r
    | .error _ => true) &&
  (List.range t.skips.length).all fun k' =>
    !(decide (k < k')) ||
      (match keyFromLine (lineAt L (rowOffset t.skips k')) t.keyPos with
        | .ok key' => lastIdx t.rows key' != some r
        | .error _ => true)

/-- the value of `t'[r][col]` (sign flipped when the row is addressed by its reversed name) as history() reports it -/
def steppingCell (t' : Table) (r : Nat) (e : Sel) : Except Exc (Nat × FVal) :=
  match (t'.rowView r e.2.2.1).get e.2.1 with
  | some v => .ok (e.2.2.2, v)
  | none => .error .keyError

theorem cellOf_eq_steppingCell (t t' : Table) (L rest' : List Str)
    (hstep : readRowsL t.keyPos t.cols.length t.numpos t.skips L t = .ok (t', rest'))
    (hsz : t.data.size = t.rows.size) (k r : Nat) (hk : k < t.skips.length) (hin : rowInPlace t L k r = true)
    (e : Sel) (he : e.1 = (rowOffset t.skips k : Nat)) :
    cellOf (fun l => readTableLineTOUGH2 l t.cols.length t.numpos) (colIdx t.cols) L e = steppingCell t' r e := by
  obtain ⟨li, col, rev, si⟩ := e
  simp only at he; subst he
  simp only [rowInPlace, Bool.and_eq_true, List.all_eq_true, List.mem_range, Bool.or_eq_true, Bool.not_eq_true',
    decide_eq_false_iff_not] at hin
  obtain ⟨hin1, hin2⟩ := hin
  have hline := rowLines_getElem t.skips L k hk
  obtain ⟨key, vals, r0, hkey, hvals, hidx, hlen, hdata⟩ := readRowsL_row _ _ _ _ _ _ _ _ hstep hsz k _ hline
  rw [hkey] at hin1
  have hr : r0 = r := by
    have : lastIdx t.rows key = some r := by simpa using hin1
    rw [hidx] at this; injection this
  subst hr
  have hd := hdata (by
    intro k' line' key' hkk' hl' hk'
    have hk'lt : k' < t.skips.length := by
      have := (List.getElem?_eq_some_iff.mp hl').1; rwa [rowLines_length] at this
    rw [rowLines_getElem t.skips L k' hk'lt] at hl'
    injection hl' with hl'; subst hl'
    rcases hin2 k' hk'lt with h | h
    · exact absurd hkk' h
    · rw [hk'] at h; simpa using h)
  obtain ⟨_, hcols, _⟩ := readRowsL_frame _ _ _ _ _ _ _ _ hstep
  have := pickCell_eq_stepping t t' r0 vals _ hvals hlen hd hcols col rev
  simp only [cellOf, steppingCell, Int.toNat_natCast, this]
  cases (t'.rowView r0 rev).get col <;> rfl

theorem mapM_congr_mem {α β ε : Type} (f g : α → Except ε β) (l : List α) (h : ∀ a ∈ l, f a = g a) : l.mapM f = l.mapM g := by
  induction l with
  | nil => rfl
  | cons a r ih =>
    simp only [List.mapM_cons]
    rw [h a List.mem_cons_self, ih (fun x hx => h x (List.mem_cons_of_mem _ hx))]

end Proofs.SeriesStep
