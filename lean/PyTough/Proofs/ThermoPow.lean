/-
  `IAPWS97.power_array` computes powers: for a well-formed chain (the decidable predicate
  `chainWF`, discharged by `decide` over the generated chains) and a non-zero value `v`, every
  defined entry `k` of the array holds `v ^ k`.
-/
import PyTough.Proofs.ThermoReal

namespace Proofs.Thermo
open Model.Thermo

/-- index `k` lies inside an array with `npos` positive and `nneg` negative slots -/
def InR (npos nneg : Nat) (k : Int) : Prop := -(nneg : Int) ≤ k ∧ k ≤ (npos : Int)

theorem pyPos_lt {npos nneg : Nat} {k : Int} (h : InR npos nneg k) : pyPos (1 + npos + nneg) k < 1 + npos + nneg := by
  unfold InR at h; unfold pyPos
  split
  · omega
  · split <;> omega

theorem pyPos_inj {npos nneg : Nat} {k k' : Int} (h : InR npos nneg k) (h' : InR npos nneg k')
    (e : pyPos (1 + npos + nneg) k = pyPos (1 + npos + nneg) k') : k = k' := by
  unfold InR at h h'; unfold pyPos at e
  split at e <;> split at e <;> (try split at e) <;> (try split at e) <;> omega

theorem getD_set' (l : List ℝ) (i j : Nat) (x d : ℝ) :
    (l.set i x).getD j d = if i = j ∧ i < l.length then x else l.getD j d := by
  simp only [List.getD_eq_getElem?_getD, List.getElem?_set]
  by_cases h : i = j
  · subst h
    by_cases h2 : i < l.length
    · simp [h2]
    · simp [h2]
  · simp [h]

theorem get_set_same {npos nneg : Nat} {p : List ℝ} (hl : p.length = 1 + npos + nneg) {k : Int}
    (hk : InR npos nneg k) (x : ℝ) : PArr.get (PArr.set p k x) k = x := by
  unfold PArr.get PArr.set
  rw [List.length_set, getD_set', hl]
  simp [pyPos_lt hk]

theorem get_set_other {npos nneg : Nat} {p : List ℝ} (hl : p.length = 1 + npos + nneg) {k k' : Int}
    (hk : InR npos nneg k) (hk' : InR npos nneg k') (hne : k ≠ k') (x : ℝ) :
    PArr.get (PArr.set p k x) k' = PArr.get p k' := by
  unfold PArr.get PArr.set
  rw [List.length_set, getD_set', hl]
  have : pyPos (1 + npos + nneg) k ≠ pyPos (1 + npos + nneg) k' := fun e => hne (pyPos_inj hk hk' e)
  simp [this]

theorem length_set' (p : List ℝ) (k : Int) (x : ℝ) : (PArr.set p k x).length = p.length := by
  unfold PArr.set; simp

/-- the invariant of the chain walk: the entries listed in `D` are in range and hold the powers -/
def Inv (v : ℝ) (npos nneg : Nat) (p : List ℝ) (D : List Int) : Prop :=
  p.length = 1 + npos + nneg ∧ ∀ k ∈ D, InR npos nneg k ∧ PArr.get p k = v ^ k

theorem step_inv {v : ℝ} (hv : v ≠ 0) {npos nneg : Nat} {p : List ℝ} {D : List Int}
    (h : Inv v npos nneg p D) (tgt : Int) (ops : List Int)
    (hne : ops ≠ []) (hops : ∀ o ∈ ops, o ∈ D) (hsum : ops.foldl (· + ·) 0 = tgt) (hnew : tgt ∉ D)
    (hr : InR npos nneg tgt) : Inv v npos nneg (chainStep p (tgt, ops)) (tgt :: D) := by
  obtain ⟨hl, hD⟩ := h
  cases ops with
  | nil => exact absurd rfl hne
  | cons o rest =>
    -- inner loop invariant
    have inner : ∀ (rest : List Int), (∀ m ∈ rest, m ∈ D) → ∀ (q : List ℝ) (s : Int),
        q.length = 1 + npos + nneg → (∀ k ∈ D, PArr.get q k = v ^ k) → PArr.get q tgt = v ^ s →
        let q' := rest.foldl (fun q m => PArr.set q tgt (PArr.get q tgt * PArr.get q m)) q
        q'.length = 1 + npos + nneg ∧ (∀ k ∈ D, PArr.get q' k = v ^ k) ∧ PArr.get q' tgt = v ^ (rest.foldl (· + ·) s) := by
      intro rest
      induction rest with
      | nil => intro _ q s h1 h2 h3; exact ⟨h1, h2, h3⟩
      | cons m rest ih =>
        intro hm q s h1 h2 h3
        have hmD : m ∈ D := hm m (by simp)
        simp only [List.foldl_cons]
        apply ih (fun x hx => hm x (by simp [hx]))
        · rw [length_set']; exact h1
        · intro k hk
          have hne : tgt ≠ k := fun e => hnew (e ▸ hk)
          rw [get_set_other h1 hr (hD k hk).1 hne]; exact h2 k hk
        · rw [get_set_same h1 hr, h3, h2 m hmD, ← zpow_add₀ hv]
    have hoD : o ∈ D := hops o (by simp)
    have h0 := inner rest (fun m hm => hops m (by simp [hm])) (PArr.set p tgt (PArr.get p o)) o
      (by rw [length_set']; exact hl)
      (by
        intro k hk
        have hne : tgt ≠ k := fun e => hnew (e ▸ hk)
        rw [get_set_other hl hr (hD k hk).1 hne]; exact (hD k hk).2)
      (by rw [get_set_same hl hr]; exact (hD o hoD).2)
    obtain ⟨l1, l2, l3⟩ := h0
    have hs : rest.foldl (· + ·) o = tgt := by
      rw [← hsum]; simp [List.foldl_cons]
    unfold chainStep
    refine ⟨l1, ?_⟩
    intro k hk
    rcases List.mem_cons.mp hk with rfl | hk
    · exact ⟨hr, by rw [l3, hs]⟩
    · exact ⟨(hD k hk).1, l2 k hk⟩

theorem fold_inv {v : ℝ} (hv : v ≠ 0) {npos nneg : Nat} :
    ∀ (comb : List (Int × List Int)) (p : List ℝ) (D : List Int), Inv v npos nneg p D →
      chainWFAux npos nneg D comb = true →
      ∀ k, (k ∈ D ∨ k ∈ comb.map Prod.fst) → PArr.get (comb.foldl chainStep p) k = v ^ k := by
  intro comb
  induction comb with
  | nil =>
    intro p D h _ k hk
    rcases hk with hk | hk
    · exact (h.2 k hk).2
    · simp at hk
  | cons c rest ih =>
    intro p D h hwf k hk
    obtain ⟨tgt, ops⟩ := c
    simp only [chainWFAux, Bool.and_eq_true, Bool.not_eq_true', List.isEmpty_eq_false_iff,
      List.all_eq_true, List.contains_iff_mem, beq_iff_eq, decide_eq_true_eq] at hwf
    obtain ⟨⟨⟨⟨⟨⟨hne, hops⟩, hsum⟩, hnew'⟩, hlo⟩, hhi⟩, hrest⟩ := hwf
    have hnew : tgt ∉ D := by
      intro hmem
      have : D.contains tgt = true := List.contains_iff_mem.mpr hmem
      rw [hnew'] at this; exact Bool.noConfusion this
    have hstep := step_inv hv h tgt ops hne hops hsum hnew ⟨hlo, hhi⟩
    simp only [List.foldl_cons]
    apply ih _ _ hstep hrest
    rcases hk with hk | hk
    · exact Or.inl (List.mem_cons_of_mem _ hk)
    · simp only [List.map_cons, List.mem_cons] at hk
      rcases hk with rfl | hk
      · exact Or.inl (by simp)
      · exact Or.inr hk

theorem foldl_max_ge {α : Type} (f : α → Nat) : ∀ (l : List α) (init : Nat), init ≤ l.foldl (fun m c => max m (f c)) init := by
  intro l
  induction l with
  | nil => intro i; exact Nat.le_refl _
  | cons a l ih => intro i; exact Nat.le_trans (Nat.le_max_left _ _) (ih _)

theorem one_le_chainNneg (comb : List (Int × List Int)) : 1 ≤ chainNneg comb := by
  unfold chainNneg; exact foldl_max_ge _ comb 1

/-- **`power_array` computes powers.**  For a chain that passes `chainWF` and a non-zero base,
    every defined entry `k` (0, 1, −1 and every chain target) holds `v ^ k`. -/
theorem powerArray_eq_zpow (comb : List (Int × List Int)) (hwf : chainWF comb = true) (v : ℝ) (hv : v ≠ 0) :
    ∀ k ∈ chainDefined comb, PArr.get (powerArray v comb) k = v ^ k := by
  unfold chainWF at hwf
  simp only [Bool.and_eq_true, decide_eq_true_eq] at hwf
  obtain ⟨hpos, haux⟩ := hwf
  have hneg := one_le_chainNneg comb
  intro k hk
  unfold powerArray
  simp only
  set npos := chainNpos comb
  set nneg := chainNneg comb
  have r0 : InR npos nneg 0 := by unfold InR; omega
  have r1 : InR npos nneg 1 := by unfold InR; omega
  have rm : InR npos nneg (-1) := by unfold InR; omega
  set p0 : List ℝ := List.replicate (1 + npos + nneg) (ofInt 0) with hp0
  have l0 : p0.length = 1 + npos + nneg := by simp [hp0]
  have l1 : (PArr.set p0 0 (ofInt 1)).length = 1 + npos + nneg := by rw [length_set']; exact l0
  have l2 : (PArr.set (PArr.set p0 0 (ofInt 1)) 1 v).length = 1 + npos + nneg := by rw [length_set']; exact l1
  have hz : (le v (ofInt 0 : ℝ) && le (ofInt 0 : ℝ) v) = false := by
    rw [tf_le', tf_le', tf_ofInt]
    simp only [Int.cast_zero, Bool.and_eq_false_imp, decide_eq_true_eq, decide_eq_false_iff_not, not_le]
    intro h; exact lt_of_le_of_ne h hv
  rw [hz]
  simp only [Bool.false_eq_true, if_false]
  have hinv : Inv v npos nneg (PArr.set (PArr.set (PArr.set p0 0 (ofInt 1)) 1 v) (-1) (ofInt 1 / v)) [0, 1, -1] := by
    refine ⟨by rw [length_set']; exact l2, ?_⟩
    intro j hj
    simp only [List.mem_cons, List.not_mem_nil, or_false] at hj
    rcases hj with rfl | rfl | rfl
    · refine ⟨r0, ?_⟩
      rw [get_set_other l2 rm r0 (by decide), get_set_other l1 r1 r0 (by decide), get_set_same l0 r0]
      simp [tf_ofInt]
    · refine ⟨r1, ?_⟩
      rw [get_set_other l2 rm r1 (by decide), get_set_same l1 r1]
      simp
    · refine ⟨rm, ?_⟩
      rw [get_set_same l2 rm]
      simp [tf_ofInt]
  apply fold_inv hv comb _ _ hinv haux
  unfold chainDefined at hk
  rcases List.mem_append.mp hk with hk | hk
  · exact Or.inl hk
  · exact Or.inr hk

end Proofs.Thermo
