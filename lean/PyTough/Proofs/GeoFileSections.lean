/-
  C03 proofs, part 3: each section of the file, written and read back.
-/
import PyTough.Proofs.GeoFileLines
namespace Proofs.GeoFile
open Py Model Model.GeoFile Proofs

/-! ### generic: a section whose records take one line each -/

theorem readline_cons (l : Str) (ls : List Str) : readline (l :: ls) = (l, ls) := rfl

/-- the text of a record line, as the loop sees it: unpadded, or (first line) padded to 80 -/
theorem padstring_line (b : Str) : ∃ extra, padstring (b ++ ['\n']) = b ++ '\n' :: extra := by
  refine ⟨List.replicate (80 - (b ++ ['\n']).length) ' ', ?_⟩
  rw [padstring_eq]; simp

theorem simpleSection {α : Type} (step : Geo → Str → Except Exc Geo) (f : Geo → α → Geo) (L : α → Str)
    (items : List α) (g : Geo) (tail : List Str)
    (hstep : ∀ pre a post, items = pre ++ a :: post → (∃ c ∈ L a, isStrWs c = false) ∧
      ∀ extra : Str, step (pre.foldl f g) (L a ++ '\n' :: extra) = .ok (f (pre.foldl f g) a)) :
    sectionLoop step g (padstring (readline (items.map (fun a => L a ++ ['\n']) ++ ['\n'] :: tail)).1)
      (readline (items.map (fun a => L a ++ ['\n']) ++ ['\n'] :: tail)).2 = .ok (items.foldl f g, tail) := by
  cases items with
  | nil =>
    simp only [List.map_nil, List.nil_append, readline_cons, List.foldl_nil]
    exact sectionLoop_blank _ _ _ _ isBlank_padded_newline
  | cons a0 r =>
    simp only [List.map_cons, List.cons_append, readline_cons, List.foldl_cons]
    obtain ⟨extra, he⟩ := padstring_line (L a0)
    have h0 := hstep [] a0 r rfl
    obtain ⟨⟨c, hc, hw⟩, hs0⟩ := h0
    simp only [List.foldl_nil] at hs0
    have := sectionLoop_run step f (fun a => L a ++ ['\n']) r g (padstring (L a0 ++ ['\n'])) a0 ['\n'] tail
      (isBlank_padstring_false (c := c) (List.mem_append_left _ hc) hw)
      (by rw [he]; exact hs0 extra)
      (by
        intro pre a post e
        have h := hstep (a0 :: pre) a post (by rw [e]; rfl)
        obtain ⟨⟨c, hc, hw⟩, hs⟩ := h
        simp only [List.foldl_cons] at hs
        exact ⟨isBlank_false_of_mem (c := c) (List.mem_append_left _ hc) hw, by simpa using hs []⟩)
      isBlank_newline
    exact this

/-! ### numbers read back -/

theorem ofFVal_fin (neg : Bool) (m : Nat) (e : Int) : ofFVal (.fin neg m e) = some (ofDec neg m e) := by
  unfold ofFVal ofDec
  by_cases h : m = 0 <;> simp [h]

theorem fltOf_fin (neg : Bool) (m : Nat) (e : Int) : fltOf (.flt (.fin neg m e)) = .ok (ofDec neg m e) := by
  simp only [fltOf, ofFVal_fin]

/-- the item of a coordinate `x` (metres) written with `p` decimals in file units -/
def coordItem (p : Nat) (s : Rat) (x : Flt) : Item :=
  (fF p, (x.div s).toVal, textF 10 p (x.div s),
    .flt (.fin (x.div s).isNeg (roundHalfEven ((x.div s).absNum * 10 ^ p) (x.div s).den) (-(p : Int))))

theorem coordItem_ok {p : Nat} {s : Rat} {x : Flt} (h : fitsC p s x = true) :
    FieldRT (coordItem p s x).1 (coordItem p s x).2.1 (coordItem p s x).2.2.1 (coordItem p s x).2.2.2 :=
  fieldRT_f p (x.div s) h

def nameItem (n : Str) : Item := (fS 3, .str (ljust n 3), ljust n 3, .str (ljust n 3))

theorem nameItem_ok {L : Nat} {n : Str} (hL : L ≤ 3) (h : NameShape L n) :
    FieldRT (nameItem n).1 (nameItem n).2.1 (nameItem n).2.2.1 (nameItem n).2.2.2 :=
  fieldRT_name hL h

/-- some character of the record text is not whitespace (so the loop does not stop there) -/
theorem nonblank_of_name {L : Nat} {n : Str} (h : NameShape L n) (rest : List Item) :
    ∃ c ∈ recText (nameItem n :: rest), isStrWs c = false := by
  obtain ⟨c, hc, hw⟩ := nameShape_nonblank h
  refine ⟨c, ?_, hw⟩
  unfold recText nameItem ljust
  simp only [List.map_cons, List.flatten_cons, List.mem_append]
  exact Or.inl (Or.inl hc)

/-! ### VERTICES -/

def nodeItems (s : Rat) (n : GNode) : List Item := [nameItem n.name, coordItem 2 s n.x, coordItem 2 s n.y]

structure NodeOK (L : Nat) (s : Rat) (n : GNode) : Prop where
  name : NameShape L n.name
  x : fitsC 2 s n.x = true
  y : fitsC 2 s n.y = true

theorem nodeItems_ok {L : Nat} {s : Rat} {n : GNode} (hL : L ≤ 3) (h : NodeOK L s n) : ItemsOK (nodeItems s n) :=
  itemsOK_cons (nameItem_ok hL h.name) (itemsOK_cons (coordItem_ok h.x) (itemsOK_cons (coordItem_ok h.y) itemsOK_nil))

theorem nodeLine_eq {L : Nat} {s : Rat} {n : GNode} (hL : L ≤ 3) (h : NodeOK L s n) :
    nodeLine SP s n = .ok (recText (nodeItems s n) ++ ['\n']) :=
  lineOf_items (nodeItems s n) (nodeItems_ok hL h)

theorem nodeStep_line {L : Nat} {s : Rat} {n : GNode} (hL : L ≤ 3) (h : NodeOK L s n) (g : Geo) (tail : Str) :
    nodeStep SP L s g (recText (nodeItems s n) ++ tail) = .ok (addNode g (canonNode s n)) := by
  unfold nodeStep
  have hp := parse_items .default (nodeItems s n) (nodeItems_ok hL h) tail
  have : SP.node = (nodeItems s n).map (·.1) := rfl
  rw [this, hp]
  simp only [nodeItems, coordItem, nameItem, List.map_cons, List.map_nil, strOf, fltOf_fin, bind, Except.bind,
    pure, Except.pure]
  rw [fixName_ljust hL h.name]
  rfl

theorem lookupNode_none {ns : List GNode} {name : Str} (h : name ∉ ns.map (·.name)) : lookupNode ns name = none := by
  unfold lookupNode
  rw [List.find?_eq_none]
  intro x hx
  simp only [decide_eq_true_eq]
  intro e
  exact h (List.mem_map.mpr ⟨x, hx, e⟩)

theorem foldl_addNode (ns : List GNode) (g : Geo) (hd : (g.nodes.map (·.name) ++ ns.map (·.name)).Nodup) :
    ns.foldl addNode g = { g with nodes := g.nodes ++ ns } := by
  induction ns generalizing g with
  | nil => simp
  | cons n r ih =>
    have hn : n.name ∉ g.nodes.map (·.name) := by
      intro hc
      rw [List.nodup_append] at hd
      exact hd.2.2 _ hc _ (by simp) rfl
    have h1 : addNode g n = { g with nodes := g.nodes ++ [n] } := by
      unfold addNode
      rw [lookupNode_none hn]; rfl
    rw [List.foldl_cons, h1, ih]
    · simp
    · simpa [List.append_assoc] using hd

theorem canonNode_name (s : Rat) (n : GNode) : (canonNode s n).name = n.name := rfl

theorem map_canonNode_name (s : Rat) (ns : List GNode) : (ns.map (canonNode s)).map (·.name) = ns.map (·.name) := by
  simp [canonNode_name]

/-- hypotheses about the reader state shared by all sections -/
structure Env (g : Geo) (L LL : Nat) (s : Rat) : Prop where
  cl : colnameLength g.hdr.convention = .ok L
  ll : layernameLength g.hdr.convention = .ok LL
  sc : unitScale g.hdr.unitType = .ok s
  hL : L ≤ 3
  hLL : LL ≤ 3

def nodeLines (s : Rat) (ns : List GNode) : List Str := ns.map fun n => recText (nodeItems s n) ++ ['\n']

theorem readSection_verti {g : Geo} {L LL : Nat} {s : Rat} (env : Env g L LL s) (ns : List GNode)
    (hok : ∀ n ∈ ns, NodeOK L s n) (hd : (g.nodes.map (·.name) ++ ns.map (·.name)).Nodup) (tail : List Str) :
    readSection SP .verti g (nodeLines s ns ++ ['\n'] :: tail)
      = .ok ({ g with nodes := g.nodes ++ ns.map (canonNode s) }, tail) := by
  unfold readSection
  simp only [env.cl, env.ll, env.sc, bind, Except.bind]
  have := simpleSection (nodeStep SP L s) (fun g n => addNode g (canonNode s n)) (fun n => recText (nodeItems s n))
    ns g tail (by
      intro pre a post e
      have ha : NodeOK L s a := hok a (by rw [e]; simp)
      exact ⟨nonblank_of_name ha.name _, fun extra => nodeStep_line env.hL ha _ _⟩)
  unfold nodeLines
  rw [this]
  congr 2
  rw [← List.foldl_map (f := canonNode s) (g := addNode)]
  apply foldl_addNode
  rw [map_canonNode_name]; exact hd

/-! ### CONNECTIONS -/

def connItems (k : Str × Str) : List Item := [nameItem k.1, nameItem k.2]

def connLines (ks : List (Str × Str)) : List Str := ks.map fun k => recText (connItems k) ++ ['\n']

theorem connectionLine_eq {L : Nat} {k : Str × Str} (hL : L ≤ 3) (h1 : NameShape L k.1) (h2 : NameShape L k.2) :
    connectionLine SP k = .ok (recText (connItems k) ++ ['\n']) :=
  lineOf_items (connItems k) (itemsOK_cons (nameItem_ok hL h1) (itemsOK_cons (nameItem_ok hL h2) itemsOK_nil))

theorem connectionStep_line {L : Nat} {k : Str × Str} (hL : L ≤ 3) (h1 : NameShape L k.1) (h2 : NameShape L k.2)
    (g : Geo) (hc1 : (lookupColumn g.columns k.1).isSome = true) (hc2 : (lookupColumn g.columns k.2).isSome = true)
    (tail : Str) :
    connectionStep SP L g (recText (connItems k) ++ tail) = .ok (addConnection g k) := by
  unfold connectionStep
  have hp := parse_items .default (connItems k)
    (itemsOK_cons (nameItem_ok hL h1) (itemsOK_cons (nameItem_ok hL h2) itemsOK_nil)) tail
  have : SP.connection = (connItems k).map (·.1) := rfl
  rw [this, hp]
  simp only [connItems, nameItem, List.map_cons, List.map_nil, List.mapM_cons, List.mapM_nil, strOf, bind, Except.bind,
    pure, Except.pure, fixName_ljust hL h1, fixName_ljust hL h2, List.any_cons, List.any_nil]
  cases h1' : lookupColumn g.columns k.1 with
  | none => rw [h1'] at hc1; cases hc1
  | some a =>
    cases h2' : lookupColumn g.columns k.2 with
    | none => rw [h2'] at hc2; cases hc2
    | some b => simp

theorem foldl_addConnection (ks : List (Str × Str)) (g : Geo) (hd : (g.connections ++ ks).Nodup) :
    ks.foldl addConnection g = { g with connections := g.connections ++ ks } := by
  induction ks generalizing g with
  | nil => simp
  | cons k r ih =>
    have hk : k ∉ g.connections := by
      intro hc
      rw [List.nodup_append] at hd
      exact hd.2.2 _ hc _ (by simp) rfl
    have h1 : addConnection g k = { g with connections := g.connections ++ [k] } := by
      unfold addConnection
      rw [if_neg (by simpa using hk)]
    rw [List.foldl_cons, h1, ih]
    · simp
    · simpa [List.append_assoc] using hd

theorem foldl_addConnection_columns (ks : List (Str × Str)) (g : Geo) : (ks.foldl addConnection g).columns = g.columns := by
  induction ks generalizing g with
  | nil => rfl
  | cons k r ih =>
    rw [List.foldl_cons, ih]
    unfold addConnection
    split <;> rfl

theorem readSection_conne {g : Geo} {L LL : Nat} {s : Rat} (env : Env g L LL s) (ks : List (Str × Str))
    (hok : ∀ k ∈ ks, NameShape L k.1 ∧ NameShape L k.2 ∧ (lookupColumn g.columns k.1).isSome = true ∧
      (lookupColumn g.columns k.2).isSome = true)
    (hd : (g.connections ++ ks).Nodup) (tail : List Str) :
    readSection SP .conne g (connLines ks ++ ['\n'] :: tail)
      = .ok ({ g with connections := g.connections ++ ks }, tail) := by
  unfold readSection
  simp only [env.cl, env.ll, env.sc, bind, Except.bind]
  have := simpleSection (connectionStep SP L) addConnection (fun k => recText (connItems k))
    ks g tail (by
      intro pre a post e
      obtain ⟨h1, h2, h3, h4⟩ := hok a (by rw [e]; simp)
      refine ⟨nonblank_of_name h1 _, fun extra => ?_⟩
      apply connectionStep_line env.hL h1 h2
      · rw [foldl_addConnection_columns]; exact h3
      · rw [foldl_addConnection_columns]; exact h4)
  unfold connLines
  rw [this, foldl_addConnection ks g hd]

end Proofs.GeoFile
