/-
  Renaming: a registry stays consistent when one object is renamed in place to a name nobody else has.
-/
import PyTough.Proofs.GeoLayers
namespace Proofs.Geo
open Model.Geo Model.Geo.Geo Py

section reg
variable {κ : Type} [DecidableEq κ]

theorem regOK_perm (l l' : List Nat) (d : Dict κ) (nm : Nat → κ) (hp : l.Perm l') (h : regOK l d nm = true) :
    regOK l' d nm = true := by
  simp only [regOK, Bool.and_eq_true, decide_eq_true_eq, List.all_eq_true, beq_iff_eq, List.contains_eq_mem] at h ⊢
  obtain ⟨⟨⟨⟨h1, h2⟩, h3⟩, h4⟩, h5⟩ := h
  refine ⟨⟨⟨⟨hp.nodup_iff.mp h1, (hp.map nm).nodup_iff.mp h2⟩, h3⟩, ?_⟩, ?_⟩
  · intro j hj; exact h4 j (hp.mem_iff.mpr hj)
  · intro p hpm; exact ⟨hp.mem_iff.mp (h5 p hpm).1, (h5 p hpm).2⟩

theorem Dict.contains_del (d : Dict κ) (k k' : κ) :
    (Dict.del d k).contains k' = (d.contains k' && decide (k' ≠ k)) := by
  induction d with
  | nil => rfl
  | cons p t ih =>
    simp only [Dict.del, List.filter_cons] at ih ⊢
    by_cases hp : p.1 = k
    · simp only [hp, ne_eq, not_true_eq_false, decide_false, Bool.false_eq_true, if_false]
      rw [ih]
      simp only [Dict.contains, List.any_cons, hp]
      by_cases e : k = k'
      · subst e; simp
      · simp [e, Ne.symm e]
    · simp only [ne_eq, hp, not_false_eq_true, decide_true, if_true]
      simp only [Dict.contains, List.any_cons] at ih ⊢
      rw [ih]
      by_cases e : p.1 = k'
      · subst e; simp [hp]
      · simp [e]

/-- renaming object `i` (stored under `old`) to `new`, a name no other object has -/
theorem regOK_rename (l : List Nat) (d : Dict κ) (nm nm' : Nat → κ) (old new : κ) (i : Nat)
    (h : regOK l d nm = true) (hk : Dict.get? d old = some i)
    (hnew : d.contains new = false ∨ new = old) (hi : nm' i = new) (hothers : ∀ j ∈ l, j ≠ i → nm' j = nm j) :
    regOK l ((Dict.del d old).set new i) nm' = true := by
  have hil : i ∈ l := regOK_mem h hk
  have hnd : l.Nodup := regOK_nodup h
  have h1 := regOK_erase l d nm old i h hk
  have h2 : regOK (l.erase i) (Dict.del d old) nm' = true := by
    apply regOK_congr _ _ nm nm' _ h1
    intro j hj
    exact hothers j (List.mem_of_mem_erase hj) (fun e => (List.Nodup.not_mem_erase hnd) (e ▸ hj))
  have hfresh : (Dict.del d old).contains new = false := by
    rw [Dict.contains_del]
    rcases hnew with h' | h'
    · simp [h']
    · simp [h']
  rw [Dict.set_fresh _ _ _ hfresh]
  have h3 := regOK_append (l.erase i) (Dict.del d old) nm' nm' i new h2 (List.Nodup.not_mem_erase hnd) hfresh hi
    (fun _ _ => rfl)
  apply regOK_perm _ _ _ _ _ h3
  exact (List.perm_append_comm.trans (List.perm_cons_erase hil).symm)

end reg
end Proofs.Geo

namespace Proofs.Geo
open Model.Geo Model.Geo.Geo Py

theorem updLay_lay (g : Geo) (i : Nat) (f : Layer → Layer) (j : Nat) (h : i < g.L.size) :
    (g.updLay i f).lay j = if i = j then f (g.lay j) else g.lay j := by
  simp only [Geo.lay, updLay]; exact getElem!_modify _ _ _ _ h

/-- the state after renaming layer object `i` from `old` to `new` (before the `setup_*` calls) -/
def renamedLayer (g : Geo) (old new : Name) (i : Nat) : Geo :=
  { g.updLay i (fun l => { l with name := new }) with layerD := (g.layerD.del old).set new i }

theorem renamedLayer_lay (g : Geo) (old new : Name) (i : Nat) (hilt : i < g.L.size) (j : Nat) :
    (renamedLayer g old new i).lay j = if i = j then { g.lay j with name := new } else g.lay j :=
  updLay_lay g i _ j hilt

/-- the structural half: registries (the layer dictionary is re-keyed in place) -/
theorem renamedLayer_struct (g : Geo) (old new : Name) (i : Nat)
    (hk : g.layerD.get? old = some i) (hnew : g.layerD.contains new = false ∨ new = old)
    (h0 : g.geoInv0 = true) : (renamedLayer g old new i).geoInv0 = true := by
  simp only [geoInv0, Bool.and_eq_true] at h0
  obtain ⟨⟨⟨⟨⟨⟨hh, hr⟩, hnc⟩, hcc⟩, hnb⟩, hcn⟩, ho⟩ := h0
  have hr' := hr
  simp only [registriesOK, Bool.and_eq_true] at hr'
  have hil : i ∈ g.layerlist := regOK_mem hr'.1.1.2 hk
  have hilt : i < g.L.size := heapOK_lays hh i hil
  have hlay := renamedLayer_lay g old new i hilt
  simp only [geoInv0, Bool.and_eq_true]
  refine ⟨⟨⟨⟨⟨⟨?_, ?_⟩, hnc⟩, hcc⟩, hnb⟩, hcn⟩, ho⟩
  · have hlays := heapOK_lays hh
    simp only [heapOK, Bool.and_eq_true] at hh ⊢
    refine ⟨⟨hh.1.1, ?_⟩, hh.2⟩
    have : (renamedLayer g old new i).L.size = g.L.size := by simp [renamedLayer, updLay]
    simp only [List.all_eq_true, decide_eq_true_eq, this]
    exact hlays
  · simp only [registriesOK, Bool.and_eq_true]
    refine ⟨⟨⟨hr'.1.1.1, ?_⟩, hr'.1.2⟩, hr'.2⟩
    show regOK g.layerlist ((g.layerD.del old).set new i) (fun j => ((renamedLayer g old new i).lay j).name) = true
    apply regOK_rename g.layerlist g.layerD (fun j => (g.lay j).name) _ old new i hr'.1.1.2 hk hnew
    · simp only [hlay, if_true]
    · intro j _ hji; simp only [hlay, if_neg (Ne.symm hji)]

theorem renamedLayer_geoInv0_layersOK (g : Geo) (old new : Name) (i : Nat)
    (hk : g.layerD.get? old = some i) (hnew : g.layerD.contains new = false ∨ new = old)
    (h0 : g.geoInv0 = true) (hl : g.layersOK = true) :
    (renamedLayer g old new i).geoInv0 = true ∧ (renamedLayer g old new i).layersOK = true := by
  refine ⟨renamedLayer_struct g old new i hk hnew h0, ?_⟩
  have hh : g.heapOK = true := by simp only [geoInv0, Bool.and_eq_true] at h0; exact h0.1.1.1.1.1.1
  have hr : g.registriesOK = true := by simp only [geoInv0, Bool.and_eq_true] at h0; exact h0.1.1.1.1.1.2
  simp only [registriesOK, Bool.and_eq_true] at hr
  have hilt : i < g.L.size := heapOK_lays hh i (regOK_mem hr.1.1.2 hk)
  have hlay := renamedLayer_lay g old new i hilt
  simp only [layersOK, List.all_eq_true, decide_eq_true_eq] at hl ⊢
  intro c hc
  have := hl c hc
  have hb : ∀ l, ((renamedLayer g old new i).lay l).bottom = (g.lay l).bottom := by
    intro l; rw [hlay]; split <;> rfl
  simp only [expectedNumLayers] at this ⊢
  have e1 : (renamedLayer g old new i).col c = g.col c := rfl
  have e2 : (renamedLayer g old new i).layerlist = g.layerlist := rfl
  rw [e1, e2]
  simp only [hb]
  exact this

/-- `rename_layer(old, new)` to a name no other layer has keeps the whole invariant -/
theorem renameLayer_geoInv (g g' : Geo) (old new : Name) (hd : g.renameLayer [old] [new] = .ok g')
    (hnew : g.layerD.contains new = false ∨ new = old) (h : g.geoInv = true) : g'.geoInv = true := by
  unfold renameLayer at hd
  obtain ⟨g1, h1, h2⟩ := bind_ok hd
  simp only [List.zip_cons_cons, List.zip_nil_right, List.foldlM_cons, List.foldlM_nil, bind_pure] at h1
  cases hk : g.layerD.get? old with
  | none => rw [hk] at h1; cases h1
  | some i =>
    rw [hk] at h1
    simp only at h1
    split at h1
    · cases h1
    · simp only [pure, Except.pure, Except.ok.injEq] at h1
      simp only [geoInv, Bool.and_eq_true] at h
      have := renamedLayer_geoInv0_layersOK g old new i hk hnew h.1.1 h.1.2
      have e : g1 = renamedLayer g old new i := h1.symm
      subst e
      simp only [geoInv, Bool.and_eq_true]
      exact ⟨⟨setupNames_geoInv0 _ g' h2 this.1, setupNames_layersOK _ g' h2 this.2⟩, setupNames_fresh _ g' h2⟩

end Proofs.Geo

namespace Proofs.Geo
open Model.Geo Model.Geo.Geo Py

section rekey
variable {κ : Type} [DecidableEq κ]

theorem nodup_map_inj {α β} (f : α → β) : ∀ (l : List α), (l.map f).Nodup → ∀ a ∈ l, ∀ b ∈ l, f a = f b → a = b
  | [], _, a, ha, _, _, _ => by cases ha
  | x :: t, h, a, ha, b, hb, e => by
    simp only [List.map_cons, List.nodup_cons, List.mem_map, not_exists, not_and] at h
    rcases List.mem_cons.mp ha with ha' | ha' <;> rcases List.mem_cons.mp hb with hb' | hb'
    · rw [ha', hb']
    · subst ha'; exact absurd e.symm (h.1 b hb')
    · subst hb'; exact absurd e (h.1 a ha')
    · exact nodup_map_inj f t h.2 a ha' b hb' e

theorem foldl_set_fresh (f : Nat → κ) : ∀ (l : List Nat) (d : Dict κ),
    (l.map f).Nodup → (∀ k ∈ l, d.contains (f k) = false) →
    l.foldl (fun d k => d.set (f k) k) d = d ++ l.map (fun k => (f k, k))
  | [], d, _, _ => by simp
  | k :: t, d, hn, hd => by
    simp only [List.map_cons, List.nodup_cons, List.mem_map, not_exists, not_and] at hn
    simp only [List.foldl_cons, List.map_cons]
    rw [Dict.set_fresh _ _ _ (hd k List.mem_cons_self)]
    rw [foldl_set_fresh f t _ hn.2 (by
      intro k' hk'
      have h1 := hd k' (List.mem_cons_of_mem _ hk')
      simp only [Dict.contains, List.any_append, List.any_cons, List.any_nil, Bool.or_false, Bool.or_eq_false_iff,
        decide_eq_false_iff_not] at h1 ⊢
      exact ⟨h1, fun e => hn.1 k' hk' e.symm⟩)]
    simp

/-- the registry built by `dict([(key(con), con) for con in connectionlist])` when the keys are distinct -/
theorem regOK_rebuilt (l : List Nat) (f : Nat → κ) (h1 : l.Nodup) (h2 : (l.map f).Nodup) :
    regOK l (l.foldl (fun d k => d.set (f k) k) []) f = true := by
  rw [foldl_set_fresh f l [] h2 (by intro k _; rfl)]
  simp only [List.nil_append, regOK, Bool.and_eq_true, decide_eq_true_eq, List.all_eq_true, beq_iff_eq,
    List.contains_eq_mem, List.map_map]
  refine ⟨⟨⟨⟨h1, h2⟩, ?_⟩, ?_⟩, ?_⟩
  · exact h2
  · intro j hj
    simp only [Dict.get?, Option.map_eq_some_iff]
    refine ⟨(f j, j), ?_, rfl⟩
    rw [List.find?_eq_some_iff_append]
    simp only [decide_eq_true_eq, true_and]
    obtain ⟨s, t, rfl⟩ := List.append_of_mem hj
    refine ⟨s.map (fun k => (f k, k)), t.map (fun k => (f k, k)), by simp, ?_⟩
    intro p hp
    obtain ⟨k, hk, rfl⟩ := List.mem_map.mp hp
    simp only [Bool.not_eq_true', decide_eq_false_iff_not]
    intro e
    have := nodup_map_inj f _ h2 k (by simp [hk]) j (by simp) e
    subst this
    simp only [List.nodup_append, List.nodup_cons] at h1
    exact h1.2.2 _ hk _ List.mem_cons_self rfl
  · intro p hp
    obtain ⟨k, hk, rfl⟩ := List.mem_map.mp hp
    exact ⟨hk, rfl⟩

end rekey
end Proofs.Geo

namespace Proofs.Geo
open Model.Geo Model.Geo.Geo Py

theorem regOK_names_nodup {κ} [DecidableEq κ] {l : List Nat} {d : Dict κ} {nm : Nat → κ} (h : regOK l d nm = true) :
    (l.map nm).Nodup := by
  simp only [regOK, Bool.and_eq_true, decide_eq_true_eq] at h
  exact h.1.1.1.2

/-- the state after renaming column object `i` from `old` to `new` and re-keying the connections (before the
    `setup_*` calls) -/
def renamedColumn (g : Geo) (old new : Name) (i : Nat) : Geo :=
  ({ g.updCol i (fun c => { c with name := new }) with columnD := (g.columnD.del old).set new i } : Geo).rekeyConnections

theorem renamedColumn_geoInv0_layersOK (g : Geo) (old new : Name) (i : Nat)
    (hk : g.columnD.get? old = some i) (hnew : g.columnD.contains new = false ∨ new = old)
    (h0 : g.geoInv0 = true) (hl : g.layersOK = true) :
    (renamedColumn g old new i).geoInv0 = true ∧ (renamedColumn g old new i).layersOK = true := by
  simp only [geoInv0, Bool.and_eq_true] at h0
  obtain ⟨⟨⟨⟨⟨⟨hh, hr⟩, hnc⟩, hcc⟩, hnb⟩, hcn⟩, ho⟩ := h0
  have hr' := hr
  simp only [registriesOK, Bool.and_eq_true] at hr'
  have hil : i ∈ g.columnlist := regOK_mem hr'.1.1.1.2 hk
  have hilt : i < g.C.size := heapOK_cols hh i hil
  have hcc' := (colConsOK_iff g).mp hcc
  have hcol : ∀ j, (renamedColumn g old new i).col j = if i = j then { g.col j with name := new } else g.col j := by
    intro j
    show (g.updCol i _).col j = _
    exact updCol_col g i _ j hilt
  have hnodes : ∀ j, ((renamedColumn g old new i).col j).nodes = (g.col j).nodes := by
    intro j; rw [hcol]; split <;> rfl
  have hcons : ∀ j, ((renamedColumn g old new i).col j).cons = (g.col j).cons := by
    intro j; rw [hcol]; split <;> rfl
  have hnbrs : ∀ j, ((renamedColumn g old new i).col j).nbrs = (g.col j).nbrs := by
    intro j; rw [hcol]; split <;> rfl
  have harea : ∀ j, ((renamedColumn g old new i).col j).area = (g.col j).area := by
    intro j; rw [hcol]; split <;> rfl
  have hsurf : ∀ j, ((renamedColumn g old new i).col j).surface = (g.col j).surface := by
    intro j; rw [hcol]; split <;> rfl
  have hnl : ∀ j, ((renamedColumn g old new i).col j).numLayers = (g.col j).numLayers := by
    intro j; rw [hcol]; split <;> rfl
  have hcon : ∀ k, (renamedColumn g old new i).con k = g.con k := fun _ => rfl
  have hclist : (renamedColumn g old new i).columnlist = g.columnlist := rfl
  have hklist : (renamedColumn g old new i).connlist = g.connlist := rfl
  -- the column registry after the renaming
  have hcreg : regOK g.columnlist ((g.columnD.del old).set new i) (fun j => ((renamedColumn g old new i).col j).name) = true := by
    apply regOK_rename g.columnlist g.columnD (fun j => (g.col j).name) _ old new i hr'.1.1.1.2 hk hnew
    · simp only [hcol, if_true]
    · intro j _ hji; simp only [hcol, if_neg (Ne.symm hji)]
  constructor
  · simp only [geoInv0, Bool.and_eq_true]
    refine ⟨⟨⟨⟨⟨⟨?_, ?_⟩, ?_⟩, ?_⟩, ?_⟩, ?_⟩, ?_⟩
    · have hcols := heapOK_cols hh
      simp only [heapOK, Bool.and_eq_true] at hh ⊢
      refine ⟨⟨⟨⟨hh.1.1.1.1, ?_⟩, hh.1.1.2⟩, hh.1.2⟩, hh.2⟩
      have : (renamedColumn g old new i).C.size = g.C.size := by
        show (g.updCol i _).C.size = _; simp [updCol]
      simp only [List.all_eq_true, decide_eq_true_eq, this]
      exact hcols
    · simp only [registriesOK, Bool.and_eq_true]
      refine ⟨⟨⟨⟨hr'.1.1.1.1, hcreg⟩, hr'.1.1.2⟩, hr'.1.2⟩, ?_⟩
      -- connections re-keyed with the new names: the keys stay distinct
      show regOK g.connlist (g.connlist.foldl (fun d k => d.set ((renamedColumn g old new i).conKey k) k) [])
        (renamedColumn g old new i).conKey = true
      apply regOK_rebuilt _ _ (regOK_nodup hr'.2)
      have hinjc := nodup_map_inj _ _ (regOK_names_nodup hcreg)
      have hinjk := nodup_map_inj _ _ (regOK_names_nodup hr'.2)
      rw [List.nodup_iff_pairwise_ne, List.pairwise_map]
      have hnd := regOK_nodup hr'.2
      rw [List.nodup_iff_pairwise_ne] at hnd
      apply hnd.imp_of_mem
      intro a b ha hb hab e
      apply hab
      simp only [Geo.conKey, hcon, Prod.mk.injEq] at e
      have e0 := hinjc _ (hcc'.1 a ha).1 _ (hcc'.1 b hb).1 e.1
      have e1 := hinjc _ (hcc'.1 a ha).2 _ (hcc'.1 b hb).2 e.2
      apply hinjk a ha b hb
      simp only [Geo.conKey, e0, e1]
    · have : (renamedColumn g old new i).nodeColsOK = g.nodeColsOK := by
        simp only [nodeColsOK, hclist, hnodes]; rfl
      rw [this]; exact hnc
    · have : (renamedColumn g old new i).colConsOK = g.colConsOK := by
        simp only [colConsOK, hclist, hklist, hcons, hcon]
      rw [this]; exact hcc
    · have : (renamedColumn g old new i).nbrsOK = g.nbrsOK := by
        simp only [nbrsOK, joined, hclist, hklist, hnbrs, hcon]
      rw [this]; exact hnb
    · have : (renamedColumn g old new i).conNodesOK = g.conNodesOK := by
        simp only [conNodesOK, hklist, hnodes, hcon]
      rw [this]; exact hcn
    · have : (renamedColumn g old new i).orientOK = g.orientOK := by
        simp only [orientOK, hclist, hnodes, harea]; rfl
      rw [this]; exact ho
  · have : (renamedColumn g old new i).layersOK = g.layersOK := by
      simp only [layersOK, expectedNumLayers, hclist, hsurf, hnl]; rfl
    rw [this]; exact hl

/-- `rename_column(old, new)` to a name no other column has keeps the whole invariant (the connection
    dictionary is re-keyed) -/
theorem renameColumn_geoInv (g g' : Geo) (old new : Name) (hd : g.renameColumn [old] [new] = .ok g')
    (hnew : g.columnD.contains new = false ∨ new = old) (h : g.geoInv = true) : g'.geoInv = true := by
  unfold renameColumn at hd
  obtain ⟨g1, h1, h2⟩ := bind_ok hd
  simp only [List.zip_cons_cons, List.zip_nil_right, List.foldlM_cons, List.foldlM_nil, bind_pure] at h1
  cases hk : g.columnD.get? old with
  | none => rw [hk] at h1; cases h1
  | some i =>
    rw [hk] at h1
    simp only at h1
    split at h1
    · cases h1
    · simp only [pure, Except.pure, Except.ok.injEq] at h1
      simp only [geoInv, Bool.and_eq_true] at h
      have := renamedColumn_geoInv0_layersOK g old new i hk hnew h.1.1 h.1.2
      have e : g1.rekeyConnections = renamedColumn g old new i := by rw [← h1]; rfl
      rw [e] at h2
      simp only [geoInv, Bool.and_eq_true]
      exact ⟨⟨setupNames_geoInv0 _ g' h2 this.1, setupNames_layersOK _ g' h2 this.2⟩, setupNames_fresh _ g' h2⟩

end Proofs.Geo
