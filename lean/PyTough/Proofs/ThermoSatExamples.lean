/-
  Concrete states at which all hypotheses of the saturation-line theorems hold together
  (non-vacuity of `sat_root`, `tsat_root`, `sat_tsat_inverse_partial`, `tsat_sat_inverse_partial`):
  `p = 1 MPa` (where `β = 1`) and `T = 500 K`.  Square roots are enclosed between rationals whose
  squares bracket the radicand (`norm_num` on the exact constants).
-/
import PyTough.Proofs.ThermoSat
namespace Proofs.Iapws
open Gen.Iapws Model.Thermo Proofs.Thermo

/-! ### `p = p* = 1 MPa` (so that `β = 1`) -/

theorem exP_beta : Real.sqrt (Real.sqrt ((pstar4 : ℝ) / pstar4)) = 1 := by
  rw [div_self (ne_of_gt pstar4_pos)]; simp

theorem exP_F : (8364 : ℝ) < tsF 1 1 ∧ tsF 1 1 < 8365 := by
  unfold tsF nr4_0 nr4_3 nr4_6; simp only [tf_lit]; norm_num
theorem exP_G : (-3551655 : ℝ) < tsG 1 1 ∧ tsG 1 1 < -3551654 := by
  unfold tsG nr4_1 nr4_4 nr4_7; simp only [tf_lit]; norm_num
theorem exP_disc : (7314 : ℝ) ^ 2 < tsDisc 1 1 ∧ tsDisc 1 1 < 7315 ^ 2 := by
  unfold tsDisc tsE tsF tsG nr4_0 nr4_1 nr4_2 nr4_3 nr4_4 nr4_5 nr4_6 nr4_7; simp only [tf_lit]; norm_num

theorem exP_sqrt : (7314 : ℝ) < Real.sqrt (tsDisc 1 1) ∧ Real.sqrt (tsDisc 1 1) < 7315 :=
  ⟨Real.lt_sqrt_of_sq_lt exP_disc.1, (Real.sqrt_lt' (by norm_num)).mpr exP_disc.2⟩

theorem exP_den : tsDen 1 1 < 0 := by
  unfold tsDen; have := exP_F.1; have := exP_sqrt.1; linarith

theorem exP_theta : (453 : ℝ) ≤ tsTheta 1 1 ∧ tsTheta 1 1 ≤ 454 := by
  have hd := exP_den
  obtain ⟨hF1, hF2⟩ := exP_F; obtain ⟨hG1, hG2⟩ := exP_G; obtain ⟨hs1, hs2⟩ := exP_sqrt
  unfold tsTheta
  constructor
  · rw [le_div_iff_of_neg hd]; unfold tsDen; linarith
  · rw [div_le_iff_of_neg hd]; unfold tsDen; linarith


theorem exP_hbr : 2 * satA (tsTheta 1 1) * 1 + satB (tsTheta 1 1) ≤ 0 := by
  obtain ⟨h1, h2⟩ := exP_theta
  have hsq : (453 : ℝ) * 453 ≤ tsTheta 1 1 * tsTheta 1 1 := mul_self_le_mul_self (by norm_num) h1
  unfold satA satB nr4_0 nr4_1 nr4_2 nr4_3 nr4_4; simp only [tf_lit]
  norm_num
  nlinarith

theorem exP_hne : satA (tsTheta 1 1) * 1 + satB (tsTheta 1 1) ≠ 0 := by
  obtain ⟨h1, h2⟩ := exP_theta
  have hsq : (453 : ℝ) * 453 ≤ tsTheta 1 1 * tsTheta 1 1 := mul_self_le_mul_self (by norm_num) h1
  apply ne_of_lt
  unfold satA satB nr4_0 nr4_1 nr4_2 nr4_3 nr4_4; simp only [tf_lit]
  norm_num
  nlinarith

theorem nr4_9_bounds : (650 : ℝ) < nr4_9 ∧ (nr4_9 : ℝ) < 651 := by
  unfold nr4_9; rw [tf_lit]; norm_num

theorem exP_T : (452 : ℝ) ≤ tsT (tsTheta 1 1) ∧ tsT (tsTheta 1 1) ≤ 454 := by
  obtain ⟨h1, h2⟩ := exP_theta
  obtain ⟨n1, n2⟩ := nr4_9_bounds
  set ϑ := tsTheta 1 1
  have hn8 := nr4_8_neg
  have hn8' : (-1 : ℝ) < 4 * nr4_8 := by unfold nr4_8; rw [tf_lit]; norm_num
  have e : tsDisc2 ϑ = (nr4_9 - ϑ) ^ 2 + (-4) * nr4_8 := by unfold tsDisc2; ring
  have hw : 0 < nr4_9 - ϑ := by linarith
  have lo : nr4_9 - ϑ ≤ Real.sqrt (tsDisc2 ϑ) := by
    apply Real.le_sqrt_of_sq_le; rw [e]; nlinarith
  have hi : Real.sqrt (tsDisc2 ϑ) ≤ nr4_9 - ϑ + 1 := by
    rw [Real.sqrt_le_left (by linarith), e]; nlinarith
  unfold tsT
  constructor <;> linarith

theorem tc_k_bounds : (273 : ℝ) < tc_k ∧ (tc_k : ℝ) < 274 := by
  unfold tc_k; rw [tf_lit]; norm_num
theorem tcritical_bounds : (373 : ℝ) < tcritical ∧ (tcritical : ℝ) < 374 := by
  unfold tcritical; rw [tf_lit]; norm_num
theorem pmin_le_pstar4 : pmin ≤ (pstar4 : ℝ) ∧ (pstar4 : ℝ) ≤ pcritical := by
  unfold pmin pstar4 pcritical; simp only [tf_lit]; norm_num

/-- at `p = 1 MPa` every hypothesis of `tsat_root` and `tsat_sat_inverse_partial` holds -/
theorem exP_all :
    let p : ℝ := pstar4
    let b := Real.sqrt (Real.sqrt (p / pstar4))
    pmin ≤ p ∧ p ≤ pcritical ∧ 0 ≤ tsDisc (b * b) b ∧ tsDen (b * b) b ≠ 0 ∧
    2 * satA (tsTheta (b * b) b) * b + satB (tsTheta (b * b) b) ≤ 0 ∧
    satA (tsTheta (b * b) b) * b + satB (tsTheta (b * b) b) ≠ 0 ∧
    0 ≤ (tsat p).toK ∧ (tsat p).toK ≤ tcritical := by
  intro p b
  have hb : b = 1 := exP_beta
  obtain ⟨g1, g2⟩ := pmin_le_pstar4
  have hts : (tsat p).toK = tsT (tsTheta 1 1) - tc_k := by
    show (tsat (pstar4 : ℝ)).toK = _
    rw [tsat_eq _ g1 g2, exP_beta]
    have : Real.sqrt ((pstar4 : ℝ) / pstar4) = 1 := by rw [div_self (ne_of_gt pstar4_pos)]; simp
    rw [this]; rfl
  obtain ⟨t1, t2⟩ := exP_T
  obtain ⟨k1, k2⟩ := tc_k_bounds
  obtain ⟨c1, c2⟩ := tcritical_bounds
  rw [hb, hts]
  simp only [mul_one]
  refine ⟨g1, g2, ?_, ne_of_lt exP_den, by simpa using exP_hbr, by simpa using exP_hne, by linarith, by linarith⟩
  have := exP_disc.1; nlinarith

/-! ### `T = 500 K` -/

/-- `ϑ(500 K)` -/
noncomputable def th500 : ℝ := thetaOf 500

theorem exT_B : (-1490613 : ℝ) < satB th500 ∧ satB th500 < -1490612 := by
  unfold satB th500 thetaOf nr4_8 nr4_9 nr4_2 nr4_3 nr4_4; simp only [tf_lit]; norm_num
theorem exT_C : (1722273 : ℝ) < satC th500 ∧ satC th500 < 1722274 := by
  unfold satC th500 thetaOf nr4_8 nr4_9 nr4_5 nr4_6 nr4_7; simp only [tf_lit]; norm_num
theorem exT_disc : (1211954 : ℝ) ^ 2 < satDisc th500 ∧ satDisc th500 < 1211955 ^ 2 := by
  unfold satDisc satA satB satC th500 thetaOf nr4_8 nr4_9 nr4_0 nr4_1 nr4_2 nr4_3 nr4_4 nr4_5 nr4_6 nr4_7
  simp only [tf_lit]; norm_num
theorem exT_sqrt : (1211954 : ℝ) < Real.sqrt (satDisc th500) ∧ Real.sqrt (satDisc th500) < 1211955 :=
  ⟨Real.lt_sqrt_of_sq_lt exT_disc.1, (Real.sqrt_lt' (by norm_num)).mpr exT_disc.2⟩
theorem exT_den : (2702566 : ℝ) < satDen th500 ∧ satDen th500 < 2702568 := by
  obtain ⟨b1, b2⟩ := exT_B; obtain ⟨s1, s2⟩ := exT_sqrt
  unfold satDen; constructor <;> linarith
theorem exT_beta : (12745 : ℝ) ≤ 10000 * satBeta th500 ∧ 10000 * satBeta th500 ≤ 12746 := by
  obtain ⟨d1, d2⟩ := exT_den; obtain ⟨c1, c2⟩ := exT_C
  have hd : 0 < satDen th500 := by linarith
  have e : 10000 * satBeta th500 = 20000 * satC th500 / satDen th500 := by unfold satBeta; ring
  rw [e]
  constructor
  · rw [le_div_iff₀ hd]; nlinarith
  · rw [div_le_iff₀ hd]; nlinarith

theorem exT_theta : (500 : ℝ) < th500 ∧ th500 < 501 := by
  unfold th500 thetaOf nr4_8 nr4_9; simp only [tf_lit]; norm_num


theorem exT_products (x ϑ : ℝ) (b1 : 12745 ≤ 10000 * x) (b2 : 10000 * x ≤ 12746) (t1 : 500 < ϑ) (t2 : ϑ < 501) :
    0 < x ∧ 12745 * 12745 ≤ 100000000 * (x * x) ∧ 100000000 * (x * x) ≤ 12746 * 12746 ∧
    10000 * (x * ϑ) ≤ 12746 * 501 ∧ 12745 * 500 ≤ 10000 * (x * ϑ) ∧
    12745 * 12745 * 500 ≤ 100000000 * (x * x * ϑ) ∧ 100000000 * (x * x * ϑ) ≤ 12746 * 12746 * 501 := by
  have hx : 0 < x := by linarith
  have h1 : 12745 * 12745 ≤ (10000 * x) * (10000 * x) := mul_self_le_mul_self (by norm_num) b1
  have h2 : (10000 * x) * (10000 * x) ≤ 12746 * 12746 := mul_self_le_mul_self (by linarith) b2
  have h3 : (10000 * x) * ϑ ≤ 12746 * 501 := mul_le_mul b2 (le_of_lt t2) (by linarith) (by norm_num)
  have h4 : 12745 * 500 ≤ (10000 * x) * ϑ := mul_le_mul b1 (le_of_lt t1) (by norm_num) (by linarith)
  have h5 : 12745 * 12745 * 500 ≤ ((10000 * x) * (10000 * x)) * ϑ := mul_le_mul h1 (le_of_lt t1) (by norm_num) (by positivity)
  have h6 : ((10000 * x) * (10000 * x)) * ϑ ≤ 12746 * 12746 * 501 := mul_le_mul h2 (le_of_lt t2) (by linarith) (by norm_num)
  refine ⟨hx, by nlinarith, by nlinarith, by nlinarith, by nlinarith, by nlinarith, by nlinarith⟩

theorem exT_hbr : 0 ≤ 2 * tsE (satBeta th500 * satBeta th500) (satBeta th500) * th500
    + tsF (satBeta th500 * satBeta th500) (satBeta th500) := by
  obtain ⟨b1, b2⟩ := exT_beta; obtain ⟨t1, t2⟩ := exT_theta
  obtain ⟨x, hx⟩ : ∃ x, x = satBeta th500 := ⟨_, rfl⟩
  obtain ⟨ϑ, hϑ⟩ : ∃ ϑ, ϑ = th500 := ⟨_, rfl⟩
  rw [← hx] at b1 b2 ⊢; rw [← hϑ] at t1 t2 ⊢
  obtain ⟨p0, p1, p2, p3, p4, p5, p6⟩ := exT_products x ϑ b1 b2 t1 t2
  unfold tsE tsF nr4_0 nr4_2 nr4_3 nr4_5 nr4_6; simp only [tf_lit]
  norm_num
  nlinarith

theorem exT_hne : tsE (satBeta th500 * satBeta th500) (satBeta th500) * th500
    + tsF (satBeta th500 * satBeta th500) (satBeta th500) ≠ 0 := by
  obtain ⟨b1, b2⟩ := exT_beta; obtain ⟨t1, t2⟩ := exT_theta
  obtain ⟨x, hx⟩ : ∃ x, x = satBeta th500 := ⟨_, rfl⟩
  obtain ⟨ϑ, hϑ⟩ : ∃ ϑ, ϑ = th500 := ⟨_, rfl⟩
  rw [← hx] at b1 b2 ⊢; rw [← hϑ] at t1 t2 ⊢
  obtain ⟨p0, p1, p2, p3, p4, p5, p6⟩ := exT_products x ϑ b1 b2 t1 t2
  apply ne_of_gt
  unfold tsE tsF nr4_0 nr4_2 nr4_3 nr4_5 nr4_6; simp only [tf_lit]
  norm_num
  nlinarith

/-- at `T = 500 K` every hypothesis of `sat_root` and `sat_tsat_inverse_partial` holds -/
theorem exT_all :
    let t : ℝ := 500 - tc_k
    0 ≤ t ∧ t ≤ tcritical ∧ 0 ≤ satDisc (thetaOf (t + tc_k)) ∧ satDen (thetaOf (t + tc_k)) ≠ 0 ∧
    0 ≤ satBeta (thetaOf (t + tc_k)) ∧
    0 ≤ 2 * tsE (satBeta (thetaOf (t + tc_k)) * satBeta (thetaOf (t + tc_k))) (satBeta (thetaOf (t + tc_k))) * thetaOf (t + tc_k)
      + tsF (satBeta (thetaOf (t + tc_k)) * satBeta (thetaOf (t + tc_k))) (satBeta (thetaOf (t + tc_k))) ∧
    tsE (satBeta (thetaOf (t + tc_k)) * satBeta (thetaOf (t + tc_k))) (satBeta (thetaOf (t + tc_k))) * thetaOf (t + tc_k)
      + tsF (satBeta (thetaOf (t + tc_k)) * satBeta (thetaOf (t + tc_k))) (satBeta (thetaOf (t + tc_k))) ≠ 0 ∧
    pmin ≤ (sat t).toK ∧ (sat t).toK ≤ pcritical := by
  intro t
  have hk : (273 : ℝ) < tc_k ∧ (tc_k : ℝ) < 274 := by unfold tc_k; rw [tf_lit]; norm_num
  have hc : (373 : ℝ) < tcritical := by unfold tcritical; rw [tf_lit]; norm_num
  have ht0 : 0 ≤ t := by show (0 : ℝ) ≤ 500 - tc_k; linarith [hk.2]
  have ht1 : t ≤ tcritical := by show (500 : ℝ) - tc_k ≤ tcritical; linarith [hk.1]
  have hT : t + tc_k = 500 := by show (500 : ℝ) - tc_k + tc_k = 500; ring
  have hth : thetaOf (t + tc_k) = th500 := by rw [hT]; rfl
  have hsat : (sat t).toK = pstar4 * (satBeta th500 * satBeta th500) * (satBeta th500 * satBeta th500) := by
    rw [sat_eq t ht0 ht1, hth]; rfl
  rw [hth, hsat]
  obtain ⟨b1, b2⟩ := exT_beta; obtain ⟨t1, t2⟩ := exT_theta
  obtain ⟨d1, d2⟩ := exT_den
  refine ⟨ht0, ht1, ?_, ne_of_gt (by linarith), by linarith, exT_hbr, exT_hne, ?_, ?_⟩
  · have := exT_disc.1; nlinarith
  · obtain ⟨p0, p1, p2, _⟩ := exT_products (satBeta th500) th500 b1 b2 t1 t2
    have y1 : (1 : ℝ) ≤ satBeta th500 * satBeta th500 := by nlinarith
    have hy : (1 : ℝ) ≤ (satBeta th500 * satBeta th500) * (satBeta th500 * satBeta th500) := by nlinarith
    unfold pmin pstar4; rw [tf_lit]; norm_num; nlinarith
  · obtain ⟨p0, p1, p2, _⟩ := exT_products (satBeta th500) th500 b1 b2 t1 t2
    have y0 : (0 : ℝ) ≤ satBeta th500 * satBeta th500 := by nlinarith
    have y2 : satBeta th500 * satBeta th500 ≤ 2 := by nlinarith
    have hy : (satBeta th500 * satBeta th500) * (satBeta th500 * satBeta th500) ≤ 2 * 2 := mul_le_mul y2 y2 y0 (by norm_num)
    unfold pcritical pstar4; simp only [tf_lit]; norm_num; nlinarith
end Proofs.Iapws
