/-
  C13, more proofs (2): the text of the file and its lines (`splitLines`, universal newlines).

  A file whose lines are "clean" (each ends with its only `'\n'` and contains no `'\r'`) is split
  back into exactly these lines, and so is the same text with every `'\n'` replaced by `"\r\n"`
  (`crlf`) or by `'\r'` (`crOnly`).
-/
import PyTough.Proofs.InconFixpoint
namespace Proofs.Incon
open Py Model Model.Incon Model.Names Proofs

/-- the text with DOS line ends: every `'\n'` becomes `"\r\n"` -/
def crlf : Str → Str
  | [] => []
  | c :: r => if c = '\n' then '\r' :: '\n' :: crlf r else c :: crlf r

/-- the text with old-Mac line ends: every `'\n'` becomes `'\r'` -/
def crOnly : Str → Str
  | [] => []
  | c :: r => (if c = '\n' then '\r' else c) :: crOnly r

/-- a line as `write` emits it: some text without `'\n'` or `'\r'`, then the newline -/
def CleanLine (l : Str) : Prop := ∃ body, l = body ++ ['\n'] ∧ ∀ c ∈ body, c ≠ '\n' ∧ c ≠ '\r'

theorem norm_nil : splitLines.norm [] = [] := by unfold splitLines.norm; rfl

theorem norm_crlf_cons (r : Str) : splitLines.norm ('\r' :: '\n' :: r) = '\n' :: splitLines.norm r := by
  rw [splitLines.norm]

theorem norm_other {c : Char} (hc : c ≠ '\r') (r : Str) : splitLines.norm (c :: r) = c :: splitLines.norm r := by
  rw [splitLines.norm]
  · intro r' h; exact absurd h hc
  · intro h; exact absurd h hc

theorem norm_cr_cons {r : Str} (hr : ∀ r', r ≠ '\n' :: r') : splitLines.norm ('\r' :: r) = '\n' :: splitLines.norm r := by
  rw [splitLines.norm]
  intro r' h; cases h; exact hr r' rfl

/-- universal-newline translation leaves a text without `'\r'` alone … -/
theorem norm_id : ∀ t : Str, (∀ c ∈ t, c ≠ '\r') → splitLines.norm t = t := by
  intro t
  induction t with
  | nil => intro _; exact norm_nil
  | cons c r ih =>
    intro h
    rw [norm_other (h c (by simp)), ih (fun c' hc' => h c' (List.mem_cons_of_mem _ hc'))]

/-- … and undoes `crlf` … -/
theorem norm_crlf : ∀ t : Str, (∀ c ∈ t, c ≠ '\r') → splitLines.norm (crlf t) = t := by
  intro t
  induction t with
  | nil => intro _; exact norm_nil
  | cons c r ih =>
    intro h
    have ih' := ih (fun c' hc' => h c' (List.mem_cons_of_mem _ hc'))
    unfold crlf
    by_cases hc : c = '\n'
    · rw [if_pos hc, norm_crlf_cons, ih', hc]
    · rw [if_neg hc, norm_other (h c (by simp)), ih']

theorem crOnly_head (t : Str) : ∀ r', crOnly t ≠ '\n' :: r' := by
  intro r' h
  cases t with
  | nil => simp [crOnly] at h
  | cons c r =>
    unfold crOnly at h
    by_cases hc : c = '\n'
    · rw [if_pos hc] at h; cases h
    · rw [if_neg hc] at h; cases h; exact hc rfl

/-- … and `crOnly` -/
theorem norm_crOnly : ∀ t : Str, (∀ c ∈ t, c ≠ '\r') → splitLines.norm (crOnly t) = t := by
  intro t
  induction t with
  | nil => intro _; exact norm_nil
  | cons c r ih =>
    intro h
    have ih' := ih (fun c' hc' => h c' (List.mem_cons_of_mem _ hc'))
    unfold crOnly
    by_cases hc : c = '\n'
    · rw [if_pos hc, norm_cr_cons (crOnly_head r), ih', hc]
    · rw [if_neg hc, norm_other (h c (by simp)), ih']

/-! ### splitting after each newline -/

theorem go_nil_nil : splitLines.go [] [] = [] := by unfold splitLines.go; rfl

theorem go_line : ∀ (body cur rest : Str), (∀ c ∈ body, c ≠ '\n') →
    splitLines.go cur (body ++ '\n' :: rest) = (cur.reverse ++ body ++ ['\n']) :: splitLines.go [] rest := by
  intro body
  induction body with
  | nil =>
    intro cur rest _
    rw [List.nil_append, splitLines.go]
    simp
  | cons c r ih =>
    intro cur rest h
    rw [List.cons_append, splitLines.go, if_neg (h c (by simp)),
      ih (c :: cur) rest (fun c' hc' => h c' (List.mem_cons_of_mem _ hc'))]
    simp

theorem go_lines : ∀ lines : List Str, (∀ l ∈ lines, CleanLine l) → splitLines.go [] lines.flatten = lines := by
  intro lines
  induction lines with
  | nil => intro _; exact go_nil_nil
  | cons l r ih =>
    intro h
    obtain ⟨body, rfl, hb⟩ := h l (by simp)
    rw [List.flatten_cons, List.append_assoc, List.singleton_append,
      go_line body [] _ (fun c hc => (hb c hc).1), ih (fun l' hl' => h l' (List.mem_cons_of_mem _ hl'))]
    simp

theorem flatten_no_cr (lines : List Str) (h : ∀ l ∈ lines, CleanLine l) : ∀ c ∈ lines.flatten, c ≠ '\r' := by
  intro c hc
  obtain ⟨l, hl, hcl⟩ := List.mem_flatten.mp hc
  obtain ⟨body, rfl, hb⟩ := h l hl
  rcases List.mem_append.mp hcl with h' | h'
  · exact (hb c h').2
  · simp at h'; rw [h']; decide

/-- **The text of clean lines splits back into these lines, whatever the line-end convention.** -/
theorem splitLines_clean (lines : List Str) (h : ∀ l ∈ lines, CleanLine l) :
    splitLines lines.flatten = lines ∧ splitLines (crlf lines.flatten) = lines ∧
    splitLines (crOnly lines.flatten) = lines := by
  have hcr := flatten_no_cr lines h
  unfold splitLines
  rw [norm_id _ hcr, norm_crlf _ hcr, norm_crOnly _ hcr, go_lines lines h]
  exact ⟨rfl, rfl, rfl⟩

end Proofs.Incon
