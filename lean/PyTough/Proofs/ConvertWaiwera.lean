/-
  C20 helper lemmas for the Waiwera export model: the name → index dict, the rock-cell loop
  invariant, the source loop, and the EOS picked from the simulator string.
-/
import PyTough.Model.Waiwera
namespace Proofs.Waiwera
open Py Model.Waiwera Gen.ConvertTables
open Model.Convert (Gener Dict PyV)

/-! ### `lastIdx` (a dict built from a list: name ↦ index) -/

theorem lastIdx_none (l : List Str) (k : Str) : lastIdx l k = none ↔ k ∉ l := by
  induction l with
  | nil => simp [lastIdx]
  | cons x r ih =>
    unfold lastIdx
    cases h : lastIdx r k with
    | some j =>
      have : k ∈ r := by
        apply Classical.byContradiction
        intro hn
        rw [ih.mpr hn] at h
        cases h
      simp [this]
    | none =>
      have hr := ih.mp h
      by_cases hx : x = k
      · simp [hx]
      · have : ¬ k = x := fun h' => hx h'.symm
        simp [hx, hr, this]

theorem lastIdx_spec (l : List Str) (k : Str) (j : Nat) (h : lastIdx l k = some j) :
    ∃ hj : j < l.length, l[j] = k := by
  induction l generalizing j with
  | nil => cases h
  | cons x r ih =>
    unfold lastIdx at h
    cases hr : lastIdx r k with
    | some j' =>
      rw [hr] at h
      simp only [Option.some.injEq] at h
      subst h
      obtain ⟨hj, hk⟩ := ih j' hr
      exact ⟨by simp; omega, by simpa using hk⟩
    | none =>
      rw [hr] at h
      simp only at h
      split at h
      · rename_i hx
        simp only [Option.some.injEq] at h
        subst h
        exact ⟨by simp, by simpa using hx⟩
      · cases h

theorem lastIdx_getElem (l : List Str) (hn : l.Nodup) (i : Nat) (hi : i < l.length) :
    lastIdx l l[i] = some i := by
  induction l generalizing i with
  | nil => cases hi
  | cons x r ih =>
    have hn' := List.nodup_cons.mp hn
    cases i with
    | zero =>
      simp only [List.getElem_cons_zero]
      unfold lastIdx
      rw [(lastIdx_none r x).mpr hn'.1]
      simp
    | succ i =>
      simp only [List.getElem_cons_succ]
      unfold lastIdx
      rw [ih hn'.2 i (by simpa using hi)]

/-! ### rock cells -/

theorem findBlock_name (bs : List WBlock) (n : Str) (b : WBlock) (h : findBlock bs n = some b) : b.name = n := by
  unfold findBlock at h
  have := List.find?_some h
  simpa using this

/-- block `n` puts cell `x` into the list of rock type `r` -/
def hits (rn gn : List Str) (nAtm : Nat) (bs : List WBlock) (atmos : Rat) (r : Nat) (x : Int) (n : Str) : Bool :=
  match findBlock bs n with
  | some b => interior atmos b && (lastIdx rn b.rock == some r) &&
      (match lastIdx gn b.name with | some i => ((i : Int) - nAtm == x) | none => false)
  | none => false

theorem count_appendAt (cells : List (List Int)) (r0 r : Nat) (v x : Int) (h0 : r0 < cells.length) :
    ((appendAt cells r0 v).getD r []).count x =
      (cells.getD r []).count x + (if r0 = r ∧ v = x then 1 else 0) := by
  unfold appendAt
  simp only [List.getD_eq_getElem?_getD, List.getElem?_modify]
  by_cases hr : r0 = r
  · subst hr
    have : cells[r0]? = some cells[r0] := List.getElem?_eq_getElem h0
    rw [this]
    simp only [Option.map_eq_map, Option.map_some, if_true, Option.getD_some, List.count_append,
      true_and]
    by_cases hv : v = x
    · simp [hv]
    · simp [hv]
  · simp only [hr, if_false, false_and]
    cases cells[r]? <;> simp

theorem length_appendAt (cells : List (List Int)) (r : Nat) (v : Int) :
    (appendAt cells r v).length = cells.length := by
  simp [appendAt]

theorem loop_count (rn gn : List Str) (nAtm : Nat) (bs : List WBlock) (atmos : Rat)
    (todo : List Str) (cells res : List (List Int)) (hlen : cells.length = rn.length)
    (h : rockCellsLoop rn gn nAtm bs atmos todo cells = .ok res) :
    res.length = rn.length ∧
    ∀ r x, (res.getD r []).count x =
      (cells.getD r []).count x + (todo.filter (hits rn gn nAtm bs atmos r x)).length := by
  induction todo generalizing cells with
  | nil =>
    simp only [rockCellsLoop] at h
    cases h
    exact ⟨hlen, by simp⟩
  | cons n rest ih =>
    unfold rockCellsLoop at h
    cases hb : findBlock bs n with
    | none => rw [hb] at h; cases h
    | some b =>
      rw [hb] at h
      simp only at h
      cases hi : lastIdx gn b.name with
      | none => rw [hi] at h; cases h
      | some i =>
        rw [hi] at h
        simp only at h
        by_cases hint : interior atmos b = true
        · rw [if_pos hint] at h
          cases hr : lastIdx rn b.rock with
          | none => rw [hr] at h; cases h
          | some r0 =>
            rw [hr] at h
            simp only at h
            have hr0 : r0 < cells.length := by
              obtain ⟨hj, _⟩ := lastIdx_spec rn b.rock r0 hr
              omega
            obtain ⟨hl, hc⟩ := ih (appendAt cells r0 ((i : Int) - nAtm)) (by rw [length_appendAt]; exact hlen) h
            refine ⟨hl, ?_⟩
            intro r x
            rw [hc r x, count_appendAt cells r0 r _ x hr0, List.filter_cons]
            have hh : hits rn gn nAtm bs atmos r x n = (decide (r0 = r) && decide ((i : Int) - nAtm = x)) := by
              unfold hits
              rw [hb]
              simp only [hint, hr, hi, Bool.true_and]
              by_cases h1 : r0 = r <;> by_cases h2 : (i : Int) - nAtm = x <;> simp [h1, h2]
            rw [hh]
            by_cases h1 : r0 = r <;> by_cases h2 : (i : Int) - nAtm = x <;> simp [h1, h2] <;> omega
        · rw [if_neg hint] at h
          obtain ⟨hl, hc⟩ := ih cells hlen h
          refine ⟨hl, ?_⟩
          intro r x
          rw [hc r x, List.filter_cons]
          have hh : hits rn gn nAtm bs atmos r x n = false := by
            unfold hits
            rw [hb]
            have : interior atmos b = false := by simpa using hint
            simp [this]
          rw [hh]
          simp

theorem filter_length_unique {α : Type} [DecidableEq α] (l : List α) (p : α → Bool) (a : α) (hn : l.Nodup) (ha : a ∈ l)
    (hu : ∀ y ∈ l, p y = true → y = a) : (l.filter p).length = if p a = true then 1 else 0 := by
  induction l with
  | nil => cases ha
  | cons y r ih =>
    have hn' := List.nodup_cons.mp hn
    rw [List.filter_cons]
    by_cases hy : y = a
    · subst hy
      have hr : r.filter p = [] := by
        apply List.filter_eq_nil_iff.mpr
        intro z hz hp
        have := hu z (List.mem_cons_of_mem _ hz) hp
        subst this
        exact hn'.1 hz
      by_cases hp : p y = true
      · simp [hp, hr]
      · simp [hp, hr]
    · have hpy : ¬ p y = true := fun hp => hy (hu y (List.mem_cons_self ..) hp)
      have har : a ∈ r := by
        rcases List.mem_cons.mp ha with h | h
        · exact absurd h.symm hy
        · exact h
      simp only [hpy, if_false, Bool.false_eq_true]
      exact ih hn'.2 har (fun z hz hp => hu z (List.mem_cons_of_mem _ hz) hp)

/-- The rock cell lists partition the non-boundary blocks: block number `i` of the geometry goes
    into the list of its own rock type exactly once if `0 < volume < atmos_volume`, and into no
    other list; a boundary block is in none. -/
theorem rock_cells_count (rn gn : List Str) (nAtm : Nat) (bs : List WBlock) (atmos : Rat)
    (cells : List (List Int)) (h : rockCells rn gn nAtm bs atmos = .ok cells) (hn : gn.Nodup)
    (i : Nat) (hi : i < gn.length) (b : WBlock) (hb : findBlock bs gn[i] = some b) (r : Nat) :
    cells.length = rn.length ∧
    (cells.getD r []).count ((i : Int) - nAtm) =
      if interior atmos b = true ∧ lastIdx rn b.rock = some r then 1 else 0 := by
  unfold rockCells at h
  obtain ⟨hl, hc⟩ := loop_count rn gn nAtm bs atmos gn _ cells (by simp) h
  refine ⟨hl, ?_⟩
  rw [hc r]
  have h0 : ((rn.map fun _ => ([] : List Int)).getD r []).count ((i : Int) - nAtm) = 0 := by
    simp only [List.getD_eq_getElem?_getD, List.getElem?_map]
    cases rn[r]? <;> simp
  rw [h0, Nat.zero_add]
  have hbn : b.name = gn[i] := findBlock_name bs _ b hb
  rw [filter_length_unique gn _ gn[i] hn (List.getElem_mem hi)]
  · unfold hits
    rw [hb]
    simp only [hbn, lastIdx_getElem gn hn i hi]
    by_cases h1 : interior atmos b = true <;> by_cases h2 : lastIdx rn b.rock = some r <;> simp [h1, h2]
  · intro y hy hp
    unfold hits at hp
    cases hby : findBlock bs y with
    | none => rw [hby] at hp; cases hp
    | some b' =>
      rw [hby] at hp
      simp only at hp
      have hyn : b'.name = y := findBlock_name bs _ b' hby
      cases hiy : lastIdx gn b'.name with
      | none => rw [hiy] at hp; simp at hp
      | some j =>
        rw [hiy] at hp
        simp only [Bool.and_eq_true, beq_iff_eq] at hp
        have hj : (j : Int) - nAtm = (i : Int) - nAtm := hp.2
        have : j = i := by omega
        subst this
        obtain ⟨_, hk⟩ := lastIdx_spec gn b'.name j hiy
        rw [← hyn, ← hk]

/-! ### sources -/

theorem sourcesLoop_cells (gn : List Str) (nAtm : Nat) (ubn : Bool) (gens : List Gener)
    (used : List (Str × Nat)) (acc res : List Source)
    (h : sourcesLoop gn nAtm ubn gens used acc = .ok res) :
    res.map (·.cell) = acc.map (·.cell) ++
      (gens.filter (fun g => g.type != groupType)).map (fun g => cellOf gn nAtm g.block) := by
  induction gens generalizing used acc with
  | nil =>
    simp only [sourcesLoop] at h
    cases h
    simp
  | cons g rest ih =>
    unfold sourcesLoop at h
    split at h
    · cases h
    · generalize uniqueName ubn used g = p at h
      obtain ⟨nm, used'⟩ := p
      simp only at h
      have := ih _ _ h
      rw [this, List.filter_cons]
      by_cases hg : (g.type != groupType) = true
      · simp [hg]
      · simp [hg]

theorem sourcesLoop_supported (gn : List Str) (nAtm : Nat) (ubn : Bool) (gens : List Gener)
    (used : List (Str × Nat)) (acc res : List Source)
    (h : sourcesLoop gn nAtm ubn gens used acc = .ok res) :
    ∀ g ∈ gens, unsupportedGenTypes.contains g.type = false := by
  induction gens generalizing used acc with
  | nil => intro g hg; cases hg
  | cons g rest ih =>
    unfold sourcesLoop at h
    split at h
    · cases h
    · rename_i hu
      generalize uniqueName ubn used g = p at h
      obtain ⟨nm, used'⟩ := p
      simp only at h
      intro g' hg'
      rcases List.mem_cons.mp hg' with rfl | hm
      · simpa using hu
      · exact ih _ _ h g' hm

/-! ### which EOS is picked from the simulator string -/

def step (sim : Str) (acc : Str) (e : Str × Str) : Str := if e.1.isSuffixOf sim then e.1 else acc

/-- in the table, a later key is never a proper suffix of an earlier one -/
def LaterLonger (a b : Str × Str) : Prop := b.1.isSuffixOf a.1 = true → a.1.isSuffixOf b.1 = true

instance : DecidableRel LaterLonger := fun a b => by unfold LaterLonger; exact inferInstance

theorem acc_suffix_foldl (sim : Str) (r : List (Str × Str)) (acc : Str) (hp : r.Pairwise LaterLonger)
    (ha : ∀ b ∈ r, b.1 <:+ sim → acc <:+ b.1) : acc <:+ r.foldl (step sim) acc := by
  induction r generalizing acc with
  | nil => exact List.suffix_refl _
  | cons b r' ih =>
    have hp' := List.pairwise_cons.mp hp
    simp only [List.foldl_cons]
    unfold step
    by_cases hb : b.1.isSuffixOf sim = true
    · rw [if_pos hb]
      have hb' : b.1 <:+ sim := List.isSuffixOf_iff_suffix.mp hb
      have h1 : acc <:+ b.1 := ha b (List.mem_cons_self ..) hb'
      have h2 : b.1 <:+ r'.foldl (step sim) b.1 := by
        apply ih _ hp'.2
        intro c hc hcs
        rcases List.suffix_or_suffix_of_suffix hb' hcs with h | h
        · exact h
        · exact List.isSuffixOf_iff_suffix.mp (hp'.1 c hc (List.isSuffixOf_iff_suffix.mpr h))
      exact List.IsSuffix.trans h1 h2
    · rw [if_neg hb]
      exact ih _ hp'.2 (fun c hc hcs => ha c (List.mem_cons_of_mem _ hc) hcs)

theorem key_suffix_foldl (sim : Str) (l : List (Str × Str)) (acc : Str) (hp : l.Pairwise LaterLonger)
    (k : Str × Str) (hk : k ∈ l) (hs : k.1 <:+ sim) : k.1 <:+ l.foldl (step sim) acc := by
  induction l generalizing acc with
  | nil => cases hk
  | cons e r ih =>
    have hp' := List.pairwise_cons.mp hp
    simp only [List.foldl_cons]
    rcases List.mem_cons.mp hk with rfl | hm
    · have : step sim acc k = k.1 := by
        unfold step
        rw [if_pos (List.isSuffixOf_iff_suffix.mpr hs)]
      rw [this]
      apply acc_suffix_foldl sim r k.1 hp'.2
      intro c hc hcs
      rcases List.suffix_or_suffix_of_suffix hs hcs with h | h
      · exact h
      · exact List.isSuffixOf_iff_suffix.mp (hp'.1 c hc (List.isSuffixOf_iff_suffix.mpr h))
    · exact ih _ hp'.2 hm

theorem foldl_is_key_or_acc (sim : Str) (l : List (Str × Str)) (acc : Str) :
    l.foldl (step sim) acc = acc ∨ ∃ e ∈ l, l.foldl (step sim) acc = e.1 ∧ e.1 <:+ sim := by
  induction l generalizing acc with
  | nil => exact Or.inl rfl
  | cons e r ih =>
    simp only [List.foldl_cons]
    rcases ih (step sim acc e) with h | ⟨e', he', h1, h2⟩
    · rw [h]
      unfold step
      by_cases hb : e.1.isSuffixOf sim = true
      · rw [if_pos hb]
        exact Or.inr ⟨e, List.mem_cons_self .., rfl, List.isSuffixOf_iff_suffix.mp hb⟩
      · rw [if_neg hb]; exact Or.inl rfl
    · exact Or.inr ⟨e', List.mem_cons_of_mem _ he', h1, h2⟩

theorem supportedEos_laterLonger : supportedEos.Pairwise LaterLonger := by decide

/-! ### boundary faces -/

/-- the cell a connection of boundary block `b` contributes: the index of its other end, if that is a
    non-boundary block -/
def nbCell (geoNames : List Str) (nAtm : Nat) (blocks : List WBlock) (atmos : Rat) (b : Str) (c : Str × Str) : Option Int :=
  match findBlock blocks (otherEnd c b) with
  | some w => if interior atmos w then (lastIdx geoNames (otherEnd c b)).map (fun i => (i : Int) - nAtm) else none
  | none => none

/-- the cells of the interior neighbours of block `b`, one per connection -/
def nbCells (geoNames : List Str) (nAtm : Nat) (blocks : List WBlock) (atmos : Rat) (conns : List (Str × Str)) (b : Str) : List Int :=
  (connsOf conns b).filterMap (nbCell geoNames nAtm blocks atmos b)

theorem faceCellsLoop_eq (geoNames : List Str) (nAtm : Nat) (blocks : List WBlock) (atmos : Rat) (b : Str)
    (cs : List (Str × Str)) (out : List Int) (h : faceCellsLoop geoNames nAtm blocks atmos b cs = .ok out) :
    out = cs.filterMap (nbCell geoNames nAtm blocks atmos b) := by
  induction cs generalizing out with
  | nil => simp only [faceCellsLoop] at h; cases h; rfl
  | cons c rest ih =>
    unfold faceCellsLoop at h
    rw [List.filterMap_cons]
    cases hw : findBlock blocks (otherEnd c b) with
    | none => rw [hw] at h; cases h
    | some w =>
      rw [hw] at h
      simp only at h
      by_cases hi : interior atmos w = true
      · rw [if_pos hi] at h
        cases hl : lastIdx geoNames (otherEnd c b) with
        | none => rw [hl] at h; cases h
        | some i =>
          rw [hl] at h
          simp only at h
          have hc : nbCell geoNames nAtm blocks atmos b c = some ((i : Int) - nAtm) := by
            unfold nbCell; simp [hw, hi, hl]
          cases hr : faceCellsLoop geoNames nAtm blocks atmos b rest with
          | error e => rw [hr] at h; cases h
          | ok cs' =>
            rw [hr] at h
            cases h
            rw [hc, ih cs' hr]
      · rw [if_neg hi] at h
        have hc : nbCell geoNames nAtm blocks atmos b c = none := by
          unfold nbCell; simp [hw, hi]
        rw [hc]
        exact ih out h

/-- the entry of one boundary block: none when it has no interior neighbour -/
def bdyEntry (geoNames : List Str) (nAtm : Nat) (blocks : List WBlock) (atmos : Rat) (conns : List (Str × Str)) (b : WBlock) :
    Option (Str × List Int) :=
  if interior atmos b then none
  else if (nbCells geoNames nAtm blocks atmos conns b.name).isEmpty then none
  else some (b.name, nbCells geoNames nAtm blocks atmos conns b.name)

theorem bdyEntry_interior (geoNames : List Str) (nAtm : Nat) (blocks : List WBlock) (atmos : Rat) (conns : List (Str × Str))
    (b : WBlock) (h : interior atmos b = true) : bdyEntry geoNames nAtm blocks atmos conns b = none := by
  simp [bdyEntry, h]

theorem bdyEntry_boundary (geoNames : List Str) (nAtm : Nat) (blocks : List WBlock) (atmos : Rat) (conns : List (Str × Str))
    (b : WBlock) (h : ¬ interior atmos b = true) :
    bdyEntry geoNames nAtm blocks atmos conns b =
      if (nbCells geoNames nAtm blocks atmos conns b.name).isEmpty then none
      else some (b.name, nbCells geoNames nAtm blocks atmos conns b.name) := by
  simp [bdyEntry, h]

theorem boundaryFacesLoop_eq (geoNames : List Str) (nAtm : Nat) (blocks : List WBlock) (atmos : Rat) (conns : List (Str × Str))
    (todo : List WBlock) (out : List (Str × List Int))
    (h : boundaryFacesLoop geoNames nAtm blocks atmos conns todo = .ok out) :
    out = todo.filterMap (bdyEntry geoNames nAtm blocks atmos conns) := by
  induction todo generalizing out with
  | nil => simp only [boundaryFacesLoop] at h; cases h; rfl
  | cons b rest ih =>
    unfold boundaryFacesLoop at h
    rw [List.filterMap_cons]
    by_cases hi : interior atmos b = true
    · rw [if_pos hi] at h
      rw [bdyEntry_interior _ _ _ _ _ _ hi]
      exact ih out h
    · rw [if_neg hi] at h
      rw [bdyEntry_boundary _ _ _ _ _ _ hi]
      cases hf : faceCellsLoop geoNames nAtm blocks atmos b.name (connsOf conns b.name) with
      | error e => rw [hf] at h; cases h
      | ok cs =>
        rw [hf] at h
        simp only at h
        have hcs : cs = nbCells geoNames nAtm blocks atmos conns b.name := faceCellsLoop_eq _ _ _ _ _ _ _ hf
        cases hr : boundaryFacesLoop geoNames nAtm blocks atmos conns rest with
        | error e => rw [hr] at h; cases h
        | ok r =>
          rw [hr] at h
          cases h
          have hr' := ih r hr
          rw [← hcs]
          by_cases he : cs.isEmpty = true
          · simp only [he, if_true]; exact hr'
          · simp only [he, Bool.false_eq_true, if_false]; rw [hr']

theorem mem_nbCells (geoNames : List Str) (nAtm : Nat) (blocks : List WBlock) (atmos : Rat) (conns : List (Str × Str))
    (b : Str) (x : Int) :
    x ∈ nbCells geoNames nAtm blocks atmos conns b ↔
      ∃ c ∈ conns, (c.1 = b ∨ c.2 = b) ∧ ∃ w i, findBlock blocks (otherEnd c b) = some w ∧ interior atmos w = true ∧
        lastIdx geoNames (otherEnd c b) = some i ∧ x = (i : Int) - nAtm := by
  unfold nbCells connsOf
  rw [List.mem_filterMap]
  constructor
  · rintro ⟨c, hc, hx⟩
    obtain ⟨hc1, hc2⟩ := List.mem_filter.mp hc
    refine ⟨c, hc1, by simpa using hc2, ?_⟩
    unfold nbCell at hx
    cases hw : findBlock blocks (otherEnd c b) with
    | none => rw [hw] at hx; cases hx
    | some w =>
      rw [hw] at hx
      by_cases hi : interior atmos w = true
      · simp only [hi, if_true] at hx
        cases hl : lastIdx geoNames (otherEnd c b) with
        | none => rw [hl] at hx; cases hx
        | some i =>
          rw [hl] at hx
          have hx' : (i : Int) - nAtm = x := by simpa using hx
          exact ⟨w, i, rfl, hi, rfl, hx'.symm⟩
      · simp [hi] at hx
  · rintro ⟨c, hc, hcb, w, i, hw, hi, hl, hx⟩
    refine ⟨c, List.mem_filter.mpr ⟨hc, by simpa using hcb⟩, ?_⟩
    unfold nbCell
    rw [hw]
    simp [hi, hl, hx]

end Proofs.Waiwera
