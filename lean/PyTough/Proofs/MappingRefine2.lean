/-
  C19: heap model of transfer_from = functional model (through `viewD`).
-/
import PyTough.Proofs.MappingRefine
namespace Proofs.Mapping
open Py Model.Mapping

/-- the setting: `h` holds the source's objects, `hb` is `h` plus `default_atm_incons` -/
structure HeapSetting (h : Heap) (src : InconH) : Prop where
  valid : ∀ p ∈ src, p.2 < h.length

def baseHeap (h : Heap) : Heap := h ++ [⟨[], defaultAtm⟩]

theorem base_get (h : Heap) (id : Nat) (hid : id < h.length) :
    ∃ o, (baseHeap h)[id]? = some o ∧ h[id]? = some o ∧ o.val = valAt h id := by
  have : h[id]? = some h[id] := List.getElem?_eq_getElem hid
  refine ⟨h[id], ?_, this, ?_⟩
  · unfold baseHeap; rw [List.getElem?_append_left hid, this]
  · unfold valAt; rw [this]

theorem base_dflt (h : Heap) : (baseHeap h)[h.length]? = some ⟨[], defaultAtm⟩ := by
  unfold baseHeap; simp

theorem dget_mem {β : Type} (d : Dict β) (k : Str) (v : β) (hd : dget d k = .ok v) : (k, v) ∈ d := by
  unfold dget at hd
  split at hd
  · rename_i p hp
    cases hd
    have := List.mem_of_find?_eq_some hp
    have hk := List.find?_some hp
    simp only [beq_iff_eq] at hk
    rw [← hk]; exact this
  · cases hd

theorem src_lookup (h : Heap) (src : InconH) (hs : HeapSetting h src) (k : Str) :
    match dget src k with
    | .ok id => id < h.length ∧ dget (viewD h src) k = .ok (valAt h id)
    | .error e => dget (viewD h src) k = .error e := by
  rw [dget_viewD]
  cases hd : dget src k with
  | ok id => exact ⟨hs.valid _ (dget_mem src k id hd), rfl⟩
  | error e => rfl

theorem first_lookup (h : Heap) (src : InconH) (hs : HeapSetting h src) :
    match firstId src with
    | .ok id => id < h.length ∧ firstInc (viewD h src) = .ok (valAt h id)
    | .error e => firstInc (viewD h src) = .error e := by
  cases src with
  | nil => rfl
  | cons p ps => exact ⟨hs.valid p (by simp), rfl⟩

/-- copying source object `id` files its state -/
theorem copy_src (h : Heap) (st : Heap × InconH) (key : Str) (id : Nat) (hid : id < h.length)
    (hinv : Inv (h.length + 1) (baseHeap h) st) :
    ∃ st', assignCopy st key id = .ok st' ∧ Inv (h.length + 1) (baseHeap h) st' ∧
      viewD st'.1 st'.2 = dset (viewD st.1 st.2) key (valAt h id) := by
  obtain ⟨o, ho, _, hv⟩ := base_get h id hid
  rw [← hv]
  exact assignCopy_view _ _ st key id o hinv (by omega) ho

theorem stepUnder_refines (h : Heap) (src : InconH) (hs : HeapSetting h src) (m : Dict Str)
    (st : Heap × InconH) (blk : Str) (hinv : Inv (h.length + 1) (baseHeap h) st) :
    match incUnder (viewD h src) m blk with
    | .ok p => ∃ st', stepUnder src m st blk = .ok st' ∧ Inv (h.length + 1) (baseHeap h) st' ∧
        viewD st'.1 st'.2 = dset (viewD st.1 st.2) p.1 p.2
    | .error e => stepUnder src m st blk = .error e := by
  unfold incUnder stepUnder
  cases hm : dget m blk with
  | error e => rfl
  | ok sb =>
    simp only
    have := src_lookup h src hs sb
    cases hd : dget src sb with
    | error e => rw [hd] at this; simp only [this]
    | ok id =>
      rw [hd] at this
      simp only [this.2]
      exact copy_src h st blk id this.1 hinv

theorem stepBroadcast_refines (h : Heap) (src : InconH) (hs : HeapSetting h src) (geo : Geo)
    (st : Heap × InconH) (c : Col) (hinv : Inv (h.length + 1) (baseHeap h) st) :
    match atmBroadcast geo (viewD h src) c with
    | .ok p => ∃ st', stepBroadcast geo src st c = .ok st' ∧ Inv (h.length + 1) (baseHeap h) st' ∧
        viewD st'.1 st'.2 = dset (viewD st.1 st.2) p.1 p.2
    | .error e => stepBroadcast geo src st c = .error e := by
  unfold atmBroadcast stepBroadcast
  cases geo.lay0 with
  | error e => rfl
  | ok g0 =>
    simp only
    cases blockName geo.conv g0.name c.name with
    | error e => rfl
    | ok blk =>
      simp only
      have := first_lookup h src hs
      cases hd : firstId src with
      | error e => rw [hd] at this; simp only [this]
      | ok id =>
        rw [hd] at this
        simp only [this.2]
        exact copy_src h st blk id this.1 hinv

theorem stepPerColumn_refines (h : Heap) (src : InconH) (hs : HeapSetting h src) (sgeo geo : Geo) (cm : Dict Str)
    (st : Heap × InconH) (c : Col) (hinv : Inv (h.length + 1) (baseHeap h) st) :
    match atmPerColumn sgeo geo (viewD h src) cm c with
    | .ok p => ∃ st', stepPerColumn sgeo geo src cm st c = .ok st' ∧ Inv (h.length + 1) (baseHeap h) st' ∧
        viewD st'.1 st'.2 = dset (viewD st.1 st.2) p.1 p.2
    | .error e => stepPerColumn sgeo geo src cm st c = .error e := by
  unfold atmPerColumn stepPerColumn
  cases dget cm c.name with
  | error e => rfl
  | ok mc =>
    simp only
    cases sgeo.lay0 with
    | error e => rfl
    | ok s0 =>
      simp only
      cases blockName sgeo.conv s0.name mc with
      | error e => rfl
      | ok old =>
        simp only
        cases geo.lay0 with
        | error e => rfl
        | ok g0 =>
          simp only
          cases blockName geo.conv g0.name c.name with
          | error e => rfl
          | ok blk =>
            simp only
            have := src_lookup h src hs old
            cases hd : dget src old with
            | error e => rw [hd] at this; simp only [this]
            | ok id =>
              rw [hd] at this
              simp only [this.2]
              exact copy_src h st blk id this.1 hinv

theorem stepDefault_refines (h : Heap) (geo : Geo)
    (st : Heap × InconH) (c : Col) (hinv : Inv (h.length + 1) (baseHeap h) st) :
    match atmDefaultCol geo c with
    | .ok p => ∃ st', stepDefault geo h.length st c = .ok st' ∧ Inv (h.length + 1) (baseHeap h) st' ∧
        viewD st'.1 st'.2 = dset (viewD st.1 st.2) p.1 p.2
    | .error e => stepDefault geo h.length st c = .error e := by
  unfold atmDefaultCol stepDefault
  cases geo.lay0 with
  | error e => rfl
  | ok g0 =>
    simp only
    cases blockName geo.conv g0.name c.name with
    | error e => rfl
    | ok blk =>
      simp only
      exact assignCopy_view _ _ st blk h.length ⟨[], defaultAtm⟩ hinv (by omega) (base_dflt h)

/-- the averaging loop reads the same numbers -/
theorem avgStepH_eq (h : Heap) (src : InconH) (hs : HeapSetting h src) (sgeo : Geo) (hp : Heap)
    (hagree : ∀ i, i < h.length + 1 → hp[i]? = (baseHeap h)[i]?) (acc : List Rat) (c : Col) :
    avgStepH hp sgeo src acc c = avgStep sgeo (viewD h src) acc c := by
  unfold avgStepH avgStep atmColVars varsOf
  cases sgeo.lay0 with
  | error e => rfl
  | ok s0 =>
    simp only
    cases blockName sgeo.conv s0.name c.name with
    | error e => rfl
    | ok blk =>
      simp only
      have := src_lookup h src hs blk
      cases hd : dget src blk with
      | error e => rw [hd] at this; simp only [this]
      | ok id =>
        rw [hd] at this
        obtain ⟨o, ho, _, hv⟩ := base_get h id this.1
        simp only [this.2, hagree id (by omega), ho, hv]

theorem foldE_congr {α β : Type} (f g : β → α → Except Exc β) (hfg : ∀ b a, f b a = g b a) (b : β) (l : List α) :
    foldE f b l = foldE g b l := by
  induction l generalizing b with
  | nil => rfl
  | cons a as ih =>
    unfold foldE
    rw [hfg]
    cases g b a with
    | error e => rfl
    | ok b' => exact ih b'

theorem dictOf_eq_foldl {β : Type} (ps : List (Str × β)) : dictOf ps = ps.foldl (fun d p => dset d p.1 p.2) [] := rfl

theorem inv_base (h : Heap) : Inv (h.length + 1) (baseHeap h) (baseHeap h, []) := by
  refine ⟨by simp [baseHeap], fun _ _ => rfl, ?_⟩
  intro p hp; cases hp

/-- the atmosphere part -/
theorem transferAtmH_refines (h : Heap) (src : InconH) (hs : HeapSetting h src) (sgeo geo : Geo) (cm : Dict Str) :
    match transferAtm (viewD h src) sgeo geo cm with
    | .ok atmPart => ∃ st', transferAtmH src sgeo geo cm h.length (baseHeap h, []) = .ok st' ∧
        Inv (h.length + 1) (baseHeap h) st' ∧ viewD st'.1 st'.2 = atmPart
    | .error e => transferAtmH src sgeo geo cm h.length (baseHeap h, []) = .error e := by
  have hinv := inv_base h
  unfold transferAtm transferAtmH
  by_cases h0 : geo.atm = 0
  · simp only [if_pos h0]
    cases geo.lay0 with
    | error e => rfl
    | ok g0 =>
      simp only
      cases blockName geo.conv g0.name (atmColName geo.conv) with
      | error e => rfl
      | ok atmblk =>
        simp only
        by_cases hs0 : sgeo.atm = 0
        · simp only [if_pos hs0]
          have := first_lookup h src hs
          cases hd : firstId src with
          | error e => rw [hd] at this; simp only [this]
          | ok id =>
            rw [hd] at this
            simp only [this.2]
            obtain ⟨st', e1, e2, e3⟩ := copy_src h (baseHeap h, []) atmblk id this.1 hinv
            exact ⟨st', e1, e2, by rw [e3]; rfl⟩
        · simp only [if_neg hs0]
          by_cases hs1 : sgeo.atm = 1
          · simp only [if_pos hs1]
            unfold atmAverage
            have := first_lookup h src hs
            cases hd : firstId src with
            | error e => rw [hd] at this; simp only [this]
            | ok id =>
              rw [hd] at this
              obtain ⟨o, ho, _, hv⟩ := base_get h id this.1
              simp only [this.2, ho, hv]
              rw [foldE_congr _ _ (avgStepH_eq h src hs sgeo (baseHeap h) (fun _ _ => rfl))]
              cases foldE (avgStep sgeo (viewD h src)) (List.replicate (valAt h id).vars.length 0) sgeo.cols with
              | error e => rfl
              | ok total =>
                simp only
                by_cases hemp : sgeo.cols.isEmpty = true
                · simp only [hemp, if_true]
                · simp only [hemp, Bool.false_eq_true, if_false]
                  obtain ⟨e2, e3⟩ := assignNew_view _ _ (baseHeap h, []) atmblk
                    ⟨total.map (· / (sgeo.cols.length : Rat)), none, none⟩ hinv
                  exact ⟨_, rfl, e2, by rw [e3]; rfl⟩
          · simp only [if_neg hs1]
            obtain ⟨st', e1, e2, e3⟩ := assignCopy_view _ _ (baseHeap h, []) atmblk h.length ⟨[], defaultAtm⟩ hinv (by omega) (base_dflt h)
            exact ⟨st', e1, e2, by rw [e3]; rfl⟩
  · simp only [if_neg h0]
    by_cases h1 : geo.atm = 1
    · simp only [if_pos h1]
      by_cases hs0 : sgeo.atm = 0
      · simp only [if_pos hs0]
        have := foldE_refines _ _ (stepBroadcast geo src) (atmBroadcast geo (viewD h src))
          (fun st a hi => stepBroadcast_refines h src hs geo st a hi) geo.cols _ hinv
        cases hm : mapE (atmBroadcast geo (viewD h src)) geo.cols with
        | error e => rw [hm] at this; simpa using this
        | ok ps =>
          rw [hm] at this
          obtain ⟨st', e1, e2, e3⟩ := this
          exact ⟨st', e1, e2, by rw [e3]; rfl⟩
      · simp only [if_neg hs0]
        by_cases hs1 : sgeo.atm = 1
        · simp only [if_pos hs1]
          have := foldE_refines _ _ (stepPerColumn sgeo geo src cm) (atmPerColumn sgeo geo (viewD h src) cm)
            (fun st a hi => stepPerColumn_refines h src hs sgeo geo cm st a hi) geo.cols _ hinv
          cases hm : mapE (atmPerColumn sgeo geo (viewD h src) cm) geo.cols with
          | error e => rw [hm] at this; simpa using this
          | ok ps =>
            rw [hm] at this
            obtain ⟨st', e1, e2, e3⟩ := this
            exact ⟨st', e1, e2, by rw [e3]; rfl⟩
        · simp only [if_neg hs1]
          have := foldE_refines _ _ (stepDefault geo h.length) (atmDefaultCol geo)
            (fun st a hi => stepDefault_refines h geo st a hi) geo.cols _ hinv
          cases hm : mapE (atmDefaultCol geo) geo.cols with
          | error e => rw [hm] at this; simpa using this
          | ok ps =>
            rw [hm] at this
            obtain ⟨st', e1, e2, e3⟩ := this
            exact ⟨st', e1, e2, by rw [e3]; rfl⟩
    · simp only [if_neg h1]
      exact ⟨_, rfl, hinv, rfl⟩

/-- The heap model files exactly the states computed by the functional model, and fails
    exactly when it fails (with the same exception). -/
theorem transferFromH_refines (q : List (Rat × Rat) → Rat × Rat → Nat) (h : Heap) (src : InconH)
    (hvalid : ∀ p ∈ src, p.2 < h.length) (s t : Geo) (mp cmp : Dict Str) :
    match transferFrom q (viewD h src) s t mp cmp with
    | .ok res => ∃ h' self', transferFromH q h src s t mp cmp = .ok (h', self') ∧ viewD h' self' = res
    | .error e => transferFromH q h src s t mp cmp = .error e := by
  have hs : HeapSetting h src := ⟨hvalid⟩
  unfold transferFrom transferFromH
  cases effectiveMaps q s t mp cmp with
  | error e => rfl
  | ok maps =>
    obtain ⟨m, cm⟩ := maps
    simp only [Heap.alloc]
    have hatm := transferAtmH_refines h src hs s t cm
    cases ha : transferAtm (viewD h src) s t cm with
    | error e =>
      rw [ha] at hatm
      simp only [baseHeap] at hatm
      simp only [hatm]
    | ok atmPart =>
      rw [ha] at hatm
      obtain ⟨st, e1, e2, e3⟩ := hatm
      simp only [baseHeap] at e1
      simp only [e1]
      cases t.blockNameList with
      | error e => rfl
      | ok names =>
        simp only
        cases t.numAtmBlocks with
        | error e => rfl
        | ok na =>
          simp only
          have := foldE_refines _ _ (stepUnder src m) (incUnder (viewD h src) m)
            (fun st a hi => stepUnder_refines h src hs m st a hi) (names.drop na) st e2
          cases hm : mapE (incUnder (viewD h src) m) (names.drop na) with
          | error e => rw [hm] at this; simpa using this
          | ok ps =>
            rw [hm] at this
            obtain ⟨st', f1, _, f3⟩ := this
            exact ⟨st'.1, st'.2, f1, by rw [f3, e3]⟩

end Proofs.Mapping
