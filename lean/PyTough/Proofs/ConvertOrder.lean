/-
  C20 helper lemmas, third part: `insert_section` / `delete_section` / `update_sections` keep the section
  list in the standard order of `t2data_sections` (so the file `write` produces can be read back by `read`,
  which needs ROCKS before ELEME before CONNE before GENER/SHORT/FOFT...).
-/
import PyTough.Proofs.ConvertSpec
namespace Proofs.Convert
open Py Model.Convert Gen.ConvertTables

/-! ### the section list stays in the standard order -/

/-- position of a keyword in `t2data_sections` -/
def rank (k : Str) : Nat := sections.idxOf k

/-- `secs` lists keywords of `t2data_sections` in their standard relative order (hence none twice) -/
def Ordered (secs : List Str) : Prop := secs.Pairwise (fun a b => rank a < rank b) ∧ ∀ k ∈ secs, k ∈ sections

theorem idxOf_getElem_nodup (l : List Str) (hn : l.Nodup) (i : Nat) (hi : i < l.length) : l.idxOf l[i] = i := by
  induction l generalizing i with
  | nil => cases hi
  | cons x r ih =>
    have hn' := List.nodup_cons.mp hn
    cases i with
    | zero => simp
    | succ i =>
      have hir : i < r.length := by simpa using hi
      simp only [List.getElem_cons_succ]
      have hne : ¬ x = r[i] := fun h => hn'.1 (h ▸ List.getElem_mem hir)
      rw [List.idxOf_cons]
      have : (x == r[i]) = false := by simpa using hne
      simp only [this, cond_false]
      rw [ih hn'.2 i hir]

theorem rank_getElem (i : Nat) (hi : i < sections.length) : rank sections[i] = i :=
  idxOf_getElem_nodup sections sections_nodup i hi

theorem rank_lt (k : Str) (hk : k ∈ sections) : rank k < sections.length := List.idxOf_lt_length_iff.mpr hk

theorem getElem_rank (k : Str) (hk : k ∈ sections) : sections[rank k]'(rank_lt k hk) = k :=
  List.getElem_idxOf (rank_lt k hk)

theorem rank_inj (a b : Str) (ha : a ∈ sections) (hb : b ∈ sections) (h : rank a = rank b) : a = b := by
  rw [← getElem_rank a ha, ← getElem_rank b hb]
  simp [h]

theorem findSome_getElem {β : Type} (f : Str → Option β) (m : List Str) (j : β) (h : m.findSome? f = some j) :
    ∃ i, ∃ hi : i < m.length, f m[i] = some j ∧ ∀ i', ∀ hi' : i' < m.length, i' < i → f m[i'] = none := by
  induction m with
  | nil => cases h
  | cons x r ih =>
    rw [List.findSome?_cons] at h
    cases hx : f x with
    | some v =>
      rw [hx] at h
      simp only at h
      cases h
      exact ⟨0, by simp, by simpa using hx, fun i' _ hlt => absurd hlt (Nat.not_lt_zero _)⟩
    | none =>
      rw [hx] at h
      simp only at h
      obtain ⟨i, hi, hfi, hbefore⟩ := ih h
      refine ⟨i + 1, by simpa using hi, by simpa using hfi, ?_⟩
      intro i' hi' hlt
      cases i' with
      | zero => simpa using hx
      | succ i'' =>
        simp only [List.getElem_cons_succ]
        exact hbefore i'' (by simpa using hi') (by omega)

/-- the search upwards in `section_insertion_index` finds the nearest earlier keyword that is listed -/
theorem search_up (f : Str → Option Nat) (li : Nat) (hli : li ≤ sections.length) (j : Nat)
    (h : (sections.take li).reverse.findSome? f = some j) :
    ∃ k ∈ sections, rank k < li ∧ f k = some j ∧ ∀ k' ∈ sections, rank k < rank k' → rank k' < li → f k' = none := by
  obtain ⟨i, hi, hfi, hbefore⟩ := findSome_getElem f _ j h
  have hlen : (sections.take li).reverse.length = li := by simp [Nat.min_eq_left hli]
  have hi' : i < li := by omega
  have hidx : li - 1 - i < sections.length := by omega
  have hget : (sections.take li).reverse[i] = sections[li - 1 - i] := by
    rw [List.getElem_reverse, List.getElem_take]
    simp [Nat.min_eq_left hli]
  refine ⟨sections[li - 1 - i], List.getElem_mem _, ?_, by rw [← hget]; exact hfi, ?_⟩
  · rw [rank_getElem]; omega
  · intro k' hk' h1 h2
    rw [rank_getElem] at h1
    -- k' sits at position rank k' of the table, i.e. at position li - 1 - rank k' < i of the reversed prefix
    have hpos : li - 1 - rank k' < (sections.take li).reverse.length := by omega
    have := hbefore (li - 1 - rank k') hpos (by omega)
    have hg : (sections.take li).reverse[li - 1 - rank k'] = k' := by
      rw [List.getElem_reverse, List.getElem_take]
      have : (sections.take li).length - 1 - (li - 1 - rank k') = rank k' := by
        simp [Nat.min_eq_left hli]; omega
      simp only [this]
      exact getElem_rank k' hk'
    rw [hg] at this
    exact this

/-- the search downwards finds the first later keyword that is listed -/
theorem search_down (f : Str → Option Nat) (li : Nat) (j : Nat)
    (h : (sections.drop li).findSome? f = some j) :
    ∃ k ∈ sections, li ≤ rank k ∧ f k = some j ∧ ∀ k' ∈ sections, li ≤ rank k' → rank k' < rank k → f k' = none := by
  obtain ⟨i, hi, hfi, hbefore⟩ := findSome_getElem f _ j h
  have hlen : (sections.drop li).length = sections.length - li := by simp
  have hidx : li + i < sections.length := by omega
  have hget : (sections.drop li)[i] = sections[li + i] := by rw [List.getElem_drop]
  refine ⟨sections[li + i], List.getElem_mem _, by rw [rank_getElem]; omega, by rw [← hget]; exact hfi, ?_⟩
  intro k' hk' h1 h2
  rw [rank_getElem] at h2
  have hpos : rank k' - li < (sections.drop li).length := by omega
  have := hbefore (rank k' - li) hpos (by omega)
  have hg : (sections.drop li)[rank k' - li] = k' := by
    rw [List.getElem_drop]
    have : li + (rank k' - li) = rank k' := by omega
    simp only [this]
    exact getElem_rank k' hk'
  rw [hg] at this
  exact this


theorem findIdx_sections (s : Str) (hs : s ∈ sections) : sections.findIdx? (· == s) = some (rank s) :=
  List.findIdx?_eq_some_iff_findIdx_eq.mpr ⟨rank_lt s hs, rfl⟩

theorem findIdx_some (secs : List Str) (k : Str) (j : Nat) (h : secs.findIdx? (· == k) = some j) :
    ∃ hj : j < secs.length, secs[j] = k := by
  obtain ⟨hj, hp, _⟩ := List.findIdx?_eq_some_iff_getElem.mp h
  exact ⟨hj, by simpa using hp⟩

theorem findIdx_none (secs : List Str) (k : Str) (h : secs.findIdx? (· == k) = none) : k ∉ secs := by
  intro hm
  have := List.findIdx?_eq_none_iff.mp h k hm
  simp at this

theorem mem_take_sections (x : Str) (li : Nat) (hx : x ∈ sections) (hr : rank x < li) : x ∈ sections.take li :=
  List.mem_take_iff_getElem.mpr ⟨rank x, by have := rank_lt x hx; omega, getElem_rank x hx⟩

theorem mem_drop_sections (x : Str) (li : Nat) (hx : x ∈ sections) (hr : li ≤ rank x) : x ∈ sections.drop li := by
  apply List.mem_drop_iff_getElem.mpr
  have hl := rank_lt x hx
  refine ⟨rank x - li, by omega, ?_⟩
  have : li + (rank x - li) = rank x := by omega
  simp only [this]
  exact getElem_rank x hx

theorem ordered_getElem_lt (secs : List Str) (ho : Ordered secs) (p q : Nat) (hp : p < secs.length) (hq : q < secs.length)
    (hpq : p < q) : rank secs[p] < rank secs[q] :=
  List.pairwise_iff_getElem.mp ho.1 p q hp hq hpq

/-- where `section_insertion_index` puts a keyword that is not listed yet, in a list in standard order:
    everything before it is an earlier keyword, everything after it a later one -/
theorem insertion_index_spec (secs : List Str) (s : Str) (ho : Ordered secs) (hs : s ∈ sections) (hns : s ∉ secs) :
    (∀ a ∈ secs.take (sectionInsertionIndex secs s), rank a < rank s) ∧
    (∀ b ∈ secs.drop (sectionInsertionIndex secs s), rank s < rank b) := by
  have hne : ∀ b ∈ secs, rank b ≠ rank s := fun b hb h => hns (rank_inj b s (ho.2 b hb) hs h ▸ hb)
  unfold sectionInsertionIndex
  rw [findIdx_sections s hs]
  cases hr : rank s with
  | zero =>
    refine ⟨fun a ha => ?_, fun b hb => ?_⟩
    · simp at ha
    · have := hne b (List.mem_of_mem_drop hb)
      omega
  | succ li' =>
    simp only
    have hli : li' + 1 ≤ sections.length := by have := rank_lt s hs; omega
    cases hup : (sections.take (li' + 1)).reverse.findSome? (fun k => secs.findIdx? (· == k)) with
    | some j =>
      simp only
      obtain ⟨k, hk, hrk, hfk, hbetween⟩ := search_up _ (li' + 1) hli j hup
      obtain ⟨hj, hsj⟩ := findIdx_some secs k j hfk
      refine ⟨?_, ?_⟩
      · intro a ha
        obtain ⟨p, hp, hpa⟩ := List.mem_take_iff_getElem.mp ha
        have hp' : p < secs.length := by omega
        by_cases hpj : p = j
        · subst hpj; rw [← hpa, hsj]; omega
        · have := ordered_getElem_lt secs ho p j hp' hj (by omega)
          rw [hsj, hpa] at this
          omega
      · intro b hb
        obtain ⟨q, hq, hqb⟩ := List.mem_drop_iff_getElem.mp hb
        have hbm : b ∈ secs := List.mem_of_mem_drop hb
        have h1 := ordered_getElem_lt secs ho j (j + 1 + q) hj (by omega) (by omega)
        rw [hsj, hqb] at h1
        have h2 := hne b hbm
        by_cases hlt : rank b < li' + 1
        · have := hbetween b (ho.2 b hbm) h1 hlt
          exact absurd hbm (findIdx_none secs b this)
        · omega
    | none =>
      simp only
      have hlow : ∀ x ∈ secs, ¬ rank x < li' + 1 := by
        intro x hx hlt
        have hmem : x ∈ (sections.take (li' + 1)).reverse := List.mem_reverse.mpr (mem_take_sections x _ (ho.2 x hx) hlt)
        have := List.findSome?_eq_none_iff.mp hup x hmem
        exact findIdx_none secs x this hx
      cases hdn : (sections.drop (li' + 1)).findSome? (fun k => secs.findIdx? (· == k)) with
      | some j =>
        simp only
        obtain ⟨k, hk, hrk, hfk, hbetween⟩ := search_down _ (li' + 1) j hdn
        obtain ⟨hj, hsj⟩ := findIdx_some secs k j hfk
        refine ⟨?_, ?_⟩
        · intro a ha
          obtain ⟨p, hp, hpa⟩ := List.mem_take_iff_getElem.mp ha
          have hp' : p < secs.length := by omega
          have ham : a ∈ secs := List.mem_of_mem_take ha
          have h1 := ordered_getElem_lt secs ho p j hp' hj (by omega)
          rw [hsj, hpa] at h1
          have h2 := hlow a ham
          have := hbetween a (ho.2 a ham) (by omega) h1
          exact absurd ham (findIdx_none secs a this)
        · intro b hb
          obtain ⟨q, hq, hqb⟩ := List.mem_drop_iff_getElem.mp hb
          have hbm : b ∈ secs := List.mem_of_mem_drop hb
          have h2 := hne b hbm
          have h3 := hlow b hbm
          omega
      | none =>
        simp only
        have hhigh : ∀ x ∈ secs, ¬ li' + 1 ≤ rank x := by
          intro x hx hge
          have := List.findSome?_eq_none_iff.mp hdn x (mem_drop_sections x _ (ho.2 x hx) hge)
          exact findIdx_none secs x this hx
        refine ⟨?_, ?_⟩
        · intro a ha
          have ham : a ∈ secs := List.mem_of_mem_take ha
          have := hlow a ham; have := hhigh a ham
          omega
        · intro b hb
          have hbm : b ∈ secs := List.mem_of_mem_drop hb
          have := hlow b hbm; have := hhigh b hbm
          omega

theorem ordered_insert (secs : List Str) (s : Str) (ho : Ordered secs) (hs : s ∈ sections) :
    Ordered (insertSectionL secs s) := by
  unfold insertSectionL
  by_cases hc : secs.contains s = true
  · rw [hc]; exact ho
  · have hns : s ∉ secs := by simpa using hc
    have hc' : secs.contains s = false := by simpa using hc
    rw [hc']
    simp only [Bool.false_eq_true, if_false, listInsert]
    obtain ⟨hbefore, hafter⟩ := insertion_index_spec secs s ho hs hns
    refine ⟨?_, ?_⟩
    · apply List.pairwise_append.mpr
      refine ⟨List.Pairwise.sublist (List.take_sublist _ _) ho.1, ?_, ?_⟩
      · exact List.pairwise_cons.mpr ⟨hafter, List.Pairwise.sublist (List.drop_sublist _ _) ho.1⟩
      · intro a ha b hb
        rcases List.mem_cons.mp hb with rfl | hb'
        · exact hbefore a ha
        · exact Nat.lt_trans (hbefore a ha) (hafter b hb')
    · intro k hk
      rcases List.mem_append.mp hk with h | h
      · exact ho.2 k (List.mem_of_mem_take h)
      · rcases List.mem_cons.mp h with rfl | h'
        · exact hs
        · exact ho.2 k (List.mem_of_mem_drop h')

theorem ordered_erase (secs : List Str) (s : Str) (ho : Ordered secs) : Ordered (secs.erase s) :=
  ⟨List.Pairwise.sublist (List.erase_sublist) ho.1, fun k hk => ho.2 k (List.mem_of_mem_erase hk)⟩

theorem ordered_nodup (secs : List Str) (ho : Ordered secs) : secs.Nodup :=
  List.Pairwise.imp (fun {a b} (h : rank a < rank b) => fun hab => by rw [hab] at h; exact Nat.lt_irrefl _ h) ho.1

theorem ordered_updateSectionsL (present secs : List Str) (hp : ∀ k ∈ present, k ∈ sections) (ho : Ordered secs) :
    Ordered (updateSectionsL present secs) := by
  unfold updateSectionsL
  simp only []
  have h1 : ∀ (xs : List Str) (l : List Str), (∀ k ∈ xs, k ∈ sections) → Ordered l → Ordered (xs.foldl insertSectionL l) := by
    intro xs
    induction xs with
    | nil => intro l _ h; exact h
    | cons x r ih =>
      intro l hx h
      exact ih _ (fun k hk => hx k (List.mem_cons_of_mem _ hk)) (ordered_insert l x h (hx x (List.mem_cons_self ..)))
  have h2 : ∀ (xs : List Str) (l : List Str), Ordered l → Ordered (xs.foldl deleteSectionL l) := by
    intro xs
    induction xs with
    | nil => intro l h; exact h
    | cons x r ih => intro l h; exact ih _ (ordered_erase l x h)
  apply h2
  apply h1
  · intro k hk; exact hp k (List.mem_filter.mp hk).1
  · exact ho

end Proofs.Convert
