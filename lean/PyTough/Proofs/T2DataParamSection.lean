/-
  C01 proofs, layer 3g: the PARAM section as a whole — three dictionary lines, the MOP string, the time steps of a
  negative `const_timestep`, the default initial conditions and the look-ahead.
-/
import PyTough.Proofs.T2DataRocks
set_option linter.unusedSimpArgs false
namespace Proofs.T2
open Py Model Model.T2 Proofs Proofs.Incon
open Gen.Sections (Rec)

/-- the keywords at which the continuation lines of PARAM stop (as in /repo now: sections and end keywords) -/
def paramStops : List Str := allSections ++ [c!"ENDCY", c!"ENDFI"]

def paramDict1 (d : T2Data) : Dict := d.parameter.set c!"_option_str" (.str (digitsOfOptions d.option))

def paramW (d : T2Data) : Dict :=
  match printBlockUnfixed (paramDict1 d) with
  | .ok p => p
  | .error _ => paramDict1 d

/-- the dictionaries the reader holds after each of the three PARAM lines -/
def paramAfter1 (r1 : Rec) (d d0 : T2Data) : Dict :=
  absorb r1.names (canonVals r1 (lineVals r1 (paramDict1 d))) (paramDict1 d0)

def paramAfter2 (r1 r2 : Rec) (d d0 : T2Data) : Dict :=
  absorb r2.names (canonVals r2 (lineVals r2 (paramW d))) ((paramAfter1 r1 d d0).filter (fun e => e.1 != c!"_option_str"))

def paramAfter3 (r1 r2 r3 : Rec) (d d0 : T2Data) : Dict :=
  absorb r3.names (canonVals r3 (lineVals r3 (paramDict1 d))) (paramAfter2 r1 r2 d d0)

/-- an object whose PARAM section the writer and reader agree on (every condition is decidable): same flavour on
    both sides; `print_block` absent or a string; the MOP string survives its field and decodes to the options;
    the `print_block` read is not blank; `const_timestep` survives its field and, when negative, announces the
    number of time-step lines the list needs; every listed value reads back as a value -/
structure GoodParam (r1 r2 : Rec) (fts fdi : FieldSpec) (d d0 : T2Data) : Prop where
  flavour : d0.autough2 = d.autough2
  fresh : d0.defaultIncons = []
  pbW : printBlockUnfixed (paramDict1 d) = .ok (paramW d)
  mop : ∃ s, (paramAfter1 r1 d d0).get c!"_option_str" = some (.str s) ∧ optionsOfStr s 24 = .ok d.option
  pb : printBlockRead (paramAfter2 r1 r2 d d0) = .ok (paramAfter2 r1 r2 d d0)
  ct : ∃ c, constTimestep (paramDict1 d) = .ok c ∧ constTimestep (paramAfter2 r1 r2 d d0) = .ok c ∧
         (c < 0 → timestepLines c = (d.timestep.length + 8 - 1) / 8)
  tsVals : ∀ x ∈ d.timestep, canonV fts x ≠ .none
  diVals : ∀ x ∈ d.defaultIncons, canonV fdi x ≠ .none

/-- the time steps the reader ends with: the constant one, or (negative `const_timestep`) the listed ones -/
def canonTimesteps (r1 r2 : Rec) (fts : FieldSpec) (d d0 : T2Data) : List Val :=
  match constTimestep (paramAfter2 r1 r2 d d0) with
  | .ok c => if c ≥ 0 then [((paramAfter2 r1 r2 d d0).get c!"const_timestep").getD .none] else d.timestep.map (canonV fts)
  | .error _ => []

/-- **section_roundtrip_PARAM**: the PARAM section written by `write_parameters` — the two flavour-dependent
    dictionary lines with the 24 MOP digits, the time-step lines of a negative `const_timestep`, the third
    dictionary line and the default initial conditions — read by `read_parameters` gives back the parameters
    (entries present under their names, absent ones untouched), the options, the time steps and the default
    initial conditions, and hands the following keyword line back to `read()` -/
theorem section_roundtrip_PARAM {T : Tabs} {r1 r2 r3 rts rdi : Rec} {fts fdi : FieldSpec} (d d0 : T2Data)
    (hT1 : param1Rec T d = .ok r1) (hT2 : T.get c!"param2" = .ok r2) (hT3 : T.get c!"param3" = .ok r3)
    (hTt : T.get c!"timestep" = .ok rts) (hTd : T.get c!"default_incons" = .ok rdi)
    (hr1 : RecWF r1) (hr2 : RecWF r2) (hr3 : RecWF r3) (hts : ChunkRec rts 8 fts) (hdi : ChunkRec rdi 4 fdi)
    (hg : GoodParam r1 r2 fts fdi d d0) {lines : List Str} (hw : writeParameters T d = .ok lines)
    -- no continuation line of the default initial conditions is blank or begins like a keyword (lines of numbers)
    (hcont : ∀ dil, (if d.defaultIncons.length > 0 then
                       writeChunks rdi 4 d.defaultIncons d.defaultIncons.length ((d.defaultIncons.length + 3) / 4)
                     else .ok [nl []]) = .ok dil →
              ∀ l ∈ dil.drop 1, isBlank (padstring l) = false ∧ paramStops.any (startsWith (padstring l)) = false)
    (tail : List Str) (nxt : Option Str) (rest : List Str) (hend : KwEnd paramStops tail nxt rest) :
    ∃ body, lines = nl c!"PARAM" :: body ∧
      readParameters .default T d0 (body ++ tail) =
        .ok ({ d0 with parameter := paramAfter3 r1 r2 r3 d d0, option := d.option,
                       timestep := canonTimesteps r1 r2 fts d d0,
                       defaultIncons := d.defaultIncons.map (canonV fdi) }, nxt, rest) := by
  obtain ⟨c, hc1, hc2, hclines⟩ := hg.ct
  obtain ⟨ostr, hostr, hopts⟩ := hg.mop
  have hT1' : param1Rec T d0 = .ok r1 := by
    unfold param1Rec at hT1 ⊢; rw [hg.flavour]; exact hT1
  have hpbW := hg.pbW
  have hc1' := hc1
  simp only [paramDict1] at hpbW hc1'
  unfold writeParameters at hw
  simp only [hT1, hT2, hT3, hTt, hTd, bind, Except.bind, pure, Except.pure, hpbW, hc1'] at hw
  cases hl1 : writeValueLine r1 (paramDict1 d) with
  | error e => simp only [paramDict1] at hl1; rw [hl1] at hw; cases hw
  | ok l1 =>
    have hl1' := hl1
    simp only [paramDict1] at hl1'
    rw [hl1'] at hw
    simp only at hw
    cases hl2 : writeValueLine r2 (paramW d) with
    | error e => rw [hl2] at hw; cases hw
    | ok l2 =>
      rw [hl2] at hw
      simp only at hw
      cases htsw : writeTimesteps rts c d.timestep with
      | error e => rw [htsw] at hw; cases hw
      | ok tsl =>
        rw [htsw] at hw
        simp only at hw
        cases hl3 : writeValueLine r3 (paramDict1 d) with
        | error e => simp only [paramDict1] at hl3; rw [hl3] at hw; cases hw
        | ok l3 =>
          have hl3' := hl3
          simp only [paramDict1] at hl3'
          rw [hl3'] at hw
          simp only at hw
          cases hdiw : writeDefaultIncons rdi d.defaultIncons with
          | error e => rw [hdiw] at hw; cases hw
          | ok dil =>
            rw [hdiw] at hw
            cases hw
            -- the reader
            have hnil : ∀ c ∈ ([] : Str), isStrWs c = true := by intro c hc; cases hc
            have e1 := valueLine_roundtrip hr1 (paramDict1 d) (paramDict1 d0) hl1 [] hnil
            have e2 := valueLine_roundtrip hr2 (paramW d) ((paramAfter1 r1 d d0).filter (fun e => e.1 != c!"_option_str")) hl2 [] hnil
            have e3 := valueLine_roundtrip hr3 (paramDict1 d) (paramAfter2 r1 r2 d d0) hl3 [] hnil
            rw [List.append_nil] at e1 e2 e3
            have hdi' := hcont dil (by unfold writeDefaultIncons at hdiw; exact hdiw)
            obtain ⟨l4, more, hdil, hrdi⟩ := default_incons_roundtrip hdi paramStops d.defaultIncons hg.diVals
              (by unfold writeDefaultIncons at hdiw; exact hdiw) hdi' tail nxt rest hend
            subst hdil
            -- time steps
            have htsr : readTimesteps .default rts (paramAfter2 r1 r2 d d0) c (tsl ++ (l3 :: (l4 :: more ++ tail))) =
                .ok (canonTimesteps r1 r2 fts d d0, l3 :: (l4 :: more ++ tail)) := by
              unfold readTimesteps canonTimesteps writeTimesteps at *
              rw [hc2]
              by_cases hneg : c < 0
              · have hge : ¬ c ≥ 0 := by
                  intro h; exact absurd hneg (Rat.not_lt.mpr h)
                rw [if_pos hneg] at htsw
                rw [hclines hneg] at htsw ⊢
                simp only [hge, if_false]
                obtain ⟨vs, hrd, hvs⟩ := chunked_roundtrip_nonNone hts (by decide) d.timestep hg.tsVals htsw
                  (l3 :: (l4 :: more ++ tail))
                rw [hrd]
                simp only [hvs]
              · have hge : c ≥ 0 := Rat.not_lt.mp hneg
                rw [if_neg hneg] at htsw
                cases htsw
                simp only [hge, if_true, List.nil_append]
            refine ⟨l1 :: l2 :: (tsl ++ (l3 :: (l4 :: more))), by simp, ?_⟩
            unfold readParameters
            have hbody : (l1 :: l2 :: (tsl ++ (l3 :: (l4 :: more)))) ++ tail = l1 :: l2 :: (tsl ++ (l3 :: (l4 :: more ++ tail))) := by
              simp
            rw [hbody]
            simp only [readline, hT1', hT2, hT3, hTt, hTd, bind, Except.bind, pure, Except.pure]
            have e1' : readValueLine .default r1 (d0.parameter.set c!"_option_str" (.str (digitsOfOptions d0.option))) l1 =
                .ok (paramAfter1 r1 d d0) := e1
            rw [e1']
            simp only [hostr, Val.str?, hopts]
            have e2' : readValueLine .default r2 ((paramAfter1 r1 d d0).filter (fun e => e.1 != c!"_option_str")) l2 =
                .ok (paramAfter2 r1 r2 d d0) := e2
            rw [e2']
            simp only [hg.pb, hc2, htsr]
            have e3' : readValueLine .default r3 (paramAfter2 r1 r2 d d0) l3 = .ok (paramAfter3 r1 r2 r3 d d0) := e3
            rw [e3']
            simp only
            have hrd' : readDefaultIncons .default rdi [] l4 (more ++ tail) =
                .ok (d.defaultIncons.map (canonV fdi), nxt, rest) := by
              unfold readDefaultIncons
              have := hrdi
              unfold paramStops at this
              revert this
              cases readValues .default rdi l4 with
              | error e => intro h; cases h
              | ok di =>
                simp only [List.nil_append]
                cases untilKeyword .default rdi (allSections ++ [c!"ENDCY", c!"ENDFI"]) (more ++ tail) with
                | error e => intro h; cases h
                | ok x =>
                  obtain ⟨m, n, r'⟩ := x
                  intro h
                  exact h
            simp only [List.cons_append, readline, hg.fresh, hrd']

end Proofs.T2
