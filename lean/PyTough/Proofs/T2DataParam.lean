/-
  C01 proofs, layer 3e: the list parts of PARAM — time steps (negative `const_timestep`) and the default initial
  conditions with their continuation lines and the look-ahead into the next section.
-/
import PyTough.Proofs.T2DataGener
namespace Proofs.T2
open Py Model Model.T2 Proofs Proofs.Incon
open Gen.Sections (Rec)

theorem trim_canon_nones {vs : List Val} (h : ∀ v ∈ vs, v ≠ Val.none) (m : Nat) :
    trimTrailingNones (vs ++ List.replicate m Val.none) = vs := by
  unfold trimTrailingNones
  rw [List.reverse_append, List.reverse_replicate]
  have h1 : ∀ (k : Nat) (l : List Val), (List.replicate k Val.none ++ l).dropWhile (· == Val.none) = l.dropWhile (· == Val.none) := by
    intro k
    induction k with
    | zero => intro l; rfl
    | succ k ih => intro l; rw [List.replicate_succ, List.cons_append, List.dropWhile_cons]; simp [ih]
  rw [h1]
  have h2 : vs.reverse.dropWhile (· == Val.none) = vs.reverse := by
    cases hr : vs.reverse with
    | nil => rfl
    | cons a as =>
      have : a ∈ vs := by rw [← List.mem_reverse, hr]; simp
      rw [List.dropWhile_cons]
      have hne : (a == Val.none) = false := by simpa using h a this
      simp [hne]
  rw [h2, List.reverse_reverse]

/-- one chunk line read back through `padstring` -/
theorem chunkLine_read_pad {r : Rec} {n : Nat} {f0 : FieldSpec} (hr : ChunkRec r n f0)
    (xs : List Val) (i : Nat) {l : Str} (h : chunkLine r n xs xs.length i = .ok l) :
    readValues .default r (padstring l) =
      .ok ((((xs.drop (i * n)).take n).map (canonV f0)) ++
           List.replicate (n - ((xs.drop (i * n)).take n).length) Val.none) := by
  unfold chunkLine at h
  rw [chunk_slice] at h
  have hcl0 : ((xs.drop (i * n)).take n).length ≤ n := by simp [List.length_take]; omega
  generalize (xs.drop (i * n)).take n = c at h hcl0 ⊢
  have hcl : c.length ≤ n := hcl0
  simp only at h
  have hvl : (c ++ List.replicate (n - c.length) Val.none).length = r.fs.length := by
    rw [hr.len]; simp; omega
  have hvalid : ∀ f ∈ r.fs, ValidTyp f.typ := fun f hf => by rw [hr.uniform f hf]; exact NumericTyp.valid hr.numeric
  have hnum : ∀ f ∈ r.fs.drop (c ++ List.replicate (n - c.length) Val.none).length, NumericTyp f.typ := by
    rw [hvl, List.drop_length]; intro f hf; cases hf
  rw [padstring_eq, readValues_written r _ hvalid hnum h _ (spaces_ws _), hvl, List.drop_length, List.map_nil, List.append_nil,
    hr.fs_eq, map_zip_replicate f0 n _ (by simp; omega), List.map_append, List.map_replicate, canonV_none hr.numeric]

/-- the rows `k` chunk lines hold: the values present, line by line -/
def rowsOf (f0 : FieldSpec) (n : Nat) : Nat → List Val → List (List Val)
  | 0, _ => []
  | k + 1, ys => (ys.take n).map (canonV f0) :: rowsOf f0 n k (ys.drop n)

theorem rowsOf_flatten (f0 : FieldSpec) (n : Nat) : ∀ k ys, ys.length ≤ k * n →
    (rowsOf f0 n k ys).flatten = ys.map (canonV f0) := by
  intro k
  induction k with
  | zero => intro ys h; simp at h; subst h; rfl
  | succ k ih =>
    intro ys h
    simp only [rowsOf, List.flatten_cons]
    rw [ih (ys.drop n) (by simp [List.length_drop]; rw [Nat.succ_mul] at h; omega), ← List.map_append, List.take_append_drop]

/-- the continuation lines of a chunked list, as `untilKeyword` sees them: every line is read as the values it
    holds (padding trimmed), provided it holds at least one value and is not taken for a keyword line -/
theorem chunk_lines_rt {r : Rec} {n : Nat} {f0 : FieldSpec} (hr : ChunkRec r n f0) (_hn : 0 < n) (kws : List Str)
    (xs : List Val) (hx : ∀ x ∈ xs, canonV f0 x ≠ Val.none) :
    ∀ (k i : Nat) (lines : List Str), writeChunksFrom r n xs xs.length i k = .ok lines →
      (i + k) * n < xs.length + n →
      (∀ l ∈ lines, isBlank (padstring l) = false ∧ kws.any (startsWith (padstring l)) = false) →
      All2 (LineRT r kws) lines (rowsOf f0 n k (xs.drop (i * n))) := by
  intro k
  induction k with
  | zero => intro i lines h _ _; simp only [writeChunksFrom] at h; cases h; exact .nil
  | succ k ih =>
    intro i lines h hlt hok
    simp only [writeChunksFrom] at h
    cases hl : chunkLine r n xs xs.length i with
    | error e => rw [hl] at h; cases h
    | ok l =>
      rw [hl] at h
      cases hrest : writeChunksFrom r n xs xs.length (i + 1) k with
      | error e => rw [hrest] at h; cases h
      | ok ls =>
        rw [hrest] at h
        cases h
        have hl' := hok l (by simp)
        refine .cons ⟨hl'.1, hl'.2, _, chunkLine_read_pad hr xs i hl, ?_⟩ ?_
        · apply trim_canon_nones
          intro v hv
          obtain ⟨x, hxm, rfl⟩ := List.mem_map.mp hv
          exact hx x (List.mem_of_mem_drop (List.mem_of_mem_take hxm))
        · have := ih (i + 1) ls hrest (by rw [Nat.add_assoc, Nat.add_comm 1 k]; exact hlt)
            (fun l hlm => hok l (List.mem_cons_of_mem _ hlm))
          rw [Nat.succ_mul] at this
          rw [List.drop_drop]
          exact this

/-- **default initial conditions of PARAM** (0, 1, …, 4, 5, …, 12, … values): written in lines of four — or as one
    blank line when there are none — and followed by a blank line, the next section's keyword line or the end of
    the file, they are read back (first line by `read_values`, the rest by the continuation loop) as exactly the
    values written, and a following keyword line is handed back to `read()` -/
theorem default_incons_roundtrip {r : Rec} {f0 : FieldSpec} (hr : ChunkRec r 4 f0) (kws : List Str)
    (xs : List Val) (hx : ∀ x ∈ xs, canonV f0 x ≠ Val.none) {lines : List Str}
    (hw : (if xs.length > 0 then writeChunks r 4 xs xs.length ((xs.length + 3) / 4) else .ok [nl []]) = .ok lines)
    (hok : ∀ l ∈ lines.drop 1, isBlank (padstring l) = false ∧ kws.any (startsWith (padstring l)) = false)
    (tail : List Str) (nxt : Option Str) (rest : List Str) (hend : KwEnd kws tail nxt rest) :
    ∃ l4 more, lines = l4 :: more ∧
      (match readValues .default r l4 with
       | .error e => .error e
       | .ok di =>
         match untilKeyword .default r kws (more ++ tail) with
         | .error e => .error e
         | .ok (m, n, r') => .ok (trimTrailingNones di ++ m, n, r')) = Except.ok (xs.map (canonV f0), nxt, rest) := by
  by_cases h0 : xs.length > 0
  · rw [if_pos h0] at hw
    obtain ⟨k, hk⟩ : ∃ k, (xs.length + 3) / 4 = k + 1 := ⟨(xs.length + 3) / 4 - 1, by omega⟩
    rw [hk] at hw
    unfold writeChunks at hw
    simp only [writeChunksFrom] at hw
    cases hl : chunkLine r 4 xs xs.length 0 with
    | error e => rw [hl] at hw; cases hw
    | ok l4 =>
      rw [hl] at hw
      cases hrest : writeChunksFrom r 4 xs xs.length (0 + 1) k with
      | error e => rw [hrest] at hw; cases hw
      | ok more =>
        rw [hrest] at hw
        cases hw
        refine ⟨l4, more, rfl, ?_⟩
        have h1 := chunkLine_read hr xs 0 hl
        simp only [Nat.zero_mul, List.drop_zero] at h1
        rw [h1]
        have hrows := chunk_lines_rt hr (by decide) kws xs hx k 1 more hrest (by omega)
          (fun l hlm => hok l (by simpa using hlm))
        rw [untilKeyword_roundtrip r kws more _ hrows tail nxt rest hend]
        simp only
        rw [trim_canon_nones (by
          intro v hv
          obtain ⟨x, hxm, rfl⟩ := List.mem_map.mp hv
          exact hx x (List.mem_of_mem_take hxm))]
        rw [rowsOf_flatten f0 4 k _ (by simp [List.length_drop]; omega), Nat.one_mul, ← List.map_append, List.take_append_drop]
  · rw [if_neg h0] at hw
    cases hw
    have hnil : xs = [] := List.length_eq_zero_iff.mp (by omega)
    subst hnil
    refine ⟨nl [], [], rfl, ?_⟩
    have hvalid : ∀ f ∈ r.fs, ValidTyp f.typ := fun f hf => by rw [hr.uniform f hf]; exact NumericTyp.valid hr.numeric
    have hb : readValues .default r (nl []) = .ok (List.replicate 4 Val.none) := by
      have hnum : ∀ f ∈ r.fs.drop ([] : List Val).length, NumericTyp f.typ := by
        intro f hf; rw [hr.uniform f (List.mem_of_mem_drop hf)]; exact hr.numeric
      have hwl : writeValuesLine r [] = .ok (nl []) := rfl
      have := readValues_written r [] hvalid hnum hwl [] (by intro c hc; cases hc)
      rw [List.append_nil] at this
      rw [this, hr.fs_eq]
      simp
    rw [hb]
    have := untilKeyword_roundtrip r kws [] [] .nil tail nxt rest hend
    simp only [List.nil_append, List.flatten_nil] at this
    simp only [List.nil_append, this]
    rfl

end Proofs.T2
