/-
  C19: the block_mapping theorems in the form quoted by Props/C19.lean.
-/
import PyTough.Proofs.MappingIdentity
namespace Proofs.Mapping
open Py Model.Mapping

theorem total_partial (q : List (Rat × Rat) → Rat × Rat → Nat) (hq : IsNearest q) (s t : Geo)
    (hs : srcOK s = true) (ht : tgtOK t = true) (ha : atmOK s t = true) :
    ∃ m cm tnames snames,
      blockMapping q s t = .ok (m, cm) ∧ t.blockNameList = .ok tnames ∧ s.blockNameList = .ok snames ∧
      (∀ d ∈ tnames, ∃ v, dget m d = .ok v) ∧
      (∀ un, t.underNames = .ok un → ∀ d ∈ un, ∃ v, dget m d = .ok v ∧ v ∈ snames ∧
          ∃ sun, s.underNames = .ok sun ∧ v ∈ sun) ∧
      (∀ an, t.atmNames = .ok an → s.atm ≤ 1 → ∀ d ∈ an, ∃ v, dget m d = .ok v ∧ v ∈ snames ∧
          ∃ san, s.atmNames = .ok san ∧ v ∈ san) ∧
      (∀ c ∈ t.cols, ∃ C ∈ s.cols, dget cm c.name = .ok C.name) := by
  have hsw := srcWF_of s hs
  have htw := tgtWF_of t ht
  obtain ⟨m, cm, an, un, san, sun, g0, s0, hbm, han, hun, hnames, hsan, hsun, hsnames, hg0, hs0, hcols, hunder, hatm0, hatm1⟩ :=
    blockMapping_main q hq s t hsw htw ha
  obtain ⟨g0', grest, hgl⟩ := htw.lays
  have hg0' : g0' = g0 := by rw [hgl] at hg0; simpa using hg0
  subst hg0'
  obtain ⟨s0', s1, srest, hsl⟩ := hsw.lays
  have hs0' : s0' = s0 := by rw [hsl] at hs0; simpa using hs0
  subst hs0'
  obtain ⟨un', hun', hunm⟩ := underNames_spec t htw.names htw.dmplex
  rw [hun] at hun'; cases hun'
  obtain ⟨an', han', han0, han1, han2⟩ := atmNames_spec t htw.names g0' grest hgl
  rw [han] at han'; cases han'
  obtain ⟨san', hsan', hsan0, hsan1, hsan2⟩ := atmNames_spec s hsw.names s0' (s1 :: srest) hsl
  rw [hsan] at hsan'; cases hsan'
  -- underground blocks
  have hU : ∀ d ∈ un, ∃ v, dget m d = .ok v ∧ v ∈ san ++ sun ∧ v ∈ sun := by
    intro d hd
    obtain ⟨p, hp, hn⟩ := (hunm d).mp hd
    rw [tgt_under_name t htw p.1 p.2 hp] at hn; cases hn
    obtain ⟨C, S, L', v, _, _, _, _, _, _, hv, hget⟩ := hunder p.1 p.2 hp
    exact ⟨v, hget, List.mem_append_right _ hv, hv⟩
  -- atmosphere blocks
  have hA : ∀ d ∈ an, ∃ v, dget m d = .ok v ∧ (s.atm ≤ 1 → v ∈ san) := by
    intro d hd
    by_cases h0 : t.atm = 0
    · obtain ⟨hs0a, v, e1, e2, e3⟩ := hatm0 h0
      rw [e1] at hd; simp only [List.mem_singleton] at hd; subst hd
      exact ⟨v, e3, fun _ => by rw [e2]; simp⟩
    · by_cases h1 : t.atm = 1
      · obtain ⟨c, hc, hn⟩ := (han1 h1 d).mp hd
        rw [tgt_atm_name t htw g0' grest hgl c.name (List.mem_cons_of_mem _ (List.mem_map.mpr ⟨c, hc, rfl⟩))] at hn
        cases hn
        obtain ⟨C, v, hC, _, hv, hget⟩ := hatm1 h1 c hc
        refine ⟨v, hget, fun hle => ?_⟩
        by_cases hs0a : s.atm = 0
        · obtain ⟨n, hn, hsane⟩ := hsan0 hs0a
          rw [if_pos hs0a, hn] at hv; cases hv
          rw [hsane]; simp
        · have hs1 : s.atm = 1 := by omega
          rw [if_neg hs0a] at hv
          exact (hsan1 hs1 v).mpr ⟨C, hC.1, hv⟩
      · rw [han2 h0 h1] at hd; cases hd
  refine ⟨m, cm, an ++ un, san ++ sun, hbm, hnames, hsnames, ?_, ?_, ?_, ?_⟩
  · intro d hd
    rcases List.mem_append.mp hd with hd | hd
    · obtain ⟨v, hv, _⟩ := hA d hd; exact ⟨v, hv⟩
    · obtain ⟨v, hv, _⟩ := hU d hd; exact ⟨v, hv⟩
  · intro un' hun' d hd
    rw [hun] at hun'; cases hun'
    obtain ⟨v, h1, h2, h3⟩ := hU d hd
    exact ⟨v, h1, h2, sun, hsun, h3⟩
  · intro an' han' hle d hd
    rw [han] at han'; cases han'
    obtain ⟨v, h1, h2⟩ := hA d hd
    exact ⟨v, h1, List.mem_append_left _ (h2 hle), san, hsan, h2 hle⟩
  · intro c hc
    obtain ⟨C, hC, hget⟩ := hcols c hc
    exact ⟨C, hC.1, hget⟩

theorem spec_partial (q : List (Rat × Rat) → Rat × Rat → Nat) (hq : IsNearest q) (s t : Geo)
    (hs : srcOK s = true) (ht : tgtOK t = true) (ha : atmOK s t = true) :
    ∃ m cm, blockMapping q s t = .ok (m, cm) ∧
      (∀ c ∈ t.cols, ∃ C, NearestCol s c.centre C ∧ dget cm c.name = .ok C.name) ∧
      ∀ l c, (l, c) ∈ t.underPairs →
        ∃ C S L', NearestCol s c.centre C ∧ NearestLay (s.lays.drop 1) l.centre S ∧
          (if C.surface ≤ S.bottom then s.firstBelow C = some L' else L' = S) ∧
          (L', C) ∈ s.underPairs ∧
          ∃ d v, blockName t.conv l.name c.name = .ok d ∧ blockName s.conv L'.name C.name = .ok v ∧
            dget m d = .ok v := by
  have hsw := srcWF_of s hs
  have htw := tgtWF_of t ht
  obtain ⟨m, cm, an, un, san, sun, g0, s0, hbm, _, _, _, _, _, _, _, _, hcols, hunder, _, _⟩ :=
    blockMapping_main q hq s t hsw htw ha
  refine ⟨m, cm, hbm, hcols, ?_⟩
  intro l c hp
  obtain ⟨C, S, L', v, h1, h2, h3, h4, h5, _, _, h8⟩ := hunder l c hp
  exact ⟨C, S, L', h1, h2, h3, h4, _, v, tgt_under_name t htw l c hp, h5, h8⟩

theorem atmosphere_partial (q : List (Rat × Rat) → Rat × Rat → Nat) (hq : IsNearest q) (s t : Geo)
    (hs : srcOK s = true) (ht : tgtOK t = true) (ha : atmOK s t = true) :
    ∃ m cm g0 s0, blockMapping q s t = .ok (m, cm) ∧ t.lays.head? = some g0 ∧ s.lays.head? = some s0 ∧
      (t.atm = 0 → s.atm = 0 ∧ ∃ d v, t.atmNames = .ok [d] ∧ s.atmNames = .ok [v] ∧ dget m d = .ok v) ∧
      (t.atm = 1 → ∀ c ∈ t.cols, ∃ C, NearestCol s c.centre C ∧
          ∃ d v, blockName t.conv g0.name c.name = .ok d ∧
            blockName s.conv s0.name (if s.atm = 0 then atmColName s.conv else C.name) = .ok v ∧
            dget m d = .ok v) := by
  have hsw := srcWF_of s hs
  have htw := tgtWF_of t ht
  obtain ⟨m, cm, an, un, san, sun, g0, s0, hbm, han, _, _, hsan, _, _, hg0, hs0, _, _, hatm0, hatm1⟩ :=
    blockMapping_main q hq s t hsw htw ha
  obtain ⟨g0', grest, hgl⟩ := htw.lays
  have hg0' : g0' = g0 := by rw [hgl] at hg0; simpa using hg0
  subst hg0'
  refine ⟨m, cm, g0', s0, hbm, hg0, hs0, ?_, ?_⟩
  · intro h0
    obtain ⟨hsa, v, e1, e2, e3⟩ := hatm0 h0
    exact ⟨hsa, _, v, by rw [han, e1], by rw [hsan, e2], e3⟩
  · intro h1 c hc
    obtain ⟨C, v, hC, _, hv, hget⟩ := hatm1 h1 c hc
    exact ⟨C, hC, _, v, tgt_atm_name t htw g0' grest hgl c.name
      (List.mem_cons_of_mem _ (List.mem_map.mpr ⟨c, hc, rfl⟩)), hv, hget⟩

theorem identity (q : List (Rat × Rat) → Rat × Rat → Nat) (hq : IsNearest q) (g : Geo)
    (hs : srcOK g = true) (ht : tgtOK g = true) (hd : distinctCentres g = true) :
    ∃ m cm names, blockMapping q g g = .ok (m, cm) ∧ g.blockNameList = .ok names ∧
      (∀ d ∈ names, dget m d = .ok d) ∧ (∀ c ∈ g.cols, dget cm c.name = .ok c.name) :=
  blockMapping_identity q hq g (srcWF_of g hs) (tgtWF_of g ht) hd

theorem keyError_general (q : List (Rat × Rat) → Rat × Rat → Nat) (hq : IsNearest q) (s t : Geo)
    (hs : srcOK s = true) (ht : tgtOK t = true) (h0 : t.atm = 0) (hsa : s.atm ≠ 0)
    (hnc : ∀ c ∈ t.cols, c.name ≠ atmColName t.conv) :
    blockMapping q s t = .error .keyError :=
  blockMapping_keyError q hq s t (srcWF_of s hs) (tgtWF_of t ht) h0 hsa hnc

end Proofs.Mapping
