/-
  Layer operations: `set_column_num_layers` for every column establishes the layer-count clause;
  `copy_layers_from` yields the whole invariant.
-/
import PyTough.Proofs.GeoRun
namespace Proofs.Geo
open Model.Geo Model.Geo.Geo Py

/-- a geometry differing from `g` only in the `num_layers` of its columns -/
structure NumLayersFrame (g g' : Geo) : Prop where
  eq : ∃ C', g' = { g with C := C' } ∧ C'.size = g.C.size
  colSame : ∀ j, { (g'.col j) with numLayers := 0 } = { (g.col j) with numLayers := 0 }

theorem NumLayersFrame.refl (g : Geo) : NumLayersFrame g g := ⟨⟨g.C, rfl, rfl⟩, fun _ => rfl⟩

theorem NumLayersFrame.trans {a b c : Geo} (h1 : NumLayersFrame a b) (h2 : NumLayersFrame b c) :
    NumLayersFrame a c := by
  obtain ⟨C1, e1, s1⟩ := h1.eq
  obtain ⟨C2, e2, s2⟩ := h2.eq
  refine ⟨⟨C2, ?_, ?_⟩, fun j => (h2.colSame j).trans (h1.colSame j)⟩
  · rw [e2, e1]
  · rw [s2, e1]; exact s1

theorem setColumnNumLayers_frame (g g' : Geo) (c : Nat) (h : g.setColumnNumLayers c = .ok g') :
    NumLayersFrame g g' ∧ (c < g.C.size → (g'.col c).numLayers = g'.expectedNumLayers c) := by
  unfold setColumnNumLayers at h
  cases hs : (g.col c).surface with
  | none => rw [hs] at h; cases h
  | some s =>
    rw [hs] at h
    simp only [Except.ok.injEq] at h
    subst h
    refine ⟨⟨⟨_, rfl, by simp [updCol]⟩, ?_⟩, ?_⟩
    · intro j
      by_cases hc : c < g.C.size
      · rw [updCol_col _ _ _ _ hc]; split
        · rename_i e; subst e; rfl
        · rfl
      · simp only [updCol, modify_oob _ _ _ hc]
    · intro hc
      rw [updCol_col _ _ _ _ hc, if_pos rfl]
      simp only [expectedNumLayers]
      rw [updCol_col _ _ _ _ hc, if_pos rfl]
      simp only [hs]
      rfl

end Proofs.Geo

namespace Proofs.Geo
open Model.Geo Model.Geo.Geo Py

theorem NumLayersFrame.surface {g g' : Geo} (h : NumLayersFrame g g') (j : Nat) :
    (g'.col j).surface = (g.col j).surface := congrArg (·.surface) (h.colSame j)

theorem NumLayersFrame.expected {g g' : Geo} (h : NumLayersFrame g g') (j : Nat) :
    g'.expectedNumLayers j = g.expectedNumLayers j := by
  obtain ⟨C', e, _⟩ := h.eq
  simp only [expectedNumLayers, h.surface j]
  subst e
  rfl

theorem setColumnNumLayers_other (g g' : Geo) (c j : Nat) (h : g.setColumnNumLayers c = .ok g') (hne : c ≠ j) :
    (g'.col j).numLayers = (g.col j).numLayers := by
  unfold setColumnNumLayers at h
  cases hs : (g.col c).surface with
  | none => rw [hs] at h; cases h
  | some s =>
    rw [hs] at h
    simp only [Except.ok.injEq] at h
    subst h
    by_cases hc : c < g.C.size
    · rw [updCol_col _ _ _ _ hc, if_neg hne]
    · simp only [updCol, modify_oob _ _ _ hc]

/-- `for col in self.columnlist: self.set_column_num_layers(col)` -/
theorem setNumLayers_fold : ∀ (cols : List Nat) (g g' : Geo),
    cols.foldlM (fun (g : Geo) c => g.setColumnNumLayers c) g = .ok g' → (∀ c ∈ cols, c < g.C.size) →
    NumLayersFrame g g' ∧
      ∀ j, (j ∈ cols → (g'.col j).numLayers = g'.expectedNumLayers j) ∧
           (j ∉ cols → (g'.col j).numLayers = (g.col j).numLayers)
  | [], g, g', hf, _ => by
    simp only [List.foldlM_nil, pure, Except.pure, Except.ok.injEq] at hf
    subst hf
    exact ⟨NumLayersFrame.refl g, fun j => ⟨fun h => absurd h (List.not_mem_nil), fun _ => rfl⟩⟩
  | c :: t, g, g', hf, hb => by
    simp only [List.foldlM_cons] at hf
    obtain ⟨g2, h2, hf'⟩ := bind_ok hf
    obtain ⟨hfr2, hset⟩ := setColumnNumLayers_frame g g2 c h2
    have hsz : g2.C.size = g.C.size := by
      obtain ⟨C', e, s⟩ := hfr2.eq; rw [e]; exact s
    obtain ⟨hfr, ih⟩ := setNumLayers_fold t g2 g' hf' (by
      intro x hx; rw [hsz]; exact hb x (List.mem_cons_of_mem _ hx))
    refine ⟨hfr2.trans hfr, fun j => ⟨?_, ?_⟩⟩
    · intro hj
      by_cases hjt : j ∈ t
      · exact (ih j).1 hjt
      · have hjc : j = c := by
          rcases List.mem_cons.mp hj with e | e
          · exact e
          · exact absurd e hjt
        subst hjc
        rw [(ih j).2 hjt, hset (hb j List.mem_cons_self), hfr.expected j]
    · intro hj
      have hjt : j ∉ t := fun e => hj (List.mem_cons_of_mem _ e)
      have hjc : c ≠ j := fun e => hj (e ▸ List.mem_cons_self)
      rw [(ih j).2 hjt, setColumnNumLayers_other g g2 c j h2 hjc]

end Proofs.Geo

namespace Proofs.Geo
open Model.Geo Model.Geo.Geo Py

theorem NumLayersFrame.sameStructure {g g' : Geo} (h : NumLayersFrame g g') : SameStructure g g' := by
  obtain ⟨C', e, s⟩ := h.eq
  have hc := h.colSame
  subst e
  exact { convention := rfl, atmosType := rfl, nodelist := rfl, nodeD := rfl, columnlist := rfl, columnD := rfl,
          connlist := rfl, connD := rfl, layerlist := rfl, layerD := rfl, welllist := rfl, wellD := rfl, K := rfl,
          Nsize := rfl, Csize := s, Lsize := rfl, Wsize := rfl, nodeName := fun _ => rfl, nodeCols := fun _ => rfl,
          colName := fun j => congrArg (·.name) (hc j), colNodes := fun j => congrArg (·.nodes) (hc j),
          colCons := fun j => congrArg (·.cons) (hc j), colNbrs := fun j => congrArg (·.nbrs) (hc j),
          layName := fun _ => rfl, wellName := fun _ => rfl }

theorem NumLayersFrame.keeps_geoInv0 {g g' : Geo} (h : NumLayersFrame g g') (hi : g.geoInv0 = true) : g'.geoInv0 = true := by
  apply geoInv0_congr h.sameStructure _ hi
  have ho : g.orientOK = true := by simp only [geoInv0, Bool.and_eq_true] at hi; exact hi.2
  obtain ⟨C', e, s⟩ := h.eq
  have hc := h.colSame
  subst e
  simp only [orientOK, List.all_eq_true, Bool.and_eq_true, decide_eq_true_eq] at ho ⊢
  intro c hcm
  have h1 : (({ g with C := C' } : Geo).col c).nodes = (g.col c).nodes := congrArg (·.nodes) (hc c)
  have h2 : (({ g with C := C' } : Geo).col c).area = (g.col c).area := congrArg (·.area) (hc c)
  rw [h1, h2]
  exact ho c hcm

theorem clearLayers_geoInv0 (g : Geo) (h : g.geoInv0 = true) : g.clearLayers.geoInv0 = true := by
  simp only [geoInv0, Bool.and_eq_true] at h ⊢
  obtain ⟨⟨⟨⟨⟨⟨hh, hr⟩, hnc⟩, hcc⟩, hnb⟩, hcn⟩, ho⟩ := h
  refine ⟨⟨⟨⟨⟨⟨?_, ?_⟩, hnc⟩, hcc⟩, hnb⟩, hcn⟩, ho⟩
  · simp only [heapOK, clearLayers, Bool.and_eq_true] at hh ⊢
    exact ⟨⟨hh.1.1, rfl⟩, hh.2⟩
  · simp only [registriesOK, clearLayers, Bool.and_eq_true] at hr ⊢
    exact ⟨⟨⟨hr.1.1.1, by simp [regOK, Dict.get?]⟩, hr.1.2⟩, hr.2⟩

theorem foldl_addLayer_geoInv0 : ∀ (ls : List Layer) (g : Geo), g.geoInv0 = true → (ls.foldl addLayer g).geoInv0 = true
  | [], _, h => h
  | l :: t, g, h => foldl_addLayer_geoInv0 t (g.addLayer l) (addLayer_geoInv0 g l h)

theorem setupNames_layersOK (g g' : Geo) (hs : g.setupNames = .ok g') (h : g.layersOK = true) : g'.layersOK = true := by
  unfold setupNames at hs
  obtain ⟨g1, h1, h2⟩ := bind_ok hs
  unfold setupBlockNames at h1
  obtain ⟨b, _, h1'⟩ := bind_ok h1
  unfold setupConnNames at h2
  obtain ⟨c, _, h2'⟩ := bind_ok h2
  simp only [pure, Except.pure, Except.ok.injEq] at h1' h2'
  subst h1'; subst h2'
  exact h

/-- `copy_layers_from(geo)`: whatever the layer counts and name lists were before, afterwards the WHOLE invariant
    holds (every column's layer count is recomputed from its surface, then the name lists) -/
theorem copyLayersFrom_geoInv (g g' : Geo) (layers : List Layer) (hc : g.copyLayersFrom layers = .ok g')
    (h : g.geoInv0 = true) : g'.geoInv = true := by
  unfold copyLayersFrom at hc
  obtain ⟨g2, h2, h3⟩ := bind_ok hc
  have h1 := foldl_addLayer_geoInv0 layers g.clearLayers (clearLayers_geoInv0 g h)
  have hh : (layers.foldl addLayer g.clearLayers).heapOK = true := by
    simp only [geoInv0, Bool.and_eq_true] at h1; exact h1.1.1.1.1.1.1
  obtain ⟨hfr, hnl⟩ := setNumLayers_fold _ _ g2 h2 (heapOK_cols hh)
  have hg2 := hfr.keeps_geoInv0 h1
  have hcl : g2.columnlist = (layers.foldl addLayer g.clearLayers).columnlist := hfr.sameStructure.columnlist
  have hl2 : g2.layersOK = true := by
    simp only [layersOK, List.all_eq_true, decide_eq_true_eq]
    intro c hcm
    exact (hnl c).1 (hcl ▸ hcm)
  simp only [geoInv, Bool.and_eq_true]
  exact ⟨⟨setupNames_geoInv0 g2 g' h3 hg2, setupNames_layersOK g2 g' h3 hl2⟩, setupNames_fresh g2 g' h3⟩

end Proofs.Geo
